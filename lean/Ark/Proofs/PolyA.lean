import Ark.Model.Poly
import Mathlib.Tactic.Ring
import Mathlib.Tactic.Linarith
import Mathlib.Algebra.BigOperators.Group.Finset.Basic
import Mathlib.Algebra.BigOperators.Ring.Finset
import Mathlib.Algebra.BigOperators.Intervals
import Mathlib.Algebra.Polynomial.Basic
import Mathlib.Algebra.Polynomial.Coeff
import Mathlib.Algebra.Polynomial.Degree.Defs
import Mathlib.Algebra.Polynomial.Eval.Defs
import Mathlib.Algebra.Polynomial.FieldDivision
/-
  Ark.Proofs.PolyA — helper lemmas for property C08 (part a): the DENSE univariate polynomial
  operators of `Ark.Model.Poly`.

  Vocabulary: `coeff p i = p.getD i 0` (coefficient function of a stored vector),
  `Canon p` (no stored leading zero), `convF f g k = Σ_{i ≤ k} f i · g (k − i)` and
  `conv a b = convF (coeff a) (coeff b)` (Cauchy product), `toPoly p : Polynomial F`.
-/
namespace Ark.Poly.A
open Ark Ark.Poly

set_option linter.unusedSectionVars false

/-! ## 0. vocabulary -/

section Defs
variable {F : Type} [Zero F]

/-- coefficient function of a stored coefficient vector -/
def coeff (p : List F) (i : Nat) : F := p.getD i 0

/-- canonical form: no stored leading zero coefficient (`[]` is the zero polynomial) -/
def Canon (p : List F) : Prop := p.getLast? ≠ some 0

@[simp] theorem coeff_nil (i : Nat) : coeff ([] : List F) i = 0 := by simp [coeff]
@[simp] theorem coeff_cons_zero (c : F) (cs : List F) : coeff (c :: cs) 0 = c := by simp [coeff]
@[simp] theorem coeff_cons_succ (c : F) (cs : List F) (i : Nat) :
    coeff (c :: cs) (i + 1) = coeff cs i := by simp [coeff]

theorem coeff_of_le {p : List F} {i : Nat} (h : p.length ≤ i) : coeff p i = 0 := by
  simp [coeff, List.getD_eq_getElem?_getD, List.getElem?_eq_none h]

theorem coeff_of_lt {p : List F} {i : Nat} (h : i < p.length) : coeff p i = p[i] := by
  simp [coeff, List.getD_eq_getElem?_getD, h]

instance [DecidableEq F] (p : List F) : Decidable (Canon p) := by unfold Canon; infer_instance

theorem canon_nil : Canon ([] : List F) := by simp [Canon]

theorem canon_singleton (c : F) : Canon [c] ↔ c ≠ 0 := by simp [Canon]

theorem canon_cons_cons (c d : F) (ds : List F) : Canon (c :: d :: ds) ↔ Canon (d :: ds) := by
  simp [Canon]

theorem canon_cons (c : F) (cs : List F) : Canon (c :: cs) ↔ (cs = [] → c ≠ 0) ∧ Canon cs := by
  cases cs with
  | nil => simp [Canon]
  | cons d ds => simp [Canon]

/-- `Canon` in terms of the coefficient function -/
theorem canon_iff (p : List F) : Canon p ↔ (p ≠ [] → coeff p (p.length - 1) ≠ 0) := by
  unfold Canon
  rw [List.getLast?_eq_getElem?]
  cases p with
  | nil => simp
  | cons c cs =>
    have h : (c :: cs).length - 1 < (c :: cs).length := by simp
    rw [coeff_of_lt h, List.getElem?_eq_getElem h]
    simp

theorem Canon.eq_nil_of_coeff_zero {p : List F} (hp : Canon p) (h : ∀ i, coeff p i = 0) : p = [] := by
  by_contra hne
  exact (canon_iff p).1 hp hne (h _)

/-- a canonical vector is no longer than any bound above which its coefficients vanish -/
theorem Canon.length_le {p : List F} (hp : Canon p) {n : Nat} (h : ∀ i, n ≤ i → coeff p i = 0) :
    p.length ≤ n := by
  by_contra hlt
  have hne : p ≠ [] := by
    intro h0; subst h0; simp at hlt
  exact (canon_iff p).1 hp hne (h _ (by omega))

/-- canonical vectors are determined by their coefficient functions -/
theorem Canon.ext {a b : List F} (ha : Canon a) (hb : Canon b) (h : ∀ i, coeff a i = coeff b i) :
    a = b := by
  induction a generalizing b with
  | nil =>
    exact (hb.eq_nil_of_coeff_zero (fun i => by rw [← h i]; simp)).symm
  | cons c cs ih =>
    cases b with
    | nil => exact ha.eq_nil_of_coeff_zero (fun i => by rw [h i]; simp)
    | cons d ds =>
      have h0 := h 0
      simp only [coeff_cons_zero] at h0
      have hs : cs = ds := ih ((canon_cons c cs).1 ha).2 ((canon_cons d ds).1 hb).2
        (fun i => by simpa using h (i + 1))
      rw [h0, hs]

end Defs

/-! ## 1. the `Outcome` monad -/

@[simp] theorem ok_bind {α β : Type} (a : α) (f : α → Outcome β) : (Outcome.ok a >>= f) = f a := rfl
@[simp] theorem panic_bind {α β : Type} (f : α → Outcome β) : (Outcome.panic >>= f) = .panic := rfl
@[simp] theorem pure_eq_ok {α : Type} (a : α) : (pure a : Outcome α) = .ok a := rfl

/-! ## 2. `isZero`, `truncate`, `degree` -/

section Basic
variable {F : Type} [Zero F] [DecidableEq F]

theorem isZero_nil : isZero ([] : List F) = true := rfl

theorem isZero_cons (c : F) (cs : List F) : isZero (c :: cs) = (decide (c = 0) && isZero cs) := by
  simp [isZero]

theorem isZero_iff (p : List F) : isZero p = true ↔ ∀ i, coeff p i = 0 := by
  induction p with
  | nil => simp [isZero]
  | cons c cs ih =>
    rw [isZero_cons, Bool.and_eq_true, ih, decide_eq_true_eq]
    constructor
    · rintro ⟨h0, hs⟩ i
      cases i with
      | zero => simpa using h0
      | succ i => simpa using hs i
    · intro h
      exact ⟨by simpa using h 0, fun i => by simpa using h (i + 1)⟩

theorem Canon.isZero_iff {p : List F} (hp : Canon p) : isZero p = true ↔ p = [] := by
  constructor
  · intro h; exact hp.eq_nil_of_coeff_zero ((A.isZero_iff p).1 h)
  · intro h; subst h; rfl

theorem truncate_cons (c : F) (cs : List F) :
    truncate (c :: cs) =
      match truncate cs with
      | [] => if c = 0 then [] else [c]
      | t :: ts => c :: t :: ts := rfl

theorem truncate_spec (p : List F) : Canon (truncate p) ∧ ∀ i, coeff (truncate p) i = coeff p i := by
  induction p with
  | nil => exact ⟨canon_nil, fun _ => rfl⟩
  | cons c cs ih =>
    obtain ⟨ihc, ihe⟩ := ih
    rw [truncate_cons]
    cases h : truncate cs with
    | nil =>
      rw [h] at ihe
      by_cases hc : c = 0
      · simp only [hc, if_true]
        refine ⟨canon_nil, fun i => ?_⟩
        cases i with
        | zero => simp
        | succ i => simpa using ihe i
      · simp only [hc, if_false]
        refine ⟨(canon_singleton c).2 hc, fun i => ?_⟩
        cases i with
        | zero => simp
        | succ i => simpa using ihe i
    | cons t ts =>
      rw [h] at ihe ihc
      refine ⟨(canon_cons_cons c t ts).2 ihc, fun i => ?_⟩
      cases i with
      | zero => simp
      | succ i => simpa using ihe i

theorem canon_truncate (p : List F) : Canon (truncate p) := (truncate_spec p).1
theorem coeff_truncate (p : List F) (i : Nat) : coeff (truncate p) i = coeff p i := (truncate_spec p).2 i

theorem truncate_of_canon {p : List F} (hp : Canon p) : truncate p = p :=
  (canon_truncate p).ext hp (coeff_truncate p)

theorem length_truncate_le {p : List F} {n : Nat} (h : ∀ i, n ≤ i → coeff p i = 0) :
    (truncate p).length ≤ n :=
  (canon_truncate p).length_le (fun i hi => by rw [coeff_truncate]; exact h i hi)

theorem length_truncate_le_length (p : List F) : (truncate p).length ≤ p.length :=
  length_truncate_le (fun _ hi => coeff_of_le hi)

theorem degree_of_canon {p : List F} (hp : Canon p) : degree p = .ok (p.length - 1) := by
  unfold degree
  by_cases hz : isZero p = true
  · rw [if_pos hz, hp.isZero_iff.1 hz]; rfl
  · rw [if_neg hz]
    cases hl : p.getLast? with
    | none =>
      rw [List.getLast?_eq_none_iff] at hl
      subst hl; exact absurd isZero_nil hz
    | some c =>
      have hc : c ≠ 0 := by
        intro h0; subst h0; exact hp hl
      simp [hc]

end Basic

/-! ## 3. Vec primitives on coefficient functions -/

section Prim
variable {F : Type} [Zero F]

theorem coeff_append (a b : List F) (i : Nat) :
    coeff (a ++ b) i = if i < a.length then coeff a i else coeff b (i - a.length) := by
  simp only [coeff, List.getD_eq_getElem?_getD, List.getElem?_append]
  split <;> rfl

theorem coeff_replicate_zero (n i : Nat) : coeff (List.replicate n (0 : F)) i = 0 := by
  simp only [coeff, List.getD_eq_getElem?_getD, List.getElem?_replicate]
  split <;> rfl

theorem coeff_map (g : F → F) (hg : g 0 = 0) (p : List F) (i : Nat) :
    coeff (p.map g) i = g (coeff p i) := by
  simp only [coeff, List.getD_eq_getElem?_getD, List.getElem?_map]
  cases p[i]? <;> simp [hg]

theorem coeff_drop (p : List F) (n i : Nat) : coeff (p.drop n) i = coeff p (n + i) := by
  simp only [coeff, List.getD_eq_getElem?_getD, List.getElem?_drop]

theorem coeff_take (p : List F) (n i : Nat) :
    coeff (p.take n) i = if i < n then coeff p i else 0 := by
  simp only [coeff, List.getD_eq_getElem?_getD, List.getElem?_take]
  split <;> rfl

theorem length_resize_of_le {p : List F} {n : Nat} (h : p.length ≤ n) : (resize p n).length = n := by
  unfold resize
  simp only [List.length_append, List.length_take, List.length_replicate]; omega

theorem coeff_resize {p : List F} {n : Nat} (h : p.length ≤ n) (i : Nat) :
    coeff (resize p n) i = coeff p i := by
  unfold resize
  rw [List.take_of_length_le h, coeff_append]
  split
  · rfl
  · rw [coeff_replicate_zero, coeff_of_le (by omega)]

theorem length_zipInto (f : F → F → F) (a b : List F) : (zipInto f a b).length = a.length := by
  induction a generalizing b with
  | nil => simp [zipInto]
  | cons x as ih =>
    cases b with
    | nil => simp [zipInto]
    | cons y bs => simp [zipInto, ih]

theorem coeff_zipInto (f : F → F → F) (hf : ∀ x, f x 0 = x) (a b : List F) (i : Nat) :
    coeff (zipInto f a b) i = if i < a.length then f (coeff a i) (coeff b i) else 0 := by
  induction a generalizing b i with
  | nil => simp [zipInto]
  | cons x as ih =>
    cases b with
    | nil =>
      simp only [zipInto, coeff_nil, hf]
      split
      · rfl
      · exact coeff_of_le (by omega)
    | cons y bs =>
      cases i with
      | zero => simp [zipInto]
      | succ i => simp [zipInto, ih]

theorem coeff_zipInto_of_le (f : F → F → F) (hf : ∀ x, f x 0 = x) {a b : List F}
    (h : b.length ≤ a.length) (i : Nat) :
    coeff (zipInto f a b) i = f (coeff a i) (coeff b i) := by
  rw [coeff_zipInto f hf]
  split
  · rfl
  · rw [coeff_of_le (p := a) (by omega), coeff_of_le (p := b) (by omega), hf]

/-- `modifyAt` inside the vector succeeds, keeps the length and changes one coefficient -/
theorem modifyAt_spec (f : F → F) (l : List F) (i : Nat) (h : i < l.length) :
    ∃ r, modifyAt f l i = .ok r ∧ r.length = l.length ∧
      ∀ k, coeff r k = if k = i then f (coeff l k) else coeff l k := by
  induction l generalizing i with
  | nil => simp at h
  | cons c cs ih =>
    cases i with
    | zero =>
      refine ⟨f c :: cs, rfl, rfl, fun k => ?_⟩
      cases k with
      | zero => simp
      | succ k => simp
    | succ i =>
      obtain ⟨r, hr, hl, hc⟩ := ih i (by simpa using h)
      refine ⟨c :: r, ?_, by simp [hl], fun k => ?_⟩
      · simp [modifyAt, hr]
      · cases k with
        | zero => simp
        | succ k => simp [hc k]

theorem modifyAt_panic (f : F → F) (l : List F) (i : Nat) (h : l.length ≤ i) :
    modifyAt f l i = .panic := by
  induction l generalizing i with
  | nil => rfl
  | cons c cs ih =>
    cases i with
    | zero => simp at h
    | succ i => simp [modifyAt, ih i (by simpa using h)]

end Prim

/-! ## 4. evaluation -/

section Eval
variable {F : Type} [CommRing F] [DecidableEq F]

theorem horner_cons (c : F) (cs : List F) (x : F) : horner (c :: cs) x = horner cs x * x + c := rfl

theorem horner_eq_sum (p : List F) (x : F) :
    horner p x = ∑ i ∈ Finset.range p.length, coeff p i * x ^ i := by
  induction p with
  | nil => simp [horner]
  | cons c cs ih =>
    rw [horner_cons, ih, List.length_cons, Finset.sum_range_succ', Finset.sum_mul]
    simp only [coeff_cons_succ, coeff_cons_zero, pow_zero, mul_one, pow_succ, mul_assoc]

theorem evaluate_eq_horner (p : List F) (x : F) : evaluate p x = horner p x := by
  unfold evaluate
  by_cases hz : isZero p = true
  · rw [if_pos hz, horner_eq_sum]
    exact (Finset.sum_eq_zero (fun i _ => by rw [(isZero_iff p).1 hz i, zero_mul])).symm
  · rw [if_neg hz]
    by_cases hx : x = 0
    · rw [if_pos hx, hx]
      cases p with
      | nil => rfl
      | cons c cs => simp [horner_cons]
    · rw [if_neg hx]

theorem evaluate_eq_sum (p : List F) (x : F) :
    evaluate p x = ∑ i ∈ Finset.range p.length, coeff p i * x ^ i := by
  rw [evaluate_eq_horner, horner_eq_sum]

end Eval

/-! ## 5. addition, subtraction, negation, scaling -/

section AddSub
variable {F : Type} [CommRing F] [DecidableEq F]

theorem Canon.length_pos_of_not_isZero {p : List F} (h : ¬ isZero p = true) : 0 < p.length := by
  cases p with
  | nil => exact absurd isZero_nil h
  | cons c cs => simp

theorem addDD_spec {a b : List F} (ha : Canon a) (hb : Canon b) :
    ∃ r, addDD a b = .ok r ∧ Canon r ∧ ∀ i, coeff r i = coeff a i + coeff b i := by
  unfold addDD
  by_cases hza : isZero a = true
  · refine ⟨truncate b, by simp [hza], canon_truncate _, fun i => ?_⟩
    rw [coeff_truncate, (isZero_iff a).1 hza i, zero_add]
  by_cases hzb : isZero b = true
  · refine ⟨truncate a, by simp [hza, hzb], canon_truncate _, fun i => ?_⟩
    rw [coeff_truncate, (isZero_iff b).1 hzb i, add_zero]
  have hla := Canon.length_pos_of_not_isZero hza
  have hlb := Canon.length_pos_of_not_isZero hzb
  rw [degree_of_canon ha, degree_of_canon hb]
  by_cases hge : a.length - 1 ≥ b.length - 1
  · refine ⟨truncate (zipInto (· + ·) a b), by simp only [hza, hzb, hge, ok_bind, pure_eq_ok, Bool.false_eq_true, ↓reduceIte], canon_truncate _, fun i => ?_⟩
    rw [coeff_truncate, coeff_zipInto_of_le _ (fun x => add_zero x) (by omega)]
  · refine ⟨truncate (zipInto (· + ·) b a), by simp only [hza, hzb, hge, ok_bind, pure_eq_ok, Bool.false_eq_true, ↓reduceIte], canon_truncate _, fun i => ?_⟩
    rw [coeff_truncate, coeff_zipInto_of_le _ (fun x => add_zero x) (by omega), add_comm]

/-- `addAssignDD` needs no canonicity of its operands -/
theorem addAssignDD_spec (a b : List F) :
    Canon (addAssignDD a b) ∧ ∀ i, coeff (addAssignDD a b) i = coeff a i + coeff b i := by
  unfold addAssignDD
  by_cases hzb : isZero b = true
  · rw [if_pos hzb]
    exact ⟨canon_truncate _, fun i => by rw [coeff_truncate, (isZero_iff b).1 hzb i, add_zero]⟩
  rw [if_neg hzb]
  by_cases hza : isZero a = true
  · rw [if_pos hza]
    exact ⟨canon_truncate _, fun i => by rw [coeff_truncate, (isZero_iff a).1 hza i, zero_add]⟩
  rw [if_neg hza]
  refine ⟨canon_truncate _, fun i => ?_⟩
  rw [coeff_truncate]
  by_cases hlt : b.length > a.length
  · simp only [hlt, if_true]
    rw [coeff_zipInto_of_le _ (fun x => add_zero x)
      (by rw [length_resize_of_le (Nat.le_of_lt hlt)]), coeff_resize (Nat.le_of_lt hlt)]
  · simp only [hlt, if_false]
    rw [coeff_zipInto_of_le _ (fun x => add_zero x) (by omega)]

theorem subDD_spec {a b : List F} (ha : Canon a) (hb : Canon b) :
    ∃ r, subDD a b = .ok r ∧ Canon r ∧ ∀ i, coeff r i = coeff a i - coeff b i := by
  unfold subDD
  by_cases hza : isZero a = true
  · refine ⟨truncate (b.map (fun c => -c)), by simp [hza], canon_truncate _, fun i => ?_⟩
    rw [coeff_truncate, coeff_map _ neg_zero, (isZero_iff a).1 hza i, zero_sub]
  by_cases hzb : isZero b = true
  · refine ⟨truncate a, by simp [hza, hzb], canon_truncate _, fun i => ?_⟩
    rw [coeff_truncate, (isZero_iff b).1 hzb i, sub_zero]
  have hla := Canon.length_pos_of_not_isZero hza
  have hlb := Canon.length_pos_of_not_isZero hzb
  rw [degree_of_canon ha, degree_of_canon hb]
  by_cases hge : a.length - 1 ≥ b.length - 1
  · refine ⟨truncate (zipInto (· - ·) a b), by simp only [hza, hzb, hge, ok_bind, pure_eq_ok, Bool.false_eq_true, ↓reduceIte], canon_truncate _, fun i => ?_⟩
    rw [coeff_truncate, coeff_zipInto_of_le _ (fun x => sub_zero x) (by omega)]
  · have hle : a.length ≤ b.length := by omega
    refine ⟨truncate (zipInto (· - ·) (resize a b.length) b), by simp only [hza, hzb, hge, ok_bind, pure_eq_ok, Bool.false_eq_true, ↓reduceIte],
      canon_truncate _, fun i => ?_⟩
    rw [coeff_truncate, coeff_zipInto_of_le _ (fun x => sub_zero x)
      (by rw [length_resize_of_le hle]), coeff_resize hle]

theorem subAssignDD_spec {a b : List F} (ha : Canon a) (hb : Canon b) :
    ∃ r, subAssignDD a b = .ok r ∧ Canon r ∧ ∀ i, coeff r i = coeff a i - coeff b i := by
  unfold subAssignDD
  by_cases hza : isZero a = true
  · have ha0 : a = [] := ha.isZero_iff.1 hza
    refine ⟨truncate (zipInto (· - ·) (resize a b.length) b), by simp [hza], canon_truncate _,
      fun i => ?_⟩
    have hle : a.length ≤ b.length := by rw [ha0]; simp
    rw [coeff_truncate, coeff_zipInto_of_le _ (fun x => sub_zero x)
      (by rw [length_resize_of_le hle]), coeff_resize hle]
  by_cases hzb : isZero b = true
  · refine ⟨a, by simp [hza, hzb], ha, fun i => ?_⟩
    rw [(isZero_iff b).1 hzb i, sub_zero]
  have hla := Canon.length_pos_of_not_isZero hza
  have hlb := Canon.length_pos_of_not_isZero hzb
  rw [degree_of_canon ha, degree_of_canon hb]
  by_cases hge : a.length - 1 ≥ b.length - 1
  · refine ⟨truncate (zipInto (· - ·) a b), by simp only [hza, hzb, hge, ok_bind, pure_eq_ok, Bool.false_eq_true, ↓reduceIte], canon_truncate _, fun i => ?_⟩
    rw [coeff_truncate, coeff_zipInto_of_le _ (fun x => sub_zero x) (by omega)]
  · have hle : a.length ≤ b.length := by omega
    refine ⟨truncate (zipInto (· - ·) (resize a b.length) b), by simp only [hza, hzb, hge, ok_bind, pure_eq_ok, Bool.false_eq_true, ↓reduceIte],
      canon_truncate _, fun i => ?_⟩
    rw [coeff_truncate, coeff_zipInto_of_le _ (fun x => sub_zero x)
      (by rw [length_resize_of_le hle]), coeff_resize hle]

theorem coeff_neg (a : List F) (i : Nat) : coeff (neg a) i = - coeff a i := by
  unfold neg; rw [coeff_map _ neg_zero]

theorem getLast?_map_ne {g : F → F} (hg : ∀ x, g x = 0 → x = 0) {a : List F} (ha : Canon a) :
    Canon (a.map g) := by
  unfold Canon at *
  rw [List.getLast?_map]
  cases h : a.getLast? with
  | none => simp
  | some c =>
    rw [h] at ha
    simp only [Option.map_some, ne_eq, Option.some.injEq]
    intro h0
    exact ha (by rw [hg c h0])

theorem canon_neg {a : List F} (ha : Canon a) : Canon (neg a) :=
  getLast?_map_ne (fun x hx => by simpa using hx) ha

end AddSub

section Scale
variable {F : Type} [CommRing F] [IsDomain F] [DecidableEq F]

/-- `scale` is canonical on canonical input (no zero divisors), and `[]` when `f = 0` -/
theorem scale_spec {a : List F} (ha : Canon a) (f : F) :
    Canon (scale a f) ∧ ∀ i, coeff (scale a f) i = coeff a i * f := by
  unfold scale
  by_cases hz : isZero a = true
  · simp only [hz, Bool.true_or, if_true]
    exact ⟨canon_nil, fun i => by rw [(isZero_iff a).1 hz i, zero_mul]; rfl⟩
  by_cases hf : f = 0
  · simp only [hf, decide_true, Bool.or_true, if_true]
    exact ⟨canon_nil, fun i => by rw [mul_zero]; rfl⟩
  · have : (isZero a || decide (f = 0)) = false := by simp [hz, hf]
    rw [this]
    simp only [Bool.false_eq_true, if_false]
    refine ⟨getLast?_map_ne (fun x hx => ?_) ha, fun i => coeff_map _ (zero_mul f) a i⟩
    rcases mul_eq_zero.1 hx with h | h
    · exact h
    · exact absurd h hf

omit [IsDomain F] in
theorem scale_zero (a : List F) : scale a (0 : F) = [] := by
  unfold scale; simp

end Scale

section Scaled
variable {F : Type} [CommRing F] [DecidableEq F]

theorem addAssignScaledDD_spec {a b : List F} (ha : Canon a) (hb : Canon b) (f : F) :
    ∃ r, addAssignScaledDD a f b = .ok r ∧ Canon r ∧ ∀ i, coeff r i = coeff a i + f * coeff b i := by
  unfold addAssignScaledDD
  by_cases hzb : isZero b = true
  · refine ⟨a, by simp [hzb], ha, fun i => ?_⟩
    rw [(isZero_iff b).1 hzb i, mul_zero, add_zero]
  by_cases hza : isZero a = true
  · refine ⟨truncate (b.map (fun c => c * f)), by simp [hza, hzb], canon_truncate _, fun i => ?_⟩
    rw [coeff_truncate, coeff_map _ (zero_mul f), (isZero_iff a).1 hza i, zero_add, mul_comm]
  have hla := Canon.length_pos_of_not_isZero hza
  have hlb := Canon.length_pos_of_not_isZero hzb
  rw [degree_of_canon ha, degree_of_canon hb]
  have hf0 : ∀ x : F, x + f * 0 = x := fun x => by rw [mul_zero, add_zero]
  by_cases hlt : a.length - 1 < b.length - 1
  · have hle : a.length ≤ b.length := by omega
    refine ⟨truncate (zipInto (fun x y => x + f * y) (resize a b.length) b),
      by simp only [hza, hzb, hlt, ok_bind, pure_eq_ok, Bool.false_eq_true, ↓reduceIte], canon_truncate _, fun i => ?_⟩
    rw [coeff_truncate, coeff_zipInto_of_le _ hf0 (by rw [length_resize_of_le hle]),
      coeff_resize hle]
  · refine ⟨truncate (zipInto (fun x y => x + f * y) a b),
      by simp only [hza, hzb, hlt, ok_bind, pure_eq_ok, Bool.false_eq_true, ↓reduceIte], canon_truncate _, fun i => ?_⟩
    rw [coeff_truncate, coeff_zipInto_of_le _ hf0 (by omega)]

end Scaled

/-! ## 6. multiplication -/

section Mul
variable {F : Type} [CommRing F] [DecidableEq F]

/-- Cauchy product of coefficient functions: `Σ_{i ≤ k} f i · g (k − i)` -/
def convF (f g : Nat → F) (k : Nat) : F := ∑ i ∈ Finset.range (k + 1), f i * g (k - i)

/-- coefficient `k` of the product of two stored vectors -/
def conv (a b : List F) (k : Nat) : F := convF (coeff a) (coeff b) k

theorem conv_congr {a a' b b' : List F} (ha : ∀ i, coeff a i = coeff a' i)
    (hb : ∀ i, coeff b i = coeff b' i) (k : Nat) : conv a b k = conv a' b' k := by
  unfold conv convF
  exact Finset.sum_congr rfl (fun i _ => by rw [ha, hb])

theorem conv_zero_left {a : List F} (h : ∀ i, coeff a i = 0) (b : List F) (k : Nat) :
    conv a b k = 0 := by
  unfold conv convF
  exact Finset.sum_eq_zero (fun i _ => by rw [h, zero_mul])

theorem conv_zero_right (a : List F) {b : List F} (h : ∀ i, coeff b i = 0) (k : Nat) :
    conv a b k = 0 := by
  unfold conv convF
  exact Finset.sum_eq_zero (fun i _ => by rw [h, mul_zero])

theorem conv_nil_left (b : List F) (k : Nat) : conv [] b k = 0 :=
  conv_zero_left (fun _ => rfl) b k

theorem conv_cons_zero (c : F) (cs b : List F) : conv (c :: cs) b 0 = c * coeff b 0 := by
  simp [conv, convF]

theorem conv_cons_succ (c : F) (cs b : List F) (k : Nat) :
    conv (c :: cs) b (k + 1) = c * coeff b (k + 1) + conv cs b k := by
  unfold conv convF
  rw [Finset.sum_range_succ']
  simp only [coeff_cons_succ, coeff_cons_zero, Nat.add_sub_add_right, Nat.sub_zero]
  rw [add_comm]

theorem naiveMulRow_spec (ai : F) (i : Nat) (bs : List F) (j : Nat) (res : List F)
    (h : i + j + bs.length ≤ res.length) :
    ∃ r, naiveMulRow ai i bs j res = .ok r ∧ r.length = res.length ∧
      ∀ k, coeff r k = coeff res k + (if i + j ≤ k then ai * coeff bs (k - (i + j)) else 0) := by
  induction bs generalizing j res with
  | nil => exact ⟨res, rfl, rfl, fun k => by simp⟩
  | cons bj bs ih =>
    simp only [List.length_cons] at h
    obtain ⟨r1, h1, hl1, hc1⟩ := modifyAt_spec (fun r => r + ai * bj) res (i + j) (by omega)
    obtain ⟨r, h2, hl2, hc2⟩ := ih (j + 1) r1 (by omega)
    refine ⟨r, ?_, by omega, fun k => ?_⟩
    · simp only [naiveMulRow, h1, h2]
    · rw [hc2 k, hc1 k]
      rcases Nat.lt_trichotomy k (i + j) with hk | hk | hk
      · have h1 : ¬ (i + (j + 1) ≤ k) := by omega
        have h2 : ¬ (i + j ≤ k) := by omega
        have h3 : k ≠ i + j := by omega
        simp only [h1, h2, h3, if_false]
      · have h1 : ¬ (i + (j + 1) ≤ k) := by omega
        subst hk
        simp
      · have h1 : i + (j + 1) ≤ k := by omega
        have h2 : i + j ≤ k := by omega
        have h3 : k ≠ i + j := by omega
        have h4 : k - (i + j) = (k - (i + (j + 1))) + 1 := by omega
        simp only [h1, h2, h3, if_true, if_false, h4, coeff_cons_succ]

theorem naiveMulRows_spec (b as : List F) (i : Nat) (res : List F)
    (h : as = [] ∨ i + as.length + b.length ≤ res.length + 1) :
    ∃ r, naiveMulRows b as i res = .ok r ∧ r.length = res.length ∧
      ∀ k, coeff r k = coeff res k + (if i ≤ k then conv as b (k - i) else 0) := by
  induction as generalizing i res with
  | nil => exact ⟨res, rfl, rfl, fun k => by simp [conv_nil_left]⟩
  | cons ai as ih =>
    have h' : i + (as.length + 1) + b.length ≤ res.length + 1 := by
      rcases h with h | h
      · exact absurd h (by simp)
      · simpa using h
    obtain ⟨r1, h1, hl1, hc1⟩ := naiveMulRow_spec ai i b 0 res (by omega)
    obtain ⟨r, h2, hl2, hc2⟩ := ih (i + 1) r1 (Or.inr (by omega))
    refine ⟨r, ?_, by omega, fun k => ?_⟩
    · simp only [naiveMulRows, h1, h2]
    · rw [hc2 k, hc1 k]
      rcases Nat.lt_trichotomy k i with hk | hk | hk
      · have h1 : ¬ (i + 1 ≤ k) := by omega
        have h2 : ¬ (i ≤ k) := by omega
        simp only [h1, h2, if_false, add_zero]
      · subst hk
        simp [conv_cons_zero]
      · have h1 : i + 1 ≤ k := by omega
        have h2 : i ≤ k := by omega
        have h3 : i + 0 ≤ k := by omega
        have h4 : k - i = (k - (i + 1)) + 1 := by omega
        have h5 : k - (i + 0) = (k - (i + 1)) + 1 := by omega
        simp only [h1, h2, h3, if_true, h4, h5, conv_cons_succ]
        ring

theorem naiveMul_spec {a b : List F} (ha : Canon a) (hb : Canon b) :
    ∃ r, naiveMul a b = .ok r ∧ Canon r ∧ ∀ k, coeff r k = conv a b k := by
  unfold naiveMul
  by_cases hza : isZero a = true
  · refine ⟨[], by simp [hza], canon_nil, fun k => ?_⟩
    rw [conv_zero_left ((isZero_iff a).1 hza)]; rfl
  by_cases hzb : isZero b = true
  · refine ⟨[], by simp [hzb], canon_nil, fun k => ?_⟩
    rw [conv_zero_right a ((isZero_iff b).1 hzb)]; rfl
  have hla := Canon.length_pos_of_not_isZero hza
  have hlb := Canon.length_pos_of_not_isZero hzb
  rw [degree_of_canon ha, degree_of_canon hb]
  obtain ⟨r, hr, _, hc⟩ := naiveMulRows_spec b a 0
    (List.replicate (a.length - 1 + (b.length - 1) + 1) 0)
    (Or.inr (by rw [List.length_replicate]; omega))
  refine ⟨truncate r, ?_, canon_truncate _, fun k => ?_⟩
  · simp only [hza, hzb, Bool.false_eq_true, Bool.or_self, ↓reduceIte, ok_bind, pure_eq_ok, hr,
      fromCoefficientsVec]
  · rw [coeff_truncate, hc k, coeff_replicate_zero]
    simp

theorem coeff_addPad (a b : List F) (i : Nat) : coeff (addPad a b) i = coeff a i + coeff b i := by
  induction a generalizing b i with
  | nil => simp [addPad]
  | cons x as ih =>
    cases b with
    | nil => simp [addPad]
    | cons y bs =>
      cases i with
      | zero => simp [addPad]
      | succ i => simp [addPad, ih]

theorem coeff_mulCoeffs (a b : List F) (k : Nat) : coeff (mulCoeffs a b) k = conv a b k := by
  induction a generalizing k with
  | nil => simp [mulCoeffs, conv_nil_left]
  | cons x as ih =>
    cases as with
    | nil =>
      rw [mulCoeffs, coeff_map _ (mul_zero x)]
      cases k with
      | zero => rw [conv_cons_zero]
      | succ k => rw [conv_cons_succ, conv_nil_left, add_zero]
    | cons y ys =>
      rw [mulCoeffs, coeff_addPad, coeff_map _ (mul_zero x)]
      rotate_left
      · simp
      cases k with
      | zero => rw [conv_cons_zero, coeff_cons_zero, add_zero]
      | succ k => rw [conv_cons_succ, coeff_cons_succ, ih]

/-- `mulDD` (no canonicity of the operands needed): under the `domainExists` guard it returns the
    canonical product -/
theorem mulDD_spec (ta : Nat) (a b : List F)
    (hd : domainExists ta (a.length + b.length - 1) = true) :
    ∃ r, mulDD ta a b = .ok r ∧ Canon r ∧ ∀ k, coeff r k = conv a b k := by
  unfold mulDD
  by_cases hz : (isZero a || isZero b) = true
  · refine ⟨[], by rw [if_pos hz], canon_nil, fun k => ?_⟩
    rcases Bool.or_eq_true _ _ ▸ hz with h | h
    · rw [conv_zero_left ((isZero_iff a).1 h)]; rfl
    · rw [conv_zero_right a ((isZero_iff b).1 h)]; rfl
  · refine ⟨truncate (mulCoeffs a b), ?_, canon_truncate _, fun k => ?_⟩
    · rw [if_neg hz, hd]; rfl
    · rw [coeff_truncate, coeff_mulCoeffs]

/-- without a domain, `mulDD` of two non-zero polynomials is the documented `expect` panic -/
theorem mulDD_panic (ta : Nat) (a b : List F) (hza : isZero a = false) (hzb : isZero b = false)
    (hd : domainExists ta (a.length + b.length - 1) = false) : mulDD ta a b = .panic := by
  unfold mulDD
  simp [hza, hzb, hd]

/-- on canonical operands and under the guard the FFT product equals `naive_mul` -/
theorem mulDD_eq_naiveMul (ta : Nat) {a b : List F} (ha : Canon a) (hb : Canon b)
    (hd : domainExists ta (a.length + b.length - 1) = true) : mulDD ta a b = naiveMul a b := by
  obtain ⟨r, hr, hcr, hr'⟩ := mulDD_spec ta a b hd
  obtain ⟨s, hs, hcs, hs'⟩ := naiveMul_spec ha hb
  rw [hr, hs, hcr.ext hcs (fun i => by rw [hr', hs'])]

end Mul

/-! ## 7. division with remainder -/

section Div
variable {F : Type} [Field F] [DecidableEq F]

theorem getLast?_eq_coeff {p : List F} (h : p ≠ []) :
    p.getLast? = some (coeff p (p.length - 1)) := by
  rw [List.getLast?_eq_getElem?]
  have hl : p.length - 1 < p.length := by
    cases p with
    | nil => exact absurd rfl h
    | cons c cs => simp
  rw [coeff_of_lt hl, List.getElem?_eq_getElem hl]

theorem convF_add_left (f f' g : Nat → F) (k : Nat) :
    convF (fun i => f i + f' i) g k = convF f g k + convF f' g k := by
  unfold convF
  rw [← Finset.sum_add_distrib]
  exact Finset.sum_congr rfl (fun i _ => by ring)

theorem convF_single (g : Nat → F) (d : Nat) (x : F) (k : Nat) :
    convF (fun i => if i = d then x else 0) g k = if d ≤ k then x * g (k - d) else 0 := by
  unfold convF
  simp only [ite_mul, zero_mul]
  rw [Finset.sum_ite_eq']
  simp only [Finset.mem_range, Nat.lt_succ_iff]

theorem convF_update (f f' g : Nat → F) (d : Nat) (x : F)
    (hf' : ∀ i, f' i = f i + if i = d then x else 0) (k : Nat) :
    convF f' g k = convF f g k + if d ≤ k then x * g (k - d) else 0 := by
  have : f' = fun i => f i + (fun i => if i = d then x else 0) i := funext hf'
  rw [this, convF_add_left, convF_single]

/-- the `for (i, c) in divisor` loop of `divide_with_q_and_r` on a dense divisor:
    `r -= cq · X^qd · b` -/
theorem foldTerms_sub_spec (cq : F) (qd : Nat) (bs : List F) (j : Nat) (r : List F)
    (h : qd + j + bs.length ≤ r.length) :
    ∃ r', foldTerms (fun (r : List F) (t : Nat × F) => modifyAt (fun c => c - cq * t.2) r (qd + t.1))
        (enumFrom bs j) r = .ok r' ∧ r'.length = r.length ∧
      ∀ k, coeff r' k = coeff r k - (if qd + j ≤ k then cq * coeff bs (k - (qd + j)) else 0) := by
  induction bs generalizing j r with
  | nil => exact ⟨r, rfl, rfl, fun k => by simp⟩
  | cons bj bs ih =>
    simp only [List.length_cons] at h
    obtain ⟨r1, h1, hl1, hc1⟩ := modifyAt_spec (fun c => c - cq * bj) r (qd + j) (by omega)
    obtain ⟨r2, h2, hl2, hc2⟩ := ih (j + 1) r1 (by omega)
    refine ⟨r2, ?_, by omega, fun k => ?_⟩
    · simp only [enumFrom, foldTerms, h1, h2]
    · rw [hc2 k, hc1 k]
      rcases Nat.lt_trichotomy k (qd + j) with hk | hk | hk
      · have h1 : ¬ (qd + (j + 1) ≤ k) := by omega
        have h2 : ¬ (qd + j ≤ k) := by omega
        have h3 : k ≠ qd + j := by omega
        simp only [h1, h2, h3, if_false]
      · have h1 : ¬ (qd + (j + 1) ≤ k) := by omega
        subst hk
        simp
      · have h1 : qd + (j + 1) ≤ k := by omega
        have h2 : qd + j ≤ k := by omega
        have h3 : k ≠ qd + j := by omega
        have h4 : k - (qd + j) = (k - (qd + (j + 1))) + 1 := by omega
        simp only [h1, h2, h3, if_true, if_false, h4, coeff_cons_succ]

/-- the `while` loop of `divide_with_q_and_r` (dense divisor): invariant `a = q·b + r`, the
    positions of `q` not yet written are zero, the remainder gets strictly shorter -/
theorem divLoop_spec (a b : List F) (hbne : b ≠ []) (inv : F)
    (hinv : coeff b (b.length - 1) * inv = 1) (Q : Nat) :
    ∀ (fuel : Nat) (q r : List F), Canon r → r.length < fuel → q.length = Q →
      r.length ≤ b.length - 1 + Q →
      (∀ j, j + b.length ≤ r.length → coeff q j = 0) →
      (∀ k, coeff a k = conv q b k + coeff r k) →
      ∃ q' r', divLoop (b.length - 1) inv (enumFrom b 0) fuel q r = .ok (q', r') ∧ Canon r' ∧
        (∀ k, coeff a k = conv q' b k + coeff r' k) ∧ (r' = [] ∨ r'.length < b.length) := by
  have hblen : 0 < b.length := List.length_pos_iff.2 hbne
  intro fuel
  induction fuel with
  | zero => intro q r _ h; exact absurd h (by omega)
  | succ fuel ih =>
    intro q r hr hfuel hq hrQ hq0 hinvt
    rw [divLoop]
    by_cases hz : isZero r = true
    · rw [if_pos hz]
      exact ⟨q, r, rfl, hr, hinvt, Or.inl (hr.isZero_iff.1 hz)⟩
    rw [if_neg hz, degree_of_canon hr]
    have hrlen : 0 < r.length := Canon.length_pos_of_not_isZero hz
    have hrne : r ≠ [] := List.length_pos_iff.1 hrlen
    simp only [ok_bind]
    by_cases hlt : r.length - 1 < b.length - 1
    · rw [if_pos hlt]
      exact ⟨q, r, rfl, hr, hinvt, Or.inr (by omega)⟩
    rw [if_neg hlt, getLast?_eq_coeff hrne]
    simp only
    -- the step
    obtain ⟨q1, hq1, hlq1, hcq1⟩ := modifyAt_spec
      (fun _ => coeff r (r.length - 1) * inv) q (r.length - 1 - (b.length - 1)) (by omega)
    obtain ⟨r1, hr1, hlr1, hcr1⟩ := foldTerms_sub_spec (coeff r (r.length - 1) * inv)
      (r.length - 1 - (b.length - 1)) b 0 r (by omega)
    have hlen1 : (truncate r1).length ≤ r.length - 1 := by
      apply length_truncate_le
      intro i hi
      rcases Nat.lt_or_ge i r.length with hi' | hi'
      · have hie : i = r.length - 1 := by omega
        rw [hcr1 i]
        have h1 : r.length - 1 - (b.length - 1) + 0 ≤ i := by omega
        have h2 : i - (r.length - 1 - (b.length - 1) + 0) = b.length - 1 := by omega
        rw [if_pos h1, h2, hie, mul_assoc, mul_comm inv, hinv, mul_one, sub_self]
      · exact coeff_of_le (by omega)
    obtain ⟨q', r', hres, hcr', hinv', hdeg'⟩ := ih q1 (truncate r1) (canon_truncate _) (by omega)
      (by omega) (by omega)
      (fun j hj => by
        rw [hcq1 j, if_neg (by omega)]
        exact hq0 j (by omega))
      (fun k => by
        have hq0' : coeff q (r.length - 1 - (b.length - 1)) = 0 := hq0 _ (by omega)
        have hupd : ∀ i, coeff q1 i = coeff q i +
            if i = r.length - 1 - (b.length - 1) then coeff r (r.length - 1) * inv else 0 := by
          intro i
          rw [hcq1 i]
          by_cases hi : i = r.length - 1 - (b.length - 1)
          · rw [if_pos hi, if_pos hi, hi, hq0', zero_add]
          · rw [if_neg hi, if_neg hi, add_zero]
        have hconv : conv q1 b k = conv q b k +
            if r.length - 1 - (b.length - 1) ≤ k then
              coeff r (r.length - 1) * inv * coeff b (k - (r.length - 1 - (b.length - 1))) else 0 :=
          convF_update (coeff q) (coeff q1) (coeff b) _ _ hupd k
        rw [hinvt k, hconv, coeff_truncate, hcr1 k]
        simp only [Nat.add_zero]
        ring)
    refine ⟨q', r', ?_, hcr', hinv', hdeg'⟩
    simp only [ok_bind, hq1, hr1, hres]

theorem Canon.not_isZero {b : List F} (hb : Canon b) (hbne : b ≠ []) : ¬ isZero b = true :=
  fun h => hbne (hb.isZero_iff.1 h)

theorem divide_spec {a b : List F} (ha : Canon a) (hb : Canon b) (hbne : b ≠ []) :
    ∃ q r, divideWithQAndR (.d a) (.d b) = .ok (q, r) ∧ Canon q ∧ Canon r ∧
      (∀ k, coeff a k = conv q b k + coeff r k) ∧ (r = [] ∨ r.length < b.length) := by
  have hzb : ¬ isZero b = true := hb.not_isZero hbne
  have hblen : 0 < b.length := List.length_pos_iff.2 hbne
  unfold divideWithQAndR
  simp only [DoS.isZero, DoS.degree, DoS.toDense, DoS.leadingCoefficient, DoS.iterWithIndex]
  by_cases hza : isZero a = true
  · have ha0 : a = [] := ha.isZero_iff.1 hza
    refine ⟨[], [], by simp only [hza, ↓reduceIte], canon_nil, canon_nil, fun k => ?_, Or.inl rfl⟩
    rw [ha0, conv_nil_left]; simp
  have halen : 0 < a.length := Canon.length_pos_of_not_isZero hza
  simp only [hza, hzb, Bool.false_eq_true, ↓reduceIte, degree_of_canon ha, degree_of_canon hb,
    ok_bind, pure_eq_ok]
  by_cases hlt : a.length - 1 < b.length - 1
  · refine ⟨[], a, by rw [if_pos hlt], canon_nil, ha, fun k => ?_, Or.inr (by omega)⟩
    rw [conv_nil_left, zero_add]
  rw [if_neg hlt, getLast?_eq_coeff hbne]
  have hlc : coeff b (b.length - 1) ≠ 0 := (canon_iff b).1 hb hbne
  simp only [hlc, if_false]
  obtain ⟨q', r', hres, hcr', hinv', hdeg'⟩ :=
    divLoop_spec a b hbne (coeff b (b.length - 1))⁻¹ (mul_inv_cancel₀ hlc)
      (a.length - 1 - (b.length - 1) + 1) (a.length + 1)
      (List.replicate (a.length - 1 - (b.length - 1) + 1) 0) a ha (by omega)
      (List.length_replicate ..) (by omega)
      (fun j _ => coeff_replicate_zero _ _)
      (fun k => by rw [conv_zero_left (fun i => coeff_replicate_zero _ i), zero_add])
  refine ⟨truncate q', r', ?_, canon_truncate _, hcr', fun k => ?_, hdeg'⟩
  · rw [hres]; rfl
  · rw [conv_congr (coeff_truncate q') (fun _ => rfl) k]; exact hinv' k

/-- dividing a non-zero polynomial by the zero polynomial is the documented
    `panic!("Dividing by zero polynomial")` -/
theorem divide_by_zero_panic {a b : List F} (hza : isZero a = false) (hzb : isZero b = true) :
    divideWithQAndR (.d a) (.d b) = .panic := by
  unfold divideWithQAndR
  simp [DoS.isZero, hza, hzb]

/-- `0 / b = (0, 0)` for every `b`, including `0 / 0`, as coded -/
theorem divide_zero_left {a : List F} (b : List F) (hza : isZero a = true) :
    divideWithQAndR (.d a) (.d b) = .ok ([], []) := by
  unfold divideWithQAndR
  simp [DoS.isZero, hza]

theorem divDD_eq {a b : List F} {q r : List F} (h : divideWithQAndR (.d a) (.d b) = .ok (q, r)) :
    divDD a b = .ok q := by
  unfold divDD; rw [h]; rfl

theorem divDD_spec {a b : List F} (ha : Canon a) (hb : Canon b) (hbne : b ≠ []) :
    ∃ q r, divDD a b = .ok q ∧ Canon q ∧ Canon r ∧
      (∀ k, coeff a k = conv q b k + coeff r k) ∧ (r = [] ∨ r.length < b.length) := by
  obtain ⟨q, r, h, hq, hr, he, hd⟩ := divide_spec ha hb hbne
  exact ⟨q, r, divDD_eq h, hq, hr, he, hd⟩

end Div

/-! ## 8. multiplication / division by the vanishing polynomial `Xⁿ − c` -/

section Van
variable {F : Type} [CommRing F] [DecidableEq F]

theorem mulByVanishingPoly_spec (a : List F) (n : Nat) (c : F) :
    Canon (mulByVanishingPoly a n c) ∧ ∀ k, coeff (mulByVanishingPoly a n c) k =
      (if n ≤ k then coeff a (k - n) else 0) - c * coeff a k := by
  unfold mulByVanishingPoly fromCoefficientsVec
  refine ⟨canon_truncate _, fun k => ?_⟩
  rw [coeff_truncate, coeff_zipInto_of_le (fun s x => s - x * c)
    (fun x => by simp) (by simp), coeff_append, List.length_replicate, coeff_replicate_zero]
  by_cases hk : k < n
  · rw [if_pos hk, if_neg (by omega), mul_comm]
  · rw [if_neg hk, if_pos (by omega), mul_comm]

/-- closed form of the quotient by `Xⁿ − c`: `q_j = Σ_{m < M} a_{j + n(m+1)} c^m` -/
def qF (a : List F) (n : Nat) (c : F) (M j : Nat) : F :=
  ∑ m ∈ Finset.range M, coeff a (j + n * (m + 1)) * c ^ m

/-- one iteration of the `for i in 1..len/n` loop of `divide_by_vanishing_poly` -/
def vanStep (a : List F) (n : Nat) (c : F) (st : List F × F) (k : Nat) : List F × F :=
  (zipInto (fun s x => s + x * (st.2 * c)) st.1 (a.drop (n * (k + 2))), st.2 * c)

theorem vanFold_spec (a : List F) (n : Nat) (c : F) (K : Nat) :
    ((List.range K).foldl (vanStep a n c) (a.drop n, 1)).2 = c ^ K ∧
    ((List.range K).foldl (vanStep a n c) (a.drop n, 1)).1.length = a.length - n ∧
    ∀ j, coeff ((List.range K).foldl (vanStep a n c) (a.drop n, 1)).1 j = qF a n c (K + 1) j := by
  induction K with
  | zero =>
    refine ⟨by simp, by simp, fun j => ?_⟩
    simp [qF, coeff_drop, Nat.add_comm]
  | succ K ih =>
    obtain ⟨h2, hl, hc⟩ := ih
    rw [List.range_succ, List.foldl_append]
    simp only [List.foldl_cons, List.foldl_nil]
    generalize (List.range K).foldl (vanStep a n c) (a.drop n, 1) = st at h2 hl hc
    refine ⟨?_, ?_, fun j => ?_⟩
    · simp only [vanStep, h2, pow_succ]
    · simp only [vanStep, length_zipInto, hl]
    · simp only [vanStep]
      rw [coeff_zipInto_of_le _ (fun x => by simp)
        (by rw [hl, List.length_drop]; have : n ≤ n * (K + 2) := Nat.le_mul_of_pos_right n (by omega); omega),
        hc j, coeff_drop, h2]
      unfold qF
      rw [Finset.sum_range_succ (n := K + 1)]
      have e : n * (K + 2) + j = j + n * (K + 1 + 1) := by ring
      rw [e, pow_succ]

theorem qF_telescope (a : List F) (n : Nat) (c : F) (M k : Nat) (hk : n ≤ k)
    (hM : a.length ≤ k + n * M) :
    qF a n c M (k - n) - c * qF a n c M k = coeff a k := by
  unfold qF
  rw [Finset.mul_sum, ← Finset.sum_sub_distrib]
  have h : ∀ m ∈ Finset.range M,
      coeff a (k - n + n * (m + 1)) * c ^ m - c * (coeff a (k + n * (m + 1)) * c ^ m) =
      -((fun m => coeff a (k + n * m) * c ^ m) (m + 1) - (fun m => coeff a (k + n * m) * c ^ m) m) := by
    intro m _
    have e : k - n + n * (m + 1) = k + n * m := by
      rw [Nat.mul_succ]; omega
    simp only [e, pow_succ]
    ring
  rw [Finset.sum_congr rfl h, Finset.sum_neg_distrib,
    Finset.sum_range_sub (fun m => coeff a (k + n * m) * c ^ m) M]
  simp only [Nat.mul_zero, Nat.add_zero, pow_zero, mul_one]
  rw [coeff_of_le hM]
  ring

theorem divideByVanishingPoly_spec {a : List F} (ha : Canon a) (n : Nat) (hn : 0 < n) (c : F) :
    ∃ q r, divideByVanishingPoly a n c = .ok (q, r) ∧ Canon q ∧ Canon r ∧
      (∀ k, coeff a k = (if n ≤ k then coeff q (k - n) else 0) - c * coeff q k + coeff r k) ∧
      r.length ≤ n := by
  unfold divideByVanishingPoly
  by_cases hlt : a.length < n
  · refine ⟨[], a, by rw [if_pos hlt], canon_nil, ha, fun k => ?_, Nat.le_of_lt hlt⟩
    simp
  rw [if_neg hlt, if_neg (by omega)]
  obtain ⟨_, hl, hc⟩ := vanFold_spec a n c (a.length / n - 1)
  have hfold : (List.range (a.length / n - 1)).foldl
      (fun (st : List F × F) k =>
        let op := st.2 * c
        (zipInto (fun s x => s + x * op) st.1 (a.drop (n * (k + 2))), op)) (a.drop n, (1 : F)) =
      (List.range (a.length / n - 1)).foldl (vanStep a n c) (a.drop n, 1) := rfl
  simp only [hfold, fromCoefficientsVec]
  generalize ((List.range (a.length / n - 1)).foldl (vanStep a n c) (a.drop n, 1)).1 = q at hl hc
  have hdiv : 1 ≤ a.length / n := (Nat.one_le_div_iff hn).2 (by omega)
  have hM : a.length / n - 1 + 1 = a.length / n := by omega
  rw [hM] at hc
  refine ⟨truncate q, truncate (zipInto (fun s x => s + x * c) (a.take n) q), rfl,
    canon_truncate _, canon_truncate _, fun k => ?_, ?_⟩
  · simp only [coeff_truncate]
    rw [coeff_zipInto _ (fun x => by simp), coeff_take, List.length_take, Nat.min_eq_left (by omega)]
    by_cases hk : k < n
    · rw [if_pos hk, if_pos hk, if_neg (by omega)]
      ring
    · rw [if_neg hk, if_pos (by omega), hc, hc, add_zero]
      refine (qF_telescope a n c (a.length / n) k (by omega) ?_).symm
      have h1 := Nat.div_add_mod a.length n
      have h2 := Nat.mod_lt a.length hn
      have h3 : n ≤ k := by omega
      generalize n * (a.length / n) = t at h1 ⊢
      omega
  · refine le_trans (length_truncate_le_length _) ?_
    rw [length_zipInto, List.length_take]
    exact Nat.min_le_left _ _

end Van

/-! ## 9. bridge to `Polynomial F` -/

section Bridge
open Polynomial
variable {F : Type} [CommRing F]

/-- the polynomial denoted by a stored coefficient vector -/
noncomputable def toPoly (p : List F) : F[X] :=
  ∑ i ∈ Finset.range p.length, C (coeff p i) * X ^ i

theorem coeff_toPoly (p : List F) (k : Nat) : (toPoly p).coeff k = coeff p k := by
  unfold toPoly
  rw [finsetSum_coeff]
  simp only [coeff_C_mul_X_pow]
  rw [Finset.sum_ite_eq]
  split
  · rfl
  · rename_i h
    exact (coeff_of_le (by simpa using h)).symm

theorem toPoly_eq_of_coeff {r : List F} {P : F[X]} (h : ∀ k, coeff r k = P.coeff k) : toPoly r = P := by
  ext k; rw [coeff_toPoly, h]

theorem toPoly_congr {r s : List F} (h : ∀ k, coeff r k = coeff s k) : toPoly r = toPoly s :=
  toPoly_eq_of_coeff (fun k => by rw [h, coeff_toPoly])

theorem toPoly_nil : toPoly ([] : List F) = 0 := by simp [toPoly]

theorem toPoly_add {r a b : List F} (h : ∀ k, coeff r k = coeff a k + coeff b k) :
    toPoly r = toPoly a + toPoly b :=
  toPoly_eq_of_coeff (fun k => by rw [h, Polynomial.coeff_add, coeff_toPoly, coeff_toPoly])

theorem toPoly_sub {r a b : List F} (h : ∀ k, coeff r k = coeff a k - coeff b k) :
    toPoly r = toPoly a - toPoly b :=
  toPoly_eq_of_coeff (fun k => by rw [h, Polynomial.coeff_sub, coeff_toPoly, coeff_toPoly])

theorem toPoly_neg {r a : List F} (h : ∀ k, coeff r k = - coeff a k) : toPoly r = - toPoly a :=
  toPoly_eq_of_coeff (fun k => by rw [h, Polynomial.coeff_neg, coeff_toPoly])

theorem toPoly_smul {r a : List F} {f : F} (h : ∀ k, coeff r k = coeff a k * f) :
    toPoly r = C f * toPoly a :=
  toPoly_eq_of_coeff (fun k => by rw [h, Polynomial.coeff_C_mul, coeff_toPoly, mul_comm])

theorem toPoly_add_smul {r a b : List F} {f : F} (h : ∀ k, coeff r k = coeff a k + f * coeff b k) :
    toPoly r = toPoly a + C f * toPoly b :=
  toPoly_eq_of_coeff (fun k => by
    rw [h, Polynomial.coeff_add, Polynomial.coeff_C_mul, coeff_toPoly, coeff_toPoly])

theorem coeff_toPoly_mul [DecidableEq F] (a b : List F) (k : Nat) :
    (toPoly a * toPoly b).coeff k = conv a b k := by
  rw [Polynomial.coeff_mul,
    Finset.Nat.sum_antidiagonal_eq_sum_range_succ (fun i j => (toPoly a).coeff i * (toPoly b).coeff j)]
  unfold conv convF
  exact Finset.sum_congr rfl (fun i _ => by rw [coeff_toPoly, coeff_toPoly])

theorem toPoly_mul [DecidableEq F] {r a b : List F} (h : ∀ k, coeff r k = conv a b k) :
    toPoly r = toPoly a * toPoly b :=
  toPoly_eq_of_coeff (fun k => by rw [h, coeff_toPoly_mul])

theorem toPoly_divmod [DecidableEq F] {a q b r : List F}
    (h : ∀ k, coeff a k = conv q b k + coeff r k) : toPoly a = toPoly q * toPoly b + toPoly r :=
  toPoly_eq_of_coeff (fun k => by rw [h, Polynomial.coeff_add, coeff_toPoly_mul, coeff_toPoly])

theorem eval_toPoly [DecidableEq F] (p : List F) (x : F) : (toPoly p).eval x = evaluate p x := by
  rw [evaluate_eq_sum]
  unfold toPoly
  rw [eval_finsetSum]
  exact Finset.sum_congr rfl (fun i _ => by rw [eval_C_mul, eval_pow, eval_X])

theorem degree_toPoly_lt (p : List F) : (toPoly p).degree < (p.length : WithBot ℕ) :=
  (degree_lt_iff_coeff_zero _ _).2 (fun m hm => by rw [coeff_toPoly]; exact coeff_of_le hm)

theorem le_degree_toPoly {p : List F} (hp : Canon p) (hne : p ≠ []) :
    ((p.length - 1 : ℕ) : WithBot ℕ) ≤ (toPoly p).degree :=
  le_degree_of_ne_zero (by rw [coeff_toPoly]; exact (canon_iff p).1 hp hne)

theorem degree_toPoly_lt_of_length {r b : List F} (hb : Canon b) (hbne : b ≠ [])
    (h : r = [] ∨ r.length < b.length) : (toPoly r).degree < (toPoly b).degree := by
  refine lt_of_lt_of_le (degree_toPoly_lt r) (le_trans ?_ (le_degree_toPoly hb hbne))
  have : r.length ≤ b.length - 1 := by
    rcases h with h | h
    · rw [h]; simp
    · omega
  exact_mod_cast this

theorem toPoly_ne_zero {b : List F} (hb : Canon b) (hbne : b ≠ []) : toPoly b ≠ 0 := by
  intro h
  have := (canon_iff b).1 hb hbne
  rw [← coeff_toPoly, h] at this
  simp at this

/-- the vanishing polynomial form of `mulByVanishingPoly` / `divideByVanishingPoly` -/
theorem coeff_mul_X_pow_sub_C (P : F[X]) (n : Nat) (c : F) (k : Nat) :
    (P * (X ^ n - C c)).coeff k = (if n ≤ k then P.coeff (k - n) else 0) - c * P.coeff k := by
  rw [mul_sub, Polynomial.coeff_sub, coeff_mul_X_pow', Polynomial.coeff_mul_C, mul_comm]

end Bridge

section BridgeField
open Polynomial
variable {F : Type} [Field F]

/-- uniqueness of Euclidean division in `F[X]` -/
theorem div_mod_unique {A B Q R : F[X]} (hB : B ≠ 0) (h : A = Q * B + R) (hd : R.degree < B.degree) :
    A / B = Q ∧ A % B = R := by
  have hmod : A % B = R := by
    rw [h, Polynomial.add_mod, (Polynomial.mod_eq_self_iff hB).2 hd]
    have : (Q * B) % B = 0 := EuclideanDomain.mod_eq_zero.2 (dvd_mul_left B Q)
    rw [this, zero_add]
  refine ⟨?_, hmod⟩
  have h1 := EuclideanDomain.div_add_mod A B
  rw [hmod] at h1
  have h2 : B * (A / B) = B * Q := by
    have : B * (A / B) + R = B * Q + R := by rw [h1, h, mul_comm]
    exact add_right_cancel this
  exact mul_left_cancel₀ hB h2

end BridgeField

end Ark.Poly.A
