import Ark.Proofs.Limbs
import Mathlib.Tactic.Ring
import Mathlib.Tactic.Linarith
/-
  Helper lemmas for C15 (part A): toLimbs, subB, mul2, div2, cmp and the signed-digit
  recodings (findNaf / findWnaf / findRelaxedNaf).
-/
namespace Ark

/-! ### generic list facts -/

theorem B_eq : B = 18446744073709551616 := by unfold B; norm_num

theorem value_append (xs ys : List Nat) :
    value (xs ++ ys) = value xs + B ^ xs.length * value ys := by
  induction xs with
  | nil => simp [value]
  | cons x xs ih =>
    simp only [List.cons_append, value, ih, List.length_cons, Nat.pow_succ]
    ring

theorem WF_append {xs ys : List Nat} : WF (xs ++ ys) ↔ WF xs ∧ WF ys := by
  unfold WF; simp only [List.mem_append]
  constructor
  · intro h; exact ⟨fun l hl => h l (Or.inl hl), fun l hl => h l (Or.inr hl)⟩
  · rintro ⟨h1, h2⟩ l (hl | hl)
    · exact h1 l hl
    · exact h2 l hl

theorem WF_reverse {xs : List Nat} : WF xs.reverse ↔ WF xs := by
  unfold WF; simp

theorem value_snoc (xs : List Nat) (t : Nat) :
    value (xs ++ [t]) = value xs + B ^ xs.length * t := by
  rw [value_append]; simp [value]

/-! ### toLimbs -/

theorem toLimbs_value (n v : Nat) : value (toLimbs n v) = v % B ^ n := by
  induction n generalizing v with
  | zero => simp [toLimbs, value, Nat.mod_one]
  | succ n ih =>
    simp only [toLimbs, value, ih]
    rw [Nat.pow_succ, Nat.mul_comm (B ^ n) B, Nat.mod_mul]

theorem toLimbs_wf (n v : Nat) : WF (toLimbs n v) := by
  induction n generalizing v with
  | zero => simp [toLimbs, WF]
  | succ n ih => exact WF_cons.mpr ⟨Nat.mod_lt _ B_pos, ih _⟩

theorem toLimbs_length (n v : Nat) : (toLimbs n v).length = n := by
  induction n generalizing v with
  | zero => simp [toLimbs]
  | succ n ih => simp [toLimbs, ih]

theorem toLimbs_value_self (a : List Nat) (h : WF a) : toLimbs a.length (value a) = a := by
  induction a with
  | nil => simp [toLimbs]
  | cons x xs ih =>
    have ⟨hx, hxs⟩ := WF_cons.mp h
    simp only [List.length_cons, toLimbs, value]
    have h1 : (x + B * value xs) % B = x := by
      rw [Nat.add_mul_mod_self_left]; exact Nat.mod_eq_of_lt hx
    have h2 : (x + B * value xs) / B = value xs := by
      rw [Nat.add_mul_div_left _ _ B_pos, Nat.div_eq_of_lt hx, Nat.zero_add]
    rw [h1, h2, ih hxs]

/-! ### subB -/

theorem subB_length (a b : List Nat) (c : Nat) (h : a.length = b.length) :
    (subB a b c).1.length = a.length := by
  induction a generalizing b c with
  | nil => cases b <;> simp [subB]
  | cons x xs ih =>
    cases b with
    | nil => simp at h
    | cons y ys =>
      simp only [subB, List.length_cons]
      rw [ih ys _ (by simpa using h)]

theorem subB_wf (a b : List Nat) (c : Nat) : WF (subB a b c).1 := by
  induction a generalizing b c with
  | nil => cases b <;> simp [subB, WF]
  | cons x xs ih =>
    cases b with
    | nil => simp [subB, WF]
    | cons y ys =>
      simp only [subB]
      exact WF_cons.mpr ⟨Nat.mod_lt _ B_pos, ih ys _⟩

theorem subB_borrow_le (a b : List Nat) (c : Nat) (hc : c ≤ 1) : (subB a b c).2 ≤ 1 := by
  induction a generalizing b c with
  | nil => cases b <;> simpa [subB]
  | cons x xs ih =>
    cases b with
    | nil => simpa [subB]
    | cons y ys =>
      simp only [subB]
      apply ih ys
      split <;> omega

/-- the `sbb` chain is exact: result + b + borrow-in = a + 2^(64N)·borrow-out -/
theorem subB_spec (a b : List Nat) (c : Nat) (h : a.length = b.length)
    (ha : WF a) (hb : WF b) (hc : c ≤ 1) :
    value (subB a b c).1 + value b + c = value a + B ^ a.length * (subB a b c).2 := by
  induction a generalizing b c with
  | nil =>
    cases b with
    | nil => simp [subB, value]
    | cons y ys => simp at h
  | cons x xs ih =>
    cases b with
    | nil => simp at h
    | cons y ys =>
      have ⟨hx, hxs⟩ := WF_cons.mp ha
      have ⟨hy, hys⟩ := WF_cons.mp hb
      have hc' : (if (B + x - y - c) / B = 0 then 1 else 0) ≤ 1 := by split <;> omega
      have ih := ih ys (if (B + x - y - c) / B = 0 then 1 else 0) (by simpa using h) hxs hys hc'
      simp only [subB, value, List.length_cons, Nat.pow_succ]
      have hdm := Nat.div_add_mod (B + x - y - c) B
      have hq : (B + x - y - c) / B ≤ 1 := by
        have : B + x - y - c < 2 * B := by omega
        exact Nat.lt_succ_iff.mp (Nat.div_lt_of_lt_mul (by omega))
      generalize (B + x - y - c) / B = q at *
      generalize (B + x - y - c) % B = r at *
      have hc'q : (if q = 0 then 1 else 0) + q = 1 := by split <;> omega
      generalize (if q = 0 then 1 else 0) = c' at *
      generalize value (subB xs ys c').1 = v at *
      generalize (subB xs ys c').2 = c'' at *
      generalize value xs = vx at *
      generalize value ys = vy at *
      have e : B ^ xs.length * B * c'' = B * (B ^ xs.length * c'') := by
        rw [Nat.mul_comm (B ^ xs.length) B, Nat.mul_assoc]
      rw [e]
      generalize B ^ xs.length * c'' = t at *
      have : B * v + B * vy + B * c' = B * vx + B * t := by
        rw [← Nat.mul_add, ← Nat.mul_add, ← Nat.mul_add, ih]
      have hBq : B * q = B ∨ B * q = 0 := by
        rcases Nat.le_one_iff_eq_zero_or_eq_one.mp hq with h0 | h1
        · right; rw [h0]; rfl
        · left; rw [h1]; omega
      have hBc : B * c' + B * q = B := by rw [← Nat.mul_add, hc'q]; omega
      omega

theorem subB_value_mod (a b : List Nat) (h : a.length = b.length) (ha : WF a) (hb : WF b) :
    value (subB a b 0).1 = (B ^ a.length + value a - value b) % B ^ a.length ∧
    (subB a b 0).2 = if value a < value b then 1 else 0 := by
  have hs := subB_spec a b 0 h ha hb (by omega)
  have hlt : value (subB a b 0).1 < B ^ a.length := by
    have := value_lt _ (subB_wf a b 0); rwa [subB_length a b 0 h] at this
  have hbl : value b < B ^ a.length := by have := value_lt _ hb; rwa [← h] at this
  have hal := value_lt _ ha
  have hc := subB_borrow_le a b 0 (by omega)
  generalize (subB a b 0).2 = c at *
  generalize value (subB a b 0).1 = r at *
  generalize B ^ a.length = P at *
  rcases Nat.le_one_iff_eq_zero_or_eq_one.mp hc with h0 | h1
  · subst h0
    have : r + value b = value a := by simpa using hs
    constructor
    · have : P + value a - value b = r + P * 1 := by omega
      rw [this, Nat.add_mul_mod_self_left, Nat.mod_eq_of_lt hlt]
    · rw [if_neg]; omega
  · subst h1
    have : r + value b = value a + P := by simpa using hs
    constructor
    · have : P + value a - value b = r := by omega
      rw [this, Nat.mod_eq_of_lt hlt]
    · rw [if_pos]; omega

/-! ### mul2 -/

theorem mul2C_length (a : List Nat) (l : Nat) : (mul2C a l).1.length = a.length := by
  induction a generalizing l with
  | nil => simp [mul2C]
  | cons x xs ih => simp [mul2C, ih]

theorem mul2C_wf (a : List Nat) (l : Nat) (hl : l ≤ 1) (ha : WF a) : WF (mul2C a l).1 := by
  induction a generalizing l with
  | nil => simp [mul2C, WF]
  | cons x xs ih =>
    have ⟨hx, hxs⟩ := WF_cons.mp ha
    simp only [mul2C]
    refine WF_cons.mpr ⟨?_, ih _ ?_ hxs⟩
    · rw [B_eq]; omega
    · rw [B_eq] at hx; omega

theorem mul2C_carry_le (a : List Nat) (l : Nat) (hl : l ≤ 1) (ha : WF a) : (mul2C a l).2 ≤ 1 := by
  induction a generalizing l with
  | nil => simpa [mul2C]
  | cons x xs ih =>
    have ⟨hx, hxs⟩ := WF_cons.mp ha
    simp only [mul2C]
    refine ih _ ?_ hxs
    rw [B_eq] at hx; omega

theorem mul2C_spec (a : List Nat) (l : Nat) :
    value (mul2C a l).1 + B ^ a.length * (mul2C a l).2 = 2 * value a + l := by
  induction a generalizing l with
  | nil => simp [mul2C, value]
  | cons x xs ih =>
    have ih := ih (x / 2 ^ 63)
    simp only [mul2C, value, List.length_cons, Nat.pow_succ]
    have hx : x * 2 % B + B * (x / 2 ^ 63) = 2 * x := by rw [B_eq]; omega
    generalize x * 2 % B = r at *
    generalize x / 2 ^ 63 = q at *
    generalize value (mul2C xs q).1 = v at *
    generalize (mul2C xs q).2 = c at *
    generalize value xs = vx at *
    have e : B ^ xs.length * B * c = B * (B ^ xs.length * c) := by
      rw [Nat.mul_comm (B ^ xs.length) B, Nat.mul_assoc]
    rw [e]
    generalize B ^ xs.length * c = t at *
    have : B * v + B * t = 2 * (B * vx) + B * q := by
      rw [← Nat.mul_add, ih]; ring
    omega

theorem mul2_spec (a : List Nat) (ha : WF a) :
    value (mul2 a).1 + B ^ a.length * (if (mul2 a).2 then 1 else 0) = 2 * value a := by
  have h := mul2C_spec a 0
  have hc := mul2C_carry_le a 0 (by omega) ha
  have e1 : (mul2 a).1 = (mul2C a 0).1 := rfl
  have e2 : (mul2 a).2 = ((mul2C a 0).2 != 0) := rfl
  rw [e1, e2]
  rcases Nat.le_one_iff_eq_zero_or_eq_one.mp hc with h0 | h1
  · rw [h0] at h; simpa [h0] using h
  · rw [h1] at h; simpa [h1] using h

theorem mul2_wf (a : List Nat) (ha : WF a) : WF (mul2 a).1 := mul2C_wf a 0 (by omega) ha
theorem mul2_length (a : List Nat) : (mul2 a).1.length = a.length := mul2C_length a 0

/-! ### div2 -/

theorem div2Rev_length (l : List Nat) (t : Nat) : (div2Rev l t).length = l.length := by
  induction l generalizing t with
  | nil => simp [div2Rev]
  | cons x xs ih => simp [div2Rev, ih]

theorem div2Rev_wf (l : List Nat) (t : Nat) (ht : t = 0 ∨ t = 2 ^ 63) (hl : WF l) :
    WF (div2Rev l t) := by
  induction l generalizing t with
  | nil => simp [div2Rev, WF]
  | cons x xs ih =>
    have ⟨hx, hxs⟩ := WF_cons.mp hl
    simp only [div2Rev]
    refine WF_cons.mpr ⟨?_, ih _ ?_ hxs⟩
    · rw [B_eq] at *; omega
    · rw [B_eq]; omega

theorem div2Rev_value (l : List Nat) (hi : Nat) (hhi : hi ≤ 1) :
    value (div2Rev l (hi * 2 ^ 63)).reverse = (value l.reverse + B ^ l.length * hi) / 2 := by
  induction l generalizing hi with
  | nil =>
    simp only [div2Rev, List.reverse_nil, value, List.length_nil, Nat.pow_zero]; omega
  | cons x xs ih =>
    have hm : x * 2 ^ 63 % B = (x % 2) * 2 ^ 63 := by rw [B_eq]; omega
    have ih := ih (x % 2) (by omega)
    have hp : B ^ (xs.length + 1) = B ^ xs.length * B := Nat.pow_succ ..
    simp only [div2Rev, List.reverse_cons, value_snoc, List.length_reverse, div2Rev_length,
      List.length_cons, hp]
    rw [hm, ih]
    generalize value xs.reverse = V
    generalize B ^ xs.length = P
    have hx : x = 2 * (x / 2) + x % 2 := by omega
    have key : V + P * x + P * B * hi = (V + P * (x % 2)) + 2 * (P * (x / 2 + hi * 2 ^ 63)) := by
      have hB : B = 2 * 2 ^ 63 := by rw [B_eq]; norm_num
      rw [hB]
      conv_lhs => rw [hx]
      ring
    rw [key, Nat.add_mul_div_left _ _ (by omega : 0 < 2)]

theorem div2_value (a : List Nat) : value (div2 a) = value a / 2 := by
  have := div2Rev_value a.reverse 0 (by omega)
  simpa [div2] using this

theorem div2_wf (a : List Nat) (ha : WF a) : WF (div2 a) := by
  unfold div2
  exact WF_reverse.mpr (div2Rev_wf _ 0 (Or.inl rfl) (WF_reverse.mpr ha))

theorem div2_length (a : List Nat) : (div2 a).length = a.length := by
  simp [div2, div2Rev_length]

/-! ### cmp -/

theorem cmpRev_spec (l1 l2 : List Nat) (h : l1.length = l2.length) (h1 : WF l1) (h2 : WF l2) :
    cmpRev l1 l2 = compare (value l1.reverse) (value l2.reverse) := by
  induction l1 generalizing l2 with
  | nil =>
    cases l2 with
    | nil => simp [cmpRev]
    | cons y ys => simp at h
  | cons x xs ih =>
    cases l2 with
    | nil => simp at h
    | cons y ys =>
      have ⟨hx, hxs⟩ := WF_cons.mp h1
      have ⟨hy, hys⟩ := WF_cons.mp h2
      have hlen : xs.length = ys.length := by simpa using h
      have ih := ih ys hlen hxs hys
      have b1 : value xs.reverse < B ^ xs.length := by
        have := value_lt _ (WF_reverse.mpr hxs); simpa using this
      have b2 : value ys.reverse < B ^ xs.length := by
        have := value_lt _ (WF_reverse.mpr hys); simpa [hlen] using this
      simp only [cmpRev, List.reverse_cons, value_snoc, List.length_reverse, ← hlen]
      generalize value xs.reverse = V1 at *
      generalize value ys.reverse = V2 at *
      generalize B ^ xs.length = P at *
      by_cases hlt : x < y
      · rw [if_pos hlt]
        have : P * (x + 1) ≤ P * y := Nat.mul_le_mul_left P hlt
        rw [Nat.mul_add] at this
        symm; rw [Nat.compare_eq_lt]; omega
      · rw [if_neg hlt]
        by_cases hgt : x > y
        · rw [if_pos hgt]
          have : P * (y + 1) ≤ P * x := Nat.mul_le_mul_left P hgt
          rw [Nat.mul_add] at this
          symm; rw [Nat.compare_eq_gt]; omega
        · rw [if_neg hgt]
          have : x = y := by omega
          subst this
          rw [ih]
          simp only [Nat.compare_eq_ite_lt, Nat.add_lt_add_iff_right]

theorem cmp_spec (a b : List Nat) (h : a.length = b.length) (ha : WF a) (hb : WF b) :
    cmp a b = compare (value a) (value b) := by
  have := cmpRev_spec a.reverse b.reverse (by simpa using h) (WF_reverse.mpr ha) (WF_reverse.mpr hb)
  simpa [cmp] using this

/-! ### signed-digit recodings: small limb-level facts -/

theorem isZero_iff (a : List Nat) : isZero a = true ↔ value a = 0 := by
  induction a with
  | nil => simp [isZero, value]
  | cons x xs ih =>
    have e : isZero (x :: xs) = (x == 0 && isZero xs) := by simp [isZero]
    rw [e]; simp only [Bool.and_eq_true, beq_iff_eq, ih, value]
    constructor
    · rintro ⟨rfl, h⟩; simp [h]
    · intro h
      have h1 : x = 0 := by omega
      have h2 : B * value xs = 0 := by omega
      rcases Nat.mul_eq_zero.mp h2 with h3 | h3
      · have := B_pos; omega
      · exact ⟨h1, h3⟩

theorem headD_eq (e : List Nat) (h : WF e) : e.headD 0 = value e % B := by
  cases e with
  | nil => simp [value]
  | cons x xs =>
    have ⟨hx, _⟩ := WF_cons.mp h
    simp only [List.headD_cons, value]
    rw [Nat.add_mul_mod_self_left, Nat.mod_eq_of_lt hx]

theorem B_le_pow (e : List Nat) (h : value e ≠ 0) : B ≤ B ^ e.length ∧ B ^ e.length % 2 = 0 := by
  cases e with
  | nil => simp [value] at h
  | cons x xs =>
    simp only [List.length_cons, Nat.pow_succ]
    have hp : 0 < B ^ xs.length := Nat.pow_pos B_pos
    constructor
    · exact Nat.le_mul_of_pos_left B hp
    · rw [B_eq, Nat.mul_mod]; simp

theorem subB_small (e : List Nat) (z : Nat) (he : WF e) (hz : z ≤ value e) :
    value (subB e (toLimbs e.length z) 0).1 = value e - z := by
  have hl : e.length = (toLimbs e.length z).length := (toLimbs_length _ _).symm
  have hs := subB_spec e _ 0 hl he (toLimbs_wf _ _) (by omega)
  have hlt : value (subB e (toLimbs e.length z) 0).1 < B ^ e.length := by
    have := value_lt _ (subB_wf e (toLimbs e.length z) 0); rwa [subB_length _ _ _ hl] at this
  have hv := value_lt _ he
  have hc := subB_borrow_le e (toLimbs e.length z) 0 (by omega)
  rw [toLimbs_value, Nat.mod_eq_of_lt (by omega)] at hs
  generalize (subB e (toLimbs e.length z) 0).2 = c at *
  generalize value (subB e (toLimbs e.length z) 0).1 = r at *
  generalize B ^ e.length = P at *
  rcases Nat.le_one_iff_eq_zero_or_eq_one.mp hc with h0 | h1
  · subst h0; simp at hs; omega
  · subst h1; simp at hs; omega

theorem addC_small (e : List Nat) (z : Nat) (hz : z < B ^ e.length) :
    value (addC e (toLimbs e.length z) 0).1 + B ^ e.length * (addC e (toLimbs e.length z) 0).2
      = value e + z := by
  have hl : e.length = (toLimbs e.length z).length := (toLimbs_length _ _).symm
  have hs := addC_spec e _ 0 hl
  rw [toLimbs_value, Nat.mod_eq_of_lt hz] at hs
  simpa using hs

/-- `orTop` on a value whose top bit is clear adds `2^(64N-1)` -/
theorem orTop_spec (e : List Nat) (he : WF e) (h : 2 * value e < B ^ e.length) :
    value (orTop e) = value e + B ^ e.length / 2 ∧ WF (orTop e) ∧ (orTop e).length = e.length := by
  unfold orTop
  rcases hr : e.reverse with _ | ⟨t, rest⟩
  · have : e = [] := by simpa using hr
    subst this; simp [orTopRev, value, WF]
  · have he' : e = rest.reverse ++ [t] := by
      have := congrArg List.reverse hr; simpa using this
    subst he'
    have ⟨hrest, ht⟩ := WF_append.mp he
    have ht : t < B := (WF_cons.mp ht).1
    simp only [value_snoc, List.length_append, List.length_reverse, List.length_cons,
      List.length_nil, Nat.zero_add] at h ⊢
    have hp : B ^ (rest.length + 1) = B ^ rest.length * B := Nat.pow_succ ..
    rw [hp] at h ⊢
    have hP : 0 < B ^ rest.length := Nat.pow_pos B_pos
    have hB : B = 2 * 9223372036854775808 := by rw [B_eq]
    have hPB : ∀ P : Nat, P * B = 2 * (P * 9223372036854775808) := by intro P; rw [hB]; ring
    have ht63 : t < 9223372036854775808 := by
      by_contra hn
      have h1 : B ^ rest.length * 9223372036854775808 ≤ B ^ rest.length * t :=
        Nat.mul_le_mul_left _ (by omega)
      have h2 := hPB (B ^ rest.length)
      omega
    have hcond : ((t / 2 ^ 63) % 2 == 1) = false := by
      have : t / 2 ^ 63 = 0 := Nat.div_eq_of_lt (by norm_num; exact ht63)
      rw [this]; rfl
    simp only [orTopRev, hcond, Bool.false_eq_true, if_false, List.reverse_cons, value_snoc,
      List.length_reverse]
    refine ⟨?_, ?_, by simp⟩
    · have h2 := hPB (B ^ rest.length)
      rw [Nat.mul_add]
      generalize B ^ rest.length * B = PB at *
      norm_num
      omega
    · refine WF_append.mpr ⟨hrest, WF_cons.mpr ⟨?_, WF_nil⟩⟩
      rw [B_eq]; norm_num; omega

/-! ### Nat-level recoding loop -/

theorem smr_mod (n m : Nat) : signedModReduction n m = signedModReduction (n % m) m := by
  simp only [signedModReduction, Nat.mod_mod]

/-- digit chosen by `find_wnaf` for the current value `v` -/
def wnafStep (w v : Nat) : Int := if v % 2 = 1 then signedModReduction v (2 ^ w) else 0

/-- the `find_wnaf` loop on natural numbers -/
def wnafNat (w : Nat) : Nat → Nat → List Int
  | 0, _ => []
  | fuel + 1, v =>
    if v = 0 then []
    else wnafStep w v :: wnafNat w fuel (((v : Int) - wnafStep w v).toNat / 2)

theorem two_pow_split (w : Nat) (hw : 2 ≤ w) :
    2 ^ w = 2 * 2 ^ (w - 1) ∧ 2 ^ (w - 1) = 2 * 2 ^ (w - 2) ∧ 0 < 2 ^ (w - 2) := by
  obtain ⟨k, rfl⟩ : ∃ k, w = k + 2 := ⟨w - 2, by omega⟩
  refine ⟨?_, ?_, Nat.two_pow_pos _⟩
  · show 2 ^ (k + 1 + 1) = 2 * 2 ^ (k + 1); rw [Nat.pow_succ]; ring
  · show 2 ^ (k + 1) = 2 * 2 ^ k; rw [Nat.pow_succ]; ring

theorem wnafStep_cases (w v : Nat) (hw : 2 ≤ w) :
    (v % 2 = 0 ∧ wnafStep w v = 0) ∨
    (v % 2 = 1 ∧ v % 2 ^ w < 2 ^ (w - 1) ∧ wnafStep w v = ((v % 2 ^ w : Nat) : Int)) ∨
    (v % 2 = 1 ∧ 2 ^ (w - 1) < v % 2 ^ w ∧
      wnafStep w v = ((v % 2 ^ w : Nat) : Int) - ((2 ^ w : Nat) : Int)) := by
  obtain ⟨h1, h2, h3⟩ := two_pow_split w hw
  have hmm : v % 2 ^ w % 2 = v % 2 := Nat.mod_mod_of_dvd v ⟨2 ^ (w - 1), h1⟩
  have hhalf : 2 ^ w / 2 = 2 ^ (w - 1) := by omega
  unfold wnafStep signedModReduction
  by_cases hodd : v % 2 = 1
  · rw [if_pos hodd]
    right
    simp only [hhalf]
    by_cases hge : v % 2 ^ w ≥ 2 ^ (w - 1)
    · rw [if_pos hge]; right
      refine ⟨hodd, ?_, rfl⟩
      omega
    · rw [if_neg hge]; left
      exact ⟨hodd, by omega, rfl⟩
  · rw [if_neg hodd]; left; exact ⟨by omega, rfl⟩

/-- every digit is `0` or odd with absolute value below `2^(w-1)` -/
theorem wnafStep_digit (w v : Nat) (hw : 2 ≤ w) :
    wnafStep w v = 0 ∨ (wnafStep w v % 2 = 1 ∧ (wnafStep w v).natAbs < 2 ^ (w - 1)) := by
  obtain ⟨h1, h2, h3⟩ := two_pow_split w hw
  have hmm : v % 2 ^ w % 2 = v % 2 := Nat.mod_mod_of_dvd v ⟨2 ^ (w - 1), h1⟩
  have hlt : v % 2 ^ w < 2 ^ w := Nat.mod_lt _ (Nat.two_pow_pos w)
  rcases wnafStep_cases w v hw with ⟨_, h⟩ | ⟨ho, hl, h⟩ | ⟨ho, hl, h⟩
  · exact Or.inl h
  · right; rw [h]; omega
  · right; rw [h]; omega

/-- the next value `(v - z)/2` is exact, and stays below any power of two that bounds `v` -/
theorem wnafStep_next (w v f : Nat) (hw : 2 ≤ w) (hv : v ≤ 2 ^ f) :
    wnafStep w v + 2 * ((((v : Int) - wnafStep w v).toNat / 2 : Nat) : Int) = v ∧
    2 * (((v : Int) - wnafStep w v).toNat / 2) ≤ 2 ^ f := by
  obtain ⟨h1, h2, h3⟩ := two_pow_split w hw
  have hmm : v % 2 ^ w % 2 = v % 2 := Nat.mod_mod_of_dvd v ⟨2 ^ (w - 1), h1⟩
  have hlt : v % 2 ^ w < 2 ^ w := Nat.mod_lt _ (Nat.two_pow_pos w)
  have hle : v % 2 ^ w ≤ v := Nat.mod_le _ _
  rcases wnafStep_cases w v hw with ⟨he, h⟩ | ⟨ho, hl, h⟩ | ⟨ho, hl, h⟩
  · rw [h]; omega
  · rw [h]; omega
  · rw [h]
    have hdm := Nat.div_add_mod v (2 ^ w)
    -- v - z = 2^w * (v / 2^w + 1)
    have hbound : 2 ^ w * (v / 2 ^ w) + 2 ^ w ≤ 2 ^ f := by
      by_cases hwf : w ≤ f
      · have hsplit : 2 ^ f = 2 ^ w * 2 ^ (f - w) := by
          rw [← Nat.pow_add]; congr 1; omega
        have heven : 2 ^ w * 2 ^ (f - w) = 2 * (2 ^ (w - 1) * 2 ^ (f - w)) := by
          rw [h1]; ring
        have hvlt : v < 2 ^ w * 2 ^ (f - w) := by omega
        have hq : v / 2 ^ w < 2 ^ (f - w) := Nat.div_lt_of_lt_mul hvlt
        have : 2 ^ w * (v / 2 ^ w + 1) ≤ 2 ^ w * 2 ^ (f - w) := Nat.mul_le_mul_left _ hq
        rw [hsplit]; rw [Nat.mul_add] at this; omega
      · have : 2 ^ f ≤ 2 ^ (w - 1) := Nat.pow_le_pow_right (by omega) (by omega)
        have : v % 2 ^ w = v := Nat.mod_eq_of_lt (by omega)
        omega
    omega

theorem digitsValue_cons (d : Int) (ds : List Int) :
    digitsValue (d :: ds) = d + 2 * digitsValue ds := rfl

theorem wnafNat_succ (w fuel v : Nat) :
    wnafNat w (fuel + 1) v =
      if v = 0 then []
      else wnafStep w v :: wnafNat w fuel (((v : Int) - wnafStep w v).toNat / 2) := rfl

/-- with enough fuel the digit string denotes `v` -/
theorem wnafNat_value (w : Nat) (hw : 2 ≤ w) :
    ∀ fuel v, 2 * v ≤ 2 ^ fuel → digitsValue (wnafNat w fuel v) = v := by
  intro fuel
  induction fuel with
  | zero => intro v hv; have : v = 0 := by omega
            subst this; rfl
  | succ f ih =>
    intro v hv
    rw [wnafNat_succ]
    by_cases hv0 : v = 0
    · rw [if_pos hv0, hv0]; rfl
    · rw [if_neg hv0, digitsValue_cons]
      have hvf : v ≤ 2 ^ f := by rw [Nat.pow_succ] at hv; omega
      obtain ⟨e1, e2⟩ := wnafStep_next w v f hw hvf
      rw [ih _ e2]; exact e1

theorem wnafNat_digits (w : Nat) (hw : 2 ≤ w) :
    ∀ fuel v, ∀ d ∈ wnafNat w fuel v, d = 0 ∨ (d % 2 = 1 ∧ d.natAbs < 2 ^ (w - 1)) := by
  intro fuel
  induction fuel with
  | zero => intro v d hd; simp [wnafNat] at hd
  | succ f ih =>
    intro v d hd
    rw [wnafNat_succ] at hd
    by_cases hv0 : v = 0
    · rw [if_pos hv0] at hd; simp at hd
    · rw [if_neg hv0] at hd
      rcases List.mem_cons.mp hd with rfl | hd
      · exact wnafStep_digit w v hw
      · exact ih _ d hd

theorem wnafNat_eq_nil (w fuel v : Nat) (hv : 2 * v ≤ 2 ^ fuel) (h : wnafNat w fuel v = []) :
    v = 0 := by
  cases fuel with
  | zero => simp at hv; omega
  | succ f =>
    rw [wnafNat_succ] at h
    by_cases hv0 : v = 0
    · exact hv0
    · rw [if_neg hv0] at h; simp at h

/-- with enough fuel the last (most significant) digit is positive -/
theorem wnafNat_last_pos (w : Nat) (hw : 2 ≤ w) :
    ∀ fuel v, 2 * v ≤ 2 ^ fuel → ∀ d, (wnafNat w fuel v).getLast? = some d → 0 < d := by
  intro fuel
  induction fuel with
  | zero => intro v hv d hd; simp [wnafNat] at hd
  | succ f ih =>
    intro v hv d hd
    rw [wnafNat_succ] at hd
    by_cases hv0 : v = 0
    · rw [if_pos hv0] at hd; simp at hd
    · rw [if_neg hv0] at hd
      have hvf : v ≤ 2 ^ f := by rw [Nat.pow_succ] at hv; omega
      obtain ⟨e1, e2⟩ := wnafStep_next w v f hw hvf
      rcases hrest : wnafNat w f (((v : Int) - wnafStep w v).toNat / 2) with _ | ⟨y, ys⟩
      · have := wnafNat_eq_nil w f _ e2 hrest
        rw [hrest] at hd
        simp at hd
        rw [this] at e1
        omega
      · rw [hrest, List.getLast?_cons_cons] at hd
        rw [← hrest] at hd
        exact ih _ e2 d hd

/-! ### NAF-specific facts (`w = 2`) -/

theorem wnafStep2_next_even (v : Nat) (h : wnafStep 2 v ≠ 0) :
    (((v : Int) - wnafStep 2 v).toNat / 2) % 2 = 0 := by
  rcases wnafStep_cases 2 v (by omega) with ⟨_, h'⟩ | ⟨ho, hl, h'⟩ | ⟨ho, hl, h'⟩
  · exact absurd h' h
  · rw [h']; norm_num at hl ⊢; omega
  · rw [h']; norm_num at hl ⊢; omega

theorem wnafNat_head_even (w fuel v : Nat) (hv : v % 2 = 0) :
    (wnafNat w fuel v).getD 0 0 = 0 := by
  cases fuel with
  | zero => rfl
  | succ f =>
    rw [wnafNat_succ]
    by_cases hv0 : v = 0
    · rw [if_pos hv0]; rfl
    · rw [if_neg hv0]
      have : wnafStep w v = 0 := by unfold wnafStep; rw [if_neg (by omega)]
      simp [this]

theorem nafNat_nonadjacent :
    ∀ fuel v i, (wnafNat 2 fuel v).getD i 0 = 0 ∨ (wnafNat 2 fuel v).getD (i + 1) 0 = 0 := by
  intro fuel
  induction fuel with
  | zero => intro v i; left; rfl
  | succ f ih =>
    intro v i
    rw [wnafNat_succ]
    by_cases hv0 : v = 0
    · rw [if_pos hv0]; left; rfl
    · rw [if_neg hv0]
      cases i with
      | zero =>
        by_cases hz : wnafStep 2 v = 0
        · left; simp [hz]
        · right
          have := wnafNat_head_even 2 f _ (wnafStep2_next_even v hz)
          simpa using this
      | succ j =>
        have := ih (((v : Int) - wnafStep 2 v).toNat / 2) j
        simpa using this

theorem digitsValue_append (xs ys : List Int) :
    digitsValue (xs ++ ys) = digitsValue xs + 2 ^ xs.length * digitsValue ys := by
  induction xs with
  | nil => simp [digitsValue]
  | cons x xs ih =>
    simp only [List.cons_append, digitsValue, ih, List.length_cons, pow_succ]
    ring

/-! ### the limb-level `find_wnaf` loop refines `wnafNat` -/

/-- digit computed by one `find_wnaf` iteration -/
def wnafDigit (w : Nat) (e : List Nat) : Int :=
  if e.headD 0 % 2 == 1 then signedModReduction (e.headD 0) (2 ^ w) else 0

/-- buffer after one `find_wnaf` iteration -/
def wnafNext (w : Nat) (e : List Nat) : List Nat :=
  let z := wnafDigit w e
  let r := if z ≥ 0 then ((subB e (toLimbs e.length z.toNat) 0).1, 0)
           else addC e (toLimbs e.length (-z).toNat) 0
  let e2 := div2 r.1
  if r.2 != 0 then orTop e2 else e2

theorem findWnafLoop_succ (w fuel : Nat) (e : List Nat) :
    findWnafLoop w (fuel + 1) e =
      if isZero e then [] else wnafDigit w e :: findWnafLoop w fuel (wnafNext w e) := rfl

theorem wnafDigit_eq (w : Nat) (e : List Nat) (hw : w ≤ 64) (he : WF e) :
    wnafDigit w e = wnafStep w (value e) := by
  unfold wnafDigit wnafStep
  rw [headD_eq e he]
  have h2 : value e % B % 2 = value e % 2 :=
    Nat.mod_mod_of_dvd _ ⟨2 ^ 63, by rw [B_eq]; norm_num⟩
  have hd : 2 ^ w ∣ B := by unfold B; exact Nat.pow_dvd_pow 2 hw
  have h3 : value e % B % 2 ^ w = value e % 2 ^ w := Nat.mod_mod_of_dvd _ hd
  rw [h2, smr_mod (value e % B), h3, ← smr_mod]
  by_cases ho : value e % 2 = 1
  · simp [ho]
  · simp [ho]

theorem wnafNext_spec (w : Nat) (e : List Nat) (hw2 : 2 ≤ w) (hw : w < 64) (he : WF e)
    (hv : value e ≠ 0) :
    WF (wnafNext w e) ∧ (wnafNext w e).length = e.length ∧
    value (wnafNext w e) = ((value e : Int) - wnafStep w (value e)).toNat / 2 := by
  obtain ⟨h1, h2, h3⟩ := two_pow_split w hw2
  obtain ⟨hBP, hPeven⟩ := B_le_pow e hv
  have hlt : value e % 2 ^ w < 2 ^ w := Nat.mod_lt _ (Nat.two_pow_pos w)
  have hle : value e % 2 ^ w ≤ value e := Nat.mod_le _ _
  have hwB : 2 ^ w < B := by unfold B; exact Nat.pow_lt_pow_right (by omega) (by omega)
  unfold wnafNext
  rw [wnafDigit_eq w e (by omega) he]
  have hcases := wnafStep_cases w (value e) hw2
  generalize wnafStep w (value e) = z at *
  by_cases hz : z ≥ 0
  · simp only [if_pos hz, bne_self_eq_false, Bool.false_eq_true, if_false]
    have hzle : z.toNat ≤ value e := by omega
    refine ⟨div2_wf _ (subB_wf _ _ _), ?_, ?_⟩
    · rw [div2_length, subB_length _ _ _ (toLimbs_length _ _).symm]
    · rw [div2_value, subB_small e _ he hzle]
      congr 1; omega
  · simp only [if_neg hz]
    have hm : (-z).toNat < B ^ e.length := by omega
    have hs := addC_small e (-z).toNat hm
    have hc := addC_carry_le e (toLimbs e.length (-z).toNat) 0 he (toLimbs_wf _ _) (by omega)
    have hwf := addC_wf e (toLimbs e.length (-z).toNat) 0
    have hlen := addC_length e (toLimbs e.length (-z).toNat) 0 (toLimbs_length _ _).symm
    have hrl := value_lt _ hwf
    rw [hlen] at hrl
    generalize addC e (toLimbs e.length (-z).toNat) 0 = r at *
    rcases Nat.le_one_iff_eq_zero_or_eq_one.mp hc with h0 | h1
    · simp only [h0, bne_self_eq_false, Bool.false_eq_true, if_false]
      refine ⟨div2_wf _ hwf, by rw [div2_length, hlen], ?_⟩
      rw [div2_value]
      rw [h0] at hs
      have : ((value e : Int) - z).toNat = value r.1 := by omega
      rw [this]
    · have hne : (r.2 != 0) = true := by rw [h1]; rfl
      simp only [hne, if_true]
      have hd2 : 2 * value (div2 r.1) < B ^ (div2 r.1).length := by
        rw [div2_value, div2_length, hlen]; omega
      obtain ⟨o1, o2, o3⟩ := orTop_spec (div2 r.1) (div2_wf _ hwf) hd2
      refine ⟨o2, by rw [o3, div2_length, hlen], ?_⟩
      rw [o1, div2_value, div2_length, hlen]
      rw [h1] at hs
      have : ((value e : Int) - z).toNat = value r.1 + B ^ e.length := by omega
      rw [this]
      omega

theorem findWnafLoop_eq (w : Nat) (hw2 : 2 ≤ w) (hw : w < 64) :
    ∀ fuel e, WF e → findWnafLoop w fuel e = wnafNat w fuel (value e) := by
  intro fuel
  induction fuel with
  | zero => intro e _; rfl
  | succ f ih =>
    intro e he
    rw [findWnafLoop_succ, wnafNat_succ]
    by_cases hv : value e = 0
    · rw [if_pos ((isZero_iff e).mpr hv), if_pos hv]
    · have hz : ¬ (isZero e = true) := fun h => hv ((isZero_iff e).mp h)
      rw [if_neg hz, if_neg hv]
      obtain ⟨n1, _, n3⟩ := wnafNext_spec w e hw2 hw he hv
      rw [ih _ n1, n3, wnafDigit_eq w e (by omega) he]

theorem value_le_fuel (a : List Nat) (ha : WF a) (k : Nat) :
    2 * value a ≤ 2 ^ (64 * a.length + 1 + k) := by
  have h := value_lt a ha
  have : B ^ a.length = 2 ^ (64 * a.length) := by unfold B; rw [← Nat.pow_mul]
  rw [this] at h
  have : 2 ^ (64 * a.length + 1 + k) = 2 * 2 ^ (64 * a.length) * 2 ^ k := by
    rw [Nat.pow_add, Nat.pow_succ]; ring
  rw [this]
  have hk : 0 < 2 ^ k := Nat.two_pow_pos k
  calc 2 * value a ≤ 2 * 2 ^ (64 * a.length) * 1 := by omega
    _ ≤ 2 * 2 ^ (64 * a.length) * 2 ^ k := Nat.mul_le_mul_left _ hk

theorem findWnaf_some (a : List Nat) (w : Nat) (hw2 : 2 ≤ w) (hw : w < 64) (ha : WF a) :
    findWnaf a w = some (wnafNat w (64 * a.length + 1) (value a)) := by
  unfold findWnaf
  rw [if_pos ⟨hw2, hw⟩, findWnafLoop_eq w hw2 hw _ a ha]

theorem findWnaf_none (a : List Nat) (w : Nat) (h : ¬ (2 ≤ w ∧ w < 64)) : findWnaf a w = none := by
  unfold findWnaf; rw [if_neg h]

/-! ### the limb-level `find_naf` loop refines `wnafNat 2` -/

def nafDigit (e : List Nat) : Int :=
  if e.headD 0 % 2 == 1 then 2 - ((e.headD 0 % 4 : Nat) : Int) else 0

def nafNext (e : List Nat) : List Nat :=
  let z := nafDigit e
  div2 (if z ≥ 0 then subSmall e z.toNat else addSmall e (-z).toNat)

theorem findNafLoop_succ (fuel : Nat) (e : List Nat) :
    findNafLoop (fuel + 1) e =
      if isZero e then [] else nafDigit e :: findNafLoop fuel (nafNext e) := rfl

theorem nafDigit_eq (e : List Nat) (he : WF e) : nafDigit e = wnafStep 2 (value e) := by
  unfold nafDigit wnafStep signedModReduction
  rw [headD_eq e he]
  have h2 : value e % B % 2 = value e % 2 :=
    Nat.mod_mod_of_dvd _ ⟨2 ^ 63, by rw [B_eq]; norm_num⟩
  have h4 : value e % B % 4 = value e % 4 :=
    Nat.mod_mod_of_dvd _ ⟨2 ^ 62, by rw [B_eq]; norm_num⟩
  rw [h2, h4]
  by_cases ho : value e % 2 = 1
  · simp only [ho, beq_self_eq_true, if_true]
    norm_num
    split <;> omega
  · simp [ho]

theorem nafNext_spec (e : List Nat) (he : WF e)
    (hb : value e + 1 < B ^ e.length) :
    WF (nafNext e) ∧ (nafNext e).length = e.length ∧
    value (nafNext e) = ((value e : Int) - wnafStep 2 (value e)).toNat / 2 ∧
    value (nafNext e) + 1 < B ^ e.length := by
  unfold nafNext
  rw [nafDigit_eq e he]
  have hcases := wnafStep_cases 2 (value e) (by omega)
  norm_num at hcases
  generalize wnafStep 2 (value e) = z at *
  by_cases hz : z ≥ 0
  · simp only [if_pos hz]
    have hzle : z.toNat ≤ value e := by omega
    unfold subSmall
    have hval : value (div2 (subB e (toLimbs e.length z.toNat) 0).1) =
        ((value e : Int) - z).toNat / 2 := by
      rw [div2_value, subB_small e _ he hzle]; congr 1; omega
    refine ⟨div2_wf _ (subB_wf _ _ _), ?_, hval, ?_⟩
    · rw [div2_length, subB_length _ _ _ (toLimbs_length _ _).symm]
    · rw [hval]; omega
  · simp only [if_neg hz]
    unfold addSmall
    have hm : (-z).toNat < B ^ e.length := by omega
    have hs := addC_small e (-z).toNat hm
    have hc := addC_carry_le e (toLimbs e.length (-z).toNat) 0 he (toLimbs_wf _ _) (by omega)
    have hwf := addC_wf e (toLimbs e.length (-z).toNat) 0
    have hlen := addC_length e (toLimbs e.length (-z).toNat) 0 (toLimbs_length _ _).symm
    generalize addC e (toLimbs e.length (-z).toNat) 0 = r at *
    have hr2 : r.2 = 0 := by
      rcases Nat.le_one_iff_eq_zero_or_eq_one.mp hc with h0 | h1
      · exact h0
      · rw [h1] at hs; omega
    rw [hr2] at hs
    have hval : value (div2 r.1) = ((value e : Int) - z).toNat / 2 := by
      rw [div2_value]; congr 1; omega
    refine ⟨div2_wf _ hwf, by rw [div2_length, hlen], hval, ?_⟩
    rw [hval]; omega

theorem findNafLoop_eq :
    ∀ fuel e, WF e → value e + 1 < B ^ e.length →
      findNafLoop fuel e = wnafNat 2 fuel (value e) := by
  intro fuel
  induction fuel with
  | zero => intro e _ _; rfl
  | succ f ih =>
    intro e he hb
    rw [findNafLoop_succ, wnafNat_succ]
    by_cases hv : value e = 0
    · rw [if_pos ((isZero_iff e).mpr hv), if_pos hv]
    · have hz : ¬ (isZero e = true) := fun h => hv ((isZero_iff e).mp h)
      rw [if_neg hz, if_neg hv]
      obtain ⟨n1, n2, n3, n4⟩ := nafNext_spec e he hb
      rw [← n2] at n4
      rw [ih _ n1 n4, n3, nafDigit_eq e he]

theorem findNaf_eq (a : List Nat) (ha : WF a) :
    findNaf a = wnafNat 2 (64 * a.length + 1 + 64) (value a) := by
  unfold findNaf
  have hwf : WF (a ++ [0]) := WF_append.mpr ⟨ha, WF_cons.mpr ⟨B_pos, WF_nil⟩⟩
  have hval : value (a ++ [0]) = value a := by rw [value_snoc]; simp
  have hb : value (a ++ [0]) + 1 < B ^ (a ++ [0]).length := by
    rw [hval]
    have h := value_lt a ha
    simp only [List.length_append, List.length_cons, List.length_nil, Nat.zero_add, Nat.pow_succ]
    have hp : 0 < B ^ a.length := Nat.pow_pos B_pos
    have : B ^ a.length * 2 ≤ B ^ a.length * B := Nat.mul_le_mul_left _ (by rw [B_eq]; omega)
    omega
  rw [findNafLoop_eq _ _ hwf hb, hval]
  congr 1

/-! ### relaxed NAF -/

theorem relaxed_value (res : List Int) (h3 : res.length ≥ 3)
    (h1 : res.getD (res.length - 2) 0 = 0) (h2 : res.getD (res.length - 3) 0 = -1)
    (hl : res.getLast? = some 1) :
    digitsValue (res.take (res.length - 3) ++ [1, 1]) = digitsValue res := by
  obtain ⟨pre, a, b, c, rfl⟩ : ∃ pre a b c, res = pre ++ [a, b, c] := by
    rcases hr : res.reverse with _ | ⟨c, _ | ⟨b, _ | ⟨a, rest⟩⟩⟩
    · have : res = [] := by simpa using hr
      subst this; simp at h3
    · have := congrArg List.length hr; simp at this; omega
    · have := congrArg List.length hr; simp at this; omega
    · refine ⟨rest.reverse, a, b, c, ?_⟩
      have := congrArg List.reverse hr; simpa using this
  have e3 : (pre ++ [a, b, c]).length - 3 = pre.length := by simp
  have e2 : (pre ++ [a, b, c]).length - 2 = pre.length + 1 := by simp
  rw [e3] at h2 ⊢
  rw [e2] at h1
  have ha : a = -1 := by simpa using h2
  have hb : b = 0 := by
    simpa [List.getD_eq_getElem?_getD, List.getElem?_append_right] using h1
  have hc : c = 1 := by simpa using hl
  subst ha hb hc
  rw [List.take_left' rfl, digitsValue_append, digitsValue_append]
  simp [digitsValue]

/-! ### assembled statements for `findNaf` / `findRelaxedNaf` -/

theorem findNaf_value (a : List Nat) (ha : WF a) : digitsValue (findNaf a) = value a := by
  rw [findNaf_eq a ha]
  exact wnafNat_value 2 (by omega) _ _ (value_le_fuel a ha 64)

theorem findNaf_digits (a : List Nat) (ha : WF a) :
    ∀ d ∈ findNaf a, d = -1 ∨ d = 0 ∨ d = 1 := by
  intro d hd
  rw [findNaf_eq a ha] at hd
  have := wnafNat_digits 2 (by omega) _ _ d hd
  norm_num at this
  omega

theorem findNaf_nonadjacent (a : List Nat) (ha : WF a) (i : Nat) :
    (findNaf a).getD i 0 = 0 ∨ (findNaf a).getD (i + 1) 0 = 0 := by
  rw [findNaf_eq a ha]; exact nafNat_nonadjacent _ _ i

theorem findNaf_getLast? (a : List Nat) (ha : WF a) (d : Int)
    (h : (findNaf a).getLast? = some d) : d = 1 := by
  have hmem := findNaf_digits a ha d (List.mem_of_getLast? h)
  rw [findNaf_eq a ha] at h
  have := wnafNat_last_pos 2 (by omega) _ _ (value_le_fuel a ha 64) d h
  omega

theorem findNaf_getLast (a : List Nat) (ha : WF a) (h : findNaf a ≠ []) :
    (findNaf a).getLast h = 1 :=
  findNaf_getLast? a ha _ (List.getLast?_eq_some_getLast h)

theorem findRelaxedNaf_spec (a : List Nat) (ha : WF a) :
    ∃ ds, findRelaxedNaf a = .ok ds ∧ digitsValue ds = value a := by
  unfold findRelaxedNaf
  simp only []
  split
  · rename_i h
    refine ⟨_, rfl, ?_⟩
    have hne : findNaf a ≠ [] := by
      intro h0; rw [h0] at h; simp at h
    have hl : (findNaf a).getLast? = some 1 := by
      rw [List.getLast?_eq_some_getLast hne, findNaf_getLast a ha hne]
    rw [relaxed_value _ h.1 h.2.1 h.2.2 hl]
    exact findNaf_value a ha
  · exact ⟨_, rfl, findNaf_value a ha⟩

theorem findWnaf_spec (a : List Nat) (w : Nat) (hw2 : 2 ≤ w) (hw : w < 64) (ha : WF a) :
    ∃ ds, findWnaf a w = some ds ∧ digitsValue ds = value a ∧
      (∀ d ∈ ds, d = 0 ∨ (d % 2 = 1 ∧ d.natAbs < 2 ^ (w - 1))) ∧
      (∀ d, ds.getLast? = some d → 0 < d) := by
  refine ⟨_, findWnaf_some a w hw2 hw ha, ?_, ?_, ?_⟩
  · exact wnafNat_value w hw2 _ _ (value_le_fuel a ha 0)
  · exact wnafNat_digits w hw2 _ _
  · exact wnafNat_last_pos w hw2 _ _ (value_le_fuel a ha 0)

end Ark
