import Lean
/-
  Ark.Audit — lists every theorem declared in the given modules together with the
  axioms it depends on, one JSON object per line prefixed by "AUDIT ".
  Used by /verif/check to count proof obligations and to reject any axiom outside
  {propext, Classical.choice, Quot.sound} (in particular sorryAx and the
  `._native.*` axioms of native_decide / bv_decide).
-/
open Lean Elab Command

namespace Ark.Audit

def auditModules (mods : List Name) : CommandElabM Unit := do
  let env ← getEnv
  for m in mods do
    match env.getModuleIdx? m with
    | none => logInfo s!"AUDIT-ERROR unknown module {m}"
    | some idx =>
      let names := env.header.moduleData[idx.toNat]!.constNames
      for n in names do
        if n.isInternal then continue
        match env.find? n with
        | some (.thmInfo _) =>
          let axs ← liftCoreM (collectAxioms n)
          let axs := axs.toList.map (fun a => "\"" ++ toString a ++ "\"")
          IO.println s!"AUDIT \{\"name\": \"{n}\", \"module\": \"{m}\", \"axioms\": [{", ".intercalate axs}]}"
        | _ => pure ()

end Ark.Audit
