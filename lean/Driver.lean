import Ark.Model.DrvC15
import Ark.Model.DrvC01
import Ark.Model.DrvC17
import Ark.Model.DrvC03
import Ark.Model.DrvC20
import Ark.Model.DrvC02
import Ark.Model.DrvC19
import Ark.Model.DrvC07
import Ark.Model.DrvC05
import Ark.Model.DrvC13
import Ark.Model.DrvC14
import Ark.Model.DrvC08
import Ark.Model.DrvC18
import Ark.Model.DrvC06
import Ark.Model.DrvC11
import Ark.Model.DrvC04
import Ark.Model.DrvC09
import Ark.Model.DrvC12
import Ark.Model.DrvC04x
import Ark.Model.DrvC10x
/-  arkdrv: one op per line on stdin: `<prop> <op> args… => <impl output>` → one line `model|verdict` -/
open Ark

structure DrvState where
  c01 : DrvC01.Cache := {}
  c20 : DrvC20.Cache := {}
  c02 : DrvC02.Cache := {}
  c07 : DrvC07.Cache := {}
  c13 : DrvC13.Cache := {}
  c06 : DrvC06.Cache := {}
  c11 : DrvC11.Cache := {}
  c12 : DrvC12.Cache := {}
  c04x : DrvC04x.Cache := {}
  c10x : DrvC10x.Cache := {}

def dispatch (st : DrvState) (line : String) : DrvState × String :=
  let (inp, impl) := match line.trimAscii.toString.splitOn " => " with
    | [a, b] => (a, b)
    | [a] => (a, "")
    | _ => ("", "")
  match inp.splitOn " " with
  | "C15" :: op :: args =>
    match DrvC15.run op args impl with
    | some (m, s) => (st, m ++ "|" ++ s)
    | none => (st, "bad-op")
  | "C12" :: op :: args =>
    match DrvC12.run st.c12 op args impl with
    | some (c, m, s) => ({ st with c12 := c }, m ++ "|" ++ s)
    | none => (st, "bad-op")
  | "C06" :: op :: args =>
    match DrvC06.run st.c06 op args impl with
    | some (c, m, s) => ({ st with c06 := c }, m ++ "|" ++ s)
    | none => (st, "bad-op")
  | "C11" :: op :: args =>
    match DrvC11.run st.c11 op args impl with
    | some (c, m, s) => ({ st with c11 := c }, m ++ "|" ++ s)
    | none => (st, "bad-op")
  | "C04" :: op :: args =>
    if op.startsWith "x" then
      match DrvC04x.run st.c04x op args impl with
      | some (c, m, s) => ({ st with c04x := c }, m ++ "|" ++ s)
      | none => (st, "bad-op")
    else
      match DrvC04.run op args impl with
      | some (m, s) => (st, m ++ "|" ++ s)
      | none => (st, "bad-op")
  | "C09" :: op :: args =>
    if op.startsWith "x" then
      match DrvC10x.run st.c10x op args impl with
      | some (c, m, s) => ({ st with c10x := c }, m ++ "|" ++ s)
      | none => (st, "bad-op")
    else
      match DrvC09.run op args impl with
      | some (m, s) => (st, m ++ "|" ++ s)
      | none => (st, "bad-op")
  | "C10" :: op :: args =>
    if op.startsWith "x" then
      match DrvC10x.run st.c10x op args impl with
      | some (c, m, s) => ({ st with c10x := c }, m ++ "|" ++ s)
      | none => (st, "bad-op")
    else
      match DrvC09.run op args impl with
      | some (m, s) => (st, m ++ "|" ++ s)
      | none => (st, "bad-op")
  | "C14" :: op :: args =>
    match DrvC14.run op args impl with
    | some (m, s) => (st, m ++ "|" ++ s)
    | none => (st, "bad-op")
  | "C08" :: op :: args =>
    match DrvC08.run op args impl with
    | some (m, s) => (st, m ++ "|" ++ s)
    | none => (st, "bad-op")
  | "C18" :: op :: args =>
    match DrvC18.run op args impl with
    | some (m, s) => (st, m ++ "|" ++ s)
    | none => (st, "bad-op")
  | "C05" :: op :: args =>
    match DrvC05.run op args impl with
    | some (m, s) => (st, m ++ "|" ++ s)
    | none => (st, "bad-op")
  | "C13" :: op :: args =>
    match DrvC13.run st.c13 op args impl with
    | some (c, m, s) => ({ st with c13 := c }, m ++ "|" ++ s)
    | none => (st, "bad-op")
  | "C19" :: op :: args =>
    match DrvC19.run op args impl with
    | some (m, s) =>
      -- `*.raw` ops feed SW `Affine` values with `infinity = true` and non-zero placeholder
      -- coordinates, constructible only through `#[doc(hidden)] pub` fields: outside the
      -- property's quantifier (DESIGN.md §5 notes), kept for model/implementation agreement
      let s := if op.endsWith ".raw" && s.startsWith "bad" then "note:noncanonical-affine-infinity " ++ s else s
      (st, m ++ "|" ++ s)
    | none => (st, "bad-op")
  | "C07" :: op :: args =>
    match DrvC07.run st.c07 op args impl with
    | some (c, m, s) => ({ st with c07 := c }, m ++ "|" ++ s)
    | none => (st, "bad-op")
  | "C02" :: op :: args =>
    match DrvC02.run st.c02 op args impl with
    | some (c, m, s) => ({ st with c02 := c }, m ++ "|" ++ s)
    | none => (st, "bad-op")
  | "C20" :: op :: args =>
    match DrvC20.run' st.c20 op args impl with
    | some (c, m, s) => ({ st with c20 := c }, m ++ "|" ++ s)
    | none => (st, "bad-op")
  | "C03" :: op :: args =>
    match DrvC03.run op args impl with
    | some (m, s) => (st, m ++ "|" ++ s)
    | none => (st, "bad-op")
  | "C17" :: op :: args =>
    match DrvC17.run op args impl with
    | some (m, s) => (st, m ++ "|" ++ s)
    | none => (st, "bad-op")
  | "C01" :: op :: args =>
    match DrvC01.run st.c01 op args impl with
    | some (c, m, s) => ({ st with c01 := c }, m ++ "|" ++ s)
    | none => (st, "bad-op")
  | _ => (st, "bad-op")

partial def loop (h : IO.FS.Stream) (out : IO.FS.Stream) (st : DrvState) : IO Unit := do
  let line ← h.getLine
  if line.isEmpty then return ()
  let (st', o) := dispatch st line
  out.putStrLn o
  loop h out st'

def main : IO Unit := do
  loop (← IO.getStdin) (← IO.getStdout) {}
