import Ark.Model.DrvC15
/-  arkdrv: one op per line on stdin: `<prop> <op> args…` → one line `model|spec` -/
open Ark

def dispatch (line : String) : String :=
  let (inp, impl) := match line.trimAscii.toString.splitOn " => " with
    | [a, b] => (a, b)
    | [a] => (a, "")
    | _ => ("", "")
  match inp.splitOn " " with
  | "C15" :: op :: args =>
    match DrvC15.run op args impl with
    | some (m, s) => m ++ "|" ++ s
    | none => "bad-op"
  | _ => "bad-op"

partial def loop (h : IO.FS.Stream) (out : IO.FS.Stream) : IO Unit := do
  let line ← h.getLine
  if line.isEmpty then return ()
  out.putStrLn (dispatch line)
  loop h out

def main : IO Unit := do
  loop (← IO.getStdin) (← IO.getStdout)
