//! C14: independence of the `parallel` feature and of the thread count.
//! Every operation of the crates that has a `#[cfg(feature = "parallel")]` code path is run, through
//! the real public API, inside explicit rayon pools of `T` threads (`ThreadPool::install`), on inputs
//! whose sizes straddle the work-splitting thresholds of the code; one
//! `C14 <op> <T> <args…> => <result>` line per call (see lean/Ark/Model/DrvC14.lean).
//! Built WITHOUT `--features parallel` the same ops run serially and `T` is only echoed, so the two
//! builds can be diffed line by line.
//! Usage: `c14 [quick|thorough] [seed] [group]`, group ∈ nthreads binv dpow eval mfft r2fft poly
//! (= evalod mulvan divvan pscal evop pmul spscal mveval mle) msm bmul norm bcheck mpair.
//! Thread counts: quick 1,2,3,5,7,8,13,16,64 (expensive lines: 1,3,8,64); thorough 1..16,64.
#![allow(dead_code, deprecated, clippy::all)]
use ark_ec::pairing::Pairing;
use ark_ec::{
    short_weierstrass as sw, twisted_edwards as te, AffineRepr, CurveConfig, CurveGroup, PrimeGroup,
    ScalarMul, VariableBaseMSM,
};
use ark_ff::{FftField, Field, Fp, MontBackend, MontConfig, MontFp, One, PrimeField, Zero};
use ark_poly::{
    univariate::DensePolynomial, DenseUVPolynomial, EvaluationDomain, Evaluations,
    GeneralEvaluationDomain, MixedRadixEvaluationDomain, Polynomial, Radix2EvaluationDomain,
};
use ark_serialize::Valid;
use arkharness::util::*;
use arkharness::zoo::*;

// ---------------------------------------------------------------- thread pools
#[cfg(feature = "parallel")]
mod pool {
    pub struct Pools(Vec<(usize, rayon::ThreadPool)>);
    impl Pools {
        pub fn new(ts: &[usize]) -> Self {
            Pools(ts.iter().map(|&t| (t, rayon::ThreadPoolBuilder::new().num_threads(t).build().unwrap())).collect())
        }
        pub fn run<R: Send, F: FnOnce() -> R + Send>(&self, t: usize, f: F) -> R {
            self.0.iter().find(|x| x.0 == t).expect("pool").1.install(f)
        }
        pub fn threads(_t: usize) -> usize { rayon::current_num_threads() }
    }
}
#[cfg(not(feature = "parallel"))]
mod pool {
    pub struct Pools;
    impl Pools {
        pub fn new(_ts: &[usize]) -> Self { Pools }
        pub fn run<R: Send, F: FnOnce() -> R + Send>(&self, _t: usize, f: F) -> R { f() }
        pub fn threads(t: usize) -> usize { t }
    }
}
use pool::Pools;

// ---------------------------------------------------------------- toy fields / curves
macro_rules! toy {
    ($cfg:ident, $ty:ident, $p:expr, $g:expr, $b:expr, $k:expr) => {
        #[derive(MontConfig)]
        #[modulus = $p]
        #[generator = $g]
        #[small_subgroup_base = $b]
        #[small_subgroup_power = $k]
        pub struct $cfg;
        pub type $ty = Fp<MontBackend<$cfg, 1>, 1>;
    };
}
toy!(C2593, M2593, "2593", "7", "3", "4"); // 2592  = 2^5·3^4
toy!(C18433, M18433, "18433", "5", "3", "2"); // 18432 = 2^11·3^2

#[derive(MontConfig)]
#[modulus = "65371"]
#[generator = "2"]
pub struct C65371;
pub type F65371 = Fp<MontBackend<C65371, 1>, 1>;

/// E : y² = x³ + 2x + 25 over F_65537, #E = 65371 (prime), G = (2, 13243)
pub struct ToyE;
impl CurveConfig for ToyE {
    type BaseField = FDT65537;
    type ScalarField = F65371;
    const COFACTOR: &'static [u64] = &[1];
    const COFACTOR_INV: F65371 = MontFp!("1");
}
impl sw::SWCurveConfig for ToyE {
    const COEFF_A: FDT65537 = MontFp!("2");
    const COEFF_B: FDT65537 = MontFp!("25");
    const GENERATOR: sw::Affine<Self> = sw::Affine::new_unchecked(MontFp!("2"), MontFp!("13243"));
}
/// the same curve with 61-bit scalars (`ScalarField` only bounds the scalars of MSM / batch_mul;
/// the results are `Σ kᵢ·Pᵢ` for the integers `kᵢ`), to have many windows on a cheap curve
pub struct ToyE61;
impl CurveConfig for ToyE61 {
    type BaseField = FDT65537;
    type ScalarField = FDM61;
    const COFACTOR: &'static [u64] = &[1];
    const COFACTOR_INV: FDM61 = MontFp!("1");
}
impl sw::SWCurveConfig for ToyE61 {
    const COEFF_A: FDT65537 = MontFp!("2");
    const COEFF_B: FDT65537 = MontFp!("25");
    const GENERATOR: sw::Affine<Self> = sw::Affine::new_unchecked(MontFp!("2"), MontFp!("13243"));
}

// ---------------------------------------------------------------- printing / random
fn h<F: PrimeField>(x: &F) -> String {
    hex_limbs(x.into_bigint().as_ref())
}
fn hl<F: PrimeField>(v: &[F]) -> String {
    if v.is_empty() {
        return "_".into();
    }
    v.iter().map(|x| h(x)).collect::<Vec<_>>().join(",")
}
fn pm<F: PrimeField>() -> String {
    hex_limbs(F::MODULUS.as_ref())
}
fn rnd<F: PrimeField>(rng: &mut Rng) -> F {
    let n = ((F::MODULUS_BIT_SIZE as usize) + 7) / 8 + 8;
    let mut b = vec![0u8; n];
    for c in b.chunks_mut(8) {
        let w = rng.next().to_le_bytes();
        let l = c.len();
        c.copy_from_slice(&w[..l]);
    }
    F::from_le_bytes_mod_order(&b)
}
fn rnz<F: PrimeField>(rng: &mut Rng) -> F {
    loop {
        let x = rnd::<F>(rng);
        if !x.is_zero() {
            return x;
        }
    }
}
/// random vector with a sprinkling of 0, 1, p-1
fn rvec<F: PrimeField>(rng: &mut Rng, len: usize) -> Vec<F> {
    (0..len)
        .map(|_| match rng.below(16) {
            0 | 1 => F::zero(),
            2 => F::one(),
            3 => -F::one(),
            _ => rnd(rng),
        })
        .collect()
}
fn rvec_nz_top<F: PrimeField>(rng: &mut Rng, len: usize) -> Vec<F> {
    let mut v = rvec::<F>(rng, len);
    if let Some(l) = v.last_mut() {
        *l = rnz(rng);
    }
    v
}
fn swaff<P: sw::SWCurveConfig>(a: &sw::Affine<P>) -> String
where
    P::BaseField: PrimeField,
{
    if a.infinity { "inf".into() } else { format!("{}/{}", h(&a.x), h(&a.y)) }
}
fn swaffs<P: sw::SWCurveConfig>(v: &[sw::Affine<P>]) -> String
where
    P::BaseField: PrimeField,
{
    if v.is_empty() { "_".into() } else { v.iter().map(swaff).collect::<Vec<_>>().join(",") }
}
fn fe<F: Field>(x: &F) -> String {
    x.to_base_prime_field_elements().map(|c| hex_limbs(c.into_bigint().as_ref())).collect::<Vec<_>>().join(".")
}

// ---------------------------------------------------------------- context
struct Ctx {
    out: Out,
    pools: Pools,
    ts: Vec<usize>,
    rng: Rng,
    th: bool,
    only: Option<String>,
}
impl Ctx {
    /// run `f` once per thread count and print one line each
    fn emit<Fu: Fn() -> String + Sync + Send>(&mut self, op: &str, ts: &[usize], args: &str, f: Fu) {
        for &t in ts {
            let r = guarded(|| self.pools.run(t, || f()));
            self.out.line(&format!("C14 {} {:x} {}", op, t, args), &r);
        }
    }
    fn want(&self, op: &str) -> bool {
        self.only.as_ref().map_or(true, |o| o == op)
    }
    /// a small sub-set of the thread counts (for expensive lines)
    fn few(&self) -> Vec<usize> {
        if self.th { vec![1, 2, 3, 4, 7, 8, 16, 64] } else { vec![1, 3, 8, 64] }
    }
}

// ---------------------------------------------------------------- field-level ops
fn binv<F: PrimeField>(cx: &mut Ctx, ts: &[usize], v: &[F], coeff: F) {
    let args = format!("{} {} {}", pm::<F>(), h(&coeff), hl(v));
    cx.emit("binv", ts, &args, || {
        let mut w = v.to_vec();
        ark_ff::batch_inversion_and_mul(&mut w, &coeff);
        hl(&w)
    });
}
fn binv_field<F: PrimeField>(cx: &mut Ctx, small_max: usize, big: &[usize]) {
    let ts = cx.ts.clone();
    let mut lens: Vec<usize> = (0..=small_max).collect();
    lens.extend_from_slice(&[63, 64, 65, 127, 128, 129]);
    for &n in lens.iter() {
        let reps = if cx.th { 3 } else { 1 };
        for _ in 0..reps {
            let v = rvec::<F>(&mut cx.rng, n);
            let coeff = match cx.rng.below(4) { 0 => F::one(), 1 if n % 7 == 3 => F::zero(), _ => rnd(&mut cx.rng) };
            binv(cx, &ts, &v, coeff);
        }
    }
    // structured: all zero, one non-zero among zeros, one zero among non-zeros, a zero chunk
    for &n in &[1usize, 2, 5, 16, 17, 40] {
        binv(cx, &ts, &vec![F::zero(); n], F::one());
        let mut v = vec![F::zero(); n];
        v[n / 2] = rnz(&mut cx.rng);
        let c: F = rnz(&mut cx.rng);
        binv(cx, &ts, &v, c);
        let mut v: Vec<F> = (0..n).map(|_| rnz(&mut cx.rng)).collect();
        v[n - 1] = F::zero();
        binv(cx, &ts, &v, F::one());
        let mut v: Vec<F> = (0..n).map(|_| rnz(&mut cx.rng)).collect();
        for x in v.iter_mut().take(n / 3 + 1) { *x = F::zero(); }
        let c: F = rnz(&mut cx.rng);
        binv(cx, &ts, &v, c);
    }
    for &n in big {
        let v = rvec::<F>(&mut cx.rng, n);
        let c = rnz(&mut cx.rng);
        binv(cx, &ts, &v, c);
    }
}
/// all vectors of length ≤ 2 over a tiny field
fn binv_exhaustive<F: PrimeField>(cx: &mut Ctx, p: u64) {
    let ts = cx.ts.clone();
    binv::<F>(cx, &ts, &[], F::one());
    for a in 0..p {
        binv(cx, &ts, &[F::from(a)], F::from(3u64));
        for b in 0..p {
            binv(cx, &ts, &[F::from(a), F::from(b)], F::one());
        }
    }
}

fn dpow<F: FftField + PrimeField>(cx: &mut Ctx, ts: &[usize], v: &[F], g: F, c: F) {
    let args = format!("{} {} {} {}", pm::<F>(), h(&g), h(&c), hl(v));
    cx.emit("dpow", ts, &args, || {
        let mut w = v.to_vec();
        Radix2EvaluationDomain::<F>::distribute_powers_and_mul_by_const(&mut w, g, c);
        hl(&w)
    });
}
fn dpow_field<F: FftField + PrimeField>(cx: &mut Ctx, ts: &[usize], sizes: &[usize]) {
    for &n in sizes {
        let v = rvec::<F>(&mut cx.rng, n);
        let (g, c) = match cx.rng.below(8) {
            0 => (F::one(), rnd(&mut cx.rng)),
            1 => (rnz(&mut cx.rng), F::one()),
            2 => (F::zero(), rnz(&mut cx.rng)),
            3 => (rnz(&mut cx.rng), F::zero()),
            _ => (rnz(&mut cx.rng), rnz(&mut cx.rng)),
        };
        dpow(cx, ts, &v, g, c);
    }
}

fn eval<F: PrimeField>(cx: &mut Ctx, ts: &[usize], v: &[F], x: F) {
    let args = format!("{} {} {}", pm::<F>(), h(&x), hl(v));
    cx.emit("eval", ts, &args, || {
        let p = DensePolynomial::from_coefficients_vec(v.to_vec());
        h(&p.evaluate(&x))
    });
}
fn eval_field<F: PrimeField>(cx: &mut Ctx, small_max: usize, big: &[usize]) {
    let ts = cx.ts.clone();
    let mut lens: Vec<usize> = (0..=small_max).collect();
    lens.extend_from_slice(big);
    for &n in lens.iter() {
        let v = rvec_nz_top::<F>(&mut cx.rng, n);
        let x = match cx.rng.below(6) { 0 => F::one(), 1 => -F::one(), _ => rnz(&mut cx.rng) };
        eval(cx, &ts, &v, x);
    }
    for &n in &[1usize, 15, 16, 17, 33, 100] {
        // point zero; leading coefficient zero; trailing zeros (truncated by the constructor); zero polynomial
        let v = rvec_nz_top::<F>(&mut cx.rng, n);
        eval(cx, &ts, &v, F::zero());
        let mut w = v.clone();
        w[0] = F::zero();
        eval(cx, &ts, &w, F::zero());
        let mut w = v.clone();
        w.extend_from_slice(&[F::zero(); 5]);
        let x = rnz(&mut cx.rng);
        eval(cx, &ts, &w, x);
        eval(cx, &ts, &vec![F::zero(); n], x);
    }
}

// ---------------------------------------------------------------- FFTs
fn mfft<F: FftField + PrimeField>(cx: &mut Ctx, ts: &[usize], dom_n: usize, off: F, inv: bool, v: &[F]) {
    let d = match MixedRadixEvaluationDomain::<F>::new(dom_n).and_then(|d| d.get_coset(off)) { Some(d) => d, None => return };
    let args = format!("{} {:x} {:x} {} {} {} {}", pm::<F>(), d.size, d.log_size_of_group, h(&d.group_gen), h(&d.offset), if inv { "i" } else { "f" }, hl(v));
    cx.emit("mfft", ts, &args, || if inv { hl(&d.ifft(v)) } else { hl(&d.fft(v)) });
}
fn mfft_field<F: FftField + PrimeField>(cx: &mut Ctx, sizes: &[usize], big: &[usize]) {
    let ts = cx.ts.clone();
    let few = cx.few();
    for (i, &n) in sizes.iter().chain(big.iter()).enumerate() {
        let is_big = i >= sizes.len();
        let t: &[usize] = if is_big { &few } else { &ts };
        let mut lens = if n > 1024 && !cx.th { vec![n, n / 2 + 1] } else { vec![n, n.saturating_sub(1), 1, n / 2 + 1] };
        if !is_big { lens.extend_from_slice(&[0, n + 3]); }
        lens.sort();
        lens.dedup();
        for &l in lens.iter() {
            for inv in [false, true] {
                let offs = [F::one(), F::GENERATOR, rnz(&mut cx.rng)];
                let k = if is_big || l != n { 2 } else { 3 };
                for off in offs.iter().take(k) {
                    if is_big && l != n && *off == F::one() && inv { continue; }
                    let v = rvec::<F>(&mut cx.rng, l);
                    mfft(cx, t, n, *off, inv, &v);
                }
            }
        }
    }
}

/// radix-2 (`kind = "r"`) or general (`"g"`) domain FFT / IFFT; verdict-level only
fn r2fft<F: FftField + PrimeField>(cx: &mut Ctx, ts: &[usize], kind: &str, dom_n: usize, off: F, inv: bool, v: &[F]) {
    if kind == "r" {
        let d = match Radix2EvaluationDomain::<F>::new(dom_n).and_then(|d| d.get_coset(off)) { Some(d) => d, None => return };
        let args = format!("{} r {:x} {} {} {} {}", pm::<F>(), d.size, h(&d.group_gen), h(&d.offset), if inv { "i" } else { "f" }, hl(v));
        cx.emit("r2fft", ts, &args, || if inv { hl(&d.ifft(v)) } else { hl(&d.fft(v)) });
    } else {
        let d = match GeneralEvaluationDomain::<F>::new(dom_n).and_then(|d| d.get_coset(off)) { Some(d) => d, None => return };
        let args = format!("{} g {:x} {} {} {} {}", pm::<F>(), d.size(), h(&d.group_gen()), h(&d.coset_offset()), if inv { "i" } else { "f" }, hl(v));
        cx.emit("r2fft", ts, &args, || if inv { hl(&d.ifft(v)) } else { hl(&d.fft(v)) });
    }
}
fn r2fft_field<F: FftField + PrimeField>(cx: &mut Ctx, logs: &[u32], big_from: u32, ts_small: &[usize], ts_big: &[usize], general_too: bool) {
    for &lg in logs {
        let n = 1usize << lg;
        let bigish = lg >= big_from;
        let t = if bigish { ts_big } else { ts_small };
        let mut lens = if bigish { vec![n, n / 4, n - 1] } else { vec![n, n / 4, n / 8, n - 1, 1, n / 4 + 1, n + 1] };
        lens.retain(|&l| l >= 1 || n == 1);
        lens.sort();
        lens.dedup();
        for &l in lens.iter() {
            for inv in [false, true] {
                for off in [F::one(), F::GENERATOR] {
                    let v = rvec::<F>(&mut cx.rng, l);
                    r2fft(cx, t, "r", n, off, inv, &v);
                }
            }
        }
        if general_too && lg <= 10 {
            let v = rvec::<F>(&mut cx.rng, n);
            r2fft(cx, t, "g", n, F::GENERATOR, false, &v);
            r2fft(cx, t, "g", n, F::one(), true, &v);
        }
    }
}

// ---------------------------------------------------------------- polynomial arithmetic with parallel loops
fn poly_ops<F: FftField + PrimeField>(cx: &mut Ctx) {
    let few = cx.few();
    let ts = cx.ts.clone();
    // evaluate_over_domain with more coefficients than the domain (parallel reduction mod X^n − h^n)
    for &(n, l) in &[(8usize, 21usize), (8, 8), (256, 700), (2048, 5000), (4, 4099)] {
        for off in [F::one(), F::GENERATOR] {
            let d = Radix2EvaluationDomain::<F>::new(n).unwrap().get_coset(off).unwrap();
            let v = rvec_nz_top::<F>(&mut cx.rng, l);
            let args = format!("{} {:x} {} {} {}", pm::<F>(), d.size, h(&d.group_gen), h(&d.offset), hl(&v));
            cx.emit("evalod", &few, &args, || {
                let p = DensePolynomial::from_coefficients_vec(v.clone());
                hl(&p.evaluate_over_domain_by_ref(d).evals)
            });
        }
    }
    // multiplication / division by the vanishing polynomial
    for &(n, l) in &[(4usize, 0usize), (4, 3), (4, 4), (4, 5), (4, 9), (4, 13), (64, 130), (64, 200), (1024, 2500)] {
        let d = Radix2EvaluationDomain::<F>::new(n).unwrap();
        let v = rvec_nz_top::<F>(&mut cx.rng, l);
        let args = format!("{} {:x} {}", pm::<F>(), d.size, hl(&v));
        cx.emit("mulvan", &few, &args, || {
            let p = DensePolynomial::from_coefficients_vec(v.clone());
            hl(&p.mul_by_vanishing_poly(d).coeffs)
        });
        cx.emit("divvan", &few, &args, || {
            let p = DensePolynomial::from_coefficients_vec(v.clone());
            let (q, r) = p.divide_by_vanishing_poly(d);
            format!("{};{}", hl(&q.coeffs), hl(&r.coeffs))
        });
    }
    // scalar multiple, pointwise operations on evaluations
    for &n in &[0usize, 1, 17, 100, 1500] {
        let v = rvec_nz_top::<F>(&mut cx.rng, n);
        for k in [F::zero(), rnz(&mut cx.rng)] {
            let args = format!("{} {} {}", pm::<F>(), h(&k), hl(&v));
            cx.emit("pscal", &few, &args, || {
                let p = DensePolynomial::from_coefficients_vec(v.clone());
                hl(&(&p * k).coeffs)
            });
        }
    }
    for &n in &[1usize, 16, 128, 2048] {
        let d = Radix2EvaluationDomain::<F>::new(n).unwrap();
        let a = rvec::<F>(&mut cx.rng, n);
        let b = rvec::<F>(&mut cx.rng, n);
        for kind in ["add", "sub", "mul", "div"] {
            let args = format!("{} {} {} {}", pm::<F>(), kind, hl(&a), hl(&b));
            cx.emit("evop", &few, &args, || {
                let ea = Evaluations::from_vec_and_domain(a.clone(), d);
                let eb = Evaluations::from_vec_and_domain(b.clone(), d);
                let r = match kind { "add" => &ea + &eb, "sub" => &ea - &eb, "mul" => &ea * &eb, _ => &ea / &eb };
                hl(&r.evals)
            });
        }
    }
    // product of dense polynomials (two FFTs, pointwise product, IFFT)
    let mut pairs = vec![(0usize, 3usize), (1, 1), (2, 3), (8, 9), (17, 16), (100, 29), (129, 128), (300, 213), (1000, 1049), (3000, 1097)];
    if cx.th { pairs.push((5000, 3193)); }
    for &(la, lb) in pairs.iter() {
        let a = rvec_nz_top::<F>(&mut cx.rng, la);
        let b = rvec_nz_top::<F>(&mut cx.rng, lb);
        let args = format!("{} {} {}", pm::<F>(), hl(&a), hl(&b));
        let t = if la + lb > 600 { &few } else { &ts };
        cx.emit("pmul", t, &args, || {
            let pa = DensePolynomial::from_coefficients_vec(a.clone());
            let pb = DensePolynomial::from_coefficients_vec(b.clone());
            hl(&(&pa * &pb).coeffs)
        });
    }
}

/// the remaining data-parallel loops of ark-poly: sparse univariate scalar multiple, multivariate
/// sparse evaluation (`.sum()` of `.product()`s), dense multilinear extensions
fn misc_poly_ops<F: PrimeField>(cx: &mut Ctx) {
    use ark_poly::multivariate::{SparsePolynomial as MvPoly, SparseTerm, Term};
    use ark_poly::univariate::SparsePolynomial as SpPoly;
    use ark_poly::{DenseMVPolynomial, DenseMultilinearExtension};
    let few = cx.few();
    for &n in &[0usize, 1, 5, 40, 300] {
        let mut idx = 0usize;
        let terms: Vec<(usize, F)> = (0..n).map(|_| { idx += 1 + cx.rng.below(9) as usize; (idx, rnz(&mut cx.rng)) }).collect();
        for k in [F::zero(), rnz(&mut cx.rng)] {
            let show = |v: &[(usize, F)]| if v.is_empty() { "_".to_string() } else { v.iter().map(|(i, c)| format!("{:x}:{}", i, h(c))).collect::<Vec<_>>().join(",") };
            let args = format!("{} {} {}", pm::<F>(), h(&k), show(&terms));
            cx.emit("spscal", &few, &args, || {
                let p = SpPoly::from_coefficients_vec(terms.clone());
                let r = &p * k;
                show(&r)
            });
        }
    }
    for &(nv, nt) in &[(1usize, 1usize), (3, 4), (5, 40), (8, 300), (12, 2000)] {
        let terms: Vec<(F, Vec<(usize, usize)>)> = (0..nt)
            .map(|_| {
                let k = cx.rng.below(4) as usize;
                let mut vs: Vec<usize> = (0..k).map(|_| cx.rng.below(nv as u64) as usize).collect();
                vs.sort();
                vs.dedup();
                (rnz(&mut cx.rng), vs.into_iter().map(|v| (v, 1 + cx.rng.below(5) as usize)).collect())
            })
            .collect();
        let point: Vec<F> = rvec(&mut cx.rng, nv);
        let ts = terms.iter().map(|(c, t)| format!("{}:{}", h(c), if t.is_empty() { "_".to_string() } else { t.iter().map(|(v, e)| format!("{:x}.{:x}", v, e)).collect::<Vec<_>>().join("*") })).collect::<Vec<_>>().join(";");
        let args = format!("{} {:x} {} {}", pm::<F>(), nv, hl(&point), ts);
        cx.emit("mveval", &few, &args, || {
            let p = MvPoly::<F, SparseTerm>::from_coefficients_vec(nv, terms.iter().map(|(c, t)| (*c, SparseTerm::new(t.clone()))).collect());
            h(&p.evaluate(&point))
        });
    }
    for &nv in &[0usize, 1, 4, 7, 11] {
        let a = rvec::<F>(&mut cx.rng, 1 << nv);
        let b = rvec::<F>(&mut cx.rng, 1 << nv);
        let f: F = rnz(&mut cx.rng);
        for kind in ["add", "neg", "axpy"] {
            let args = format!("{} {:x} {} {} {} {}", pm::<F>(), nv, kind, h(&f), hl(&a), hl(&b));
            cx.emit("mle", &few, &args, || {
                let ma = DenseMultilinearExtension::from_evaluations_vec(nv, a.clone());
                let mb = DenseMultilinearExtension::from_evaluations_vec(nv, b.clone());
                let r = match kind { "add" => &ma + &mb, "neg" => -ma, _ => { let mut m = ma; m += (f, &mb); m } };
                hl(&r.evaluations)
            });
        }
    }
}

// ---------------------------------------------------------------- curves
fn sw_hdr<P: sw::SWCurveConfig>() -> String
where
    P::BaseField: PrimeField,
{
    format!("{} {} {}", pm::<P::BaseField>(), h(&P::COEFF_A), h(&P::COEFF_B))
}
fn rpoint<P: sw::SWCurveConfig>(rng: &mut Rng) -> sw::Affine<P> {
    let k = P::ScalarField::from(rng.next());
    (sw::Projective::<P>::generator() * k).into_affine()
}
fn rscalar<P: sw::SWCurveConfig>(rng: &mut Rng) -> P::ScalarField {
    match rng.below(12) {
        0 => P::ScalarField::zero(),
        1 => P::ScalarField::one(),
        2 => -P::ScalarField::one(),
        3 => P::ScalarField::from(rng.below(16)),
        _ => rnd(rng),
    }
}
fn msm_ops<P: sw::SWCurveConfig>(cx: &mut Ctx, ts: &[usize], sizes: &[usize])
where
    P::BaseField: PrimeField,
{
    for &n in sizes {
        let mut bases: Vec<sw::Affine<P>> = (0..n).map(|_| rpoint::<P>(&mut cx.rng)).collect();
        // identity, repeated and opposite bases
        if n >= 4 {
            bases[1] = sw::Affine::identity();
            bases[2] = bases[0];
            bases[3] = -bases[0];
        }
        let scalars: Vec<P::ScalarField> = (0..n).map(|_| rscalar::<P>(&mut cx.rng)).collect();
        let args = format!("{} {} {}", sw_hdr::<P>(), hl(&scalars), swaffs(&bases));
        cx.emit("msm", ts, &args, || match sw::Projective::<P>::msm(&bases, &scalars) {
            Ok(r) => swaff(&r.into_affine()),
            Err(k) => format!("err:{:x}", k),
        });
    }
}
fn bmul_ops<P: sw::SWCurveConfig>(cx: &mut Ctx, ts: &[usize], sizes: &[usize])
where
    P::BaseField: PrimeField,
{
    for &n in sizes {
        let base = rpoint::<P>(&mut cx.rng);
        let scalars: Vec<P::ScalarField> = (0..n).map(|_| rscalar::<P>(&mut cx.rng)).collect();
        let args = format!("{} {} {}", sw_hdr::<P>(), swaff(&base), hl(&scalars));
        cx.emit("bmul", ts, &args, || {
            let g: sw::Projective<P> = base.into();
            swaffs(&g.batch_mul(&scalars))
        });
    }
}
fn norm_sw_ops<P: sw::SWCurveConfig>(cx: &mut Ctx, ts: &[usize], sizes: &[usize])
where
    P::BaseField: PrimeField,
{
    for &n in sizes {
        let v: Vec<sw::Projective<P>> = (0..n)
            .map(|i| {
                let a = rpoint::<P>(&mut cx.rng);
                let z: P::BaseField = match cx.rng.below(5) { 0 => P::BaseField::one(), _ => rnz(&mut cx.rng) };
                match (cx.rng.below(8), a.infinity) {
                    (0, _) | (_, true) => {
                        if i % 2 == 0 { sw::Projective::<P>::zero() } else { sw::Projective::new_unchecked(rnz(&mut cx.rng), rnz(&mut cx.rng), P::BaseField::zero()) }
                    },
                    _ => sw::Projective::new_unchecked(a.x * z * z, a.y * z * z * z, z),
                }
            })
            .collect();
        let pts = if v.is_empty() { "_".to_string() } else { v.iter().map(|p| format!("{}/{}/{}", h(&p.x), h(&p.y), h(&p.z))).collect::<Vec<_>>().join(",") };
        let args = format!("sw {} {}", pm::<P::BaseField>(), pts);
        cx.emit("norm", ts, &args, || swaffs(&sw::Projective::<P>::normalize_batch(&v)));
    }
}
fn norm_te_ops<P: te::TECurveConfig>(cx: &mut Ctx, ts: &[usize], sizes: &[usize])
where
    P::BaseField: PrimeField,
{
    for &n in sizes {
        let v: Vec<te::Projective<P>> = (0..n)
            .map(|_| {
                let k = P::ScalarField::from(cx.rng.next());
                let a = (te::Projective::<P>::generator() * k).into_affine();
                let z: P::BaseField = match cx.rng.below(5) { 0 => P::BaseField::one(), _ => rnz(&mut cx.rng) };
                if cx.rng.below(8) == 0 {
                    te::Projective::new_unchecked(P::BaseField::zero(), z, P::BaseField::zero(), z)
                } else {
                    te::Projective::new_unchecked(a.x * z, a.y * z, a.x * a.y * z, z)
                }
            })
            .collect();
        let pts = if v.is_empty() { "_".to_string() } else { v.iter().map(|p| format!("{}/{}/{}/{}", h(&p.x), h(&p.y), h(&p.t), h(&p.z))).collect::<Vec<_>>().join(",") };
        let args = format!("te {} {}", pm::<P::BaseField>(), pts);
        cx.emit("norm", ts, &args, || {
            let r = te::Projective::<P>::normalize_batch(&v);
            if r.is_empty() { "_".to_string() } else { r.iter().map(|a| format!("{}/{}", h(&a.x), h(&a.y))).collect::<Vec<_>>().join(",") }
        });
    }
}
/// `Valid::batch_check` on affine points: valid ones, points off the curve, points outside the subgroup
fn bcheck_ops<P: sw::SWCurveConfig>(cx: &mut Ctx, ts: &[usize], sizes: &[usize], off_subgroup: bool)
where
    P::BaseField: PrimeField,
{
    for &n in sizes {
        for bad in 0..4u64 {
            let mut v: Vec<sw::Affine<P>> = (0..n).map(|_| rpoint::<P>(&mut cx.rng)).collect();
            if n > 0 {
                let pos = match bad { 1 => 0, 2 => n - 1, _ => cx.rng.below(n as u64) as usize };
                match bad {
                    0 => {},
                    1 | 2 => { v[pos] = sw::Affine::new_unchecked(v[pos].x, v[pos].y + P::BaseField::one()); },
                    _ => {
                        if off_subgroup {
                            // a point of the curve that (almost surely) lies outside the prime-order subgroup
                            loop {
                                let x: P::BaseField = rnd(&mut cx.rng);
                                if let Some(p) = sw::Affine::<P>::get_point_from_x_unchecked(x, false) { v[pos] = p; break; }
                            }
                        } else {
                            v[pos] = sw::Affine::identity();
                        }
                    },
                }
            } else if bad > 0 {
                continue;
            }
            let r = hex_limbs(P::ScalarField::MODULUS.as_ref());
            let args = format!("{} {} {}", sw_hdr::<P>(), r, swaffs(&v));
            cx.emit("bcheck", ts, &args, || match sw::Affine::<P>::batch_check(v.iter()) { Ok(()) => "ok".into(), Err(_) => "err".into() });
        }
    }
}

fn mpair_ops(cx: &mut Ctx, ts: &[usize], sizes: &[usize]) {
    use ark_test_curves::bls12_381::{Bls12_381, Fr, G1Projective, G2Projective};
    let g1 = G1Projective::generator();
    let g2 = G2Projective::generator();
    let gt = Bls12_381::pairing(g1, g2).0;
    for &n in sizes {
        let a: Vec<Fr> = (0..n).map(|i| if n >= 3 && i == 1 { Fr::zero() } else { rnd(&mut cx.rng) }).collect();
        let b: Vec<Fr> = (0..n).map(|i| if n >= 5 && i == 4 { Fr::zero() } else if i == 0 { Fr::one() } else { rnd(&mut cx.rng) }).collect();
        let ps: Vec<_> = a.iter().map(|s| (g1 * s).into_affine()).collect();
        let qs: Vec<_> = b.iter().map(|s| (g2 * s).into_affine()).collect();
        let args = format!("{} {} {} {}", pm::<ark_test_curves::bls12_381::Fq>(), hl(&a), hl(&b), fe(&gt));
        cx.emit("mpair", ts, &args, || fe(&Bls12_381::multi_pairing(&ps, &qs).0));
    }
}

fn main() {
    let a = arkharness::args();
    let th = a.thorough;
    let ts: Vec<usize> = if th { (1..=16).chain([64]).collect() } else { vec![1, 2, 3, 5, 7, 8, 13, 16, 64] };
    let mut all_ts = ts.clone();
    all_ts.extend_from_slice(&[4]);
    all_ts.sort();
    all_ts.dedup();
    let mut cx = Ctx { out: Out::new(), pools: Pools::new(&all_ts), ts: ts.clone(), rng: Rng::new(a.seed), th, only: a.only.clone() };
    let cx = &mut cx;
    let few = cx.few();
    use ark_test_curves::{bls12_381, bn384_small_two_adicity as bn384, ed_on_bls12_381 as ed};

    // the pool really has T threads (the serial build echoes T)
    if cx.want("nthreads") {
        for &t in ts.iter() {
            let r = cx.pools.run(t, || Pools::threads(t));
            cx.out.line(&format!("C14 nthreads {:x}", t), &format!("{:x}", r));
        }
    }
    if cx.want("binv") {
        binv_exhaustive::<FDT13>(cx, 13);
        binv_field::<FDT13>(cx, 40, &[]);
        binv_field::<FDT65537>(cx, 70, if th { &[1023, 1024, 1025, 4097, 32769] } else { &[1023, 1024, 1025, 4097] });
        binv_field::<FDGoldilocks>(cx, 33, &[1025]);
        binv_field::<bls12_381::Fr>(cx, 33, &[257]);
    }
    if cx.want("dpow") {
        // threshold: chunks of max(len / T, 1024)
        let s: Vec<usize> = if th {
            vec![0, 1, 2, 17, 1023, 1024, 1025, 2047, 2048, 2049, 3071, 3072, 3073, 4095, 4096, 4097, 5000, 6143, 6144, 6145, 8191, 8192, 8193, 10240, 13313, 16384, 16385, 32768, 32769]
        } else {
            vec![0, 1, 2, 17, 1023, 1024, 1025, 2047, 2048, 2049, 3071, 3072, 3073, 4096, 5000, 8191, 8192, 8193]
        };
        dpow_field::<FDT65537>(cx, &ts, &s);
        dpow_field::<FDGoldilocks>(cx, &ts, &[0, 1, 1024, 1025, 2049, 3073, 4097]);
        dpow_field::<bls12_381::Fr>(cx, &few, &[1, 1025, 2049]);
    }
    if cx.want("eval") {
        // threshold: chunks of max(len / T, 16)
        let big: &[usize] = if th { &[127, 128, 129, 255, 256, 257, 1023, 1024, 1025, 2048, 4097, 8192, 32768, 32769] } else { &[127, 128, 129, 255, 256, 257, 1023, 1024, 1025, 2048, 4097, 8192] };
        eval_field::<FDT13>(cx, 40, &[]);
        eval_field::<FDT65537>(cx, 140, big);
        eval_field::<FDGoldilocks>(cx, 70, &[127, 128, 129, 1025]);
        eval_field::<bls12_381::Fr>(cx, 70, &[127, 128, 129, 257, 1025]);
    }
    if cx.want("mfft") {
        // parallel_fft is taken iff two-adicity(size) > log2_floor(T)
        mfft_field::<M2593>(cx, &[1, 2, 3, 4, 6, 8, 9, 12, 16, 24, 32, 48, 96], if th { &[288, 864, 2592] } else { &[288, 864] });
        mfft_field::<M18433>(cx, &[2, 64, 128, 192, 256], if th { &[384, 576, 1024, 1152, 2048, 2304, 4608] } else { &[384, 576, 1152, 2048] });
        mfft_field::<bn384::Fq>(cx, &[1, 4, 12, 72], if th { &[128, 288, 1152] } else { &[128] });
    }
    if cx.want("r2fft") {
        // thresholds: roots table 2^7/2^8 (and the recursive split from 2^9, depth two from 2^16),
        // root compaction at 128 chunks, butterfly parallelisation above 2^10 inputs and for gaps > 2^10
        let logs: Vec<u32> = if th { (0..=16).collect() } else { (0..=13).collect() };
        r2fft_field::<FDT65537>(cx, &logs, 11, &ts, &ts, true);
        r2fft_field::<FDGoldilocks>(cx, if th { &[3, 7, 8, 9, 10, 11, 12, 13, 14] } else { &[3, 7, 8, 9, 10, 11, 12] }, 10, &few, &few, true);
        r2fft_field::<bls12_381::Fr>(cx, if th { &[2, 7, 8, 9, 10, 11, 12] } else { &[2, 8, 9, 10, 11] }, 9, &few, &[3, 64], true);
        // general domain that resolves to a mixed-radix one
        let v = rvec::<bn384::Fq>(&mut cx.rng, 30);
        r2fft::<bn384::Fq>(cx, &few, "g", 5000, bn384::Fq::one(), false, &v);
    }
    if cx.want("poly") {
        poly_ops::<FDT65537>(cx);
        if th { poly_ops::<FDGoldilocks>(cx); }
        misc_poly_ops::<FDT65537>(cx);
        misc_poly_ops::<bls12_381::Fr>(cx);
    }
    if cx.want("msm") {
        // window size changes at 32 bases
        msm_ops::<ToyE>(cx, &ts, &[0, 1, 2, 3, 4, 31, 32, 33, 100, 257]);
        msm_ops::<ToyE61>(cx, &ts, &[1, 5, 31, 32, 33, 64, 200]);
        msm_ops::<ToyE61>(cx, &few, if th { &[1025, 4100] } else { &[1025] });
        msm_ops::<bls12_381::g1::Config>(cx, &few, if th { &[1, 2, 5, 33, 70] } else { &[1, 4, 33] });
    }
    if cx.want("bmul") {
        bmul_ops::<ToyE>(cx, &ts, &[0, 1, 2, 31, 32, 33, 100]);
        bmul_ops::<ToyE61>(cx, &ts, &[1, 7, 33, 130]);
        bmul_ops::<ToyE61>(cx, &few, &[1030]);
        bmul_ops::<bls12_381::g1::Config>(cx, &few, if th { &[1, 5, 33] } else { &[1, 5] });
    }
    if cx.want("norm") {
        norm_sw_ops::<ToyE>(cx, &ts, &[0, 1, 2, 3, 7, 16, 17, 65, 130, 1025]);
        norm_sw_ops::<bls12_381::g1::Config>(cx, &ts, &[0, 1, 2, 7, 17, 40]);
        norm_te_ops::<ed::EdwardsConfig>(cx, &ts, &[0, 1, 2, 7, 17, 40]);
    }
    if cx.want("bcheck") {
        bcheck_ops::<ToyE>(cx, &ts, &[0, 1, 2, 5, 17, 64, 200], false);
        bcheck_ops::<bls12_381::g1::Config>(cx, &few, &[1, 3, 6], true);
    }
    if cx.want("mpair") {
        // chunks of 4 pairs
        mpair_ops(cx, &few, if th { &[0, 1, 2, 3, 4, 5, 7, 8, 9, 13, 17] } else { &[0, 1, 3, 4, 5, 9] });
    }
    cx.out.flush();
}
