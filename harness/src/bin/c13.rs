//! C13: hash-to-field / hash-to-curve (RFC 9380).
//!
//! Line syntax (numbers lower-case hex; byte strings as hex digits, `_` = empty; a field element is the
//! comma list of its base-prime-field coordinates `c0[,c1…]`; lists of elements are `;`-separated, `_` empty;
//! SW points `inf` | `x y`, TE points `v w`):
//!   C13 sha256 <bytes>                                     => <32 bytes>            sha2 crate (the modelled hash)
//!   C13 h2f <p> <bits> <m> <sec> <N> <dst> <msg>           => e0;e1;… | _ | panic    DefaultFieldHasher<Sha256,sec>::hash_to_field::<N>
//!   C13 parity <p> <m> <elt>                               => 0|1                    curve_maps::parity
//!   C13 cfg.sw  <id> <p> <m> <beta> <a> <b> <zeta> <cof> <r>                         => <check_parameters>
//!   C13 cfg.wb  <id> <swid> <a> <b> <heff> <r> <xnum> <xden> <ynum> <yden>           => <check_parameters>
//!   C13 cfg.ell <id> <p> <m> <beta> <te_a> <te_d> <mont_a> <mont_b> <z> <ksqinv> <jonk> <cof> <r> => <check_parameters>
//!   C13 swu <id> <u>      => x y            SWUMap::<P>::map_to_curve
//!   C13 wb <id> <u>       => x y | inf      WBMap::<P>::map_to_curve
//!   C13 ell <id> <u>      => v w            Elligator2Map::<P>::map_to_curve
//!   C13 hash <id> <dst> <msg>   => x y | inf   MapToCurveBasedHasher<Projective<P>, DefaultFieldHasher<Sha256,128>, WBMap<P>>::hash
//!   C13 hashswu <id> <dst> <msg>   (same with SWUMap<P>),   C13 ehash <id> <dst> <msg>  (TE, Elligator2Map<P>)
//!   C13 rfcvec.xmd <dst> <msg> <len>                       => uniform_bytes of the RFC's JSON vector
//!   C13 rfcvec.hash <id> <dst> <msg> <u0;u1> <Q0> <Q1>      => P of the RFC's JSON vector (`Q` = `x/y`)
//!   C13 h2f_xof <p> <bits> <m> <sec> <stream>                => c0[,c1…] <bytes requested> | panic
//!                                                              field_hashers::hash_to_field::<F, H: XofReader, sec>(&mut h), `h` = a reader that
//!                                                              yields the GIVEN byte stream, then zeros, and counts the bytes requested
//!   C13 chk.wb <id> <gen>                                  => <check_parameters>     WBMap::<P>::check_parameters again, with the generator of the
//!                                                              isogenous curve (`inf` | `x/y`) that `check_parameters` feeds to `IsogenyMap::apply`
//!   C13 new <id>                                           => ok | err | panic       MapToCurveBasedHasher::<_, DefaultFieldHasher<Sha256,128>, Map<P>>::new(dst)
//! `ExpanderXmd` is private to ark-ff: it is observed through `hash_to_field` (with `SEC_PARAM = 0` over F_251,
//! `L = 1`, every output byte is seen modulo 251 at every requested length).
//! The exceptional inputs of the maps (u = 0, Z·u² = −1, u with SWU(u) a pole of the isogeny, u with gx1 = 0)
//! are computed here by solving for u (polynomial root finding over the field, then two quadratics).
#![allow(dead_code, deprecated, non_camel_case_types, clippy::type_complexity)]
use ark_ec::{
    hashing::{
        curve_maps::{
            elligator2::{Elligator2Config, Elligator2Map},
            parity,
            swu::{SWUConfig, SWUMap},
            wb::{IsogenyMap, WBConfig, WBMap},
        },
        map_to_curve_hasher::{MapToCurve, MapToCurveBasedHasher},
        HashToCurve,
    },
    short_weierstrass as sw,
    twisted_edwards as te,
    AffineRepr, CurveConfig,
};
use ark_ff::{
    field_hashers::{hash_to_field as hash_to_field_xof, DefaultFieldHasher, HashToField},
    Field, Fp2, Fp2Config, Fp3, Fp3Config, MontFp, One, PrimeField, Zero,
};
use ark_test_curves::bls12_381 as bls;
use arkharness::util::*;
use arkharness::zoo::{FDBls381Fq, FDP64m59, FDSecp384r1, FDT127, FDT13, FDT251, FDT7};

/// F_101 (elligator2.rs tests)
#[derive(ark_ff::MontConfig)]
#[modulus = "101"]
#[generator = "2"]
pub struct F101Config;
pub type FDT101x = ark_ff::Fp<ark_ff::MontBackend<F101Config, 1>, 1>;
use num_bigint::BigUint;
use sha2::{digest::XofReader, Digest, Sha256};

// ------------------------------------------------------------------ printing
fn pf<F: PrimeField>(x: &F) -> String { hex_limbs(x.into_bigint().as_ref()) }
fn fe<F: Field>(x: &F) -> String { x.to_base_prime_field_elements().map(|c| pf(&c)).collect::<Vec<_>>().join(",") }
fn fl<F: Field>(v: &[F]) -> String {
    if v.is_empty() { "_".into() } else { v.iter().map(fe).collect::<Vec<_>>().join(";") }
}
fn pmod<F: Field>() -> String { hex_limbs(F::BasePrimeField::MODULUS.as_ref()) }
fn hb(b: &[u8]) -> String {
    if b.is_empty() { "_".into() } else { b.iter().map(|x| format!("{:02x}", x)).collect() }
}
fn swaff<P: sw::SWCurveConfig>(p: &sw::Affine<P>) -> String {
    match p.xy() { None => "inf".into(), Some((x, y)) => format!("{} {}", fe(&x), fe(&y)) }
}
fn teaff<P: te::TECurveConfig>(p: &te::Affine<P>) -> String { format!("{} {}", fe(&p.x), fe(&p.y)) }
/// β with i² = β for the element i = (0, 1) of a quadratic extension; 0 otherwise
fn beta<F: Field>() -> String {
    if F::extension_degree() != 2 { return "0".into(); }
    let i = F::from_base_prime_field_elems([F::BasePrimeField::zero(), F::BasePrimeField::one()]).unwrap();
    pf(&i.square().to_base_prime_field_elements().next().unwrap())
}

// ------------------------------------------------------------------ byte-string corpus
fn bytes_of_len(rng: &mut Rng, n: usize, style: u64) -> Vec<u8> {
    match style % 4 {
        0 => vec![0u8; n],
        1 => vec![0xffu8; n],
        2 => (0..n).map(|i| (i % 251) as u8).collect(),
        _ => (0..n).map(|_| rng.next() as u8).collect(),
    }
}
const LENS: [usize; 7] = [0, 1, 32, 255, 256, 300, 1000];

// ------------------------------------------------------------------ sha256
fn sha_lines(rng: &mut Rng, thorough: bool, out: &mut Out) {
    let mut lens: Vec<usize> = (0..=130).collect();
    lens.extend_from_slice(&[191, 192, 255, 256, 257, 300, 511, 512, 1000, 4096]);
    for (k, n) in lens.iter().enumerate() {
        for style in 0..(if thorough { 4 } else { 2 }) {
            let m = bytes_of_len(rng, *n, (k as u64 + style) % 4);
            out.line(&format!("C13 sha256 {}", hb(&m)), &hb(&Sha256::digest(&m)));
        }
    }
    for _ in 0..(if thorough { 2000 } else { 200 }) {
        let n = rng.below(200) as usize;
        let m = bytes_of_len(rng, n, 3);
        out.line(&format!("C13 sha256 {}", hb(&m)), &hb(&Sha256::digest(&m)));
    }
}

// ------------------------------------------------------------------ hash_to_field
fn h2f_one<F: Field, const SEC: usize, const N: usize>(out: &mut Out, dst: &[u8], msg: &[u8]) {
    let r = guarded(|| {
        let h = <DefaultFieldHasher<Sha256, SEC> as HashToField<F>>::new(dst);
        let a: [F; N] = h.hash_to_field::<N>(msg);
        // determinism: a fresh hasher gives the same elements
        let h2 = <DefaultFieldHasher<Sha256, SEC> as HashToField<F>>::new(dst);
        let b: [F; N] = h2.hash_to_field::<N>(msg);
        if a != b { return "nondeterministic".into(); }
        fl(&a)
    });
    out.line(
        &format!("C13 h2f {} {:x} {:x} {:x} {:x} {} {}", pmod::<F>(), F::BasePrimeField::MODULUS_BIT_SIZE,
                 F::extension_degree(), SEC, N, hb(dst), hb(msg)),
        &r,
    );
}
/// (dst, msg) pairs: `full` = the 7×7 cross product of the boundary lengths, otherwise a diagonal + random
fn pairs(rng: &mut Rng, full: bool, extra: usize) -> Vec<(Vec<u8>, Vec<u8>)> {
    let mut v = Vec::new();
    if full {
        for (i, &dl) in LENS.iter().enumerate() {
            for (j, &ml) in LENS.iter().enumerate() {
                v.push((bytes_of_len(rng, dl, (i + j) as u64 | 2), bytes_of_len(rng, ml, (i * 3 + j) as u64)));
            }
        }
    } else {
        for (i, &dl) in LENS.iter().enumerate() {
            v.push((bytes_of_len(rng, dl, 3), bytes_of_len(rng, LENS[(i * 3 + 1) % 7], 3)));
        }
    }
    for _ in 0..extra {
        let dl = if rng.below(4) == 0 { 250 + rng.below(12) as usize } else { rng.below(64) as usize };
        let ml = rng.below(150) as usize;
        v.push((bytes_of_len(rng, dl, 3), bytes_of_len(rng, ml, 3)));
    }
    v
}
macro_rules! h2f_ns {
    ($out:expr, $prs:expr, $F:ty, $sec:literal, [$($n:literal),*]) => {
        $( for (d, m) in $prs.iter() { h2f_one::<$F, $sec, $n>($out, d, m); } )*
    };
}
fn h2f_lines(rng: &mut Rng, thorough: bool, out: &mut Out) {
    let x = if thorough { 10 } else { 1 };
    // the supported suites' fields: L = 64 = the SHA-256 block size
    let full = pairs(rng, true, 40 * x);
    h2f_ns!(out, full, bls::Fq, 128, [1, 2]);
    h2f_ns!(out, full, bls::Fq2, 128, [1, 2]);
    let few = pairs(rng, false, 3 * x);
    // requests near the 255-block limit are expensive for the driver: in the quick tier three (dst, msg) pairs
    // (DST lengths 1, 255, 300 → short, maximal, oversize), all boundary lengths in the thorough tier
    let big: Vec<(Vec<u8>, Vec<u8>)> = if thorough { few.clone() } else { vec![few[1].clone(), few[3].clone(), few[5].clone()] };
    h2f_ns!(out, few, bls::Fq, 128, [0, 3, 4]);
    h2f_ns!(out, big, bls::Fq, 128, [126, 127, 128, 129]);                 // 127·64 = 8128 (ell 254), 128·64 = 8192 (ell 256: assert)
    h2f_ns!(out, few, bls::Fq2, 128, [0, 3]);
    h2f_ns!(out, big, bls::Fq2, 128, [63, 64]);                            // 64·2·64 = 8192: assert
    h2f_ns!(out, few, bls::Fq6, 128, [1, 2]);
    h2f_ns!(out, big, bls::Fq6, 128, [21, 22]);                            // m = 6; 22·6·64 = 8448: assert
    h2f_ns!(out, few, FDBls381Fq, 128, [1, 2]);                            // same modulus, zoo config
    h2f_ns!(out, few, FDSecp384r1, 128, [1, 2]);                           // 384 + 128 = 512 bits: L = 64 too
    h2f_ns!(out, few, bls::Fq, 124, [1, 2]);                               // 505 bits: L = 64
    h2f_ns!(out, few, bls::Fq, 131, [1, 2]);                               // 512 bits: L = 64
    // L ≠ 64: the expander is run with Z_pad of L bytes (as coded)
    h2f_ns!(out, few, bls::Fq, 132, [1, 2]);                               // L = 65
    h2f_ns!(out, few, bls::Fq, 123, [1, 2]);                               // L = 63
    h2f_ns!(out, few, bls::Fq, 0, [1, 2]);
    h2f_ns!(out, big, bls::Fq, 0, [170, 171]);                       // L = 48; 170·48 = 8160 = 255·32 (max), 171: assert
    h2f_ns!(out, few, bls::Fr, 128, [1, 2]);
    h2f_ns!(out, big, bls::Fr, 128, [170, 171]);                     // L = 48
    h2f_ns!(out, few, bls::Fr, 1, [1, 2]);
    h2f_ns!(out, big, bls::Fr, 1, [255, 256]);                       // L = 32; 255·32 = 8160, 256: assert
    h2f_ns!(out, few, ark_test_curves::secp256k1::Fq, 128, [1, 2]);        // L = 48
    h2f_ns!(out, few, ark_test_curves::mnt4_753::Fq, 128, [1, 2]);         // L = 111
    h2f_ns!(out, few, FDP64m59, 0, [1, 4]);
    h2f_ns!(out, big, FDP64m59, 0, [1020, 1021]);                    // L = 8; p = 2^64 − 59: bytes almost visible
    h2f_ns!(out, few, FDT127, 128, [1, 2]);                                // L = 17 (toy SWU suite)
    h2f_ns!(out, few, FDT101x, 128, [1, 2]);                               // L = 17 (toy Elligator suite)
    h2f_ns!(out, few, bls::Fq, 1667, [1, 2]);                              // L = 256: the whole Z_PAD
    h2f_ns!(out, few, bls::Fq, 1668, [1]);                                 // L = 257: `&Z_PAD[0..257]` panics
    h2f_ns!(out, few, bls::Fq, 2000, [1]);                                 // L = 298
    // L = 1 over F_251: the expander's bytes (mod 251) at every requested length across block boundaries
    let f1 = pairs(rng, false, 2 * x);
    h2f_ns!(out, f1, FDT251, 0, [0, 1, 2, 31, 32, 33, 63, 64, 65, 95, 96, 97, 127, 128, 129, 255, 256]);
    let f2 = pairs(rng, false, 0);
    h2f_ns!(out, f2[..3], FDT251, 0, [1000]);
    h2f_ns!(out, f2[3..(if thorough { 6 } else { 5 })], FDT251, 0, [8159, 8160, 8161]);
    if thorough {
        let f3 = pairs(rng, true, 0);
        h2f_ns!(out, f3, FDT251, 0, [33, 8160]);
        h2f_ns!(out, f3, bls::Fq, 128, [127]);
    }
}

// ------------------------------------------------------------------ hash_to_field from an XOF reader
/// a `digest::XofReader` that yields a given byte stream, then zeros; `requested` = total number of bytes asked for
struct StreamXof<'a> { data: &'a [u8], pos: usize, requested: usize }
impl XofReader for StreamXof<'_> {
    fn read(&mut self, buffer: &mut [u8]) {
        self.requested += buffer.len();
        for b in buffer.iter_mut() { *b = self.data.get(self.pos).copied().unwrap_or(0); self.pos += 1; }
    }
}
fn xof_one<F: Field, const SEC: usize>(out: &mut Out, stream: &[u8]) {
    let r = guarded(|| {
        let mut h = StreamXof { data: stream, pos: 0, requested: 0 };
        let e: F = hash_to_field_xof::<F, _, SEC>(&mut h);
        format!("{} {:x}", fe(&e), h.requested)
    });
    out.line(
        &format!("C13 h2f_xof {} {:x} {:x} {:x} {}", pmod::<F>(), F::BasePrimeField::MODULUS_BIT_SIZE, F::extension_degree(), SEC, hb(stream)),
        &r,
    );
}
/// `v` as `len` big-endian bytes (`None` when it does not fit)
fn be_fixed(v: &BigUint, len: usize) -> Option<Vec<u8>> {
    let b = v.to_bytes_be();
    let b: &[u8] = if b == [0u8] { &[] } else { &b };
    if b.len() > len { return None; }
    let mut r = vec![0u8; len - b.len()];
    r.extend_from_slice(b);
    Some(r)
}
/// the byte streams fed to `hash_to_field::<F, _, SEC>`: `len` = bytes per base-prime-field element (used only to SHAPE the inputs)
fn xof_streams<F: Field>(rng: &mut Rng, len: usize, extra: usize) -> Vec<Vec<u8>> {
    let m = F::extension_degree() as usize;
    let total = m * len;
    let mut v: Vec<Vec<u8>> = Vec::new();
    if len > 2048 {
        // the slice `&mut alloca[0..len]` panics before anything is read
        v.push(vec![]);
        v.push((0..16).map(|_| rng.next() as u8).collect());
        v.push(vec![0xff; 64]);
        return v;
    }
    let p = BigUint::from_bytes_le(&F::BasePrimeField::MODULUS.as_ref().iter().flat_map(|l| l.to_le_bytes()).collect::<Vec<u8>>());
    let one = BigUint::from(1u32);
    let top = (&one << (8 * len)) - &one;                      // 256^len − 1
    let kmax = &top / &p;                                      // largest multiple of p that fits: kmax·p
    let bits = F::BasePrimeField::MODULUS_BIT_SIZE as usize;
    let mut vals: Vec<BigUint> = vec![
        BigUint::from(0u32), one.clone(), &p - &one, p.clone(), &p + &one, &p + &p - &one, &p + &p, &p + &p + &one,
        top.clone(), &top - &one, &kmax * &p, &kmax * &p - &one, &kmax * &p + &one, &top + &one - &p.clone().min(top.clone()),
        &one << (bits - 1), &one << bits, (&one << bits) - &one, &one << (8 * len - 1).max(0), &one << (4 * len),
        (&kmax / 2u32) * &p, (&kmax / 2u32) * &p + &p - &one,
    ];
    vals.retain(|x| x <= &top);
    let chunks: Vec<Vec<u8>> = vals.iter().filter_map(|x| be_fixed(x, len)).collect();
    // a recognisable filler for "the other chunks": chunk j = 0xa0+j … j+1
    let filler = |j: usize| -> Vec<u8> {
        let mut c = vec![0u8; len];
        if len > 0 { c[len - 1] = (j + 1) as u8; c[0] = if len > 1 { 0xa0 + j as u8 } else { (j + 1) as u8 }; }
        c
    };
    // 1. every chunk carries the same edge value
    for c in &chunks { v.push((0..m).flat_map(|_| c.clone()).collect()); }
    // 2. the edge value at one position only (which chunk goes to which coordinate)
    if m > 1 {
        for c in &chunks { for i in 0..m { v.push((0..m).flat_map(|j| if j == i { c.clone() } else { filler(j) }).collect()); } }
    }
    // 3. chunk boundaries
    v.push((0..m).flat_map(filler).collect());
    v.push((0..total).map(|j| (j % 251) as u8).collect());
    v.push((0..total).map(|j| if j % len.max(1) == 0 { 1 } else { 0 }).collect());          // leading byte of each chunk
    v.push((0..total).map(|j| if (j + 1) % len.max(1) == 0 { 1 } else { 0 }).collect());    // trailing byte of each chunk
    // 4. lengths: longer than needed (the surplus must not be read), shorter (the reader zero-fills)
    let pat = |n: usize| -> Vec<u8> { (0..n).map(|j| if j < total { (j % 255) as u8 + 1 } else { 0xff }).collect() };
    let mut ls = vec![total + 1, total + len, total + 2048, total.saturating_sub(1), total.saturating_sub(len), total.saturating_sub(len) + 1, len / 2, 1, 0];
    if m > 1 { ls.push(len); ls.push(len + 1); ls.push(total - len - 1); }
    for n in ls { v.push(pat(n)); }
    // 5. seeded random: exact length mostly, sometimes shorter / longer
    for _ in 0..extra {
        let n = match rng.below(8) { 0 => rng.below(total as u64 + 1) as usize, 1 => total + rng.below(len as u64 + 2) as usize, _ => total };
        let mut s: Vec<u8> = (0..n).map(|_| rng.next() as u8).collect();
        // sometimes clear the top bytes of every chunk so that values below p occur for L ≫ log p
        if rng.below(3) == 0 { for (j, b) in s.iter_mut().enumerate() { if j % len.max(1) < len.saturating_sub((bits + 7) / 8) { *b = 0; } } }
        v.push(s);
    }
    // order-preserving removal of duplicates (tiny L: many edge values coincide)
    let mut seen = std::collections::HashSet::new();
    v.retain(|s| seen.insert(s.clone()));
    v
}
macro_rules! xof_secs {
    ($out:expr, $rng:expr, $extra:expr, $F:ty, [$($sec:literal),*]) => {
        $( {
            let len = (<$F as Field>::BasePrimeField::MODULUS_BIT_SIZE as usize + $sec + 7) / 8;
            for st in xof_streams::<$F>($rng, len, $extra) { xof_one::<$F, $sec>($out, &st); }
        } )*
    };
}
fn xof_lines(rng: &mut Rng, thorough: bool, out: &mut Out) {
    let e = if thorough { 400 } else { 12 };
    // SEC_PARAM: 0 / 1 (L = ⌈bits/8⌉ or one more), the suites' 128, L = 63 / 64 / 64 / 65 over the BLS12-381 base field,
    // 16384: L = 2049 or more for every field: the slice of the 2048-byte stack buffer panics
    xof_secs!(out, rng, e, bls::Fq, [0, 1, 128, 123, 124, 131, 132, 16003, 16004, 16384]);   // 16003: L = 2048 (the whole buffer), 16004: L = 2049
    xof_secs!(out, rng, e, bls::Fr, [0, 1, 128, 123, 124, 131, 132, 16384]);
    xof_secs!(out, rng, e, ark_test_curves::secp256k1::Fq, [0, 1, 128, 123, 124, 131, 132, 16384]);
    xof_secs!(out, rng, e, ark_test_curves::mnt4_753::Fq, [0, 1, 128, 123, 124, 131, 132, 16384]);
    xof_secs!(out, rng, e, FDT251, [0, 1, 128, 123, 124, 131, 132, 16384]);
    xof_secs!(out, rng, e, FDT127, [0, 1, 128, 123, 124, 131, 132, 16384]);
    xof_secs!(out, rng, e, FDT13, [0, 1, 128, 123, 124, 131, 132, 16372, 16373, 16384]);              // 4 + 16372 = 16376 → L = 2047 … 16373 → 2048
    xof_secs!(out, rng, e, FDP64m59, [0, 1, 128, 123, 124, 131, 132, 16384]);
    xof_secs!(out, rng, e, bls::Fq2, [0, 1, 128, 123, 124, 131, 132, 16003, 16004, 16384]);
    xof_secs!(out, rng, e, F49, [0, 1, 128, 123, 124, 131, 132, 16384]);
    xof_secs!(out, rng, e, bls::Fq6, [0, 1, 128, 123, 124, 131, 132, 16384]);                         // m = 6
}

// ------------------------------------------------------------------ parity
/// F_49 = F_7[u]/(u² + 1), F_343 = F_7[u]/(u³ − 2) (toy extensions, as in c03.rs)
pub struct Q49;
impl Fp2Config for Q49 {
    type Fp = FDT7;
    const NONRESIDUE: FDT7 = MontFp!("6");
    const FROBENIUS_COEFF_FP2_C1: &'static [FDT7] = &[MontFp!("1"), MontFp!("6")];
}
pub type F49 = Fp2<Q49>;
pub struct C343;
impl Fp3Config for C343 {
    type Fp = FDT7;
    const NONRESIDUE: FDT7 = MontFp!("2");
    const TWO_ADICITY: u32 = 1;
    const TRACE_MINUS_ONE_DIV_TWO: &'static [u64] = &[85];
    const QUADRATIC_NONRESIDUE_TO_T: Fp3<C343> = Fp3::new(MontFp!("6"), MontFp!("0"), MontFp!("0"));
    const FROBENIUS_COEFF_FP3_C1: &'static [FDT7] = &[MontFp!("1"), MontFp!("4"), MontFp!("2")];
    const FROBENIUS_COEFF_FP3_C2: &'static [FDT7] = &[MontFp!("1"), MontFp!("2"), MontFp!("4")];
}
pub type F343 = Fp3<C343>;

fn parity_line<F: Field>(out: &mut Out, x: F) {
    let r = guarded(|| if parity(&x) { "1".into() } else { "0".into() });
    out.line(&format!("C13 parity {} {:x} {}", pmod::<F>(), F::extension_degree(), fe(&x)), &r);
}
fn all_elems<F: Field>() -> Vec<F> {
    // every element of a toy field, by enumerating coordinate vectors
    let p: u64 = F::BasePrimeField::MODULUS.as_ref()[0];
    let m = F::extension_degree() as usize;
    let total = p.pow(m as u32);
    (0..total).map(|mut k| {
        let cs: Vec<F::BasePrimeField> = (0..m).map(|_| { let c = k % p; k /= p; F::BasePrimeField::from(c) }).collect();
        F::from_base_prime_field_elems(cs).unwrap()
    }).collect()
}
fn edge_elems<F: Field>(rng: &mut Rng, extra: usize) -> Vec<F> {
    // coordinates from {0, 1, 2, p−1, p−2, (p−1)/2, (p+1)/2, random}: every pattern of zero / non-zero leading coordinates
    let m = F::extension_degree() as usize;
    let one = F::BasePrimeField::one();
    let two = one + one;
    let half = two.inverse().unwrap();
    let small = [F::BasePrimeField::zero(), one, two, -one, -two, -half, half];
    let mut v = Vec::new();
    let total = 7usize.pow(m.min(3) as u32);
    for k in 0..total {
        let mut kk = k;
        let cs: Vec<F::BasePrimeField> = (0..m).map(|j| { if j < 3 { let c = small[kk % 7]; kk /= 7; c } else { F::BasePrimeField::zero() } }).collect();
        v.push(F::from_base_prime_field_elems(cs).unwrap());
    }
    for _ in 0..extra {
        let cs: Vec<F::BasePrimeField> = (0..m).map(|_| {
            if rng.below(4) == 0 { small[rng.below(7) as usize] } else { rand_prime::<F::BasePrimeField>(rng) }
        }).collect();
        v.push(F::from_base_prime_field_elems(cs).unwrap());
    }
    v
}
fn rand_prime<F: PrimeField>(rng: &mut Rng) -> F {
    let n = (F::MODULUS_BIT_SIZE as usize + 7) / 8 + 8;
    let b: Vec<u8> = (0..n).map(|_| rng.next() as u8).collect();
    F::from_be_bytes_mod_order(&b)
}
fn rand_elem<F: Field>(rng: &mut Rng) -> F {
    let m = F::extension_degree() as usize;
    F::from_base_prime_field_elems((0..m).map(|_| rand_prime::<F::BasePrimeField>(rng)).collect::<Vec<_>>()).unwrap()
}
fn parity_lines(rng: &mut Rng, thorough: bool, out: &mut Out) {
    let x = if thorough { 10 } else { 1 };
    for e in all_elems::<FDT13>() { parity_line(out, e); }
    for e in all_elems::<F49>() { parity_line(out, e); }
    for e in all_elems::<F343>() { parity_line(out, e); }
    for e in edge_elems::<bls::Fq>(rng, 100 * x) { parity_line(out, e); }
    for e in edge_elems::<bls::Fq2>(rng, 200 * x) { parity_line(out, e); }
    for e in edge_elems::<bls::Fq6>(rng, 200 * x) { parity_line(out, e); }
    for e in edge_elems::<ark_test_curves::mnt6_753::Fq3>(rng, 100 * x) { parity_line(out, e); }
}

// ------------------------------------------------------------------ polynomial root finding over a field
type Pl<F> = Vec<F>; // low degree first, no trailing zeros
fn ptrim<F: Field>(mut a: Pl<F>) -> Pl<F> { while a.last().map(|c| c.is_zero()).unwrap_or(false) { a.pop(); } a }
fn pmul<F: Field>(a: &Pl<F>, b: &Pl<F>) -> Pl<F> {
    if a.is_empty() || b.is_empty() { return vec![]; }
    let mut r = vec![F::zero(); a.len() + b.len() - 1];
    for (i, x) in a.iter().enumerate() { for (j, y) in b.iter().enumerate() { r[i + j] += *x * *y; } }
    ptrim(r)
}
fn pdivrem<F: Field>(a: &Pl<F>, m: &Pl<F>) -> (Pl<F>, Pl<F>) {
    let mut a = a.clone();
    let inv = m.last().unwrap().inverse().unwrap();
    let mut q = vec![F::zero(); if a.len() >= m.len() { a.len() - m.len() + 1 } else { 0 }];
    while a.len() >= m.len() {
        let c = *a.last().unwrap() * inv;
        let d = a.len() - m.len();
        q[d] = c;
        for (i, y) in m.iter().enumerate() { a[d + i] -= c * *y; }
        a.pop();
        a = ptrim(a);
    }
    (ptrim(q), a)
}
fn psub<F: Field>(a: &Pl<F>, b: &Pl<F>) -> Pl<F> {
    let n = a.len().max(b.len());
    ptrim((0..n).map(|i| a.get(i).copied().unwrap_or(F::zero()) - b.get(i).copied().unwrap_or(F::zero())).collect())
}
fn pgcd<F: Field>(a: &Pl<F>, b: &Pl<F>) -> Pl<F> {
    let (mut a, mut b) = (a.clone(), b.clone());
    while !b.is_empty() { let r = pdivrem(&a, &b).1; a = b; b = r; }
    if a.is_empty() { return a; }
    let inv = a.last().unwrap().inverse().unwrap();
    a.iter().map(|c| *c * inv).collect()
}
fn ppow<F: Field>(base: &Pl<F>, e: &BigUint, m: &Pl<F>) -> Pl<F> {
    let mut r: Pl<F> = vec![F::one()];
    let b = pdivrem(base, m).1;
    for i in (0..e.bits()).rev() {
        r = pdivrem(&pmul(&r, &r), m).1;
        if e.bit(i) { r = pdivrem(&pmul(&r, &b), m).1; }
    }
    r
}
fn field_order<F: Field>() -> BigUint {
    let mut bytes = Vec::new();
    for l in F::characteristic() { bytes.extend_from_slice(&l.to_le_bytes()); }
    BigUint::from_bytes_le(&bytes).pow(F::extension_degree() as u32)
}
/// all roots in F of the polynomial `f` (Cantor–Zassenhaus on gcd(f, x^|F| − x))
fn roots<F: Field>(f: &[F], rng: &mut Rng) -> Vec<F> {
    let f = ptrim(f.to_vec());
    if f.len() <= 1 { return vec![]; }
    let q = field_order::<F>();
    let x: Pl<F> = vec![F::zero(), F::one()];
    let xq = ppow(&x, &q, &f);
    let g = pgcd(&f, &psub(&xq, &x));
    let mut res = Vec::new();
    let mut stack = vec![g];
    let half = (&q - 1u32) / 2u32;
    while let Some(g) = stack.pop() {
        if g.len() <= 1 { continue; }
        if g.len() == 2 { res.push(-g[0] * g[1].inverse().unwrap()); continue; }
        loop {
            let delta: F = rand_elem(rng);
            let h = psub(&ppow(&vec![delta, F::one()], &half, &g), &vec![F::one()]);
            if h.is_empty() { continue; }
            let d = pgcd(&g, &h);
            if d.len() > 1 && d.len() < g.len() {
                let qq = pdivrem(&g, &d).0;
                stack.push(d);
                stack.push(qq);
                break;
            }
        }
    }
    res
}
/// all u with x1(u) = x or x2(u) = x for the SWU map of `P` (t = Z·u²; two quadratics in t)
fn swu_preimages<P: SWUConfig>(x: P::BaseField) -> Vec<P::BaseField> {
    let (a, b, z) = (P::COEFF_A, P::COEFF_B, P::ZETA);
    let one = P::BaseField::one();
    let two_inv = (one + one).inverse().unwrap();
    let four = (one + one).square();
    let mab = -a * b.inverse().unwrap();
    let mut ts = Vec::new();
    // x1 = (−B/A)(1 + 1/(t²+t)) = x   ⇔   t² + t = 1/((−A/B)·x − 1)
    let den = mab * x - one;
    if let Some(c) = den.inverse() {
        if let Some(s) = (one + four * c).sqrt() { ts.push((-one + s) * two_inv); ts.push((-one - s) * two_inv); }
    }
    // x1 = B/(Z·A) when t² + t = 0
    if x == b * (z * a).inverse().unwrap() { ts.push(P::BaseField::zero()); ts.push(-one); }
    // x2 = t·x1 = (−B/A)(t²+t+1)/(t+1) = x   ⇔   t² + (1−k)t + (1−k) = 0,  k = (−A/B)·x
    let bb = one - mab * x;
    if let Some(s) = (bb.square() - four * bb).sqrt() { ts.push((-bb + s) * two_inv); ts.push((-bb - s) * two_inv); }
    let mut us = Vec::new();
    let zi = z.inverse().unwrap();
    for t in ts { if let Some(u) = (t * zi).sqrt() { us.push(u); us.push(-u); } }
    us
}
/// the exceptional inputs of SWU (+ isogeny `iso_dens`): u = 0, Z u² = −1, gx1 = 0, poles of the isogeny
fn swu_exceptional<P: SWUConfig>(iso_dens: &[&[P::BaseField]], rng: &mut Rng) -> Vec<P::BaseField> {
    let one = P::BaseField::one();
    let mut us = vec![P::BaseField::zero()];
    if let Some(u) = (-P::ZETA.inverse().unwrap()).sqrt() { us.push(u); us.push(-u); }
    let mut targets = roots(&[P::COEFF_B, P::COEFF_A, P::BaseField::zero(), one], rng); // 2-torsion: gx = 0
    for d in iso_dens { targets.extend(roots(d, rng)); }
    for x in targets { us.extend(swu_preimages::<P>(x)); }
    let mut seen: Vec<P::BaseField> = Vec::new();
    for u in us { if !seen.contains(&u) { seen.push(u); } }
    seen
}

// ------------------------------------------------------------------ curve configurations
macro_rules! toy_sw {
    ($name:ident, $F:ty, $a:expr, $b:expr, $gx:expr, $gy:expr, $cof:expr) => {
        pub struct $name;
        impl CurveConfig for $name {
            const COFACTOR: &'static [u64] = &[$cof];
            const COFACTOR_INV: FDT127 = MontFp!("1");
            type BaseField = $F;
            type ScalarField = FDT127;
        }
        impl sw::SWCurveConfig for $name {
            const COEFF_A: $F = $a;
            const COEFF_B: $F = $b;
            const GENERATOR: sw::Affine<Self> = sw::Affine::new_unchecked($gx, $gy);
        }
    };
}
// swu.rs tests: y² = x³ + x + 63 over F_127 (order 127), ZETA = −1
toy_sw!(ToySwu127, FDT127, MontFp!("1"), MontFp!("63"), MontFp!("62"), MontFp!("70"), 1);
impl SWUConfig for ToySwu127 { const ZETA: FDT127 = MontFp!("-1"); }
// wb.rs tests: E' : y² = x³ + 109x + 124 (order 127)  →  E : y² = x³ + 3, 13-isogeny
toy_sw!(ToyWbIso127, FDT127, MontFp!("109"), MontFp!("124"), MontFp!("84"), MontFp!("2"), 1);
impl SWUConfig for ToyWbIso127 { const ZETA: FDT127 = MontFp!("-1"); }
toy_sw!(ToyWb127, FDT127, MontFp!("0"), MontFp!("3"), MontFp!("62"), MontFp!("70"), 1);
const TOY_ISO_13: IsogenyMap<'static, ToyWbIso127, ToyWb127> = IsogenyMap {
    x_map_numerator: &[MontFp!("4"), MontFp!("63"), MontFp!("23"), MontFp!("39"), MontFp!("-14"), MontFp!("23"), MontFp!("-32"),
        MontFp!("32"), MontFp!("-13"), MontFp!("40"), MontFp!("34"), MontFp!("10"), MontFp!("-21"), MontFp!("-57")],
    x_map_denominator: &[MontFp!("2"), MontFp!("31"), MontFp!("-10"), MontFp!("-20"), MontFp!("63"), MontFp!("-44"), MontFp!("34"),
        MontFp!("30"), MontFp!("-30"), MontFp!("-33"), MontFp!("11"), MontFp!("-13"), MontFp!("1")],
    y_map_numerator: &[MontFp!("-34"), MontFp!("-57"), MontFp!("30"), MontFp!("-18"), MontFp!("-60"), MontFp!("-43"), MontFp!("-63"),
        MontFp!("-18"), MontFp!("-49"), MontFp!("36"), MontFp!("12"), MontFp!("62"), MontFp!("5"), MontFp!("6"), MontFp!("-7"),
        MontFp!("48"), MontFp!("41"), MontFp!("59"), MontFp!("10")],
    y_map_denominator: &[MontFp!("32"), MontFp!("-18"), MontFp!("-24"), MontFp!("23"), MontFp!("18"), MontFp!("-55"), MontFp!("-16"),
        MontFp!("-61"), MontFp!("-46"), MontFp!("-13"), MontFp!("-42"), MontFp!("11"), MontFp!("-30"), MontFp!("38"), MontFp!("3"),
        MontFp!("52"), MontFp!("-63"), MontFp!("44"), MontFp!("1")],
};
// INVALID on purpose: SWU directly on y² = x³ + 3 (a = 0): `div3 = 0`, the division panics (the debug_assert is compiled out)
impl SWUConfig for ToyWb127 { const ZETA: FDT127 = MontFp!("-1"); }
impl WBConfig for ToyWb127 {
    type IsogenousCurve = ToyWbIso127;
    const ISOGENY_MAP: IsogenyMap<'static, ToyWbIso127, ToyWb127> = TOY_ISO_13;
}
// synthetic: E' : y² = x³ + 114x + 12 = (x−1)(x−3)(x−123) over F_127 (full rational 2-torsion: gx1 = 0 is reachable),
// 2-isogeny with kernel {O, (1, 0)} (Vélu): x ↦ (x² − x + 117)/(x − 1), y ↦ y·(x² − 2x + 11)/(x − 1)²,
// codomain E : y² = x³ + 37x + 82 (checked by brute force over all points of E').
// ZETA = 3: non-square with g(B/(ZETA·A)) a non-zero square (RFC 9380 §6.6.2 criterion 4 on Z).
toy_sw!(ToyTors127, FDT127, MontFp!("114"), MontFp!("12"), MontFp!("1"), MontFp!("0"), 1);
impl SWUConfig for ToyTors127 { const ZETA: FDT127 = MontFp!("3"); }
// the same curve with ZETA = −1: a non-square, but g(B/(ZETA·A)) is a non-square (criterion 4 violated;
// `check_parameters` does not test it): an INVALID configuration, kept to record what the code does with it
toy_sw!(ToyInv127, FDT127, MontFp!("114"), MontFp!("12"), MontFp!("1"), MontFp!("0"), 1);
impl SWUConfig for ToyInv127 { const ZETA: FDT127 = MontFp!("-1"); }
toy_sw!(ToyIso2Cod127, FDT127, MontFp!("37"), MontFp!("82"), MontFp!("0"), MontFp!("0"), 1);
const TOY_ISO_2: IsogenyMap<'static, ToyTors127, ToyIso2Cod127> = IsogenyMap {
    x_map_numerator: &[MontFp!("117"), MontFp!("-1"), MontFp!("1")],
    x_map_denominator: &[MontFp!("-1"), MontFp!("1")],
    y_map_numerator: &[MontFp!("11"), MontFp!("-2"), MontFp!("1")],
    y_map_denominator: &[MontFp!("1"), MontFp!("-2"), MontFp!("1")],
};
impl WBConfig for ToyIso2Cod127 {
    type IsogenousCurve = ToyTors127;
    const ISOGENY_MAP: IsogenyMap<'static, ToyTors127, ToyIso2Cod127> = TOY_ISO_2;
}
// SWU over the toy quadratic extension F_49 = F_7[i]/(i² + 1): y² = x³ + (1 + i)x + (2 + 3i), ZETA = 1 + 3i
// (norm 10 = 3, a non-square of F_7, so ZETA is a non-square of F_49; g(B/(ZETA·A)) is a non-zero square);
// exhaustive over all 49 u, including u with u.c0 = 0
toy_sw!(ToySwu49, F49, F49::new(MontFp!("1"), MontFp!("1")), F49::new(MontFp!("2"), MontFp!("3")),
        F49::new(MontFp!("0"), MontFp!("0")), F49::new(MontFp!("0"), MontFp!("0")), 1);
impl SWUConfig for ToySwu49 { const ZETA: F49 = F49::new(MontFp!("1"), MontFp!("3")); }

// elligator2.rs tests: −x² + y² = 1 + 12x²y² over F_101, Montgomery (76, 23), Z = 2
pub struct ToyEll101;
impl CurveConfig for ToyEll101 {
    const COFACTOR: &'static [u64] = &[8];
    const COFACTOR_INV: FDT13 = MontFp!("1");
    type BaseField = FDT101x;
    type ScalarField = FDT13; // placeholder (the subgroup has order 11); not used by the map
}
impl te::TECurveConfig for ToyEll101 {
    const COEFF_A: FDT101x = MontFp!("-1");
    const COEFF_D: FDT101x = MontFp!("12");
    const GENERATOR: te::Affine<Self> = te::Affine::new_unchecked(MontFp!("23"), MontFp!("24"));
    type MontCurveConfig = Self;
}
impl te::MontCurveConfig for ToyEll101 {
    const COEFF_A: FDT101x = MontFp!("76");
    const COEFF_B: FDT101x = MontFp!("23");
    type TECurveConfig = Self;
}
impl Elligator2Config for ToyEll101 {
    const Z: FDT101x = MontFp!("2");
    const ONE_OVER_COEFF_B_SQUARE: FDT101x = MontFp!("80");
    const COEFF_A_OVER_COEFF_B: FDT101x = MontFp!("56");
}
// synthetic: Montgomery y² = x³ + 5x² + x over F_127 (A = 5, B = 1) = twisted Edwards 7x² + y² = 1 + 3x²y², Z = −1:
// p ≡ 3 (mod 4), so 1 + Z·u² = 0 at u = ±1 (the `den_1 = 0` branch)
pub struct ToyEll127;
impl CurveConfig for ToyEll127 {
    const COFACTOR: &'static [u64] = &[1];
    const COFACTOR_INV: FDT13 = MontFp!("1");
    type BaseField = FDT127;
    type ScalarField = FDT13; // placeholder; not used by the map
}
impl te::TECurveConfig for ToyEll127 {
    const COEFF_A: FDT127 = MontFp!("7");
    const COEFF_D: FDT127 = MontFp!("3");
    const GENERATOR: te::Affine<Self> = te::Affine::new_unchecked(MontFp!("0"), MontFp!("1"));
    type MontCurveConfig = Self;
}
impl te::MontCurveConfig for ToyEll127 {
    const COEFF_A: FDT127 = MontFp!("5");
    const COEFF_B: FDT127 = MontFp!("1");
    type TECurveConfig = Self;
}
impl Elligator2Config for ToyEll127 {
    const Z: FDT127 = MontFp!("-1");
    const ONE_OVER_COEFF_B_SQUARE: FDT127 = MontFp!("1");
    const COEFF_A_OVER_COEFF_B: FDT127 = MontFp!("5");
}
// Jubjub (test-curves ed_on_bls12_381: a = −1, d = −10240/10241, Montgomery (40962, −40964)) with Z = 5
// (the least non-square of its base field); 1/B² and A/B computed offline and re-checked at start-up.
pub struct JubjubEll;
type JFq = ark_test_curves::ed_on_bls12_381::Fq;
type JCfg = ark_test_curves::ed_on_bls12_381::EdwardsConfig;
impl CurveConfig for JubjubEll {
    const COFACTOR: &'static [u64] = &[8];
    const COFACTOR_INV: ark_test_curves::ed_on_bls12_381::Fr = <JCfg as CurveConfig>::COFACTOR_INV;
    type BaseField = JFq;
    type ScalarField = ark_test_curves::ed_on_bls12_381::Fr;
}
impl te::TECurveConfig for JubjubEll {
    const COEFF_A: JFq = <JCfg as te::TECurveConfig>::COEFF_A;
    const COEFF_D: JFq = <JCfg as te::TECurveConfig>::COEFF_D;
    const GENERATOR: te::Affine<Self> =
        te::Affine::new_unchecked(<JCfg as te::TECurveConfig>::GENERATOR.x, <JCfg as te::TECurveConfig>::GENERATOR.y);
    type MontCurveConfig = Self;
}
impl te::MontCurveConfig for JubjubEll {
    const COEFF_A: JFq = <JCfg as te::MontCurveConfig>::COEFF_A;
    const COEFF_B: JFq = <JCfg as te::MontCurveConfig>::COEFF_B;
    type TECurveConfig = Self;
}
impl Elligator2Config for JubjubEll {
    const Z: JFq = MontFp!("5");
    const ONE_OVER_COEFF_B_SQUARE: JFq = MontFp!("19676371192118968049803995723067767322369844622612809987311387700305851196142");
    const COEFF_A_OVER_COEFF_B: JFq = MontFp!("9628519018340474679875156334893438995974717701127060143092098445975442038616");
}

// ------------------------------------------------------------------ INVALID configurations (one documented condition violated each):
// what `check_parameters`, `map_to_curve` and `MapToCurveBasedHasher::new` do with them.  Every check in the three
// `check_parameters` is a `debug_assert!`; this harness is built with `debug-assertions = false`.
// SWU on y² = x³ + x + 63 over F_127 with ZETA = 4 (a non-zero square) / ZETA = 0
toy_sw!(ToyZsq127, FDT127, MontFp!("1"), MontFp!("63"), MontFp!("62"), MontFp!("70"), 1);
impl SWUConfig for ToyZsq127 { const ZETA: FDT127 = MontFp!("4"); }
toy_sw!(ToyZ0x127, FDT127, MontFp!("1"), MontFp!("63"), MontFp!("62"), MontFp!("70"), 1);
impl SWUConfig for ToyZ0x127 { const ZETA: FDT127 = MontFp!("0"); }
// SWU on y² = x³ + x (COEFF_B = 0), ZETA = −1
toy_sw!(ToyB0x127, FDT127, MontFp!("1"), MontFp!("0"), MontFp!("1"), MontFp!("16"), 1);
impl SWUConfig for ToyB0x127 { const ZETA: FDT127 = MontFp!("-1"); }
// WB: the curve of `ToyTors127` with a generator outside the kernel of the 2-isogeny, (2, 11) ↦ (119, 121)
toy_sw!(ToyTorsG127, FDT127, MontFp!("114"), MontFp!("12"), MontFp!("2"), MontFp!("11"), 1);
impl SWUConfig for ToyTorsG127 { const ZETA: FDT127 = MontFp!("3"); }
// … the same with ZETA = 4 (a square): invalid SWU parameters under a correct isogeny
toy_sw!(ToyTorsZsq127, FDT127, MontFp!("114"), MontFp!("12"), MontFp!("2"), MontFp!("11"), 1);
impl SWUConfig for ToyTorsZsq127 { const ZETA: FDT127 = MontFp!("4"); }
// … and with GENERATOR = the point at infinity (`IsogenyMap::apply` on `xy() == None`, reached through `check_parameters`)
pub struct ToyTorsInf127;
impl CurveConfig for ToyTorsInf127 {
    const COFACTOR: &'static [u64] = &[1];
    const COFACTOR_INV: FDT127 = MontFp!("1");
    type BaseField = FDT127;
    type ScalarField = FDT127;
}
impl sw::SWCurveConfig for ToyTorsInf127 {
    const COEFF_A: FDT127 = MontFp!("114");
    const COEFF_B: FDT127 = MontFp!("12");
    const GENERATOR: sw::Affine<Self> = sw::Affine::identity();
}
impl SWUConfig for ToyTorsInf127 { const ZETA: FDT127 = MontFp!("3"); }
/// the 2-isogeny `TOY_ISO_2` between other configuration types; `$yn0` = constant coefficient of the y numerator (11 = correct)
macro_rules! toy_iso2 {
    ($D:ty, $C:ty, $yn0:literal) => {
        IsogenyMap::<'static, $D, $C> {
            x_map_numerator: &[MontFp!("117"), MontFp!("-1"), MontFp!("1")],
            x_map_denominator: &[MontFp!("-1"), MontFp!("1")],
            y_map_numerator: &[MontFp!($yn0), MontFp!("-2"), MontFp!("1")],
            y_map_denominator: &[MontFp!("1"), MontFp!("-2"), MontFp!("1")],
        }
    };
}
// codomain y² = x³ + 37x + 82 three more times (one `WBConfig` per isogenous-curve type)
toy_sw!(ToyIso2Pert127, FDT127, MontFp!("37"), MontFp!("82"), MontFp!("0"), MontFp!("0"), 1);
impl WBConfig for ToyIso2Pert127 {
    type IsogenousCurve = ToyTorsG127;
    // y numerator x² − 2x + 12 instead of x² − 2x + 11: (2, 11) ↦ (119, 5), NOT on the codomain
    const ISOGENY_MAP: IsogenyMap<'static, ToyTorsG127, ToyIso2Pert127> = toy_iso2!(ToyTorsG127, ToyIso2Pert127, "12");
}
toy_sw!(ToyIso2Zsq127, FDT127, MontFp!("37"), MontFp!("82"), MontFp!("0"), MontFp!("0"), 1);
impl WBConfig for ToyIso2Zsq127 {
    type IsogenousCurve = ToyTorsZsq127;
    const ISOGENY_MAP: IsogenyMap<'static, ToyTorsZsq127, ToyIso2Zsq127> = toy_iso2!(ToyTorsZsq127, ToyIso2Zsq127, "11");
}
toy_sw!(ToyIso2Inf127, FDT127, MontFp!("37"), MontFp!("82"), MontFp!("0"), MontFp!("0"), 1);
impl WBConfig for ToyIso2Inf127 {
    type IsogenousCurve = ToyTorsInf127;
    const ISOGENY_MAP: IsogenyMap<'static, ToyTorsInf127, ToyIso2Inf127> = toy_iso2!(ToyTorsInf127, ToyIso2Inf127, "11");
}
macro_rules! toy_ell {
    ($name:ident, $F:ty, $tea:expr, $ted:expr, $gx:expr, $gy:expr, $ma:expr, $mb:expr, $z:expr, $ksq:expr, $jonk:expr) => {
        pub struct $name;
        impl CurveConfig for $name {
            const COFACTOR: &'static [u64] = &[1];
            const COFACTOR_INV: FDT13 = MontFp!("1");
            type BaseField = $F;
            type ScalarField = FDT13; // placeholder; not used by the map
        }
        impl te::TECurveConfig for $name {
            const COEFF_A: $F = $tea;
            const COEFF_D: $F = $ted;
            const GENERATOR: te::Affine<Self> = te::Affine::new_unchecked($gx, $gy);
            type MontCurveConfig = Self;
        }
        impl te::MontCurveConfig for $name {
            const COEFF_A: $F = $ma;
            const COEFF_B: $F = $mb;
            type TECurveConfig = Self;
        }
        impl Elligator2Config for $name {
            const Z: $F = $z;
            const ONE_OVER_COEFF_B_SQUARE: $F = $ksq;
            const COEFF_A_OVER_COEFF_B: $F = $jonk;
        }
    };
}
// `ToyEll127` with Z = 4 (a non-zero square) / Z = 0
toy_ell!(EllZsq127, FDT127, MontFp!("7"), MontFp!("3"), MontFp!("0"), MontFp!("1"), MontFp!("5"), MontFp!("1"), MontFp!("4"), MontFp!("1"), MontFp!("5"));
toy_ell!(EllZ0x127, FDT127, MontFp!("7"), MontFp!("3"), MontFp!("0"), MontFp!("1"), MontFp!("5"), MontFp!("1"), MontFp!("0"), MontFp!("1"), MontFp!("5"));
// `ToyEll127` with Montgomery COEFF_B = 0 (1/B² does not exist; the two derived constants are kept)
toy_ell!(EllB0x127, FDT127, MontFp!("7"), MontFp!("3"), MontFp!("0"), MontFp!("1"), MontFp!("5"), MontFp!("0"), MontFp!("-1"), MontFp!("1"), MontFp!("5"));
// `ToyEll101` (1/B² = 80, A/B = 56) with ONE_OVER_COEFF_B_SQUARE = 81 / COEFF_A_OVER_COEFF_B = 57
toy_ell!(EllKsq101, FDT101x, MontFp!("-1"), MontFp!("12"), MontFp!("23"), MontFp!("24"), MontFp!("76"), MontFp!("23"), MontFp!("2"), MontFp!("81"), MontFp!("56"));
toy_ell!(EllJonk101, FDT101x, MontFp!("-1"), MontFp!("12"), MontFp!("23"), MontFp!("24"), MontFp!("76"), MontFp!("23"), MontFp!("2"), MontFp!("80"), MontFp!("57"));

fn chk<M: MapToCurve<G>, G: ark_ec::CurveGroup>() -> String {
    guarded(|| match M::check_parameters() { Ok(()) => "ok".into(), Err(_) => "err".into() })
}
fn cfg_sw<P: SWUConfig>(out: &mut Out, id: &str, r: &str) {
    out.line(
        &format!("C13 cfg.sw {} {} {:x} {} {} {} {} {} {}", id, pmod::<P::BaseField>(), P::BaseField::extension_degree(),
                 beta::<P::BaseField>(), fe(&P::COEFF_A), fe(&P::COEFF_B), fe(&P::ZETA), hex_limbs(P::COFACTOR), r),
        &chk::<SWUMap<P>, sw::Projective<P>>(),
    );
}
fn cfg_wb<P: WBConfig>(out: &mut Out, id: &str, swid: &str, heff: &str, r: &str) {
    let m = &P::ISOGENY_MAP;
    out.line(
        &format!("C13 cfg.wb {} {} {} {} {} {} {} {} {} {}", id, swid, fe(&P::COEFF_A), fe(&P::COEFF_B), heff, r,
                 fl(m.x_map_numerator), fl(m.x_map_denominator), fl(m.y_map_numerator), fl(m.y_map_denominator)),
        &chk::<WBMap<P>, sw::Projective<P>>(),
    );
}
fn cfg_ell<P: Elligator2Config>(out: &mut Out, id: &str, r: &str) {
    out.line(
        &format!("C13 cfg.ell {} {} {:x} {} {} {} {} {} {} {} {} {} {}", id, pmod::<P::BaseField>(), P::BaseField::extension_degree(),
                 beta::<P::BaseField>(), fe(&<P as te::TECurveConfig>::COEFF_A), fe(&<P as te::TECurveConfig>::COEFF_D),
                 fe(&<P as te::MontCurveConfig>::COEFF_A), fe(&<P as te::MontCurveConfig>::COEFF_B), fe(&P::Z),
                 fe(&P::ONE_OVER_COEFF_B_SQUARE), fe(&P::COEFF_A_OVER_COEFF_B), hex_limbs(P::COFACTOR), r),
        &chk::<Elligator2Map<P>, te::Projective<P>>(),
    );
}

// ------------------------------------------------------------------ the maps
fn swu_line<P: SWUConfig>(out: &mut Out, id: &str, u: P::BaseField) {
    let r = guarded(|| match SWUMap::<P>::map_to_curve(u) { Ok(p) => swaff(&p), Err(_) => "err".into() });
    out.line(&format!("C13 swu {} {}", id, fe(&u)), &r);
}
fn wb_line<P: WBConfig>(out: &mut Out, id: &str, u: P::BaseField) {
    let r = guarded(|| match WBMap::<P>::map_to_curve(u) { Ok(p) => swaff(&p), Err(_) => "err".into() });
    out.line(&format!("C13 wb {} {}", id, fe(&u)), &r);
}
fn ell_line<P: Elligator2Config>(out: &mut Out, id: &str, u: P::BaseField) {
    let r = guarded(|| match Elligator2Map::<P>::map_to_curve(u) { Ok(p) => teaff(&p), Err(_) => "err".into() });
    out.line(&format!("C13 ell {} {}", id, fe(&u)), &r);
}
type H2F = DefaultFieldHasher<Sha256, 128>;
fn hash_line<P: WBConfig>(out: &mut Out, id: &str, dst: &[u8], msg: &[u8]) {
    let r = guarded(|| {
        let run = || MapToCurveBasedHasher::<sw::Projective<P>, H2F, WBMap<P>>::new(dst).unwrap().hash(msg);
        match (run(), run()) {
            (Ok(a), Ok(b)) => if a == b { swaff(&a) } else { "nondeterministic".into() },
            _ => "err".into(),
        }
    });
    out.line(&format!("C13 hash {} {} {}", id, hb(dst), hb(msg)), &r);
}
fn hashswu_line<P: SWUConfig>(out: &mut Out, id: &str, dst: &[u8], msg: &[u8]) {
    let r = guarded(|| {
        let run = || MapToCurveBasedHasher::<sw::Projective<P>, H2F, SWUMap<P>>::new(dst).unwrap().hash(msg);
        match (run(), run()) {
            (Ok(a), Ok(b)) => if a == b { swaff(&a) } else { "nondeterministic".into() },
            _ => "err".into(),
        }
    });
    out.line(&format!("C13 hashswu {} {} {}", id, hb(dst), hb(msg)), &r);
}
fn ehash_line<P: Elligator2Config>(out: &mut Out, id: &str, dst: &[u8], msg: &[u8]) {
    let r = guarded(|| {
        let run = || MapToCurveBasedHasher::<te::Projective<P>, H2F, Elligator2Map<P>>::new(dst).unwrap().hash(msg);
        match (run(), run()) {
            (Ok(a), Ok(b)) => if a == b { teaff(&a) } else { "nondeterministic".into() },
            _ => "err".into(),
        }
    });
    out.line(&format!("C13 ehash {} {} {}", id, hb(dst), hb(msg)), &r);
}

/// `check_parameters` of a WB configuration once more, with the point it feeds to `IsogenyMap::apply` on the line
fn chk_wb<P: WBConfig>(out: &mut Out, id: &str) {
    let g = match <P::IsogenousCurve as sw::SWCurveConfig>::GENERATOR.xy() { None => "inf".to_string(), Some((x, y)) => format!("{}/{}", fe(&x), fe(&y)) };
    out.line(&format!("C13 chk.wb {} {}", id, g), &chk::<WBMap<P>, sw::Projective<P>>());
}
/// `MapToCurveBasedHasher::new(dst)` (documented to fail on invalid parameters through `check_parameters()?`)
fn new_line<G: ark_ec::CurveGroup, M: MapToCurve<G>>(out: &mut Out, id: &str) {
    let r = guarded(|| match MapToCurveBasedHasher::<G, H2F, M>::new(b"QUUX-V01-CS02-with-expander") { Ok(_) => "ok".into(), Err(_) => "err".into() });
    out.line(&format!("C13 new {}", id), &r);
}
fn new_sw<P: SWUConfig>(out: &mut Out, id: &str) { new_line::<sw::Projective<P>, SWUMap<P>>(out, id); }
fn new_wb<P: WBConfig>(out: &mut Out, id: &str) { new_line::<sw::Projective<P>, WBMap<P>>(out, id); }
fn new_ell<P: Elligator2Config>(out: &mut Out, id: &str) { new_line::<te::Projective<P>, Elligator2Map<P>>(out, id); }

fn sw_suite<P: WBConfig>(rng: &mut Rng, out: &mut Out, id: &str, swid: &str, n_rand: usize, n_hash: usize) {
    let m = &P::ISOGENY_MAP;
    let mut us = swu_exceptional::<P::IsogenousCurve>(&[m.x_map_denominator, m.y_map_denominator], rng);
    us.extend(edge_elems::<P::BaseField>(rng, n_rand));
    for u in &us { swu_line::<P::IsogenousCurve>(out, swid, *u); }
    for u in &us { wb_line::<P>(out, id, *u); }
    for (d, msg) in pairs(rng, false, n_hash) { hash_line::<P>(out, id, &d, &msg); }
}

// ------------------------------------------------------------------ RFC 9380 JSON vectors shipped in the repository
fn repo() -> String { std::env::var("VERIF_REPO").unwrap_or_else(|_| "/repo".into()) }
/// the string value following `"key": "` at or after `from`; returns (value, position after it)
fn jstr(s: &str, key: &str, from: usize) -> Option<(String, usize)> {
    let pat = format!("\"{}\": \"", key);
    let i = s[from..].find(&pat)? + from + pat.len();
    let j = s[i..].find('"')? + i;
    Some((s[i..j].to_string(), j + 1))
}
/// "0x00ab…" or "0x…,0x…" → canonical element syntax
fn jnum(v: &str) -> String {
    v.split(',').map(|c| { let t = c.trim().trim_start_matches("0x").trim_start_matches('0'); if t.is_empty() { "0".to_string() } else { t.to_lowercase() } })
        .collect::<Vec<_>>().join(",")
}
fn rfc_hash_vectors<P: WBConfig>(out: &mut Out, id: &str, file: &str) {
    let path = format!("{}/test-curves/src/testdata/{}", repo(), file);
    let Ok(s) = std::fs::read_to_string(&path) else { out.line(&format!("C13 rfcvec.missing {}", path), "missing"); return; };
    let (dst, _) = jstr(&s, "dst", 0).unwrap();
    let mut pos = s.find("\"vectors\"").unwrap();
    while let Some(i) = s[pos..].find("\"P\": {") {
        let at = pos + i;
        let (px, a) = jstr(&s, "x", at).unwrap();
        let (py, a) = jstr(&s, "y", a).unwrap();
        let (q0x, a) = jstr(&s, "x", a).unwrap();
        let (q0y, a) = jstr(&s, "y", a).unwrap();
        let (q1x, a) = jstr(&s, "x", a).unwrap();
        let (q1y, a) = jstr(&s, "y", a).unwrap();
        let (msg, a) = jstr(&s, "msg", a).unwrap();
        let ub = s[a..].find("\"u\": [").unwrap() + a;
        let i0 = s[ub..].find("\"0x").unwrap() + ub + 1;
        let j0 = s[i0..].find('"').unwrap() + i0;
        let i1 = s[j0 + 1..].find("\"0x").unwrap() + j0 + 2;
        let j1 = s[i1..].find('"').unwrap() + i1;
        let (u0, u1) = (&s[i0..j0], &s[i1..j1]);
        out.line(
            &format!("C13 rfcvec.hash {} {} {} {};{} {}/{} {}/{}", id, hb(dst.as_bytes()), hb(msg.as_bytes()), jnum(u0), jnum(u1),
                     jnum(&q0x), jnum(&q0y), jnum(&q1x), jnum(&q1y)),
            &format!("{} {}", jnum(&px), jnum(&py)),
        );
        // and the real code on the same (dst, msg)
        hash_line::<P>(out, id, dst.as_bytes(), msg.as_bytes());
        h2f_one::<P::BaseField, 128, 2>(out, dst.as_bytes(), msg.as_bytes());
        pos = j1;
    }
}
fn rfc_xmd_vectors(out: &mut Out, file: &str) {
    let path = format!("{}/ff/src/fields/field_hashers/expander/testdata/{}", repo(), file);
    let Ok(s) = std::fs::read_to_string(&path) else { out.line(&format!("C13 rfcvec.missing {}", path), "missing"); return; };
    let (dst, _) = jstr(&s, "DST", 0).unwrap();
    let mut pos = s.find("\"tests\"").unwrap();
    while let Some((len, a)) = jstr(&s, "len_in_bytes", pos) {
        let (msg, a) = jstr(&s, "msg", a).unwrap();
        let (_mp, a) = jstr(&s, "msg_prime", a).unwrap();
        let (ub, a) = jstr(&s, "uniform_bytes", a).unwrap();
        out.line(&format!("C13 rfcvec.xmd {} {} {}", hb(dst.as_bytes()), hb(msg.as_bytes()), len.trim_start_matches("0x")), &ub);
        pos = a;
    }
}

fn main() {
    let a = arkharness::args();
    let mut rng = Rng::new(a.seed);
    let mut out = Out::new();
    let t = a.thorough;
    let x = if t { 10 } else { 1 };
    let sel = |n: &str| a.only.as_ref().map(|o| o == n).unwrap_or(true);
    // start-up re-checks of the constants declared in this file
    {
        use te::MontCurveConfig as M;
        assert_eq!(<JubjubEll as Elligator2Config>::ONE_OVER_COEFF_B_SQUARE, <JubjubEll as M>::COEFF_B.square().inverse().unwrap());
        assert_eq!(<JubjubEll as Elligator2Config>::COEFF_A_OVER_COEFF_B, <JubjubEll as M>::COEFF_A / <JubjubEll as M>::COEFF_B);
        assert!(<JubjubEll as Elligator2Config>::Z.legendre().is_qnr());
        assert!(<ToySwu49 as SWUConfig>::ZETA.legendre().is_qnr());
    }
    if sel("sha") { sha_lines(&mut rng, t, &mut out); }
    if sel("h2f") { h2f_lines(&mut rng, t, &mut out); }
    if sel("xof") { xof_lines(&mut rng, t, &mut out); }
    if sel("parity") { parity_lines(&mut rng, t, &mut out); }
    if sel("rfc") {
        rfc_xmd_vectors(&mut out, "expand_message_xmd_SHA256_38.json");
        rfc_xmd_vectors(&mut out, "expand_message_xmd_SHA256_256.json");
    }
    // configurations (header lines, cached by the driver)
    let r_bls = hex_limbs(bls::Fr::MODULUS.as_ref());
    let g2_heff = "bc69f08f2ee75b3584c6a0ea91b352888e2a8e9145ad7689986ff031508ffe1329c2f178731db956d82bf015d1212b02ec0ec69d7477c1ae954cbc06689f6a359894c0adebbf6b4e8020005aaa95551";
    cfg_sw::<bls::g1_swu_iso::SwuIsoConfig>(&mut out, "g1iso", &r_bls);
    cfg_wb::<bls::g1::Config>(&mut out, "g1", "g1iso", "d201000000010001", &r_bls); // h_eff: literal inside g1::Config::clear_cofactor
    cfg_sw::<bls::g2_swu_iso::SwuIsoConfig>(&mut out, "g2iso", &r_bls);
    cfg_wb::<bls::g2::Config>(&mut out, "g2", "g2iso", g2_heff, &r_bls);           // ψ-based clearing = RFC h_eff (C12)
    cfg_sw::<ToySwu127>(&mut out, "t127", "7f");
    cfg_sw::<ToyWbIso127>(&mut out, "t127iso", "7f");
    cfg_wb::<ToyWb127>(&mut out, "t127wb", "t127iso", "1", "7f");
    cfg_sw::<ToyTors127>(&mut out, "tors127", "0");
    cfg_sw::<ToyInv127>(&mut out, "inv127", "0");
    cfg_sw::<ToyWb127>(&mut out, "inva0", "0");
    cfg_ell::<ToyEll127>(&mut out, "e127", "0");
    cfg_wb::<ToyIso2Cod127>(&mut out, "iso2", "tors127", "1", "0");
    cfg_sw::<ToySwu49>(&mut out, "t49", "0");
    cfg_ell::<ToyEll101>(&mut out, "e101", "b");
    cfg_ell::<JubjubEll>(&mut out, "jub", &hex_limbs(ark_test_curves::ed_on_bls12_381::Fr::MODULUS.as_ref()));
    // invalid configurations (headers; the lines that use them are in the `chk` sub-stream)
    cfg_sw::<ToyZsq127>(&mut out, "zsq127", "0");
    cfg_sw::<ToyZ0x127>(&mut out, "z0x127", "0");
    cfg_sw::<ToyB0x127>(&mut out, "invb0", "0");
    cfg_sw::<ToyTorsG127>(&mut out, "torsg", "0");
    cfg_sw::<ToyTorsZsq127>(&mut out, "torszsq", "0");
    cfg_sw::<ToyTorsInf127>(&mut out, "torsinf", "0");
    cfg_wb::<ToyIso2Pert127>(&mut out, "wbpert", "torsg", "1", "0");
    cfg_wb::<ToyIso2Zsq127>(&mut out, "wbswu", "torszsq", "1", "0");
    cfg_wb::<ToyIso2Inf127>(&mut out, "wbid", "torsinf", "1", "0");
    cfg_ell::<EllZsq127>(&mut out, "ezsq", "0");
    cfg_ell::<EllZ0x127>(&mut out, "ez0", "0");
    cfg_ell::<EllB0x127>(&mut out, "eb0", "0");
    cfg_ell::<EllKsq101>(&mut out, "eksq", "0");
    cfg_ell::<EllJonk101>(&mut out, "ejonk", "0");
    // `WBMap::check_parameters` with the generator it applies the isogeny to (also headers: the driver records the verdict per id)
    chk_wb::<bls::g1::Config>(&mut out, "g1");
    chk_wb::<bls::g2::Config>(&mut out, "g2");
    chk_wb::<ToyWb127>(&mut out, "t127wb");
    chk_wb::<ToyIso2Cod127>(&mut out, "iso2");          // generator (1, 0) = the kernel point: the pole branch of `apply`
    chk_wb::<ToyIso2Pert127>(&mut out, "wbpert");       // image of the generator off the codomain
    chk_wb::<ToyIso2Zsq127>(&mut out, "wbswu");         // `SWUMap::check_parameters().unwrap()` on invalid SWU parameters
    chk_wb::<ToyIso2Inf127>(&mut out, "wbid");          // generator = the point at infinity: the `None` arm of `apply`

    if sel("rfc") {
        rfc_hash_vectors::<bls::g1::Config>(&mut out, "g1", "BLS12381G1_XMD-SHA-256_SSWU_RO_.json");
        rfc_hash_vectors::<bls::g2::Config>(&mut out, "g2", "BLS12381G2_XMD-SHA-256_SSWU_RO_.json");
    }
    if sel("g1") { sw_suite::<bls::g1::Config>(&mut rng, &mut out, "g1", "g1iso", if t { 3000 } else { 500 }, if t { 200 } else { 12 }); }
    if sel("g2") { sw_suite::<bls::g2::Config>(&mut rng, &mut out, "g2", "g2iso", if t { 3000 } else { 300 }, if t { 100 } else { 8 }); }
    if sel("toy") {
        // exhaustive over all field elements
        for u in all_elems::<FDT127>() { swu_line::<ToySwu127>(&mut out, "t127", u); }
        for u in all_elems::<FDT127>() { swu_line::<ToyWbIso127>(&mut out, "t127iso", u); }
        for u in all_elems::<FDT127>() { wb_line::<ToyWb127>(&mut out, "t127wb", u); }
        for u in all_elems::<FDT127>() { swu_line::<ToyTors127>(&mut out, "tors127", u); }
        for u in all_elems::<FDT127>() { wb_line::<ToyIso2Cod127>(&mut out, "iso2", u); }
        for u in all_elems::<F49>() { swu_line::<ToySwu49>(&mut out, "t49", u); }
        for u in all_elems::<FDT127>() { swu_line::<ToyInv127>(&mut out, "inv127", u); }
        for u in [0u64, 1, 2, 126] { swu_line::<ToyWb127>(&mut out, "inva0", FDT127::from(u)); }
        for u in all_elems::<FDT101x>() { ell_line::<ToyEll101>(&mut out, "e101", u); }
        for u in all_elems::<FDT127>() { ell_line::<ToyEll127>(&mut out, "e127", u); }
        // the solver must find exactly the exceptional inputs the exhaustive sweep contains
        let m = &TOY_ISO_2;
        for u in swu_exceptional::<ToyTors127>(&[m.x_map_denominator, m.y_map_denominator], &mut rng) { wb_line::<ToyIso2Cod127>(&mut out, "iso2", u); }
        for (d, msg) in pairs(&mut rng, false, 30 * x) {
            hashswu_line::<ToySwu127>(&mut out, "t127", &d, &msg);
            hash_line::<ToyWb127>(&mut out, "t127wb", &d, &msg);
            ehash_line::<ToyEll101>(&mut out, "e101", &d, &msg);
        }
    }
    if sel("jub") {
        let mut us = vec![JFq::zero()];
        if let Some(u) = (-<JubjubEll as Elligator2Config>::Z.inverse().unwrap()).sqrt() { us.push(u); us.push(-u); }
        us.extend(edge_elems::<JFq>(&mut rng, if t { 3000 } else { 500 }));
        for u in us { ell_line::<JubjubEll>(&mut out, "jub", u); }
        for (d, msg) in pairs(&mut rng, false, if t { 100 } else { 3 }) { ehash_line::<JubjubEll>(&mut out, "jub", &d, &msg); }
    }
    if sel("chk") {
        // `MapToCurveBasedHasher::new` on every configuration, valid or not
        new_wb::<bls::g1::Config>(&mut out, "g1");
        new_wb::<bls::g2::Config>(&mut out, "g2");
        new_sw::<bls::g1_swu_iso::SwuIsoConfig>(&mut out, "g1iso");
        new_sw::<bls::g2_swu_iso::SwuIsoConfig>(&mut out, "g2iso");
        new_sw::<ToySwu127>(&mut out, "t127");
        new_sw::<ToyWbIso127>(&mut out, "t127iso");
        new_wb::<ToyWb127>(&mut out, "t127wb");
        new_sw::<ToyTors127>(&mut out, "tors127");
        new_sw::<ToyInv127>(&mut out, "inv127");
        new_sw::<ToyWb127>(&mut out, "inva0");
        new_wb::<ToyIso2Cod127>(&mut out, "iso2");
        new_sw::<ToySwu49>(&mut out, "t49");
        new_ell::<ToyEll127>(&mut out, "e127");
        new_ell::<ToyEll101>(&mut out, "e101");
        new_ell::<JubjubEll>(&mut out, "jub");
        new_sw::<ToyZsq127>(&mut out, "zsq127");
        new_sw::<ToyZ0x127>(&mut out, "z0x127");
        new_sw::<ToyB0x127>(&mut out, "invb0");
        new_sw::<ToyTorsG127>(&mut out, "torsg");
        new_sw::<ToyTorsZsq127>(&mut out, "torszsq");
        new_sw::<ToyTorsInf127>(&mut out, "torsinf");
        new_wb::<ToyIso2Pert127>(&mut out, "wbpert");
        new_wb::<ToyIso2Zsq127>(&mut out, "wbswu");
        new_wb::<ToyIso2Inf127>(&mut out, "wbid");
        new_ell::<EllZsq127>(&mut out, "ezsq");
        new_ell::<EllZ0x127>(&mut out, "ez0");
        new_ell::<EllB0x127>(&mut out, "eb0");
        new_ell::<EllKsq101>(&mut out, "eksq");
        new_ell::<EllJonk101>(&mut out, "ejonk");
        // what `map_to_curve` does on the invalid configurations: every u of the toy field
        for u in all_elems::<FDT127>() { swu_line::<ToyZsq127>(&mut out, "zsq127", u); }
        for u in all_elems::<FDT127>() { swu_line::<ToyZ0x127>(&mut out, "z0x127", u); }
        for u in all_elems::<FDT127>() { swu_line::<ToyB0x127>(&mut out, "invb0", u); }
        for u in all_elems::<FDT127>() { swu_line::<ToyWb127>(&mut out, "inva0", u); }
        for u in all_elems::<FDT127>() { swu_line::<ToyTorsZsq127>(&mut out, "torszsq", u); }
        for u in all_elems::<FDT127>() { wb_line::<ToyIso2Pert127>(&mut out, "wbpert", u); }
        for u in all_elems::<FDT127>() { wb_line::<ToyIso2Zsq127>(&mut out, "wbswu", u); }
        for u in all_elems::<FDT127>() { wb_line::<ToyIso2Inf127>(&mut out, "wbid", u); }
        for u in all_elems::<FDT127>() { ell_line::<EllZsq127>(&mut out, "ezsq", u); }
        for u in all_elems::<FDT127>() { ell_line::<EllZ0x127>(&mut out, "ez0", u); }
        for u in all_elems::<FDT127>() { ell_line::<EllB0x127>(&mut out, "eb0", u); }
        for u in all_elems::<FDT101x>() { ell_line::<EllKsq101>(&mut out, "eksq", u); }
        for u in all_elems::<FDT101x>() { ell_line::<EllJonk101>(&mut out, "ejonk", u); }
    }
    out.flush();
}
