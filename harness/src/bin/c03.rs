//! C03: curve point operations (short Weierstrass / Jacobian, twisted Edwards / extended)
//! on toy curves declared here (exhaustive over all ordered pairs of points × rescalings)
//! and on shipped curves (structured inputs).
//!
//! Line format (see lean/Ark/Model/DrvC03.lean):
//!   C03 sw.<op> <fld> <a> <b> <mba> args… => result
//!   C03 te.<op> <fld> <a> <d> <mba> args… => result
//! Toy curve parameters (orders, generators, cofactors) were found by brute force
//! (python, see the table in the comments below) and are re-checked at start-up.
#![allow(dead_code, deprecated, non_camel_case_types)]
use ark_ec::{
    short_weierstrass as sw, twisted_edwards as te, AffineRepr, CurveConfig, CurveGroup, PrimeGroup,
};
use ark_ff::{
    AdditiveGroup, BigInteger, Field, Fp, Fp2, Fp2Config, Fp3, Fp3Config, MontBackend, MontConfig, MontFp, One,
    PrimeField, Zero,
};
use arkharness::util::*;
use arkharness::zoo::{FDT127, FDT13, FDT251, FDT257, FDT3, FDT5, FDT7};

// ---------------------------------------------------------------- toy scalar fields not in the zoo
macro_rules! tiny_field {
    ($cfg:ident, $ty:ident, $m:literal, $g:literal) => {
        #[derive(MontConfig)]
        #[modulus = $m]
        #[generator = $g]
        pub struct $cfg;
        pub type $ty = Fp<MontBackend<$cfg, 1>, 1>;
    };
}
tiny_field!(S11, F11, "11", "2");
tiny_field!(S17, F17, "17", "3");
tiny_field!(S31, F31, "31", "3");
tiny_field!(S37, F37, "37", "2");
tiny_field!(S43, F43, "43", "3");
tiny_field!(S59, F59, "59", "2");
tiny_field!(S193, F193, "193", "5");

// ---------------------------------------------------------------- toy extension fields
/// F_49 = F_7[u]/(u² + 1)
pub struct Q49;
impl Fp2Config for Q49 {
    type Fp = FDT7;
    const NONRESIDUE: FDT7 = MontFp!("6");
    const FROBENIUS_COEFF_FP2_C1: &'static [FDT7] = &[MontFp!("1"), MontFp!("6")];
}
pub type F49 = Fp2<Q49>;
/// F_169 = F_13[u]/(u² − 2)
pub struct Q169;
impl Fp2Config for Q169 {
    type Fp = FDT13;
    const NONRESIDUE: FDT13 = MontFp!("2");
    const FROBENIUS_COEFF_FP2_C1: &'static [FDT13] = &[MontFp!("1"), MontFp!("12")];
}
pub type F169 = Fp2<Q169>;
/// F_343 = F_7[u]/(u³ − 2)
pub struct C343;
impl Fp3Config for C343 {
    type Fp = FDT7;
    const NONRESIDUE: FDT7 = MontFp!("2");
    // 7³ − 1 = 2 · 171
    const TWO_ADICITY: u32 = 1;
    const TRACE_MINUS_ONE_DIV_TWO: &'static [u64] = &[85];
    // 3 is a quadratic non-residue; 3^171 = −1
    const QUADRATIC_NONRESIDUE_TO_T: Fp3<Self> = Fp3::<Self>::new(MontFp!("6"), MontFp!("0"), MontFp!("0"));
    const FROBENIUS_COEFF_FP3_C1: &'static [FDT7] = &[MontFp!("1"), MontFp!("4"), MontFp!("2")];
    const FROBENIUS_COEFF_FP3_C2: &'static [FDT7] = &[MontFp!("1"), MontFp!("2"), MontFp!("4")];
}
pub type F343 = Fp3<C343>;

// ---------------------------------------------------------------- toy curves
macro_rules! sw_curve {
    ($name:ident, $bf:ty, $sf:ty, $cof:expr, $cofinv:expr, $a:expr, $b:expr, $gx:expr, $gy:expr) => {
        pub struct $name;
        impl CurveConfig for $name {
            type BaseField = $bf;
            type ScalarField = $sf;
            const COFACTOR: &'static [u64] = &[$cof];
            const COFACTOR_INV: $sf = $cofinv;
        }
        impl sw::SWCurveConfig for $name {
            const COEFF_A: $bf = $a;
            const COEFF_B: $bf = $b;
            const GENERATOR: sw::Affine<Self> = sw::Affine::new_unchecked($gx, $gy);
        }
    };
}
macro_rules! te_curve {
    ($name:ident, $bf:ty, $sf:ty, $cof:expr, $cofinv:expr, $a:expr, $d:expr, $gx:expr, $gy:expr, $ma:expr, $mb:expr) => {
        pub struct $name;
        impl CurveConfig for $name {
            type BaseField = $bf;
            type ScalarField = $sf;
            const COFACTOR: &'static [u64] = &[$cof];
            const COFACTOR_INV: $sf = $cofinv;
        }
        impl te::TECurveConfig for $name {
            const COEFF_A: $bf = $a;
            const COEFF_D: $bf = $d;
            const GENERATOR: te::Affine<Self> = te::Affine::new_unchecked($gx, $gy);
            type MontCurveConfig = $name;
        }
        impl te::MontCurveConfig for $name {
            const COEFF_A: $bf = $ma;
            const COEFF_B: $bf = $mb;
            type TECurveConfig = $name;
        }
    };
}
macro_rules! m { ($s:literal) => { MontFp!($s) }; }
macro_rules! q { ($a:literal, $b:literal) => { Fp2::new(MontFp!($a), MontFp!($b)) }; }
macro_rules! c { ($a:literal, $b:literal, $c:literal) => { Fp3::new(MontFp!($a), MontFp!($b), MontFp!($c)) }; }

// name          field  a      b     order          r    h   2-torsion (y = 0) points
// SW13A         F_13   0      6     7              7    1   0
// SW13B         F_13   0      4     21             7    3   0
// SW13C         F_13   0      1     12             3    4   3
// SW13D         F_13   1      4     14             7    2   1
// SW13E         F_13   1      0     20             5    4   3   (b = 0)
// SW13F         F_13   1      6     13             13   1   0
// SW127A        F_127  0      3     127            127  1   0
// SW127B        F_127  0      5     148            37   4   3
// SW127C        F_127  1      2     136            17   8   3
// SW257A        F_257  0      1     258            43   6   1
// SW257B        F_257  -3     1     251            251  1   0
// SW49A         F_49   0      1     48             3    16  3
// SW49B         F_49   2+3u   4+u   44             11   4   3
// SW169A        F_169  0      u     193            193  1   0
// SW343A        F_343  0      3     364            13   28  3   (a = 0 over a cubic extension)
// SW343B        F_343  u      3     308            11   28  3
sw_curve!(SW13A, FDT13, FDT7, 1, m!("1"), m!("0"), m!("6"), m!("2"), m!("1"));
sw_curve!(SW13B, FDT13, FDT7, 3, m!("5"), m!("0"), m!("4"), m!("8"), m!("3"));
sw_curve!(SW13C, FDT13, FDT3, 4, m!("1"), m!("0"), m!("1"), m!("0"), m!("1"));
sw_curve!(SW13D, FDT13, FDT7, 2, m!("4"), m!("1"), m!("4"), m!("9"), m!("12"));
sw_curve!(SW13E, FDT13, FDT5, 4, m!("4"), m!("1"), m!("0"), m!("4"), m!("4"));
sw_curve!(SW13F, FDT13, FDT13, 1, m!("1"), m!("1"), m!("6"), m!("2"), m!("4"));
sw_curve!(SW127A, FDT127, FDT127, 1, m!("1"), m!("0"), m!("3"), m!("1"), m!("2"));
sw_curve!(SW127B, FDT127, F37, 4, m!("28"), m!("0"), m!("5"), m!("109"), m!("53"));
sw_curve!(SW127C, FDT127, F17, 8, m!("15"), m!("1"), m!("2"), m!("60"), m!("110"));
sw_curve!(SW257A, FDT257, F43, 6, m!("36"), m!("0"), m!("1"), m!("196"), m!("112"));
sw_curve!(SW257B, FDT257, FDT251, 1, m!("1"), m!("254"), m!("1"), m!("0"), m!("1"));
sw_curve!(SW49A, F49, FDT3, 16, m!("1"), q!("0", "0"), q!("1", "0"), q!("0", "0"), q!("1", "0"));
sw_curve!(SW49B, F49, F11, 4, m!("3"), q!("2", "3"), q!("4", "1"), q!("2", "6"), q!("1", "4"));
sw_curve!(SW169A, F169, F193, 1, m!("1"), q!("0", "0"), q!("0", "1"), q!("1", "0"), q!("4", "5"));
sw_curve!(SW343A, F343, FDT13, 28, m!("7"), c!("0", "0", "0"), c!("3", "0", "0"), c!("3", "0", "0"), c!("3", "0", "0"));
sw_curve!(SW343B, F343, F11, 28, m!("2"), c!("0", "1", "0"), c!("3", "0", "0"), c!("0", "0", "4"), c!("1", "0", "0"));

// name    field  a   d    complete  affine pts  group order  r   h
// TE13A   F_13   1   7    yes       20          20           5   4
// TE13B   F_13   1   6    yes       12          12           3   4
// TE13I   F_13   2   4    no (a non-square, d square)      18  20  5  4
// TE13J   F_13   2   11   no (a, d non-squares)            18  20  5  4
// TE127A  F_127  1   10   yes       124         124          31  4
// TE127I  F_127  -1  9    no (a non-square, d square)      122 124 31 4
// TE127S  F_127  1   9    no (a, d squares)                132 136 17 8
// TE257A  F_257  -1  19   yes       236         236          59  4
te_curve!(TE13A, FDT13, FDT5, 4, m!("4"), m!("1"), m!("7"), m!("2"), m!("9"), m!("6"), m!("8"));
te_curve!(TE13B, FDT13, FDT3, 4, m!("1"), m!("1"), m!("6"), m!("2"), m!("5"), m!("5"), m!("7"));
te_curve!(TE13I, FDT13, FDT5, 4, m!("4"), m!("2"), m!("4"), m!("1"), m!("3"), m!("7"), m!("11"));
te_curve!(TE13J, FDT13, FDT5, 4, m!("4"), m!("2"), m!("11"), m!("1"), m!("11"), m!("0"), m!("1"));
te_curve!(TE127A, FDT127, F31, 4, m!("8"), m!("1"), m!("10"), m!("2"), m!("71"), m!("54"), m!("56"));
te_curve!(TE127I, FDT127, F31, 4, m!("8"), m!("126"), m!("9"), m!("5"), m!("27"), m!("100"), m!("25"));
te_curve!(TE127S, FDT127, F17, 8, m!("15"), m!("1"), m!("9"), m!("7"), m!("70"), m!("61"), m!("63"));
te_curve!(TE257A, FDT257, F59, 4, m!("15"), m!("256"), m!("19"), m!("1"), m!("166"), m!("101"), m!("154"));

// ---------------------------------------------------------------- printing
fn fe<F: Field>(x: &F) -> String {
    x.to_base_prime_field_elements().map(|c| hex_limbs(c.into_bigint().as_ref())).collect::<Vec<_>>().join(".")
}
fn jac<P: sw::SWCurveConfig>(p: &sw::Projective<P>) -> String { format!("{}/{}/{}", fe(&p.x), fe(&p.y), fe(&p.z)) }
fn swaff<P: sw::SWCurveConfig>(a: &sw::Affine<P>) -> String {
    if a.infinity {
        if a.x.is_zero() && a.y.is_zero() { "inf".into() } else { format!("inf!{}/{}", fe(&a.x), fe(&a.y)) }
    } else { format!("{}/{}", fe(&a.x), fe(&a.y)) }
}
fn ext<P: te::TECurveConfig>(p: &te::Projective<P>) -> String { format!("{}/{}/{}/{}", fe(&p.x), fe(&p.y), fe(&p.t), fe(&p.z)) }
fn teaff<P: te::TECurveConfig>(a: &te::Affine<P>) -> String { format!("{}/{}", fe(&a.x), fe(&a.y)) }
fn list<T>(v: &[T], f: impl Fn(&T) -> String) -> String {
    if v.is_empty() { "_".into() } else { v.iter().map(|x| f(x)).collect::<Vec<_>>().join(",") }
}
fn b01(b: bool) -> String { if b { "1".into() } else { "0".into() } }

/// all elements of a toy field
fn field_elems<F: Field>() -> Vec<F> {
    let p = F::BasePrimeField::MODULUS.as_ref()[0];
    let k = F::extension_degree() as usize;
    let mut out = Vec::new();
    let total = (p as usize).pow(k as u32);
    for mut n in 0..total {
        let mut cs = Vec::with_capacity(k);
        for _ in 0..k { cs.push(F::BasePrimeField::from((n % p as usize) as u64)); n /= p as usize; }
        out.push(F::from_base_prime_field_elems(cs).unwrap());
    }
    out
}
fn small<F: Field>(cs: &[u64]) -> F {
    let k = F::extension_degree() as usize;
    F::from_base_prime_field_elems((0..k).map(|i| F::BasePrimeField::from(*cs.get(i).unwrap_or(&0)))).unwrap()
}
/// rescaling factors: 1, 2, a non-base element (or 5), −1, 5, 3, …
fn lambdas<F: Field>(n: usize, all: bool) -> Vec<F> {
    if all { return field_elems::<F>().into_iter().filter(|x| !x.is_zero()).collect(); }
    let k = F::extension_degree();
    let mut v: Vec<F> = vec![F::one(), small(&[2]), if k > 1 { small(&[3, 1, 2]) } else { small(&[5]) }, -F::one(), small(&[5, 0, 1]), small(&[3]), small(&[6, 2]), small(&[4])];
    v.dedup();
    let mut w: Vec<F> = Vec::new();
    for x in v { if !x.is_zero() && !w.contains(&x) { w.push(x); } }
    w.truncate(n);
    w
}
fn rand_elem<F: Field>(rng: &mut Rng) -> F {
    let k = F::extension_degree() as usize;
    let nl = F::BasePrimeField::MODULUS.as_ref().len();
    F::from_base_prime_field_elems((0..k).map(|_| {
        let bytes: Vec<u8> = (0..nl * 8 + 8).map(|_| rng.next() as u8).collect();
        F::BasePrimeField::from_le_bytes_mod_order(&bytes)
    })).unwrap()
}

#[derive(Clone, Copy, PartialEq)]
enum Mode { Exhaustive, Sampled(usize) }

// ================================================================ short Weierstrass
fn sw_pfx<P: sw::SWCurveConfig>(fld: &str, mba: &str) -> String {
    format!("{} {} {} {}", fld, fe(&P::COEFF_A), fe(&P::COEFF_B), mba)
}
/// brute-force point enumeration with plain field arithmetic (not `is_on_curve`)
fn sw_points<P: sw::SWCurveConfig>() -> Vec<sw::Affine<P>> {
    let els = field_elems::<P::BaseField>();
    let mut pts = Vec::new();
    for x in &els {
        let rhs = *x * x * x + P::COEFF_A * x + P::COEFF_B;
        for y in &els { if *y * y == rhs { pts.push(sw::Affine::<P>::new_unchecked(*x, *y)); } }
    }
    pts
}
fn sw_rescale<P: sw::SWCurveConfig>(a: &sw::Affine<P>, l: P::BaseField) -> sw::Projective<P> {
    let l2 = l * l;
    sw::Projective::new_unchecked(a.x * l2, a.y * l2 * l, l)
}

struct SwInputs<P: sw::SWCurveConfig> { affs: Vec<sw::Affine<P>>, reps: Vec<sw::Projective<P>>, affs_ext: Vec<sw::Affine<P>> }

fn sw_inputs<P: sw::SWCurveConfig>(affs: Vec<sw::Affine<P>>, ls: &[P::BaseField]) -> SwInputs<P> {
    let mut reps = Vec::new();
    // identity in several forms: canonical (1,1,0), (0,0,0), Z = 0 over a curve point, arbitrary X, Y
    reps.push(sw::Projective::<P>::zero());
    reps.push(sw::Projective::new_unchecked(P::BaseField::zero(), P::BaseField::zero(), P::BaseField::zero()));
    if let Some(a) = affs.first() { reps.push(sw::Projective::new_unchecked(a.x, a.y, P::BaseField::zero())); }
    reps.push(sw::Projective::new_unchecked(small(&[2, 1]), small(&[3]), P::BaseField::zero()));
    for a in &affs { for l in ls { reps.push(sw_rescale(a, *l)); } }
    let mut affs_ext = vec![sw::Affine::<P>::identity()];
    // infinity flag over non-zero placeholder coordinates (constructible through the public fields)
    affs_ext.push(sw::Affine::<P> { x: small(&[2]), y: small(&[3]), infinity: true });
    affs_ext.extend(affs.iter().cloned());
    SwInputs { affs, reps, affs_ext }
}

/// rotate through the receiver / operand-order variants of an operator (all must give the same point)
macro_rules! rot {
    ($cnt:expr; $($e:expr),+ $(,)?) => {{
        let alts: Vec<Box<dyn Fn() -> _>> = vec![$(Box::new(|| $e)),+];
        let k = ($cnt) % alts.len();
        (alts[k])()
    }};
}

fn sw_suite<P: sw::SWCurveConfig>(out: &mut Out, rng: &mut Rng, pfx: &str, inp: &SwInputs<P>, mode: Mode, sub_all: bool) {
    let reps = &inp.reps;
    let n = reps.len();
    let l = |op: &str, args: String| format!("C03 sw.{} {} {}", op, pfx, args);
    out.line(&l("const", "pzero".into()), &guarded(|| jac(&<sw::Projective<P> as ark_ff::Zero>::zero())));
    out.line(&l("const", "pdefault".into()), &guarded(|| jac(&sw::Projective::<P>::default())));
    out.line(&l("const", "azero".into()), &guarded(|| swaff(&<sw::Affine<P> as AffineRepr>::zero())));
    out.line(&l("const", "aident".into()), &guarded(|| swaff(&sw::Affine::<P>::identity())));
    out.line(&l("const", "adefault".into()), &guarded(|| swaff(&sw::Affine::<P>::default())));
    // ---- unary (sampled mode: a regular subset of the representatives)
    let ustep = match mode { Mode::Exhaustive => 1, Mode::Sampled(k) => (n / (150 + k / 20)).max(1) };
    for p in reps.iter().step_by(ustep) {
        let p = *p;
        out.line(&l("dbl", jac(&p)), &guarded(|| jac(&p.double())));
        out.line(&l("neg", jac(&p)), &guarded(|| jac(&(-p))));
        out.line(&l("iszero", jac(&p)), &guarded(|| b01(p.is_zero())));
        out.line(&l("toaffine", jac(&p)), &guarded(|| swaff(&p.into_affine())));
    }
    for a in inp.affs_ext.iter().step_by(ustep) {
        let a = *a;
        out.line(&l("fromaffine", swaff(&a)), &guarded(|| jac(&a.into_group())));
        out.line(&l("aneg", swaff(&a)), &guarded(|| swaff(&(-a))));
        out.line(&l("oncurve", swaff(&a)), &guarded(|| b01(a.is_on_curve())));
    }
    // ---- ordered pairs of representatives
    let mut pairs: Vec<(usize, usize)> = Vec::new();
    match mode {
        Mode::Exhaustive => { for i in 0..n { for j in 0..n { pairs.push((i, j)); } } }
        Mode::Sampled(k) => {
            for _ in 0..k { pairs.push((rng.below(n as u64) as usize, rng.below(n as u64) as usize)); }
            // structured: every representative with itself, with each identity form, and with every
            // representative of the same and of the opposite point
            let step = (n / (40 + k / 50)).max(1);
            for i in (0..n).step_by(step) {
                pairs.push((i, i));
                for z in 0..4.min(n) { if (i + z) % 2 == 0 { pairs.push((i, z)); } else { pairs.push((z, i)); } }
                for j in 0..n { if reps[i] == reps[j] || reps[i] == -reps[j] { pairs.push((i, j)); } }
            }
        }
    }
    for (cnt, &(i, j)) in pairs.iter().enumerate() {
        let (p, q) = (reps[i], reps[j]);
        let args = format!("{} {}", jac(&p), jac(&q));
        out.line(&l("add", args.clone()), &guarded(|| jac(&rot!(cnt / 3; p + q, p + &q, { let mut z = p; z += q; z }, { let mut z = p; z += &q; z }, { let mut w = q; p + &mut w }))));
        if sub_all || cnt % 4 == 0 { out.line(&l("sub", args.clone()), &guarded(|| jac(&rot!(cnt / 4; p - q, p - &q, { let mut z = p; z -= q; z }, { let mut z = p; z -= &q; z })))); }
        out.line(&l("eq", args), &guarded(|| b01(p == q)));
    }
    // ---- projective × affine
    let na = inp.affs_ext.len();
    let mut mp: Vec<(usize, usize)> = Vec::new();
    match mode {
        Mode::Exhaustive => { for i in 0..n { for j in 0..na { mp.push((i, j)); } } }
        Mode::Sampled(k) => {
            for _ in 0..k / 2 { mp.push((rng.below(n as u64) as usize, rng.below(na as u64) as usize)); }
            let step = (n / (40 + k / 50)).max(1);
            for i in (0..n).step_by(step) { for j in 0..na {
                let g = inp.affs_ext[j].into_group();
                if j < 2 || reps[i] == g || reps[i] == -g { mp.push((i, j)); }
            } }
            for i in 0..4.min(n) { for j in (0..na).step_by((na / 40).max(1)) { mp.push((i, j)); } }
        }
    }
    for (cnt, &(i, j)) in mp.iter().enumerate() {
        let (p, a) = (reps[i], inp.affs_ext[j]);
        let args = format!("{} {}", jac(&p), swaff(&a));
        out.line(&l("madd", args.clone()), &guarded(|| jac(&rot!(cnt / 3; p + a, p + &a, { let mut z = p; z += a; z }, { let mut z = p; z += &a; z }, a + p, a + &p))));
        if sub_all || cnt % 4 == 1 { out.line(&l("msub", args.clone()), &guarded(|| jac(&rot!(cnt / 4; p - a, p - &a, { let mut z = p; z -= a; z }, { let mut z = p; z -= &a; z })))); }
        // `Affine - Projective` is `a + (-p)`: the mixed addition of `-p` (whose negation is checked by `neg`) and `a`
        if cnt % 5 == 0 { let np = -p; out.line(&l("madd", format!("{} {}", jac(&np), swaff(&a))), &guarded(|| jac(&rot!(cnt / 5; a - p, a - &p)))); }
        if sub_all || cnt % 4 == 2 { out.line(&l("aeqp", format!("{} {}", swaff(&a), jac(&p))), &guarded(|| b01(a == p))); }
    }
    // ---- affine × affine
    let mut ap: Vec<(usize, usize)> = Vec::new();
    match mode {
        Mode::Exhaustive => { for i in 0..na { for j in 0..na { ap.push((i, j)); } } }
        Mode::Sampled(k) => {
            for _ in 0..k / 2 { ap.push((rng.below(na as u64) as usize, rng.below(na as u64) as usize)); }
            for i in (0..na).step_by((na / (40 + k / 50)).max(1)) { ap.push((i, i)); ap.push((i, 0)); ap.push((0, i)); ap.push((1, i));
                let m = -inp.affs_ext[i];
                if let Some(j) = inp.affs_ext.iter().position(|x| *x == m) { ap.push((i, j)); } }
        }
    }
    for (cnt, &(i, j)) in ap.iter().enumerate() {
        let (a, b) = (inp.affs_ext[i], inp.affs_ext[j]);
        let args = format!("{} {}", swaff(&a), swaff(&b));
        out.line(&l("aadd", args.clone()), &guarded(|| jac(&rot!(cnt / 3; a + b, a + &b))));
        if sub_all || cnt % 4 == 3 { out.line(&l("asub", args), &guarded(|| jac(&rot!(cnt / 4; a - b, a - &b)))); }
    }
    // ---- lists
    let nl = match mode { Mode::Exhaustive => 40, Mode::Sampled(k) => (k / 20).max(12) };
    for t in 0..nl {
        let len = match t { 0 => 0, 1 => 1, 2 => 2, _ => 1 + rng.below(7) as usize };
        let mut v: Vec<sw::Projective<P>> = (0..len).map(|_| reps[rng.below(n as u64) as usize]).collect();
        if len >= 2 && t % 3 == 0 { v[1] = reps[rng.below(4.min(n) as u64) as usize]; }        // an identity inside
        if len >= 3 && t % 4 == 0 { v[2] = v[0]; }                                          // equal → doubling in sum
        if len >= 3 && t % 4 == 1 { v[2] = -v[0]; }
        if t == 3 { v = vec![reps[0]; 3]; }                                                 // all zeros
        let vv = v.clone();
        out.line(&l("batchnorm", list(&v, jac)), &guarded(move || list(&sw::Projective::<P>::normalize_batch(&vv), swaff)));
        let vv = v.clone();
        out.line(&l("sumproj", list(&v, jac)), &guarded(move || jac(&vv.iter().sum::<sw::Projective<P>>())));
        let mut w: Vec<sw::Affine<P>> = (0..len).map(|_| inp.affs_ext[rng.below(na as u64) as usize]).collect();
        if len >= 2 && t % 4 == 0 { w[1] = w[0]; }
        if len >= 2 && t % 4 == 1 { w[1] = -w[0]; }
        let ww = w.clone();
        out.line(&l("sumaff", list(&w, swaff)), &guarded(move || jac(&ww.iter().sum::<sw::Projective<P>>())));
    }
    // ---- mul_by_a
    for e in [P::BaseField::zero(), P::BaseField::one(), small(&[2, 5, 1]), rand_elem::<P::BaseField>(rng)] {
        out.line(&l("mulbya", fe(&e)), &guarded(|| fe(&P::mul_by_a(e))));
    }
}

/// is_on_curve on arbitrary (x, y): all pairs for tiny fields, else curve points perturbed
fn sw_oncurve<P: sw::SWCurveConfig>(out: &mut Out, rng: &mut Rng, pfx: &str, affs: &[sw::Affine<P>], all: bool) {
    let l = |args: String| format!("C03 sw.oncurve {} {}", pfx, args);
    if all {
        let els = field_elems::<P::BaseField>();
        for x in &els { for y in &els {
            let a = sw::Affine::<P>::new_unchecked(*x, *y);
            out.line(&l(swaff(&a)), &guarded(|| b01(a.is_on_curve())));
        } }
    } else {
        for _ in 0..40 {
            let mut a = affs[rng.below(affs.len() as u64) as usize];
            match rng.below(3) { 0 => a.x += P::BaseField::one(), 1 => a.y = -a.y + P::BaseField::one(), _ => a.y = rand_elem(rng) }
            out.line(&l(swaff(&a)), &guarded(|| b01(a.is_on_curve())));
        }
    }
}

/// toy curve: all points, start-up sanity checks of the hard-coded parameters
fn sw_toy<P: sw::SWCurveConfig>(out: &mut Out, rng: &mut Rng, a: &arkharness::Args, name: &str, fld: &str, order: usize, nz: usize, all_l: bool, mode: Mode, sub_all: bool, oncurve_all: bool) {
    if let Some(o) = &a.only { if o != name { return; } }
    let pts = sw_points::<P>();
    assert_eq!(pts.len() + 1, order, "{}: group order", name);
    assert!(pts.contains(&P::GENERATOR), "{}: generator on curve", name);
    let pfx = sw_pfx::<P>(fld, "d");
    let inp = sw_inputs::<P>(pts, &lambdas::<P::BaseField>(nz, all_l));
    sw_suite::<P>(out, rng, &pfx, &inp, mode, sub_all);
    sw_oncurve::<P>(out, rng, &pfx, &inp.affs, oncurve_all);
}

/// shipped curve: generator multiples, their negatives, points outside the prime-order subgroup
fn sw_real<P: sw::SWCurveConfig>(out: &mut Out, rng: &mut Rng, a: &arkharness::Args, name: &str, fld: &str, mba: &str) {
    if let Some(o) = &a.only { if o != name { return; } }
    let g = sw::Projective::<P>::generator();
    let mut ks: Vec<Vec<u64>> = vec![vec![1], vec![2], vec![3], vec![5]];
    let mut rm1 = P::ScalarField::MODULUS; rm1.sub_with_borrow(&<P::ScalarField as PrimeField>::BigInt::from(1u64));
    let mut rm2 = rm1; rm2.sub_with_borrow(&<P::ScalarField as PrimeField>::BigInt::from(1u64));
    ks.push(rm1.as_ref().to_vec());          // −G
    ks.push(rm2.as_ref().to_vec());          // −2G
    let nrand = if a.thorough { 6 } else { 2 };
    for _ in 0..nrand { ks.push((0..rm1.as_ref().len()).map(|_| rng.next()).collect()); }
    let mut affs: Vec<sw::Affine<P>> = Vec::new();
    for k in &ks {
        let p = g.mul_bigint(k).into_affine();
        if p.is_on_curve() && !p.infinity && !affs.contains(&p) { affs.push(p); }
    }
    // points of the curve outside the subgroup (when the cofactor is not one): x = 0, 1, 2, …
    let mut found = 0;
    for i in 0..40u64 {
        if found >= 2 { break; }
        let x: P::BaseField = small(&[i, if P::BaseField::extension_degree() > 1 { 1 } else { 0 }]);
        if let Some(p) = sw::Affine::<P>::get_point_from_x_unchecked(x, i % 2 == 0) {
            if p.is_on_curve() && !affs.contains(&p) { affs.push(p); found += 1; }
        }
    }
    let pfx = sw_pfx::<P>(fld, mba);
    let ls: Vec<P::BaseField> = if a.thorough { vec![P::BaseField::one(), small(&[2]), -P::BaseField::one(), rand_elem(rng)] } else { vec![P::BaseField::one(), rand_elem(rng)] };
    let inp = sw_inputs::<P>(affs, &ls);
    sw_suite::<P>(out, rng, &pfx, &inp, Mode::Exhaustive, a.thorough);
    sw_oncurve::<P>(out, rng, &pfx, &inp.affs, false);
}

// ================================================================ twisted Edwards
fn te_pfx<P: te::TECurveConfig>(fld: &str, mba: &str) -> String {
    format!("{} {} {} {}", fld, fe(&P::COEFF_A), fe(&P::COEFF_D), mba)
}
fn te_points<P: te::TECurveConfig>() -> Vec<te::Affine<P>> {
    let els = field_elems::<P::BaseField>();
    let mut pts = Vec::new();
    for x in &els { for y in &els {
        let (x2, y2) = (*x * x, *y * y);
        if P::COEFF_A * x2 + y2 == P::BaseField::one() + P::COEFF_D * x2 * y2 { pts.push(te::Affine::<P>::new_unchecked(*x, *y)); }
    } }
    pts
}
/// the affine Edwards law with plain field arithmetic (input generation only); None when undefined
fn te_plain_add<P: te::TECurveConfig>(p: &te::Affine<P>, q: &te::Affine<P>) -> Option<te::Affine<P>> {
    let k = P::COEFF_D * p.x * q.x * p.y * q.y;
    let d1 = (P::BaseField::one() + k).inverse()?;
    let d2 = (P::BaseField::one() - k).inverse()?;
    Some(te::Affine::new_unchecked((p.x * q.y + p.y * q.x) * d1, (p.y * q.y - P::COEFF_A * p.x * q.x) * d2))
}
/// multiples of a point (the cyclic subgroup it generates), identity first
fn te_subgroup<P: te::TECurveConfig>(g: &te::Affine<P>, max: usize) -> Vec<te::Affine<P>> {
    let mut v = vec![te::Affine::<P>::zero()];
    let mut cur = *g;
    while !cur.is_zero() && v.len() <= max {
        v.push(cur);
        cur = te_plain_add(&cur, g).expect("law defined on the odd-order subgroup");
    }
    v
}
fn te_rescale<P: te::TECurveConfig>(a: &te::Affine<P>, l: P::BaseField) -> te::Projective<P> {
    te::Projective::new_unchecked(a.x * l, a.y * l, a.x * a.y * l, l)
}
struct TeInputs<P: te::TECurveConfig> { affs: Vec<te::Affine<P>>, reps: Vec<te::Projective<P>> }
fn te_inputs<P: te::TECurveConfig>(affs: Vec<te::Affine<P>>, ls: &[P::BaseField]) -> TeInputs<P> {
    let mut reps = Vec::new();
    // identity first (canonical and rescaled forms (0, λ, 0, λ) come from the loop as affs[0] = (0,1))
    for a in &affs { for l in ls { reps.push(te_rescale(a, *l)); } }
    TeInputs { affs, reps }
}

fn te_suite<P: te::TECurveConfig>(out: &mut Out, rng: &mut Rng, pfx: &str, inp: &TeInputs<P>, mode: Mode, sub_all: bool) {
    let reps = &inp.reps;
    let n = reps.len();
    let l = |op: &str, args: String| format!("C03 te.{} {} {}", op, pfx, args);
    out.line(&l("const", "pzero".into()), &guarded(|| ext(&<te::Projective<P> as ark_ff::Zero>::zero())));
    out.line(&l("const", "pdefault".into()), &guarded(|| ext(&te::Projective::<P>::default())));
    out.line(&l("const", "azero".into()), &guarded(|| teaff(&<te::Affine<P> as AffineRepr>::zero())));
    out.line(&l("const", "adefault".into()), &guarded(|| teaff(&te::Affine::<P>::default())));
    let ustep = match mode { Mode::Exhaustive => 1, Mode::Sampled(k) => (n / (150 + k / 20)).max(1) };
    for p in reps.iter().step_by(ustep) {
        let p = *p;
        out.line(&l("dbl", ext(&p)), &guarded(|| ext(&p.double())));
        out.line(&l("neg", ext(&p)), &guarded(|| ext(&(-p))));
        out.line(&l("iszero", ext(&p)), &guarded(|| b01(p.is_zero())));
        out.line(&l("toaffine", ext(&p)), &guarded(|| teaff(&p.into_affine())));
    }
    for a in inp.affs.iter().step_by(ustep) {
        let a = *a;
        out.line(&l("fromaffine", teaff(&a)), &guarded(|| ext(&a.into_group())));
        out.line(&l("aneg", teaff(&a)), &guarded(|| teaff(&(-a))));
        out.line(&l("oncurve", teaff(&a)), &guarded(|| b01(a.is_on_curve())));
    }
    let mut pairs: Vec<(usize, usize)> = Vec::new();
    match mode {
        Mode::Exhaustive => { for i in 0..n { for j in 0..n { pairs.push((i, j)); } } }
        Mode::Sampled(k) => {
            for _ in 0..k { pairs.push((rng.below(n as u64) as usize, rng.below(n as u64) as usize)); }
            let nl = n / inp.affs.len().max(1);
            let step = (n / (40 + k / 50)).max(1);
            for i in (0..n).step_by(step) {
                pairs.push((i, i));
                for z in 0..nl.min(n) { if (i + z) % 2 == 0 { pairs.push((i, z)); } else { pairs.push((z, i)); } }
                for j in 0..n { if reps[i] == reps[j] || reps[i] == -reps[j] { pairs.push((i, j)); } }
            }
        }
    }
    for (cnt, &(i, j)) in pairs.iter().enumerate() {
        let (p, q) = (reps[i], reps[j]);
        let args = format!("{} {}", ext(&p), ext(&q));
        out.line(&l("add", args.clone()), &guarded(|| ext(&rot!(cnt / 3; p + q, p + &q, { let mut z = p; z += q; z }, { let mut z = p; z += &q; z }, { let mut w = q; p + &mut w }))));
        if sub_all || cnt % 4 == 0 { out.line(&l("sub", args.clone()), &guarded(|| ext(&rot!(cnt / 4; p - q, p - &q, { let mut z = p; z -= q; z }, { let mut z = p; z -= &q; z })))); }
        out.line(&l("eq", args), &guarded(|| b01(p == q)));
    }
    let na = inp.affs.len();
    let mut mp: Vec<(usize, usize)> = Vec::new();
    match mode {
        Mode::Exhaustive => { for i in 0..n { for j in 0..na { mp.push((i, j)); } } }
        Mode::Sampled(k) => {
            for _ in 0..k / 2 { mp.push((rng.below(n as u64) as usize, rng.below(na as u64) as usize)); }
            let step = (n / (40 + k / 50)).max(1);
            for i in (0..n).step_by(step) { for j in 0..na {
                let g = inp.affs[j].into_group();
                if j < 1 || reps[i] == g || reps[i] == -g { mp.push((i, j)); }
            } }
        }
    }
    for (cnt, &(i, j)) in mp.iter().enumerate() {
        let (p, a) = (reps[i], inp.affs[j]);
        let args = format!("{} {}", ext(&p), teaff(&a));
        out.line(&l("madd", args.clone()), &guarded(|| ext(&rot!(cnt / 3; p + a, p + &a, { let mut z = p; z += a; z }, { let mut z = p; z += &a; z }, a + p, a + &p))));
        if sub_all || cnt % 4 == 1 { out.line(&l("msub", args.clone()), &guarded(|| ext(&rot!(cnt / 4; p - a, p - &a, { let mut z = p; z -= a; z }, { let mut z = p; z -= &a; z })))); }
        if cnt % 5 == 0 { let np = -p; out.line(&l("madd", format!("{} {}", ext(&np), teaff(&a))), &guarded(|| ext(&rot!(cnt / 5; a - p, a - &p)))); }
        if sub_all || cnt % 4 == 2 { out.line(&l("aeqp", format!("{} {}", teaff(&a), ext(&p))), &guarded(|| b01(a == p))); }
    }
    let mut ap: Vec<(usize, usize)> = Vec::new();
    match mode {
        Mode::Exhaustive => { for i in 0..na { for j in 0..na { ap.push((i, j)); } } }
        Mode::Sampled(k) => {
            for _ in 0..k / 2 { ap.push((rng.below(na as u64) as usize, rng.below(na as u64) as usize)); }
            for i in (0..na).step_by((na / (40 + k / 50)).max(1)) { ap.push((i, i)); ap.push((i, 0)); ap.push((0, i));
                let m = -inp.affs[i];
                if let Some(j) = inp.affs.iter().position(|x| *x == m) { ap.push((i, j)); } }
        }
    }
    for (cnt, &(i, j)) in ap.iter().enumerate() {
        let (a, b) = (inp.affs[i], inp.affs[j]);
        let args = format!("{} {}", teaff(&a), teaff(&b));
        out.line(&l("aadd", args.clone()), &guarded(|| ext(&rot!(cnt / 3; a + b, a + &b))));
        if sub_all || cnt % 4 == 3 { out.line(&l("asub", args), &guarded(|| ext(&rot!(cnt / 4; a - b, a - &b)))); }
    }
    let nl = match mode { Mode::Exhaustive => 40, Mode::Sampled(k) => (k / 20).max(12) };
    for t in 0..nl {
        let len = match t { 0 => 0, 1 => 1, 2 => 2, _ => 1 + rng.below(7) as usize };
        let mut v: Vec<te::Projective<P>> = (0..len).map(|_| reps[rng.below(n as u64) as usize]).collect();
        if len >= 2 && t % 3 == 0 { v[1] = reps[rng.below((n / na.max(1)).max(1) as u64) as usize]; }   // an identity form
        if len >= 3 && t % 4 == 0 { v[2] = v[0]; }
        if len >= 3 && t % 4 == 1 { v[2] = -v[0]; }
        let vv = v.clone();
        out.line(&l("batchnorm", list(&v, ext)), &guarded(move || list(&te::Projective::<P>::normalize_batch(&vv), teaff)));
        let vv = v.clone();
        out.line(&l("sumproj", list(&v, ext)), &guarded(move || ext(&vv.iter().sum::<te::Projective<P>>())));
        let mut w: Vec<te::Affine<P>> = (0..len).map(|_| inp.affs[rng.below(na as u64) as usize]).collect();
        if len >= 2 && t % 4 == 0 { w[1] = w[0]; }
        if len >= 2 && t % 4 == 1 { w[1] = -w[0]; }
        let ww = w.clone();
        out.line(&l("sumaff", list(&w, teaff)), &guarded(move || ext(&ww.iter().sum::<te::Projective<P>>())));
    }
    for e in [P::BaseField::zero(), P::BaseField::one(), small(&[2, 5, 1]), rand_elem::<P::BaseField>(rng)] {
        out.line(&l("mulbya", fe(&e)), &guarded(|| fe(&P::mul_by_a(e))));
    }
}
fn te_oncurve<P: te::TECurveConfig>(out: &mut Out, rng: &mut Rng, pfx: &str, affs: &[te::Affine<P>], all: bool) {
    let l = |args: String| format!("C03 te.oncurve {} {}", pfx, args);
    if all {
        let els = field_elems::<P::BaseField>();
        for x in &els { for y in &els {
            let a = te::Affine::<P>::new_unchecked(*x, *y);
            out.line(&l(teaff(&a)), &guarded(|| b01(a.is_on_curve())));
        } }
    } else {
        for _ in 0..40 {
            let mut a = affs[rng.below(affs.len() as u64) as usize];
            match rng.below(3) { 0 => a.x += P::BaseField::one(), 1 => a.y = -a.y + P::BaseField::one(), _ => a.y = rand_elem(rng) }
            out.line(&l(teaff(&a)), &guarded(|| b01(a.is_on_curve())));
        }
    }
}
/// toy curve; `complete` = (a square, d non-square): the whole curve, otherwise the odd-order subgroup ⟨G⟩
fn te_toy<P: te::TECurveConfig>(out: &mut Out, rng: &mut Rng, a: &arkharness::Args, name: &str, fld: &str, affine_pts: usize, r: usize, complete: bool, nz: usize, all_l: bool, mode: Mode, sub_all: bool, oncurve_all: bool) {
    if let Some(o) = &a.only { if o != name { return; } }
    let all = te_points::<P>();
    assert_eq!(all.len(), affine_pts, "{}: number of affine points", name);
    assert!(all.contains(&P::GENERATOR), "{}: generator on curve", name);
    // completeness as stated: a is a square and d is not (Euler criterion by exhaustive search)
    let els = field_elems::<P::BaseField>();
    let is_sq = |v: P::BaseField| els.iter().any(|x| *x * x == v);
    assert_eq!(complete, is_sq(P::COEFF_A) && !is_sq(P::COEFF_D), "{}: completeness flag", name);
    let sub = te_subgroup::<P>(&P::GENERATOR, 4 * affine_pts);
    assert_eq!(sub.len(), r, "{}: order of the generator", name);
    let mut pts = if complete { all } else { sub };
    // identity first
    let z = te::Affine::<P>::zero();
    pts.retain(|p| *p != z); pts.insert(0, z);
    let pfx = te_pfx::<P>(fld, "d");
    let inp = te_inputs::<P>(pts, &lambdas::<P::BaseField>(nz, all_l));
    te_suite::<P>(out, rng, &pfx, &inp, mode, sub_all);
    te_oncurve::<P>(out, rng, &pfx, &inp.affs, oncurve_all);
}
fn te_real<P: te::TECurveConfig>(out: &mut Out, rng: &mut Rng, a: &arkharness::Args, name: &str, fld: &str, mba: &str) {
    if let Some(o) = &a.only { if o != name { return; } }
    let g = te::Projective::<P>::generator();
    let mut ks: Vec<Vec<u64>> = vec![vec![1], vec![2], vec![3], vec![5]];
    let mut rm1 = P::ScalarField::MODULUS; rm1.sub_with_borrow(&<P::ScalarField as PrimeField>::BigInt::from(1u64));
    let mut rm2 = rm1; rm2.sub_with_borrow(&<P::ScalarField as PrimeField>::BigInt::from(1u64));
    ks.push(rm1.as_ref().to_vec());
    ks.push(rm2.as_ref().to_vec());
    let nrand = if a.thorough { 6 } else { 2 };
    for _ in 0..nrand { ks.push((0..rm1.as_ref().len()).map(|_| rng.next()).collect()); }
    let mut affs: Vec<te::Affine<P>> = vec![te::Affine::<P>::zero()];
    for k in &ks {
        let p = g.mul_bigint(k).into_affine();
        if p.is_on_curve() && !affs.contains(&p) { affs.push(p); }
    }
    // the curve is complete (a square, d non-square): points outside the prime-order subgroup are in scope:
    // (0, −1) of order two, and points recovered from small y
    affs.push(te::Affine::<P>::new_unchecked(P::BaseField::zero(), -P::BaseField::one()));
    let mut found = 0;
    for i in 2..40u64 {
        if found >= 2 { break; }
        if let Some(p) = te::Affine::<P>::get_point_from_y_unchecked(small(&[i]), i % 2 == 0) {
            if p.is_on_curve() && !affs.contains(&p) { affs.push(p); found += 1; }
        }
    }
    let pfx = te_pfx::<P>(fld, mba);
    let ls: Vec<P::BaseField> = if a.thorough { vec![P::BaseField::one(), small(&[2]), -P::BaseField::one(), rand_elem(rng)] } else { vec![P::BaseField::one(), rand_elem(rng)] };
    let inp = te_inputs::<P>(affs, &ls);
    te_suite::<P>(out, rng, &pfx, &inp, Mode::Exhaustive, a.thorough);
    te_oncurve::<P>(out, rng, &pfx, &inp.affs, false);
}

fn hexp<F: PrimeField>() -> String { hex_limbs(F::MODULUS.as_ref()) }

fn main() {
    let a = arkharness::args();
    let mut rng = Rng::new(a.seed);
    let mut out = Out::new();
    let (o, r) = (&mut out, &mut rng);
    let th = a.thorough;
    use Mode::*;
    // sw_toy(…, name, field, group order, #rescalings λ, all λ ∈ F*?, pair mode, sub/msub/asub on every pair?, is_on_curve on all (x, y)?)
    // te_toy(…, name, field, #affine points, r, complete?, #rescalings λ, all λ?, pair mode, sub on every pair?, is_on_curve on all (x, y)?)
    // ---- toy short-Weierstrass curves over F_13: exhaustive in both tiers (thorough: every λ ∈ F_13*)
    sw_toy::<SW13A>(o, r, &a, "SW13A", "d", 7, 3, th, Exhaustive, true, true);
    sw_toy::<SW13B>(o, r, &a, "SW13B", "d", 21, if th { 6 } else { 3 }, false, Exhaustive, th, true);
    sw_toy::<SW13C>(o, r, &a, "SW13C", "d", 12, 3, th, Exhaustive, true, true);
    sw_toy::<SW13D>(o, r, &a, "SW13D", "d", 14, 3, th, Exhaustive, true, true);
    sw_toy::<SW13E>(o, r, &a, "SW13E", "d", 20, if th { 6 } else { 3 }, false, Exhaustive, th, true);
    sw_toy::<SW13F>(o, r, &a, "SW13F", "d", 13, 3, th, Exhaustive, th, true);
    // ---- extension fields (SW49A exhaustive in both tiers)
    sw_toy::<SW49A>(o, r, &a, "SW49A", "7:2:6", 48, if th { 3 } else { 2 }, false, Exhaustive, th, true);
    sw_toy::<SW49B>(o, r, &a, "SW49B", "7:2:6", 44, if th { 3 } else { 2 }, false, if th { Exhaustive } else { Sampled(600) }, th, th);
    sw_toy::<SW169A>(o, r, &a, "SW169A", "d:2:2", 193, 2, false, if th { Sampled(30000) } else { Sampled(800) }, false, false);
    sw_toy::<SW343A>(o, r, &a, "SW343A", "7:3:2", 364, 2, false, if th { Sampled(30000) } else { Sampled(1200) }, false, false);
    sw_toy::<SW343B>(o, r, &a, "SW343B", "7:3:2", 308, 2, false, if th { Sampled(15000) } else { Sampled(600) }, false, false);
    // ---- larger prime fields
    sw_toy::<SW127A>(o, r, &a, "SW127A", "7f", 127, 3, false, if th { Sampled(15000) } else { Sampled(600) }, false, false);
    sw_toy::<SW127B>(o, r, &a, "SW127B", "7f", 148, 2, false, if th { Exhaustive } else { Sampled(600) }, false, false);
    sw_toy::<SW127C>(o, r, &a, "SW127C", "7f", 136, 3, false, if th { Sampled(15000) } else { Sampled(600) }, false, false);
    sw_toy::<SW257A>(o, r, &a, "SW257A", "101", 258, 2, false, if th { Sampled(12000) } else { Sampled(600) }, false, false);
    sw_toy::<SW257B>(o, r, &a, "SW257B", "101", 251, 2, false, if th { Sampled(12000) } else { Sampled(600) }, false, false);
    // ---- toy twisted-Edwards curves: complete ones on the whole curve, incomplete ones on ⟨G⟩ (odd prime order)
    te_toy::<TE13A>(o, r, &a, "TE13A", "d", 20, 5, true, if th { 6 } else { 3 }, false, Exhaustive, th, true);
    te_toy::<TE13B>(o, r, &a, "TE13B", "d", 12, 3, true, 3, th, Exhaustive, true, true);
    te_toy::<TE13I>(o, r, &a, "TE13I", "d", 18, 5, false, 4, th, Exhaustive, true, true);
    te_toy::<TE13J>(o, r, &a, "TE13J", "d", 18, 5, false, 4, th, Exhaustive, true, true);
    te_toy::<TE127A>(o, r, &a, "TE127A", "7f", 124, 31, true, if th { 2 } else { 3 }, false, if th { Exhaustive } else { Sampled(800) }, false, false);
    te_toy::<TE127I>(o, r, &a, "TE127I", "7f", 122, 31, false, if th { 4 } else { 2 }, false, Exhaustive, th, false);
    te_toy::<TE127S>(o, r, &a, "TE127S", "7f", 132, 17, false, if th { 4 } else { 2 }, false, Exhaustive, true, false);
    te_toy::<TE257A>(o, r, &a, "TE257A", "101", 236, 59, true, 3, false, if th { Sampled(25000) } else { Sampled(800) }, false, false);
    // ---- shipped curves
    use ark_test_curves::{bls12_381, ed_on_bls12_381, mnt4_753, secp256k1, bn384_small_two_adicity as bn384};
    sw_real::<bls12_381::g1::Config>(o, r, &a, "bls12_381_g1", &hexp::<bls12_381::Fq>(), "z");
    let fq2 = format!("{}:2:{}", hexp::<bls12_381::Fq>(), fe(&<bls12_381::Fq2Config as Fp2Config>::NONRESIDUE));
    sw_real::<bls12_381::g2::Config>(o, r, &a, "bls12_381_g2", &fq2, "z");
    sw_real::<secp256k1::Config>(o, r, &a, "secp256k1", &hexp::<secp256k1::Fq>(), "z");
    sw_real::<mnt4_753::g1::Config>(o, r, &a, "mnt4_753_g1", &hexp::<mnt4_753::Fq>(), "d");
    sw_real::<bn384::g1::Config>(o, r, &a, "bn384_g1", &hexp::<bn384::Fq>(), "z");
    te_real::<ed_on_bls12_381::EdwardsConfig>(o, r, &a, "ed_on_bls12_381", &hexp::<ed_on_bls12_381::Fq>(), "n");
    out.flush();
}
