//! C08: dense / sparse univariate polynomial arithmetic of ark-poly.
//!
//! Line protocol: `C08 <op> <p> <args…> => <result>`; `p` = field modulus (hex); a dense polynomial is
//! the comma-separated `coeffs` Vec exactly as stored (`_` = empty); a sparse polynomial is
//! `deg:coeff,…` in stored order; a domain is `<size> <group_gen> <coset_offset>`.
//! Results are printed in the exact stored representation, or `panic`.
#![allow(dead_code, deprecated)]
use ark_ff::{PrimeField, Zero};
use ark_poly::{
    univariate::{DenseOrSparsePolynomial, DensePolynomial, SparsePolynomial},
    DenseUVPolynomial, EvaluationDomain, Evaluations, Polynomial, Radix2EvaluationDomain,
};
use ark_serialize::{CanonicalDeserialize, CanonicalSerialize, Compress, Validate};
use arkharness::util::*;
use arkharness::zoo::{FDT13, FDT5, FDT7};
use num_bigint::BigUint;

/// `rand::RngCore` over the harness' SplitMix64 (for `DenseUVPolynomial::rand`): seeded, reproducible
struct SeedRng(Rng);
impl ark_std::rand::RngCore for SeedRng {
    fn next_u32(&mut self) -> u32 { self.0.next() as u32 }
    fn next_u64(&mut self) -> u64 { self.0.next() }
    fn fill_bytes(&mut self, dest: &mut [u8]) {
        for c in dest.chunks_mut(8) { let w = self.0.next().to_le_bytes(); let l = c.len(); c.copy_from_slice(&w[..l]); }
    }
    fn try_fill_bytes(&mut self, dest: &mut [u8]) -> Result<(), ark_std::rand::Error> { self.fill_bytes(dest); Ok(()) }
}

type Dom<F> = Radix2EvaluationDomain<F>;
type Terms<F> = Vec<(usize, F)>;

fn hx<F: PrimeField>(x: &F) -> String { let b: BigUint = (*x).into(); b.to_str_radix(16) }
fn shd<F: PrimeField>(v: &[F]) -> String {
    if v.is_empty() { return "_".into(); }
    v.iter().map(hx).collect::<Vec<_>>().join(",")
}
fn shs<F: PrimeField>(v: &[(usize, F)]) -> String {
    if v.is_empty() { return "_".into(); }
    v.iter().map(|(d, c)| format!("{:x}:{}", d, hx(c))).collect::<Vec<_>>().join(",")
}
fn shdom<F: PrimeField>(d: &Dom<F>) -> String { format!("{:x} {} {}", d.size(), hx(&d.group_gen()), hx(&d.coset_offset())) }
fn dp<F: PrimeField>(v: &[F]) -> DensePolynomial<F> { DensePolynomial { coeffs: v.to_vec() } }
fn sp<F: PrimeField>(raw: &[(usize, F)]) -> Option<SparsePolynomial<F>> {
    let r = raw.to_vec();
    std::panic::catch_unwind(std::panic::AssertUnwindSafe(move || SparsePolynomial::from_coefficients_vec(r))).ok()
}
fn qr<F: PrimeField>(x: Option<(DensePolynomial<F>, DensePolynomial<F>)>) -> String {
    match x { Some((q, r)) => format!("{} {}", shd(&q.coeffs), shd(&r.coeffs)), None => "none".into() }
}
fn canon<F: PrimeField>(v: &[F]) -> bool { v.last().map_or(true, |c| !c.is_zero()) }

struct Cx<'a> { out: &'a mut Out, p: String }
impl<'a> Cx<'a> {
    fn emit(&mut self, op: &str, args: &str, res: String) {
        self.out.line(&format!("C08 {} {} {}", op, self.p, args), &res);
    }
}

// ------------------------------------------------------------------ op groups
/// unary dense ops on the stored vector `a`
fn d_unary<F: PrimeField>(c: &mut Cx, a: &[F]) {
    let s = shd(a);
    c.emit("dfrom", &s, guarded(|| shd(&DensePolynomial::from_coefficients_vec(a.to_vec()).coeffs)));
    c.emit("dfroms", &s, guarded(|| shd(&DensePolynomial::from_coefficients_slice(a).coeffs)));
    c.emit("ddeg", &s, guarded(|| format!("{:x}", dp(a).degree())));
    c.emit("dzero", &s, guarded(|| (if dp(a).is_zero() { "1" } else { "0" }).to_string()));
    c.emit("dneg", &s, guarded(|| shd(&(-dp(a)).coeffs)));
    c.emit("d2s", &s, guarded(|| shs(&SparsePolynomial::from(dp(a)).to_vec())));
}
fn d_eval<F: PrimeField>(c: &mut Cx, a: &[F], x: &F) {
    c.emit("deval", &format!("{} {}", shd(a), hx(x)), guarded(|| hx(&dp(a).evaluate(x))));
}
fn d_scale<F: PrimeField>(c: &mut Cx, a: &[F], f: &F) {
    let args = format!("{} {}", shd(a), hx(f));
    c.emit("dscale", &args, guarded(|| shd(&(&dp(a) * *f).coeffs)));
    c.emit("dscalev", &args, guarded(|| shd(&(dp(a) * *f).coeffs)));
}
/// the four "core" binary dense ops
fn dd_core<F: PrimeField>(c: &mut Cx, a: &[F], b: &[F]) {
    let args = format!("{} {}", shd(a), shd(b));
    let (pa, pb) = (dp(a), dp(b));
    c.emit("dadd", &args, guarded(|| shd(&(&pa + &pb).coeffs)));
    c.emit("dsub", &args, guarded(|| shd(&(&pa - &pb).coeffs)));
    c.emit("dnmul", &args, guarded(|| shd(&pa.naive_mul(&pb).coeffs)));
    c.emit("ddiv", &args, guarded(|| qr(DenseOrSparsePolynomial::from(&pa).divide_with_q_and_r(&(&pb).into()))));
}
/// the remaining binary dense ops
fn dd_more<F: PrimeField>(c: &mut Cx, a: &[F], b: &[F]) {
    let args = format!("{} {}", shd(a), shd(b));
    let (pa, pb) = (dp(a), dp(b));
    c.emit("daddas", &args, guarded(|| { let mut x = pa.clone(); x += &pb; shd(&x.coeffs) }));
    c.emit("dsubas", &args, guarded(|| { let mut x = pa.clone(); x -= &pb; shd(&x.coeffs) }));
    c.emit("dmul", &args, guarded(|| shd(&(&pa * &pb).coeffs)));
    c.emit("daddv", &args, guarded(|| shd(&(pa.clone() + pb.clone()).coeffs)));
    c.emit("dsubv", &args, guarded(|| shd(&(pa.clone() - pb.clone()).coeffs)));
    c.emit("ddivq", &args, guarded(|| shd(&(&pa / &pb).coeffs)));
}
fn dd_scaled<F: PrimeField>(c: &mut Cx, a: &[F], f: &F, b: &[F]) {
    let (pa, pb) = (dp(a), dp(b));
    c.emit("daddsc", &format!("{} {} {}", shd(a), hx(f), shd(b)), guarded(|| { let mut x = pa.clone(); x += (*f, &pb); shd(&x.coeffs) }));
}
/// dense ⊕ sparse
fn ds_ops<F: PrimeField>(c: &mut Cx, a: &[F], s: &SparsePolynomial<F>) {
    let args = format!("{} {}", shd(a), shs(&s.to_vec()));
    let pa = dp(a);
    c.emit("dsadd", &args, guarded(|| shd(&(&pa + s).coeffs)));
    c.emit("dsaddas", &args, guarded(|| { let mut x = pa.clone(); x += s; shd(&x.coeffs) }));
    c.emit("dssub", &args, guarded(|| shd(&(&pa - s).coeffs)));
    c.emit("dssubas", &args, guarded(|| { let mut x = pa.clone(); x -= s; shd(&x.coeffs) }));
}
fn ds_div<F: PrimeField>(c: &mut Cx, a: &[F], s: &SparsePolynomial<F>) {
    let pa = dp(a);
    c.emit("dsdiv", &format!("{} {}", shd(a), shs(&s.to_vec())),
        guarded(|| qr(DenseOrSparsePolynomial::from(&pa).divide_with_q_and_r(&s.into()))));
    c.emit("sddiv", &format!("{} {}", shs(&s.to_vec()), shd(a)),
        guarded(|| qr(DenseOrSparsePolynomial::from(s).divide_with_q_and_r(&(&pa).into()))));
}
fn s_unary<F: PrimeField>(c: &mut Cx, s: &SparsePolynomial<F>) {
    let a = shs(&s.to_vec());
    c.emit("sdeg", &a, guarded(|| format!("{:x}", s.degree())));
    c.emit("szero", &a, guarded(|| (if s.is_zero() { "1" } else { "0" }).to_string()));
    c.emit("sneg", &a, guarded(|| shs(&(-s.clone()).to_vec())));
    c.emit("s2d", &a, guarded(|| shd(&DensePolynomial::from(s.clone()).coeffs)));
}
fn s_eval<F: PrimeField>(c: &mut Cx, s: &SparsePolynomial<F>, x: &F) {
    c.emit("seval", &format!("{} {}", shs(&s.to_vec()), hx(x)), guarded(|| hx(&s.evaluate(x))));
}
fn s_scale<F: PrimeField>(c: &mut Cx, s: &SparsePolynomial<F>, f: &F) {
    c.emit("sscale", &format!("{} {}", shs(&s.to_vec()), hx(f)), guarded(|| shs(&(s * *f).to_vec())));
}
fn ss_ops<F: PrimeField>(c: &mut Cx, s: &SparsePolynomial<F>, t: &SparsePolynomial<F>, more: bool) {
    let args = format!("{} {}", shs(&s.to_vec()), shs(&t.to_vec()));
    c.emit("sadd", &args, guarded(|| shs(&(s + t).to_vec())));
    c.emit("ssubas", &args, guarded(|| { let mut x = s.clone(); x -= t; shs(&x.to_vec()) }));
    c.emit("smul", &args, guarded(|| shs(&SparsePolynomial::mul(s, t).to_vec())));
    if more {
        c.emit("saddas", &args, guarded(|| { let mut x = s.clone(); x += t; shs(&x.to_vec()) }));
        c.emit("saddv", &args, guarded(|| shs(&(s.clone() + t.clone()).to_vec())));
        c.emit("ssdiv", &args, guarded(|| qr(DenseOrSparsePolynomial::from(s).divide_with_q_and_r(&t.into()))));
    }
}
fn ss_scaled<F: PrimeField>(c: &mut Cx, s: &SparsePolynomial<F>, f: &F, t: &SparsePolynomial<F>) {
    c.emit("saddsc", &format!("{} {} {}", shs(&s.to_vec()), hx(f), shs(&t.to_vec())),
        guarded(|| { let mut x = s.clone(); x += (*f, t); shs(&x.to_vec()) }));
}
fn s_from<F: PrimeField>(c: &mut Cx, raw: &[(usize, F)]) {
    let a = shs(raw);
    c.emit("sfrom", &a, guarded(|| shs(&SparsePolynomial::from_coefficients_vec(raw.to_vec()).to_vec())));
    c.emit("sfroms", &a, guarded(|| shs(&SparsePolynomial::from_coefficients_slice(raw).to_vec())));
}
fn dom_ops<F: PrimeField>(c: &mut Cx, a: &[F], d: &Dom<F>) {
    let args = format!("{} {}", shd(a), shdom(d));
    let pa = dp(a);
    c.emit("dmulvan", &args, guarded(|| shd(&pa.mul_by_vanishing_poly(*d).coeffs)));
    c.emit("ddivvan", &args, guarded(|| { let (q, r) = pa.divide_by_vanishing_poly(*d); format!("{} {}", shd(&q.coeffs), shd(&r.coeffs)) }));
    c.emit("devaldom", &args, guarded(|| shd(&pa.evaluate_over_domain_by_ref(*d).evals)));
    c.emit("devaldomo", &args, guarded(|| shd(&pa.clone().evaluate_over_domain(*d).evals)));
    c.emit("dround", &args, guarded(|| shd(&pa.clone().evaluate_over_domain(*d).interpolate().coeffs)));
}
fn dom_sparse<F: PrimeField>(c: &mut Cx, s: &SparsePolynomial<F>, d: &Dom<F>) {
    let args = format!("{} {}", shs(&s.to_vec()), shdom(d));
    c.emit("sevaldom", &args, guarded(|| shd(&s.evaluate_over_domain_by_ref(*d).evals)));
    c.emit("sevaldomo", &args, guarded(|| shd(&s.clone().evaluate_over_domain(*d).evals)));
}
fn dom_interp<F: PrimeField>(c: &mut Cx, ev: &[F], d: &Dom<F>) {
    let args = format!("{} {}", shd(ev), shdom(d));
    c.emit("interp", &args, guarded(|| shd(&Evaluations::from_vec_and_domain(ev.to_vec(), *d).interpolate().coeffs)));
    c.emit("interpr", &args, guarded(|| shd(&Evaluations::from_vec_and_domain(ev.to_vec(), *d).interpolate_by_ref().coeffs)));
}


// ------------------------------------------------------------------ additions: receiver variants of `impl_op!`,
// `DenseOrSparsePolynomial` conversions / queries for the four `From` forms, owned-Cow division, `rand`,
// sparse evaluation with huge exponents
/// owned ⊕ &ref (`…vr`), &ref ⊕ owned (`…rv`), owned ⊕ owned (`…v`) for +, −, ×, ÷
fn dd_recv<F: PrimeField + ark_ff::FftField>(c: &mut Cx, a: &[F], b: &[F]) {
    let args = format!("{} {}", shd(a), shd(b));
    let (pa, pb) = (dp(a), dp(b));
    c.emit("daddvr", &args, guarded(|| shd(&(pa.clone() + &pb).coeffs)));
    c.emit("daddrv", &args, guarded(|| shd(&(&pa + pb.clone()).coeffs)));
    c.emit("dsubvr", &args, guarded(|| shd(&(pa.clone() - &pb).coeffs)));
    c.emit("dsubrv", &args, guarded(|| shd(&(&pa - pb.clone()).coeffs)));
    c.emit("dmulv", &args, guarded(|| shd(&(pa.clone() * pb.clone()).coeffs)));
    c.emit("dmulvr", &args, guarded(|| shd(&(pa.clone() * &pb).coeffs)));
    c.emit("dmulrv", &args, guarded(|| shd(&(&pa * pb.clone()).coeffs)));
    c.emit("ddivv", &args, guarded(|| shd(&(pa.clone() / pb.clone()).coeffs)));
    c.emit("ddivvr", &args, guarded(|| shd(&(pa.clone() / &pb).coeffs)));
    c.emit("ddivrv", &args, guarded(|| shd(&(&pa / pb.clone()).coeffs)));
    c.emit("ddivo", &args, guarded(|| qr(DenseOrSparsePolynomial::from(pa.clone()).divide_with_q_and_r(&DenseOrSparsePolynomial::from(pb.clone())))));
}
fn ds_divo<F: PrimeField>(c: &mut Cx, a: &[F], s: &SparsePolynomial<F>) {
    let pa = dp(a);
    c.emit("dsdivo", &format!("{} {}", shd(a), shs(&s.to_vec())),
        guarded(|| qr(DenseOrSparsePolynomial::from(pa.clone()).divide_with_q_and_r(&DenseOrSparsePolynomial::from(s.clone())))));
    c.emit("sddivo", &format!("{} {}", shs(&s.to_vec()), shd(a)),
        guarded(|| qr(DenseOrSparsePolynomial::from(s.clone()).divide_with_q_and_r(&DenseOrSparsePolynomial::from(pa.clone())))));
}
fn ss_divo<F: PrimeField>(c: &mut Cx, s: &SparsePolynomial<F>, t: &SparsePolynomial<F>) {
    c.emit("ssdivo", &format!("{} {}", shs(&s.to_vec()), shs(&t.to_vec())),
        guarded(|| qr(DenseOrSparsePolynomial::from(s.clone()).divide_with_q_and_r(&DenseOrSparsePolynomial::from(t.clone())))));
}
fn hexb(b: &[u8]) -> String {
    if b.is_empty() { return "_".into(); }
    b.iter().map(|x| format!("{:02x}", x)).collect()
}
/// derived (de)serialization: `<bytes> <serialized_size> <deserialized value as stored>`
fn d_ser<F: PrimeField>(c: &mut Cx, a: &[F], compressed: bool) {
    let pa = dp(a);
    let mode = if compressed { Compress::Yes } else { Compress::No };
    c.emit("dser", &shd(a), guarded(|| {
        let mut bytes = Vec::new();
        pa.serialize_with_mode(&mut bytes, mode).unwrap();
        let back = DensePolynomial::<F>::deserialize_with_mode(&bytes[..], mode, Validate::Yes);
        format!("{} {:x} {}", hexb(&bytes), pa.serialized_size(mode), match back { Ok(x) => shd(&x.coeffs), Err(_) => "err".into() })
    }));
}
fn s_ser<F: PrimeField>(c: &mut Cx, s: &SparsePolynomial<F>, compressed: bool) {
    let mode = if compressed { Compress::Yes } else { Compress::No };
    c.emit("sser", &shs(&s.to_vec()), guarded(|| {
        let mut bytes = Vec::new();
        s.serialize_with_mode(&mut bytes, mode).unwrap();
        let back = SparsePolynomial::<F>::deserialize_with_mode(&bytes[..], mode, Validate::Yes);
        format!("{} {:x} {}", hexb(&bytes), s.serialized_size(mode), match back { Ok(x) => shs(&x.to_vec()), Err(_) => "err".into() })
    }));
}
fn try_sparse<F: PrimeField>(x: DenseOrSparsePolynomial<F>) -> String {
    let r: Result<SparsePolynomial<F>, ()> = x.try_into();
    match r { Ok(s) => shs(&s.to_vec()), Err(()) => "err".into() }
}
/// `DenseOrSparsePolynomial` from an owned / borrowed dense polynomial
fn dos_d<F: PrimeField>(c: &mut Cx, a: &[F]) {
    let pa = dp(a);
    let s = shd(a);
    c.emit("dosz", &format!("do {}", s), guarded(|| (if DenseOrSparsePolynomial::from(pa.clone()).is_zero() { "1" } else { "0" }).to_string()));
    c.emit("dosz", &format!("db {}", s), guarded(|| (if DenseOrSparsePolynomial::from(&pa).is_zero() { "1" } else { "0" }).to_string()));
    c.emit("dosdeg", &format!("do {}", s), guarded(|| format!("{:x}", DenseOrSparsePolynomial::from(pa.clone()).degree())));
    c.emit("dosdeg", &format!("db {}", s), guarded(|| format!("{:x}", DenseOrSparsePolynomial::from(&pa).degree())));
    c.emit("dos2d", &format!("do {}", s), guarded(|| shd(&DensePolynomial::from(DenseOrSparsePolynomial::from(pa.clone())).coeffs)));
    c.emit("dos2d", &format!("db {}", s), guarded(|| { let d: DensePolynomial<F> = DenseOrSparsePolynomial::from(&pa).into(); shd(&d.coeffs) }));
    c.emit("dos2s", &format!("do {}", s), guarded(|| try_sparse(DenseOrSparsePolynomial::from(pa.clone()))));
    c.emit("dos2s", &format!("db {}", s), guarded(|| try_sparse(DenseOrSparsePolynomial::from(&pa))));
}
/// `DenseOrSparsePolynomial` from an owned / borrowed sparse polynomial
fn dos_s<F: PrimeField>(c: &mut Cx, sp_: &SparsePolynomial<F>) {
    let s = shs(&sp_.to_vec());
    c.emit("dosz", &format!("so {}", s), guarded(|| (if DenseOrSparsePolynomial::from(sp_.clone()).is_zero() { "1" } else { "0" }).to_string()));
    c.emit("dosz", &format!("sb {}", s), guarded(|| (if DenseOrSparsePolynomial::from(sp_).is_zero() { "1" } else { "0" }).to_string()));
    c.emit("dosdeg", &format!("so {}", s), guarded(|| format!("{:x}", DenseOrSparsePolynomial::from(sp_.clone()).degree())));
    c.emit("dosdeg", &format!("sb {}", s), guarded(|| format!("{:x}", DenseOrSparsePolynomial::from(sp_).degree())));
    c.emit("dos2d", &format!("so {}", s), guarded(|| shd(&DensePolynomial::from(DenseOrSparsePolynomial::from(sp_.clone())).coeffs)));
    c.emit("dos2d", &format!("sb {}", s), guarded(|| { let d: DensePolynomial<F> = DenseOrSparsePolynomial::from(sp_).into(); shd(&d.coeffs) }));
    c.emit("dos2s", &format!("so {}", s), guarded(|| try_sparse(DenseOrSparsePolynomial::from(sp_.clone()))));
    c.emit("dos2s", &format!("sb {}", s), guarded(|| try_sparse(DenseOrSparsePolynomial::from(sp_))));
}
/// `DenseOrSparsePolynomial::evaluate_over_domain(impl Into<Self>, domain)` for the four `Into` forms
fn dos_dom_d<F: PrimeField + ark_ff::FftField>(c: &mut Cx, a: &[F], d: &Dom<F>) {
    let pa = dp(a);
    c.emit("dosevaldom", &format!("do {} {}", shd(a), shdom(d)), guarded(|| shd(&DenseOrSparsePolynomial::evaluate_over_domain(pa.clone(), *d).evals)));
    c.emit("dosevaldom", &format!("db {} {}", shd(a), shdom(d)), guarded(|| shd(&DenseOrSparsePolynomial::evaluate_over_domain(&pa, *d).evals)));
}
fn dos_dom_s<F: PrimeField + ark_ff::FftField>(c: &mut Cx, s: &SparsePolynomial<F>, d: &Dom<F>) {
    c.emit("dosevaldom", &format!("so {} {}", shs(&s.to_vec()), shdom(d)), guarded(|| shd(&DenseOrSparsePolynomial::evaluate_over_domain(s.clone(), *d).evals)));
    c.emit("dosevaldom", &format!("sb {} {}", shs(&s.to_vec()), shdom(d)), guarded(|| shd(&DenseOrSparsePolynomial::evaluate_over_domain(s, *d).evals)));
}
/// `DenseUVPolynomial::rand(d, rng)` with a seeded RNG: prints `coeffs() degree()`
fn d_rand<F: PrimeField>(c: &mut Cx, d: usize, seed: u64) {
    c.emit("drand", &format!("{:x} {:x}", d, seed), guarded(|| {
        let p = DensePolynomial::<F>::rand(d, &mut SeedRng(Rng::new(seed)));
        format!("{} {:x}", shd(p.coeffs()), p.degree())
    }));
}
fn s_evalx<F: PrimeField>(c: &mut Cx, s: &SparsePolynomial<F>, x: &F) {
    c.emit("sevalx", &format!("{} {}", shs(&s.to_vec()), hx(x)), guarded(|| hx(&s.evaluate(x))));
}
fn s_evaldomx<F: PrimeField + ark_ff::FftField>(c: &mut Cx, s: &SparsePolynomial<F>, d: &Dom<F>, owned: bool) {
    c.emit("sevaldomx", &format!("{} {}", shs(&s.to_vec()), shdom(d)),
        guarded(|| shd(&(if owned { s.clone().evaluate_over_domain(*d) } else { s.evaluate_over_domain_by_ref(*d) }).evals)));
}
/// canonical sparse polynomials with exponents up to `usize::MAX`
fn huge_sparse<F: PrimeField>(rng: &mut Rng, nzf: &mut dyn FnMut(&mut Rng) -> F, count: usize) -> Vec<SparsePolynomial<F>> {
    let degs: Vec<usize> = vec![0, 1, 2, 63, 64, (1 << 16) + 1, u32::MAX as usize, 1 << 32, (1 << 32) + 1, (1 << 62) + 5, (1usize << 63) - 1, 1 << 63, (1 << 63) + 1, usize::MAX - 1, usize::MAX];
    let mut v: Vec<SparsePolynomial<F>> = Vec::new();
    // single huge terms, the two largest exponents together, constant + top
    for &d in &[1usize << 32, (1usize << 63) - 1, 1 << 63, usize::MAX - 1, usize::MAX] { v.push(sp(&[(d, nzf(rng))]).unwrap()); }
    v.push(sp(&[(usize::MAX - 1, nzf(rng)), (usize::MAX, nzf(rng))]).unwrap());
    v.push(sp(&[(0, nzf(rng)), (usize::MAX, nzf(rng))]).unwrap());
    v.push(sp(&[(usize::MAX, nzf(rng)), (1, nzf(rng)), (1 << 63, nzf(rng))]).unwrap());
    while v.len() < count {
        let k = 1 + rng.below(4) as usize;
        let mut raw: Terms<F> = Vec::new();
        for _ in 0..k {
            let d = if rng.below(3) == 0 { rng.next() as usize } else { degs[rng.below(degs.len() as u64) as usize] };
            if !raw.iter().any(|(e, _)| *e == d) { raw.push((d, nzf(rng))); }
        }
        v.push(sp(&raw).unwrap());
    }
    v
}

fn toy_extra<F: PrimeField + ark_ff::FftField>(rng: &mut Rng, c: &mut Cx, el: &[F], vecs: &[Vec<F>], sps: &[SparsePolynomial<F>], doms: &[Dom<F>], thorough: bool) {
    let p = el.len() as u64;
    let pairs_cap = if thorough { 2000 } else { 110 };
    // conversions / queries: every stored vector of length ≤ 3 (leading zeros included), every sparse polynomial
    let dcap = if thorough { usize::MAX } else { 160 };
    for v in vecs.iter().filter(|v| v.len() <= 3).take(dcap) { dos_d(c, v); }
    let scap = if thorough { usize::MAX } else { 130 };
    for s in sps.iter().take(scap) { dos_s(c, s); }
    for (i, v) in vecs.iter().filter(|v| v.len() <= 3).enumerate().take(dcap) { if thorough || i % 4 == 0 { d_ser(c, v, i % 8 == 0); } }
    for (i, s) in sps.iter().enumerate().take(scap) { if thorough || i % 4 == 0 { s_ser(c, s, i % 8 == 0); } }
    // receiver variants: canonical operands of length ≤ 2 (strided), then sampled longer ones
    let short: Vec<&Vec<F>> = vecs.iter().filter(|v| v.len() <= 2 && canon(v)).collect();
    let total = short.len() * short.len();
    let stride = (total / pairs_cap).max(1);
    for k in (0..total).step_by(stride) { dd_recv(c, short[k / short.len()], short[k % short.len()]); }
    for _ in 0..pairs_cap {
        let a = &toy_vec(rng, el, 6); let b = &toy_vec(rng, el, 4);
        dd_recv(c, a, b);
        let s = &sps[rng.below(sps.len() as u64) as usize]; let u = &sps[rng.below(sps.len() as u64) as usize];
        ds_divo(c, a, s); ss_divo(c, s, u);
    }
    // stored vectors with leading zeros as owned operands (model = impl only)
    for a in vecs.iter().filter(|v| v.len() == 2 && !canon(v)).take(3) { for b in short.iter().take(4) { dd_recv(c, a, b); dd_recv(c, b, a); } }
    // rand: every small degree, three seeds each (the leading coefficient is re-drawn while zero: 1 in p draws)
    for d in 0..=(if thorough { 40 } else { 9 }) { for _ in 0..(if thorough { 20 } else { 4 }) { d_rand::<F>(c, d, rng.next()); } }
    d_rand::<F>(c, 257, rng.next());
    // sparse evaluation with huge exponents: every point of the field
    let mut nzf = |r: &mut Rng| el[1 + r.below(p - 1) as usize];
    let hs = huge_sparse::<F>(rng, &mut nzf, if thorough { 200 } else { 24 });
    for (i, s) in hs.iter().enumerate() {
        c.emit("sdeg", &shs(&s.to_vec()), guarded(|| format!("{:x}", s.degree())));
        for x in el.iter().take(if thorough { 13 } else { 7 }) { s_evalx(c, s, x); }
        for (j, d) in doms.iter().enumerate() { if thorough || (i + j) % 5 == 0 { s_evaldomx(c, s, d, (i + j) % 2 == 0); } }
    }
    // DenseOrSparsePolynomial::evaluate_over_domain, four Into forms
    for (j, d) in doms.iter().enumerate() {
        if !thorough && j % 3 != 0 { continue; }
        for v in vecs.iter().filter(|v| v.len() <= 3).step_by(if thorough { 1 } else { 7 }) { dos_dom_d(c, v, d); }
        for s in sps.iter().step_by(if thorough { 3 } else { 11 }) { dos_dom_s(c, s, d); }
        let len = d.size() + 1 + rng.below(2 * d.size() as u64 + 3) as usize;
        let mut v: Vec<F> = (0..len).map(|_| el[rng.below(p) as usize]).collect();
        if v[len - 1].is_zero() { v[len - 1] = el[1]; }
        dos_dom_d(c, &v, d);
    }
}

fn big_extra<F: PrimeField + ark_ff::FftField>(rng: &mut Rng, c: &mut Cx, pool: &[Vec<F>], weird: &[Vec<F>], pairs: &[(Vec<F>, Vec<F>)], spool: &[SparsePolynomial<F>], doms: &[Dom<F>], xs: &[F], thorough: bool) {
    for a in pool.iter().chain(weird.iter()) { dos_d(c, a); }
    for s in spool { dos_s(c, s); }
    for (i, a) in pool.iter().chain(weird.iter()).enumerate() { d_ser(c, a, i % 2 == 0); }
    for (i, s) in spool.iter().enumerate() { s_ser(c, s, i % 2 == 0); }
    for (a, b) in pairs.iter().step_by(if thorough { 1 } else { 3 }) { dd_recv(c, a, b); }
    for a in pool.iter().step_by(if thorough { 1 } else { 2 }) {
        for _ in 0..3 { let s = &spool[rng.below(spool.len() as u64) as usize]; ds_divo(c, a, s); }
        if !a.is_empty() { ds_divo(c, a, &SparsePolynomial::from(dp(a))); }
    }
    for s in spool.iter() { for _ in 0..2 { let t = &spool[rng.below(spool.len() as u64) as usize]; ss_divo(c, s, t); } ss_divo(c, s, s); }
    for d in [0usize, 1, 2, 3, 4, 7, 8, 9, 16, 31, 64, 100] { for _ in 0..(if thorough { 10 } else { 2 }) { d_rand::<F>(c, d, rng.next()); } }
    let mut nzf = |r: &mut Rng| rand_nz::<F>(r);
    let hs = huge_sparse::<F>(rng, &mut nzf, if thorough { 200 } else { 30 });
    for (i, s) in hs.iter().enumerate() {
        c.emit("sdeg", &shs(&s.to_vec()), guarded(|| format!("{:x}", s.degree())));
        for x in xs { s_evalx(c, s, x); }
        s_evalx(c, s, &rand_el(rng));
        if i % 3 == 0 { s_ser(c, s, i % 2 == 0); }
        for (j, d) in doms.iter().enumerate() { if thorough || (i + j) % 4 == 0 { s_evaldomx(c, s, d, (i + j) % 2 == 0); } }
    }
    for (j, d) in doms.iter().enumerate() {
        let n = d.size();
        for l in [0usize, 1, n / 4, n / 4 + 1, n, n + 1, 2 * n + 1, 3 * n + 2] {
            if !thorough && j % 2 == 1 && l > 1 && l != n + 1 { continue; }
            let a = rand_dense::<F>(rng, l); dos_dom_d(c, &a, d);
        }
        for a in weird.iter().take(2) { dos_dom_d(c, a, d); }
        for s in spool.iter().take(if thorough { 10 } else { 3 }) { dos_dom_s(c, s, d); }
    }
}

// ------------------------------------------------------------------ enumeration helpers
/// all vectors over `el` of length ≤ maxlen
fn all_vecs<F: Copy>(el: &[F], maxlen: usize) -> Vec<Vec<F>> {
    let mut res: Vec<Vec<F>> = vec![vec![]];
    let mut cur: Vec<Vec<F>> = vec![vec![]];
    for _ in 0..maxlen {
        let mut nxt = Vec::new();
        for v in &cur { for e in el { let mut w = v.clone(); w.push(*e); nxt.push(w); } }
        res.extend(nxt.iter().cloned());
        cur = nxt;
    }
    res
}
/// all canonical sparse polynomials with support inside `degs` (raw term lists, given to the constructor
/// in increasing or — for every other one — decreasing order)
fn all_sparse<F: PrimeField>(nz: &[F], degs: &[usize], maxterms: usize) -> Vec<SparsePolynomial<F>> {
    let mut res = Vec::new();
    let n = degs.len();
    let mut flip = false;
    for mask in 0u32..(1 << n) {
        let sup: Vec<usize> = (0..n).filter(|i| mask >> i & 1 == 1).map(|i| degs[i]).collect();
        if sup.len() > maxterms { continue; }
        for cs in all_vecs(nz, sup.len()).into_iter().filter(|v| v.len() == sup.len()) {
            let mut raw: Terms<F> = sup.iter().cloned().zip(cs.into_iter()).collect();
            if flip { raw.reverse(); }
            flip = !flip;
            res.push(sp(&raw).expect("canonical raw list"));
        }
    }
    res
}
fn domains<F: PrimeField>(sizes: &[usize], offsets: &[F]) -> Vec<Dom<F>> {
    let mut v = Vec::new();
    for &n in sizes {
        if let Some(d) = Dom::<F>::new(n) {
            v.push(d);
            for h in offsets { if !h.is_one() { if let Some(cd) = d.get_coset(*h) { v.push(cd); } } }
        }
    }
    v
}

// ------------------------------------------------------------------ toy fields: exhaustive
struct Toy { lc: usize, ln: usize, ls_terms: usize, dense_for_sparse: usize, sample: usize, raw_len: usize, pool_len: usize, few_cap: usize, max_offsets: usize }

/// random canonical vector of length ≤ maxlen over the enumerated field
fn toy_vec<F: PrimeField>(rng: &mut Rng, el: &[F], maxlen: usize) -> Vec<F> {
    let len = rng.below(maxlen as u64 + 1) as usize;
    let mut v: Vec<F> = (0..len).map(|_| el[rng.below(el.len() as u64) as usize]).collect();
    if len > 0 && v[len - 1].is_zero() { v[len - 1] = el[1 + rng.below(el.len() as u64 - 1) as usize]; }
    v
}

fn toy<F: PrimeField + ark_ff::FftField>(rng: &mut Rng, out: &mut Out, t: &Toy) {
    let pbig: BigUint = F::MODULUS.into();
    let p = pbig.to_u64_digits().first().cloned().unwrap_or(0);
    let mut c = Cx { out, p: format!("{:x}", p) };
    let el: Vec<F> = (0..p).map(F::from).collect();
    let nz: Vec<F> = el[1..].to_vec();
    // scalars for the scaled-add loops: the whole field when tiny, else 0, 1, 2, p−1
    let fsel: Vec<F> = if p <= 5 { el.clone() } else { vec![el[0], el[1], el[2], el[(p - 1) as usize]] };
    let vecs = all_vecs(&el, t.lc.max(t.ln));
    let can: Vec<&Vec<F>> = vecs.iter().filter(|v| v.len() <= t.lc && canon(v)).collect();
    let anyv: Vec<&Vec<F>> = vecs.iter().filter(|v| v.len() <= t.ln).collect();
    // unary, evaluation, scaling: every stored vector
    for v in &vecs {
        d_unary(&mut c, v);
        if v.len() <= 3 { for x in &el { d_eval(&mut c, v, x); d_scale(&mut c, v, x); } }
    }
    // canonical × canonical, exhaustive: core ops
    for a in &can { for b in &can { dd_core(&mut c, a, b); } }
    // every stored vector (leading zeros included) × every stored vector, short: all ops
    for a in &anyv { for b in &anyv {
        dd_core(&mut c, a, b); dd_more(&mut c, a, b);
        for f in el.iter().take(3) { dd_scaled(&mut c, a, f, b); }
    } }
    // canonical: remaining ops on short operands exhaustively, on the rest sampled
    let short: Vec<&Vec<F>> = can.iter().cloned().filter(|v| v.len() <= (if p <= 7 { 2 } else { 1 })).collect();
    for a in &short { for b in &short { dd_more(&mut c, a, b); for f in &fsel { dd_scaled(&mut c, a, f, b); } } }
    for _ in 0..t.sample {
        let a = &toy_vec(rng, &el, t.pool_len); let b = &toy_vec(rng, &el, t.pool_len);
        dd_core(&mut c, a, b); dd_more(&mut c, a, b);
        dd_scaled(&mut c, a, &el[rng.below(p) as usize], b);
    }
    // sparse: canonical polynomials with support in {0,1,3}
    let sps = all_sparse(&nz, &[0, 1, 3], t.ls_terms);
    for s in &sps { s_unary(&mut c, s); for x in &el { s_eval(&mut c, s, x); s_scale(&mut c, s, x); } }
    let dfs: Vec<&Vec<F>> = vecs.iter().filter(|v| v.len() <= t.dense_for_sparse && canon(v)).collect();
    for a in &dfs { for s in &sps { ds_ops(&mut c, a, s); } }
    for _ in 0..t.sample {   // longer dense operands, sampled; division
        let a = &toy_vec(rng, &el, t.pool_len); let s = &sps[rng.below(sps.len() as u64) as usize];
        ds_ops(&mut c, a, s); ds_div(&mut c, a, s);
    }
    let few0: Vec<&SparsePolynomial<F>> = sps.iter().filter(|s| s.len() <= 2).collect();
    let stride = (few0.len() + t.few_cap - 1) / t.few_cap;
    let few: Vec<&SparsePolynomial<F>> = few0.iter().cloned().step_by(stride.max(1)).collect();
    for s in &few { for u in &few { ss_ops(&mut c, s, u, true); } }
    for _ in 0..t.sample {
        let s = &sps[rng.below(sps.len() as u64) as usize]; let u = &sps[rng.below(sps.len() as u64) as usize];
        ss_ops(&mut c, s, u, true);
        ss_scaled(&mut c, s, &el[rng.below(p) as usize], u);
    }
    for s in few.iter().take(30) { for u in few.iter().take(30) { for f in &fsel { ss_scaled(&mut c, s, f, u); } } }
    // sparse constructor: every raw list of ≤ raw_len terms over degrees {0,1,2} × coefficients {0,1,p−1}
    let tcoef = [F::zero(), F::one(), -F::one()];
    let mut terms: Terms<F> = Vec::new();
    for d in 0..3usize { for cf in &tcoef { terms.push((d, *cf)); } }
    let raws = all_vecs(&terms, t.raw_len);
    let mut consts: Vec<SparsePolynomial<F>> = Vec::new();   // the distinct polynomials the constructor produced
    for raw in &raws {
        s_from(&mut c, raw);
        if let Some(s) = sp(raw) { if !consts.contains(&s) { consts.push(s); } }
    }
    // every constructor result as operand of the binary sparse ops and as divisor / dividend
    for s in &consts { for u in &consts { ss_ops(&mut c, s, u, true); } }
    // non-canonical stored sparse operands (model = impl only; verdicts are notes).  The constructor no
    // longer produces any; the stored terms are reachable through `DerefMut<[(usize, F)]>`:
    // last stored coefficient zero / zero term in front / a degree stored twice below the top /
    // zero polynomial with stored terms.
    let mut odd: Vec<SparsePolynomial<F>> = Vec::new();
    let multi: Vec<&SparsePolynomial<F>> = sps.iter().filter(|s| s.len() >= 2).collect();
    let stride = (multi.len() / 12).max(1);
    for s in multi.iter().step_by(stride).take(12) {
        let n = s.len();
        let mut a = (*s).clone(); a[n - 1].1 = F::zero(); odd.push(a);
        let mut b = (*s).clone(); b[0].1 = F::zero(); odd.push(b);
        if n >= 3 { let mut d = (*s).clone(); d[1].0 = d[0].0; odd.push(d); }
        let mut z = (*s).clone(); for t in z.iter_mut() { t.1 = F::zero(); } odd.push(z);
    }
    let partners_d: Vec<Vec<F>> = vec![vec![], vec![el[1]], vec![el[2], el[1]], vec![el[1], el[0], nz[nz.len() - 1]], vec![el[0], el[0]]];
    let partners_s: Vec<SparsePolynomial<F>> = vec![sp(&[]).unwrap(), sp(&[(0, el[1])]).unwrap(), sp(&[(1, nz[nz.len() - 1]), (2, el[1])]).unwrap(), sp(&[(2, nz[nz.len() - 1])]).unwrap()];
    for s in &odd {
        s_unary(&mut c, s); s_eval(&mut c, s, &el[2]); s_eval(&mut c, s, &el[0]); s_scale(&mut c, s, &el[2]);
        for a in &partners_d { ds_ops(&mut c, a, s); ds_div(&mut c, a, s); }
        for u in &partners_s { ss_ops(&mut c, s, u, true); ss_ops(&mut c, u, s, true); ss_scaled(&mut c, s, &el[2], u); }
    }
    for s in odd.iter().take(40) { for u in odd.iter().take(40) { ss_ops(&mut c, s, u, false); } }
    // stored forms no constructor call produces directly — last stored coefficient zero, or a zero polynomial
    // with stored terms — obtained as sums of the above (model = impl only)
    let mut odd2: Vec<SparsePolynomial<F>> = Vec::new();
    for s in &odd { for u in odd.iter().chain(sps.iter().take(30)) {
        if let Ok(r) = std::panic::catch_unwind(std::panic::AssertUnwindSafe(|| s + u)) {
            if r.to_vec().last().map_or(false, |(_, cf)| cf.is_zero()) && !odd2.contains(&r) && odd2.len() < 60 { odd2.push(r); }
        }
    } }
    for s in &odd2 {
        s_unary(&mut c, s); s_eval(&mut c, s, &el[2]); s_eval(&mut c, s, &el[0]); s_scale(&mut c, s, &el[2]); s_scale(&mut c, s, &el[0]);
        for a in &partners_d { ds_ops(&mut c, a, s); ds_div(&mut c, a, s); }
        for u in &partners_s { ss_ops(&mut c, s, u, true); ss_ops(&mut c, u, s, true); ss_scaled(&mut c, s, &el[2], u); }
        if let Some(d) = Dom::<F>::new(2) { dom_sparse(&mut c, s, &d); }
    }
    // domains (every subgroup size the field has) and every coset of them
    let doms = domains(&[1, 2, 4, 8], &nz[..nz.len().min(t.max_offsets)]);
    for d in &doms {
        for v in vecs.iter().filter(|v| v.len() <= 3) { dom_ops(&mut c, v, d); }
        for v in all_vecs(&el, d.size().min(2)).iter().filter(|v| v.len() == d.size().min(2)) { dom_interp(&mut c, v, d); }
        for s in sps.iter().take(40) { dom_sparse(&mut c, s, d); }
        for _ in 0..20 {
            let len = d.size() + 1 + rng.below(2 * d.size() as u64 + 3) as usize;
            let mut v: Vec<F> = (0..len).map(|_| el[rng.below(p) as usize]).collect();
            if v[len - 1].is_zero() { v[len - 1] = el[1]; }
            dom_ops(&mut c, &v, d);
            let ev: Vec<F> = (0..d.size()).map(|_| el[rng.below(p) as usize]).collect();
            dom_interp(&mut c, &ev, d);
        }
    }
    toy_extra(rng, &mut c, &el, &vecs, &sps, &doms, t.sample >= 10000);
}

// ------------------------------------------------------------------ structured operands over a large field
fn rand_el<F: PrimeField>(rng: &mut Rng) -> F {
    match rng.below(10) {
        0 => F::zero(), 1 => F::one(), 2 => -F::one(), 3 => F::from(rng.below(5)),
        _ => { let bytes: Vec<u8> = (0..64).map(|_| rng.next() as u8).collect(); F::from_le_bytes_mod_order(&bytes) }
    }
}
fn rand_nz<F: PrimeField>(rng: &mut Rng) -> F { loop { let x = rand_el::<F>(rng); if !x.is_zero() { return x; } } }
fn rand_dense<F: PrimeField>(rng: &mut Rng, len: usize) -> Vec<F> {
    let mut v: Vec<F> = (0..len).map(|_| rand_el(rng)).collect();
    if len > 0 { v[len - 1] = rand_nz(rng); }
    v
}
/// canonical sparse polynomial of the given degree with about `k` terms
fn rand_sparse<F: PrimeField>(rng: &mut Rng, degree: usize, k: usize) -> SparsePolynomial<F> {
    let mut raw: Terms<F> = vec![(degree, rand_nz(rng))];
    let mut used = vec![degree];
    for _ in 0..k { let d = rng.below(degree as u64 + 1) as usize; if !used.contains(&d) { used.push(d); raw.push((d, rand_nz(rng))); } }
    if rng.below(2) == 0 { raw.reverse(); }
    sp(&raw).expect("canonical raw list")
}

fn big<F: PrimeField + ark_ff::FftField>(rng: &mut Rng, out: &mut Out, thorough: bool) {
    let pbig: BigUint = F::MODULUS.into();
    let mut c = Cx { out, p: pbig.to_str_radix(16) };
    let reps = if thorough { 12 } else { 2 };
    let lens: Vec<usize> = vec![0, 1, 2, 3, 4, 5, 6, 8, 9, 17];
    // dense pool
    let mut pool: Vec<Vec<F>> = Vec::new();
    for _ in 0..reps { for &l in &lens { pool.push(rand_dense(rng, l)); } }
    pool.push(vec![F::one()]); pool.push(vec![-F::one()]); pool.push(vec![F::zero(), F::one()]);
    let xs: Vec<F> = vec![F::zero(), F::one(), -F::one(), rand_el(rng), rand_el(rng), F::GENERATOR];
    for a in &pool { d_unary(&mut c, a); for x in &xs { d_eval(&mut c, a, x); d_scale(&mut c, a, x); } }
    // non-canonical stored vectors (public `coeffs` field): model = impl only
    let mut weird: Vec<Vec<F>> = vec![vec![F::zero()], vec![F::zero(); 3], vec![F::one(), F::zero()], vec![F::zero(), F::one(), F::zero(), F::zero()]];
    for _ in 0..reps { let mut v = rand_dense::<F>(rng, 3); v.push(F::zero()); weird.push(v); }
    for a in &weird { d_unary(&mut c, a); for x in &xs { d_eval(&mut c, a, x); d_scale(&mut c, a, x); } }
    // correlated pairs
    let mut pairs: Vec<(Vec<F>, Vec<F>)> = Vec::new();
    for a in &pool {
        let n = a.len();
        pairs.push((a.clone(), a.clone()));                                   // equal
        pairs.push((a.clone(), a.iter().map(|x| -*x).collect()));             // q = −p
        pairs.push((a.clone(), vec![]));                                      // zero
        pairs.push((vec![], a.clone()));
        if n > 0 {
            let mut b = rand_dense::<F>(rng, n); b[n - 1] = -a[n - 1]; pairs.push((a.clone(), b.clone()));   // cancelling lead (add)
            let mut b2 = b.clone(); b2[n - 1] = a[n - 1]; pairs.push((a.clone(), b2));                        // cancelling lead (sub)
            if n > 2 { let mut b3 = a.clone(); b3[0] += F::one(); pairs.push((a.clone(), b3.clone()));        // differ in the constant only
                       let mut b4: Vec<F> = a.iter().map(|x| -*x).collect(); b4[1] += F::one(); pairs.push((a.clone(), b4)); }
            pairs.push((a.clone(), vec![rand_nz(rng)]));                       // constant divisor
            pairs.push((a.clone(), a[..n / 2 + 1].iter().cloned().chain(std::iter::once(F::one())).collect()));
        }
    }
    for _ in 0..(reps * 40) {
        let a = pool[rng.below(pool.len() as u64) as usize].clone(); let b = pool[rng.below(pool.len() as u64) as usize].clone();
        pairs.push((a, b));
    }
    // exact multiples (remainder zero) and products plus small remainder
    for _ in 0..(reps * 10) {
        let (lb, lq) = (1 + rng.below(4) as usize, 1 + rng.below(4) as usize); let b = rand_dense::<F>(rng, lb); let q = rand_dense::<F>(rng, lq);
        let prod = dp(&b).naive_mul(&dp(&q)).coeffs;
        pairs.push((prod.clone(), b.clone()));
        let mut pr = prod; pr[0] += F::one(); pairs.push((pr, b));
    }
    for a in &weird { pairs.push((a.clone(), pool[3].clone())); pairs.push((pool[4].clone(), a.clone())); pairs.push((a.clone(), a.clone())); pairs.push((a.clone(), vec![])); pairs.push((vec![], a.clone())); }
    let fs: Vec<F> = vec![F::zero(), F::one(), -F::one(), rand_nz(rng)];
    for (a, b) in &pairs {
        dd_core(&mut c, a, b); dd_more(&mut c, a, b);
        for f in &fs { dd_scaled(&mut c, a, f, b); }
        // f chosen so that the leading terms cancel
        if !b.is_empty() && a.len() == b.len() && !b[b.len() - 1].is_zero() {
            let f = -a[a.len() - 1] / b[b.len() - 1]; dd_scaled(&mut c, a, &f, b);
        }
    }
    // sparse pool: degrees below / equal / above the dense operands, plus large degrees
    let mut spool: Vec<SparsePolynomial<F>> = vec![sp(&[]).unwrap()];
    for _ in 0..reps { for &d in &[0usize, 1, 2, 3, 4, 5, 7, 8, 9, 16, 20, 64, 100] { let k = 1 + rng.below(4) as usize; spool.push(rand_sparse(rng, d, k)); } }
    for s in &spool { s_unary(&mut c, s); for x in &xs { s_eval(&mut c, s, x); s_scale(&mut c, s, x); } }
    for a in &pool {
        let n = a.len();
        let mut ss: Vec<SparsePolynomial<F>> = Vec::new();
        for _ in 0..3 { ss.push(spool[rng.below(spool.len() as u64) as usize].clone()); }
        ss.push(sp(&[]).unwrap());
        if n > 0 {
            ss.push(sp(&[(n - 1, -a[n - 1])]).unwrap());                       // cancels the lead under +
            ss.push(sp(&[(n - 1, a[n - 1])]).unwrap());                        // cancels the lead under −
            ss.push(sp(&[(n - 1, a[n - 1]), (n, F::one())]).unwrap());         // cancels the lead and goes above
            ss.push(sp(&[(0, a[0] + F::one()), (n + 2, rand_nz(rng))]).unwrap());
            ss.push(SparsePolynomial::from(dp(a)));                            // the same polynomial
            ss.push(-SparsePolynomial::from(dp(a)));                           // its negation
            if n > 1 { ss.push(rand_sparse(rng, n - 2, 2)); ss.push(rand_sparse(rng, n - 1, 2)); }
            ss.push(rand_sparse(rng, n, 2)); ss.push(rand_sparse(rng, n + 3, 2));
        }
        for s in &ss { ds_ops(&mut c, a, s); ds_div(&mut c, a, s); }
    }
    for a in &weird { for s in spool.iter().take(6) { ds_ops(&mut c, a, s); ds_div(&mut c, a, s); } }
    for s in &spool {
        let mut ts: Vec<SparsePolynomial<F>> = vec![s.clone(), -s.clone(), sp(&[]).unwrap()];
        for _ in 0..4 { ts.push(spool[rng.below(spool.len() as u64) as usize].clone()); }
        if let Some(&(d, cf)) = s.to_vec().last() { ts.push(sp(&[(d, -cf)]).unwrap()); ts.push(sp(&[(d, cf)]).unwrap()); ts.push(sp(&[(0, F::one()), (d, -cf), (d + 5, F::one())]).unwrap()); }
        for t in &ts { ss_ops(&mut c, s, t, true); ss_ops(&mut c, t, s, false); for f in &fs { ss_scaled(&mut c, s, f, t); } }
    }
    // sparse constructor: duplicates, zero coefficients (trailing / middle / leading position), unsorted input
    let (x, y) = (rand_nz::<F>(rng), rand_nz::<F>(rng));
    let z = F::zero();
    let mut raws: Vec<Terms<F>> = vec![
        vec![], vec![(0, z)], vec![(3, z)], vec![(0, x)], vec![(5, x)], vec![(2, x), (0, y)], vec![(0, x), (2, y)],
        vec![(1, x), (1, y)], vec![(1, x), (1, -x)], vec![(0, x), (1, z), (2, y)], vec![(0, x), (1, y), (2, z)],
        vec![(0, z), (1, y)], vec![(5, z), (1, y)], vec![(1, y), (5, z)], vec![(5, z), (1, y), (0, z)], vec![(2, x), (1, z), (0, y)],
        vec![(2, x), (2, y), (2, -x - y)], vec![(0, z), (0, z)], vec![(7, x), (3, y), (7, y), (3, x)], vec![(4, x), (0, z), (4, z)],
    ];
    for _ in 0..(reps * 20) {
        let k = 1 + rng.below(5) as usize;
        raws.push((0..k).map(|_| (rng.below(6) as usize, if rng.below(3) == 0 { F::zero() } else { rand_nz(rng) })).collect());
    }
    let mut odd: Vec<SparsePolynomial<F>> = Vec::new();
    for raw in &raws { s_from(&mut c, raw); if let Some(s) = sp(raw) { if !odd.contains(&s) { odd.push(s); } } }
    for s in &odd {
        s_unary(&mut c, s); for xx in &xs { s_eval(&mut c, s, xx); }
        for t in spool.iter().take(5) { ss_ops(&mut c, s, t, true); ss_ops(&mut c, t, s, true); }
        for a in pool.iter().take(8) { ds_ops(&mut c, a, s); ds_div(&mut c, a, s); }
    }
    // domains and cosets, operands shorter and longer than the domain
    let offs: Vec<F> = vec![F::GENERATOR, rand_nz(rng), -F::one()];
    let doms = domains(&[1, 2, 4, 8], &offs);
    let doms: Vec<Dom<F>> = if thorough { let mut d = doms; d.extend(domains(&[16, 32, 64], &offs[..1])); d } else { doms };
    for d in &doms {
        let n = d.size();
        let mut ls: Vec<usize> = vec![0, 1, 2, n.saturating_sub(1), n, n + 1, 2 * n - 1, 2 * n, 2 * n + 1, 3 * n, 3 * n + 2, 4 * n + 1];
        if n >= 8 { ls.push(n / 4); ls.push(n / 4 + 1); }
        ls.sort(); ls.dedup();
        for _ in 0..(if n >= 16 { reps.min(2) } else { reps }) { for &l in &ls {
            let a = rand_dense::<F>(rng, l); dom_ops(&mut c, &a, d);
            // multiples of the vanishing polynomial plus a low remainder
            if l > 0 { let m = dp(&a).naive_mul(&DensePolynomial::from(d.vanishing_polynomial())).coeffs; dom_ops(&mut c, &m, d);
                       let mut m2 = m.clone(); m2[0] += F::one(); dom_ops(&mut c, &m2, d); }
            // X^n − 1 multiples as well (the polynomial the code actually divides by)
            if l > 0 { let mut w = vec![F::zero(); n]; w.extend_from_slice(&a); for i in 0..a.len() { w[i] -= a[i]; } if canon(&w) { dom_ops(&mut c, &w, d); } }
        } }
        for a in &weird { dom_ops(&mut c, a, d); }
        for s in spool.iter().take(10) { dom_sparse(&mut c, s, d); }
        for k in [0usize, 1, n / 2, n.saturating_sub(1), n, n + 1, 2 * n] {
            let ev: Vec<F> = (0..k).map(|_| rand_el(rng)).collect(); dom_interp(&mut c, &ev, d);
        }
        dom_interp(&mut c, &vec![F::zero(); n], d);
        dom_interp(&mut c, &vec![xs[3]; n], d);
        // evaluations of a low-degree polynomial (interpolant has leading zeros to truncate)
        let low = rand_dense::<F>(rng, (n / 2).max(1));
        let ev: Vec<F> = d.elements().map(|e| dp(&low).evaluate(&e)).collect(); dom_interp(&mut c, &ev, d);
    }
    big_extra(rng, &mut c, &pool, &weird, &pairs, &spool, &doms, &xs, thorough);
}

fn main() {
    let a = arkharness::args();
    let mut rng = Rng::new(a.seed);
    let mut out = Out::new();
    let th = a.thorough;
    let only = a.only.clone().unwrap_or_default();
    let want = |n: &str| only.is_empty() || only == n;
    if want("f5") {
        toy::<FDT5>(&mut rng, &mut out, &if th { Toy { lc: 4, ln: 3, ls_terms: 3, dense_for_sparse: 3, sample: 20000, raw_len: 4, pool_len: 6, few_cap: 125, max_offsets: 12 } }
                                         else { Toy { lc: 3, ln: 2, ls_terms: 3, dense_for_sparse: 2, sample: 1500, raw_len: 3, pool_len: 5, few_cap: 61, max_offsets: 12 } });
    }
    if want("f7") {
        toy::<FDT7>(&mut rng, &mut out, &if th { Toy { lc: 3, ln: 2, ls_terms: 2, dense_for_sparse: 3, sample: 10000, raw_len: 3, pool_len: 6, few_cap: 80, max_offsets: 12 } }
                                         else { Toy { lc: 2, ln: 1, ls_terms: 2, dense_for_sparse: 1, sample: 600, raw_len: 2, pool_len: 5, few_cap: 30, max_offsets: 4 } });
    }
    if want("f13") {
        toy::<FDT13>(&mut rng, &mut out, &if th { Toy { lc: 2, ln: 1, ls_terms: 2, dense_for_sparse: 1, sample: 10000, raw_len: 3, pool_len: 6, few_cap: 80, max_offsets: 12 } }
                                          else { Toy { lc: 1, ln: 1, ls_terms: 1, dense_for_sparse: 2, sample: 600, raw_len: 2, pool_len: 5, few_cap: 30, max_offsets: 4 } });
    }
    if want("fr") { big::<ark_test_curves::bls12_381::Fr>(&mut rng, &mut out, th); }
    out.flush();
}
