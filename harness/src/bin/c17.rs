//! C17: dense / sparse multilinear extensions and sparse multivariate polynomials.
//!
//! Line syntax (all numbers lower-case hex, field elements as standard integers, `<p>` = modulus):
//!   dense MLE     `<nv> <tbl>`            tbl = comma list (`_` empty)
//!   sparse MLE    `<nv> <ents>`           ents = `i:v,i:v,…` (`_` empty); inputs are the raw list handed
//!                                         to `from_evaluations` (any order, duplicates), outputs are the
//!                                         BTreeMap contents in key order
//!   monomial      `v^e.v^e…` (`_` empty)  raw list handed to `SparseTerm::new` / stored list on output
//!   term list     `c@mon;c@mon…` (`~` empty)
#![allow(dead_code, deprecated)]
use ark_ff::PrimeField;
use ark_poly::{
    multivariate::{SparsePolynomial, SparseTerm, Term},
    DenseMVPolynomial, DenseMultilinearExtension as Dn, MultilinearExtension, Polynomial,
    SparseMultilinearExtension as Sp,
};
use ark_std::{ops::Neg, Zero};
use arkharness::util::*;
use arkharness::zoo::{FDT13, FDT5};

type MV<F> = SparsePolynomial<F, SparseTerm>;
type RawMon = Vec<(usize, usize)>;
type RawTerms<F> = Vec<(F, RawMon)>;
type Ents<F> = Vec<(usize, F)>;

// ------------------------------------------------------------------ printing
fn fe<F: PrimeField>(x: &F) -> String { hex_limbs(x.into_bigint().as_ref()) }
fn fl<F: PrimeField>(v: &[F]) -> String {
    if v.is_empty() { "_".into() } else { v.iter().map(fe).collect::<Vec<_>>().join(",") }
}
fn modulus<F: PrimeField>() -> String { hex_limbs(F::MODULUS.as_ref()) }
fn dstr<F: PrimeField>(p: &Dn<F>) -> String { format!("{:x} {}", p.num_vars, fl(&p.evaluations)) }
fn ents<F: PrimeField>(e: &[(usize, F)]) -> String {
    if e.is_empty() { "_".into() } else { e.iter().map(|(i, v)| format!("{:x}:{}", i, fe(v))).collect::<Vec<_>>().join(",") }
}
fn sstr<F: PrimeField>(p: &Sp<F>) -> String {
    let e: Ents<F> = p.evaluations.iter().map(|(i, v)| (*i, *v)).collect();
    format!("{:x} {}", p.num_vars, ents(&e))
}
fn mon(m: &[(usize, usize)]) -> String {
    if m.is_empty() { "_".into() } else { m.iter().map(|(v, e)| format!("{:x}^{:x}", v, e)).collect::<Vec<_>>().join(".") }
}
fn terms<F: PrimeField>(t: &[(F, RawMon)]) -> String {
    if t.is_empty() { "~".into() } else { t.iter().map(|(c, m)| format!("{}@{}", fe(c), mon(m))).collect::<Vec<_>>().join(";") }
}
fn mvstr<F: PrimeField>(p: &MV<F>) -> String {
    let t: RawTerms<F> = p.terms.iter().map(|(c, m)| (*c, m.to_vec())).collect();
    format!("{:x} {}", p.num_vars, terms(&t))
}
fn b01(x: bool) -> String { if x { "1".into() } else { "0".into() } }

/// print one line per *distinct* result among the API variants of the same operation
fn emit(o: &mut Out, inp: &str, mut rs: Vec<String>) {
    rs.dedup();
    let mut seen: Vec<String> = Vec::new();
    for r in rs { if !seen.contains(&r) { o.line(inp, &r); seen.push(r); } }
}

// ------------------------------------------------------------------ constructors used by the ops
fn dn<F: PrimeField>(nv: usize, t: &[F]) -> Dn<F> { Dn::from_evaluations_vec(nv, t.to_vec()) }
fn sp<F: PrimeField>(nv: usize, e: &[(usize, F)]) -> Sp<F> { Sp::from_evaluations(nv, e) }
fn mv<F: PrimeField>(nv: usize, t: &[(F, RawMon)]) -> MV<F> {
    MV::from_coefficients_vec(nv, t.iter().map(|(c, m)| (*c, SparseTerm::new(m.clone()))).collect())
}

// ------------------------------------------------------------------ dense ops
fn d_unary<F: PrimeField>(o: &mut Out, p: &str, nv: usize, t: &[F]) {
    let a = format!("{} {:x} {}", p, nv, fl(t));
    emit(o, &format!("C17 dnew {}", a), vec![
        guarded(|| dstr(&Dn::from_evaluations_vec(nv, t.to_vec()))),
        guarded(|| dstr(&Dn::from_evaluations_slice(nv, t))),
    ]);
    emit(o, &format!("C17 dtoevals {}", a), vec![
        guarded(|| fl(&dn(nv, t).to_evaluations())),
        guarded(|| fl(&dn(nv, t).iter().cloned().collect::<Vec<_>>())),
        guarded(|| { let q = dn(nv, t); fl(&(&q).into_iter().cloned().collect::<Vec<_>>()) }),
    ]);
    o.line(&format!("C17 dneg {}", a), &guarded(|| dstr(&dn(nv, t).neg())));
    o.line(&format!("C17 diszero {}", a), &guarded(|| b01(dn(nv, t).is_zero())));
    o.line(&format!("C17 dnumvars {}", a), &guarded(|| { let q = dn(nv, t); format!("{:x} {:x}", q.num_vars(), q.degree()) }));
}
fn d_eval<F: PrimeField>(o: &mut Out, p: &str, nv: usize, t: &[F], pt: &[F]) {
    o.line(&format!("C17 deval {} {:x} {} {}", p, nv, fl(t), fl(pt)), &guarded(|| fe(&dn(nv, t).evaluate(&pt.to_vec()))));
}
fn d_fix<F: PrimeField>(o: &mut Out, p: &str, nv: usize, t: &[F], pt: &[F]) {
    o.line(&format!("C17 dfix {} {:x} {} {}", p, nv, fl(t), fl(pt)), &guarded(|| dstr(&dn(nv, t).fix_variables(pt))));
}
fn d_relabel<F: PrimeField>(o: &mut Out, p: &str, nv: usize, t: &[F], a: usize, b: usize, k: usize) {
    emit(o, &format!("C17 drelabel {} {:x} {} {:x} {:x} {:x}", p, nv, fl(t), a, b, k), vec![
        guarded(|| dstr(&dn(nv, t).relabel(a, b, k))),
        guarded(|| { let mut q = dn(nv, t); q.relabel_in_place(a, b, k); dstr(&q) }),
    ]);
}
fn d_index<F: PrimeField>(o: &mut Out, p: &str, nv: usize, t: &[F], i: usize) {
    o.line(&format!("C17 dindex {} {:x} {} {:x}", p, nv, fl(t), i), &guarded(|| fe(&dn(nv, t)[i])));
}
fn d_bin<F: PrimeField>(o: &mut Out, p: &str, nv1: usize, t1: &[F], nv2: usize, t2: &[F]) {
    let a = format!("{} {:x} {} {:x} {}", p, nv1, fl(t1), nv2, fl(t2));
    emit(o, &format!("C17 dadd {}", a), vec![
        guarded(|| dstr(&(&dn(nv1, t1) + &dn(nv2, t2)))),
        guarded(|| dstr(&(dn(nv1, t1) + dn(nv2, t2)))),
        guarded(|| { let mut q = dn(nv1, t1); q += dn(nv2, t2); dstr(&q) }),
        guarded(|| { let mut q = dn(nv1, t1); q += &dn(nv2, t2); dstr(&q) }),
    ]);
    emit(o, &format!("C17 dsub {}", a), vec![
        guarded(|| dstr(&(&dn(nv1, t1) - &dn(nv2, t2)))),
        guarded(|| dstr(&(dn(nv1, t1) - dn(nv2, t2)))),
        guarded(|| { let mut q = dn(nv1, t1); q -= dn(nv2, t2); dstr(&q) }),
        guarded(|| { let mut q = dn(nv1, t1); q -= &dn(nv2, t2); dstr(&q) }),
    ]);
}
fn d_mul<F: PrimeField>(o: &mut Out, p: &str, nv: usize, t: &[F], s: F) {
    emit(o, &format!("C17 dmul {} {:x} {} {}", p, nv, fl(t), fe(&s)), vec![
        guarded(|| dstr(&(&dn(nv, t) * &s))),
        guarded(|| dstr(&(dn(nv, t) * s))),
        guarded(|| { let mut q = dn(nv, t); q *= s; dstr(&q) }),
        guarded(|| { let mut q = dn(nv, t); q *= &s; dstr(&q) }),
    ]);
}
fn d_addscaled<F: PrimeField>(o: &mut Out, p: &str, nv1: usize, t1: &[F], f: F, nv2: usize, t2: &[F]) {
    o.line(&format!("C17 daddscaled {} {:x} {} {} {:x} {}", p, nv1, fl(t1), fe(&f), nv2, fl(t2)),
        &guarded(|| { let mut q = dn(nv1, t1); q += (f, &dn(nv2, t2)); dstr(&q) }));
}
fn d_concat<F: PrimeField>(o: &mut Out, p: &str, ps: &[(usize, Vec<F>)]) {
    let arg = if ps.is_empty() { "~".to_string() } else { ps.iter().map(|(nv, t)| format!("{:x}:{}", nv, fl(t))).collect::<Vec<_>>().join(";") };
    emit(o, &format!("C17 dconcat {} {}", p, arg), vec![
        guarded(|| { let v: Vec<Dn<F>> = ps.iter().map(|(nv, t)| dn(*nv, t)).collect(); dstr(&Dn::concat(&v)) }),
        guarded(|| { let v: Vec<Dn<F>> = ps.iter().map(|(nv, t)| dn(*nv, t)).collect(); dstr(&Dn::concat(v.iter())) }),
    ]);
}

// ------------------------------------------------------------------ sparse ops
fn s_unary<F: PrimeField>(o: &mut Out, p: &str, nv: usize, e: &[(usize, F)]) {
    let a = format!("{} {:x} {}", p, nv, ents(e));
    o.line(&format!("C17 snew {}", a), &guarded(|| sstr(&sp(nv, e))));
    o.line(&format!("C17 stoevals {}", a), &guarded(|| fl(&sp(nv, e).to_evaluations())));
    o.line(&format!("C17 stodense {}", a), &guarded(|| dstr(&sp(nv, e).to_dense_multilinear_extension())));
    o.line(&format!("C17 sneg {}", a), &guarded(|| sstr(&sp(nv, e).neg())));
    o.line(&format!("C17 siszero {}", a), &guarded(|| b01(sp(nv, e).is_zero())));
    o.line(&format!("C17 snumvars {}", a), &guarded(|| { let q = sp(nv, e); format!("{:x} {:x}", q.num_vars(), q.degree()) }));
}
fn s_eval<F: PrimeField>(o: &mut Out, p: &str, nv: usize, e: &[(usize, F)], pt: &[F]) {
    o.line(&format!("C17 seval {} {:x} {} {}", p, nv, ents(e), fl(pt)), &guarded(|| fe(&sp(nv, e).evaluate(&pt.to_vec()))));
}
fn s_fix<F: PrimeField>(o: &mut Out, p: &str, nv: usize, e: &[(usize, F)], pt: &[F]) {
    o.line(&format!("C17 sfix {} {:x} {} {}", p, nv, ents(e), fl(pt)), &guarded(|| sstr(&sp(nv, e).fix_variables(pt))));
}
fn s_relabel<F: PrimeField>(o: &mut Out, p: &str, nv: usize, e: &[(usize, F)], a: usize, b: usize, k: usize) {
    o.line(&format!("C17 srelabel {} {:x} {} {:x} {:x} {:x}", p, nv, ents(e), a, b, k), &guarded(|| sstr(&sp(nv, e).relabel(a, b, k))));
}
fn s_index<F: PrimeField>(o: &mut Out, p: &str, nv: usize, e: &[(usize, F)], i: usize) {
    o.line(&format!("C17 sindex {} {:x} {} {:x}", p, nv, ents(e), i), &guarded(|| fe(&sp(nv, e)[i])));
}
fn s_bin<F: PrimeField>(o: &mut Out, p: &str, nv1: usize, e1: &[(usize, F)], nv2: usize, e2: &[(usize, F)]) {
    let a = format!("{} {:x} {} {:x} {}", p, nv1, ents(e1), nv2, ents(e2));
    emit(o, &format!("C17 sadd {}", a), vec![
        guarded(|| sstr(&(&sp(nv1, e1) + &sp(nv2, e2)))),
        guarded(|| sstr(&(sp(nv1, e1) + sp(nv2, e2)))),
        guarded(|| { let mut q = sp(nv1, e1); q += sp(nv2, e2); sstr(&q) }),
        guarded(|| { let mut q = sp(nv1, e1); q += &sp(nv2, e2); sstr(&q) }),
    ]);
    emit(o, &format!("C17 ssub {}", a), vec![
        guarded(|| sstr(&(&sp(nv1, e1) - &sp(nv2, e2)))),
        guarded(|| sstr(&(sp(nv1, e1) - sp(nv2, e2)))),
        guarded(|| { let mut q = sp(nv1, e1); q -= sp(nv2, e2); sstr(&q) }),
        guarded(|| { let mut q = sp(nv1, e1); q -= &sp(nv2, e2); sstr(&q) }),
    ]);
}
fn s_addscaled<F: PrimeField>(o: &mut Out, p: &str, nv1: usize, e1: &[(usize, F)], f: F, nv2: usize, e2: &[(usize, F)]) {
    o.line(&format!("C17 saddscaled {} {:x} {} {} {:x} {}", p, nv1, ents(e1), fe(&f), nv2, ents(e2)),
        &guarded(|| { let mut q = sp(nv1, e1); q += (f, &sp(nv2, e2)); sstr(&q) }));
}
/// dense and sparse form of the same table, side by side
fn x_eval<F: PrimeField>(o: &mut Out, p: &str, nv: usize, t: &[F], pt: &[F]) {
    let e = nonzero_ents(t);
    o.line(&format!("C17 xeval {} {:x} {} {}", p, nv, fl(t), fl(pt)),
        &guarded(|| format!("{} {}", fe(&dn(nv, t).evaluate(&pt.to_vec())), fe(&sp(nv, &e).evaluate(&pt.to_vec())))));
}
fn x_fix<F: PrimeField>(o: &mut Out, p: &str, nv: usize, t: &[F], pt: &[F]) {
    let e = nonzero_ents(t);
    o.line(&format!("C17 xfix {} {:x} {} {}", p, nv, fl(t), fl(pt)),
        &guarded(|| format!("{} {}", dstr(&dn(nv, t).fix_variables(pt)), dstr(&sp(nv, &e).fix_variables(pt).to_dense_multilinear_extension()))));
}

// ------------------------------------------------------------------ multivariate ops
fn t_ops(o: &mut Out, m: &RawMon) {
    o.line(&format!("C17 tnew {}", mon(m)), &guarded(|| mon(&SparseTerm::new(m.clone()))));
    o.line(&format!("C17 tdeg {}", mon(m)), &guarded(|| { let t = SparseTerm::new(m.clone());
        format!("{:x} {} {} {}", t.degree(), hex_list_u64(&t.vars().iter().map(|x| *x as u64).collect::<Vec<_>>()),
            hex_list_u64(&t.powers().iter().map(|x| *x as u64).collect::<Vec<_>>()), b01(t.is_constant())) }));
}
fn t_eval<F: PrimeField>(o: &mut Out, p: &str, m: &RawMon, pt: &[F]) {
    o.line(&format!("C17 teval {} {} {}", p, mon(m), fl(pt)), &guarded(|| fe(&SparseTerm::new(m.clone()).evaluate::<F>(pt))));
}
fn t_cmp(o: &mut Out, m1: &RawMon, m2: &RawMon) {
    let (a, b) = (SparseTerm::new(m1.clone()), SparseTerm::new(m2.clone()));
    let s = |x: core::cmp::Ordering| match x { core::cmp::Ordering::Less => "lt", core::cmp::Ordering::Equal => "eq", core::cmp::Ordering::Greater => "gt" };
    emit(o, &format!("C17 tcmp {} {}", mon(m1), mon(m2)), vec![
        format!("{} {}", s(a.cmp(&b)), b01(a == b)),
        format!("{} {}", s(a.partial_cmp(&b).unwrap()), b01(a == b)),
    ]);
}
fn mv_unary<F: PrimeField>(o: &mut Out, p: &str, nv: usize, t: &RawTerms<F>) {
    let a = format!("{} {:x} {}", p, nv, terms(t));
    emit(o, &format!("C17 mvnew {}", a), vec![
        guarded(|| mvstr(&mv(nv, t))),
        guarded(|| { let v: Vec<(F, SparseTerm)> = t.iter().map(|(c, m)| (*c, SparseTerm::new(m.clone()))).collect(); mvstr(&MV::from_coefficients_slice(nv, &v)) }),
        guarded(|| { let q = mv(nv, t); let tt: RawTerms<F> = q.terms().iter().map(|(c, m)| (*c, m.to_vec())).collect(); format!("{:x} {}", DenseMVPolynomial::num_vars(&q), terms(&tt)) }),
    ]);
    o.line(&format!("C17 mvdeg {}", a), &guarded(|| format!("{:x}", mv(nv, t).degree())));
    o.line(&format!("C17 mviszero {}", a), &guarded(|| b01(mv(nv, t).is_zero())));
    o.line(&format!("C17 mvneg {}", a), &guarded(|| mvstr(&mv(nv, t).neg())));
}
fn mv_eval<F: PrimeField>(o: &mut Out, p: &str, nv: usize, t: &RawTerms<F>, pt: &[F]) {
    o.line(&format!("C17 mveval {} {:x} {} {}", p, nv, terms(t), fl(pt)), &guarded(|| fe(&mv(nv, t).evaluate(&pt.to_vec()))));
}
fn mv_bin<F: PrimeField>(o: &mut Out, p: &str, nv1: usize, t1: &RawTerms<F>, nv2: usize, t2: &RawTerms<F>, pts: &[Vec<F>]) {
    let a = format!("{} {:x} {} {:x} {}", p, nv1, terms(t1), nv2, terms(t2));
    emit(o, &format!("C17 mvadd {}", a), vec![
        guarded(|| mvstr(&(&mv(nv1, t1) + &mv(nv2, t2)))),
        guarded(|| mvstr(&(mv(nv1, t1) + mv(nv2, t2)))),
        guarded(|| { let mut q = mv(nv1, t1); q += &mv(nv2, t2); mvstr(&q) }),
    ]);
    emit(o, &format!("C17 mvsub {}", a), vec![
        guarded(|| mvstr(&(&mv(nv1, t1) - &mv(nv2, t2)))),
        guarded(|| { let mut q = mv(nv1, t1); q -= &mv(nv2, t2); mvstr(&q) }),
    ]);
    for pt in pts {
        o.line(&format!("C17 mvaddev {} {}", a, fl(pt)), &guarded(|| fe(&(&mv(nv1, t1) + &mv(nv2, t2)).evaluate(pt))));
        o.line(&format!("C17 mvsubev {} {}", a, fl(pt)), &guarded(|| fe(&(&mv(nv1, t1) - &mv(nv2, t2)).evaluate(pt))));
    }
}
fn mv_addscaled<F: PrimeField>(o: &mut Out, p: &str, nv1: usize, t1: &RawTerms<F>, f: F, nv2: usize, t2: &RawTerms<F>, pts: &[Vec<F>]) {
    let a = format!("{} {:x} {} {} {:x} {}", p, nv1, terms(t1), fe(&f), nv2, terms(t2));
    o.line(&format!("C17 mvaddscaled {}", a), &guarded(|| { let mut q = mv(nv1, t1); q += (f, &mv(nv2, t2)); mvstr(&q) }));
    for pt in pts {
        o.line(&format!("C17 mvaddscaledev {} {}", a, fl(pt)), &guarded(|| { let mut q = mv(nv1, t1); q += (f, &mv(nv2, t2)); fe(&q.evaluate(pt)) }));
    }
}

// ------------------------------------------------------------------ generators
fn nonzero_ents<F: PrimeField>(t: &[F]) -> Ents<F> {
    t.iter().enumerate().filter(|(_, v)| !v.is_zero()).map(|(i, v)| (i, *v)).collect()
}
/// raw `from_evaluations` lists denoting table `t` (later pairs override earlier ones)
fn sparse_variant<F: PrimeField>(t: &[F], k: usize) -> Ents<F> {
    let nz = nonzero_ents(t);
    match k % 4 {
        0 => nz,
        1 => t.iter().enumerate().map(|(i, v)| (i, *v)).collect(),           // explicit zeros
        2 => nz.into_iter().rev().collect(),                                  // descending
        _ => {
            let mut e: Ents<F> = Vec::new();
            if let Some((i, v)) = nz.first() { e.push((*i, *v + F::one())); }        // overridden below
            if let Some((i, v)) = nz.last() { e.push((*i, *v + *v)); }
            if t[0].is_zero() { e.push((0, F::zero())); }                        // explicit zero entry
            if t.len() > 1 && t[t.len() - 1].is_zero() { e.push((t.len() - 1, F::one())); e.push((t.len() - 1, F::zero())); } // overridden by zero
            e.extend(nz.iter().rev().cloned());
            e
        },
    }
}
fn all_tuples<F: Copy>(n: usize, s: &[F]) -> Vec<Vec<F>> {
    let mut r: Vec<Vec<F>> = vec![vec![]];
    for _ in 0..n {
        let mut r2 = Vec::with_capacity(r.len() * s.len());
        for x in s { for t in &r { let mut u = t.clone(); u.push(*x); r2.push(u); } }
        r = r2;
    }
    r
}
fn rand_fe<F: PrimeField>(rng: &mut Rng) -> F {
    let mut b = [0u8; 48];
    for c in b.chunks_mut(8) { c.copy_from_slice(&rng.next().to_le_bytes()); }
    F::from_le_bytes_mod_order(&b)
}
/// structured field element: mostly random, sometimes 0, 1, -1, small
fn some_fe<F: PrimeField>(rng: &mut Rng) -> F {
    match rng.below(10) { 0 => F::zero(), 1 => F::one(), 2 => -F::one(), 3 => F::from(rng.below(5)), _ => rand_fe(rng) }
}

/// exhaustive part over a toy field
fn toy<F: PrimeField>(rng: &mut Rng, th: bool, o: &mut Out) {
    let p = modulus::<F>();
    let pv = F::MODULUS.as_ref()[0];
    let s3 = [F::zero(), F::one(), -F::one()];
    let s2 = [F::zero(), F::from(2u64)];
    let pts = [F::zero(), F::one(), F::from(2u64), -F::one()];
    let all_f: Vec<F> = (0..pv).map(F::from).collect();
    let mut pools: Vec<Vec<Vec<F>>> = Vec::new();   // tables per nv (used for the binary ops)
    for nv in 0..=3usize {
        let mut tables: Vec<Vec<F>> = if nv <= 2 || th { all_tuples(1 << nv, &s3) } else { all_tuples(1 << nv, &s2) };
        if nv == 3 && !th { let all = all_tuples(8, &s3); for _ in 0..150 { tables.push(all[rng.below(all.len() as u64) as usize].clone()); } }
        let allpts = all_tuples(nv, &pts);
        let boolpts = all_tuples(nv, &[F::zero(), F::one()]);
        for (ti, t) in tables.iter().enumerate() {
            let e = sparse_variant(t, ti);
            d_unary(o, &p, nv, t);
            s_unary(o, &p, nv, &e);
            if nv <= 2 || (th && ti % 4 == 0) {
                for pt in &allpts { d_eval(o, &p, nv, t, pt); s_eval(o, &p, nv, &e, pt); }
            } else {
                for pt in &boolpts { d_eval(o, &p, nv, t, pt); s_eval(o, &p, nv, &e, pt); }
                for _ in 0..4 { let pt = &allpts[rng.below(allpts.len() as u64) as usize]; d_eval(o, &p, nv, t, pt); s_eval(o, &p, nv, &e, pt); }
            }
            // partial assignments of every length < nv (length nv = evaluate above, also once through fix)
            if nv <= 2 || ti % (if th { 4 } else { 16 }) == 0 {
                for d in 0..=nv { for pt in all_tuples(d, &pts) { if d < nv || ti % 3 == 0 { d_fix(o, &p, nv, t, &pt); s_fix(o, &p, nv, &e, &pt); } } }
            }
            if nv <= 1 || ti % 16 == 0 {
                for i in 0..(1usize << nv) + 2 { d_index(o, &p, nv, t, i); s_index(o, &p, nv, &e, i); }
                for s in &all_f { d_mul(o, &p, nv, t, *s); }
            } else { d_mul(o, &p, nv, t, F::zero()); d_mul(o, &p, nv, t, F::one()); d_mul(o, &p, nv, t, all_f[2 + (ti % (all_f.len() - 2))]); }
        }
        // wrong-length tables for the constructors, out-of-range sparse indices, wrong-length points
        for len in [0usize, 1, 2, 3, (1 << nv) + 1, 1 << (nv + 1)] { if len != 1 << nv { let t: Vec<F> = (0..len).map(|i| F::from(i as u64 + 1)).collect(); d_unary(o, &p, nv, &t); } }
        s_unary(o, &p, nv, &[(1usize << nv, F::one())]);
        s_unary(o, &p, nv, &[(0usize, F::one()), ((1usize << nv) + 3, F::zero())]);
        // explicit zero entries (is_zero must look at the values, not at the number of entries)
        s_unary(o, &p, nv, &[(0usize, F::zero())]);
        s_unary(o, &p, nv, &[(0usize, F::one()), (0usize, F::zero())]);
        s_unary(o, &p, nv, &[(0usize, F::zero()), (0usize, F::one())]);
        { let t: Vec<F> = (0..1usize << nv).map(|i| F::from(i as u64 + 1)).collect(); let e = nonzero_ents(&t);
          for len in 0..=nv + 2 { if len != nv { let pt: Vec<F> = (0..len).map(|i| F::from(i as u64 + 2)).collect();
              d_eval(o, &p, nv, &t, &pt); s_eval(o, &p, nv, &e, &pt); if len > nv { d_fix(o, &p, nv, &t, &pt); s_fix(o, &p, nv, &e, &pt); } } } }
        // relabel: every window (a, b, k), valid or not, on value-distinguishing tables
        let mut rt: Vec<Vec<F>> = vec![(0..1usize << nv).map(|i| F::from(i as u64 + 1)).collect(), (0..1usize << nv).map(|i| F::from((i * i) as u64)).collect(), vec![F::zero(); 1 << nv]];
        for _ in 0..(if th { 6 } else { 2 }) { rt.push(tables[rng.below(tables.len() as u64) as usize].clone()); }
        for (ti, t) in rt.iter().enumerate() {
            let e = sparse_variant(t, ti);
            for a in 0..=nv + 1 { for b in 0..=nv + 1 { for k in 0..=nv + 1 { d_relabel(o, &p, nv, t, a, b, k); s_relabel(o, &p, nv, &e, a, b, k); } } }
        }
        pools.push(if nv <= 2 { tables } else { tables.into_iter().take(0).collect() });
    }
    // binary operators: every pair of arities 0..=2 (mismatched arities and the zero polynomial included)
    let mut cnt = 0usize;
    for nv1 in 0..=2usize { for nv2 in 0..=2usize {
        let (l1, l2) = (pools[nv1].len(), pools[nv2].len());
        let total = l1 * l2;
        // quick: all pairs with a 0-variable operand (zero-polynomial special cases), a sample of the rest
        let budget = if th { total } else if nv1 == nv2 { total.min(1200) } else if nv1 == 0 || nv2 == 0 { total.min(243) } else { total.min(40) };
        for n in 0..budget {
            let (i, j) = if budget == total { (n / l2, n % l2) } else { (rng.below(l1 as u64) as usize, rng.below(l2 as u64) as usize) };
            let (t1, t2) = (&pools[nv1][i], &pools[nv2][j]);
            let (e1, e2) = (sparse_variant(t1, cnt), sparse_variant(t2, cnt / 4)); cnt += 1;
            d_bin(o, &p, nv1, t1, nv2, t2);
            s_bin(o, &p, nv1, &e1, nv2, &e2);
            if n % 3 == 0 || (nv1 != nv2 && (i == 0 || j == 0 || n % 5 == 0)) { for f in &pts { d_addscaled(o, &p, nv1, t1, *f, nv2, t2); s_addscaled(o, &p, nv1, &e1, *f, nv2, &e2); } }
        }
    } }
    // concat
    let tb = |nv: usize, off: u64| -> (usize, Vec<F>) { (nv, (0..1usize << nv).map(|i| F::from(i as u64 + off)).collect()) };
    let cases: Vec<Vec<(usize, Vec<F>)>> = vec![
        vec![], vec![tb(0, 0)], vec![tb(0, 1)], vec![tb(2, 1)], vec![tb(0, 1), tb(0, 2)], vec![tb(1, 1), tb(1, 3)], vec![tb(2, 1), tb(2, 5)],
        vec![tb(2, 1), tb(1, 5)], vec![tb(1, 5), tb(2, 1)], vec![tb(0, 1), tb(0, 2), tb(0, 3)], vec![tb(1, 1), tb(1, 3), tb(1, 5)],
        vec![tb(1, 1), tb(1, 3), tb(1, 5), tb(1, 7), tb(1, 9)], vec![tb(3, 1), tb(0, 9), tb(1, 10)], vec![tb(0, 0), tb(3, 1)], vec![tb(2, 0), tb(2, 0), tb(2, 0), tb(2, 0)],
        vec![tb(3, 1), tb(3, 2)], vec![tb(0, 7); 9],
    ];
    for c in &cases { d_concat(o, &p, c); }
    o.line(&format!("C17 dzero {}", p), &dstr(&Dn::<F>::zero()));
    o.line(&format!("C17 szero {}", p), &sstr(&Sp::<F>::zero()));
    o.line(&format!("C17 mvzero {}", p), &mvstr(&MV::<F>::zero()));

    // ---- multivariate, small universe
    let mons: Vec<RawMon> = vec![
        vec![], vec![(0, 1)], vec![(1, 1)], vec![(0, 2)], vec![(0, 1), (1, 1)], vec![(1, 1), (0, 1)], vec![(0, 1), (0, 1)], vec![(2, 1)],
        vec![(0, 0)], vec![(1, 2), (0, 1)], vec![(0, 1), (1, 0), (0, 2)], vec![(2, 1), (0, 1), (2, 1)], vec![(3, 0)], vec![(1, 3)],
    ];
    let cs: Vec<F> = if th { vec![F::zero(), F::one(), -F::one(), F::from(2u64)] } else { vec![F::zero(), F::one(), -F::one()] };
    let mut lists: Vec<RawTerms<F>> = vec![vec![]];
    let singles: Vec<(F, RawMon)> = cs.iter().flat_map(|c| mons.iter().map(move |m| (*c, m.clone()))).collect();
    for s in &singles { lists.push(vec![s.clone()]); }
    for s in &singles { for t in &singles { lists.push(vec![s.clone(), t.clone()]); } }
    for _ in 0..(if th { 4000 } else { 400 }) {
        let n = 3 + rng.below(4) as usize;
        lists.push((0..n).map(|_| singles[rng.below(singles.len() as u64) as usize].clone()).collect());
    }
    let mpts: Vec<Vec<F>> = vec![
        vec![F::zero(); 3], vec![F::one(); 3], vec![F::from(2u64), -F::one(), F::one()], vec![-F::one(), F::from(2u64), F::zero()],
        vec![F::from(3u64), F::from(2u64), -F::one(), F::from(2u64)],   // longer than num_vars: allowed
    ];
    for (li, t) in lists.iter().enumerate() {
        mv_unary(o, &p, 3, t);
        for (pi, pt) in mpts.iter().enumerate() { if li < 60 || (li + pi) % 2 == 0 { mv_eval(o, &p, 3, t, pt); } }
        if li % 50 == 0 { mv_unary(o, &p, 2, t); mv_unary(o, &p, 0, t); mv_unary(o, &p, 4, t); mv_eval(o, &p, 3, t, &[F::one(), F::one()]); mv_eval(o, &p, 2, t, &[F::from(2u64), F::from(3u64)]); mv_eval(o, &p, 4, t, &mpts[2]); }
    }
    let npairs = if th { 6000 } else { 700 };
    for n in 0..npairs {
        let (i, j) = if n < 200 { (n % 15, n / 15) } else { (rng.below(lists.len() as u64) as usize, rng.below(lists.len() as u64) as usize) };
        let (nv1, nv2) = if n % 7 == 0 { (3, 4) } else if n % 11 == 0 { (4, 3) } else { (3, 3) };
        mv_bin(o, &p, nv1, &lists[i], nv2, &lists[j], &mpts[2..5]);
        if n % 3 == 0 { for f in &pts { mv_addscaled(o, &p, nv1, &lists[i], *f, nv2, &lists[j], &mpts[3..5]); } }
    }
    for m in &mons { for pt in &mpts { t_eval(o, &p, m, pt); } t_eval(o, &p, m, &[F::from(2u64)]); t_eval::<F>(o, &p, m, &[]); }
}

/// monomials for the field-independent term ops (construction, degree, ordering)
fn term_ops(rng: &mut Rng, th: bool, o: &mut Out) {
    let mut pool: Vec<RawMon> = vec![
        vec![], vec![(0, 0)], vec![(5, 0), (2, 0)], vec![(0, 1)], vec![(1, 1)], vec![(2, 1)], vec![(0, 2)], vec![(0, 1), (1, 1)], vec![(1, 1), (0, 1)],
        vec![(1, 2)], vec![(0, 1), (2, 1)], vec![(1, 1), (2, 1)], vec![(2, 2)], vec![(0, 3)], vec![(0, 2), (1, 1)], vec![(0, 1), (1, 2)], vec![(1, 3)],
        vec![(0, 1), (1, 1), (2, 1)], vec![(2, 1), (1, 1), (0, 1)], vec![(0, 1), (0, 1), (0, 1)], vec![(0, 1), (1, 1), (0, 1)], vec![(1, 1), (0, 2)],
        vec![(0, 2), (2, 1)], vec![(2, 1), (0, 0), (0, 2)], vec![(1, 2), (2, 1)], vec![(1, 1), (2, 2)], vec![(2, 3)], vec![(0, 1), (2, 2)], vec![(3, 1)], vec![(0, 1), (3, 1)],
        vec![(7, 1), (3, 2), (7, 4), (0, 0), (3, 1)], vec![(0, 4)], vec![(1, 1), (1, 1), (1, 1), (1, 1)], vec![(0, 2), (1, 2)], vec![(0, 3), (1, 1)], vec![(0, 1), (1, 3)],
    ];
    for _ in 0..(if th { 60 } else { 12 }) {
        let n = rng.below(6) as usize;
        pool.push((0..n).map(|_| (rng.below(4) as usize, rng.below(4) as usize)).collect());
    }
    for m in &pool { t_ops(o, m); }
    for a in &pool { for b in &pool { t_cmp(o, a, b); } }
}

/// random structured part over a cryptographic field
fn big<F: PrimeField>(rng: &mut Rng, th: bool, o: &mut Out) {
    let p = modulus::<F>();
    let maxnv = if th { 8 } else { 6 };
    let reps = if th { 6 } else { 2 };
    for nv in 0..=maxnv {
        let n = 1usize << nv;
        // support sizes drive the window of the sparse folding: 0,1,2 | 3,4 | 5..8 | …
        let mut supports: Vec<usize> = vec![0, 1, 2, 3, 4, 5, 8, 9, 17, 33, n / 2, n];
        supports.retain(|s| *s <= n); supports.sort(); supports.dedup();
        let mut tables: Vec<Vec<F>> = Vec::new();
        for _ in 0..reps { tables.push((0..n).map(|_| rand_fe(rng)).collect()); tables.push((0..n).map(|_| some_fe(rng)).collect()); }
        for s in &supports { for _ in 0..(if th { 2 } else { 1 }) {
            let mut t = vec![F::zero(); n];
            let mut left = *s; while left > 0 { let i = rng.below(n as u64) as usize; if t[i].is_zero() { t[i] = loop { let v: F = rand_fe(rng); if !v.is_zero() { break v; } }; left -= 1; } }
            tables.push(t);
        } }
        for (ti, t) in tables.iter().enumerate() {
            let e = sparse_variant(t, if ti < 2 * reps { ti } else { 0 });
            d_unary(o, &p, nv, t); s_unary(o, &p, nv, &e);
            let mut points: Vec<Vec<F>> = vec![
                (0..nv).map(|_| rand_fe(rng)).collect(), (0..nv).map(|_| F::from(rng.below(2))).collect(),
                (0..nv).map(|_| some_fe(rng)).collect(), vec![F::zero(); nv], vec![F::one(); nv],
            ];
            if th { for _ in 0..3 { points.push((0..nv).map(|_| rand_fe(rng)).collect()); } }
            for (pi, pt) in points.iter().enumerate() {
                d_eval(o, &p, nv, t, pt); s_eval(o, &p, nv, &e, pt); x_eval(o, &p, nv, t, pt);
                if pi < 3 { for d in 0..=nv { d_fix(o, &p, nv, t, &pt[..d]); s_fix(o, &p, nv, &e, &pt[..d]); if d % 2 == 1 { x_fix(o, &p, nv, t, &pt[..d]); } } }
            }
            for i in [0usize, 1, n / 2, n - 1, n, rng.below(n as u64) as usize] { d_index(o, &p, nv, t, i); s_index(o, &p, nv, &e, i); }
            for s in [F::zero(), F::one(), -F::one(), rand_fe(rng)] { d_mul(o, &p, nv, t, s); }
            // binary ops against another table of the same arity, against itself, its negation, and the zero polynomials
            let u = &tables[rng.below(tables.len() as u64) as usize];
            let eu = sparse_variant(u, ti + 1);
            let negt: Vec<F> = t.iter().map(|x| -*x).collect();
            for (t2, e2) in [(u.clone(), eu.clone()), (t.clone(), e.clone()), (negt.clone(), nonzero_ents(&negt))] {
                d_bin(o, &p, nv, t, nv, &t2); s_bin(o, &p, nv, &e, nv, &e2);
                for f in [F::zero(), F::one(), -F::one(), rand_fe(rng)] { d_addscaled(o, &p, nv, t, f, nv, &t2); s_addscaled(o, &p, nv, &e, f, nv, &e2); }
            }
            let z = [F::zero()];
            d_bin(o, &p, nv, t, 0, &z); d_bin(o, &p, 0, &z, nv, t); s_bin(o, &p, nv, &e, 0, &[]); s_bin(o, &p, 0, &[], nv, &e);
            s_bin(o, &p, nv, &e, 0, &[(0, F::zero())]); s_bin(o, &p, 0, &[(0, F::zero())], nv, &e);
            let f = rand_fe(rng);
            d_addscaled(o, &p, 0, &z, f, nv, t); s_addscaled(o, &p, 0, &[], f, nv, &e); d_addscaled(o, &p, nv, t, f, 0, &z); s_addscaled(o, &p, nv, &e, f, 0, &[]);
            if nv > 0 && ti < 3 { d_bin(o, &p, nv, t, nv - 1, &t[..n / 2]); s_bin(o, &p, nv, &e, nv - 1, &nonzero_ents(&t[..n / 2])); }
        }
        // relabel: all windows, small-valued tables (values are irrelevant to a permutation of the table)
        let mut rt: Vec<Vec<F>> = vec![(0..n).map(|i| F::from(i as u64 + 1)).collect()];
        { let mut t = vec![F::zero(); n]; for _ in 0..(n / 3 + 1) { t[rng.below(n as u64) as usize] = F::from(1 + rng.below(250)); } rt.push(t); }
        if th { rt.push((0..n).map(|_| F::from(rng.below(3))).collect()); }
        for (ti, t) in rt.iter().enumerate() {
            let e = sparse_variant(t, 2 * ti);
            for a in 0..=nv + 1 { for b in 0..=nv + 1 { for k in 0..=nv + 1 {
                if nv <= 4 || th || (a + 2 * b + 3 * k + ti) % 3 == 0 || a + k == nv || b + k == nv { d_relabel(o, &p, nv, t, a, b, k); s_relabel(o, &p, nv, &e, a, b, k); }
            } } }
        }
        // concat of random tables
        if nv <= 5 {
            let a: Vec<F> = (0..n).map(|_| rand_fe(rng)).collect(); let b: Vec<F> = (0..n).map(|_| some_fe(rng)).collect();
            d_concat(o, &p, &[(nv, a.clone()), (nv, b.clone())]);
            d_concat(o, &p, &[(nv, a.clone()), (nv, b.clone()), (nv, a.clone())]);
            if nv > 0 { d_concat(o, &p, &[(nv, a.clone()), (nv - 1, b[..n / 2].to_vec())]); d_concat(o, &p, &[(nv - 1, b[..n / 2].to_vec()), (nv, a.clone()), (0, vec![F::one()])]); }
        }
    }
    // ---- multivariate: random term lists with duplicates, zero coefficients, unordered / repeated variables
    let nlists = if th { 2500 } else { 250 };
    let mut prev: Option<(usize, RawTerms<F>)> = None;
    for li in 0..nlists {
        let nv = 1 + rng.below(6) as usize;
        let nt = rng.below(13) as usize;
        let mut t: RawTerms<F> = Vec::new();
        for _ in 0..nt {
            let nf = rng.below(5) as usize;
            let m: RawMon = (0..nf).map(|_| (rng.below(nv as u64) as usize, rng.below(4) as usize)).collect();
            let c: F = some_fe(rng);
            t.push((c, m.clone()));
            match rng.below(6) {
                0 => { let mut m2 = m.clone(); m2.reverse(); t.push((-c, m2)); },            // cancelling duplicate, other variable order
                1 => { let mut m2 = m.clone(); m2.reverse(); t.push((some_fe(rng), m2)); },  // duplicate
                2 => { // same monomial spelled with split powers
                    let mut m2: RawMon = Vec::new(); for (v, e) in &m { if *e >= 2 { m2.push((*v, 1)); m2.push((*v, *e - 1)); } else { m2.push((*v, *e)); } } t.push((some_fe(rng), m2)); },
                _ => {},
            }
        }
        // shuffle
        for i in (1..t.len()).rev() { let j = rng.below(i as u64 + 1) as usize; t.swap(i, j); }
        mv_unary(o, &p, nv, &t);
        let pts: Vec<Vec<F>> = vec![(0..nv).map(|_| rand_fe(rng)).collect(), (0..nv + 2).map(|_| some_fe(rng)).collect(), (0..6).map(|_| rand_fe(rng)).collect()];
        for pt in &pts { mv_eval(o, &p, nv, &t, pt); }
        if li % 10 == 0 && nv > 1 { mv_eval(o, &p, nv, &t, &pts[0][..nv - 1]); mv_unary(o, &p, nv - 1, &t); }
        if let Some((nv0, t0)) = &prev {
            mv_bin(o, &p, *nv0, t0, nv, &t, &pts[2..3]);
            mv_bin(o, &p, nv, &t, nv, &t, &pts[2..3]);
            for f in [F::zero(), F::one(), -F::one(), rand_fe(rng)] { mv_addscaled(o, &p, *nv0, t0, f, nv, &t, &pts[2..3]); }
        }
        for m in t.iter().take(3) { t_eval(o, &p, &m.1, &pts[0]); t_eval(o, &p, &m.1, &pts[2]); }
        prev = Some((nv, t));
    }
}

fn main() {
    let a = arkharness::args();
    let mut rng = Rng::new(a.seed);
    let mut out = Out::new();
    let sel = |n: &str| a.only.as_ref().map(|o| o == n).unwrap_or(true);
    if sel("t5") { toy::<FDT5>(&mut rng, a.thorough, &mut out); }
    if sel("t13") { toy::<FDT13>(&mut rng, a.thorough, &mut out); }
    if sel("term") { term_ops(&mut rng, a.thorough, &mut out); }
    if sel("fr") { big::<ark_test_curves::bls12_381::Fr>(&mut rng, a.thorough, &mut out); }
    out.flush();
}
