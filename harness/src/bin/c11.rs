//! C11: square roots, Legendre symbols and coordinate recovery.
//!
//! Field header:  `C11 cfg <id> <kind> <N> <p> <constants read from the public traits…> => <Field::SQRT_PRECOMP>`
//! Curve header:  `C11 ccfg <cid> <sw|te> <field id> <a> <b|d> => ok`
//! Op lines:      `C11 sqrt|legendre|sqrtip <id> <x>`, `C11 ysfromx <cid> <x>`, `C11 ptfromx <cid> <greatest> <x>`,
//!                `C11 xsfromy <cid> <y>`, `C11 ptfromy <cid> <greatest> <y>`
//! Elements are comma-separated base-prime-field coordinates (standard integer values, hex).
//! Toy fields are enumerated exhaustively (two-adicity 1…8 of the prime field, both sqrt variants, derived and
//! hand-written configs, Fp2 with β = −1 and general β, Fp3, Fp4, Fp6 = 2 over 3); the big fields get 0, ±1, small
//! values, non-residues, subfield elements, squares, and elements built from the 2^k-th roots of unity for every
//! k ≤ two-adicity (all Tonelli–Shanks round patterns: single round with every `j`, the maximal number of rounds, random).
#![allow(dead_code, deprecated, non_camel_case_types, clippy::too_many_arguments)]
use ark_ec::short_weierstrass::{self, SWCurveConfig};
use ark_ec::twisted_edwards::{self, MontCurveConfig, TECurveConfig};
use ark_ec::{AffineRepr, CurveConfig, CurveGroup};
use ark_ff::fields::models::fp6_2over3;
use ark_ff::{
    BigInt, BigInteger, FftField, Field, Fp, Fp12, Fp12Config, Fp2, Fp2Config, Fp3, Fp3Config, Fp4, Fp4Config,
    MontBackend, MontConfig, MontFp, One, PrimeField, SqrtPrecomputation, Zero,
};
use ark_test_curves::{bls12_381, bn384_small_two_adicity, ed_on_bls12_381, fp128, mnt4_753, mnt6_753, secp256k1};
use arkharness::util::*;
use arkharness::zoo::*;
use num_bigint::BigUint;

// ---------------------------------------------------------------------------------------------
// extra toy prime fields: two-adicity 3…7 (the zoo has 1, 2, 8, 16), derived and hand-written
// (the hand-written ones use another generator, hence another 2^s-th root of unity `z`)
// ---------------------------------------------------------------------------------------------

#[derive(MontConfig)]
#[modulus = "17"]
#[generator = "3"]
pub struct D17;
#[derive(MontConfig)]
#[modulus = "41"]
#[generator = "6"]
pub struct D41;
#[derive(MontConfig)]
#[modulus = "97"]
#[generator = "5"]
pub struct D97;
#[derive(MontConfig)]
#[modulus = "193"]
#[generator = "5"]
pub struct D193;
#[derive(MontConfig)]
#[modulus = "641"]
#[generator = "3"]
pub struct D641;
// base fields of the toy cubic extensions (p ≡ 1 mod 3)
#[derive(MontConfig)]
#[modulus = "19"]
#[generator = "2"]
pub struct D19;
#[derive(MontConfig)]
#[modulus = "31"]
#[generator = "3"]
pub struct D31;
#[derive(MontConfig)]
#[modulus = "37"]
#[generator = "2"]
pub struct D37;
#[derive(MontConfig)]
#[modulus = "73"]
#[generator = "5"]
pub struct D73;
#[derive(MontConfig)]
#[modulus = "241"]
#[generator = "7"]
pub struct D241;
#[derive(MontConfig)]
#[modulus = "769"]
#[generator = "11"]
pub struct D769;
#[derive(MontConfig)]
#[modulus = "1153"]
#[generator = "5"]
pub struct D1153;
// the two fields of BLS12-377 (two-adicity 47 and 46; not part of ark-test-curves)
#[derive(MontConfig)]
#[modulus = "8444461749428370424248824938781546531375899335154063827935233455917409239041"]
#[generator = "22"]
pub struct DBls377Fr;
#[derive(MontConfig)]
#[modulus = "258664426012969094010652733694893533536393512754914660539884262666720468348340822774968888139573360124440321458177"]
#[generator = "15"]
pub struct DBls377Fq;

type M<T, const N: usize> = Fp<MontBackend<T, N>, N>;
pub type F17 = M<D17, 1>;
pub type F41 = M<D41, 1>;
pub type F97 = M<D97, 1>;
pub type F193 = M<D193, 1>;
pub type F641 = M<D641, 1>;
pub type F19 = M<D19, 1>;
pub type F31 = M<D31, 1>;
pub type F37 = M<D37, 1>;
pub type F73 = M<D73, 1>;
pub type F241 = M<D241, 1>;
pub type F769 = M<D769, 1>;
pub type F1153 = M<D1153, 1>;
pub type F7 = FDT7;
pub type F13 = FDT13;

macro_rules! hand_fp {
    ($name:ident, $m:expr, $g:expr, $root:expr) => {
        pub struct $name;
        impl MontConfig<1> for $name {
            const MODULUS: BigInt<1> = ark_ff::BigInt!($m);
            const GENERATOR: M<Self, 1> = MontFp!($g);
            const TWO_ADIC_ROOT_OF_UNITY: M<Self, 1> = MontFp!($root);
        }
    };
}
hand_fp!(H17, "17", "14", "14");
hand_fp!(H41, "41", "35", "14");
hand_fp!(H97, "97", "92", "69");
hand_fp!(H193, "193", "188", "68");
hand_fp!(H641, "641", "638", "398");

/// p ≡ 3 (mod 4) forced through Tonelli–Shanks (two-adicity 1) by overriding `SQRT_PRECOMP`
macro_rules! hand_fp_ts1 {
    ($name:ident, $m:expr, $g:expr, $root:expr, $tm:expr) => {
        pub struct $name;
        impl MontConfig<1> for $name {
            const MODULUS: BigInt<1> = ark_ff::BigInt!($m);
            const GENERATOR: M<Self, 1> = MontFp!($g);
            const TWO_ADIC_ROOT_OF_UNITY: M<Self, 1> = MontFp!($root);
            const SQRT_PRECOMP: Option<SqrtPrecomputation<M<Self, 1>>> = Some(SqrtPrecomputation::TonelliShanks {
                two_adicity: 1,
                quadratic_nonresidue_to_trace: MontFp!($root),
                trace_of_modulus_minus_one_div_two: &[$tm],
            });
        }
    };
}
hand_fp_ts1!(H7ts, "7", "3", "6", 1);
hand_fp_ts1!(H127ts, "127", "3", "126", 31);
hand_fp_ts1!(H251ts, "251", "6", "250", 62);

// ---------------------------------------------------------------------------------------------
// toy towers (constants by a Python script: β^((p^i-1)/d) tables; p^3-1 = 2^s·t, z = g^t for a non-square g)
// ---------------------------------------------------------------------------------------------

macro_rules! toy_fp2 {
    ($name:ident, $fp:ty, $nr:expr, $c1:expr) => {
        pub struct $name;
        impl Fp2Config for $name {
            type Fp = $fp;
            const NONRESIDUE: $fp = MontFp!($nr);
            const FROBENIUS_COEFF_FP2_C1: &'static [$fp] = &[MontFp!("1"), MontFp!($c1)];
        }
    };
}
toy_fp2!(Q2_3, FDT3, "2", "2"); // β = -1
toy_fp2!(Q2_5, FDT5, "2", "4");
toy_fp2!(Q2_7m, FDT7, "-1", "6"); // β = -1 (complex squaring)
toy_fp2!(Q2_7g, FDT7, "3", "6");
toy_fp2!(Q2_13, FDT13, "2", "12");
toy_fp2!(Q2_17, F17, "3", "16");
toy_fp2!(Q2_41, F41, "3", "40");
toy_fp2!(Q2_97, F97, "5", "96");
toy_fp2!(Q2_127, FDT127, "-1", "126"); // β = -1
toy_fp2!(Q2_193, F193, "5", "192");
toy_fp2!(Q2_251, FDT251, "2", "250");
toy_fp2!(Q2_257, FDT257, "3", "256");
toy_fp2!(Q2_257h, FHT257, "3", "256");
toy_fp2!(Q2_7ts, M<H7ts, 1>, "-1", "6"); // base field square roots by Tonelli–Shanks with two-adicity 1
// big quadratic extensions over Tonelli–Shanks base fields (two-adicity 32)
toy_fp2!(Q2_BlsFr, bls12_381::Fr, "7", "52435875175126190479447740508185965837690552500527637822603658699938581184512");
toy_fp2!(Q2_Gold, FDGoldilocks, "7", "18446744069414584320");

macro_rules! toy_fp3 {
    ($name:ident, $fp:ty, $nr:expr, [$a1:expr, $a2:expr], [$b1:expr, $b2:expr], $adicity:expr, $tm:expr, [$z0:expr, $z1:expr, $z2:expr]) => {
        pub struct $name;
        impl Fp3Config for $name {
            type Fp = $fp;
            const NONRESIDUE: $fp = MontFp!($nr);
            const TWO_ADICITY: u32 = $adicity;
            const TRACE_MINUS_ONE_DIV_TWO: &'static [u64] = &[$tm];
            const QUADRATIC_NONRESIDUE_TO_T: Fp3<Self> = Fp3::new(MontFp!($z0), MontFp!($z1), MontFp!($z2));
            const FROBENIUS_COEFF_FP3_C1: &'static [$fp] = &[MontFp!("1"), MontFp!($a1), MontFp!($a2)];
            const FROBENIUS_COEFF_FP3_C2: &'static [$fp] = &[MontFp!("1"), MontFp!($b1), MontFp!($b2)];
        }
    };
}
toy_fp3!(C3_7_2, F7, "2", ["4", "2"], ["2", "4"], 1, 85, ["6", "0", "0"]);
toy_fp3!(C3_7_3, F7, "3", ["2", "4"], ["4", "2"], 1, 85, ["6", "0", "0"]);
toy_fp3!(C3_13_2, F13, "2", ["3", "9"], ["9", "3"], 2, 274, ["8", "0", "0"]);
toy_fp3!(C3_19_2, F19, "2", ["7", "11"], ["11", "7"], 1, 1714, ["18", "0", "0"]);
toy_fp3!(C3_31_3, F31, "3", ["25", "5"], ["5", "25"], 1, 7447, ["30", "0", "0"]);
toy_fp3!(C3_37_2, F37, "2", ["26", "10"], ["10", "26"], 2, 6331, ["31", "0", "0"]);
toy_fp3!(C3_73_5, F73, "5", ["8", "64"], ["64", "8"], 3, 24313, ["10", "0", "0"]);
toy_fp3!(C3_241_7, F241, "7", ["15", "225"], ["225", "15"], 4, 437422, ["111", "0", "0"]);
toy_fp3!(C3_97_5, F97, "5", ["35", "61"], ["61", "35"], 5, 14260, ["28", "0", "0"]);
toy_fp3!(C3_193_5, F193, "5", ["84", "108"], ["108", "84"], 6, 56164, ["125", "0", "0"]);
toy_fp3!(C3_1153_5, F1153, "5", ["650", "502"], ["502", "650"], 7, 5987533, ["1096", "0", "0"]);
toy_fp3!(C3_769_11, F769, "11", ["360", "408"], ["408", "360"], 8, 888196, ["562", "0", "0"]);

pub struct Q4_5;
impl Fp4Config for Q4_5 {
    type Fp2Config = Q2_5;
    const NONRESIDUE: Fp2<Q2_5> = Fp2::new(MontFp!("0"), MontFp!("1"));
    const FROBENIUS_COEFF_FP4_C1: &'static [FDT5] = &[MontFp!("1"), MontFp!("2"), MontFp!("4"), MontFp!("3")];
}
pub struct Q4_13;
impl Fp4Config for Q4_13 {
    type Fp2Config = Q2_13;
    const NONRESIDUE: Fp2<Q2_13> = Fp2::new(MontFp!("0"), MontFp!("1"));
    const FROBENIUS_COEFF_FP4_C1: &'static [FDT13] = &[MontFp!("1"), MontFp!("8"), MontFp!("12"), MontFp!("5")];
}
pub struct Q4_BlsFr;
impl Fp4Config for Q4_BlsFr {
    type Fp2Config = Q2_BlsFr;
    const NONRESIDUE: Fp2<Q2_BlsFr> = Fp2::new(MontFp!("0"), MontFp!("1"));
    const FROBENIUS_COEFF_FP4_C1: &'static [bls12_381::Fr] = &[
        MontFp!("1"),
        MontFp!("3465144826073652318776269530687742778270252468765361963008"),
        MontFp!("52435875175126190479447740508185965837690552500527637822603658699938581184512"),
        MontFp!("52435875175126190475982595682112313518914282969839895044333406231173219221505"),
    ];
}
pub struct S6a_7;
impl fp6_2over3::Fp6Config for S6a_7 {
    type Fp3Config = C3_7_3;
    const NONRESIDUE: Fp3<C3_7_3> = Fp3::new(MontFp!("0"), MontFp!("1"), MontFp!("0"));
    const FROBENIUS_COEFF_FP6_C1: &'static [F7] =
        &[MontFp!("1"), MontFp!("3"), MontFp!("2"), MontFp!("6"), MontFp!("4"), MontFp!("5")];
}
pub struct S6a_13;
impl fp6_2over3::Fp6Config for S6a_13 {
    type Fp3Config = C3_13_2;
    const NONRESIDUE: Fp3<C3_13_2> = Fp3::new(MontFp!("0"), MontFp!("1"), MontFp!("0"));
    const FROBENIUS_COEFF_FP6_C1: &'static [F13] =
        &[MontFp!("1"), MontFp!("4"), MontFp!("3"), MontFp!("12"), MontFp!("9"), MontFp!("10")];
}
// MNT6-753 Fq6 = Fq3[Y]/(Y² − X) (constants of curves/mnt6_753/src/fields/fq6.rs, re-checked as 11^((q^i−1)/6))
pub struct Mnt6Fq6;
impl fp6_2over3::Fp6Config for Mnt6Fq6 {
    type Fp3Config = mnt6_753::Fq3Config;
    const NONRESIDUE: mnt6_753::Fq3 = Fp3::new(MontFp!("0"), MontFp!("1"), MontFp!("0"));
    const FROBENIUS_COEFF_FP6_C1: &'static [mnt6_753::Fq] = &[
        MontFp!("1"),
        MontFp!("24129022407817241407134263419936114379815707076943508280977368156625538709102831814843582780138963119807143081677569721953561801075623741378629346409604471234573396989178424163772589090105392407118197799904755622897541183052133"),
        MontFp!("24129022407817241407134263419936114379815707076943508280977368156625538709102831814843582780138963119807143081677569721953561801075623741378629346409604471234573396989178424163772589090105392407118197799904755622897541183052132"),
        MontFp!("41898490967918953402344214791240637128170709919953949071783502921025352812571106773058893763790338921418070971888458477323173057491593855069696241854796396165721416325350064441470418137846398469611935719059908164220784476160000"),
        MontFp!("17769468560101711995209951371304522748355002843010440790806134764399814103468274958215310983651375801610927890210888755369611256415970113691066895445191924931148019336171640277697829047741006062493737919155152541323243293107868"),
        MontFp!("17769468560101711995209951371304522748355002843010440790806134764399814103468274958215310983651375801610927890210888755369611256415970113691066895445191924931148019336171640277697829047741006062493737919155152541323243293107869"),
    ];
}

// Fp12 = 2 over 3 over 2: the middle layer has `SQRT_PRECOMP = None` (constants as in the C02 harness)
macro_rules! f2 {
    ($a:expr, $b:expr) => {
        Fp2::new(MontFp!($a), MontFp!($b))
    };
}
#[derive(Clone, Copy)]
pub struct S6b_7;
impl ark_ff::fields::models::fp6_3over2::Fp6Config for S6b_7 {
    type Fp2Config = Q2_7m;
    const NONRESIDUE: Fp2<Q2_7m> = f2!("1", "2");
    const FROBENIUS_COEFF_FP6_C1: &'static [Fp2<Q2_7m>] =
        &[f2!("1", "0"), f2!("4", "4"), f2!("4", "0"), f2!("2", "2"), f2!("2", "0"), f2!("1", "1")];
    const FROBENIUS_COEFF_FP6_C2: &'static [Fp2<Q2_7m>] =
        &[f2!("1", "0"), f2!("0", "4"), f2!("2", "0"), f2!("0", "1"), f2!("4", "0"), f2!("0", "2")];
}
#[derive(Clone, Copy)]
pub struct D12_7;
impl Fp12Config for D12_7 {
    type Fp6Config = S6b_7;
    const NONRESIDUE: ark_ff::fields::models::fp6_3over2::Fp6<S6b_7> =
        ark_ff::fields::models::fp6_3over2::Fp6::new(f2!("0", "0"), f2!("1", "0"), f2!("0", "0"));
    const FROBENIUS_COEFF_FP12_C1: &'static [Fp2<Q2_7m>] = &[
        f2!("1", "0"), f2!("1", "2"), f2!("5", "0"), f2!("5", "3"), f2!("4", "0"), f2!("4", "1"),
        f2!("6", "0"), f2!("6", "5"), f2!("2", "0"), f2!("2", "4"), f2!("3", "0"), f2!("3", "6"),
    ];
}

// ---------------------------------------------------------------------------------------------
// toy curves (only the coefficients matter for the coordinate helpers; generators are real points)
// ---------------------------------------------------------------------------------------------

macro_rules! toy_sw {
    ($name:ident, $fq:ty, $a:expr, $b:expr, $gx:expr, $gy:expr) => {
        pub struct $name;
        impl CurveConfig for $name {
            type BaseField = $fq;
            type ScalarField = FDT13;
            const COFACTOR: &'static [u64] = &[1];
            const COFACTOR_INV: FDT13 = MontFp!("1");
        }
        impl SWCurveConfig for $name {
            const COEFF_A: $fq = $a;
            const COEFF_B: $fq = $b;
            const GENERATOR: short_weierstrass::Affine<Self> = short_weierstrass::Affine::new_unchecked($gx, $gy);
        }
    };
}
toy_sw!(SW13, F13, MontFp!("0"), MontFp!("3"), MontFp!("0"), MontFp!("4"));
toy_sw!(SW17, F17, MontFp!("2"), MontFp!("3"), MontFp!("2"), MontFp!("7"));
toy_sw!(SW41, F41, MontFp!("1"), MontFp!("1"), MontFp!("0"), MontFp!("1"));
toy_sw!(SW97, F97, MontFp!("0"), MontFp!("5"), MontFp!("1"), MontFp!("43"));
toy_sw!(SW257, FDT257, MontFp!("3"), MontFp!("0"), MontFp!("1"), MontFp!("2"));
toy_sw!(SW7x2, Fp2<Q2_7m>, f2!("1", "1"), f2!("0", "2"), f2!("0", "0"), f2!("0", "0"));
toy_sw!(SW13x2, Fp2<Q2_13>, f2!("0", "0"), f2!("1", "1"), f2!("0", "0"), f2!("0", "0"));
toy_sw!(SW7x3, Fp3<C3_7_3>, Fp3::new(MontFp!("0"), MontFp!("1"), MontFp!("0")), Fp3::new(MontFp!("2"), MontFp!("0"), MontFp!("1")),
    Fp3::new(MontFp!("0"), MontFp!("0"), MontFp!("0")), Fp3::new(MontFp!("0"), MontFp!("0"), MontFp!("0")));

macro_rules! toy_te {
    ($name:ident, $fq:ty, $a:expr, $d:expr, $gx:expr, $gy:expr, $ma:expr, $mb:expr) => {
        pub struct $name;
        impl CurveConfig for $name {
            type BaseField = $fq;
            type ScalarField = FDT13;
            const COFACTOR: &'static [u64] = &[1];
            const COFACTOR_INV: FDT13 = MontFp!("1");
        }
        impl TECurveConfig for $name {
            const COEFF_A: $fq = MontFp!($a);
            const COEFF_D: $fq = MontFp!($d);
            const GENERATOR: twisted_edwards::Affine<Self> = twisted_edwards::Affine::new_unchecked(MontFp!($gx), MontFp!($gy));
            type MontCurveConfig = Self;
        }
        impl MontCurveConfig for $name {
            const COEFF_A: $fq = MontFp!($ma);
            const COEFF_B: $fq = MontFp!($mb);
            type TECurveConfig = Self;
        }
    };
}
toy_te!(TE13, F13, "12", "2", "2", "4", "8", "3");
toy_te!(TE17, F17, "1", "2", "2", "7", "11", "13"); // d square: the denominator a − d·y² vanishes at y = 3, 14
toy_te!(TE41, F41, "40", "3", "1", "9", "40", "40");
toy_te!(TE97, F97, "96", "5", "1", "40", "31", "64");
toy_te!(TE257, FDT257, "3", "5", "1", "30", "249", "255"); // denominator vanishes at y = 56, 201

// ---------------------------------------------------------------------------------------------
// printing
// ---------------------------------------------------------------------------------------------

fn hx<P: PrimeField>(c: &P) -> String { hex_limbs(c.into_bigint().as_ref()) }
fn es<F: Field>(x: &F) -> String { x.to_base_prime_field_elements().map(|c| hx(&c)).collect::<Vec<_>>().join(",") }
fn oes<F: Field>(x: Option<F>) -> String { match x { Some(v) => es(&v), None => "none".into() } }
fn list<F: Field>(xs: &[F]) -> String {
    if xs.is_empty() { return "_".into(); }
    xs.iter().map(es).collect::<Vec<_>>().join(",")
}
fn modulus_hex<P: PrimeField>() -> String { hex_limbs(P::MODULUS.as_ref()) }
fn limbs<P: PrimeField>() -> usize { P::MODULUS.as_ref().len() }

/// `Field::SQRT_PRECOMP` as it is at run time
fn pre_str<F: Field>() -> String {
    match F::SQRT_PRECOMP {
        Some(SqrtPrecomputation::TonelliShanks { two_adicity, quadratic_nonresidue_to_trace, trace_of_modulus_minus_one_div_two }) =>
            format!("ts:{:x}:{}:{}", two_adicity, es(&quadratic_nonresidue_to_trace), hex_limbs(trace_of_modulus_minus_one_div_two)),
        Some(SqrtPrecomputation::Case3Mod4 { modulus_plus_one_div_four }) => format!("c3m4:{}", hex_limbs(modulus_plus_one_div_four)),
        None => "none".into(),
        #[allow(unreachable_patterns)]
        _ => "unknown".into(),
    }
}
fn legendre_str<F: Field>(x: &F) -> String {
    let l = x.legendre();
    // the documented numeric value of the symbol (`LegendreSymbol as i8`) and the three predicates must agree
    let pred: i8 = if l.is_zero() { 0 } else if l.is_qr() { 1 } else { -1 };
    let qnr = l.is_qnr();
    let num = l as i8;
    if qnr != (pred == -1) { return format!("inconsistent-predicates:{}", num); }
    if num != pred { return format!("discriminant:{}:predicates:{}", num, pred); }
    format!("{}", num)
}

// ---------------------------------------------------------------------------------------------
// element generators
// ---------------------------------------------------------------------------------------------

fn rand_prime<P: PrimeField>(rng: &mut Rng) -> P {
    let nb = (P::MODULUS_BIT_SIZE as usize + 7) / 8 + 8;
    let bytes: Vec<u8> = (0..nb).map(|_| rng.next() as u8).collect();
    P::from_le_bytes_mod_order(&bytes)
}
fn from_coords<F: Field>(v: Vec<F::BasePrimeField>) -> F { F::from_base_prime_field_elems(v).unwrap() }
fn rand_elem<F: Field>(rng: &mut Rng) -> F {
    let n = F::extension_degree() as usize;
    from_coords((0..n).map(|_| rand_prime(rng)).collect())
}
fn field_size<F: Field>() -> Option<u64> {
    let pb = F::BasePrimeField::MODULUS;
    if pb.num_bits() > 20 { return None; }
    let p = pb.as_ref()[0];
    let mut q = 1u64;
    for _ in 0..F::extension_degree() { q = q.checked_mul(p)?; }
    Some(q)
}
/// every element of the field (only for small fields)
fn all_elems<F: Field>() -> Vec<F> {
    let p = F::BasePrimeField::MODULUS.as_ref()[0];
    let n = F::extension_degree() as usize;
    let total = field_size::<F>().unwrap();
    (0..total)
        .map(|mut t| {
            let mut v = Vec::with_capacity(n);
            for _ in 0..n { v.push(F::BasePrimeField::from(t % p)); t /= p; }
            from_coords(v)
        })
        .collect()
}
fn pow2k<F: Field>(mut x: F, k: u32) -> F { for _ in 0..k { x.square_in_place(); } x }

/// q − 1 = 2^s·t, an element `z` of order exactly 2^s, and t⁻¹ mod 2^64 (computed independently of `SQRT_PRECOMP`)
struct TwoPow<F> { s: u32, z: F, tinv: u64 }
fn two_pow<F: Field>() -> TwoPow<F> {
    let p: BigUint = F::BasePrimeField::MODULUS.into();
    let n = F::extension_degree() as usize;
    let q1 = p.pow(n as u32) - 1u8;
    let s = q1.trailing_zeros().unwrap() as u32;
    let t = &q1 >> (s as usize);
    let tl = t.to_u64_digits();
    let mut i = 2u64;
    let g = loop {
        let c: F = if n == 1 { F::from(i) } else {
            let mut v = vec![F::BasePrimeField::zero(); n]; v[0] = F::BasePrimeField::from(i); v[n - 1] = F::BasePrimeField::one(); from_coords(v) };
        if c.legendre().is_qnr() { break c; }
        i += 1;
    };
    // when the field itself runs Tonelli–Shanks, take its own `z`, so that the exponents chosen below are
    // discrete logarithms with respect to the base the algorithm uses (they fix the round pattern)
    let z = match F::SQRT_PRECOMP {
        Some(SqrtPrecomputation::TonelliShanks { two_adicity, quadratic_nonresidue_to_trace, .. }) if two_adicity == s => quadratic_nonresidue_to_trace,
        _ => g.pow(&tl),
    };
    assert!(pow2k(z, s - 1) == -F::one(), "2^s-th root of unity");
    let t0 = tl[0];
    let mut inv = 1u64;
    for _ in 0..7 { inv = inv.wrapping_mul(2u64.wrapping_sub(t0.wrapping_mul(inv))); }
    assert!(t0.wrapping_mul(inv) == 1);
    TwoPow { s, z, tinv: inv }
}

/// structured inputs for the big fields; `level` 0 = light (fields whose spec arithmetic is expensive), 1 = quick, 2 = thorough
fn structured<F: Field>(rng: &mut Rng, level: usize) -> Vec<F> {
    let n = F::extension_degree() as usize;
    let z0 = F::BasePrimeField::zero();
    let one = F::one();
    let pick = |a: usize, b: usize, c: usize| [a, b, c][level];
    let mut out: Vec<F> = vec![F::zero(), one, -one];
    for i in 2..=(pick(3, 12, 12) as u64) { out.push(F::from(i)); if level > 0 { out.push(-F::from(i)); } }
    out.push(F::from(2u64).inverse().unwrap());
    // base-prime-field elements (squares and non-squares of the subfield) and other prefix subfields
    for _ in 0..pick(1, 3, 8) {
        let r = rand_prime::<F::BasePrimeField>(rng);
        out.push(F::from_base_prime_field(r));
        out.push(F::from_base_prime_field(r.square()));
        out.push(F::from_base_prime_field(r.square() * F::BasePrimeField::GENERATOR));
    }
    out.push(F::from_base_prime_field(F::BasePrimeField::GENERATOR));
    for d in [2usize, 3, 4, 6] {
        if d < n && n % d == 0 {
            for _ in 0..pick(1, 2, 6) {
                let mut v = vec![z0; n];
                for c in v.iter_mut().take(d) { *c = rand_prime(rng); }
                let e: F = from_coords(v);
                out.push(e); out.push(e.square());
            }
        }
    }
    // one non-zero coordinate / one zero coordinate
    for i in 0..n {
        let mut v = vec![z0; n]; v[i] = F::BasePrimeField::one(); out.push(from_coords(v));
        if level == 0 { continue; }
        let mut v = vec![z0; n]; v[i] = -F::BasePrimeField::one(); out.push(from_coords(v));
        let mut v = vec![z0; n]; v[i] = rand_prime(rng); out.push(from_coords(v));
        if n > 1 { let mut v: Vec<_> = (0..n).map(|_| rand_prime(rng)).collect(); v[i] = z0; out.push(from_coords(v)); }
    }
    // 2-power torsion: Tonelli–Shanks round patterns.  With b = x^t = z^e the loop runs popcount(−e mod 2^s) rounds
    // (b·∏ z^(2^(s−k_i)) = 1), the i-th round with j = v − k_i.
    let tp = two_pow::<F>();
    let s = tp.s;
    let odd = |rng: &mut Rng| pow2k(rand_elem::<F>(rng), s); // element of odd order
    let mask = if s >= 64 { u64::MAX } else { (1u64 << s) - 1 };
    let is_ts = matches!(F::SQRT_PRECOMP, Some(SqrtPrecomputation::TonelliShanks { .. }));
    for k in 0..=s {
        if level == 0 && !(k <= 1 || k + 1 >= s || (is_ts && k % 8 == 0)) { continue; }
        let w = pow2k(tp.z, s - k); // order exactly 2^k
        if level > 0 { out.push(w); out.push(w * odd(rng)); }
        // b = z^(2^(s−k)): k rounds (k < s) or the non-residue exit (k = s); b = z^(−2^(s−k)): a single round with j = s − k
        let e = tp.tinv.wrapping_mul(1u64 << (s - k).min(63)) & mask;
        if s - k < 64 { out.push(tp.z.pow([e]) * odd(rng)); }
        let e = tp.tinv.wrapping_mul((1u64 << (s - k).min(63)).wrapping_neg()) & mask;
        if s - k < 64 && level > 0 { out.push(tp.z.pow([e]) * odd(rng)); }
    }
    // b = z^2: s − 1 rounds (the maximum); b = z^(±1): non-residue found after the longest inner loop
    for (i, e0) in [2, mask, mask - 1, mask - 3, mask / 3 * 2].into_iter().enumerate() {
        if level == 0 && i >= 3 { break; }
        let e = tp.tinv.wrapping_mul(e0) & mask;
        if level > 0 { out.push(tp.z.pow([e])); }
        out.push(tp.z.pow([e]) * odd(rng));
    }
    for _ in 0..pick(2, 8, 40) {
        let e = tp.tinv.wrapping_mul(rng.next()) & mask;
        out.push(tp.z.pow([e]) * odd(rng));
    }
    // squares of random elements, random elements, squares times a non-residue
    let qnr = tp.z;
    for _ in 0..pick(1, 10, 60) {
        let r: F = rand_elem(rng);
        out.push(r.square());
        out.push(r);
        out.push(r.square() * qnr);
    }
    out
}

fn want(only: &Option<String>, id: &str) -> bool { match only { Some(o) => o == id, None => true } }

/// how a field is exercised
#[derive(Clone, Copy)]
enum Mode {
    /// every element when the field has at most this many, otherwise `Sample`
    Exhaustive(u64),
    /// structured (level 0 = light, 1, 2) + this many random elements
    Sample(usize, usize),
    /// a handful (fields whose `sqrt` is `unimplemented!()`, or whose spec arithmetic is very expensive);
    /// the flag adds a few more full-size elements
    Few(bool),
}

fn elems<F: Field>(mode: Mode, rng: &mut Rng, thorough: bool) -> Vec<F> {
    match mode {
        Mode::Exhaustive(limit) if field_size::<F>().map(|q| q <= limit).unwrap_or(false) => all_elems::<F>(),
        Mode::Exhaustive(_) => elems::<F>(Mode::Sample(if thorough { 2 } else { 1 }, if thorough { 3000 } else { 250 }), rng, thorough),
        Mode::Sample(level, k) => {
            let mut v = structured::<F>(rng, level);
            for _ in 0..k { let r: F = rand_elem(rng); v.push(r); if v.len() % 3 == 0 { v.push(r.square()); } }
            v
        }
        Mode::Few(more) => {
            let r: F = rand_elem(rng);
            let n = F::extension_degree() as usize;
            let mut v = vec![F::BasePrimeField::zero(); n]; v[n - 1] = F::BasePrimeField::one();
            let top: F = from_coords(v);
            let mut v = vec![F::zero(), F::one(), r.square()];
            if n <= 6 || more { v.push(r.square() * top); }
            if more { v.extend([-F::one(), F::from(4u64), F::from_base_prime_field(F::BasePrimeField::GENERATOR), top, r, top.square()]); }
            v
        }
    }
}

fn field_ops<F: Field>(id: &str, mode: Mode, rng: &mut Rng, thorough: bool, out: &mut Out) {
    let xs = elems::<F>(mode, rng, thorough);
    let ip_every = if xs.len() > 1000 { 9 } else if xs.len() > 100 { 3 } else { 1 };
    for (i, x) in xs.iter().enumerate() {
        let x = *x;
        let a = es(&x);
        out.line(&format!("C11 sqrt {} {}", id, a), &guarded(move || oes(x.sqrt())));
        out.line(&format!("C11 legendre {} {}", id, a), &guarded(move || legendre_str(&x)));
        if i % ip_every == 0 {
            out.line(&format!("C11 sqrtip {} {}", id, a), &guarded(move || {
                let mut y = x;
                let some = y.sqrt_in_place().is_some();
                format!("{} {}", es(&y), if some { "some" } else { "none" })
            }));
        }
    }
}

// ---------------------------------------------------------------------------------------------
// headers
// ---------------------------------------------------------------------------------------------

fn cfg_line<F: Field>(id: &str, kind: &str, consts: &str, out: &mut Out) {
    out.line(&format!("C11 cfg {} {} {:x} {} {}", id, kind, limbs::<F::BasePrimeField>(), modulus_hex::<F::BasePrimeField>(), consts), &pre_str::<F>());
}
fn hdr_fp2<P: Fp2Config>(hooks: &str) -> String {
    format!("{} {} {}", hooks, hx(&P::NONRESIDUE), list(P::FROBENIUS_COEFF_FP2_C1))
}
fn hdr_fp3<P: Fp3Config>() -> String {
    format!("{} {} {} {:x} {} {}", hx(&P::NONRESIDUE), list(P::FROBENIUS_COEFF_FP3_C1), list(P::FROBENIUS_COEFF_FP3_C2),
        P::TWO_ADICITY, es(&P::QUADRATIC_NONRESIDUE_TO_T), hex_limbs(P::TRACE_MINUS_ONE_DIV_TWO))
}

/// prime field; `kind` = "fp" (SQRT_PRECOMP is the default `sqrt_precomputation()`) or "fpx" (overridden)
fn run_fp<F: PrimeField>(id: &str, kind: &str, mode: Mode, rng: &mut Rng, th: bool, out: &mut Out, only: &Option<String>) {
    if !want(only, id) { return; }
    cfg_line::<F>(id, kind, &hx(&F::TWO_ADIC_ROOT_OF_UNITY), out);
    field_ops::<F>(id, mode, rng, th, out);
}
fn run_fp2<P: Fp2Config>(id: &str, hooks: &str, mode: Mode, rng: &mut Rng, th: bool, out: &mut Out, only: &Option<String>) {
    if !want(only, id) { return; }
    cfg_line::<Fp2<P>>(id, "fp2", &format!("{} {}", pre_str::<P::Fp>(), hdr_fp2::<P>(hooks)), out);
    field_ops::<Fp2<P>>(id, mode, rng, th, out);
}
fn run_fp3<P: Fp3Config>(id: &str, mode: Mode, rng: &mut Rng, th: bool, out: &mut Out, only: &Option<String>) {
    if !want(only, id) { return; }
    cfg_line::<Fp3<P>>(id, "fp3", &format!("{} {}", pre_str::<P::Fp>(), hdr_fp3::<P>()), out);
    field_ops::<Fp3<P>>(id, mode, rng, th, out);
}
fn run_fp4<P: Fp4Config>(id: &str, hooks2: &str, mode: Mode, rng: &mut Rng, th: bool, out: &mut Out, only: &Option<String>) {
    if !want(only, id) { return; }
    let consts = format!("{} {} {} {}", pre_str::<<P::Fp2Config as Fp2Config>::Fp>(), hdr_fp2::<P::Fp2Config>(hooks2), es(&P::NONRESIDUE), list(P::FROBENIUS_COEFF_FP4_C1));
    cfg_line::<Fp4<P>>(id, "fp4", &consts, out);
    field_ops::<Fp4<P>>(id, mode, rng, th, out);
}
fn run_fp6a<P: fp6_2over3::Fp6Config>(id: &str, mode: Mode, rng: &mut Rng, th: bool, out: &mut Out, only: &Option<String>) {
    if !want(only, id) { return; }
    let consts = format!("{} {} {} {}", pre_str::<<P::Fp3Config as Fp3Config>::Fp>(), hdr_fp3::<P::Fp3Config>(), es(&P::NONRESIDUE), list(P::FROBENIUS_COEFF_FP6_C1));
    cfg_line::<fp6_2over3::Fp6<P>>(id, "fp6a", &consts, out);
    field_ops::<fp6_2over3::Fp6<P>>(id, mode, rng, th, out);
}
fn run_fp12<P: Fp12Config>(id: &str, h2: &str, h6: &str, mode: Mode, rng: &mut Rng, th: bool, out: &mut Out, only: &Option<String>) {
    use ark_ff::fields::models::fp6_3over2::Fp6Config;
    if !want(only, id) { return; }
    type C2<P> = <<P as Fp12Config>::Fp6Config as Fp6Config>::Fp2Config;
    let consts = format!("{} {} {} {} {} {} {} {}", pre_str::<<C2<P> as Fp2Config>::Fp>(), hdr_fp2::<C2<P>>(h2), h6,
        es(&<P::Fp6Config as Fp6Config>::NONRESIDUE), list(<P::Fp6Config as Fp6Config>::FROBENIUS_COEFF_FP6_C1),
        list(<P::Fp6Config as Fp6Config>::FROBENIUS_COEFF_FP6_C2), es(&P::NONRESIDUE), list(P::FROBENIUS_COEFF_FP12_C1));
    cfg_line::<Fp12<P>>(id, "fp12", &consts, out);
    field_ops::<Fp12<P>>(id, mode, rng, th, out);
}

// ---------------------------------------------------------------------------------------------
// coordinate recovery
// ---------------------------------------------------------------------------------------------

fn pair<F: Field>(r: Option<(F, F)>) -> String { match r { Some((a, b)) => format!("{} {}", es(&a), es(&b)), None => "none".into() } }

fn coord_values<F: Field>(on_curve: Vec<F>, rng: &mut Rng, th: bool) -> Vec<F> {
    if let Some(q) = field_size::<F>() { if q <= 70_000 { return all_elems::<F>(); } }
    let mut v = vec![F::zero(), F::one(), -F::one(), F::from(2u64), F::from(3u64), -F::from(2u64)];
    v.extend(on_curve);
    for _ in 0..(if th { 150 } else { 24 }) { v.push(rand_elem(rng)); }
    if F::extension_degree() > 1 {
        for _ in 0..(if th { 20 } else { 4 }) { v.push(F::from_base_prime_field(rand_prime(rng))); }
    }
    v
}

fn sw_ops<P: SWCurveConfig>(cid: &str, fid: &str, with_points: bool, rng: &mut Rng, th: bool, out: &mut Out, only: &Option<String>) {
    if !want(only, fid) && !want(only, cid) { return; }
    out.line(&format!("C11 ccfg {} sw {} {} {}", cid, fid, es(&P::COEFF_A), es(&P::COEFF_B)), "ok");
    let mut on: Vec<P::BaseField> = Vec::new();
    if with_points {
        let g = short_weierstrass::Projective::<P>::from(P::GENERATOR);
        let mut acc = g;
        for _ in 0..(if th { 40 } else { 8 }) { if let Some((x, _)) = acc.into_affine().xy() { on.push(x); } acc = acc + acc + g; }
    }
    for x in coord_values::<P::BaseField>(on, rng, th) {
        let a = es(&x);
        out.line(&format!("C11 ysfromx {} {}", cid, a), &guarded(move || pair(short_weierstrass::Affine::<P>::get_ys_from_x_unchecked(x))));
        for g in [false, true] {
            out.line(&format!("C11 ptfromx {} {} {}", cid, g as u8, a),
                &guarded(move || pair(short_weierstrass::Affine::<P>::get_point_from_x_unchecked(x, g).map(|p| (p.x, p.y)))));
        }
    }
}

fn te_ops<P: TECurveConfig>(cid: &str, fid: &str, with_points: bool, rng: &mut Rng, th: bool, out: &mut Out, only: &Option<String>) {
    if !want(only, fid) && !want(only, cid) { return; }
    out.line(&format!("C11 ccfg {} te {} {} {}", cid, fid, es(&P::COEFF_A), es(&P::COEFF_D)), "ok");
    let mut on: Vec<P::BaseField> = Vec::new();
    if with_points {
        let g = twisted_edwards::Projective::<P>::from(P::GENERATOR);
        let mut acc = g;
        for _ in 0..(if th { 40 } else { 8 }) { on.push(acc.into_affine().y); acc = acc + acc + g; }
    }
    for y in coord_values::<P::BaseField>(on, rng, th) {
        let a = es(&y);
        out.line(&format!("C11 xsfromy {} {}", cid, a), &guarded(move || pair(twisted_edwards::Affine::<P>::get_xs_from_y_unchecked(y))));
        for g in [false, true] {
            out.line(&format!("C11 ptfromy {} {} {}", cid, g as u8, a),
                &guarded(move || pair(twisted_edwards::Affine::<P>::get_point_from_y_unchecked(y, g).map(|p| (p.x, p.y)))));
        }
    }
}

pub fn run(rng: &mut Rng, th: bool, out: &mut Out, only: &Option<String>) {
    use Mode::*;
    let ex = Exhaustive(if th { 140_000 } else { 12_000 });
    let ex_small = Exhaustive(700);
    // ---- toy prime fields, exhaustive: two-adicity 1 (3 mod 4 and Tonelli–Shanks), 2, 3, 4, 5, 6, 7, 8, 16
    macro_rules! fp { ($t:ty, $n:expr, $id:expr) => { run_fp::<M<$t, $n>>($id, "fp", ex, rng, th, out, only); }; }
    fp!(DT3, 1, "d3"); fp!(HT3, 1, "h3"); fp!(DT7, 1, "d7"); fp!(HT7, 1, "h7");
    fp!(DT127, 1, "d127"); fp!(HT127, 1, "h127"); fp!(DT251, 1, "d251"); fp!(HT251, 1, "h251");
    run_fp::<M<H7ts, 1>>("h7ts", "fpx", ex, rng, th, out, only);
    run_fp::<M<H127ts, 1>>("h127ts", "fpx", ex, rng, th, out, only);
    run_fp::<M<H251ts, 1>>("h251ts", "fpx", ex, rng, th, out, only);
    fp!(DT5, 1, "d5"); fp!(HT5, 1, "h5"); fp!(DT13, 1, "d13"); fp!(HT13, 1, "h13"); fp!(HT13x2, 2, "h13x2");
    fp!(D41, 1, "d41"); fp!(H41, 1, "h41");
    fp!(D17, 1, "d17"); fp!(H17, 1, "h17");
    fp!(D97, 1, "d97"); fp!(H97, 1, "h97");
    fp!(D193, 1, "d193"); fp!(H193, 1, "h193");
    fp!(D641, 1, "d641"); fp!(H641, 1, "h641");
    fp!(DT257, 1, "d257"); fp!(HT257, 1, "h257");
    fp!(DT65537, 1, "d65537"); fp!(HT65537, 1, "h65537");
    fp!(D19, 1, "d19"); fp!(D31, 1, "d31"); fp!(D37, 1, "d37"); fp!(D73, 1, "d73"); fp!(D241, 1, "d241");
    fp!(D769, 1, "d769"); fp!(D1153, 1, "d1153");
    // ---- toy quadratic extensions
    run_fp2::<Q2_3>("q3", "def", ex, rng, th, out, only);
    run_fp2::<Q2_5>("q5", "def", ex, rng, th, out, only);
    run_fp2::<Q2_7m>("q7m", "def", ex, rng, th, out, only);
    run_fp2::<Q2_7g>("q7g", "def", ex, rng, th, out, only);
    run_fp2::<Q2_7ts>("q7ts", "def", ex, rng, th, out, only);
    run_fp2::<Q2_13>("q13", "def", ex, rng, th, out, only);
    run_fp2::<Q2_17>("q17", "def", ex, rng, th, out, only);
    run_fp2::<Q2_41>("q41", "def", ex, rng, th, out, only);
    run_fp2::<Q2_97>("q97", "def", ex, rng, th, out, only);
    run_fp2::<Q2_127>("q127", "def", ex, rng, th, out, only);
    run_fp2::<Q2_193>("q193", "def", ex, rng, th, out, only);
    run_fp2::<Q2_251>("q251", "def", ex, rng, th, out, only);
    run_fp2::<Q2_257>("q257", "def", ex, rng, th, out, only);
    run_fp2::<Q2_257h>("q257h", "def", ex, rng, th, out, only);
    // ---- toy cubic extensions (two-adicity 1, 1, 2, 1, 1, 2 exhaustive; 3…8 sampled)
    run_fp3::<C3_7_2>("c7a", ex, rng, th, out, only);
    run_fp3::<C3_7_3>("c7b", ex, rng, th, out, only);
    run_fp3::<C3_13_2>("c13", ex, rng, th, out, only);
    run_fp3::<C3_19_2>("c19", ex, rng, th, out, only);
    run_fp3::<C3_31_3>("c31", ex, rng, th, out, only);
    run_fp3::<C3_37_2>("c37", ex, rng, th, out, only);
    run_fp3::<C3_73_5>("c73", ex_small, rng, th, out, only);
    run_fp3::<C3_241_7>("c241", ex_small, rng, th, out, only);
    run_fp3::<C3_97_5>("c97", ex_small, rng, th, out, only);
    run_fp3::<C3_193_5>("c193", ex_small, rng, th, out, only);
    run_fp3::<C3_1153_5>("c1153", ex_small, rng, th, out, only);
    run_fp3::<C3_769_11>("c769", ex_small, rng, th, out, only);
    // ---- toy towers: quadratic over quadratic, quadratic over cubic
    run_fp4::<Q4_5>("t4_5", "def", ex, rng, th, out, only);
    run_fp4::<Q4_13>("t4_13", "def", ex, rng, th, out, only);
    run_fp6a::<S6a_7>("t6a_7", ex, rng, th, out, only);
    run_fp6a::<S6a_13>("t6a_13", ex_small, rng, th, out, only);

    // ---- big fields
    let big = Sample(if th { 2 } else { 1 }, if th { 150 } else { 12 });
    // fields whose spec arithmetic (Euler's criterion by schoolbook tower multiplication) is expensive
    let heavy = Sample(if th { 1 } else { 0 }, if th { 30 } else { 4 });
    let heavier = if th { Sample(0, 10) } else { Few(false) };
    // second flavours of a modulus already covered, and big quadratic extensions: light in the quick tier
    let light = Sample(if th { 2 } else { 0 }, if th { 150 } else { 8 });
    macro_rules! bfp { ($f:ty, $id:expr) => { run_fp::<$f>($id, "fp", big, rng, th, out, only); }; }
    macro_rules! lfp { ($f:ty, $id:expr) => { run_fp::<$f>($id, "fp", light, rng, th, out, only); }; }
    bfp!(bls12_381::Fq, "bls_fq"); bfp!(bls12_381::Fr, "bls_fr");
    lfp!(FDBls381Fr, "zoo_bls_fr_d"); lfp!(FHBls381Fr, "zoo_bls_fr_h"); lfp!(FHBls381Fq, "zoo_bls_fq_h");
    bfp!(mnt4_753::Fq, "mnt4_fq"); bfp!(mnt4_753::Fr, "mnt4_fr");
    bfp!(bn384_small_two_adicity::Fq, "bn384_fq"); bfp!(bn384_small_two_adicity::Fr, "bn384_fr");
    bfp!(secp256k1::Fq, "secp_fq"); bfp!(secp256k1::Fr, "secp_fr"); lfp!(FHSecp256k1, "zoo_secp_h");
    bfp!(fp128::Fq, "fp128"); bfp!(ed_on_bls12_381::Fr, "edbls_fr");
    bfp!(FDGoldilocks, "gold_d"); lfp!(FHGoldilocks, "gold_h"); lfp!(FDM61, "m61"); lfp!(FDM127, "m127");
    lfp!(FDP64m59, "p64m59"); lfp!(FHP128m159, "p128m159_h"); lfp!(FDP25519, "p25519"); lfp!(FDSecp384r1, "secp384r1");
    bfp!(M<DBls377Fr, 4>, "bls377_fr"); bfp!(M<DBls377Fq, 6>, "bls377_fq");
    run_fp2::<bls12_381::Fq2Config>("bls_fq2", "neg", light, rng, th, out, only);
    run_fp2::<Q2_BlsFr>("q_blsfr", "def", light, rng, th, out, only);
    run_fp2::<Q2_Gold>("q_gold", "def", light, rng, th, out, only);
    run_fp3::<mnt6_753::Fq3Config>("mnt6_fq3", heavy, rng, th, out, only);
    run_fp4::<Q4_BlsFr>("t4_blsfr", "def", heavy, rng, th, out, only);
    run_fp6a::<Mnt6Fq6>("mnt6_fq6", heavier, rng, th, out, only);
    // quadratic extension of a field without square-root algorithm: every `sqrt` hits `unimplemented!()`
    run_fp12::<D12_7>("t12_7", "def", "def", Few(true), rng, th, out, only);
    run_fp12::<bls12_381::Fq12Config>("bls_fq12", "neg", "bls", Few(th), rng, th, out, only);

    // ---- coordinate recovery
    sw_ops::<SW13>("sw13", "d13", false, rng, th, out, only);
    sw_ops::<SW17>("sw17", "d17", false, rng, th, out, only);
    sw_ops::<SW41>("sw41", "d41", false, rng, th, out, only);
    sw_ops::<SW97>("sw97", "d97", false, rng, th, out, only);
    sw_ops::<SW257>("sw257", "d257", false, rng, th, out, only);
    sw_ops::<SW7x2>("sw7x2", "q7m", false, rng, th, out, only);
    sw_ops::<SW13x2>("sw13x2", "q13", false, rng, th, out, only);
    sw_ops::<SW7x3>("sw7x3", "c7b", false, rng, th, out, only);
    te_ops::<TE13>("te13", "d13", false, rng, th, out, only);
    te_ops::<TE17>("te17", "d17", false, rng, th, out, only);
    te_ops::<TE41>("te41", "d41", false, rng, th, out, only);
    te_ops::<TE97>("te97", "d97", false, rng, th, out, only);
    te_ops::<TE257>("te257", "d257", false, rng, th, out, only);
    sw_ops::<bls12_381::g1::Config>("bls_g1", "bls_fq", true, rng, th, out, only);
    sw_ops::<bls12_381::g2::Config>("bls_g2", "bls_fq2", true, rng, th, out, only);
    sw_ops::<bn384_small_two_adicity::g1::Config>("bn384_g1", "bn384_fq", true, rng, th, out, only);
    sw_ops::<mnt4_753::g1::Config>("mnt4_g1", "mnt4_fq", true, rng, th, out, only);
    sw_ops::<secp256k1::Config>("secp_g1", "secp_fq", true, rng, th, out, only);
    te_ops::<ed_on_bls12_381::EdwardsConfig>("edbls", "bls_fr", true, rng, th, out, only);
}

fn main() {
    let a = arkharness::args();
    let mut rng = Rng::new(a.seed);
    let mut out = Out::new();
    run(&mut rng, a.thorough, &mut out, &a.only);
    out.flush();
}
