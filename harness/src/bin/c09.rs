//! C09: serialisation round trips at the advertised size; field encodings are unique.
//! Real code: `ark_ff` `Fp`/`QuadExtField`/`CubicExtField` `(de)serialize_with_flags`, `SerBuffer`,
//! `from_random_bytes_with_flags`; `ark_ec` SW/TE `serialize_with_mode` / `deserialize_with_mode` for
//! `Affine` and `Projective`.  Line formats: see `src/serial_common.rs`.
//! Sub-streams (3rd argument selects one): field, ext, over (over-limbed hand-written configs),
//! toy (toy curves, exhaustive), ship (shipped curves), flags (to_flags, Flags::from_u8, sign flags),
//! prb (AffineRepr::from_random_bytes).
#![allow(dead_code, deprecated, non_camel_case_types)]
use ark_ec::{short_weierstrass as sw, twisted_edwards as te};
use ark_ff::{Field, One, PrimeField, Zero};
use ark_serialize::{Compress, EmptyFlags, Validate};
use arkharness::serial_common::*;
use arkharness::util::*;
use arkharness::zoo::*;

// ---------------------------------------------------------------- fields
fn field_suite<F: Field>(out: &mut Out, rng: &mut Rng, fd: &str, vals: &[F], nfl: usize, exh: usize, sweeps: usize) {
    for x in vals { for (c, v) in MODES { op_frt(out, fd, x, c, v); } }
    macro_rules! with_flags { ($fl:ty) => {
        for x in vals.iter().take(nfl) { for fl in <$fl>::samples() { op_fflrt::<F, $fl>(out, fd, x, fl); } }
        for b in field_strings::<F, $fl>(rng, vals, exh, sweeps, false) { op_funiq::<F, $fl>(out, fd, &b); }
    }; }
    with_flags!(EmptyFlags);
    with_flags!(sw::SWFlags);
    with_flags!(te::TEFlags);
    with_flags!(W3);
    with_flags!(W8);
    with_flags!(W9);
    // from_random_bytes_with_flags
    let n8 = nlimbs::<F>() * 8 * F::extension_degree() as usize;
    let lens = [0usize, 1, 7, 8, 9, n8.saturating_sub(1), n8, n8 + 1, n8 + 2, n8 + 9, 2 * n8 + 3];
    for len in lens {
        for j in 0..3 {
            let mut b = rand_bytes(rng, len);
            if j == 1 { for t in b.iter_mut() { *t = 0xff; } }
            if j == 2 && len > 0 { let l = len - 1; b[l] &= 0x03; }
            op_frb::<F, EmptyFlags>(out, fd, &b);
            op_frb::<F, sw::SWFlags>(out, fd, &b);
            op_frb::<F, te::TEFlags>(out, fd, &b);
            if j == 0 { op_frb::<F, W9>(out, fd, &b); op_frb::<F, W8>(out, fd, &b); }
        }
    }
}

fn prime_field<F: PrimeField>(out: &mut Out, rng: &mut Rng, th: bool) {
    let fd = fdesc::<F>("_");
    let tiny = F::MODULUS_BIT_SIZE <= 9;
    let vals: Vec<F> = if tiny { all_elems::<F>() } else { edge_prime::<F>(rng, if th { 60 } else { 10 }) };
    let vals: Vec<F> = if tiny && !th && vals.len() > 64 {
        // quick tier: every 5th element plus both ends of a toy field with more than 64 elements
        vals.iter().enumerate().filter(|(i, _)| i % 5 == 0 || *i < 4 || *i + 4 >= vals.len() || (*i as i64 - vals.len() as i64 / 2).abs() < 3).map(|(_, x)| *x).collect()
    } else { vals };
    let exh = if th { 2 } else { 1 };
    field_suite::<F>(out, rng, &fd, &vals, if th { 40 } else { 12 }, exh, if th { 6 } else { 2 });
}
fn ext_field<F: Field>(out: &mut Out, rng: &mut Rng, tower: &str, th: bool) {
    let fd = fdesc::<F>(tower);
    let vals = edge_ext::<F>(rng, if th { 80 } else { (3 * F::extension_degree() as usize + 12).min(30) });
    field_suite::<F>(out, rng, &fd, &vals, if th { 30 } else { 8 }, 0, if th { 4 } else { 1 });
}

// ---------------------------------------------------------------- curves
fn sw_points_ops<P: sw::SWCurveConfig>(out: &mut Out, cd: &str, affs: &[sw::Affine<P>], lambdas: &[P::BaseField], extra_zero: bool) {
    for a in affs {
        for (c, v) in MODES { op_prt(out, cd, a, c, v); }
        let pr: sw::Projective<P> = (*a).into();
        for l in lambdas {
            let q = sw_rescale(&pr, *l);
            for (c, v) in MODES { op_prt(out, cd, &q, c, v); }
        }
    }
    if extra_zero {
        // representations of the identity with non-canonical coordinates
        let one = P::BaseField::one();
        let five = one + one + one + one + one;
        let z1 = sw::Projective::<P>::new_unchecked(five, five + one, P::BaseField::zero());
        let z2 = sw::Projective::<P>::new_unchecked(P::BaseField::zero(), P::BaseField::zero(), P::BaseField::zero());
        for (c, v) in MODES { op_prt(out, cd, &z1, c, v); op_prt(out, cd, &z2, c, v); }
        let mut i1 = sw::Affine::<P>::identity(); i1.x = five; i1.y = one;
        for (c, v) in MODES { op_prt(out, cd, &i1, c, v); }
    }
}
fn sw_offcurve_ops<P: sw::SWCurveConfig>(out: &mut Out, cd: &str, affs: &[sw::Affine<P>]) {
    // arbitrary coordinate pairs: the uncompressed unchecked mode must give them back as they are
    for a in affs {
        if a.infinity { continue; }
        let b = sw::Affine::<P>::new_unchecked(a.x, a.y + P::BaseField::one());
        op_prt(out, cd, &b, Compress::No, Validate::No);
        op_prt(out, cd, &b, Compress::No, Validate::Yes);
        let pb = sw::Projective::<P>::new_unchecked(b.x, b.y, P::BaseField::one());
        op_prt(out, cd, &pb, Compress::No, Validate::No);
    }
}
fn te_points_ops<P: te::TECurveConfig>(out: &mut Out, fd: &str, affs: &[te::Affine<P>], lambdas: &[P::BaseField]) {
    let cd = te_desc::<P>(fd);
    for a in affs {
        for (c, v) in MODES { op_prt(out, &cd, a, c, v); }
        let pr: te::Projective<P> = (*a).into();
        for l in lambdas {
            let q = te_rescale(&pr, *l);
            for (c, v) in MODES { op_prt(out, &cd, &q, c, v); }
        }
    }
}
fn te_offcurve_ops<P: te::TECurveConfig>(out: &mut Out, fd: &str, affs: &[te::Affine<P>]) {
    let cd = te_desc::<P>(fd);
    for a in affs {
        let b = te::Affine::<P>::new_unchecked(a.x + P::BaseField::one(), a.y);
        op_prt(out, &cd, &b, Compress::No, Validate::No);
        op_prt(out, &cd, &b, Compress::No, Validate::Yes);
    }
}

fn toy_sw<P: sw::SWCurveConfig>(out: &mut Out, name: &str, tw: &str, order: u64, th: bool) {
    check_sw::<P>(name, order);
    let cd = sw_desc::<P>(&fdesc::<P::BaseField>(tw));
    let cd = cd.as_str();
    let mut pts = vec![sw::Affine::<P>::identity()];
    pts.extend(sw_all_points::<P>());
    let two = small_f::<P::BaseField>(2);
    let lam: Vec<P::BaseField> = if th || pts.len() < 40 { vec![P::BaseField::one(), two, -P::BaseField::one(), small_f::<P::BaseField>(5)] } else { vec![two] };
    sw_points_ops::<P>(out, cd, &pts, &lam, true);
    let off: Vec<_> = pts.iter().cloned().take(if th { 400 } else { 24 }).collect();
    sw_offcurve_ops::<P>(out, cd, &off);
}
fn toy_te<P: te::TECurveConfig>(out: &mut Out, name: &str, order: u64, th: bool) {
    check_te::<P>(name, order);
    let fd = fdesc::<P::BaseField>("_");
    let pts = te_all_points::<P>();
    let two = small_f::<P::BaseField>(2);
    let lam: Vec<P::BaseField> = if th || pts.len() < 40 { vec![P::BaseField::one(), two, -P::BaseField::one(), small_f::<P::BaseField>(5)] } else { vec![two] };
    te_points_ops::<P>(out, &fd, &pts, &lam);
    let off: Vec<_> = pts.iter().cloned().take(if th { 400 } else { 24 }).collect();
    te_offcurve_ops::<P>(out, &fd, &off);
}
/// `budget`: number of checked-mode lines (each costs the driver one or two scalar multiplications by `r`)
fn ship_sw<P: sw::SWCurveConfig>(out: &mut Out, rng: &mut Rng, n: usize, tw: &str, h1: Option<&str>, budget: i64) {
    set_budget(budget);
    let fd = fdesc::<P::BaseField>(tw);
    let cd = match h1 { Some(h) => sw_desc_with::<P>(&fd, h), None => sw_desc::<P>(&fd) };
    let cd = cd.as_str();
    let (sub, other) = sw_sample::<P>(rng, n);
    let lam = vec![rand_field::<P::BaseField>(rng)];
    // subgroup points and curve points outside the subgroup alternate, so that a finite budget of
    // checked-mode lines is spread over both kinds: affine in all modes, projective (rescaled) in two
    let mut order: Vec<sw::Affine<P>> = Vec::new();
    for i in 0..sub.len().max(other.len()) {
        if i < sub.len() { order.push(sub[i]); }
        if i < other.len() { order.push(other[i]); }
    }
    for a in order.iter() {
        for (c, v) in MODES { op_prt(out, cd, a, c, v); }
        let q = sw_rescale(&sw::Projective::<P>::from(*a), lam[0]);
        op_prt(out, cd, &q, Compress::Yes, Validate::Yes);
        op_prt(out, cd, &q, Compress::No, Validate::No);
    }
    // every projective mode and the non-canonical identities for the first three (what is left of the budget)
    sw_points_ops::<P>(out, cd, &sub[..3], &lam, true);
    sw_offcurve_ops::<P>(out, cd, &sub[..4]);
}
fn ship_te<P: te::TECurveConfig>(out: &mut Out, rng: &mut Rng, n: usize, budget: i64) {
    set_budget(budget);
    let fd = fdesc::<P::BaseField>("_");
    let cd = te_desc::<P>(&fd);
    let (sub, other) = te_sample::<P>(rng, n);
    let lam = vec![rand_field::<P::BaseField>(rng)];
    let mut order: Vec<te::Affine<P>> = Vec::new();
    for i in 0..sub.len().max(other.len()) {
        if i < sub.len() { order.push(sub[i]); }
        if i < other.len() { order.push(other[i]); }
    }
    for a in order.iter() {
        for (c, v) in MODES { op_prt(out, &cd, a, c, v); }
        let q = te_rescale(&te::Projective::<P>::from(*a), lam[0]);
        op_prt(out, &cd, &q, Compress::Yes, Validate::Yes);
        op_prt(out, &cd, &q, Compress::No, Validate::No);
    }
    te_points_ops::<P>(out, &fd, &sub[..3], &lam);
    te_offcurve_ops::<P>(out, &fd, &sub[..4]);
}

// ---------------------------------------------------------------- flags, from_random_bytes
//   C09 toflags   CD <P>        => <mask>                          sw::Affine::to_flags().u8_bitmask()
//   C09 signflag  FD <S|T> <x>  => <mask>                          SWFlags::from_y_coordinate / TEFlags::from_x_coordinate
//   C09 flagu8    S <byte>      => none <byte'> | <mask> <inf> <pos: 1|0|-> <byte'>   from_u8, accessors, from_u8_remove_flags
//   C09 flagu8    T <byte>      => <mask> <neg> <byte'>
//   C09 flagconst S             => <default mask> <infinity() mask> <BIT_SIZE>
//   C09 flagconst T             => <default mask> <BIT_SIZE>
//   C09 prb       CD <bytes>    => none | inf | <x>/<y>            AffineRepr::from_random_bytes
//   C09 prbrt     CD <P>        => none | inf | <x>/<y>            from_random_bytes(serialize_compressed(P))
use ark_ec::AffineRepr;
use ark_serialize::Flags;

fn op_toflags<P: sw::SWCurveConfig>(out: &mut Out, cd: &str, a: &sw::Affine<P>) {
    let input = format!("C09 toflags {} {}", cd, a.show());
    let res = guarded(|| flag_s(&a.to_flags()));
    out.line(&input, &res);
}
fn op_signflag<F: Field>(out: &mut Out, fd: &str, x: &F) {
    let res = guarded(|| flag_s(&sw::SWFlags::from_y_coordinate(*x)));
    out.line(&format!("C09 signflag {} S {}", fd, fe(x)), &res);
    let res = guarded(|| flag_s(&te::TEFlags::from_x_coordinate(*x)));
    out.line(&format!("C09 signflag {} T {}", fd, fe(x)), &res);
}
fn flag_byte_ops(out: &mut Out) {
    for v in 0..=255u8 {
        let res = guarded(|| {
            let f = sw::SWFlags::from_u8(v);
            let mut w = v;
            let g = sw::SWFlags::from_u8_remove_flags(&mut w);
            let s = match f {
                None => format!("none {:x}", w),
                Some(f) => format!("{:x} {} {} {:x}", f.u8_bitmask(), h01(f.is_infinity()),
                    match f.is_positive() { None => "-", Some(true) => "1", Some(false) => "0" }, w),
            };
            if f == g { s } else { format!("{} !remove={:?}", s, g) }
        });
        out.line(&format!("C09 flagu8 S {:x}", v), &res);
        let res = guarded(|| {
            let f = te::TEFlags::from_u8(v);
            let mut w = v;
            let g = te::TEFlags::from_u8_remove_flags(&mut w);
            let s = match f {
                None => format!("none {:x}", w),
                Some(f) => format!("{:x} {} {:x}", f.u8_bitmask(), h01(f.is_negative()), w),
            };
            if f == g { s } else { format!("{} !remove={:?}", s, g) }
        });
        out.line(&format!("C09 flagu8 T {:x}", v), &res);
    }
    let res = guarded(|| format!("{:x} {:x} {:x}", sw::SWFlags::default().u8_bitmask(), sw::SWFlags::infinity().u8_bitmask(), <sw::SWFlags as Flags>::BIT_SIZE));
    out.line("C09 flagconst S", &res);
    let res = guarded(|| format!("{:x} {:x}", te::TEFlags::default().u8_bitmask(), <te::TEFlags as Flags>::BIT_SIZE));
    out.line("C09 flagconst T", &res);
}
/// every `step`-th point of a list, plus the points with a zero coordinate
fn thin<T: Clone>(v: &[T], step: usize, keep: impl Fn(&T) -> bool) -> Vec<T> {
    v.iter().enumerate().filter(|(i, x)| i % step == 0 || keep(x)).map(|(_, x)| x.clone()).collect()
}
fn toy_sw_flags<P: sw::SWCurveConfig>(out: &mut Out, tw: &str, th: bool) {
    let cd = sw_desc::<P>(&fdesc::<P::BaseField>(tw));
    let all = sw_all_points::<P>();
    let pts = thin(&all, if th || all.len() < 150 { 1 } else { 3 }, |p| p.y.is_zero() || p.x.is_zero());
    op_toflags(out, &cd, &sw::Affine::<P>::identity());
    // identities with placeholder coordinates (pub fields): the flag must not depend on them
    let one = P::BaseField::one();
    for (x, y) in [(small_f::<P::BaseField>(5), one), (P::BaseField::zero(), -one), (one, P::BaseField::zero())] {
        let mut i1 = sw::Affine::<P>::identity(); i1.x = x; i1.y = y;
        op_toflags(out, &cd, &i1);
    }
    for p in &pts { op_toflags(out, &cd, p); }
}
fn ship_sw_flags<P: sw::SWCurveConfig>(out: &mut Out, rng: &mut Rng, n: usize, tw: &str) {
    let cd = sw_desc::<P>(&fdesc::<P::BaseField>(tw));
    let (sub, other) = sw_sample::<P>(rng, n);
    let mut i1 = sw::Affine::<P>::identity(); i1.x = rand_field::<P::BaseField>(rng); i1.y = -P::BaseField::one();
    op_toflags(out, &cd, &i1);
    for p in sub.iter().chain(other.iter()) { op_toflags(out, &cd, p); op_toflags(out, &cd, &-*p); }
}

fn op_prb<A: AffineRepr + Rep>(out: &mut Out, cd: &str, bytes: &[u8]) {
    let input = format!("C09 prb {} {}", cd, hex_list_u8(bytes));
    let res = guarded(|| match A::from_random_bytes(bytes) { Some(p) => p.show(), None => "none".into() });
    out.line(&input, &res);
}
fn op_prbrt<A: AffineRepr + Rep>(out: &mut Out, cd: &str, a: &A) {
    let input = format!("C09 prbrt {} {}", cd, a.show());
    let res = guarded(|| {
        let b = ser_vec(a, Compress::Yes);
        match A::from_random_bytes(&b) { Some(p) => p.show(), None => "none".into() }
    });
    out.line(&input, &res);
}
type BPF<A> = <<A as AffineRepr>::BaseField as Field>::BasePrimeField;
/// Inputs of `from_random_bytes` for a curve whose flags take `f` bits (2 SW, 1 TE); `pts`: real points
/// (their compressed encodings seed the corpus).  `from_random_bytes_with_flags` zero-pads a coordinate
/// input into `8N + 1` bytes, clears the integer bits at positions >= MODULUS_BIT_SIZE and reads the flags
/// from byte `ceil((bits + f)/8) - 1`; a quadratic extension splits its input at `len / 2`.
fn prb_strings<A: AffineRepr + Rep>(rng: &mut Rng, f: usize, pts: &[A], th: bool, toy: bool) -> Vec<Vec<u8>> {
    let bits = BPF::<A>::MODULUS_BIT_SIZE as usize;
    let n8 = 8 * nlimbs::<A::BaseField>();
    let k = A::BaseField::extension_degree() as usize;
    let s0 = (bits + 7) / 8;
    let s = (bits + f + 7) / 8;
    let size = (k - 1) * s0 + s;
    assert!(k <= 2);
    let valid: Vec<Vec<u8>> = pts.iter().map(|p| ser_vec(p, Compress::Yes)).collect();
    for b in &valid { assert_eq!(b.len(), size); }
    let mut v: Vec<Vec<u8>> = Vec::new();
    // valid encodings: as they are, under every pattern of the two top bits, with trailing bytes
    let nv = if th { 24 } else { 6 };
    for (i, b) in valid.iter().take(nv).enumerate() {
        v.push(b.clone());
        if i <= nv / 2 { for top in [0x00u8, 0x40, 0x80, 0xc0] { let mut w = b.clone(); w[size - 1] = (w[size - 1] & 0x3f) | top; v.push(w); } }
        if i < 3 { let mut w = b.clone(); w.push(0xc0); v.push(w.clone()); w.extend(rand_bytes(rng, 9)); v.push(w); }
    }
    // zero coordinate under every pattern (0x40: the identity)
    for top in [0x00u8, 0x40, 0x80, 0xc0, 0x20] { let mut w = vec![0u8; size]; w[size - 1] = top; v.push(w); }
    // coordinate edges p-1, p, p+1, 2^bits - 1, 2^bits in the flagged coordinate (flag bits clear / sign bit set)
    let base = valid.iter().find(|b| b.iter().any(|t| *t != 0)).cloned().unwrap_or(vec![0u8; size]);
    let mut edges = vec![modulus_plus::<BPF<A>>(-1, s), modulus_plus::<BPF<A>>(0, s), modulus_plus::<BPF<A>>(1, s), pow2_plus(bits, -1, s)];
    if bits < 8 * s { edges.push(pow2_plus(bits, 0, s)); edges.push(pow2_plus(bits, 1, s)); }
    for e in edges {
        let mut w = base.clone();
        w[(k - 1) * s0..].copy_from_slice(&e);
        v.push(w.clone());
        if bits + f <= 8 * s { w[size - 1] |= 0x80; v.push(w); }
    }
    if k == 2 { for e in [modulus_plus::<BPF<A>>(0, s0), modulus_plus::<BPF<A>>(-1, s0)] { let mut w = base.clone(); w[..s0].copy_from_slice(&e); v.push(w); } }
    // lengths around every boundary: random, all ones, sparse
    let l1 = [0usize, 1, s.saturating_sub(1), s, s + 1, n8, n8 + 1, n8 + 2, n8 + 8, n8 + 9, n8 + 17, 2 * n8 + 3];
    let lens: Vec<usize> = if k == 1 { l1.to_vec() } else { l1.iter().flat_map(|l| [2 * l, 2 * l + 1]).collect() };
    for (i, len) in lens.iter().enumerate() {
        v.push(rand_bytes(rng, *len));
        if th || i % 2 == 0 { v.push(vec![0xffu8; *len]); }
        if th || i % 2 == 1 {
            // small integers: only the low bytes and the would-be flag positions are non-zero
            let mut w = vec![0u8; *len];
            for t in w.iter_mut().take(2) { *t = rng.next() as u8; }
            let l = *len; if l > 0 { w[l - 1] = rng.next() as u8; } if l > 8 { w[8 * ((l - 1) / 8)] = rng.next() as u8; }
            v.push(w);
        }
    }
    // random strings of the compressed size
    let nr = if toy { if th { 300 } else { 24 } } else { if th { 200 } else { 12 } };
    for _ in 0..nr { v.push(rand_bytes(rng, size)); }
    if toy {
        assert_eq!(n8, 8);
        let x0 = base[0];
        if k == 1 && s == 1 {
            v.extend(all_strings(1));
            for t in 0..8u8 { v.push(vec![x0, 0x1f * t, 0xff]); }
        } else if k == 1 {
            // two significant bytes: sweep the low byte under a few flag bytes, and the flag byte over two low bytes
            let b1s: Vec<u8> = if th { vec![0, 1, 2, 0x3e, 0x40, 0x41, 0x80, 0x81, 0xc0, 0xc1, 0xff] } else { vec![0x00, 0x80] };
            for b1 in b1s { for b0 in 0..=255u8 { v.push(vec![b0, b1]); } }
            let b0s: Vec<u8> = if th { vec![0, 1, x0, x0 ^ 1, 0xff] } else { vec![0, x0] };
            for b0 in b0s { for b1 in 0..=255u8 { v.push(vec![b0, b1]); } }
            for b0 in (0..=255u8).step_by(if th { 1 } else { 16 }) { v.push(vec![b0]); }
        } else {
            // Fp2 over a tiny prime: one byte per coefficient; the flagged byte is the second one
            let mask = (1u16 << bits) - 1;
            let nb0 = if th { (2u16 << bits).min(256) } else { mask + 3 };
            for b0 in 0..nb0 {
                for b1 in 0..=255u16 {
                    let mid = b1 & 0x3f & !mask;   // ignored bits between the integer and the flags
                    if th || mid == 0 || (mid == (0x3f & !mask) && b0 as u8 == x0) { v.push(vec![b0 as u8, b1 as u8]); }
                }
            }
            for b in (0..=255u8).step_by(if th { 1 } else { 8 }) { v.push(vec![b]); v.push(vec![x0, b, 0xff]); v.push(vec![x0, 0xff, b, 0xff]); }
        }
    }
    dedup(v)
}
fn toy_sw_prb<P: sw::SWCurveConfig>(out: &mut Out, rng: &mut Rng, tw: &str, th: bool) {
    let cd = sw_desc::<P>(&fdesc::<P::BaseField>(tw));
    let all = sw_all_points::<P>();
    let mut pts = vec![sw::Affine::<P>::identity()];
    pts.extend(thin(&all, if th || all.len() < 150 { 1 } else { 3 }, |p| p.y.is_zero() || p.x.is_zero()));
    for p in &pts { op_prbrt(out, &cd, p); }
    for b in prb_strings::<sw::Affine<P>>(rng, 2, &all, th, true) { op_prb::<sw::Affine<P>>(out, &cd, &b); }
}
fn toy_te_prb<P: te::TECurveConfig>(out: &mut Out, rng: &mut Rng, th: bool) {
    let cd = te_desc::<P>(&fdesc::<P::BaseField>("_"));
    let all = te_all_points::<P>();
    let pts = thin(&all, if th || all.len() < 150 { 1 } else { 3 }, |p| p.y.is_zero() || p.x.is_zero());
    for p in &pts { op_prbrt(out, &cd, p); }
    for b in prb_strings::<te::Affine<P>>(rng, 1, &all, th, true) { op_prb::<te::Affine<P>>(out, &cd, &b); }
}
fn ship_sw_prb<P: sw::SWCurveConfig>(out: &mut Out, rng: &mut Rng, n: usize, tw: &str, th: bool) {
    let cd = sw_desc::<P>(&fdesc::<P::BaseField>(tw));
    let (sub, other) = sw_sample::<P>(rng, n);
    let mut pts: Vec<sw::Affine<P>> = Vec::new();
    // generator first, then the two kinds alternate (index 0 of `sub` is the identity)
    for i in 1..sub.len().max(other.len()) { if i < sub.len() { pts.push(sub[i]); } if i < other.len() { pts.push(other[i]); } }
    op_prbrt(out, &cd, &sub[0]);
    for p in pts.iter().take(if th { 40 } else { 6 }) { op_prbrt(out, &cd, p); }
    for b in prb_strings::<sw::Affine<P>>(rng, 2, &pts, th, false) { op_prb::<sw::Affine<P>>(out, &cd, &b); }
}
fn ship_te_prb<P: te::TECurveConfig>(out: &mut Out, rng: &mut Rng, n: usize, th: bool) {
    let cd = te_desc::<P>(&fdesc::<P::BaseField>("_"));
    let (sub, other) = te_sample::<P>(rng, n);
    let mut pts: Vec<te::Affine<P>> = Vec::new();
    for i in 0..sub.len().max(other.len()) { if i < sub.len() { pts.push(sub[i]); } if i < other.len() { pts.push(other[i]); } }
    for p in pts.iter().take(if th { 40 } else { 7 }) { op_prbrt(out, &cd, p); }
    for b in prb_strings::<te::Affine<P>>(rng, 1, &pts[1..], th, false) { op_prb::<te::Affine<P>>(out, &cd, &b); }
}

// ------------------------------------------------------------------ point serialisation into a writer that fails
//   C09 pwfail CD <aff|proj> <c|u> <e|z> <k> <P> => ok <bytes> | err:<class> <bytes>     serialize_with_mode into a writer that
//       accepts k bytes in total (partial writes), then fails with an error (e) or with Ok(0) (z); <bytes> = what it received
struct FailW { buf: Vec<u8>, cap: usize, zero: bool }
impl std::io::Write for FailW {
    fn write(&mut self, b: &[u8]) -> std::io::Result<usize> {
        let room = self.cap - self.buf.len();
        if room == 0 && !b.is_empty() {
            return if self.zero { Ok(0) } else { Err(std::io::Error::new(std::io::ErrorKind::Other, "writer full")) };
        }
        let n = room.min(b.len());
        self.buf.extend_from_slice(&b[..n]);
        Ok(n)
    }
    fn flush(&mut self) -> std::io::Result<()> { Ok(()) }
}
fn op_pwfail<T: Rep>(out: &mut Out, cd: &str, x: &T, c: Compress, k: usize, zero: bool) {
    let input = format!("C09 pwfail {} {} {} {} {:x} {}", cd, T::KIND, cs(c), if zero { "z" } else { "e" }, k, x.show());
    let res = guarded(|| {
        let mut w = FailW { buf: Vec::new(), cap: k, zero };
        match x.serialize_with_mode(&mut w, c) { Ok(()) => format!("ok {}", hex_list_u8(&w.buf)), Err(e) => format!("err:{} {}", err_str(&e), hex_list_u8(&w.buf)) }
    });
    out.line(&input, &res);
}
/// every capacity 0 ..= size + 1 when the encoding is short, a sample around the coordinate boundaries otherwise
fn pwfail_all<T: Rep>(out: &mut Out, rng: &mut Rng, cd: &str, x: &T, th: bool) {
    for c in [Compress::Yes, Compress::No] {
        let n = x.serialized_size(c);
        let ks: Vec<usize> = if n <= 8 || th { (0..=n + 1).collect() } else {
            let mut t = vec![0, 1, 7, 8, 9, n / 2 - 1, n / 2, n / 2 + 1, n - 1, n, n + 1];
            for _ in 0..4 { t.push(rng.below(n as u64) as usize); }
            t.sort(); t.dedup(); t
        };
        for k in ks { op_pwfail(out, cd, x, c, k, rng.below(3) == 0); }
    }
}
fn toy_sw_pwfail<P: sw::SWCurveConfig>(out: &mut Out, rng: &mut Rng, tw: &str, th: bool) {
    let cd = sw_desc::<P>(&fdesc::<P::BaseField>(tw));
    let all = sw_all_points::<P>();
    let mut pts = vec![sw::Affine::<P>::identity()];
    pts.extend(thin(&all, if th { 1 } else { all.len() / 4 + 1 }, |p| p.y.is_zero()));
    for p in &pts {
        pwfail_all(out, rng, &cd, p, th);
        let q = sw_rescale(&sw::Projective::<P>::from(*p), small_f::<P::BaseField>(2));
        pwfail_all(out, rng, &cd, &q, th);
    }
}
fn toy_te_pwfail<P: te::TECurveConfig>(out: &mut Out, rng: &mut Rng, th: bool) {
    let cd = te_desc::<P>(&fdesc::<P::BaseField>("_"));
    let all = te_all_points::<P>();
    for p in thin(&all, if th { 1 } else { all.len() / 4 + 1 }, |p| p.x.is_zero()) {
        pwfail_all(out, rng, &cd, &p, th);
        let q = te_rescale(&te::Projective::<P>::from(p), small_f::<P::BaseField>(2));
        pwfail_all(out, rng, &cd, &q, th);
    }
}
fn ship_sw_pwfail<P: sw::SWCurveConfig>(out: &mut Out, rng: &mut Rng, tw: &str, th: bool) {
    let cd = sw_desc::<P>(&fdesc::<P::BaseField>(tw));
    let g = P::GENERATOR;
    pwfail_all(out, rng, &cd, &g, th);
    pwfail_all(out, rng, &cd, &sw::Affine::<P>::identity(), false);
    pwfail_all(out, rng, &cd, &sw::Projective::<P>::from(-g), false);
}
fn ship_te_pwfail<P: te::TECurveConfig>(out: &mut Out, rng: &mut Rng, th: bool) {
    let cd = te_desc::<P>(&fdesc::<P::BaseField>("_"));
    let g = P::GENERATOR;
    pwfail_all(out, rng, &cd, &g, th);
    pwfail_all(out, rng, &cd, &te::Projective::<P>::from(-g), false);
}

fn main() {
    let a = arkharness::args();
    let th = a.thorough;
    if std::env::var("ARK_DEBUG").is_ok() { let _ = std::panic::take_hook(); }
    let mut rng = Rng::new(a.seed);
    let mut out = Out::new();
    let want = |s: &str| a.only.as_deref().map(|o| o == s).unwrap_or(true);
    use ark_test_curves::{bls12_381, ed_on_bls12_381, mnt4_753, mnt6_753, secp256k1};

    if want("field") {
        // 0..7 spare bits in the top byte: bits % 8 = 2,3,3,4,7,0,1,1,5,7,0,0,7,6,0,7,0,0,7,7,5,…
        prime_field::<FDT3>(&mut out, &mut rng, th);
        if th { prime_field::<FDT5>(&mut out, &mut rng, th); }
        prime_field::<FDT7>(&mut out, &mut rng, th);
        prime_field::<FDT13>(&mut out, &mut rng, th);
        prime_field::<FHT13>(&mut out, &mut rng, th);
        prime_field::<FDT127>(&mut out, &mut rng, th);
        prime_field::<FDT251>(&mut out, &mut rng, th);
        prime_field::<FDT257>(&mut out, &mut rng, th);
        prime_field::<FDT65537>(&mut out, &mut rng, th);
        prime_field::<FDM61>(&mut out, &mut rng, th);
        prime_field::<FDP63>(&mut out, &mut rng, th);
        prime_field::<FDP64m59>(&mut out, &mut rng, th);
        if th { prime_field::<FHP64m59>(&mut out, &mut rng, th); }
        prime_field::<FDGoldilocks>(&mut out, &mut rng, th);
        prime_field::<FDM127>(&mut out, &mut rng, th);
        prime_field::<FDP126>(&mut out, &mut rng, th);
        prime_field::<FDP128m159>(&mut out, &mut rng, th);
        if th { prime_field::<FDP191>(&mut out, &mut rng, th); }
        prime_field::<FDP192m237>(&mut out, &mut rng, th);
        prime_field::<FDP25519>(&mut out, &mut rng, th);
        prime_field::<FDSecp256k1>(&mut out, &mut rng, th);
        if th { prime_field::<FHSecp256k1>(&mut out, &mut rng, th); }
        if th { prime_field::<FDBls381Fr>(&mut out, &mut rng, th); }
        if th { prime_field::<FDSpare5>(&mut out, &mut rng, th); }
        prime_field::<FDFull5>(&mut out, &mut rng, th);
        if th { prime_field::<FDBls381Fq>(&mut out, &mut rng, th); }
        prime_field::<FDSecp384r1>(&mut out, &mut rng, th);
        prime_field::<FDFull13>(&mut out, &mut rng, th);
        prime_field::<bls12_381::Fq>(&mut out, &mut rng, th);
        prime_field::<bls12_381::Fr>(&mut out, &mut rng, th);
        prime_field::<secp256k1::Fq>(&mut out, &mut rng, th);
        if th { prime_field::<secp256k1::Fr>(&mut out, &mut rng, th); }
        prime_field::<mnt4_753::Fq>(&mut out, &mut rng, th);
        if th { prime_field::<mnt6_753::Fq>(&mut out, &mut rng, th); }
    }
    if want("ext") {
        ext_field::<bls12_381::Fq2>(&mut out, &mut rng, "2", th);
        ext_field::<bls12_381::Fq6>(&mut out, &mut rng, "3.2", th);
        ext_field::<bls12_381::Fq12>(&mut out, &mut rng, "2.3.2", th);
        ext_field::<mnt6_753::Fq3>(&mut out, &mut rng, "3", th);
    }
    if want("over") {
        // hand-written configurations with more limbs than the modulus needs
        prime_field::<FHT13x2>(&mut out, &mut rng, false);
        prime_field::<FHM61x2>(&mut out, &mut rng, false);
        prime_field::<FHM61x3>(&mut out, &mut rng, false);
        prime_field::<FHT251x4>(&mut out, &mut rng, false);
    }
    if want("toy") {
        toy_sw::<SW13B>(&mut out, "SW13B", "_", 21, th);
        toy_sw::<SW13C>(&mut out, "SW13C", "_", 12, th);
        toy_sw::<SW13D>(&mut out, "SW13D", "_", 14, th);
        toy_sw::<SW13E>(&mut out, "SW13E", "_", 20, th);
        toy_sw::<SW13F>(&mut out, "SW13F", "_", 13, th);
        toy_sw::<SW127C>(&mut out, "SW127C", "_", 136, th);
        toy_sw::<SW251A>(&mut out, "SW251A", "_", 282, th);
        toy_sw::<SW251B>(&mut out, "SW251B", "_", 232, th);
        toy_sw::<SW251C>(&mut out, "SW251C", "_", 271, th);
        toy_sw::<SW257A>(&mut out, "SW257A", "_", 258, th);
        toy_sw::<SW49A>(&mut out, "SW49A", "2:6", 48, th);
        toy_sw::<SW49B>(&mut out, "SW49B", "2:6", 44, th);
        toy_sw::<SW169A>(&mut out, "SW169A", "2:2", 193, th);
        toy_te::<TE13A>(&mut out, "TE13A", 20, th);
        toy_te::<TE127A>(&mut out, "TE127A", 124, th);
        toy_te::<TE251A>(&mut out, "TE251A", 236, th);
        toy_te::<TE251B>(&mut out, "TE251B", 232, th);
        toy_te::<TE257A>(&mut out, "TE257A", 236, th);
    }
    if want("ship") {
        let big = i64::MAX;
        ship_sw::<bls12_381::g1::Config>(&mut out, &mut rng, if th { 40 } else { 3 }, "_", None, if th { big } else { 11 });
        ship_sw::<secp256k1::Config>(&mut out, &mut rng, if th { 40 } else { 3 }, "_", None, if th { big } else { 16 });
        ship_sw::<mnt4_753::g1::Config>(&mut out, &mut rng, if th { 10 } else { 1 }, "_", None, if th { big } else { 4 });
        ship_sw::<bls12_381::g2::Config>(&mut out, &mut rng, if th { 30 } else { 3 }, &g2_tower(), Some(&g2_h1()), if th { big } else { 11 });
        ship_te::<ed_on_bls12_381::EdwardsConfig>(&mut out, &mut rng, if th { 40 } else { 3 }, if th { big } else { 12 });
        set_budget(big);
    }
    if want("flags") {
        // Flags::from_u8 / u8_bitmask / from_u8_remove_flags on every byte, constants
        flag_byte_ops(&mut out);
        // to_flags of every point of the toy curves (identity with placeholder coordinates, y = 0, Fp2 sign rule)
        toy_sw_flags::<SW13B>(&mut out, "_", th);
        toy_sw_flags::<SW13C>(&mut out, "_", th);
        toy_sw_flags::<SW13D>(&mut out, "_", th);
        toy_sw_flags::<SW13E>(&mut out, "_", th);
        toy_sw_flags::<SW13F>(&mut out, "_", th);
        toy_sw_flags::<SW127C>(&mut out, "_", th);
        toy_sw_flags::<SW251A>(&mut out, "_", th);
        toy_sw_flags::<SW251B>(&mut out, "_", th);
        if th { toy_sw_flags::<SW251C>(&mut out, "_", th); }
        toy_sw_flags::<SW257A>(&mut out, "_", th);
        toy_sw_flags::<SW49A>(&mut out, "2:6", th);
        toy_sw_flags::<SW49B>(&mut out, "2:6", th);
        toy_sw_flags::<SW169A>(&mut out, "2:2", th);
        ship_sw_flags::<bls12_381::g1::Config>(&mut out, &mut rng, if th { 40 } else { 3 }, "_");
        ship_sw_flags::<bls12_381::g2::Config>(&mut out, &mut rng, if th { 40 } else { 3 }, &g2_tower());
        ship_sw_flags::<secp256k1::Config>(&mut out, &mut rng, if th { 40 } else { 3 }, "_");
        ship_sw_flags::<mnt4_753::g1::Config>(&mut out, &mut rng, if th { 10 } else { 1 }, "_");
        // SWFlags::from_y_coordinate / TEFlags::from_x_coordinate on field elements
        for x in all_elems::<FDT7>() { op_signflag(&mut out, &fdesc::<FDT7>("_"), &x); }
        for x in all_elems::<FDT13>() { op_signflag(&mut out, &fdesc::<FDT13>("_"), &x); }
        for x in thin(&all_elems::<FDT251>(), if th { 1 } else { 4 }, |_| false) { op_signflag(&mut out, &fdesc::<FDT251>("_"), &x); }
        for x in edge_prime::<FDT257>(&mut rng, 4) { op_signflag(&mut out, &fdesc::<FDT257>("_"), &x); }
        for x in edge_prime::<bls12_381::Fq>(&mut rng, if th { 40 } else { 4 }) { op_signflag(&mut out, &fdesc::<bls12_381::Fq>("_"), &x); }
        for x in edge_prime::<secp256k1::Fq>(&mut rng, if th { 40 } else { 4 }) { op_signflag(&mut out, &fdesc::<secp256k1::Fq>("_"), &x); }
        for x in edge_prime::<ed_on_bls12_381::Fq>(&mut rng, if th { 40 } else { 4 }) { op_signflag(&mut out, &fdesc::<ed_on_bls12_381::Fq>("_"), &x); }
        for x in all_field_elems::<F49>() { op_signflag(&mut out, &fdesc::<F49>("2:6"), &x); }
        for x in thin(&all_field_elems::<F169>(), if th { 1 } else { 2 }, |x| x.c1.is_zero() || x.c0.is_zero()) { op_signflag(&mut out, &fdesc::<F169>("2:2"), &x); }
        for x in edge_ext::<bls12_381::Fq2>(&mut rng, if th { 80 } else { 20 }) { op_signflag(&mut out, &fdesc::<bls12_381::Fq2>(&g2_tower()), &x); }
    }
    if want("prb") {
        // AffineRepr::from_random_bytes
        toy_sw_prb::<SW13B>(&mut out, &mut rng, "_", th);
        toy_sw_prb::<SW13C>(&mut out, &mut rng, "_", th);
        toy_sw_prb::<SW13D>(&mut out, &mut rng, "_", th);
        toy_sw_prb::<SW13E>(&mut out, &mut rng, "_", th);
        if th { toy_sw_prb::<SW13F>(&mut out, &mut rng, "_", th); }
        toy_sw_prb::<SW127C>(&mut out, &mut rng, "_", th);
        toy_sw_prb::<SW251A>(&mut out, &mut rng, "_", th);
        toy_sw_prb::<SW251B>(&mut out, &mut rng, "_", th);
        if th { toy_sw_prb::<SW251C>(&mut out, &mut rng, "_", th); }
        toy_sw_prb::<SW257A>(&mut out, &mut rng, "_", th);
        toy_sw_prb::<SW49A>(&mut out, &mut rng, "2:6", th);
        toy_sw_prb::<SW49B>(&mut out, &mut rng, "2:6", th);
        toy_sw_prb::<SW169A>(&mut out, &mut rng, "2:2", th);
        toy_te_prb::<TE13A>(&mut out, &mut rng, th);
        toy_te_prb::<TE127A>(&mut out, &mut rng, th);
        toy_te_prb::<TE251A>(&mut out, &mut rng, th);
        if th { toy_te_prb::<TE251B>(&mut out, &mut rng, th); }
        toy_te_prb::<TE257A>(&mut out, &mut rng, th);
        ship_sw_prb::<bls12_381::g1::Config>(&mut out, &mut rng, if th { 12 } else { 3 }, "_", th);
        ship_sw_prb::<bls12_381::g2::Config>(&mut out, &mut rng, if th { 12 } else { 3 }, &g2_tower(), th);
        ship_sw_prb::<secp256k1::Config>(&mut out, &mut rng, if th { 12 } else { 3 }, "_", th);
        ship_te_prb::<ed_on_bls12_381::EdwardsConfig>(&mut out, &mut rng, if th { 12 } else { 3 }, th);
        ship_sw_prb::<mnt4_753::g1::Config>(&mut out, &mut rng, 1, "_", false);
    }
    if want("pwfail") {
        toy_sw_pwfail::<SW13B>(&mut out, &mut rng, "_", th);
        toy_sw_pwfail::<SW13E>(&mut out, &mut rng, "_", th);
        toy_sw_pwfail::<SW257A>(&mut out, &mut rng, "_", th);
        toy_sw_pwfail::<SW49B>(&mut out, &mut rng, "2:6", th);
        toy_te_pwfail::<TE13A>(&mut out, &mut rng, th);
        toy_te_pwfail::<TE257A>(&mut out, &mut rng, th);
        ship_sw_pwfail::<bls12_381::g1::Config>(&mut out, &mut rng, "_", th);
        ship_sw_pwfail::<bls12_381::g2::Config>(&mut out, &mut rng, &g2_tower(), th);
        ship_sw_pwfail::<secp256k1::Config>(&mut out, &mut rng, "_", th);
        ship_te_pwfail::<ed_on_bls12_381::EdwardsConfig>(&mut out, &mut rng, th);
    }
    out.flush();
    eprintln!("c09: {} lines", out.count);
}
