//! C09: serialisation round trips at the advertised size; field encodings are unique.
//! Real code: `ark_ff` `Fp`/`QuadExtField`/`CubicExtField` `(de)serialize_with_flags`, `SerBuffer`,
//! `from_random_bytes_with_flags`; `ark_ec` SW/TE `serialize_with_mode` / `deserialize_with_mode` for
//! `Affine` and `Projective`.  Line formats: see `src/serial_common.rs`.
//! Sub-streams (3rd argument selects one): field, ext, over (over-limbed hand-written configs),
//! toy (toy curves, exhaustive), ship (shipped curves).
#![allow(dead_code, deprecated, non_camel_case_types)]
use ark_ec::{short_weierstrass as sw, twisted_edwards as te};
use ark_ff::{Field, One, PrimeField, Zero};
use ark_serialize::{Compress, EmptyFlags, Validate};
use arkharness::serial_common::*;
use arkharness::util::*;
use arkharness::zoo::*;

// ---------------------------------------------------------------- fields
fn field_suite<F: Field>(out: &mut Out, rng: &mut Rng, fd: &str, vals: &[F], nfl: usize, exh: usize, sweeps: usize) {
    for x in vals { for (c, v) in MODES { op_frt(out, fd, x, c, v); } }
    macro_rules! with_flags { ($fl:ty) => {
        for x in vals.iter().take(nfl) { for fl in <$fl>::samples() { op_fflrt::<F, $fl>(out, fd, x, fl); } }
        for b in field_strings::<F, $fl>(rng, vals, exh, sweeps, false) { op_funiq::<F, $fl>(out, fd, &b); }
    }; }
    with_flags!(EmptyFlags);
    with_flags!(sw::SWFlags);
    with_flags!(te::TEFlags);
    with_flags!(W3);
    with_flags!(W8);
    with_flags!(W9);
    // from_random_bytes_with_flags
    let n8 = nlimbs::<F>() * 8 * F::extension_degree() as usize;
    let lens = [0usize, 1, 7, 8, 9, n8.saturating_sub(1), n8, n8 + 1, n8 + 2, n8 + 9, 2 * n8 + 3];
    for len in lens {
        for j in 0..3 {
            let mut b = rand_bytes(rng, len);
            if j == 1 { for t in b.iter_mut() { *t = 0xff; } }
            if j == 2 && len > 0 { let l = len - 1; b[l] &= 0x03; }
            op_frb::<F, EmptyFlags>(out, fd, &b);
            op_frb::<F, sw::SWFlags>(out, fd, &b);
            op_frb::<F, te::TEFlags>(out, fd, &b);
            if j == 0 { op_frb::<F, W9>(out, fd, &b); op_frb::<F, W8>(out, fd, &b); }
        }
    }
}

fn prime_field<F: PrimeField>(out: &mut Out, rng: &mut Rng, th: bool) {
    let fd = fdesc::<F>("_");
    let tiny = F::MODULUS_BIT_SIZE <= 9;
    let vals: Vec<F> = if tiny { all_elems::<F>() } else { edge_prime::<F>(rng, if th { 60 } else { 10 }) };
    let vals: Vec<F> = if tiny && !th && vals.len() > 64 {
        // quick tier: every 5th element plus both ends of a toy field with more than 64 elements
        vals.iter().enumerate().filter(|(i, _)| i % 5 == 0 || *i < 4 || *i + 4 >= vals.len() || (*i as i64 - vals.len() as i64 / 2).abs() < 3).map(|(_, x)| *x).collect()
    } else { vals };
    let exh = if th { 2 } else { 1 };
    field_suite::<F>(out, rng, &fd, &vals, if th { 40 } else { 12 }, exh, if th { 6 } else { 2 });
}
fn ext_field<F: Field>(out: &mut Out, rng: &mut Rng, tower: &str, th: bool) {
    let fd = fdesc::<F>(tower);
    let vals = edge_ext::<F>(rng, if th { 80 } else { (3 * F::extension_degree() as usize + 12).min(30) });
    field_suite::<F>(out, rng, &fd, &vals, if th { 30 } else { 8 }, 0, if th { 4 } else { 1 });
}

// ---------------------------------------------------------------- curves
fn sw_points_ops<P: sw::SWCurveConfig>(out: &mut Out, cd: &str, affs: &[sw::Affine<P>], lambdas: &[P::BaseField], extra_zero: bool) {
    for a in affs {
        for (c, v) in MODES { op_prt(out, cd, a, c, v); }
        let pr: sw::Projective<P> = (*a).into();
        for l in lambdas {
            let q = sw_rescale(&pr, *l);
            for (c, v) in MODES { op_prt(out, cd, &q, c, v); }
        }
    }
    if extra_zero {
        // representations of the identity with non-canonical coordinates
        let one = P::BaseField::one();
        let five = one + one + one + one + one;
        let z1 = sw::Projective::<P>::new_unchecked(five, five + one, P::BaseField::zero());
        let z2 = sw::Projective::<P>::new_unchecked(P::BaseField::zero(), P::BaseField::zero(), P::BaseField::zero());
        for (c, v) in MODES { op_prt(out, cd, &z1, c, v); op_prt(out, cd, &z2, c, v); }
        let mut i1 = sw::Affine::<P>::identity(); i1.x = five; i1.y = one;
        for (c, v) in MODES { op_prt(out, cd, &i1, c, v); }
    }
}
fn sw_offcurve_ops<P: sw::SWCurveConfig>(out: &mut Out, cd: &str, affs: &[sw::Affine<P>]) {
    // arbitrary coordinate pairs: the uncompressed unchecked mode must give them back as they are
    for a in affs {
        if a.infinity { continue; }
        let b = sw::Affine::<P>::new_unchecked(a.x, a.y + P::BaseField::one());
        op_prt(out, cd, &b, Compress::No, Validate::No);
        op_prt(out, cd, &b, Compress::No, Validate::Yes);
        let pb = sw::Projective::<P>::new_unchecked(b.x, b.y, P::BaseField::one());
        op_prt(out, cd, &pb, Compress::No, Validate::No);
    }
}
fn te_points_ops<P: te::TECurveConfig>(out: &mut Out, fd: &str, affs: &[te::Affine<P>], lambdas: &[P::BaseField]) {
    let cd = te_desc::<P>(fd);
    for a in affs {
        for (c, v) in MODES { op_prt(out, &cd, a, c, v); }
        let pr: te::Projective<P> = (*a).into();
        for l in lambdas {
            let q = te_rescale(&pr, *l);
            for (c, v) in MODES { op_prt(out, &cd, &q, c, v); }
        }
    }
}
fn te_offcurve_ops<P: te::TECurveConfig>(out: &mut Out, fd: &str, affs: &[te::Affine<P>]) {
    let cd = te_desc::<P>(fd);
    for a in affs {
        let b = te::Affine::<P>::new_unchecked(a.x + P::BaseField::one(), a.y);
        op_prt(out, &cd, &b, Compress::No, Validate::No);
        op_prt(out, &cd, &b, Compress::No, Validate::Yes);
    }
}

fn toy_sw<P: sw::SWCurveConfig>(out: &mut Out, name: &str, tw: &str, order: u64, th: bool) {
    check_sw::<P>(name, order);
    let cd = sw_desc::<P>(&fdesc::<P::BaseField>(tw));
    let cd = cd.as_str();
    let mut pts = vec![sw::Affine::<P>::identity()];
    pts.extend(sw_all_points::<P>());
    let two = small_f::<P::BaseField>(2);
    let lam: Vec<P::BaseField> = if th || pts.len() < 40 { vec![P::BaseField::one(), two, -P::BaseField::one(), small_f::<P::BaseField>(5)] } else { vec![two] };
    sw_points_ops::<P>(out, cd, &pts, &lam, true);
    let off: Vec<_> = pts.iter().cloned().take(if th { 400 } else { 24 }).collect();
    sw_offcurve_ops::<P>(out, cd, &off);
}
fn toy_te<P: te::TECurveConfig>(out: &mut Out, name: &str, order: u64, th: bool) {
    check_te::<P>(name, order);
    let fd = fdesc::<P::BaseField>("_");
    let pts = te_all_points::<P>();
    let two = small_f::<P::BaseField>(2);
    let lam: Vec<P::BaseField> = if th || pts.len() < 40 { vec![P::BaseField::one(), two, -P::BaseField::one(), small_f::<P::BaseField>(5)] } else { vec![two] };
    te_points_ops::<P>(out, &fd, &pts, &lam);
    let off: Vec<_> = pts.iter().cloned().take(if th { 400 } else { 24 }).collect();
    te_offcurve_ops::<P>(out, &fd, &off);
}
/// `budget`: number of checked-mode lines (each costs the driver one or two scalar multiplications by `r`)
fn ship_sw<P: sw::SWCurveConfig>(out: &mut Out, rng: &mut Rng, n: usize, tw: &str, h1: Option<&str>, budget: i64) {
    set_budget(budget);
    let fd = fdesc::<P::BaseField>(tw);
    let cd = match h1 { Some(h) => sw_desc_with::<P>(&fd, h), None => sw_desc::<P>(&fd) };
    let cd = cd.as_str();
    let (sub, other) = sw_sample::<P>(rng, n);
    let lam = vec![rand_field::<P::BaseField>(rng)];
    // subgroup points and curve points outside the subgroup alternate, so that a finite budget of
    // checked-mode lines is spread over both kinds: affine in all modes, projective (rescaled) in two
    let mut order: Vec<sw::Affine<P>> = Vec::new();
    for i in 0..sub.len().max(other.len()) {
        if i < sub.len() { order.push(sub[i]); }
        if i < other.len() { order.push(other[i]); }
    }
    for a in order.iter() {
        for (c, v) in MODES { op_prt(out, cd, a, c, v); }
        let q = sw_rescale(&sw::Projective::<P>::from(*a), lam[0]);
        op_prt(out, cd, &q, Compress::Yes, Validate::Yes);
        op_prt(out, cd, &q, Compress::No, Validate::No);
    }
    // every projective mode and the non-canonical identities for the first three (what is left of the budget)
    sw_points_ops::<P>(out, cd, &sub[..3], &lam, true);
    sw_offcurve_ops::<P>(out, cd, &sub[..4]);
}
fn ship_te<P: te::TECurveConfig>(out: &mut Out, rng: &mut Rng, n: usize, budget: i64) {
    set_budget(budget);
    let fd = fdesc::<P::BaseField>("_");
    let cd = te_desc::<P>(&fd);
    let (sub, other) = te_sample::<P>(rng, n);
    let lam = vec![rand_field::<P::BaseField>(rng)];
    let mut order: Vec<te::Affine<P>> = Vec::new();
    for i in 0..sub.len().max(other.len()) {
        if i < sub.len() { order.push(sub[i]); }
        if i < other.len() { order.push(other[i]); }
    }
    for a in order.iter() {
        for (c, v) in MODES { op_prt(out, &cd, a, c, v); }
        let q = te_rescale(&te::Projective::<P>::from(*a), lam[0]);
        op_prt(out, &cd, &q, Compress::Yes, Validate::Yes);
        op_prt(out, &cd, &q, Compress::No, Validate::No);
    }
    te_points_ops::<P>(out, &fd, &sub[..3], &lam);
    te_offcurve_ops::<P>(out, &fd, &sub[..4]);
}

fn main() {
    let a = arkharness::args();
    let th = a.thorough;
    if std::env::var("ARK_DEBUG").is_ok() { let _ = std::panic::take_hook(); }
    let mut rng = Rng::new(a.seed);
    let mut out = Out::new();
    let want = |s: &str| a.only.as_deref().map(|o| o == s).unwrap_or(true);
    use ark_test_curves::{bls12_381, ed_on_bls12_381, mnt4_753, mnt6_753, secp256k1};

    if want("field") {
        // 0..7 spare bits in the top byte: bits % 8 = 2,3,3,4,7,0,1,1,5,7,0,0,7,6,0,7,0,0,7,7,5,…
        prime_field::<FDT3>(&mut out, &mut rng, th);
        if th { prime_field::<FDT5>(&mut out, &mut rng, th); }
        prime_field::<FDT7>(&mut out, &mut rng, th);
        prime_field::<FDT13>(&mut out, &mut rng, th);
        prime_field::<FHT13>(&mut out, &mut rng, th);
        prime_field::<FDT127>(&mut out, &mut rng, th);
        prime_field::<FDT251>(&mut out, &mut rng, th);
        prime_field::<FDT257>(&mut out, &mut rng, th);
        prime_field::<FDT65537>(&mut out, &mut rng, th);
        prime_field::<FDM61>(&mut out, &mut rng, th);
        prime_field::<FDP63>(&mut out, &mut rng, th);
        prime_field::<FDP64m59>(&mut out, &mut rng, th);
        if th { prime_field::<FHP64m59>(&mut out, &mut rng, th); }
        prime_field::<FDGoldilocks>(&mut out, &mut rng, th);
        prime_field::<FDM127>(&mut out, &mut rng, th);
        prime_field::<FDP126>(&mut out, &mut rng, th);
        prime_field::<FDP128m159>(&mut out, &mut rng, th);
        if th { prime_field::<FDP191>(&mut out, &mut rng, th); }
        prime_field::<FDP192m237>(&mut out, &mut rng, th);
        prime_field::<FDP25519>(&mut out, &mut rng, th);
        prime_field::<FDSecp256k1>(&mut out, &mut rng, th);
        if th { prime_field::<FHSecp256k1>(&mut out, &mut rng, th); }
        if th { prime_field::<FDBls381Fr>(&mut out, &mut rng, th); }
        if th { prime_field::<FDSpare5>(&mut out, &mut rng, th); }
        prime_field::<FDFull5>(&mut out, &mut rng, th);
        if th { prime_field::<FDBls381Fq>(&mut out, &mut rng, th); }
        prime_field::<FDSecp384r1>(&mut out, &mut rng, th);
        prime_field::<FDFull13>(&mut out, &mut rng, th);
        prime_field::<bls12_381::Fq>(&mut out, &mut rng, th);
        prime_field::<bls12_381::Fr>(&mut out, &mut rng, th);
        prime_field::<secp256k1::Fq>(&mut out, &mut rng, th);
        if th { prime_field::<secp256k1::Fr>(&mut out, &mut rng, th); }
        prime_field::<mnt4_753::Fq>(&mut out, &mut rng, th);
        if th { prime_field::<mnt6_753::Fq>(&mut out, &mut rng, th); }
    }
    if want("ext") {
        ext_field::<bls12_381::Fq2>(&mut out, &mut rng, "2", th);
        ext_field::<bls12_381::Fq6>(&mut out, &mut rng, "3.2", th);
        ext_field::<bls12_381::Fq12>(&mut out, &mut rng, "2.3.2", th);
        ext_field::<mnt6_753::Fq3>(&mut out, &mut rng, "3", th);
    }
    if want("over") {
        // hand-written configurations with more limbs than the modulus needs
        prime_field::<FHT13x2>(&mut out, &mut rng, false);
        prime_field::<FHM61x2>(&mut out, &mut rng, false);
        prime_field::<FHM61x3>(&mut out, &mut rng, false);
        prime_field::<FHT251x4>(&mut out, &mut rng, false);
    }
    if want("toy") {
        toy_sw::<SW13B>(&mut out, "SW13B", "_", 21, th);
        toy_sw::<SW13C>(&mut out, "SW13C", "_", 12, th);
        toy_sw::<SW13D>(&mut out, "SW13D", "_", 14, th);
        toy_sw::<SW13E>(&mut out, "SW13E", "_", 20, th);
        toy_sw::<SW13F>(&mut out, "SW13F", "_", 13, th);
        toy_sw::<SW127C>(&mut out, "SW127C", "_", 136, th);
        toy_sw::<SW251A>(&mut out, "SW251A", "_", 282, th);
        toy_sw::<SW251B>(&mut out, "SW251B", "_", 232, th);
        toy_sw::<SW251C>(&mut out, "SW251C", "_", 271, th);
        toy_sw::<SW257A>(&mut out, "SW257A", "_", 258, th);
        toy_sw::<SW49A>(&mut out, "SW49A", "2:6", 48, th);
        toy_sw::<SW49B>(&mut out, "SW49B", "2:6", 44, th);
        toy_sw::<SW169A>(&mut out, "SW169A", "2:2", 193, th);
        toy_te::<TE13A>(&mut out, "TE13A", 20, th);
        toy_te::<TE127A>(&mut out, "TE127A", 124, th);
        toy_te::<TE251A>(&mut out, "TE251A", 236, th);
        toy_te::<TE251B>(&mut out, "TE251B", 232, th);
        toy_te::<TE257A>(&mut out, "TE257A", 236, th);
    }
    if want("ship") {
        let big = i64::MAX;
        ship_sw::<bls12_381::g1::Config>(&mut out, &mut rng, if th { 40 } else { 3 }, "_", None, if th { big } else { 11 });
        ship_sw::<secp256k1::Config>(&mut out, &mut rng, if th { 40 } else { 3 }, "_", None, if th { big } else { 16 });
        ship_sw::<mnt4_753::g1::Config>(&mut out, &mut rng, if th { 10 } else { 1 }, "_", None, if th { big } else { 4 });
        ship_sw::<bls12_381::g2::Config>(&mut out, &mut rng, if th { 30 } else { 3 }, &g2_tower(), Some(&g2_h1()), if th { big } else { 11 });
        ship_te::<ed_on_bls12_381::EdwardsConfig>(&mut out, &mut rng, if th { 40 } else { 3 }, if th { big } else { 12 });
        set_budget(big);
    }
    out.flush();
    eprintln!("c09: {} lines", out.count);
}
