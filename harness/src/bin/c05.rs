//! C05: variable-base multi-scalar multiplication of ark-ec.
//!
//! Line protocol (numbers lower-case hex; points `x:y` | `inf`; lists comma separated, `_` = empty):
//!   C05 <op> <p> <a> <b> <r> <N> <nc> <bases> <scalars>               => <pt> | err:<n> | panic
//!        op = msm | unchecked | chunks            scalars are field elements (standard representative)
//!        op = bigint | wnaf | plain               scalars are big integers < 2^(64N)
//!             (`wnaf` / `plain` = private `msm_bigint_wnaf` / `msm_bigint` through `verif_hooks`)
//!   C05 chunkscyc <p> <a> <b> <r> <N> <nc> <nb> <ns> <bases> <scalars> => msm_chunks on the patterns repeated
//!                                                                        cyclically to lengths nb / ns
//!   C05 chunked|chunkedws|hashmap <p> <a> <b> <r> <N> <nc> <bufsize> <bases> <scalars> <ops>
//!        ops = indices i: `add(bases[i], scalars[i])` in order, then `finalize()`
//!        (chunked = ChunkedPippenger::new, chunkedws = ::with_size, hashmap = HashMapPippenger::new)
//!   C05 digits <N> <a> <w> <numbits>                                   => digits | panic   (`verif_hooks::make_digits`)
//! `p a b` = curve y² = x³ + a x + b over F_p, `r`/`N` = modulus / BigInt limbs of the scalar field,
//! `nc` = NEGATION_IS_CHEAP of the group type the entry point is called on.
//!
//! The same ops on two more kinds of groups (same argument order after the group parameters):
//!   C05 te.<op> <p> <a> <d> <r> <N> <nc> …     twisted-Edwards curve a x² + y² = 1 + d x² y² over F_p, points `x:y`
//!                                               (identity `0:1`), `te::Projective<P>` (checked msm = `TECurveConfig::msm`)
//!   C05 gt.<op> <r> <N> <nc> …                  `PairingOutput<Bls12_381>`: every element is exchanged as its discrete
//!        logarithm `e` (mod r, hex) w.r.t. `gt = e(g1, g2)`: the bases are `gt^e` for small |e| taken from a table built
//!        by repeated group addition of `gt` (and of `-gt`), the result is looked up in the same table (`notfound` when it
//!        is not one of `gt^e`, |e| <= GT_D).  The harness never computes Σ kᵢ·eᵢ; the inputs are chosen so that the sum
//!        stays inside the table.
#![allow(dead_code, deprecated)]
use ark_ec::scalar_mul::variable_base::{verif_hooks, ChunkedPippenger, HashMapPippenger};
use ark_ec::{
    pairing::{Pairing, PairingOutput},
    short_weierstrass::{Affine, Projective, SWCurveConfig},
    twisted_edwards as te,
    AffineRepr, CurveConfig, CurveGroup, PrimeGroup, ScalarMul, VariableBaseMSM,
};
use ark_ff::{BigInt, BigInteger, Field, Fp, MontBackend, MontConfig, MontFp, PrimeField, Zero};
use ark_serialize::CanonicalSerialize;
use arkharness::util::*;
use arkharness::zoo::*;

// ---------------------------------------------------------------- toy curves (orders / generators: brute force, Python)
macro_rules! sw_curve {
    ($name:ident, $bf:ty, $sf:ty, $cof:expr, $cofinv:expr, $a:expr, $b:expr, $gx:expr, $gy:expr) => {
        #[derive(Clone, Default, PartialEq, Eq)]
        pub struct $name;
        impl CurveConfig for $name {
            type BaseField = $bf;
            type ScalarField = $sf;
            const COFACTOR: &'static [u64] = &[$cof];
            const COFACTOR_INV: $sf = MontFp!($cofinv);
        }
        impl SWCurveConfig for $name {
            const COEFF_A: $bf = MontFp!($a);
            const COEFF_B: $bf = MontFp!($b);
            const GENERATOR: Affine<Self> = Affine::new_unchecked(MontFp!($gx), MontFp!($gy));
        }
    };
}
// y² = x³ + 6 over F_13: order 7 = r (3-bit scalars: a single window)
sw_curve!(T13R7, FDT13, FDT7, 1, "1", "0", "6", "2", "1");
// y² = x³ + x + 6 over F_13: order 13 = r, scalar field stored in one / two limbs
sw_curve!(T13R13, FDT13, FDT13, 1, "1", "1", "6", "2", "4");
sw_curve!(T13R13X2, FDT13, FHT13x2, 1, "1", "1", "6", "2", "4");
// y² = x³ + x + 4 over F_13: order 14 = 2·7, r = 7 (a point of order two, bases outside the subgroup)
sw_curve!(T13R7H2, FDT13, FDT7, 2, "4", "1", "4", "9", "12");
// y² = x³ + 3 over F_127: order 127 = r
sw_curve!(T127R127, FDT127, FDT127, 1, "1", "0", "3", "1", "2");
// y² = x³ + x + 16 over F_251: order 257 = r (9-bit scalars)
sw_curve!(T251R257, FDT251, FDT257, 1, "1", "1", "16", "0", "4");
// y² = x³ + x + 16 over F_257: order 251 = r, scalar field stored in four limbs
sw_curve!(T257R251X4, FDT257, FHT251x4, 1, "1", "1", "16", "0", "4");

// Complete twisted-Edwards toy curves a x² + y² = 1 + d x² y² (a a square, d a non-square: the affine law has no
// exceptional pairs, also outside the prime-order subgroup); orders / generators by brute force (Python), re-checked
// at start-up by `check_te`.
macro_rules! te_curve {
    ($name:ident, $bf:ty, $sf:ty, $cof:expr, $cofinv:expr, $a:expr, $d:expr, $gx:expr, $gy:expr, $ma:expr, $mb:expr) => {
        #[derive(Clone, Default, PartialEq, Eq)]
        pub struct $name;
        impl CurveConfig for $name {
            type BaseField = $bf;
            type ScalarField = $sf;
            const COFACTOR: &'static [u64] = &[$cof];
            const COFACTOR_INV: $sf = MontFp!($cofinv);
        }
        impl te::TECurveConfig for $name {
            const COEFF_A: $bf = MontFp!($a);
            const COEFF_D: $bf = MontFp!($d);
            const GENERATOR: te::Affine<Self> = te::Affine::new_unchecked(MontFp!($gx), MontFp!($gy));
            type MontCurveConfig = $name;
        }
        impl te::MontCurveConfig for $name {
            const COEFF_A: $bf = MontFp!($ma);
            const COEFF_B: $bf = MontFp!($mb);
            type TECurveConfig = $name;
        }
    };
}
#[derive(MontConfig)]
#[modulus = "59"]
#[generator = "2"]
pub struct S59;
pub type F59 = Fp<MontBackend<S59, 1>, 1>;
#[derive(MontConfig)]
#[modulus = "16493"]
#[generator = "2"]
pub struct S16493;
pub type F16493 = Fp<MontBackend<S16493, 1>, 1>;
// x² + y² = 1 + 7 x² y² over F_13: order 20 = 4·5, r = 5 (3-bit scalars: a single window)
te_curve!(TE13R5, FDT13, FDT5, 4, "4", "1", "7", "2", "9", "6", "8");
// 3 x² + y² = 1 + 8 x² y² over F_251: order 260 = 20·13, r = 13, scalar field stored in one / two limbs
te_curve!(TE251R13, FDT251, FDT13, 20, "2", "3", "8", "69", "87", "96", "200");
te_curve!(TE251R13X2, FDT251, FHT13x2, 20, "2", "3", "8", "69", "87", "96", "200");
// −x² + y² = 1 + 19 x² y² over F_257: order 236 = 4·59, r = 59 (6-bit scalars)
te_curve!(TE257R59, FDT257, F59, 4, "15", "256", "19", "208", "74", "101", "154");
// −x² + y² = 1 + 10 x² y² over F_65537: order 65972 = 4·16493, r = 16493 (15-bit scalars: five windows)
te_curve!(TE65537R16493, FDT65537, F16493, 4, "12370", "65536", "10", "37855", "39212", "23830", "41705");

// ---------------------------------------------------------------- the groups the entry points are called on
type Fr<V> = <V as PrimeGroup>::ScalarField;
type Big<V> = <Fr<V> as PrimeField>::BigInt;
type Aff<V> = <V as HG>::A;

/// a group type the entry points are called on, with the exchange format of its elements
trait HG: VariableBaseMSM + Sized {
    /// printable form of a group element used for the bases (affine point / tagged pairing output)
    type A: Copy + Eq;
    const PFX: &'static str;
    fn nc() -> &'static str;
    /// the group parameters in front of `r N nc`
    fn params() -> Vec<String>;
    fn base(a: &Self::A) -> Self::MulBase;
    fn pt(a: &Self::A) -> String;
    fn res(&self) -> String;
}
/// curve groups: what the generic suites need
trait HC: HG {
    fn a_id() -> Self::A;
    fn a_neg(a: &Self::A) -> Self::A;
    fn a_gen() -> Self::A;
    fn a_dbl(a: &Self::A) -> Self::A;
    /// all affine points of a toy curve, the identity first
    fn all_points() -> Vec<Self::A>;
    /// a pool of points of a shipped curve: multiples of the generator (incl. G, 2G, −G) and the identity
    fn real_pool(rng: &mut Rng, n: usize) -> Vec<Self::A>;
}
fn sw_params<P: SWCurveConfig>() -> Vec<String> where P::BaseField: PrimeField {
    vec![hex_limbs(<P::BaseField as PrimeField>::MODULUS.as_ref()), fe(&P::COEFF_A), fe(&P::COEFF_B)]
}
fn sw_pt<P: SWCurveConfig>(a: &Affine<P>) -> String where P::BaseField: PrimeField {
    if a.infinity { "inf".into() } else { format!("{}:{}", fe(&a.x), fe(&a.y)) }
}
fn sw_all_points<P: SWCurveConfig>() -> Vec<Affine<P>> where P::BaseField: PrimeField {
    let q = <P::BaseField as PrimeField>::MODULUS.as_ref()[0];
    let mut v = vec![Affine::<P>::identity()];
    for x in 0..q { for y in 0..q {
        let (x, y) = (fu::<P::BaseField>(x), fu::<P::BaseField>(y));
        if y * y == x * x * x + P::COEFF_A * x + P::COEFF_B { v.push(Affine::<P>::new_unchecked(x, y)); }
    } }
    v
}
fn te_all_points<P: te::TECurveConfig>() -> Vec<te::Affine<P>> where P::BaseField: PrimeField {
    let q = <P::BaseField as PrimeField>::MODULUS.as_ref()[0];
    let one = <P::BaseField as Field>::ONE;
    let mut v = vec![te::Affine::<P>::zero()];
    for x in 0..q {
        let x = fu::<P::BaseField>(x);
        let x2 = x * x;
        let den = one - P::COEFF_D * x2;
        if den.is_zero() { continue; }
        let y2 = (one - P::COEFF_A * x2) / den;
        if let Some(y) = y2.sqrt() {
            for y in if y.is_zero() { vec![y] } else { vec![y, -y] } {
                let a = te::Affine::<P>::new_unchecked(x, y);
                assert!(a.is_on_curve());
                if !a.is_zero() { v.push(a); }
            }
        }
    }
    v
}
fn real_pool_a<A: AffineRepr>(rng: &mut Rng, n: usize) -> Vec<A> {
    let g = A::Group::generator();
    let mut v = vec![g, g + g, -g];
    let mut cur = g * rand_fr::<A::ScalarField>(rng);
    let step = g * rand_fr::<A::ScalarField>(rng);
    while v.len() < n { v.push(cur); cur += step; }
    let mut a = A::Group::normalize_batch(&v);
    a.push(A::zero());
    a
}
macro_rules! hc_impl {
    ($cfg:ident, $tr:path, $ty:ty, $all:ident) => {
        impl<$cfg: $tr> HC for $ty where $cfg::BaseField: PrimeField {
            fn a_id() -> Self::A { <Self::A as AffineRepr>::zero() }
            fn a_neg(a: &Self::A) -> Self::A { -*a }
            fn a_gen() -> Self::A { $cfg::GENERATOR }
            fn a_dbl(a: &Self::A) -> Self::A { (a.into_group() + a).into_affine() }
            fn all_points() -> Vec<Self::A> { $all::<$cfg>() }
            fn real_pool(rng: &mut Rng, n: usize) -> Vec<Self::A> { real_pool_a::<Self::A>(rng, n) }
        }
    };
}
impl<P: SWCurveConfig> HG for Projective<P> where P::BaseField: PrimeField {
    type A = Affine<P>;
    const PFX: &'static str = "";
    fn nc() -> &'static str { "1" }
    fn params() -> Vec<String> { sw_params::<P>() }
    fn base(a: &Affine<P>) -> Affine<P> { *a }
    fn pt(a: &Affine<P>) -> String { sw_pt(a) }
    fn res(&self) -> String { sw_pt(&self.into_affine()) }
}
hc_impl!(P, SWCurveConfig, Projective<P>, sw_all_points);
impl<P: te::TECurveConfig> HG for te::Projective<P> where P::BaseField: PrimeField {
    type A = te::Affine<P>;
    const PFX: &'static str = "te.";
    fn nc() -> &'static str { "1" }
    fn params() -> Vec<String> {
        vec![hex_limbs(<P::BaseField as PrimeField>::MODULUS.as_ref()), fe(&P::COEFF_A), fe(&P::COEFF_D)]
    }
    fn base(a: &te::Affine<P>) -> te::Affine<P> { *a }
    fn pt(a: &te::Affine<P>) -> String { format!("{}:{}", fe(&a.x), fe(&a.y)) }
    fn res(&self) -> String { Self::pt(&self.into_affine()) }
}
hc_impl!(P, te::TECurveConfig, te::Projective<P>, te_all_points);

/// A group type whose `NEGATION_IS_CHEAP` is `false` (no shipped group has one): the short-Weierstrass projective
/// group behind a newtype with `MulBase = Self` (as `PairingOutput` does) and every `VariableBaseMSM` method left at
/// its trait default.  Reaches the plain-bucket branch of the public `msm_bigint` and the trait-default `msm`.
pub struct SlowG<P: SWCurveConfig>(pub Projective<P>);
impl<P: SWCurveConfig> Clone for SlowG<P> { fn clone(&self) -> Self { *self } }
impl<P: SWCurveConfig> Copy for SlowG<P> {}
impl<P: SWCurveConfig> PartialEq for SlowG<P> { fn eq(&self, o: &Self) -> bool { self.0 == o.0 } }
impl<P: SWCurveConfig> Eq for SlowG<P> {}
impl<P: SWCurveConfig> core::hash::Hash for SlowG<P> { fn hash<H: core::hash::Hasher>(&self, h: &mut H) { self.0.hash(h) } }
impl<P: SWCurveConfig> core::fmt::Debug for SlowG<P> { fn fmt(&self, f: &mut core::fmt::Formatter<'_>) -> core::fmt::Result { write!(f, "{:?}", self.0) } }
impl<P: SWCurveConfig> Default for SlowG<P> { fn default() -> Self { SlowG(Projective::<P>::default()) } }
mod slow_impls {
    use super::SlowG;
    use ark_ec::{short_weierstrass::{Projective, SWCurveConfig}, PrimeGroup, ScalarMul, VariableBaseMSM};
    use ark_ff::{AdditiveGroup, Zero};
    use ark_serialize::{CanonicalDeserialize, CanonicalSerialize, Compress, SerializationError, Valid, Validate};
    use ark_std::rand::{distributions::{Distribution, Standard}, Rng};
    use core::ops::{Add, AddAssign, Mul, MulAssign, Neg, Sub, SubAssign};
    impl<P: SWCurveConfig> core::fmt::Display for SlowG<P> {
        fn fmt(&self, f: &mut core::fmt::Formatter<'_>) -> core::fmt::Result { write!(f, "{}", self.0) }
    }
    impl<P: SWCurveConfig> zeroize::Zeroize for SlowG<P> { fn zeroize(&mut self) { self.0.zeroize() } }
    impl<P: SWCurveConfig> Zero for SlowG<P> {
        fn zero() -> Self { SlowG(Projective::<P>::zero()) }
        fn is_zero(&self) -> bool { self.0.is_zero() }
    }
    impl<P: SWCurveConfig> Neg for SlowG<P> { type Output = Self; fn neg(self) -> Self { SlowG(-self.0) } }
    macro_rules! bin {
        ($tr:ident, $f:ident, $tra:ident, $fa:ident, $rhs:ty) => {
            impl<'a, P: SWCurveConfig> $tr<$rhs> for SlowG<P> { type Output = Self; fn $f(self, o: $rhs) -> Self { SlowG(self.0.$f(o.0)) } }
            impl<'a, P: SWCurveConfig> $tra<$rhs> for SlowG<P> { fn $fa(&mut self, o: $rhs) { self.0.$fa(o.0) } }
        };
    }
    bin!(Add, add, AddAssign, add_assign, SlowG<P>);
    bin!(Add, add, AddAssign, add_assign, &'a SlowG<P>);
    bin!(Add, add, AddAssign, add_assign, &'a mut SlowG<P>);
    bin!(Sub, sub, SubAssign, sub_assign, SlowG<P>);
    bin!(Sub, sub, SubAssign, sub_assign, &'a SlowG<P>);
    bin!(Sub, sub, SubAssign, sub_assign, &'a mut SlowG<P>);
    impl<P: SWCurveConfig, T: core::borrow::Borrow<P::ScalarField>> Mul<T> for SlowG<P> { type Output = Self; fn mul(self, o: T) -> Self { SlowG(self.0 * *o.borrow()) } }
    impl<P: SWCurveConfig, T: core::borrow::Borrow<P::ScalarField>> MulAssign<T> for SlowG<P> { fn mul_assign(&mut self, o: T) { self.0 *= *o.borrow() } }
    impl<P: SWCurveConfig> core::iter::Sum<Self> for SlowG<P> { fn sum<I: Iterator<Item = Self>>(i: I) -> Self { i.fold(Self::zero(), |a, b| a + b) } }
    impl<'a, P: SWCurveConfig> core::iter::Sum<&'a Self> for SlowG<P> { fn sum<I: Iterator<Item = &'a Self>>(i: I) -> Self { i.fold(Self::zero(), |a, b| a + b) } }
    impl<P: SWCurveConfig> CanonicalSerialize for SlowG<P> {
        fn serialize_with_mode<W: ark_serialize::Write>(&self, w: W, c: Compress) -> Result<(), SerializationError> { self.0.serialize_with_mode(w, c) }
        fn serialized_size(&self, c: Compress) -> usize { self.0.serialized_size(c) }
    }
    impl<P: SWCurveConfig> Valid for SlowG<P> { fn check(&self) -> Result<(), SerializationError> { self.0.check() } }
    impl<P: SWCurveConfig> CanonicalDeserialize for SlowG<P> {
        fn deserialize_with_mode<R: ark_serialize::Read>(r: R, c: Compress, v: Validate) -> Result<Self, SerializationError> {
            Projective::<P>::deserialize_with_mode(r, c, v).map(SlowG)
        }
    }
    impl<P: SWCurveConfig> Distribution<SlowG<P>> for Standard {
        fn sample<R: Rng + ?Sized>(&self, rng: &mut R) -> SlowG<P> { SlowG(<Standard as Distribution<Projective<P>>>::sample(self, rng)) }
    }
    impl<P: SWCurveConfig> AdditiveGroup for SlowG<P> {
        type Scalar = P::ScalarField;
        const ZERO: Self = SlowG(<Projective<P> as AdditiveGroup>::ZERO);
        fn double_in_place(&mut self) -> &mut Self { self.0.double_in_place(); self }
    }
    impl<P: SWCurveConfig> PrimeGroup for SlowG<P> {
        type ScalarField = P::ScalarField;
        fn generator() -> Self { SlowG(Projective::<P>::generator()) }
        fn mul_bigint(&self, other: impl AsRef<[u64]>) -> Self { SlowG(self.0.mul_bigint(other)) }
    }
    impl<P: SWCurveConfig> ScalarMul for SlowG<P> {
        type MulBase = Self;
        const NEGATION_IS_CHEAP: bool = false;
        fn batch_convert_to_mul_base(bases: &[Self]) -> Vec<Self> { bases.to_vec() }
    }
    impl<P: SWCurveConfig> VariableBaseMSM for SlowG<P> {}
}
impl<P: SWCurveConfig> HG for SlowG<P> where P::BaseField: PrimeField {
    type A = Affine<P>;
    const PFX: &'static str = "";
    fn nc() -> &'static str { "0" }
    fn params() -> Vec<String> { sw_params::<P>() }
    fn base(a: &Affine<P>) -> Self { SlowG(a.into_group()) }
    fn pt(a: &Affine<P>) -> String { sw_pt(a) }
    fn res(&self) -> String { sw_pt(&self.0.into_affine()) }
}
hc_impl!(P, SWCurveConfig, SlowG<P>, sw_all_points);

// ---------------------------------------------------------------- printing
fn fe<F: PrimeField>(x: &F) -> String { hex_limbs(x.into_bigint().as_ref()) }
fn pts<V: HG>(v: &[Aff<V>]) -> String {
    if v.is_empty() { return "_".into(); }
    v.iter().map(V::pt).collect::<Vec<_>>().join(",")
}
fn frs<F: PrimeField>(v: &[F]) -> String {
    if v.is_empty() { return "_".into(); }
    v.iter().map(fe).collect::<Vec<_>>().join(",")
}
fn bigs<B: BigInteger>(v: &[B]) -> String {
    if v.is_empty() { return "_".into(); }
    v.iter().map(|b| hex_limbs(b.as_ref())).collect::<Vec<_>>().join(",")
}
fn idxs(v: &[usize]) -> String {
    if v.is_empty() { return "_".into(); }
    v.iter().map(|i| format!("{:x}", i)).collect::<Vec<_>>().join(",")
}
fn hdr<V: HG>() -> String {
    let mut h = V::params();
    h.push(hex_limbs(<Fr<V> as PrimeField>::MODULUS.as_ref()));
    h.push(format!("{:x}", <Big<V> as BigInteger>::NUM_LIMBS));
    h.push(V::nc().into());
    h.join(" ")
}
fn res<V: HG>(v: &V) -> String { v.res() }
fn mb<V: HG>(b: &[Aff<V>]) -> Vec<V::MulBase> { b.iter().map(V::base).collect() }

// ---------------------------------------------------------------- ops
/// field-element entry points; `which`: bit 0 msm, bit 1 unchecked, bit 2 chunks
fn e_field<V: HG>(out: &mut Out, bases: &[Aff<V>], scalars: &[Fr<V>], which: u32) {
    let args = format!("{} {} {}", hdr::<V>(), pts::<V>(bases), frs(scalars));
    let b = mb::<V>(bases);
    if which & 1 != 0 {
        out.line(&format!("C05 {}msm {}", V::PFX, args), &guarded(|| match V::msm(&b, scalars) { Ok(g) => res(&g), Err(n) => format!("err:{:x}", n) }));
    }
    if which & 2 != 0 {
        out.line(&format!("C05 {}unchecked {}", V::PFX, args), &guarded(|| res(&V::msm_unchecked(&b, scalars))));
    }
    if which & 4 != 0 {
        out.line(&format!("C05 {}chunks {}", V::PFX, args), &guarded(|| res(&V::msm_chunks(&&b[..], &&scalars[..]))));
    }
}
/// big-integer entry points; `which`: bit 0 msm_bigint, bit 1 hook wnaf, bit 2 hook plain
fn e_big<V: HG>(out: &mut Out, bases: &[Aff<V>], bigints: &[Big<V>], which: u32) {
    let args = format!("{} {} {}", hdr::<V>(), pts::<V>(bases), bigs(bigints));
    let b = mb::<V>(bases);
    if which & 1 != 0 {
        out.line(&format!("C05 {}bigint {}", V::PFX, args), &guarded(|| res(&V::msm_bigint(&b, bigints))));
    }
    if which & 2 != 0 {
        out.line(&format!("C05 {}wnaf {}", V::PFX, args), &guarded(|| res(&verif_hooks::msm_bigint_wnaf::<V>(&b, bigints))));
    }
    if which & 4 != 0 {
        out.line(&format!("C05 {}plain {}", V::PFX, args), &guarded(|| res(&verif_hooks::msm_bigint_plain::<V>(&b, bigints))));
    }
}
fn e_chunkscyc<V: HG>(out: &mut Out, nb: usize, ns: usize, bpat: &[Aff<V>], spat: &[Fr<V>]) {
    let bases: Vec<V::MulBase> = (0..nb).map(|i| V::base(&bpat[i % bpat.len()])).collect();
    let scalars: Vec<Fr<V>> = (0..ns).map(|i| spat[i % spat.len()]).collect();
    out.line(&format!("C05 {}chunkscyc {} {:x} {:x} {} {}", V::PFX, hdr::<V>(), nb, ns, pts::<V>(bpat), frs(spat)),
        &guarded(|| res(&V::msm_chunks(&&bases[..], &&scalars[..]))));
}
/// accumulators; `which`: bit 0 ChunkedPippenger::new, bit 1 ::with_size, bit 2 HashMapPippenger
fn e_acc<V: HG>(out: &mut Out, buf: usize, bases: &[Aff<V>], scalars: &[Fr<V>], ops: &[usize], which: u32) {
    let args = format!("{} {:x} {} {} {}", hdr::<V>(), buf, pts::<V>(bases), frs(scalars), idxs(ops));
    let b = mb::<V>(bases);
    if which & 1 != 0 {
        out.line(&format!("C05 {}chunked {}", V::PFX, args), &guarded(|| {
            let mut acc = ChunkedPippenger::<V>::new(buf);
            for &i in ops { acc.add(b[i], scalars[i].into_bigint()); }
            res(&acc.finalize())
        }));
    }
    if which & 2 != 0 {
        out.line(&format!("C05 {}chunkedws {}", V::PFX, args), &guarded(|| {
            let mut acc = ChunkedPippenger::<V>::with_size(buf);
            for &i in ops { acc.add(&b[i], &scalars[i].into_bigint()); }
            res(&acc.finalize())
        }));
    }
    if which & 4 != 0 {
        out.line(&format!("C05 {}hashmap {}", V::PFX, args), &guarded(|| {
            let mut acc = HashMapPippenger::<V>::new(buf);
            for &i in ops { acc.add(b[i], scalars[i]); }
            res(&acc.finalize())
        }));
    }
}
fn e_digits<const N: usize>(out: &mut Out, a: [u64; N], w: usize, nb: usize) {
    let b = BigInt::<N>::new(a);
    out.line(&format!("C05 digits {:x} {} {:x} {:x}", N, hex_limbs(&a), w, nb),
        &guarded(|| hex_list_i64(&verif_hooks::make_digits(&b, w, nb))));
}

// ---------------------------------------------------------------- input generators
fn big_from<B: BigInteger>(l: &[u64]) -> B {
    let mut b = B::default();
    for (d, s) in b.as_mut().iter_mut().zip(l) { *d = *s; }
    b
}
/// `F::from(u64)` panics for hand-written multi-limb configurations of a small modulus (noted in DESIGN.md §5)
/// (and so does `from_le_bytes_mod_order`, which uses `F::from(256u64)`): reduce by hand and use `from_bigint`
fn fu<F: PrimeField>(k: u64) -> F {
    let k = if F::MODULUS.num_bits() <= 64 { k % F::MODULUS.as_ref()[0] } else { k };
    F::from_bigint(F::BigInt::from(k)).unwrap()
}
fn rand_fr<F: PrimeField>(rng: &mut Rng) -> F {
    if F::MODULUS.num_bits() <= 64 { return fu(rng.next()); }
    let n = <F::BigInt as BigInteger>::NUM_LIMBS;
    let bytes: Vec<u8> = (0..n + 1).flat_map(|_| rng.next().to_le_bytes()).collect();
    F::from_le_bytes_mod_order(&bytes)
}
/// scalar patterns: 0 zeros, 1 ones, 2 r-1, 3 random, 4 mixture of edge values and random, 5 small (< 8)
const N_SK: u32 = 6;
fn scalar_pattern<F: PrimeField>(rng: &mut Rng, kind: u32, len: usize) -> Vec<F> {
    let rm1 = -F::one();
    (0..len).map(|_| match kind {
        0 => F::zero(),
        1 => F::one(),
        2 => rm1,
        3 => rand_fr(rng),
        5 => fu(rng.below(8)),
        _ => match rng.below(10) {
            0 => F::zero(), 1 => F::one(), 2 => rm1, 3 => rm1 - F::one(), 4 => fu::<F>(2),
            5 => fu::<F>(2).pow([rng.below(F::MODULUS_BIT_SIZE as u64 - 1)]),
            6 => fu::<F>(2).pow([rng.below(F::MODULUS_BIT_SIZE as u64 - 1)]) - F::one(),
            _ => rand_fr(rng),
        },
    }).collect()
}
/// big-integer patterns beyond the field: 0 = r, r+1, … wrap of the field values by +r where it fits,
/// 1 = random full width, 2 = all ones / 2^numBits / 2^numBits − 1 / top bit, 3 = field values (in range)
const N_BK: u32 = 4;
fn big_pattern<F: PrimeField>(rng: &mut Rng, kind: u32, len: usize) -> Vec<F::BigInt> {
    let n = <F::BigInt as BigInteger>::NUM_LIMBS;
    let nb = F::MODULUS_BIT_SIZE as usize;
    (0..len).map(|_| match kind {
        0 => { let mut b = rand_fr::<F>(rng).into_bigint(); if rng.below(4) == 0 { b = F::BigInt::from(rng.below(3)); }
               let mut c = b; let carry = c.add_with_carry(&F::MODULUS); if carry { b } else { c } }
        1 => big_from(&(0..n).map(|_| rng.next()).collect::<Vec<_>>()),
        2 => { let mut l = vec![0u64; n];
               match rng.below(5) {
                   0 => { for x in l.iter_mut() { *x = u64::MAX; } }
                   1 => { if nb < 64 * n { l[nb / 64] = 1 << (nb % 64); } else { l[n - 1] = 1 << 63; } }
                   2 => { for i in 0..nb { l[i / 64] |= 1 << (i % 64); } }
                   3 => { l[n - 1] = 1 << 63; }
                   _ => { l[0] = 1; if nb < 64 * n { l[nb / 64] |= 1 << (nb % 64); } }
               }
               big_from(&l) }
        _ => scalar_pattern::<F>(rng, 4, 1)[0].into_bigint(),
    }).collect()
}
/// base patterns over a pool of affine points: 0 random, 1 all the same, 2 all identity, 3 mixture with identity,
/// repeats and opposite pairs
const N_BP: u32 = 4;
fn base_pattern<V: HC>(rng: &mut Rng, pool: &[Aff<V>], kind: u32, len: usize) -> Vec<Aff<V>> {
    let pick = |rng: &mut Rng| pool[rng.below(pool.len() as u64) as usize];
    let same = pick(rng);
    let mut v: Vec<Aff<V>> = Vec::with_capacity(len);
    for i in 0..len {
        let p = match kind {
            0 => pick(rng),
            1 => same,
            2 => V::a_id(),
            _ => match rng.below(6) {
                0 => V::a_id(),
                1 if i > 0 => v[rng.below(i as u64) as usize],
                2 if i > 0 => V::a_neg(&v[rng.below(i as u64) as usize]),
                3 => same,
                _ => pick(rng),
            },
        };
        v.push(p);
    }
    v
}
const LENS_Q: &[usize] = &[0, 1, 2, 3, 4, 7, 8, 9, 31, 32, 33, 63, 64, 65, 100];
const LENS_T: &[usize] = &[5, 6, 15, 16, 17, 30, 34, 127, 128, 129, 255, 256, 257, 1023, 1024, 1025];
const MISMATCH: &[(usize, usize)] = &[(0, 1), (1, 0), (0, 5), (5, 0), (1, 2), (2, 1), (2, 3), (3, 2), (7, 9), (31, 32), (32, 31),
    (32, 33), (33, 32), (31, 40), (40, 31), (33, 100), (100, 33), (64, 65), (65, 64)];

/// the shape suite on one group: every length × base pattern × scalar pattern, mismatched lengths, big integers.
/// `level` 0 = toy curve (everything), 1 = shipped curve thorough, 2 = shipped curve quick (the driver follows
/// shipped curves at ≈ 30 µs per affine addition, so the quick tier keeps only a few long vectors there)
fn shapes<V: HC>(out: &mut Out, rng: &mut Rng, pool: &[Aff<V>], lens: &[usize], reps: usize, level: u8) {
    let toy = level == 0;
    for &len in lens {
        for bk in 0..N_BP { for sk in 0..N_SK { for rep in 0..reps {
            if rep > 0 && bk == 2 && sk < 3 { continue; }
            let cheap = sk == 0 || sk == 1 || sk == 5 || bk == 2;      // cheap for the driver: tiny scalars / identity bases
            if level == 1 && len > 4 && !(bk == 0 && sk == 3 || bk == 3 && sk == 4 || bk == 1 && sk == 2 || bk == 2 && sk == 3 || bk == 0 && sk == 0 || bk == 0 && sk == 1) { continue; }
            if level == 2 && len > 4 && !(bk == 3 && sk == 4 || (len <= 33 && bk == 0 && sk == 1)) { continue; }
            if level == 2 && len <= 4 && !(cheap || bk == 0 && sk == 3 || bk == 3 && sk == 4 || bk == 1 && sk == 2) { continue; }
            let bases = base_pattern::<V>(rng, pool, bk, len);
            let scalars = scalar_pattern::<Fr<V>>(rng, sk, len);
            // field entry points: all three on toy curves, rotating on shipped curves
            let wf = if toy || len <= 2 && (level == 1 || cheap) { 7 } else { 1 << ((bk + sk + rep as u32 + len as u32) % 3) };
            e_field::<V>(out, &bases, &scalars, wf);
            // the two bucket methods on the same input (the public entry points above run the signed-digit method)
            let bigs: Vec<Big<V>> = scalars.iter().map(|s| s.into_bigint()).collect();
            let wb = if toy || len <= 4 && level == 1 { 6 } else if level == 2 && !cheap { 4 } else if len > 40 { 2 << ((bk + sk) % 2) } else { 6 };
            e_big::<V>(out, &bases, &bigs, wb);
        } } }
        // big integers outside the field
        for bkind in 0..N_BK {
            if level == 1 && len > 33 || level == 2 && !(len == 1 || len == 2) { continue; }
            let bases = base_pattern::<V>(rng, pool, if bkind == 2 { 1 } else { 0 }, len);
            let bigs = big_pattern::<Fr<V>>(rng, bkind, len);
            e_big::<V>(out, &bases, &bigs, if level == 2 { 1 | (2 << (bkind % 2)) } else { 7 });
        }
    }
    for &(bl, sl) in MISMATCH {
        if level == 1 && bl.max(sl) > 40 || level == 2 && bl.max(sl) > 3 { continue; }
        let bases = base_pattern::<V>(rng, pool, 3, bl);
        let scalars = scalar_pattern::<Fr<V>>(rng, 4, sl);
        e_field::<V>(out, &bases, &scalars, 7);
        let bigs = big_pattern::<Fr<V>>(rng, 3, sl);
        e_big::<V>(out, &bases, &bigs, if level == 2 { 1 } else { 7 });
    }
}

/// all sequences over `0..k` of length `0..=maxlen`
fn sequences(k: usize, maxlen: usize) -> Vec<Vec<usize>> {
    let mut all: Vec<Vec<usize>> = vec![vec![]];
    let mut layer: Vec<Vec<usize>> = vec![vec![]];
    for _ in 0..maxlen {
        let mut next = Vec::new();
        for s in &layer { for i in 0..k { let mut t = s.clone(); t.push(i); next.push(t); } }
        all.extend(next.iter().cloned());
        layer = next;
    }
    all
}
/// every add history over the alphabet (bases[i], scalars[i]) up to `maxlen` adds × buffer sizes 1..=9
fn histories<V: HG>(out: &mut Out, bases: &[Aff<V>], scalars: &[Fr<V>], maxlen: usize, ws_len: usize) {
    for ops in sequences(bases.len(), maxlen) {
        for buf in 1..=9usize {
            e_acc::<V>(out, buf, bases, scalars, &ops, if ops.len() <= ws_len { 7 } else { 5 });
        }
        if ops.len() <= 3 { e_acc::<V>(out, 0, bases, scalars, &ops, 7); }
    }
}
fn random_histories<V: HC>(out: &mut Out, rng: &mut Rng, pool: &[Aff<V>], count: usize, maxlen: usize) {
    for _ in 0..count {
        let k = 1 + rng.below(5) as usize;
        let bases = base_pattern::<V>(rng, pool, 3, k);
        let scalars = scalar_pattern::<Fr<V>>(rng, 4, k);
        let len = rng.below(maxlen as u64 + 1) as usize;
        let ops: Vec<usize> = (0..len).map(|_| rng.below(k as u64) as usize).collect();
        let buf = rng.below(len as u64 + 2) as usize;
        e_acc::<V>(out, buf, &bases, &scalars, &ops, 7);
    }
}

/// exhaustive small cases on a toy curve: every (point, scalar) vector of length 1, and of length 2 (3) up to a cap
fn exhaustive<V: HC>(out: &mut Out, rng: &mut Rng, maxlen: usize, cap: usize) {
    if maxlen == 0 { return; }
    let pool = V::all_points();
    let r = <Fr<V> as PrimeField>::MODULUS.as_ref()[0];
    let pairs: Vec<(Aff<V>, Fr<V>)> = pool.iter().flat_map(|p| (0..r).map(move |k| (*p, fu::<Fr<V>>(k)))).collect();
    let n = pairs.len();
    for l in 1..=maxlen {
        let total = n.pow(l as u32);
        let all = total <= cap;
        let count = if all { total } else { cap };
        for j in 0..count {
            let mut idx = if all { j } else { rng.below(total as u64) as usize };
            let mut bases = Vec::new(); let mut scalars = Vec::new();
            for _ in 0..l { let (p, k) = pairs[idx % n]; idx /= n; bases.push(p); scalars.push(k); }
            e_field::<V>(out, &bases, &scalars, if l == 1 { 7 } else { 1 << (j % 3) });
            let bigs: Vec<Big<V>> = scalars.iter().map(|s| s.into_bigint()).collect();
            e_big::<V>(out, &bases, &bigs, 6);
        }
    }
}

fn toy<V: HC>(out: &mut Out, rng: &mut Rng, a: &arkharness::Args, name: &str, order: usize, ex_len: usize, ex_cap: usize, hist_len: usize) {
    if let Some(o) = &a.only { if o != name { return; } }
    let pool = V::all_points();
    assert_eq!(pool.len(), order, "{}: group order", name);
    assert!(pool.contains(&V::a_gen()), "{}: generator", name);
    exhaustive::<V>(out, rng, ex_len, ex_cap);
    shapes::<V>(out, rng, &pool, LENS_Q, if a.thorough { 3 } else { 1 }, 0);
    if a.thorough { shapes::<V>(out, rng, &pool, LENS_T, 1, 0); }
    if hist_len > 0 {
        let g = V::a_gen();
        let q = V::a_dbl(&g);
        let one = fu::<Fr<V>>(1);
        // A1: the same base twice with scalars summing to r (a zero entry in the hash map), and a second base
        histories::<V>(out, &[g, g, q], &[one, -one, fu::<Fr<V>>(5)], hist_len, 4);
        // A2: identity base, zero scalar, opposite base
        histories::<V>(out, &[V::a_id(), g, V::a_neg(&g)], &[fu::<Fr<V>>(3), Fr::<V>::zero(), fu::<Fr<V>>(2)], hist_len - 1, 0);
        // A3: random alphabet of four pairs
        let b = base_pattern::<V>(rng, &pool, 3, 4);
        let s = scalar_pattern::<Fr<V>>(rng, 4, 4);
        histories::<V>(out, &b, &s, hist_len - 2, 0);
        random_histories::<V>(out, rng, &pool, if a.thorough { 3000 } else { 300 }, 40);
    }
}
fn real<V: HC>(out: &mut Out, rng: &mut Rng, a: &arkharness::Args, name: &str) {
    if let Some(o) = &a.only { if o != name { return; } }
    let pool = V::real_pool(rng, 24);
    if a.thorough { shapes::<V>(out, rng, &pool, LENS_Q, 1, 1); } else { shapes::<V>(out, rng, &pool, &[0, 1, 2, 3, 4, 31, 32, 33], 1, 2); }
    if a.thorough {
        for &len in &[128usize, 1024] {
            let big_pool = V::real_pool(rng, len);
            let scalars = scalar_pattern::<Fr<V>>(rng, 4, len);
            e_field::<V>(out, &big_pool[..len], &scalars, 1);
            let bigs: Vec<Big<V>> = scalars.iter().map(|s| s.into_bigint()).collect();
            e_big::<V>(out, &big_pool[..len], &bigs, 4);
        }
    }
    random_histories::<V>(out, rng, &pool, if a.thorough { 60 } else { 4 }, if a.thorough { 10 } else { 5 });
}

/// a few public-entry-point calls on a shipped curve through the NEGATION_IS_CHEAP = false wrapper
fn real_slow<V: HC>(out: &mut Out, rng: &mut Rng, a: &arkharness::Args, name: &str) {
    if let Some(o) = &a.only { if o != name { return; } }
    let pool = V::real_pool(rng, 40);
    let lens: &[usize] = if a.thorough { &[0, 1, 2, 3, 31, 32, 33, 100] } else { &[0, 1, 2, 32] };
    for &len in lens {
        let bases = base_pattern::<V>(rng, &pool, 3, len);
        let scalars = scalar_pattern::<Fr<V>>(rng, 4, len);
        e_field::<V>(out, &bases, &scalars, if len <= 2 { 7 } else { 1 << (len % 3) });
        if len <= 2 || a.thorough {
            let bigs: Vec<Big<V>> = scalars.iter().map(|s| s.into_bigint()).collect();
            e_big::<V>(out, &bases, &bigs, 1);
        }
    }
    let bases = base_pattern::<V>(rng, &pool, 3, 2);
    e_field::<V>(out, &bases, &scalar_pattern::<Fr<V>>(rng, 4, 3), 7);
    e_field::<V>(out, &bases[..1], &scalar_pattern::<Fr<V>>(rng, 4, 0), 7);
    random_histories::<V>(out, rng, &pool, if a.thorough { 30 } else { 3 }, if a.thorough { 10 } else { 4 });
}


// ---------------------------------------------------------------- every length pair
/// exactly one non-zero scalar (an edge value or random) among `len`
fn one_nonzero<F: PrimeField>(rng: &mut Rng, len: usize) -> Vec<F> {
    let mut v = vec![F::zero(); len];
    if len > 0 {
        let mut k = scalar_pattern::<F>(rng, 4, 1)[0];
        if k.is_zero() { k = -F::one(); }
        v[rng.below(len as u64) as usize] = k;
    }
    v
}
/// EVERY length pair (bases.len(), scalars.len()) in 0..=6 × 0..=6 and {31,32,33}² (the window-size switch), both
/// `bases.len() > scalars.len()` and `<`, on the checked and the unchecked entry point (plus `msm_chunks` and
/// `msm_bigint` on the mixture).  `level` 0: toy group with every scalar kind (mixture / zeros / ones / r−1 / exactly
/// one non-zero); 1: toy group, mixture only; 2: shipped curve (small scalars and one non-zero small scalar are cheap
/// for the driver; full-size scalars only on a few pairs).
fn length_pairs<V: HC>(out: &mut Out, rng: &mut Rng, pool: &[Aff<V>], level: u8) {
    let mut pairs: Vec<(usize, usize)> = Vec::new();
    for nb in 0..=6 { for ns in 0..=6 { pairs.push((nb, ns)); } }
    for &nb in &[31usize, 32, 33] { for &ns in &[31usize, 32, 33] { pairs.push((nb, ns)); } }
    for (nb, ns) in pairs {
        let n = nb.min(ns);
        // kinds: 4 mixture, 0 zeros, 1 ones, 2 r−1, 5 small, 6 exactly one non-zero, 7 one non-zero small
        let kinds: &[u32] = match level {
            0 => &[4, 0, 1, 2, 6],
            1 => &[4],
            _ => if nb.abs_diff(ns) <= 1 && (n <= 2 || n == 5) { &[5, 7, 4] } else if n <= 6 { &[5, 7] } else { &[5] },
        };
        for &sk in kinds {
            let bases = base_pattern::<V>(rng, pool, 3, nb);
            let scalars: Vec<Fr<V>> = match sk {
                6 => one_nonzero(rng, ns),
                7 => { let mut v = vec![Fr::<V>::zero(); ns]; if ns > 0 { v[rng.below(ns as u64) as usize] = fu(1 + rng.below(7)); } v }
                _ => scalar_pattern(rng, sk, ns),
            };
            let full = sk == 4 && level < 2;
            e_field::<V>(out, &bases, &scalars, if full { 7 } else { 3 });
            if full || level == 2 && sk == 5 && n <= 3 {
                let bigs: Vec<Big<V>> = scalars.iter().map(|s| s.into_bigint()).collect();
                e_big::<V>(out, &bases, &bigs, 1);
            }
        }
    }
}

// ---------------------------------------------------------------- twisted-Edwards groups
/// start-up check of a toy twisted-Edwards curve: complete (a square, d non-square), generator of order r, r·h = order
fn check_te<P: te::TECurveConfig>(name: &str, order: usize) where P::BaseField: PrimeField {
    let is_sq = |v: P::BaseField| v.is_zero() || v.legendre().is_qr();
    assert!(is_sq(P::COEFF_A) && !is_sq(P::COEFF_D), "{}: a square, d non-square", name);
    let r = <P::ScalarField as PrimeField>::MODULUS.as_ref()[0];
    assert_eq!(r as usize * P::COFACTOR[0] as usize, order, "{}: r*h", name);
    let g = P::GENERATOR;
    assert!(g.is_on_curve() && !g.is_zero(), "{}: generator", name);
    assert!(g.mul_bigint([r]).is_zero(), "{}: r*G = O", name);
}
/// a toy twisted-Edwards group: the suites of `toy` with their sizes as parameters, and every length pair.
/// The pool is the whole curve: bases outside the prime-order subgroup (points of order 2 and 4 included) take part.
fn toy_te<P: te::TECurveConfig>(out: &mut Out, rng: &mut Rng, a: &arkharness::Args, name: &str, order: usize,
        ex_len: usize, ex_cap: usize, lens: &[usize], hist_len: usize, n_hist: usize, pair_level: u8) where P::BaseField: PrimeField {
    type V<P> = te::Projective<P>;
    if let Some(o) = &a.only { if o != name && o != "te" { return; } }
    check_te::<P>(name, order);
    let pool = V::<P>::all_points();
    assert_eq!(pool.len(), order, "{}: group order", name);
    assert!(pool.contains(&P::GENERATOR), "{}: generator", name);
    let x = if a.thorough { 4 } else { 1 };
    exhaustive::<V<P>>(out, rng, ex_len, ex_cap * x);
    shapes::<V<P>>(out, rng, &pool, if a.thorough { LENS_Q } else { lens }, x, 0);
    length_pairs::<V<P>>(out, rng, &pool, pair_level);
    // the points of small order (cofactor subgroup) as bases
    let r = <P::ScalarField as PrimeField>::MODULUS.as_ref()[0];
    let small: Vec<te::Affine<P>> = pool.iter().filter(|p| p.mul_bigint(P::COFACTOR).is_zero()).cloned().collect();
    assert_eq!(small.len() as u64, P::COFACTOR[0]);
    for len in [1usize, 2, 3, 5, 32] {
        let bases = base_pattern::<V<P>>(rng, &small, 0, len);
        let scalars = scalar_pattern::<P::ScalarField>(rng, 4, len);
        e_field::<V<P>>(out, &bases, &scalars, 7);
        let mut mixed = bases.clone();
        for (i, b) in mixed.iter_mut().enumerate() { if i % 2 == 1 { *b = (b.into_group() + P::GENERATOR).into_affine(); } }
        e_field::<V<P>>(out, &mixed, &scalars, 7);
        e_big::<V<P>>(out, &mixed, &big_pattern::<P::ScalarField>(rng, if r < 64 { 1 } else { 0 }, len), 7);
    }
    if hist_len > 0 {
        let g = P::GENERATOR;
        let q = V::<P>::a_dbl(&g);
        let one = fu::<P::ScalarField>(1);
        histories::<V<P>>(out, &[g, g, q], &[one, -one, fu(5)], hist_len, 2);
        histories::<V<P>>(out, &[V::<P>::a_id(), g, -g], &[fu(3), P::ScalarField::zero(), fu(2)], hist_len - 1, 0);
    }
    random_histories::<V<P>>(out, rng, &pool, n_hist * if a.thorough { 10 } else { 1 }, 40);
}
/// a shipped twisted-Edwards curve
fn real_te<P: te::TECurveConfig>(out: &mut Out, rng: &mut Rng, a: &arkharness::Args, name: &str, thorough: bool) where P::BaseField: PrimeField {
    type V<P> = te::Projective<P>;
    if let Some(o) = &a.only { if o != name && o != "te" { return; } }
    let pool = V::<P>::real_pool(rng, 24);
    if thorough { shapes::<V<P>>(out, rng, &pool, LENS_Q, 1, 1); } else { shapes::<V<P>>(out, rng, &pool, &[1, 2, 32], 1, 2); }
    length_pairs::<V<P>>(out, rng, &pool, 2);
    random_histories::<V<P>>(out, rng, &pool, if thorough { 60 } else { 4 }, if thorough { 10 } else { 5 });
}

// ---------------------------------------------------------------- PairingOutput<Bls12_381>
use ark_test_curves::bls12_381::Bls12_381;
type Gt = PairingOutput<Bls12_381>;
type GtFr = <Bls12_381 as Pairing>::ScalarField;
/// the table holds gt^e for |e| <= GT_D
const GT_D: i64 = 4096;
struct GtTable { pos: Vec<Gt>, neg: Vec<Gt>, map: std::collections::HashMap<Vec<u8>, i64> }
static GT_TABLE: std::sync::OnceLock<GtTable> = std::sync::OnceLock::new();
fn gt_ser(g: &Gt) -> Vec<u8> { let mut v = Vec::new(); g.serialize_compressed(&mut v).unwrap(); v }
/// built by repeated group addition / subtraction of `gt = e(g1, g2)` only (no scalar multiplication, no MSM)
fn gt_table() -> &'static GtTable {
    GT_TABLE.get_or_init(|| {
        use ark_test_curves::bls12_381::{G1Affine, G2Affine};
        let gt = Bls12_381::pairing(G1Affine::generator(), G2Affine::generator());
        assert!(!gt.is_zero());
        let (mut pos, mut neg) = (vec![Gt::zero()], vec![Gt::zero()]);
        let mut map = std::collections::HashMap::new();
        map.insert(gt_ser(&pos[0]), 0i64);
        for i in 1..=GT_D {
            let p = pos[i as usize - 1] + gt;
            let n = neg[i as usize - 1] - gt;
            assert!((p + n).is_zero(), "gt table: negative side");
            assert!(map.insert(gt_ser(&p), i).is_none() && map.insert(gt_ser(&n), -i).is_none(), "gt table: collision");
            pos.push(p); neg.push(n);
        }
        GtTable { pos, neg, map }
    })
}
/// a pairing output with its discrete logarithm w.r.t. `gt`
#[derive(Clone, Copy, PartialEq, Eq)]
struct GtB { e: i64, g: Gt }
fn gtb(e: i64) -> GtB { let t = gt_table(); GtB { e, g: if e >= 0 { t.pos[e as usize] } else { t.neg[(-e) as usize] } } }
fn gt_exp(e: i64) -> String { fe(&if e < 0 { -GtFr::from((-e) as u64) } else { GtFr::from(e as u64) }) }
impl HG for Gt {
    type A = GtB;
    const PFX: &'static str = "gt.";
    fn nc() -> &'static str { if <Gt as ScalarMul>::NEGATION_IS_CHEAP { "1" } else { "0" } }
    fn params() -> Vec<String> { vec![] }
    fn base(a: &GtB) -> Gt { a.g }
    fn pt(a: &GtB) -> String { gt_exp(a.e) }
    fn res(&self) -> String { match gt_table().map.get(&gt_ser(self)) { Some(&e) => gt_exp(e), None => "notfound".into() } }
}
/// bases gt^a, |a| <= maxa: identity (a = 0), repeats and opposites of earlier bases included
fn gt_bases(rng: &mut Rng, len: usize, maxa: i64) -> Vec<GtB> {
    let mut v: Vec<GtB> = Vec::with_capacity(len);
    for i in 0..len {
        let e = match rng.below(8) {
            0 => 0,
            1 if i > 0 => v[rng.below(i as u64) as usize].e,
            2 if i > 0 => -v[rng.below(i as u64) as usize].e,
            3 => 1,
            _ => rng.below(2 * maxa as u64 + 1) as i64 - maxa,
        };
        v.push(gtb(e));
    }
    v
}
/// scalars ±k, k <= maxk (−k is the full-size field element r − k); kinds: 0 zeros, 1 ones, 2 r−1, 3 mixture, 4 exactly
/// one non-zero
fn gt_scalars(rng: &mut Rng, kind: u32, len: usize, maxk: u64) -> Vec<GtFr> {
    let sk = |rng: &mut Rng| { let k = GtFr::from(rng.below(maxk + 1)); if rng.below(3) == 0 { -k } else { k } };
    match kind {
        0 => vec![GtFr::zero(); len],
        1 => vec![GtFr::from(1u64); len],
        2 => vec![-GtFr::from(1u64); len],
        4 => { let mut v = vec![GtFr::zero(); len]; if len > 0 { v[rng.below(len as u64) as usize] = -GtFr::from(1 + rng.below(maxk)); } v }
        _ => (0..len).map(|_| sk(rng)).collect(),
    }
}
fn gt_suite(out: &mut Out, rng: &mut Rng, a: &arkharness::Args) {
    if let Some(o) = &a.only { if o != "gt" { return; } }
    let maxa = 8i64;
    let maxk = |n: usize| (GT_D as u64 / (maxa as u64 * n.max(1) as u64)).min(15);
    // every length pair
    let mut pairs: Vec<(usize, usize)> = Vec::new();
    for nb in 0..=6 { for ns in 0..=6 { pairs.push((nb, ns)); } }
    for &nb in &[31usize, 32, 33] { for &ns in &[31usize, 32, 33] { pairs.push((nb, ns)); } }
    for (nb, ns) in pairs {
        let n = nb.min(ns);
        let kinds: &[u32] = if n <= 6 && (a.thorough || nb.abs_diff(ns) <= 1 || n <= 1) { &[3, 0, 1, 2, 4] } else { &[3] };
        for &sk in kinds {
            let bases = gt_bases(rng, nb, maxa);
            let scalars = gt_scalars(rng, sk, ns, maxk(n));
            e_field::<Gt>(out, &bases, &scalars, if sk == 3 && n <= 6 { 7 } else { 3 });
            if sk == 3 && (n <= 3 || nb == ns) {
                let bigs: Vec<Big<Gt>> = scalars.iter().map(|s| s.into_bigint()).collect();
                e_big::<Gt>(out, &bases, &bigs, if n <= 3 { 7 } else { 1 });
            }
        }
    }
    // full-size scalars that cancel: (k, gt^a) with (k, gt^-a) or with (r − k, gt^a), a few small terms on top
    for &n in if a.thorough { &[2usize, 3, 4, 6, 8, 16, 31, 32, 33, 34, 64, 100][..] } else { &[2usize, 3, 6, 32, 33][..] } {
        for variant in 0..2 {
            let mut bs: Vec<GtB> = Vec::new(); let mut ks: Vec<GtFr> = Vec::new();
            while bs.len() + 2 <= n - n % 2 - if n >= 6 { 2 } else { 0 } {
                let k = match rng.below(4) { 0 => -GtFr::from(1 + rng.below(3)), _ => rand_fr::<GtFr>(rng) };
                let e = 1 + rng.below(maxa as u64) as i64;
                if variant == 0 { bs.push(gtb(e)); ks.push(k); bs.push(gtb(-e)); ks.push(k); }
                else { bs.push(gtb(e)); ks.push(k); bs.push(gtb(e)); ks.push(-k); }
            }
            let rest = n - bs.len();
            bs.extend(gt_bases(rng, rest, maxa)); ks.extend(gt_scalars(rng, 3, rest, 15));
            // a fixed permutation of the pairs
            let mut idx: Vec<usize> = (0..n).collect();
            for i in (1..n).rev() { idx.swap(i, rng.below(i as u64 + 1) as usize); }
            let bs: Vec<GtB> = idx.iter().map(|&i| bs[i]).collect();
            let ks: Vec<GtFr> = idx.iter().map(|&i| ks[i]).collect();
            e_field::<Gt>(out, &bs, &ks, if n <= 6 { 7 } else { 1 << (variant + 1 - (n % 2)) % 3 });
            let bigs: Vec<Big<Gt>> = ks.iter().map(|s| s.into_bigint()).collect();
            e_big::<Gt>(out, &bs, &bigs, if n <= 6 { 7 } else { 1 });
        }
    }
    // big integers k + r (inside 2^MODULUS_BIT_SIZE, outside the field)
    for &n in &[1usize, 2, 5, 32] {
        let bases = gt_bases(rng, n, maxa);
        let bigs: Vec<Big<Gt>> = (0..n).map(|_| { let mut b = Big::<Gt>::from(rng.below(maxk(n) + 1)); b.add_with_carry(&GtFr::MODULUS); b }).collect();
        e_big::<Gt>(out, &bases, &bigs, if n <= 5 { 7 } else { 1 });
    }
    // accumulators
    for _ in 0..if a.thorough { 200 } else { 24 } {
        let k = 1 + rng.below(5) as usize;
        let bases = gt_bases(rng, k, maxa);
        let scalars = gt_scalars(rng, 3, k, 15);
        let len = rng.below(13) as usize;
        let ops: Vec<usize> = (0..len).map(|_| rng.below(k as u64) as usize).collect();
        let buf = rng.below(len as u64 + 2) as usize;
        e_acc::<Gt>(out, buf, &bases, &scalars, &ops, 7);
    }
}

fn digits_suite(out: &mut Out, rng: &mut Rng, thorough: bool) {
    // exhaustive: one limb, every a < 2^10, w = 1..=6, num_bits = 10 and 0 (= a.num_bits())
    for a in 0..1024u64 { for w in 1..=6usize { e_digits::<1>(out, [a], w, 10); e_digits::<1>(out, [a], w, 0); } }
    // window sizes the MSM can use (c = 3, ln+2 up to 46) and the extremes 1, 62; num_bits of shipped scalar fields
    const WS: &[usize] = &[1, 2, 3, 4, 5, 6, 7, 8, 9, 10, 11, 12, 13, 15, 16, 17, 20, 21, 31, 32, 33, 46, 61, 62];
    fn run<const N: usize>(out: &mut Out, rng: &mut Rng, extra: usize, nbs: &[usize]) {
        for a in edge_values::<N>(rng, extra) {
            for &w in WS { for &nb in nbs { e_digits::<N>(out, a, w, nb); } }
        }
    }
    let x = if thorough { 200 } else { 20 };
    run::<1>(out, rng, x, &[0, 1, 3, 61, 63, 64]);
    run::<2>(out, rng, x, &[0, 4, 64, 65, 127, 128]);
    run::<4>(out, rng, x, &[0, 8, 253, 255, 256]);
    run::<6>(out, rng, x, &[0, 377, 381, 384]);
    if thorough { run::<12>(out, rng, 50, &[0, 753, 768]); }
    // outside the property's domain: w = 0 (div_ceil by zero) and num_bits beyond the limbs (recorded as notes)
    e_digits::<1>(out, [5], 0, 3);
    e_digits::<1>(out, [5], 3, 70);
    e_digits::<2>(out, [5, 1 << 63], 5, 200);
    e_digits::<1>(out, [u64::MAX], 3, 66);
}

/// every length pair on toy short-Weierstrass groups (cheap and non-cheap negation), the toy twisted-Edwards groups,
/// pairing outputs
fn extras_cheap(o: &mut Out, r: &mut Rng, a: &arkharness::Args) {
    let only = |n: &str| a.only.as_deref().map_or(true, |s| s == n || s == "pairs");
    if only("T13R7") { length_pairs::<Projective<T13R7>>(o, r, &sw_all_points::<T13R7>(), 0); }
    if only("T13R13X2") { length_pairs::<Projective<T13R13X2>>(o, r, &sw_all_points::<T13R13X2>(), 1); }
    if only("T13R7H2") { length_pairs::<Projective<T13R7H2>>(o, r, &sw_all_points::<T13R7H2>(), 1); }
    if only("T251R257") { length_pairs::<Projective<T251R257>>(o, r, &sw_all_points::<T251R257>(), 0); }
    if only("T257R251X4") { length_pairs::<Projective<T257R251X4>>(o, r, &sw_all_points::<T257R251X4>(), 1); }
    if only("T13R7-slow") { length_pairs::<SlowG<T13R7>>(o, r, &sw_all_points::<T13R7>(), 0); }
    if only("T13R13X2-slow") { length_pairs::<SlowG<T13R13X2>>(o, r, &sw_all_points::<T13R13X2>(), 1); }
    if only("T251R257-slow") { length_pairs::<SlowG<T251R257>>(o, r, &sw_all_points::<T251R257>(), 0); }
    // twisted-Edwards groups (`TECurveConfig::msm` is the checked entry point)
    toy_te::<TE13R5>(o, r, a, "TE13R5", 20, 2, 200, &[0, 1, 2, 3, 8, 31, 32, 33], 2, 100, 0);
    toy_te::<TE257R59>(o, r, a, "TE257R59", 236, 1, 80, &[1, 2, 4, 32, 33], 2, 60, 0);
    toy_te::<TE251R13>(o, r, a, "TE251R13", 260, 1, 50, &[2, 31, 32], 0, 30, 1);
    toy_te::<TE251R13X2>(o, r, a, "TE251R13X2", 260, 0, 0, &[1, 33], 0, 30, 1);
    toy_te::<TE65537R16493>(o, r, a, "TE65537R16493", 65972, 0, 0, &[1, 2, 3, 8, 31, 32, 33, 100], 2, 80, 0);
    // pairing outputs
    gt_suite(o, r, a);
    // (thorough stream: the quick-sized run on the shipped twisted-Edwards curve here, the large one at the end)
    if a.thorough { real_te::<ark_test_curves::ed_on_bls12_381::EdwardsConfig>(o, r, a, "ed_on_bls12_381", false); }
}
/// every length pair on shipped short-Weierstrass curves; the shipped twisted-Edwards curve
fn extras_shipped(o: &mut Out, r: &mut Rng, a: &arkharness::Args) {
    use ark_test_curves::bls12_381;
    let only = |n: &str| a.only.as_deref().map_or(true, |s| s == n || s == "pairs");
    if only("bls12_381_g1") { let pool = Projective::<bls12_381::g1::Config>::real_pool(r, 24); length_pairs::<Projective<bls12_381::g1::Config>>(o, r, &pool, 2); }
    if only("bls12_381_g1-slow") { let pool = SlowG::<bls12_381::g1::Config>::real_pool(r, 24); length_pairs::<SlowG<bls12_381::g1::Config>>(o, r, &pool, 2); }
    real_te::<ark_test_curves::ed_on_bls12_381::EdwardsConfig>(o, r, a, "ed_on_bls12_381", a.thorough);
}

fn main() {
    let a = arkharness::args();
    if std::env::var("C05_DEBUG").is_ok() { std::panic::set_hook(Box::new(|i| eprintln!("{}", i))); }
    let mut rng = Rng::new(a.seed);
    let mut out = Out::new();
    let (o, r) = (&mut out, &mut rng);
    let th = a.thorough;
    if a.only.as_deref().map_or(true, |s| s == "digits") { digits_suite(o, r, th); }
    // the thorough stream may be cut off by a time budget: the cheap part of the later additions goes first there
    let mut rng2 = Rng::new(a.seed ^ 0x5445_6774);
    if th { extras_cheap(o, &mut rng2, &a); }
    // toy curves: exhaustive small vectors, the whole shape suite, every add history
    toy::<Projective<T13R7>>(o, r, &a, "T13R7", 7, if th { 3 } else { 2 }, if th { 120000 } else { 2401 }, if th { 8 } else { 6 });
    toy::<Projective<T13R13>>(o, r, &a, "T13R13", 13, 2, if th { 40000 } else { 1500 }, if th { 8 } else { 6 });
    toy::<Projective<T13R13X2>>(o, r, &a, "T13R13X2", 13, 2, if th { 4000 } else { 400 }, 0);
    toy::<Projective<T13R7H2>>(o, r, &a, "T13R7H2", 14, 2, if th { 9604 } else { 1500 }, if th { 6 } else { 5 });
    toy::<Projective<T127R127>>(o, r, &a, "T127R127", 127, 2, if th { 4000 } else { 400 }, 0);
    toy::<Projective<T251R257>>(o, r, &a, "T251R257", 257, 2, if th { 4000 } else { 400 }, if th { 6 } else { 0 });
    toy::<Projective<T257R251X4>>(o, r, &a, "T257R251X4", 251, 2, if th { 4000 } else { 400 }, if th { 6 } else { 4 });
    // the same through a group type with NEGATION_IS_CHEAP = false (public entry points run the plain-bucket method)
    toy::<SlowG<T13R7>>(o, r, &a, "T13R7-slow", 7, 2, if th { 2401 } else { 600 }, if th { 7 } else { 5 });
    toy::<SlowG<T13R13X2>>(o, r, &a, "T13R13X2-slow", 13, 2, if th { 4000 } else { 400 }, if th { 6 } else { 4 });
    toy::<SlowG<T251R257>>(o, r, &a, "T251R257-slow", 257, 1, 300, if th { 6 } else { 4 });
    // more than one step of msm_chunks (step = 2^20)
    if th && a.only.as_deref().map_or(true, |s| s == "chunkscyc") {
        let pool = sw_all_points::<T13R7>();
        let sp = scalar_pattern::<FDT7>(r, 5, 7);
        e_chunkscyc::<Projective<T13R7>>(o, (1 << 20) + 5, (1 << 20) + 5, &pool[1..6], &sp);
        e_chunkscyc::<Projective<T13R7>>(o, (1 << 20) + 9, (1 << 20) + 2, &pool[..5], &sp);
    }
    if a.only.as_deref().map_or(true, |s| s == "chunkscyc") {
        let pool = sw_all_points::<T13R7>();
        let sp = scalar_pattern::<FDT7>(r, 5, 7);
        e_chunkscyc::<Projective<T13R7>>(o, 50, 50, &pool[1..6], &sp);
        e_chunkscyc::<Projective<T13R7>>(o, 60, 50, &pool[1..6], &sp);
        e_chunkscyc::<Projective<T13R7>>(o, 50, 60, &pool[1..6], &sp);
    }
    // shipped curves
    use ark_test_curves::{bls12_381, secp256k1};
    real::<Projective<bls12_381::g1::Config>>(o, r, &a, "bls12_381_g1");
    real::<Projective<secp256k1::Config>>(o, r, &a, "secp256k1");
    real_slow::<SlowG<bls12_381::g1::Config>>(o, r, &a, "bls12_381_g1-slow");
    // ---- (added later; own generator stream so that the lines above stay as they were)
    if !th { extras_cheap(o, &mut rng2, &a); }
    extras_shipped(o, &mut rng2, &a);
    out.flush();
}
