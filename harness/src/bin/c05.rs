//! C05: variable-base multi-scalar multiplication of ark-ec.
//!
//! Line protocol (numbers lower-case hex; points `x:y` | `inf`; lists comma separated, `_` = empty):
//!   C05 <op> <p> <a> <b> <r> <N> <nc> <bases> <scalars>               => <pt> | err:<n> | panic
//!        op = msm | unchecked | chunks            scalars are field elements (standard representative)
//!        op = bigint | wnaf | plain               scalars are big integers < 2^(64N)
//!             (`wnaf` / `plain` = private `msm_bigint_wnaf` / `msm_bigint` through `verif_hooks`)
//!   C05 chunkscyc <p> <a> <b> <r> <N> <nc> <nb> <ns> <bases> <scalars> => msm_chunks on the patterns repeated
//!                                                                        cyclically to lengths nb / ns
//!   C05 chunked|chunkedws|hashmap <p> <a> <b> <r> <N> <nc> <bufsize> <bases> <scalars> <ops>
//!        ops = indices i: `add(bases[i], scalars[i])` in order, then `finalize()`
//!        (chunked = ChunkedPippenger::new, chunkedws = ::with_size, hashmap = HashMapPippenger::new)
//!   C05 digits <N> <a> <w> <numbits>                                   => digits | panic   (`verif_hooks::make_digits`)
//! `p a b` = curve y² = x³ + a x + b over F_p, `r`/`N` = modulus / BigInt limbs of the scalar field,
//! `nc` = NEGATION_IS_CHEAP of the group type the entry point is called on.
#![allow(dead_code, deprecated)]
use ark_ec::scalar_mul::variable_base::{verif_hooks, ChunkedPippenger, HashMapPippenger};
use ark_ec::{
    short_weierstrass::{Affine, Projective, SWCurveConfig},
    AffineRepr, CurveConfig, CurveGroup, PrimeGroup, VariableBaseMSM,
};
use ark_ff::{BigInt, BigInteger, MontFp, PrimeField, Zero};
use arkharness::util::*;
use arkharness::zoo::*;

// ---------------------------------------------------------------- toy curves (orders / generators: brute force, Python)
macro_rules! sw_curve {
    ($name:ident, $bf:ty, $sf:ty, $cof:expr, $cofinv:expr, $a:expr, $b:expr, $gx:expr, $gy:expr) => {
        #[derive(Clone, Default, PartialEq, Eq)]
        pub struct $name;
        impl CurveConfig for $name {
            type BaseField = $bf;
            type ScalarField = $sf;
            const COFACTOR: &'static [u64] = &[$cof];
            const COFACTOR_INV: $sf = MontFp!($cofinv);
        }
        impl SWCurveConfig for $name {
            const COEFF_A: $bf = MontFp!($a);
            const COEFF_B: $bf = MontFp!($b);
            const GENERATOR: Affine<Self> = Affine::new_unchecked(MontFp!($gx), MontFp!($gy));
        }
    };
}
// y² = x³ + 6 over F_13: order 7 = r (3-bit scalars: a single window)
sw_curve!(T13R7, FDT13, FDT7, 1, "1", "0", "6", "2", "1");
// y² = x³ + x + 6 over F_13: order 13 = r, scalar field stored in one / two limbs
sw_curve!(T13R13, FDT13, FDT13, 1, "1", "1", "6", "2", "4");
sw_curve!(T13R13X2, FDT13, FHT13x2, 1, "1", "1", "6", "2", "4");
// y² = x³ + x + 4 over F_13: order 14 = 2·7, r = 7 (a point of order two, bases outside the subgroup)
sw_curve!(T13R7H2, FDT13, FDT7, 2, "4", "1", "4", "9", "12");
// y² = x³ + 3 over F_127: order 127 = r
sw_curve!(T127R127, FDT127, FDT127, 1, "1", "0", "3", "1", "2");
// y² = x³ + x + 16 over F_251: order 257 = r (9-bit scalars)
sw_curve!(T251R257, FDT251, FDT257, 1, "1", "1", "16", "0", "4");
// y² = x³ + x + 16 over F_257: order 251 = r, scalar field stored in four limbs
sw_curve!(T257R251X4, FDT257, FHT251x4, 1, "1", "1", "16", "0", "4");

// ---------------------------------------------------------------- the groups the entry points are called on
type Fr<V> = <V as PrimeGroup>::ScalarField;
type Big<V> = <Fr<V> as PrimeField>::BigInt;
type Fq<V> = <<V as HG>::C as CurveConfig>::BaseField;
type Aff<V> = Affine<<V as HG>::C>;

trait HG: VariableBaseMSM + Sized {
    type C: SWCurveConfig<ScalarField = Fr<Self>>;
    const NC: &'static str;
    fn base(a: &Aff<Self>) -> Self::MulBase;
    fn aff(&self) -> Aff<Self>;
}
impl<P: SWCurveConfig> HG for Projective<P> {
    type C = P;
    const NC: &'static str = "1";
    fn base(a: &Affine<P>) -> Affine<P> { *a }
    fn aff(&self) -> Affine<P> { self.into_affine() }
}

/// A group type whose `NEGATION_IS_CHEAP` is `false` (no shipped group has one): the short-Weierstrass projective
/// group behind a newtype with `MulBase = Self` (as `PairingOutput` does) and every `VariableBaseMSM` method left at
/// its trait default.  Reaches the plain-bucket branch of the public `msm_bigint` and the trait-default `msm`.
pub struct SlowG<P: SWCurveConfig>(pub Projective<P>);
impl<P: SWCurveConfig> Clone for SlowG<P> { fn clone(&self) -> Self { *self } }
impl<P: SWCurveConfig> Copy for SlowG<P> {}
impl<P: SWCurveConfig> PartialEq for SlowG<P> { fn eq(&self, o: &Self) -> bool { self.0 == o.0 } }
impl<P: SWCurveConfig> Eq for SlowG<P> {}
impl<P: SWCurveConfig> core::hash::Hash for SlowG<P> { fn hash<H: core::hash::Hasher>(&self, h: &mut H) { self.0.hash(h) } }
impl<P: SWCurveConfig> core::fmt::Debug for SlowG<P> { fn fmt(&self, f: &mut core::fmt::Formatter<'_>) -> core::fmt::Result { write!(f, "{:?}", self.0) } }
impl<P: SWCurveConfig> Default for SlowG<P> { fn default() -> Self { SlowG(Projective::<P>::default()) } }
mod slow_impls {
    use super::SlowG;
    use ark_ec::{short_weierstrass::{Projective, SWCurveConfig}, PrimeGroup, ScalarMul, VariableBaseMSM};
    use ark_ff::{AdditiveGroup, Zero};
    use ark_serialize::{CanonicalDeserialize, CanonicalSerialize, Compress, SerializationError, Valid, Validate};
    use ark_std::rand::{distributions::{Distribution, Standard}, Rng};
    use core::ops::{Add, AddAssign, Mul, MulAssign, Neg, Sub, SubAssign};
    impl<P: SWCurveConfig> core::fmt::Display for SlowG<P> {
        fn fmt(&self, f: &mut core::fmt::Formatter<'_>) -> core::fmt::Result { write!(f, "{}", self.0) }
    }
    impl<P: SWCurveConfig> zeroize::Zeroize for SlowG<P> { fn zeroize(&mut self) { self.0.zeroize() } }
    impl<P: SWCurveConfig> Zero for SlowG<P> {
        fn zero() -> Self { SlowG(Projective::<P>::zero()) }
        fn is_zero(&self) -> bool { self.0.is_zero() }
    }
    impl<P: SWCurveConfig> Neg for SlowG<P> { type Output = Self; fn neg(self) -> Self { SlowG(-self.0) } }
    macro_rules! bin {
        ($tr:ident, $f:ident, $tra:ident, $fa:ident, $rhs:ty) => {
            impl<'a, P: SWCurveConfig> $tr<$rhs> for SlowG<P> { type Output = Self; fn $f(self, o: $rhs) -> Self { SlowG(self.0.$f(o.0)) } }
            impl<'a, P: SWCurveConfig> $tra<$rhs> for SlowG<P> { fn $fa(&mut self, o: $rhs) { self.0.$fa(o.0) } }
        };
    }
    bin!(Add, add, AddAssign, add_assign, SlowG<P>);
    bin!(Add, add, AddAssign, add_assign, &'a SlowG<P>);
    bin!(Add, add, AddAssign, add_assign, &'a mut SlowG<P>);
    bin!(Sub, sub, SubAssign, sub_assign, SlowG<P>);
    bin!(Sub, sub, SubAssign, sub_assign, &'a SlowG<P>);
    bin!(Sub, sub, SubAssign, sub_assign, &'a mut SlowG<P>);
    impl<P: SWCurveConfig, T: core::borrow::Borrow<P::ScalarField>> Mul<T> for SlowG<P> { type Output = Self; fn mul(self, o: T) -> Self { SlowG(self.0 * *o.borrow()) } }
    impl<P: SWCurveConfig, T: core::borrow::Borrow<P::ScalarField>> MulAssign<T> for SlowG<P> { fn mul_assign(&mut self, o: T) { self.0 *= *o.borrow() } }
    impl<P: SWCurveConfig> core::iter::Sum<Self> for SlowG<P> { fn sum<I: Iterator<Item = Self>>(i: I) -> Self { i.fold(Self::zero(), |a, b| a + b) } }
    impl<'a, P: SWCurveConfig> core::iter::Sum<&'a Self> for SlowG<P> { fn sum<I: Iterator<Item = &'a Self>>(i: I) -> Self { i.fold(Self::zero(), |a, b| a + b) } }
    impl<P: SWCurveConfig> CanonicalSerialize for SlowG<P> {
        fn serialize_with_mode<W: ark_serialize::Write>(&self, w: W, c: Compress) -> Result<(), SerializationError> { self.0.serialize_with_mode(w, c) }
        fn serialized_size(&self, c: Compress) -> usize { self.0.serialized_size(c) }
    }
    impl<P: SWCurveConfig> Valid for SlowG<P> { fn check(&self) -> Result<(), SerializationError> { self.0.check() } }
    impl<P: SWCurveConfig> CanonicalDeserialize for SlowG<P> {
        fn deserialize_with_mode<R: ark_serialize::Read>(r: R, c: Compress, v: Validate) -> Result<Self, SerializationError> {
            Projective::<P>::deserialize_with_mode(r, c, v).map(SlowG)
        }
    }
    impl<P: SWCurveConfig> Distribution<SlowG<P>> for Standard {
        fn sample<R: Rng + ?Sized>(&self, rng: &mut R) -> SlowG<P> { SlowG(<Standard as Distribution<Projective<P>>>::sample(self, rng)) }
    }
    impl<P: SWCurveConfig> AdditiveGroup for SlowG<P> {
        type Scalar = P::ScalarField;
        const ZERO: Self = SlowG(<Projective<P> as AdditiveGroup>::ZERO);
        fn double_in_place(&mut self) -> &mut Self { self.0.double_in_place(); self }
    }
    impl<P: SWCurveConfig> PrimeGroup for SlowG<P> {
        type ScalarField = P::ScalarField;
        fn generator() -> Self { SlowG(Projective::<P>::generator()) }
        fn mul_bigint(&self, other: impl AsRef<[u64]>) -> Self { SlowG(self.0.mul_bigint(other)) }
    }
    impl<P: SWCurveConfig> ScalarMul for SlowG<P> {
        type MulBase = Self;
        const NEGATION_IS_CHEAP: bool = false;
        fn batch_convert_to_mul_base(bases: &[Self]) -> Vec<Self> { bases.to_vec() }
    }
    impl<P: SWCurveConfig> VariableBaseMSM for SlowG<P> {}
}
impl<P: SWCurveConfig> HG for SlowG<P> {
    type C = P;
    const NC: &'static str = "0";
    fn base(a: &Affine<P>) -> Self { SlowG(a.into_group()) }
    fn aff(&self) -> Affine<P> { self.0.into_affine() }
}

// ---------------------------------------------------------------- printing
fn fe<F: PrimeField>(x: &F) -> String { hex_limbs(x.into_bigint().as_ref()) }
fn pt<P: SWCurveConfig>(a: &Affine<P>) -> String where P::BaseField: PrimeField {
    if a.infinity { "inf".into() } else { format!("{}:{}", fe(&a.x), fe(&a.y)) }
}
fn pts<P: SWCurveConfig>(v: &[Affine<P>]) -> String where P::BaseField: PrimeField {
    if v.is_empty() { return "_".into(); }
    v.iter().map(pt).collect::<Vec<_>>().join(",")
}
fn frs<F: PrimeField>(v: &[F]) -> String {
    if v.is_empty() { return "_".into(); }
    v.iter().map(fe).collect::<Vec<_>>().join(",")
}
fn bigs<B: BigInteger>(v: &[B]) -> String {
    if v.is_empty() { return "_".into(); }
    v.iter().map(|b| hex_limbs(b.as_ref())).collect::<Vec<_>>().join(",")
}
fn idxs(v: &[usize]) -> String {
    if v.is_empty() { return "_".into(); }
    v.iter().map(|i| format!("{:x}", i)).collect::<Vec<_>>().join(",")
}
fn hdr<V: HG>() -> String where Fq<V>: PrimeField {
    format!("{} {} {} {} {:x} {}",
        hex_limbs(<Fq<V> as PrimeField>::MODULUS.as_ref()), fe(&<V::C as SWCurveConfig>::COEFF_A), fe(&<V::C as SWCurveConfig>::COEFF_B),
        hex_limbs(<Fr<V> as PrimeField>::MODULUS.as_ref()), <Big<V> as BigInteger>::NUM_LIMBS, V::NC)
}
fn res<V: HG>(v: &V) -> String where Fq<V>: PrimeField { pt(&v.aff()) }
fn mb<V: HG>(b: &[Aff<V>]) -> Vec<V::MulBase> { b.iter().map(V::base).collect() }

// ---------------------------------------------------------------- ops
/// field-element entry points; `which`: bit 0 msm, bit 1 unchecked, bit 2 chunks
fn e_field<V: HG>(out: &mut Out, bases: &[Aff<V>], scalars: &[Fr<V>], which: u32) where Fq<V>: PrimeField {
    let args = format!("{} {} {}", hdr::<V>(), pts(bases), frs(scalars));
    let b = mb::<V>(bases);
    if which & 1 != 0 {
        out.line(&format!("C05 msm {}", args), &guarded(|| match V::msm(&b, scalars) { Ok(g) => res(&g), Err(n) => format!("err:{:x}", n) }));
    }
    if which & 2 != 0 {
        out.line(&format!("C05 unchecked {}", args), &guarded(|| res(&V::msm_unchecked(&b, scalars))));
    }
    if which & 4 != 0 {
        out.line(&format!("C05 chunks {}", args), &guarded(|| res(&V::msm_chunks(&&b[..], &&scalars[..]))));
    }
}
/// big-integer entry points; `which`: bit 0 msm_bigint, bit 1 hook wnaf, bit 2 hook plain
fn e_big<V: HG>(out: &mut Out, bases: &[Aff<V>], bigints: &[Big<V>], which: u32) where Fq<V>: PrimeField {
    let args = format!("{} {} {}", hdr::<V>(), pts(bases), bigs(bigints));
    let b = mb::<V>(bases);
    if which & 1 != 0 {
        out.line(&format!("C05 bigint {}", args), &guarded(|| res(&V::msm_bigint(&b, bigints))));
    }
    if which & 2 != 0 {
        out.line(&format!("C05 wnaf {}", args), &guarded(|| res(&verif_hooks::msm_bigint_wnaf::<V>(&b, bigints))));
    }
    if which & 4 != 0 {
        out.line(&format!("C05 plain {}", args), &guarded(|| res(&verif_hooks::msm_bigint_plain::<V>(&b, bigints))));
    }
}
fn e_chunkscyc<V: HG>(out: &mut Out, nb: usize, ns: usize, bpat: &[Aff<V>], spat: &[Fr<V>]) where Fq<V>: PrimeField {
    let bases: Vec<V::MulBase> = (0..nb).map(|i| V::base(&bpat[i % bpat.len()])).collect();
    let scalars: Vec<Fr<V>> = (0..ns).map(|i| spat[i % spat.len()]).collect();
    out.line(&format!("C05 chunkscyc {} {:x} {:x} {} {}", hdr::<V>(), nb, ns, pts(bpat), frs(spat)),
        &guarded(|| res(&V::msm_chunks(&&bases[..], &&scalars[..]))));
}
/// accumulators; `which`: bit 0 ChunkedPippenger::new, bit 1 ::with_size, bit 2 HashMapPippenger
fn e_acc<V: HG>(out: &mut Out, buf: usize, bases: &[Aff<V>], scalars: &[Fr<V>], ops: &[usize], which: u32) where Fq<V>: PrimeField {
    let args = format!("{} {:x} {} {} {}", hdr::<V>(), buf, pts(bases), frs(scalars), idxs(ops));
    let b = mb::<V>(bases);
    if which & 1 != 0 {
        out.line(&format!("C05 chunked {}", args), &guarded(|| {
            let mut acc = ChunkedPippenger::<V>::new(buf);
            for &i in ops { acc.add(b[i], scalars[i].into_bigint()); }
            res(&acc.finalize())
        }));
    }
    if which & 2 != 0 {
        out.line(&format!("C05 chunkedws {}", args), &guarded(|| {
            let mut acc = ChunkedPippenger::<V>::with_size(buf);
            for &i in ops { acc.add(&b[i], &scalars[i].into_bigint()); }
            res(&acc.finalize())
        }));
    }
    if which & 4 != 0 {
        out.line(&format!("C05 hashmap {}", args), &guarded(|| {
            let mut acc = HashMapPippenger::<V>::new(buf);
            for &i in ops { acc.add(b[i], scalars[i]); }
            res(&acc.finalize())
        }));
    }
}
fn e_digits<const N: usize>(out: &mut Out, a: [u64; N], w: usize, nb: usize) {
    let b = BigInt::<N>::new(a);
    out.line(&format!("C05 digits {:x} {} {:x} {:x}", N, hex_limbs(&a), w, nb),
        &guarded(|| hex_list_i64(&verif_hooks::make_digits(&b, w, nb))));
}

// ---------------------------------------------------------------- input generators
fn big_from<B: BigInteger>(l: &[u64]) -> B {
    let mut b = B::default();
    for (d, s) in b.as_mut().iter_mut().zip(l) { *d = *s; }
    b
}
/// `F::from(u64)` panics for hand-written multi-limb configurations of a small modulus (noted in DESIGN.md §5)
/// (and so does `from_le_bytes_mod_order`, which uses `F::from(256u64)`): reduce by hand and use `from_bigint`
fn fu<F: PrimeField>(k: u64) -> F {
    let k = if F::MODULUS.num_bits() <= 64 { k % F::MODULUS.as_ref()[0] } else { k };
    F::from_bigint(F::BigInt::from(k)).unwrap()
}
fn rand_fr<F: PrimeField>(rng: &mut Rng) -> F {
    if F::MODULUS.num_bits() <= 64 { return fu(rng.next()); }
    let n = <F::BigInt as BigInteger>::NUM_LIMBS;
    let bytes: Vec<u8> = (0..n + 1).flat_map(|_| rng.next().to_le_bytes()).collect();
    F::from_le_bytes_mod_order(&bytes)
}
/// scalar patterns: 0 zeros, 1 ones, 2 r-1, 3 random, 4 mixture of edge values and random, 5 small (< 8)
const N_SK: u32 = 6;
fn scalar_pattern<F: PrimeField>(rng: &mut Rng, kind: u32, len: usize) -> Vec<F> {
    let rm1 = -F::one();
    (0..len).map(|_| match kind {
        0 => F::zero(),
        1 => F::one(),
        2 => rm1,
        3 => rand_fr(rng),
        5 => fu(rng.below(8)),
        _ => match rng.below(10) {
            0 => F::zero(), 1 => F::one(), 2 => rm1, 3 => rm1 - F::one(), 4 => fu::<F>(2),
            5 => fu::<F>(2).pow([rng.below(F::MODULUS_BIT_SIZE as u64 - 1)]),
            6 => fu::<F>(2).pow([rng.below(F::MODULUS_BIT_SIZE as u64 - 1)]) - F::one(),
            _ => rand_fr(rng),
        },
    }).collect()
}
/// big-integer patterns beyond the field: 0 = r, r+1, … wrap of the field values by +r where it fits,
/// 1 = random full width, 2 = all ones / 2^numBits / 2^numBits − 1 / top bit, 3 = field values (in range)
const N_BK: u32 = 4;
fn big_pattern<F: PrimeField>(rng: &mut Rng, kind: u32, len: usize) -> Vec<F::BigInt> {
    let n = <F::BigInt as BigInteger>::NUM_LIMBS;
    let nb = F::MODULUS_BIT_SIZE as usize;
    (0..len).map(|_| match kind {
        0 => { let mut b = rand_fr::<F>(rng).into_bigint(); if rng.below(4) == 0 { b = F::BigInt::from(rng.below(3)); }
               let mut c = b; let carry = c.add_with_carry(&F::MODULUS); if carry { b } else { c } }
        1 => big_from(&(0..n).map(|_| rng.next()).collect::<Vec<_>>()),
        2 => { let mut l = vec![0u64; n];
               match rng.below(5) {
                   0 => { for x in l.iter_mut() { *x = u64::MAX; } }
                   1 => { if nb < 64 * n { l[nb / 64] = 1 << (nb % 64); } else { l[n - 1] = 1 << 63; } }
                   2 => { for i in 0..nb { l[i / 64] |= 1 << (i % 64); } }
                   3 => { l[n - 1] = 1 << 63; }
                   _ => { l[0] = 1; if nb < 64 * n { l[nb / 64] |= 1 << (nb % 64); } }
               }
               big_from(&l) }
        _ => scalar_pattern::<F>(rng, 4, 1)[0].into_bigint(),
    }).collect()
}
/// base patterns over a pool of affine points: 0 random, 1 all the same, 2 all identity, 3 mixture with identity,
/// repeats and opposite pairs
const N_BP: u32 = 4;
fn base_pattern<P: SWCurveConfig>(rng: &mut Rng, pool: &[Affine<P>], kind: u32, len: usize) -> Vec<Affine<P>> {
    let pick = |rng: &mut Rng| pool[rng.below(pool.len() as u64) as usize];
    let same = pick(rng);
    let mut v: Vec<Affine<P>> = Vec::with_capacity(len);
    for i in 0..len {
        let p = match kind {
            0 => pick(rng),
            1 => same,
            2 => Affine::<P>::identity(),
            _ => match rng.below(6) {
                0 => Affine::<P>::identity(),
                1 if i > 0 => v[rng.below(i as u64) as usize],
                2 if i > 0 => -v[rng.below(i as u64) as usize],
                3 => same,
                _ => pick(rng),
            },
        };
        v.push(p);
    }
    v
}
/// all affine points of a toy curve (incl. the identity first)
fn all_points<P: SWCurveConfig>() -> Vec<Affine<P>> where P::BaseField: PrimeField {
    let q = <P::BaseField as PrimeField>::MODULUS.as_ref()[0];
    let mut v = vec![Affine::<P>::identity()];
    for x in 0..q { for y in 0..q {
        let (x, y) = (fu::<P::BaseField>(x), fu::<P::BaseField>(y));
        if y * y == x * x * x + P::COEFF_A * x + P::COEFF_B { v.push(Affine::<P>::new_unchecked(x, y)); }
    } }
    v
}
/// a pool of points of a shipped curve: multiples of the generator (incl. G, 2G, −G) and the identity
fn real_pool<P: SWCurveConfig>(rng: &mut Rng, n: usize) -> Vec<Affine<P>> {
    let g = Projective::<P>::generator();
    let mut v = vec![g, g + g, -g];
    let mut cur = g * rand_fr::<P::ScalarField>(rng);
    let step = g * rand_fr::<P::ScalarField>(rng);
    while v.len() < n { v.push(cur); cur += step; }
    let mut a = Projective::<P>::normalize_batch(&v);
    a.push(Affine::<P>::identity());
    a
}

const LENS_Q: &[usize] = &[0, 1, 2, 3, 4, 7, 8, 9, 31, 32, 33, 63, 64, 65, 100];
const LENS_T: &[usize] = &[5, 6, 15, 16, 17, 30, 34, 127, 128, 129, 255, 256, 257, 1023, 1024, 1025];
const MISMATCH: &[(usize, usize)] = &[(0, 1), (1, 0), (0, 5), (5, 0), (1, 2), (2, 1), (2, 3), (3, 2), (7, 9), (31, 32), (32, 31),
    (32, 33), (33, 32), (31, 40), (40, 31), (33, 100), (100, 33), (64, 65), (65, 64)];

/// the shape suite on one group: every length × base pattern × scalar pattern, mismatched lengths, big integers.
/// `level` 0 = toy curve (everything), 1 = shipped curve thorough, 2 = shipped curve quick (the driver follows
/// shipped curves at ≈ 30 µs per affine addition, so the quick tier keeps only a few long vectors there)
fn shapes<V: HG>(out: &mut Out, rng: &mut Rng, pool: &[Aff<V>], lens: &[usize], reps: usize, level: u8) where Fq<V>: PrimeField {
    let toy = level == 0;
    for &len in lens {
        for bk in 0..N_BP { for sk in 0..N_SK { for rep in 0..reps {
            if rep > 0 && bk == 2 && sk < 3 { continue; }
            let cheap = sk == 0 || sk == 1 || sk == 5 || bk == 2;      // cheap for the driver: tiny scalars / identity bases
            if level == 1 && len > 4 && !(bk == 0 && sk == 3 || bk == 3 && sk == 4 || bk == 1 && sk == 2 || bk == 2 && sk == 3 || bk == 0 && sk == 0 || bk == 0 && sk == 1) { continue; }
            if level == 2 && len > 4 && !(bk == 3 && sk == 4 || (len <= 33 && bk == 0 && sk == 1)) { continue; }
            if level == 2 && len <= 4 && !(cheap || bk == 0 && sk == 3 || bk == 3 && sk == 4 || bk == 1 && sk == 2) { continue; }
            let bases = base_pattern(rng, pool, bk, len);
            let scalars = scalar_pattern::<Fr<V>>(rng, sk, len);
            // field entry points: all three on toy curves, rotating on shipped curves
            let wf = if toy || len <= 2 && (level == 1 || cheap) { 7 } else { 1 << ((bk + sk + rep as u32 + len as u32) % 3) };
            e_field::<V>(out, &bases, &scalars, wf);
            // the two bucket methods on the same input (the public entry points above run the signed-digit method)
            let bigs: Vec<Big<V>> = scalars.iter().map(|s| s.into_bigint()).collect();
            let wb = if toy || len <= 4 && level == 1 { 6 } else if level == 2 && !cheap { 4 } else if len > 40 { 2 << ((bk + sk) % 2) } else { 6 };
            e_big::<V>(out, &bases, &bigs, wb);
        } } }
        // big integers outside the field
        for bkind in 0..N_BK {
            if level == 1 && len > 33 || level == 2 && !(len == 1 || len == 2) { continue; }
            let bases = base_pattern(rng, pool, if bkind == 2 { 1 } else { 0 }, len);
            let bigs = big_pattern::<Fr<V>>(rng, bkind, len);
            e_big::<V>(out, &bases, &bigs, if level == 2 { 1 | (2 << (bkind % 2)) } else { 7 });
        }
    }
    for &(bl, sl) in MISMATCH {
        if level == 1 && bl.max(sl) > 40 || level == 2 && bl.max(sl) > 3 { continue; }
        let bases = base_pattern(rng, pool, 3, bl);
        let scalars = scalar_pattern::<Fr<V>>(rng, 4, sl);
        e_field::<V>(out, &bases, &scalars, 7);
        let bigs = big_pattern::<Fr<V>>(rng, 3, sl);
        e_big::<V>(out, &bases, &bigs, if level == 2 { 1 } else { 7 });
    }
}

/// all sequences over `0..k` of length `0..=maxlen`
fn sequences(k: usize, maxlen: usize) -> Vec<Vec<usize>> {
    let mut all: Vec<Vec<usize>> = vec![vec![]];
    let mut layer: Vec<Vec<usize>> = vec![vec![]];
    for _ in 0..maxlen {
        let mut next = Vec::new();
        for s in &layer { for i in 0..k { let mut t = s.clone(); t.push(i); next.push(t); } }
        all.extend(next.iter().cloned());
        layer = next;
    }
    all
}
/// every add history over the alphabet (bases[i], scalars[i]) up to `maxlen` adds × buffer sizes 1..=9
fn histories<V: HG>(out: &mut Out, bases: &[Aff<V>], scalars: &[Fr<V>], maxlen: usize, ws_len: usize) where Fq<V>: PrimeField {
    for ops in sequences(bases.len(), maxlen) {
        for buf in 1..=9usize {
            e_acc::<V>(out, buf, bases, scalars, &ops, if ops.len() <= ws_len { 7 } else { 5 });
        }
        if ops.len() <= 3 { e_acc::<V>(out, 0, bases, scalars, &ops, 7); }
    }
}
fn random_histories<V: HG>(out: &mut Out, rng: &mut Rng, pool: &[Aff<V>], count: usize, maxlen: usize) where Fq<V>: PrimeField {
    for _ in 0..count {
        let k = 1 + rng.below(5) as usize;
        let bases = base_pattern(rng, pool, 3, k);
        let scalars = scalar_pattern::<Fr<V>>(rng, 4, k);
        let len = rng.below(maxlen as u64 + 1) as usize;
        let ops: Vec<usize> = (0..len).map(|_| rng.below(k as u64) as usize).collect();
        let buf = rng.below(len as u64 + 2) as usize;
        e_acc::<V>(out, buf, &bases, &scalars, &ops, 7);
    }
}

/// exhaustive small cases on a toy curve: every (point, scalar) vector of length 1, and of length 2 (3) up to a cap
fn exhaustive<V: HG>(out: &mut Out, rng: &mut Rng, maxlen: usize, cap: usize) where Fq<V>: PrimeField {
    let pool = all_points::<V::C>();
    let r = <Fr<V> as PrimeField>::MODULUS.as_ref()[0];
    let pairs: Vec<(Aff<V>, Fr<V>)> = pool.iter().flat_map(|p| (0..r).map(move |k| (*p, fu::<Fr<V>>(k)))).collect();
    let n = pairs.len();
    for l in 1..=maxlen {
        let total = n.pow(l as u32);
        let all = total <= cap;
        let count = if all { total } else { cap };
        for j in 0..count {
            let mut idx = if all { j } else { rng.below(total as u64) as usize };
            let mut bases = Vec::new(); let mut scalars = Vec::new();
            for _ in 0..l { let (p, k) = pairs[idx % n]; idx /= n; bases.push(p); scalars.push(k); }
            e_field::<V>(out, &bases, &scalars, if l == 1 { 7 } else { 1 << (j % 3) });
            let bigs: Vec<Big<V>> = scalars.iter().map(|s| s.into_bigint()).collect();
            e_big::<V>(out, &bases, &bigs, 6);
        }
    }
}

fn toy<V: HG>(out: &mut Out, rng: &mut Rng, a: &arkharness::Args, name: &str, order: usize, ex_len: usize, ex_cap: usize, hist_len: usize) where Fq<V>: PrimeField {
    if let Some(o) = &a.only { if o != name { return; } }
    let pool = all_points::<V::C>();
    assert_eq!(pool.len(), order, "{}: group order", name);
    assert!(pool.contains(&<V::C as SWCurveConfig>::GENERATOR), "{}: generator", name);
    exhaustive::<V>(out, rng, ex_len, ex_cap);
    shapes::<V>(out, rng, &pool, LENS_Q, if a.thorough { 3 } else { 1 }, 0);
    if a.thorough { shapes::<V>(out, rng, &pool, LENS_T, 1, 0); }
    if hist_len > 0 {
        let g = <V::C as SWCurveConfig>::GENERATOR;
        let q = (g.into_group() + g).into_affine();
        let one = fu::<Fr<V>>(1);
        // A1: the same base twice with scalars summing to r (a zero entry in the hash map), and a second base
        histories::<V>(out, &[g, g, q], &[one, -one, fu::<Fr<V>>(5)], hist_len, 4);
        // A2: identity base, zero scalar, opposite base
        histories::<V>(out, &[Aff::<V>::identity(), g, -g], &[fu::<Fr<V>>(3), Fr::<V>::zero(), fu::<Fr<V>>(2)], hist_len - 1, 0);
        // A3: random alphabet of four pairs
        let b = base_pattern(rng, &pool, 3, 4);
        let s = scalar_pattern::<Fr<V>>(rng, 4, 4);
        histories::<V>(out, &b, &s, hist_len - 2, 0);
        random_histories::<V>(out, rng, &pool, if a.thorough { 3000 } else { 300 }, 40);
    }
}
fn real<V: HG>(out: &mut Out, rng: &mut Rng, a: &arkharness::Args, name: &str) where Fq<V>: PrimeField {
    if let Some(o) = &a.only { if o != name { return; } }
    let pool = real_pool::<V::C>(rng, 24);
    if a.thorough { shapes::<V>(out, rng, &pool, LENS_Q, 1, 1); } else { shapes::<V>(out, rng, &pool, &[0, 1, 2, 3, 4, 31, 32, 33], 1, 2); }
    if a.thorough {
        for &len in &[128usize, 1024] {
            let big_pool = real_pool::<V::C>(rng, len);
            let scalars = scalar_pattern::<Fr<V>>(rng, 4, len);
            e_field::<V>(out, &big_pool[..len], &scalars, 1);
            let bigs: Vec<Big<V>> = scalars.iter().map(|s| s.into_bigint()).collect();
            e_big::<V>(out, &big_pool[..len], &bigs, 4);
        }
    }
    random_histories::<V>(out, rng, &pool, if a.thorough { 60 } else { 4 }, if a.thorough { 10 } else { 5 });
}

/// a few public-entry-point calls on a shipped curve through the NEGATION_IS_CHEAP = false wrapper
fn real_slow<V: HG>(out: &mut Out, rng: &mut Rng, a: &arkharness::Args, name: &str) where Fq<V>: PrimeField {
    if let Some(o) = &a.only { if o != name { return; } }
    let pool = real_pool::<V::C>(rng, 40);
    let lens: &[usize] = if a.thorough { &[0, 1, 2, 3, 31, 32, 33, 100] } else { &[0, 1, 2, 32] };
    for &len in lens {
        let bases = base_pattern(rng, &pool, 3, len);
        let scalars = scalar_pattern::<Fr<V>>(rng, 4, len);
        e_field::<V>(out, &bases, &scalars, if len <= 2 { 7 } else { 1 << (len % 3) });
        if len <= 2 || a.thorough {
            let bigs: Vec<Big<V>> = scalars.iter().map(|s| s.into_bigint()).collect();
            e_big::<V>(out, &bases, &bigs, 1);
        }
    }
    let bases = base_pattern(rng, &pool, 3, 2);
    e_field::<V>(out, &bases, &scalar_pattern::<Fr<V>>(rng, 4, 3), 7);
    e_field::<V>(out, &bases[..1], &scalar_pattern::<Fr<V>>(rng, 4, 0), 7);
    random_histories::<V>(out, rng, &pool, if a.thorough { 30 } else { 3 }, if a.thorough { 10 } else { 4 });
}

fn digits_suite(out: &mut Out, rng: &mut Rng, thorough: bool) {
    // exhaustive: one limb, every a < 2^10, w = 1..=6, num_bits = 10 and 0 (= a.num_bits())
    for a in 0..1024u64 { for w in 1..=6usize { e_digits::<1>(out, [a], w, 10); e_digits::<1>(out, [a], w, 0); } }
    // window sizes the MSM can use (c = 3, ln+2 up to 46) and the extremes 1, 62; num_bits of shipped scalar fields
    const WS: &[usize] = &[1, 2, 3, 4, 5, 6, 7, 8, 9, 10, 11, 12, 13, 15, 16, 17, 20, 21, 31, 32, 33, 46, 61, 62];
    fn run<const N: usize>(out: &mut Out, rng: &mut Rng, extra: usize, nbs: &[usize]) {
        for a in edge_values::<N>(rng, extra) {
            for &w in WS { for &nb in nbs { e_digits::<N>(out, a, w, nb); } }
        }
    }
    let x = if thorough { 200 } else { 20 };
    run::<1>(out, rng, x, &[0, 1, 3, 61, 63, 64]);
    run::<2>(out, rng, x, &[0, 4, 64, 65, 127, 128]);
    run::<4>(out, rng, x, &[0, 8, 253, 255, 256]);
    run::<6>(out, rng, x, &[0, 377, 381, 384]);
    if thorough { run::<12>(out, rng, 50, &[0, 753, 768]); }
    // outside the property's domain: w = 0 (div_ceil by zero) and num_bits beyond the limbs (recorded as notes)
    e_digits::<1>(out, [5], 0, 3);
    e_digits::<1>(out, [5], 3, 70);
    e_digits::<2>(out, [5, 1 << 63], 5, 200);
    e_digits::<1>(out, [u64::MAX], 3, 66);
}

fn main() {
    let a = arkharness::args();
    if std::env::var("C05_DEBUG").is_ok() { std::panic::set_hook(Box::new(|i| eprintln!("{}", i))); }
    let mut rng = Rng::new(a.seed);
    let mut out = Out::new();
    let (o, r) = (&mut out, &mut rng);
    let th = a.thorough;
    if a.only.as_deref().map_or(true, |s| s == "digits") { digits_suite(o, r, th); }
    // toy curves: exhaustive small vectors, the whole shape suite, every add history
    toy::<Projective<T13R7>>(o, r, &a, "T13R7", 7, if th { 3 } else { 2 }, if th { 120000 } else { 2401 }, if th { 8 } else { 6 });
    toy::<Projective<T13R13>>(o, r, &a, "T13R13", 13, 2, if th { 40000 } else { 1500 }, if th { 8 } else { 6 });
    toy::<Projective<T13R13X2>>(o, r, &a, "T13R13X2", 13, 2, if th { 4000 } else { 400 }, 0);
    toy::<Projective<T13R7H2>>(o, r, &a, "T13R7H2", 14, 2, if th { 9604 } else { 1500 }, if th { 6 } else { 5 });
    toy::<Projective<T127R127>>(o, r, &a, "T127R127", 127, 2, if th { 4000 } else { 400 }, 0);
    toy::<Projective<T251R257>>(o, r, &a, "T251R257", 257, 2, if th { 4000 } else { 400 }, if th { 6 } else { 0 });
    toy::<Projective<T257R251X4>>(o, r, &a, "T257R251X4", 251, 2, if th { 4000 } else { 400 }, if th { 6 } else { 4 });
    // the same through a group type with NEGATION_IS_CHEAP = false (public entry points run the plain-bucket method)
    toy::<SlowG<T13R7>>(o, r, &a, "T13R7-slow", 7, 2, if th { 2401 } else { 600 }, if th { 7 } else { 5 });
    toy::<SlowG<T13R13X2>>(o, r, &a, "T13R13X2-slow", 13, 2, if th { 4000 } else { 400 }, if th { 6 } else { 4 });
    toy::<SlowG<T251R257>>(o, r, &a, "T251R257-slow", 257, 1, 300, if th { 6 } else { 4 });
    // more than one step of msm_chunks (step = 2^20)
    if th && a.only.as_deref().map_or(true, |s| s == "chunkscyc") {
        let pool = all_points::<T13R7>();
        let sp = scalar_pattern::<FDT7>(r, 5, 7);
        e_chunkscyc::<Projective<T13R7>>(o, (1 << 20) + 5, (1 << 20) + 5, &pool[1..6], &sp);
        e_chunkscyc::<Projective<T13R7>>(o, (1 << 20) + 9, (1 << 20) + 2, &pool[..5], &sp);
    }
    if a.only.as_deref().map_or(true, |s| s == "chunkscyc") {
        let pool = all_points::<T13R7>();
        let sp = scalar_pattern::<FDT7>(r, 5, 7);
        e_chunkscyc::<Projective<T13R7>>(o, 50, 50, &pool[1..6], &sp);
        e_chunkscyc::<Projective<T13R7>>(o, 60, 50, &pool[1..6], &sp);
        e_chunkscyc::<Projective<T13R7>>(o, 50, 60, &pool[1..6], &sp);
    }
    // shipped curves
    use ark_test_curves::{bls12_381, secp256k1};
    real::<Projective<bls12_381::g1::Config>>(o, r, &a, "bls12_381_g1");
    real::<Projective<secp256k1::Config>>(o, r, &a, "secp256k1");
    real_slow::<SlowG<bls12_381::g1::Config>>(o, r, &a, "bls12_381_g1-slow");
    out.flush();
}
