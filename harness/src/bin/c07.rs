//! C07: evaluation domains (radix-2, mixed-radix, general), FFT/IFFT, cosets, vanishing and
//! Lagrange evaluation, filter polynomials, re-indexing — the real `ark-poly` API on structured
//! inputs; one `C07 <op> … => <result>` line per call (see lean/Ark/Model/DrvC07.lean).
#![allow(dead_code, deprecated, clippy::all)]
use ark_ff::{FftField, Fp, MontBackend, MontConfig, PrimeField};
use ark_poly::domain::radix2::bitreverse_permutation_in_place;
use ark_poly::{
    EvaluationDomain, Evaluations, GeneralEvaluationDomain, MixedRadixEvaluationDomain,
    Radix2EvaluationDomain,
};
use arkharness::util::*;

// ---------------------------------------------------------------- toy mixed-radix fields
macro_rules! toy {
    ($cfg:ident, $ty:ident, $p:expr, $g:expr, $b:expr, $k:expr) => {
        #[derive(MontConfig)]
        #[modulus = $p]
        #[generator = $g]
        #[small_subgroup_base = $b]
        #[small_subgroup_power = $k]
        pub struct $cfg;
        pub type $ty = Fp<MontBackend<$cfg, 1>, 1>;
    };
}
toy!(C109, M109, "109", "6", "3", "3"); // 108  = 2^2·3^3
toy!(C163, M163, "163", "2", "3", "4"); // 162  = 2·3^4
toy!(C197, M197, "197", "2", "7", "2"); // 196  = 2^2·7^2
toy!(C401, M401, "401", "3", "5", "2"); // 400  = 2^4·5^2
toy!(C2593, M2593, "2593", "7", "3", "4"); // 2592 = 2^5·3^4
toy!(C2593B, M2593B, "2593", "7", "3", "2"); // declared small subgroup 3^2 < 3^4

// ---------------------------------------------------------------- printing
fn h<F: PrimeField>(x: &F) -> String {
    hex_limbs(x.into_bigint().as_ref())
}
fn hl<F: PrimeField>(v: &[F]) -> String {
    if v.is_empty() {
        return "_".into();
    }
    v.iter().map(|x| h(x)).collect::<Vec<_>>().join(",")
}
fn rnd<F: PrimeField>(rng: &mut Rng) -> F {
    let n = ((F::MODULUS_BIT_SIZE as usize) + 7) / 8 + 8;
    let mut b = vec![0u8; n];
    for c in b.chunks_mut(8) {
        let w = rng.next().to_le_bytes();
        let l = c.len();
        c.copy_from_slice(&w[..l]);
    }
    F::from_le_bytes_mod_order(&b)
}
/// random non-zero element (coset offsets)
fn rnz<F: PrimeField>(rng: &mut Rng) -> F {
    loop { let x = rnd::<F>(rng); if !x.is_zero() { return x; } }
}
/// random vector with a sprinkling of 0, 1, p-1
fn rvec<F: PrimeField>(rng: &mut Rng, len: usize) -> Vec<F> {
    (0..len)
        .map(|_| match rng.below(16) {
            0 => F::zero(),
            1 => F::one(),
            2 => -F::one(),
            _ => rnd(rng),
        })
        .collect()
}

trait Dom<F: FftField + PrimeField>: EvaluationDomain<F> {
    const K: &'static str;
    fn show(&self) -> String;
}
fn show9<F: PrimeField>(tag: &str, size: u64, log: u32, f: [&F; 7]) -> String {
    format!(
        "{} {:x} {:x} {} {} {} {} {} {} {}",
        tag, size, log, h(f[0]), h(f[1]), h(f[2]), h(f[3]), h(f[4]), h(f[5]), h(f[6])
    )
}
impl<F: FftField + PrimeField> Dom<F> for Radix2EvaluationDomain<F> {
    const K: &'static str = "r";
    fn show(&self) -> String {
        show9("r", self.size, self.log_size_of_group,
            [&self.size_as_field_element, &self.size_inv, &self.group_gen, &self.group_gen_inv, &self.offset, &self.offset_inv, &self.offset_pow_size])
    }
}
impl<F: FftField + PrimeField> Dom<F> for MixedRadixEvaluationDomain<F> {
    const K: &'static str = "m";
    fn show(&self) -> String {
        show9("m", self.size, self.log_size_of_group,
            [&self.size_as_field_element, &self.size_inv, &self.group_gen, &self.group_gen_inv, &self.offset, &self.offset_inv, &self.offset_pow_size])
    }
}
impl<F: FftField + PrimeField> Dom<F> for GeneralEvaluationDomain<F> {
    const K: &'static str = "g";
    fn show(&self) -> String {
        match self {
            GeneralEvaluationDomain::Radix2(d) => d.show(),
            GeneralEvaluationDomain::MixedRadix(d) => d.show(),
        }
    }
}

fn opt_dom<F: FftField + PrimeField, D: Dom<F>>(d: Option<D>) -> String {
    match d {
        Some(d) => d.show(),
        None => "none".into(),
    }
}

struct Caps {
    all_len: usize,    // every input length 0..=size for sizes up to this
    edge_max: usize,   // edge lengths for sizes up to this
    point_max: usize,  // vanishing / Lagrange / filter sizes
    light: bool,       // only domain construction + a few transforms
    exhaustive: bool,  // enumerate every coefficient vector (tiny fields)
}

/// candidate domain sizes of the field's subgroup family, ascending
fn family<F: FftField>(max: usize) -> Vec<usize> {
    let mut v = Vec::new();
    let (q, k) = match (F::SMALL_SUBGROUP_BASE, F::SMALL_SUBGROUP_BASE_ADICITY) {
        (Some(q), Some(k)) => (q as u128, k),
        _ => (1, 0),
    };
    for b in 0..=k {
        for a in 0..=F::TWO_ADICITY.min(40) {
            let m = (1u128 << a) * q.pow(b);
            if m <= max as u128 {
                v.push(m as usize);
            }
        }
    }
    v.sort();
    v.dedup();
    v
}

fn edge_lens(size: usize) -> Vec<usize> {
    let mut v = vec![0usize, 1, 2, 3, 5, size / 8, size / 8 + 1, (size / 4).saturating_sub(1), size / 4, size / 4 + 1, size / 2, size.saturating_sub(1), size];
    v.retain(|&l| l <= size);
    v.sort();
    v.dedup();
    v
}

fn offsets<F: FftField + PrimeField, D: Dom<F>>(d: &D, rng: &mut Rng) -> Vec<F> {
    vec![F::one(), F::GENERATOR, rnz(rng), d.group_gen()]
}

fn transforms<F: FftField + PrimeField, D: Dom<F>>(id: &str, d: &D, off: F, c: &[F], which: u8, out: &mut Out) {
    let size = d.size();
    let cd = match d.get_coset(off) {
        Some(cd) => cd,
        None => return,
    };
    let pfx = format!("{} {} {:x} {}", id, D::K, size, h(&off));
    let long = c.len() > size;
    let cs = hl(c);
    if which & 1 != 0 {
        out.line(&format!("C07 {} {} {}", if long { "fftlong" } else { "fft" }, pfx, cs), &guarded(|| hl(&cd.fft(c))));
    }
    if which & 2 != 0 {
        out.line(&format!("C07 {} {} {}", if long { "ifftlong" } else { "ifft" }, pfx, cs), &guarded(|| hl(&cd.ifft(c))));
    }
    if which & 4 != 0 && !long {
        out.line(&format!("C07 rt {} {}", pfx, cs), &guarded(|| hl(&cd.ifft(&cd.fft(c)))));
    }
    if which & 8 != 0 && !long {
        let r = guarded(|| {
            let e = Evaluations::from_vec_and_domain(c.to_vec(), cd);
            let p = if c.len() % 2 == 0 { e.interpolate_by_ref() } else { e.interpolate() };
            hl(&p.coeffs)
        });
        out.line(&format!("C07 interp {} {}", pfx, cs), &r);
    }
}

fn points<F: FftField + PrimeField, D: Dom<F>>(d: &D, cd: &D, rng: &mut Rng) -> Vec<F> {
    let n = d.size();
    let mut t = vec![F::zero(), F::one(), -F::one(), cd.element(0), cd.element(1), cd.element(n - 1), cd.element(n / 2), d.element(1), d.element(n - 1), rnd(rng), rnd(rng)];
    if n <= 16 {
        for x in cd.elements() {
            t.push(x);
        }
    }
    let mut seen: Vec<String> = Vec::new();
    t.retain(|x| {
        let s = h(x);
        if seen.contains(&s) { false } else { seen.push(s); true }
    });
    t
}

fn kind_ops<F: FftField + PrimeField, D: Dom<F>>(id: &str, caps: &Caps, thorough: bool, rng: &mut Rng, out: &mut Out) {
    let has_small = F::SMALL_SUBGROUP_BASE.is_some();
    // ---- construction
    let mut ns: Vec<usize> = (0..=70).collect();
    for m in family::<F>(1 << 36) {
        ns.extend_from_slice(&[m.saturating_sub(1), m, m + 1]);
    }
    for j in 0..=(F::TWO_ADICITY + 2).min(62) {
        let m = 1usize << j;
        ns.extend_from_slice(&[m - 1, m, m + 1]);
    }
    ns.push(1usize << 63);
    if D::K == "r" || !has_small {
        // (`MixedRadixEvaluationDomain::new(n)` does not return for n > 2^63 in release builds: `r *= 2` wraps to 0)
        ns.push((1usize << 63) + 1);
        ns.push(usize::MAX);
    }
    ns.sort();
    ns.dedup();
    for &n in &ns {
        out.line(&format!("C07 new {} {} {:x}", id, D::K, n), &guarded(|| opt_dom::<F, D>(D::new(n))));
        out.line(&format!("C07 csize {} {} {:x}", id, D::K, n), &guarded(|| match D::compute_size_of_domain(n) { Some(s) => format!("{:x}", s), None => "none".into() }));
    }
    if D::K == "m" && !has_small {
        return;
    }
    // ---- the domains of this kind
    let kcap = if F::MODULUS_BIT_SIZE > 128 && !thorough && D::K != "r" { caps.edge_max.min(512) } else { caps.edge_max };
    let sizes: Vec<usize> = family::<F>(kcap).into_iter().filter(|&m| D::new(m).map(|d| d.size() == m).unwrap_or(false)).collect();
    for &m in sizes.iter().filter(|&&m| m <= 64 || m == 1024) {
        let d = D::new(m).unwrap();
        for off in [F::zero(), F::one(), F::GENERATOR, -F::one(), rnz(rng), d.group_gen()] {
            out.line(&format!("C07 coset {} {} {:x} {}", id, D::K, m, h(&off)), &guarded(|| opt_dom::<F, D>(d.get_coset(off))));
        }
        for off in [F::one(), F::GENERATOR, rnz(rng)] {
            let cd = d.get_coset(off).unwrap();
            let pfx = format!("{} {} {:x} {}", id, D::K, m, h(&off));
            out.line(&format!("C07 elems {}", pfx), &guarded(|| hl(&cd.elements().collect::<Vec<_>>())));
            let mut is: Vec<usize> = if m <= 16 { (0..m + 3).collect() } else { vec![0, 1, 2, m / 2, m - 1, m, m + 1] };
            is.push(1 << 40);
            is.push(rng.next() as usize);
            for i in is {
                out.line(&format!("C07 elem {} {:x}", pfx, i), &guarded(|| h(&cd.element(i))));
            }
        }
    }
    // ---- transforms
    let general = D::K == "g";
    let big = F::MODULUS_BIT_SIZE > 128;
    let top: Vec<usize> = sizes.iter().rev().take(2).copied().collect();
    for &m in &sizes {
        if general && m > 64 && !top.contains(&m) { continue; } // dispatch only: the code paths are those of kinds r / m
        let d = D::new(m).unwrap();
        let offs = offsets::<F, D>(&d, rng);
        if caps.exhaustive && m <= 4 {
            // every coefficient vector of every length 0..=m
            let p: u64 = F::MODULUS.as_ref()[0];
            for len in 0..=m {
                let total = p.pow(len as u32);
                for code in 0..total {
                    let mut c = Vec::with_capacity(len);
                    let mut t = code;
                    for _ in 0..len { c.push(F::from(t % p)); t /= p; }
                    for off in [F::one(), F::GENERATOR] {
                        transforms::<F, D>(id, &d, off, &c, 3, out);
                    }
                }
            }
            continue;
        }
        if m <= caps.all_len && !(general && (m > 16 || (big && !thorough))) && !caps.light {
            for len in 0..=m {
                for (oi, off) in offs.iter().enumerate() {
                    if m > 16 && oi != len % 3 { continue; }
                    if m <= 16 && oi == 3 && len % 4 != 0 { continue; }
                    let c = rvec::<F>(rng, len);
                    transforms::<F, D>(id, &d, *off, &c, if m <= 32 { 7 } else { 3 }, out);
                }
            }
            // structured inputs: zero vector, unit vectors, constant evaluations (degree-0 interpolant)
            for off in [F::one(), F::GENERATOR] {
                transforms::<F, D>(id, &d, off, &vec![F::zero(); m], 15, out);
                transforms::<F, D>(id, &d, off, &vec![-F::one(); m], 15, out);
                let mut e = vec![F::zero(); m]; e[m - 1] = F::one();
                transforms::<F, D>(id, &d, off, &e, 15, out);
                let mut e = vec![F::zero(); m]; e[0] = F::one();
                transforms::<F, D>(id, &d, off, &e, 15, out);
                // evaluations of a polynomial of low degree: interpolation must trim
                let low = rvec::<F>(rng, (m / 2).max(1));
                let ev = d.get_coset(off).unwrap().fft(&low);
                transforms::<F, D>(id, &d, off, &ev, 10, out);
                for len in [0usize, 1, m / 2, m] {
                    let c = rvec::<F>(rng, len);
                    transforms::<F, D>(id, &d, off, &c, 8, out);
                }
            }
            // longer than the domain
            for len in [m + 1, m + 3, 2 * m, 4 * m + 1] {
                let c = rvec::<F>(rng, len);
                transforms::<F, D>(id, &d, offs[len % 2], &c, 3, out);
            }
        } else {
            let lens = if caps.light || (big && !thorough && general) { vec![0, 1, m / 4, m / 4 + 1, m] } else if big && !thorough { vec![0, 1, m / 8 + 1, m / 4, m / 4 + 1, m] } else { edge_lens(m) };
            for (li, &len) in lens.iter().enumerate() {
                let c = rvec::<F>(rng, len);
                let off = offs[li % 3];
                transforms::<F, D>(id, &d, off, &c, if thorough && !general { 7 } else if li % 2 == 0 { 1 | 4 } else { 1 | 2 }, out);
            }
            if !caps.light {
                let c = rvec::<F>(rng, m + 1);
                transforms::<F, D>(id, &d, offs[1], &c, 3, out);
            }
        }
    }
    if general || caps.light {
        return;
    }
    // ---- vanishing polynomial, Lagrange coefficients
    let big_quick = F::MODULUS_BIT_SIZE > 128 && !thorough; // quick tier: the O(n²) size-256 Lagrange check only on the small fields
    for &m in sizes.iter().filter(|&&m| m <= caps.point_max || (m == 256 && !big_quick) || (thorough && m == 1024)) {
        let d = D::new(m).unwrap();
        for off in [F::one(), F::GENERATOR, rnz(rng)] {
            let cd = d.get_coset(off).unwrap();
            let pfx = format!("{} {} {:x} {}", id, D::K, m, h(&off));
            out.line(&format!("C07 vanish {}", pfx), &guarded(|| {
                let z = cd.vanishing_polynomial();
                let v: Vec<String> = z.iter().map(|(i, c)| format!("{:x}:{}", i, h(c))).collect();
                if v.is_empty() { "_".into() } else { v.join(",") }
            }));
            let mut pts = points::<F, D>(&d, &cd, rng);
            if m > 64 { pts.truncate(6); pts.push(rnd(rng)); } else if m > 16 && !thorough { pts.truncate(6); pts.push(rnd(rng)); }
            for tau in pts {
                out.line(&format!("C07 vanishat {} {}", pfx, h(&tau)), &guarded(|| h(&cd.evaluate_vanishing_polynomial(tau))));
                out.line(&format!("C07 lagrange {} {}", pfx, h(&tau)), &guarded(|| hl(&cd.evaluate_all_lagrange_coefficients(tau))));
            }
        }
    }
    // ---- filter polynomial, re-indexing
    let small: Vec<usize> = sizes.iter().copied().filter(|&m| m <= if thorough { 36 } else if big_quick { 12 } else { 18 }).collect();
    for &n in &small {
        let d = D::new(n).unwrap();
        for &m in sizes.iter().filter(|&&m| m <= 2 * n.max(2)) {
            let s = D::new(m).unwrap();
            // re-indexing
            let mut idx: Vec<usize> = if n <= 8 { (0..n + 2).collect() } else { vec![0, 1, m.saturating_sub(1), m, m + 1, n / 2, n - 1, n, n + 1] };
            idx.sort(); idx.dedup();
            for i in idx {
                out.line(&format!("C07 reindex {} {} {:x} {:x} {:x}", id, D::K, n, m, i), &guarded(|| format!("{:x}", d.reindex_by_subdomain(s, i))));
            }
            // filter polynomial of (coset of) `d` with respect to (coset of) `s`
            for doff in [F::one(), F::GENERATOR] {
                let cd = d.get_coset(doff).unwrap();
                let g_n = d.group_gen();
                let mut soffs = vec![doff, doff * g_n, doff * g_n * g_n, F::one(), rnz(rng)];
                if n % m == 0 { soffs.push(doff * d.element(n / m)); }
                let mut seen: Vec<String> = Vec::new();
                soffs.retain(|x| { let t = h(x); if seen.contains(&t) { false } else { seen.push(t); true } });
                for soff in soffs {
                    let cs = s.get_coset(soff).unwrap();
                    let pfx = format!("{} {} {:x} {} {:x} {}", id, D::K, n, h(&doff), m, h(&soff));
                    out.line(&format!("C07 filter {}", pfx), &guarded(|| hl(&cd.filter_polynomial(&cs).coeffs)));
                    let contained = n % m == 0 && soff.pow([n as u64]) == doff.pow([n as u64]);
                    if contained {
                        let taus = if big_quick && n > 4 { vec![cs.element(m - 1), rnd(rng)] } else if n <= 8 || thorough { vec![cd.element(0), cd.element(1), cs.element(m - 1), F::zero(), rnd(rng)] } else { vec![cd.element(1), cs.element(m - 1), rnd(rng)] };
                        for tau in taus {
                            out.line(&format!("C07 filterat {} {}", pfx, h(&tau)), &guarded(|| h(&cd.evaluate_filter_polynomial(&cs, tau))));
                        }
                    }
                }
            }
        }
    }
}

fn field_ops<F: FftField + PrimeField>(id: &str, caps: Caps, thorough: bool, rng: &mut Rng, out: &mut Out, only: &Option<String>) {
    if let Some(o) = only { if o != id { return; } }
    let opt = |x: Option<String>| x.unwrap_or("-".into());
    out.line(
        &format!("C07 field {} {} {:x} {} {} {} {}", id, hex_limbs(F::MODULUS.as_ref()), F::TWO_ADICITY, h(&F::TWO_ADIC_ROOT_OF_UNITY),
            opt(F::SMALL_SUBGROUP_BASE.map(|b| format!("{:x}", b))), opt(F::SMALL_SUBGROUP_BASE_ADICITY.map(|b| format!("{:x}", b))),
            opt(F::LARGE_SUBGROUP_ROOT_OF_UNITY.map(|r| h(&r)))),
        "-",
    );
    // get_root_of_unity
    let mut ns: Vec<u64> = (0..=70).collect();
    for m in family::<F>(1 << 40) {
        let m = m as u64;
        ns.extend_from_slice(&[m.saturating_sub(1), m, m + 1, 2 * m, 3 * m, 5 * m, 7 * m]);
    }
    for j in 0..64 { ns.push(1u64 << j); }
    ns.extend_from_slice(&[(1u64 << 63) + 1, u64::MAX, u64::MAX - 1, 3u64.pow(40), 5u64.pow(27), 7u64.pow(22), 6u64.pow(24)]);
    ns.sort(); ns.dedup();
    for n in ns {
        out.line(&format!("C07 root {} {:x}", id, n), &guarded(|| match F::get_root_of_unity(n) { Some(w) => h(&w), None => "none".into() }));
    }
    // distribute_powers(_and_mul_by_const)
    for len in [0usize, 1, 2, 7, 33] {
        let c = rvec::<F>(rng, len);
        let (g, k) = (rnd::<F>(rng), rnd::<F>(rng));
        let mut v = c.clone();
        Radix2EvaluationDomain::<F>::distribute_powers_and_mul_by_const(&mut v, g, k);
        out.line(&format!("C07 distpow {} {} {} {}", id, h(&g), h(&k), hl(&c)), &hl(&v));
        let mut v = c.clone();
        MixedRadixEvaluationDomain::<F>::distribute_powers(&mut v, g);
        out.line(&format!("C07 distpow {} {} 1 {}", id, h(&g), hl(&c)), &hl(&v));
    }
    kind_ops::<F, Radix2EvaluationDomain<F>>(id, &caps, thorough, rng, out);
    kind_ops::<F, MixedRadixEvaluationDomain<F>>(id, &caps, thorough, rng, out);
    kind_ops::<F, GeneralEvaluationDomain<F>>(id, &caps, thorough, rng, out);
}

fn bitrev_ops(rng: &mut Rng, out: &mut Out) {
    let mut cases: Vec<(u32, usize)> = Vec::new();
    for w in 0..=7u32 { cases.push((w, 1usize << w)); }
    for (w, l) in [(0u32, 0usize), (0, 3), (1, 0), (1, 1), (1, 3), (2, 3), (2, 5), (3, 3), (3, 5), (3, 7), (3, 9), (2, 8), (4, 8), (31, 2), (32, 2), (33, 2), (40, 3), (64, 2)] { cases.push((w, l)); }
    for (w, l) in cases {
        let v: Vec<u64> = (0..l).map(|_| rng.next() >> 40).collect();
        let mut a = v.clone();
        let r = guarded(move || { bitreverse_permutation_in_place(&mut a, w); hex_list_u64(&a) });
        out.line(&format!("C07 bitrevperm {:x} {}", w, hex_list_u64(&v)), &r);
    }
}

fn main() {
    let a = arkharness::args();
    let mut rng = Rng::new(a.seed);
    let mut out = Out::new();
    let th = a.thorough;
    let (rng, out, only) = (&mut rng, &mut out, &a.only);
    use arkharness::zoo::*;
    use ark_test_curves::{bls12_381, bn384_small_two_adicity as bn384, mnt4_753, secp256k1};
    let c = |all_q: usize, all_t: usize, e_q: usize, e_t: usize, pt: usize| Caps { all_len: if th { all_t } else { all_q }, edge_max: if th { e_t } else { e_q }, point_max: pt, light: false, exhaustive: false };
    if only.is_none() { bitrev_ops(rng, out); }
    // tiny fields: every coefficient vector
    field_ops::<FDT3>("t3", Caps { exhaustive: true, ..c(4, 4, 4, 4, 4) }, th, rng, out, only);
    field_ops::<FDT5>("t5", Caps { exhaustive: true, ..c(4, 4, 4, 4, 4) }, th, rng, out, only);
    field_ops::<FDT7>("t7", Caps { exhaustive: true, ..c(4, 4, 4, 4, 4) }, th, rng, out, only);
    field_ops::<FDT13>("t13", Caps { exhaustive: th, ..c(4, 4, 4, 4, 4) }, th, rng, out, only);
    // two-adic toy fields
    field_ops::<FDT257>("t257", c(32, 256, 256, 256, 64), th, rng, out, only);
    field_ops::<FDT65537>("t65537", c(32, 128, 1 << 11, 1 << 13, 64), th, rng, out, only);
    field_ops::<FDGoldilocks>("goldilocks", c(16, 64, 1 << 10, 1 << 12, 32), th, rng, out, only);
    field_ops::<FDM61>("m61", c(2, 2, 2, 2, 2), th, rng, out, only);
    // mixed-radix toy fields
    field_ops::<M109>("m109", c(36, 108, 108, 108, 36), th, rng, out, only);
    field_ops::<M163>("m163", c(27, 162, 162, 162, 54), th, rng, out, only);
    field_ops::<M197>("m197", c(28, 196, 196, 196, 49), th, rng, out, only);
    field_ops::<M401>("m401", c(25, 100, 400, 400, 50), th, rng, out, only);
    field_ops::<M2593>("m2593", c(36, 108, 864, 2592, 54), th, rng, out, only);
    field_ops::<M2593B>("m2593b", c(18, 36, 288, 288, 36), th, rng, out, only);
    // shipped fields
    field_ops::<bls12_381::Fr>("bls381fr", c(16, 64, 1 << 10, 1 << 13, 32), th, rng, out, only);
    field_ops::<bn384::Fq>("bn384fq", c(12, 36, 1 << 8, 1 << 12, 18), th, rng, out, only);
    field_ops::<bn384::Fr>("bn384fr", Caps { light: true, ..c(0, 0, 1 << 7, 1 << 10, 0) }, th, rng, out, only);
    field_ops::<mnt4_753::Fr>("mnt4753fr", c(8, 32, 1 << 8, 1 << 11, 10), th, rng, out, only);
    field_ops::<mnt4_753::Fq>("mnt4753fq", Caps { light: true, ..c(0, 0, 1 << 7, 1 << 9, 0) }, th, rng, out, only);
    field_ops::<secp256k1::Fr>("secp256k1fr", Caps { light: true, ..c(0, 0, 64, 64, 0) }, th, rng, out, only);
    out.flush();
}
