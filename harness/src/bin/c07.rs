//! C07: evaluation domains (radix-2, mixed-radix, general), FFT/IFFT, cosets, vanishing and
//! Lagrange evaluation, filter polynomials, re-indexing — the real `ark-poly` API on structured
//! inputs; one `C07 <op> … => <result>` line per call (see lean/Ark/Model/DrvC07.lean).
#![allow(dead_code, deprecated, clippy::all)]
use ark_ff::{FftField, Fp, MontBackend, MontConfig, PrimeField};
use ark_poly::domain::radix2::bitreverse_permutation_in_place;
use ark_poly::{
    EvaluationDomain, Evaluations, GeneralEvaluationDomain, MixedRadixEvaluationDomain,
    Radix2EvaluationDomain,
};
use ark_serialize::{CanonicalDeserialize, CanonicalSerialize, Compress, Validate};
use arkharness::util::*;

fn hexb(b: &[u8]) -> String {
    if b.is_empty() { return "_".into(); }
    b.iter().map(|x| format!("{:02x}", x)).collect()
}

/// `rand::RngCore` over the harness' SplitMix64 (for `sample_element_outside_domain`): seeded, reproducible
struct SeedRng(Rng);
impl ark_std::rand::RngCore for SeedRng {
    fn next_u32(&mut self) -> u32 { self.0.next() as u32 }
    fn next_u64(&mut self) -> u64 { self.0.next() }
    fn fill_bytes(&mut self, dest: &mut [u8]) {
        for c in dest.chunks_mut(8) { let w = self.0.next().to_le_bytes(); let l = c.len(); c.copy_from_slice(&w[..l]); }
    }
    fn try_fill_bytes(&mut self, dest: &mut [u8]) -> Result<(), ark_std::rand::Error> { self.fill_bytes(dest); Ok(()) }
}

// ---------------------------------------------------------------- toy mixed-radix fields
macro_rules! toy {
    ($cfg:ident, $ty:ident, $p:expr, $g:expr, $b:expr, $k:expr) => {
        #[derive(MontConfig)]
        #[modulus = $p]
        #[generator = $g]
        #[small_subgroup_base = $b]
        #[small_subgroup_power = $k]
        pub struct $cfg;
        pub type $ty = Fp<MontBackend<$cfg, 1>, 1>;
    };
}
toy!(C109, M109, "109", "6", "3", "3"); // 108  = 2^2·3^3
toy!(C163, M163, "163", "2", "3", "4"); // 162  = 2·3^4
toy!(C197, M197, "197", "2", "7", "2"); // 196  = 2^2·7^2
toy!(C401, M401, "401", "3", "5", "2"); // 400  = 2^4·5^2
toy!(C2593, M2593, "2593", "7", "3", "4"); // 2592 = 2^5·3^4
toy!(C2593B, M2593B, "2593", "7", "3", "2"); // declared small subgroup 3^2 < 3^4

// ---------------------------------------------------------------- printing
fn h<F: PrimeField>(x: &F) -> String {
    hex_limbs(x.into_bigint().as_ref())
}
fn hl<F: PrimeField>(v: &[F]) -> String {
    if v.is_empty() {
        return "_".into();
    }
    v.iter().map(|x| h(x)).collect::<Vec<_>>().join(",")
}
fn rnd<F: PrimeField>(rng: &mut Rng) -> F {
    let n = ((F::MODULUS_BIT_SIZE as usize) + 7) / 8 + 8;
    let mut b = vec![0u8; n];
    for c in b.chunks_mut(8) {
        let w = rng.next().to_le_bytes();
        let l = c.len();
        c.copy_from_slice(&w[..l]);
    }
    F::from_le_bytes_mod_order(&b)
}
/// random non-zero element (coset offsets)
fn rnz<F: PrimeField>(rng: &mut Rng) -> F {
    loop { let x = rnd::<F>(rng); if !x.is_zero() { return x; } }
}
/// random vector with a sprinkling of 0, 1, p-1
fn rvec<F: PrimeField>(rng: &mut Rng, len: usize) -> Vec<F> {
    (0..len)
        .map(|_| match rng.below(16) {
            0 => F::zero(),
            1 => F::one(),
            2 => -F::one(),
            _ => rnd(rng),
        })
        .collect()
}

trait Dom<F: FftField + PrimeField>: EvaluationDomain<F> {
    const K: &'static str;
    fn show(&self) -> String;
}
fn show9<F: PrimeField>(tag: &str, size: u64, log: u32, f: [&F; 7]) -> String {
    format!(
        "{} {:x} {:x} {} {} {} {} {} {} {}",
        tag, size, log, h(f[0]), h(f[1]), h(f[2]), h(f[3]), h(f[4]), h(f[5]), h(f[6])
    )
}
impl<F: FftField + PrimeField> Dom<F> for Radix2EvaluationDomain<F> {
    const K: &'static str = "r";
    fn show(&self) -> String {
        show9("r", self.size, self.log_size_of_group,
            [&self.size_as_field_element, &self.size_inv, &self.group_gen, &self.group_gen_inv, &self.offset, &self.offset_inv, &self.offset_pow_size])
    }
}
impl<F: FftField + PrimeField> Dom<F> for MixedRadixEvaluationDomain<F> {
    const K: &'static str = "m";
    fn show(&self) -> String {
        show9("m", self.size, self.log_size_of_group,
            [&self.size_as_field_element, &self.size_inv, &self.group_gen, &self.group_gen_inv, &self.offset, &self.offset_inv, &self.offset_pow_size])
    }
}
impl<F: FftField + PrimeField> Dom<F> for GeneralEvaluationDomain<F> {
    const K: &'static str = "g";
    fn show(&self) -> String {
        match self {
            GeneralEvaluationDomain::Radix2(d) => d.show(),
            GeneralEvaluationDomain::MixedRadix(d) => d.show(),
        }
    }
}

fn opt_dom<F: FftField + PrimeField, D: Dom<F>>(d: Option<D>) -> String {
    match d {
        Some(d) => d.show(),
        None => "none".into(),
    }
}

struct Caps {
    all_len: usize,    // every input length 0..=size for sizes up to this
    edge_max: usize,   // edge lengths for sizes up to this
    point_max: usize,  // vanishing / Lagrange / filter sizes
    light: bool,       // only domain construction + a few transforms
    exhaustive: bool,  // enumerate every coefficient vector (tiny fields)
}

/// candidate domain sizes of the field's subgroup family, ascending
fn family<F: FftField>(max: usize) -> Vec<usize> {
    let mut v = Vec::new();
    let (q, k) = match (F::SMALL_SUBGROUP_BASE, F::SMALL_SUBGROUP_BASE_ADICITY) {
        (Some(q), Some(k)) => (q as u128, k),
        _ => (1, 0),
    };
    for b in 0..=k {
        for a in 0..=F::TWO_ADICITY.min(40) {
            let m = (1u128 << a) * q.pow(b);
            if m <= max as u128 {
                v.push(m as usize);
            }
        }
    }
    v.sort();
    v.dedup();
    v
}

fn edge_lens(size: usize) -> Vec<usize> {
    let mut v = vec![0usize, 1, 2, 3, 5, size / 8, size / 8 + 1, (size / 4).saturating_sub(1), size / 4, size / 4 + 1, size / 2, size.saturating_sub(1), size];
    v.retain(|&l| l <= size);
    v.sort();
    v.dedup();
    v
}

fn offsets<F: FftField + PrimeField, D: Dom<F>>(d: &D, rng: &mut Rng) -> Vec<F> {
    vec![F::one(), F::GENERATOR, rnz(rng), d.group_gen()]
}

fn transforms<F: FftField + PrimeField, D: Dom<F>>(id: &str, d: &D, off: F, c: &[F], which: u8, out: &mut Out) {
    let size = d.size();
    let cd = match d.get_coset(off) {
        Some(cd) => cd,
        None => return,
    };
    let pfx = format!("{} {} {:x} {}", id, D::K, size, h(&off));
    let long = c.len() > size;
    let cs = hl(c);
    if which & 1 != 0 {
        out.line(&format!("C07 {} {} {}", if long { "fftlong" } else { "fft" }, pfx, cs), &guarded(|| hl(&cd.fft(c))));
    }
    if which & 2 != 0 {
        out.line(&format!("C07 {} {} {}", if long { "ifftlong" } else { "ifft" }, pfx, cs), &guarded(|| hl(&cd.ifft(c))));
    }
    if which & 4 != 0 && !long {
        out.line(&format!("C07 rt {} {}", pfx, cs), &guarded(|| hl(&cd.ifft(&cd.fft(c)))));
    }
    if which & 8 != 0 && !long {
        let r = guarded(|| {
            let e = Evaluations::from_vec_and_domain(c.to_vec(), cd);
            let p = if c.len() % 2 == 0 { e.interpolate_by_ref() } else { e.interpolate() };
            hl(&p.coeffs)
        });
        out.line(&format!("C07 interp {} {}", pfx, cs), &r);
    }
}

fn points<F: FftField + PrimeField, D: Dom<F>>(d: &D, cd: &D, rng: &mut Rng) -> Vec<F> {
    let n = d.size();
    let mut t = vec![F::zero(), F::one(), -F::one(), cd.element(0), cd.element(1), cd.element(n - 1), cd.element(n / 2), d.element(1), d.element(n - 1), rnd(rng), rnd(rng)];
    if n <= 16 {
        for x in cd.elements() {
            t.push(x);
        }
    }
    let mut seen: Vec<String> = Vec::new();
    t.retain(|x| {
        let s = h(x);
        if seen.contains(&s) { false } else { seen.push(s); true }
    });
    t
}

fn kind_ops<F: FftField + PrimeField, D: Dom<F>>(id: &str, caps: &Caps, thorough: bool, rng: &mut Rng, out: &mut Out) {
    let has_small = F::SMALL_SUBGROUP_BASE.is_some();
    // ---- construction
    let mut ns: Vec<usize> = (0..=70).collect();
    for m in family::<F>(1 << 36) {
        ns.extend_from_slice(&[m.saturating_sub(1), m, m + 1]);
    }
    for j in 0..=(F::TWO_ADICITY + 2).min(62) {
        let m = 1usize << j;
        ns.extend_from_slice(&[m - 1, m, m + 1]);
    }
    ns.push(1usize << 63);
    if D::K == "r" || !has_small {
        // (`MixedRadixEvaluationDomain::new(n)` does not return for n > 2^63 in release builds: `r *= 2` wraps to 0)
        ns.push((1usize << 63) + 1);
        ns.push(usize::MAX);
    }
    ns.sort();
    ns.dedup();
    for &n in &ns {
        out.line(&format!("C07 new {} {} {:x}", id, D::K, n), &guarded(|| opt_dom::<F, D>(D::new(n))));
        out.line(&format!("C07 csize {} {} {:x}", id, D::K, n), &guarded(|| match D::compute_size_of_domain(n) { Some(s) => format!("{:x}", s), None => "none".into() }));
    }
    if D::K == "m" && !has_small {
        return;
    }
    // ---- the domains of this kind
    let kcap = if F::MODULUS_BIT_SIZE > 128 && !thorough && D::K != "r" { caps.edge_max.min(512) } else { caps.edge_max };
    let sizes: Vec<usize> = family::<F>(kcap).into_iter().filter(|&m| D::new(m).map(|d| d.size() == m).unwrap_or(false)).collect();
    for &m in sizes.iter().filter(|&&m| m <= 64 || m == 1024) {
        let d = D::new(m).unwrap();
        for off in [F::zero(), F::one(), F::GENERATOR, -F::one(), rnz(rng), d.group_gen()] {
            out.line(&format!("C07 coset {} {} {:x} {}", id, D::K, m, h(&off)), &guarded(|| opt_dom::<F, D>(d.get_coset(off))));
        }
        for off in [F::one(), F::GENERATOR, rnz(rng)] {
            let cd = d.get_coset(off).unwrap();
            let pfx = format!("{} {} {:x} {}", id, D::K, m, h(&off));
            out.line(&format!("C07 elems {}", pfx), &guarded(|| hl(&cd.elements().collect::<Vec<_>>())));
            let mut is: Vec<usize> = if m <= 16 { (0..m + 3).collect() } else { vec![0, 1, 2, m / 2, m - 1, m, m + 1] };
            is.push(1 << 40);
            is.push(rng.next() as usize);
            for i in is {
                out.line(&format!("C07 elem {} {:x}", pfx, i), &guarded(|| h(&cd.element(i))));
            }
        }
    }
    // ---- transforms
    let general = D::K == "g";
    let big = F::MODULUS_BIT_SIZE > 128;
    let top: Vec<usize> = sizes.iter().rev().take(2).copied().collect();
    for &m in &sizes {
        if general && m > 64 && !top.contains(&m) { continue; } // dispatch only: the code paths are those of kinds r / m
        let d = D::new(m).unwrap();
        let offs = offsets::<F, D>(&d, rng);
        if caps.exhaustive && m <= 4 {
            // every coefficient vector of every length 0..=m
            let p: u64 = F::MODULUS.as_ref()[0];
            for len in 0..=m {
                let total = p.pow(len as u32);
                for code in 0..total {
                    let mut c = Vec::with_capacity(len);
                    let mut t = code;
                    for _ in 0..len { c.push(F::from(t % p)); t /= p; }
                    for off in [F::one(), F::GENERATOR] {
                        transforms::<F, D>(id, &d, off, &c, 3, out);
                    }
                }
            }
            continue;
        }
        if m <= caps.all_len && !(general && (m > 16 || (big && !thorough))) && !caps.light {
            for len in 0..=m {
                for (oi, off) in offs.iter().enumerate() {
                    if m > 16 && oi != len % 3 { continue; }
                    if m <= 16 && oi == 3 && len % 4 != 0 { continue; }
                    let c = rvec::<F>(rng, len);
                    transforms::<F, D>(id, &d, *off, &c, if m <= 32 { 7 } else { 3 }, out);
                }
            }
            // structured inputs: zero vector, unit vectors, constant evaluations (degree-0 interpolant)
            for off in [F::one(), F::GENERATOR] {
                transforms::<F, D>(id, &d, off, &vec![F::zero(); m], 15, out);
                transforms::<F, D>(id, &d, off, &vec![-F::one(); m], 15, out);
                let mut e = vec![F::zero(); m]; e[m - 1] = F::one();
                transforms::<F, D>(id, &d, off, &e, 15, out);
                let mut e = vec![F::zero(); m]; e[0] = F::one();
                transforms::<F, D>(id, &d, off, &e, 15, out);
                // evaluations of a polynomial of low degree: interpolation must trim
                let low = rvec::<F>(rng, (m / 2).max(1));
                let ev = d.get_coset(off).unwrap().fft(&low);
                transforms::<F, D>(id, &d, off, &ev, 10, out);
                for len in [0usize, 1, m / 2, m] {
                    let c = rvec::<F>(rng, len);
                    transforms::<F, D>(id, &d, off, &c, 8, out);
                }
            }
            // longer than the domain
            for len in [m + 1, m + 3, 2 * m, 4 * m + 1] {
                let c = rvec::<F>(rng, len);
                transforms::<F, D>(id, &d, offs[len % 2], &c, 3, out);
            }
        } else {
            let lens = if caps.light || (big && !thorough && general) { vec![0, 1, m / 4, m / 4 + 1, m] } else if big && !thorough { vec![0, 1, m / 8 + 1, m / 4, m / 4 + 1, m] } else { edge_lens(m) };
            for (li, &len) in lens.iter().enumerate() {
                let c = rvec::<F>(rng, len);
                let off = offs[li % 3];
                transforms::<F, D>(id, &d, off, &c, if thorough && !general { 7 } else if li % 2 == 0 { 1 | 4 } else { 1 | 2 }, out);
            }
            if !caps.light {
                let c = rvec::<F>(rng, m + 1);
                transforms::<F, D>(id, &d, offs[1], &c, 3, out);
            }
        }
    }
    if general || caps.light {
        return;
    }
    // ---- vanishing polynomial, Lagrange coefficients
    let big_quick = F::MODULUS_BIT_SIZE > 128 && !thorough; // quick tier: the O(n²) size-256 Lagrange check only on the small fields
    for &m in sizes.iter().filter(|&&m| m <= caps.point_max || (m == 256 && !big_quick) || (thorough && m == 1024)) {
        let d = D::new(m).unwrap();
        for off in [F::one(), F::GENERATOR, rnz(rng)] {
            let cd = d.get_coset(off).unwrap();
            let pfx = format!("{} {} {:x} {}", id, D::K, m, h(&off));
            out.line(&format!("C07 vanish {}", pfx), &guarded(|| {
                let z = cd.vanishing_polynomial();
                let v: Vec<String> = z.iter().map(|(i, c)| format!("{:x}:{}", i, h(c))).collect();
                if v.is_empty() { "_".into() } else { v.join(",") }
            }));
            let mut pts = points::<F, D>(&d, &cd, rng);
            if m > 64 { pts.truncate(6); pts.push(rnd(rng)); } else if m > 16 && !thorough { pts.truncate(6); pts.push(rnd(rng)); }
            for tau in pts {
                out.line(&format!("C07 vanishat {} {}", pfx, h(&tau)), &guarded(|| h(&cd.evaluate_vanishing_polynomial(tau))));
                out.line(&format!("C07 lagrange {} {}", pfx, h(&tau)), &guarded(|| hl(&cd.evaluate_all_lagrange_coefficients(tau))));
            }
        }
    }
    // ---- filter polynomial, re-indexing
    let small: Vec<usize> = sizes.iter().copied().filter(|&m| m <= if thorough { 36 } else if big_quick { 12 } else { 18 }).collect();
    for &n in &small {
        let d = D::new(n).unwrap();
        for &m in sizes.iter().filter(|&&m| m <= 2 * n.max(2)) {
            let s = D::new(m).unwrap();
            // re-indexing
            let mut idx: Vec<usize> = if n <= 8 { (0..n + 2).collect() } else { vec![0, 1, m.saturating_sub(1), m, m + 1, n / 2, n - 1, n, n + 1] };
            idx.sort(); idx.dedup();
            for i in idx {
                out.line(&format!("C07 reindex {} {} {:x} {:x} {:x}", id, D::K, n, m, i), &guarded(|| format!("{:x}", d.reindex_by_subdomain(s, i))));
            }
            // filter polynomial of (coset of) `d` with respect to (coset of) `s`
            for doff in [F::one(), F::GENERATOR] {
                let cd = d.get_coset(doff).unwrap();
                let g_n = d.group_gen();
                let mut soffs = vec![doff, doff * g_n, doff * g_n * g_n, F::one(), rnz(rng)];
                if n % m == 0 { soffs.push(doff * d.element(n / m)); }
                let mut seen: Vec<String> = Vec::new();
                soffs.retain(|x| { let t = h(x); if seen.contains(&t) { false } else { seen.push(t); true } });
                for soff in soffs {
                    let cs = s.get_coset(soff).unwrap();
                    let pfx = format!("{} {} {:x} {} {:x} {}", id, D::K, n, h(&doff), m, h(&soff));
                    out.line(&format!("C07 filter {}", pfx), &guarded(|| hl(&cd.filter_polynomial(&cs).coeffs)));
                    let contained = n % m == 0 && soff.pow([n as u64]) == doff.pow([n as u64]);
                    if contained {
                        let taus = if big_quick && n > 4 { vec![cs.element(m - 1), rnd(rng)] } else if n <= 8 || thorough { vec![cd.element(0), cd.element(1), cs.element(m - 1), F::zero(), rnd(rng)] } else { vec![cd.element(1), cs.element(m - 1), rnd(rng)] };
                        for tau in taus {
                            out.line(&format!("C07 filterat {} {}", pfx, h(&tau)), &guarded(|| h(&cd.evaluate_filter_polynomial(&cs, tau))));
                        }
                    }
                }
            }
        }
    }
}


// ---------------------------------------------------------------- additions: trait getters / defaults,
// in-place transforms, degree-aware threshold, `Evaluations` API (every kind; `g` = both variants of
// `GeneralEvaluationDomain`: radix-2 sizes and, on fields with a small subgroup, mixed-radix sizes)
fn extra_ops<F: FftField + PrimeField, D: Dom<F>>(id: &str, caps: &Caps, thorough: bool, rng: &mut Rng, out: &mut Out) {
    let has_small = F::SMALL_SUBGROUP_BASE.is_some();
    if D::K == "m" && !has_small { return; }
    let general = D::K == "g";
    let big = F::MODULUS_BIT_SIZE > 128;
    let q = !thorough; // quick tier: slim selection
    // quick tier: kinds r and m (the same trait-default code, other instantiation) on a few fields only;
    // kind g (both `GeneralEvaluationDomain` variants) on every field
    if q && !general && !["t13", "t257", "m109", "m2593", "bls381fr", "bn384fq"].contains(&id) { return; }
    let tiny = F::MODULUS_BIT_SIZE <= 4 || id == "m109";
    let cap = if caps.light { 8 } else if thorough { 64 } else if big { 16 } else { 64 };
    let all: Vec<usize> = family::<F>(cap.max(1024)).into_iter().filter(|&m| D::new(m).map(|d| d.size() == m).unwrap_or(false)).collect();
    let mut sizes: Vec<usize> = all.iter().copied().filter(|&m| m <= cap).collect();
    if q && sizes.len() > 5 {
        // quick tier: sizes 1, 2, the next one, one in the middle, the largest
        let n = sizes.len();
        sizes = vec![sizes[0], sizes[1], sizes[2], sizes[n / 2 + 1], sizes[n - 1]];
        sizes.dedup();
    }
    // ---- new_coset (trait default): sizes that exist, sizes that are rounded up, sizes that fail; offset 0
    let mut ns: Vec<usize> = (0..=5).collect();
    for &m in &sizes { ns.extend_from_slice(&[m, m + 1]); }
    ns.push(1usize << (F::TWO_ADICITY.min(40) + 1));
    ns.push(1usize << 63);
    ns.sort(); ns.dedup();
    for (ni, &n) in ns.iter().enumerate() {
        for (oi, off) in [F::zero(), F::one(), rnz(rng), F::GENERATOR].into_iter().enumerate() {
            if q && n > 2 && oi != ni % 4 { continue; }
            out.line(&format!("C07 newcoset {} {} {:x} {}", id, D::K, n, h(&off)), &guarded(|| opt_dom::<F, D>(D::new_coset(n, off))));
        }
    }
    for (si, &m) in sizes.iter().enumerate() {
        let d = D::new(m).unwrap();
        let full = thorough || (m <= 2 && tiny);
        let offs = [F::one(), F::GENERATOR, rnz(rng)];
        for (oi, &off) in offs.iter().enumerate() {
            if !full && oi == 2 { continue; }
            let first = oi == 0;
            let cd = D::new_coset(m, off).unwrap();
            let pfx = format!("{} {} {:x} {}", id, D::K, m, h(&off));
            // ---- the nine getters, through the trait
            out.line(&format!("C07 getters {}", pfx), &guarded(|| {
                let tag = cd.show().split(' ').next().unwrap().to_string();
                format!("{} {:x} {:x} {} {} {} {} {} {} {}", tag, cd.size(), cd.log_size_of_group(), h(&cd.size_as_field_element()), h(&cd.size_inv()),
                    h(&cd.group_gen()), h(&cd.group_gen_inv()), h(&cd.coset_offset()), h(&cd.coset_offset_inv()), h(&cd.coset_offset_pow_size()))
            }));
            // ---- vanishing polynomial / Lagrange coefficients through the `GeneralEvaluationDomain` dispatch
            if general && m <= caps.point_max.max(8) && !caps.light {
                out.line(&format!("C07 vanish {}", pfx), &guarded(|| {
                    let z = cd.vanishing_polynomial();
                    let v: Vec<String> = z.iter().map(|(i, c)| format!("{:x}:{}", i, h(c))).collect();
                    if v.is_empty() { "_".into() } else { v.join(",") }
                }));
                let pts = if full { points::<F, D>(&d, &cd, rng) }
                    else { let mut t = vec![F::zero(), F::one(), cd.element(0), cd.element(m - 1), cd.element(m / 2), d.element(1), rnd(rng)];
                           let mut seen: Vec<String> = Vec::new();
                           t.retain(|x| { let s = h(x); if seen.contains(&s) { false } else { seen.push(s); true } }); t };
                for tau in pts {
                    out.line(&format!("C07 vanishat {} {}", pfx, h(&tau)), &guarded(|| h(&cd.evaluate_vanishing_polynomial(tau))));
                    out.line(&format!("C07 lagrange {} {}", pfx, h(&tau)), &guarded(|| hl(&cd.evaluate_all_lagrange_coefficients(tau))));
                }
            }
            // ---- fft_in_place / ifft_in_place called directly
            let mut lens = if full { vec![0usize, 1, (m / 4).saturating_sub(1), m / 4, m / 4 + 1, m - 1, m, m + 1, 2 * m + 1] }
                else if first { vec![0, m / 4, m / 4 + 1, m, m + 1] } else { vec![m / 4 + 1, m] };
            lens.sort(); lens.dedup();
            for &len in &lens {
                let c = rvec::<F>(rng, len);
                let long = len > m;
                let cs = hl(&c);
                out.line(&format!("C07 {} {} {}", if long { "fftiplong" } else { "fftip" }, pfx, cs), &guarded(|| { let mut v = c.clone(); v.reserve(3); cd.fft_in_place(&mut v); hl(&v) }));
                out.line(&format!("C07 {} {} {}", if long { "ifftiplong" } else { "ifftip" }, pfx, cs), &guarded(|| { let mut v = c.clone(); cd.ifft_in_place(&mut v); hl(&v) }));
            }
            // ---- mul_polynomials_in_evaluation_domain
            if oi < 2 {
                let lab = if full { vec![(0usize, 0usize), (1, 1), (m, m), (m, m - 1), (m - 1, m), (m + 1, m + 1)] }
                    else if first { vec![(0, 0), (m, m), (m, m - 1), (m + 1, m + 1)] } else { vec![(m, m)] };
                for (la, lb) in lab {
                    let (a, b) = (rvec::<F>(rng, la), rvec::<F>(rng, lb));
                    out.line(&format!("C07 mulevals {} {} {}", pfx, hl(&a), hl(&b)), &guarded(|| hl(&cd.mul_polynomials_in_evaluation_domain(&a, &b))));
                }
                if m <= 64 {
                    let mut lab = if full { vec![(0usize, 0usize), (0, 1), (1, 1), (m / 2, m / 2), (m / 2 + 1, m / 2), (1, m), (m, m), ((m + 1) / 2, m - (m + 1) / 2 + 1)] }
                        else if first { vec![(0, 1), ((m + 1) / 2, m - (m + 1) / 2 + 1), (m / 2 + 1, m / 2 + 1), (m, m)] } else { vec![(m / 2, m / 2), (m / 2 + 1, m / 2), (m, 1)] };
                    lab.sort(); lab.dedup();
                    for (la, lb) in lab {
                        let (a, b) = (rvec::<F>(rng, la), rvec::<F>(rng, lb));
                        out.line(&format!("C07 mulpoly {} {} {}", pfx, hl(&a), hl(&b)), &guarded(|| {
                            let (ea, eb) = (cd.fft(&a), cd.fft(&b));
                            hl(&cd.ifft(&cd.mul_polynomials_in_evaluation_domain(&ea, &eb)))
                        }));
                    }
                }
            }
            // ---- sample_element_outside_domain (seeded RNG; verdict only)
            if m <= 16 || si + 1 == sizes.len() {
                for _ in 0..(if full { 4 } else { 1 }) {
                    let seed = rng.next();
                    out.line(&format!("C07 sampleout {} {:x}", pfx, seed), &guarded(|| h(&cd.sample_element_outside_domain(&mut SeedRng(Rng::new(seed))))));
                }
            }
            // ---- serialization of the domain and of `Evaluations` (hand-written for `GeneralEvaluationDomain`,
            //      derived for the others): bytes, serialized_size, round trip; damaged encodings
            if first || full {
                for (mode, ms) in [(Compress::Yes, "c"), (Compress::No, "u")] {
                    if !full && ((si % 2 == 0) != (ms == "c")) { continue; }
                    out.line(&format!("C07 ser {} {}", pfx, ms), &guarded(|| {
                        let mut bytes = Vec::new();
                        cd.serialize_with_mode(&mut bytes, mode).unwrap();
                        let back = D::deserialize_with_mode(&bytes[..], mode, Validate::Yes);
                        format!("{} {:x} {}", hexb(&bytes), cd.serialized_size(mode), match back { Ok(x) => x.show(), Err(_) => "err".into() })
                    }));
                    let e = rvec::<F>(rng, if ms == "c" { m } else { m / 2 });
                    let ev = Evaluations::from_vec_and_domain(e.clone(), cd);
                    out.line(&format!("C07 evser {} {} {}", pfx, hl(&e), ms), &guarded(|| {
                        let mut bytes = Vec::new();
                        ev.serialize_with_mode(&mut bytes, mode).unwrap();
                        let back = Evaluations::<F, D>::deserialize_with_mode(&bytes[..], mode, Validate::Yes);
                        format!("{} {:x} {}", hexb(&bytes), ev.serialized_size(mode), match back { Ok(x) => format!("{} {}", hl(&x.evals), x.domain().show()), Err(_) => "err".into() })
                    }));
                }
                let mut whats = vec!["trunc"];
                if general { whats.push("v2"); whats.push("vff"); }
                for what in whats {
                    out.line(&format!("C07 serx {} {}", pfx, what), &guarded(|| {
                        let mut bytes = Vec::new();
                        cd.serialize_compressed(&mut bytes).unwrap();
                        match what { "trunc" => { bytes.pop(); }, "v2" => bytes[0] = 2, _ => bytes[0] = 0xff }
                        match D::deserialize_compressed(&bytes[..]) { Ok(x) => x.show(), Err(_) => "err".into() }
                    }));
                }
            }
            // ---- Evaluations: zero, domain(), Index, Mul<F>
            out.line(&format!("C07 evzero {}", pfx), &guarded(|| hl(&Evaluations::<F, D>::zero(cd).evals)));
            for len in [m, 0usize, m + 2] {
                if len != m && !(full && first) { continue; }
                let e = rvec::<F>(rng, len);
                let es = hl(&e);
                let ev = Evaluations::from_vec_and_domain(e.clone(), cd);
                out.line(&format!("C07 evdom {} {}", pfx, es), &guarded(|| ev.domain().show()));
                let mut is = if full { vec![0usize, len / 2, len.saturating_sub(1), len, len + 1, usize::MAX] } else if first { vec![0, len.saturating_sub(1), len] } else { vec![len / 2, usize::MAX] };
                is.sort(); is.dedup();
                for i in is {
                    out.line(&format!("C07 evidx {} {} {:x}", pfx, es, i), &guarded(|| h(&ev[i])));
                }
                for (ci, c) in [F::zero(), F::one(), rnd(rng)].into_iter().enumerate() {
                    if !full && ci == oi { continue; }
                    out.line(&format!("C07 evscale {} {} {}", pfx, es, h(&c)), &guarded(|| hl(&(&ev * c).evals)));
                }
            }
            // ---- Evaluations ⊕ Evaluations, ⊕=, same domain and different domains.
            //      case = (size and offset of the second domain, a, b, all eight operators?)
            let mut cases: Vec<(usize, F, Vec<F>, Vec<F>, bool)> = Vec::new();
            let z = vec![F::zero(); m];
            let a = rvec::<F>(rng, m);
            let mut b = rvec::<F>(rng, m);
            cases.push((m, off, a.clone(), b.clone(), true));
            if full {
                cases.push((m, off, a.clone(), a.clone(), true));
                cases.push((m, off, a.clone(), z.clone(), true));
                cases.push((m, off, z.clone(), b.clone(), true));
                cases.push((m, off, Vec::new(), Vec::new(), true));
            }
            b[m - 1] = F::zero(); b[0] = F::zero();   // zero divisors
            cases.push((m, off, a.clone(), b.clone(), full));
            if first {
                // unequal lengths (zip stops at the shorter)
                cases.push((m, off, a.clone(), b[..m - 1].to_vec(), full));
                cases.push((m, off, a[..m - 1].to_vec(), b.clone(), full));
                if full { cases.push((m, off, a.clone(), rvec::<F>(rng, m + 1), full)); }
            }
            // different domains: other offset, same coset under another representative, other size
            cases.push((m, off * F::GENERATOR, a.clone(), b.clone(), full));
            if m > 1 && (full || !first) { cases.push((m, off * d.group_gen(), a.clone(), b.clone(), full)); }
            if oi < 2 {
                for &m2 in all.iter().filter(|&&m2| m2 != m && (m2 == 2 * m || m2 * 2 == m || m2 == 3 * m || m2 * 3 == m || (m2 > m && m2 < 2 * m))).take(if full { 2 } else { 1 }) {
                    if full { cases.push((m2, off, a.clone(), rvec::<F>(rng, m2), full)); }
                    cases.push((m2, off, a.clone(), b.clone(), full));
                }
            }
            for (ci, (n2, off2, a, b, every)) in cases.iter().enumerate() {
                let other = match D::new_coset(*n2, *off2) { Some(x) => x, None => continue };
                let args = format!("{} {:x} {} {} {}", pfx, n2, h(off2), hl(a), hl(b));
                let ea = Evaluations::from_vec_and_domain(a.clone(), cd);
                let eb = Evaluations::from_vec_and_domain(b.clone(), other);
                let r = (ci + oi + si) % 4;
                macro_rules! bin {
                    ($name:expr, $e:expr) => { out.line(&format!("C07 {} {}", $name, args), &guarded(|| hl(&$e.evals))); };
                }
                macro_rules! asg {
                    ($name:expr, $op:tt) => { out.line(&format!("C07 {} {}", $name, args), &guarded(|| { let mut x = ea.clone(); x $op &eb; hl(&x.evals) })); };
                }
                if *every || r == 0 { bin!("evadd", &ea + &eb); }
                if *every || r == 1 { bin!("evsub", &ea - &eb); }
                if *every || r == 2 { bin!("evmul", &ea * &eb); }
                if *every || r == 3 { bin!("evdiv", &ea / &eb); }
                if *every || r == 3 { asg!("evaddas", +=); }
                if *every || r == 2 { asg!("evsubas", -=); }
                if *every || r == 1 { asg!("evmulas", *=); }
                if *every || r == 0 { asg!("evdivas", /=); }
            }
        }
    }
    // ---- degree-aware FFT threshold (radix-2 code path: kinds r and g): input lengths on both sides of
    //      `len·4 ≤ size`, non-power-of-two lengths, offset 1 and a proper coset; through fft, fft_in_place,
    //      and back through `Evaluations::interpolate` / `interpolate_by_ref`
    if D::K != "m" && !caps.light {
        let tcap = if thorough { 4096 } else if big { 64 } else { 1024 };
        let mut m = 4usize;
        while m <= tcap && m <= caps.edge_max.max(64) {
            if let Some(d) = D::new(m) {
                if d.size() == m && d.show().starts_with('r') {
                    let mut lens = if q { vec![m / 4 - 1, m / 4, m / 4 + 1, m / 8 + 1, m / 4 - m / 16] }
                        else { vec![m / 4 - 1, m / 4, m / 4 + 1, m / 8, m / 8 + 1, (m / 8).saturating_sub(1), 3, m / 4 - m / 16] };
                    lens.retain(|&l| l <= m); lens.sort(); lens.dedup();
                    for off in [F::one(), F::GENERATOR] {
                        let cd = d.get_coset(off).unwrap();
                        let pfx = format!("{} {} {:x} {}", id, D::K, m, h(&off));
                        for &len in &lens {
                            if m >= 256 && q && ![m / 4, m / 4 + 1, m / 8 + 1].contains(&len) { continue; }
                            let c = rvec::<F>(rng, len);
                            let cs = hl(&c);
                            out.line(&format!("C07 fft {} {}", pfx, cs), &guarded(|| hl(&cd.fft(&c))));
                            out.line(&format!("C07 fftip {} {}", pfx, cs), &guarded(|| { let mut v = c.clone(); cd.fft_in_place(&mut v); hl(&v) }));
                            if m <= 64 {
                                // round trip through the evaluations: interpolate(fft(c)) = c (trimmed)
                                let ev = cd.fft(&c);
                                let r = guarded(|| {
                                    let e = Evaluations::from_vec_and_domain(ev.clone(), cd);
                                    let p = if len % 2 == 0 { e.interpolate_by_ref() } else { e.interpolate() };
                                    hl(&p.coeffs)
                                });
                                out.line(&format!("C07 interp {} {}", pfx, hl(&ev)), &r);
                            }
                        }
                    }
                }
            }
            m *= if m >= 64 && q { 4 } else { 2 };
        }
    }
    // ---- reindex_by_subdomain / filter polynomials through the `GeneralEvaluationDomain` instantiation
    //      (trait defaults; filter polynomials stay outside C07's statement: verdict `note:`)
    if general && !caps.light {
        let small: Vec<usize> = all.iter().copied().filter(|&m| m <= if q { 6 } else { 12 }).collect();
        for &n in &small {
            let d = D::new(n).unwrap();
            for &m in small.iter().filter(|&&m| m <= n && n % m == 0) {
                let s = D::new(m).unwrap();
                let mut is = vec![0usize, 1, m.saturating_sub(1), m, n - 1, n];
                is.sort(); is.dedup();
                for i in is {
                    out.line(&format!("C07 reindex {} {} {:x} {:x} {:x}", id, D::K, n, m, i), &guarded(|| format!("{:x}", d.reindex_by_subdomain(s, i))));
                }
                for doff in [F::one(), F::GENERATOR] {
                    if q && big && doff != F::one() { continue; }
                    let cd = d.get_coset(doff).unwrap();
                    for soff in [doff, doff * d.group_gen()] {
                        let cs = s.get_coset(soff).unwrap();
                        let pfx = format!("{} {} {:x} {} {:x} {}", id, D::K, n, h(&doff), m, h(&soff));
                        out.line(&format!("C07 filter {}", pfx), &guarded(|| hl(&cd.filter_polynomial(&cs).coeffs)));
                        for tau in [cd.element(1), cs.element(m - 1), rnd(rng)] {
                            out.line(&format!("C07 filterat {} {}", pfx, h(&tau)), &guarded(|| h(&cd.evaluate_filter_polynomial(&cs, tau))));
                        }
                    }
                }
            }
        }
    }
}

fn field_ops<F: FftField + PrimeField>(id: &str, caps: Caps, thorough: bool, rng: &mut Rng, out: &mut Out, only: &Option<String>) {
    if let Some(o) = only { if o != id { return; } }
    let opt = |x: Option<String>| x.unwrap_or("-".into());
    out.line(
        &format!("C07 field {} {} {:x} {} {} {} {}", id, hex_limbs(F::MODULUS.as_ref()), F::TWO_ADICITY, h(&F::TWO_ADIC_ROOT_OF_UNITY),
            opt(F::SMALL_SUBGROUP_BASE.map(|b| format!("{:x}", b))), opt(F::SMALL_SUBGROUP_BASE_ADICITY.map(|b| format!("{:x}", b))),
            opt(F::LARGE_SUBGROUP_ROOT_OF_UNITY.map(|r| h(&r)))),
        "-",
    );
    // get_root_of_unity
    let mut ns: Vec<u64> = (0..=70).collect();
    for m in family::<F>(1 << 40) {
        let m = m as u64;
        ns.extend_from_slice(&[m.saturating_sub(1), m, m + 1, 2 * m, 3 * m, 5 * m, 7 * m]);
    }
    for j in 0..64 { ns.push(1u64 << j); }
    ns.extend_from_slice(&[(1u64 << 63) + 1, u64::MAX, u64::MAX - 1, 3u64.pow(40), 5u64.pow(27), 7u64.pow(22), 6u64.pow(24)]);
    ns.sort(); ns.dedup();
    for n in ns {
        out.line(&format!("C07 root {} {:x}", id, n), &guarded(|| match F::get_root_of_unity(n) { Some(w) => h(&w), None => "none".into() }));
    }
    // distribute_powers(_and_mul_by_const)
    for len in [0usize, 1, 2, 7, 33] {
        let c = rvec::<F>(rng, len);
        let (g, k) = (rnd::<F>(rng), rnd::<F>(rng));
        let mut v = c.clone();
        Radix2EvaluationDomain::<F>::distribute_powers_and_mul_by_const(&mut v, g, k);
        out.line(&format!("C07 distpow {} {} {} {}", id, h(&g), h(&k), hl(&c)), &hl(&v));
        let mut v = c.clone();
        MixedRadixEvaluationDomain::<F>::distribute_powers(&mut v, g);
        out.line(&format!("C07 distpow {} {} 1 {}", id, h(&g), hl(&c)), &hl(&v));
    }
    kind_ops::<F, Radix2EvaluationDomain<F>>(id, &caps, thorough, rng, out);
    kind_ops::<F, MixedRadixEvaluationDomain<F>>(id, &caps, thorough, rng, out);
    kind_ops::<F, GeneralEvaluationDomain<F>>(id, &caps, thorough, rng, out);
    extra_ops::<F, Radix2EvaluationDomain<F>>(id, &caps, thorough, rng, out);
    extra_ops::<F, MixedRadixEvaluationDomain<F>>(id, &caps, thorough, rng, out);
    extra_ops::<F, GeneralEvaluationDomain<F>>(id, &caps, thorough, rng, out);
}

fn bitrev_ops(rng: &mut Rng, out: &mut Out) {
    let mut cases: Vec<(u32, usize)> = Vec::new();
    for w in 0..=7u32 { cases.push((w, 1usize << w)); }
    for (w, l) in [(0u32, 0usize), (0, 3), (1, 0), (1, 1), (1, 3), (2, 3), (2, 5), (3, 3), (3, 5), (3, 7), (3, 9), (2, 8), (4, 8), (31, 2), (32, 2), (33, 2), (40, 3), (64, 2)] { cases.push((w, l)); }
    for (w, l) in cases {
        let v: Vec<u64> = (0..l).map(|_| rng.next() >> 40).collect();
        let mut a = v.clone();
        let r = guarded(move || { bitreverse_permutation_in_place(&mut a, w); hex_list_u64(&a) });
        out.line(&format!("C07 bitrevperm {:x} {}", w, hex_list_u64(&v)), &r);
    }
}

fn main() {
    let a = arkharness::args();
    let mut rng = Rng::new(a.seed);
    let mut out = Out::new();
    let th = a.thorough;
    let (rng, out, only) = (&mut rng, &mut out, &a.only);
    use arkharness::zoo::*;
    use ark_test_curves::{bls12_381, bn384_small_two_adicity as bn384, mnt4_753, secp256k1};
    let c = |all_q: usize, all_t: usize, e_q: usize, e_t: usize, pt: usize| Caps { all_len: if th { all_t } else { all_q }, edge_max: if th { e_t } else { e_q }, point_max: pt, light: false, exhaustive: false };
    if only.is_none() { bitrev_ops(rng, out); }
    // tiny fields: every coefficient vector
    field_ops::<FDT3>("t3", Caps { exhaustive: true, ..c(4, 4, 4, 4, 4) }, th, rng, out, only);
    field_ops::<FDT5>("t5", Caps { exhaustive: true, ..c(4, 4, 4, 4, 4) }, th, rng, out, only);
    field_ops::<FDT7>("t7", Caps { exhaustive: true, ..c(4, 4, 4, 4, 4) }, th, rng, out, only);
    field_ops::<FDT13>("t13", Caps { exhaustive: th, ..c(4, 4, 4, 4, 4) }, th, rng, out, only);
    // two-adic toy fields
    field_ops::<FDT257>("t257", c(32, 256, 256, 256, 64), th, rng, out, only);
    field_ops::<FDT65537>("t65537", c(32, 128, 1 << 11, 1 << 13, 64), th, rng, out, only);
    field_ops::<FDGoldilocks>("goldilocks", c(16, 64, 1 << 10, 1 << 12, 32), th, rng, out, only);
    field_ops::<FDM61>("m61", c(2, 2, 2, 2, 2), th, rng, out, only);
    // mixed-radix toy fields
    field_ops::<M109>("m109", c(36, 108, 108, 108, 36), th, rng, out, only);
    field_ops::<M163>("m163", c(27, 162, 162, 162, 54), th, rng, out, only);
    field_ops::<M197>("m197", c(28, 196, 196, 196, 49), th, rng, out, only);
    field_ops::<M401>("m401", c(25, 100, 400, 400, 50), th, rng, out, only);
    field_ops::<M2593>("m2593", c(36, 108, 864, 2592, 54), th, rng, out, only);
    field_ops::<M2593B>("m2593b", c(18, 36, 288, 288, 36), th, rng, out, only);
    // shipped fields
    field_ops::<bls12_381::Fr>("bls381fr", c(16, 64, 1 << 10, 1 << 13, 32), th, rng, out, only);
    field_ops::<bn384::Fq>("bn384fq", c(12, 36, 1 << 8, 1 << 12, 18), th, rng, out, only);
    field_ops::<bn384::Fr>("bn384fr", Caps { light: true, ..c(0, 0, 1 << 7, 1 << 10, 0) }, th, rng, out, only);
    field_ops::<mnt4_753::Fr>("mnt4753fr", c(8, 32, 1 << 8, 1 << 11, 10), th, rng, out, only);
    field_ops::<mnt4_753::Fq>("mnt4753fq", Caps { light: true, ..c(0, 0, 1 << 7, 1 << 9, 0) }, th, rng, out, only);
    field_ops::<secp256k1::Fr>("secp256k1fr", Caps { light: true, ..c(0, 0, 64, 64, 0) }, th, rng, out, only);
    out.flush();
}
