//! C02: extension towers (QuadExtField / CubicExtField, Fp2, Fp3, Fp4, Fp6 2-over-3, Fp6 3-over-2, Fp12)
//! on every tower of `ark_test_curves` plus toy towers over zoo fields (exhaustive where small).
//!
//! Header line per tower:  `C02 cfg <id> <kind> <p> <constants read from the config traits> => <extension_degree>`
//! Op lines:               `C02 <op> <id> <args…> => <result>`
//! Elements are printed as comma-separated base-prime-field coordinates (`to_base_prime_field_elements`,
//! standard integer values, hex).
#![allow(dead_code, deprecated, non_camel_case_types, clippy::too_many_arguments)]
use ark_ff::fields::models::{fp6_2over3, fp6_3over2};
use ark_ff::{
    BigInteger, CubicExtConfig, CubicExtField, CyclotomicMultSubgroup, Field, Fp12, Fp12Config, Fp2, Fp2Config, Fp3,
    Fp3Config, Fp4, Fp4Config, MontFp, One, PrimeField, QuadExtConfig, QuadExtField, SqrtPrecomputation, ToConstraintField, Zero,
};
use arkharness::util::*;
use arkharness::zoo::{FDM61, FDT13, FDT3, FDT5, FDT7};
use std::collections::BTreeMap;

// ---------------------------------------------------------------------------------------------
// toy towers (constants computed by a Python script: β^((p^i-1)/d) tables, see the report)
// ---------------------------------------------------------------------------------------------

macro_rules! f2 {
    ($a:expr, $b:expr) => {
        Fp2::new(MontFp!($a), MontFp!($b))
    };
}
macro_rules! toy_fp2 {
    ($name:ident, $fp:ty, $nr:expr, $c1:expr) => {
        pub struct $name;
        impl Fp2Config for $name {
            type Fp = $fp;
            const NONRESIDUE: $fp = MontFp!($nr);
            const FROBENIUS_COEFF_FP2_C1: &'static [$fp] = &[MontFp!("1"), MontFp!($c1)];
        }
    };
}
toy_fp2!(Q2_3, FDT3, "2", "2"); // F_3, β = -1
toy_fp2!(Q2_7m, FDT7, "-1", "6"); // F_7, β = -1 (complex squaring)
toy_fp2!(Q2_7g, FDT7, "3", "6"); // F_7, β = 3  (general squaring)
toy_fp2!(Q2_13, FDT13, "2", "12"); // F_13, β = 2
toy_fp2!(Q2_5, FDT5, "2", "4"); // F_5, β = 2
toy_fp2!(Q2_M61, FDM61, "-1", "2305843009213693950"); // 2^61-1, β = -1

macro_rules! toy_fp3 {
    ($name:ident, $fp:ty, $nr:expr, [$a1:expr, $a2:expr], [$b1:expr, $b2:expr], $adicity:expr, $tm:expr, $qnrt:expr) => {
        pub struct $name;
        impl Fp3Config for $name {
            type Fp = $fp;
            const NONRESIDUE: $fp = MontFp!($nr);
            const TWO_ADICITY: u32 = $adicity;
            const TRACE_MINUS_ONE_DIV_TWO: &'static [u64] = &[$tm];
            const QUADRATIC_NONRESIDUE_TO_T: Fp3<Self> = Fp3::new(MontFp!($qnrt), MontFp!("0"), MontFp!("0"));
            const FROBENIUS_COEFF_FP3_C1: &'static [$fp] = &[MontFp!("1"), MontFp!($a1), MontFp!($a2)];
            const FROBENIUS_COEFF_FP3_C2: &'static [$fp] = &[MontFp!("1"), MontFp!($b1), MontFp!($b2)];
        }
    };
}
toy_fp3!(C3_7a, FDT7, "2", ["4", "2"], ["2", "4"], 1, 85, "6");
toy_fp3!(C3_7b, FDT7, "3", ["2", "4"], ["4", "2"], 1, 85, "6");
toy_fp3!(C3_13, FDT13, "2", ["3", "9"], ["9", "3"], 2, 274, "8");

// deliberately defective configurations (kind suffix `~`): conformance of the panic sites / guards only
toy_fp3!(R3_7cube, FDT7, "1", ["1", "1"], ["1", "1"], 1, 85, "6"); // NONRESIDUE = 1 is a cube: F_7[X]/(X^3-1) is not a field
pub struct R3_7short; // valid β = 2, Frobenius tables one entry short (slice index panics)
impl Fp3Config for R3_7short {
    type Fp = FDT7;
    const NONRESIDUE: FDT7 = MontFp!("2");
    const TWO_ADICITY: u32 = 1;
    const TRACE_MINUS_ONE_DIV_TWO: &'static [u64] = &[85];
    const QUADRATIC_NONRESIDUE_TO_T: Fp3<Self> = Fp3::new(MontFp!("6"), MontFp!("0"), MontFp!("0"));
    const FROBENIUS_COEFF_FP3_C1: &'static [FDT7] = &[MontFp!("1"), MontFp!("4")];
    const FROBENIUS_COEFF_FP3_C2: &'static [FDT7] = &[MontFp!("1"), MontFp!("2")];
}
// characteristic 3: the guard of the Granger–Scott squaring is false (there is no sextic tower over F_9)
#[derive(Clone, Copy)]
pub struct R6b_3;
impl fp6_3over2::Fp6Config for R6b_3 {
    type Fp2Config = Q2_3;
    const NONRESIDUE: Fp2<Q2_3> = f2!("1", "1");
    const FROBENIUS_COEFF_FP6_C1: &'static [Fp2<Q2_3>] =
        &[f2!("1", "0"), f2!("1", "0"), f2!("1", "0"), f2!("1", "0"), f2!("1", "0"), f2!("1", "0")];
    const FROBENIUS_COEFF_FP6_C2: &'static [Fp2<Q2_3>] =
        &[f2!("1", "0"), f2!("1", "0"), f2!("1", "0"), f2!("1", "0"), f2!("1", "0"), f2!("1", "0")];
}
#[derive(Clone, Copy)]
pub struct R12_3;
impl Fp12Config for R12_3 {
    type Fp6Config = R6b_3;
    const NONRESIDUE: fp6_3over2::Fp6<R6b_3> = fp6_3over2::Fp6::new(f2!("0", "0"), f2!("1", "0"), f2!("0", "0"));
    const FROBENIUS_COEFF_FP12_C1: &'static [Fp2<Q2_3>] = &[
        f2!("1", "0"), f2!("1", "0"), f2!("1", "0"), f2!("1", "0"), f2!("1", "0"), f2!("1", "0"),
        f2!("1", "0"), f2!("1", "0"), f2!("1", "0"), f2!("1", "0"), f2!("1", "0"), f2!("1", "0"),
    ];
}

pub struct Q4_13;
impl Fp4Config for Q4_13 {
    type Fp2Config = Q2_13;
    const NONRESIDUE: Fp2<Q2_13> = Fp2::new(MontFp!("0"), MontFp!("1"));
    const FROBENIUS_COEFF_FP4_C1: &'static [FDT13] = &[MontFp!("1"), MontFp!("8"), MontFp!("12"), MontFp!("5")];
}
pub struct Q4_5;
impl Fp4Config for Q4_5 {
    type Fp2Config = Q2_5;
    const NONRESIDUE: Fp2<Q2_5> = Fp2::new(MontFp!("0"), MontFp!("1"));
    const FROBENIUS_COEFF_FP4_C1: &'static [FDT5] = &[MontFp!("1"), MontFp!("2"), MontFp!("4"), MontFp!("3")];
}

// configurations that implement `QuadExtConfig` / `CubicExtConfig` DIRECTLY (no Fp2/Fp3 wrapper), so that the
// trait-default bodies of `mul_base_field_by_nonresidue_in_place` (and of the hooks built on it) are what runs
pub struct RawQ7; // F_7[X]/(X^2 - 3)
impl QuadExtConfig for RawQ7 {
    type BasePrimeField = FDT7;
    type BaseField = FDT7;
    type FrobCoeff = FDT7;
    const DEGREE_OVER_BASE_PRIME_FIELD: usize = 2;
    const NONRESIDUE: FDT7 = MontFp!("3");
    const FROBENIUS_COEFF_C1: &'static [FDT7] = &[MontFp!("1"), MontFp!("6")];
    fn mul_base_field_by_frob_coeff(fe: &mut FDT7, power: usize) { *fe *= &Self::FROBENIUS_COEFF_C1[power % 2]; }
}
pub struct RawC7; // F_7[X]/(X^3 - 3)
impl CubicExtConfig for RawC7 {
    type BasePrimeField = FDT7;
    type BaseField = FDT7;
    type FrobCoeff = FDT7;
    const SQRT_PRECOMP: Option<SqrtPrecomputation<CubicExtField<Self>>> = None;
    const DEGREE_OVER_BASE_PRIME_FIELD: usize = 3;
    const NONRESIDUE: FDT7 = MontFp!("3");
    const FROBENIUS_COEFF_C1: &'static [FDT7] = &[MontFp!("1"), MontFp!("2"), MontFp!("4")];
    const FROBENIUS_COEFF_C2: &'static [FDT7] = &[MontFp!("1"), MontFp!("4"), MontFp!("2")];
    fn mul_base_field_by_frob_coeff(c1: &mut FDT7, c2: &mut FDT7, power: usize) {
        *c1 *= &Self::FROBENIUS_COEFF_C1[power % 3];
        *c2 *= &Self::FROBENIUS_COEFF_C2[power % 3];
    }
}

pub struct S6a_7;
impl fp6_2over3::Fp6Config for S6a_7 {
    type Fp3Config = C3_7b;
    const NONRESIDUE: Fp3<C3_7b> = Fp3::new(MontFp!("0"), MontFp!("1"), MontFp!("0"));
    const FROBENIUS_COEFF_FP6_C1: &'static [FDT7] =
        &[MontFp!("1"), MontFp!("3"), MontFp!("2"), MontFp!("6"), MontFp!("4"), MontFp!("5")];
}
pub struct S6a_13;
impl fp6_2over3::Fp6Config for S6a_13 {
    type Fp3Config = C3_13;
    const NONRESIDUE: Fp3<C3_13> = Fp3::new(MontFp!("0"), MontFp!("1"), MontFp!("0"));
    const FROBENIUS_COEFF_FP6_C1: &'static [FDT13] =
        &[MontFp!("1"), MontFp!("4"), MontFp!("3"), MontFp!("12"), MontFp!("9"), MontFp!("10")];
}

#[derive(Clone, Copy)]
pub struct S6b_7;
impl fp6_3over2::Fp6Config for S6b_7 {
    type Fp2Config = Q2_7m;
    const NONRESIDUE: Fp2<Q2_7m> = f2!("1", "2");
    const FROBENIUS_COEFF_FP6_C1: &'static [Fp2<Q2_7m>] =
        &[f2!("1", "0"), f2!("4", "4"), f2!("4", "0"), f2!("2", "2"), f2!("2", "0"), f2!("1", "1")];
    const FROBENIUS_COEFF_FP6_C2: &'static [Fp2<Q2_7m>] =
        &[f2!("1", "0"), f2!("0", "4"), f2!("2", "0"), f2!("0", "1"), f2!("4", "0"), f2!("0", "2")];
}
#[derive(Clone, Copy)]
pub struct S6b_13;
impl fp6_3over2::Fp6Config for S6b_13 {
    type Fp2Config = Q2_13;
    const NONRESIDUE: Fp2<Q2_13> = f2!("1", "2");
    const FROBENIUS_COEFF_FP6_C1: &'static [Fp2<Q2_13>] =
        &[f2!("1", "0"), f2!("9", "7"), f2!("9", "0"), f2!("3", "11"), f2!("3", "0"), f2!("1", "8")];
    const FROBENIUS_COEFF_FP6_C2: &'static [Fp2<Q2_13>] =
        &[f2!("1", "0"), f2!("10", "9"), f2!("3", "0"), f2!("4", "1"), f2!("9", "0"), f2!("12", "3")];
}
#[derive(Clone, Copy)]
pub struct D12_7;
impl Fp12Config for D12_7 {
    type Fp6Config = S6b_7;
    const NONRESIDUE: fp6_3over2::Fp6<S6b_7> = fp6_3over2::Fp6::new(f2!("0", "0"), f2!("1", "0"), f2!("0", "0"));
    const FROBENIUS_COEFF_FP12_C1: &'static [Fp2<Q2_7m>] = &[
        f2!("1", "0"), f2!("1", "2"), f2!("5", "0"), f2!("5", "3"), f2!("4", "0"), f2!("4", "1"),
        f2!("6", "0"), f2!("6", "5"), f2!("2", "0"), f2!("2", "4"), f2!("3", "0"), f2!("3", "6"),
    ];
}
#[derive(Clone, Copy)]
pub struct D12_13;
impl Fp12Config for D12_13 {
    type Fp6Config = S6b_13;
    const NONRESIDUE: fp6_3over2::Fp6<S6b_13> = fp6_3over2::Fp6::new(f2!("0", "0"), f2!("1", "0"), f2!("0", "0"));
    const FROBENIUS_COEFF_FP12_C1: &'static [Fp2<Q2_13>] = &[
        f2!("1", "0"), f2!("9", "4"), f2!("10", "0"), f2!("12", "1"), f2!("9", "0"), f2!("3", "10"),
        f2!("12", "0"), f2!("4", "9"), f2!("3", "0"), f2!("1", "12"), f2!("4", "0"), f2!("10", "3"),
    ];
}

// ---------------------------------------------------------------------------------------------
// printing
// ---------------------------------------------------------------------------------------------

fn hx<P: PrimeField>(c: &P) -> String { hex_limbs(c.into_bigint().as_ref()) }
fn es<F: Field>(x: &F) -> String { x.to_base_prime_field_elements().map(|c| hx(&c)).collect::<Vec<_>>().join(",") }
fn oes<F: Field>(x: Option<F>) -> String { match x { Some(v) => es(&v), None => "none".into() } }
fn list<F: Field>(xs: &[F]) -> String {
    if xs.is_empty() { return "_".into(); }
    xs.iter().map(es).collect::<Vec<_>>().join(",")
}
fn modulus_hex<P: PrimeField>() -> String { hex_limbs(P::MODULUS.as_ref()) }

// ---------------------------------------------------------------------------------------------
// element generators
// ---------------------------------------------------------------------------------------------

fn rand_prime<P: PrimeField>(rng: &mut Rng) -> P {
    let nb = (P::MODULUS_BIT_SIZE as usize + 7) / 8 + 8;
    let bytes: Vec<u8> = (0..nb).map(|_| rng.next() as u8).collect();
    P::from_le_bytes_mod_order(&bytes)
}
/// edge coordinates of the prime field
fn prime_edges<P: PrimeField>() -> Vec<P> {
    let one = P::one();
    let two = one + one;
    let mut v = vec![P::zero(), one, two, -one, -two, (-one) / two, one / two];
    v.dedup();
    v
}
fn coord<P: PrimeField>(rng: &mut Rng, edges: &[P]) -> P {
    if rng.below(3) == 0 { edges[rng.below(edges.len() as u64) as usize] } else { rand_prime(rng) }
}
fn from_coords<F: Field>(v: Vec<F::BasePrimeField>) -> F { F::from_base_prime_field_elems(v).unwrap() }
fn rand_elem<F: Field>(rng: &mut Rng) -> F {
    let n = F::extension_degree() as usize;
    from_coords((0..n).map(|_| rand_prime(rng)).collect())
}
/// every element of the field (only for tiny fields)
fn all_elems<F: Field>() -> Vec<F> {
    let p = F::BasePrimeField::MODULUS.as_ref()[0];
    let n = F::extension_degree() as usize;
    let total = p.pow(n as u32);
    (0..total)
        .map(|mut t| {
            let mut v = Vec::with_capacity(n);
            for _ in 0..n { v.push(F::BasePrimeField::from(t % p)); t /= p; }
            from_coords(v)
        })
        .collect()
}
/// `log2(q)` of the field size, to decide on exhaustive enumeration
fn field_bits<F: Field>() -> f64 {
    let p = F::BasePrimeField::MODULUS;
    (p.num_bits() as f64) * (F::extension_degree() as f64)
}
fn is_tiny<F: Field>(limit: u64) -> bool {
    let pb = F::BasePrimeField::MODULUS;
    if pb.num_bits() > 16 { return false; }
    let p = pb.as_ref()[0] as f64;
    p.powi(F::extension_degree() as i32) <= limit as f64
}
/// structured operands: zero/one/-1, basis vectors, subfield (prefix) elements, elements with zero
/// coordinates, all-(p-1), random
fn structured<F: Field>(rng: &mut Rng, nrand: usize) -> Vec<F> {
    let n = F::extension_degree() as usize;
    let z = F::BasePrimeField::zero();
    let edges = prime_edges::<F::BasePrimeField>();
    let m1 = -F::BasePrimeField::one();
    let mut out: Vec<F> = vec![F::zero(), F::one(), -F::one()];
    for i in 0..n {
        let mut v = vec![z; n]; v[i] = F::BasePrimeField::one(); out.push(from_coords(v));
        let mut v = vec![z; n]; v[i] = m1; out.push(from_coords(v));
        let mut v = vec![z; n]; v[i] = rand_prime(rng); out.push(from_coords(v));
        // one zero coordinate
        let mut v: Vec<_> = (0..n).map(|_| coord(rng, &edges)).collect(); v[i] = z; out.push(from_coords(v));
    }
    // proper subfields embedded as coordinate prefixes (Fp, Fp2 / Fp3, Fp6 …)
    for d in [1usize, 2, 3, 4, 6] {
        if d < n && n % d == 0 {
            for _ in 0..2 {
                let mut v = vec![z; n];
                for c in v.iter_mut().take(d) { *c = coord(rng, &edges); }
                out.push(from_coords(v));
            }
        }
    }
    out.push(from_coords(vec![m1; n]));
    out.push(from_coords(vec![F::BasePrimeField::one(); n]));
    for _ in 0..nrand { out.push(from_coords((0..n).map(|_| coord(rng, &edges)).collect())); }
    for _ in 0..nrand { out.push(rand_elem(rng)); }
    out
}
fn operands<F: Field>(rng: &mut Rng, tiny_limit: u64, nrand: usize) -> (Vec<F>, bool) {
    if is_tiny::<F>(tiny_limit) { (all_elems::<F>(), true) } else { (structured::<F>(rng, nrand), false) }
}

// ---------------------------------------------------------------------------------------------
// what the two templates offer beyond the `Field` trait
// ---------------------------------------------------------------------------------------------

trait Tw: Field + CyclotomicMultSubgroup {
    type Base: Field;
    fn norm_s(&self) -> String;
    fn mulbase(&self, e: &Self::Base) -> Self;
    fn conj(&self) -> Option<Self>;
    /// the overridable non-residue hooks of the config, called directly: (op name, result)
    fn hooks(y: &Self::Base, x: &Self::Base) -> Vec<(&'static str, bool, Self::Base)>;
    /// the template is `CubicExtField` (whose `From<bool>` does not terminate)
    const TOP_CUBIC: bool;
    /// `self ⊕ other` through receiver shape `v` (0..9) of operator `op` (0 add, 1 sub, 2 mul, 3 div):
    /// the impls of `fields/arithmetic.rs` (`impl_additive_ops_from_ref!`, `impl_multiplicative_ops_from_ref!`)
    fn opvar(&self, other: &Self, op: usize, v: usize) -> Self;
    /// `ToConstraintField::to_field_elements` of the extension element
    fn tfe(&self) -> String;
}
/// the nine receiver shapes: `T⊕T`, `T⊕&T`, `T⊕&mut T`, `&T⊕T`, `&T⊕&T`, `&T⊕&mut T`, `⊕= T`, `⊕= &T`, `⊕= &mut T`
macro_rules! variant9 {
    ($x:expr, $y:expr, $v:expr, $op:tt, $opa:tt) => {{
        let x = $x;
        let mut y = $y;
        match $v {
            0 => x $op y,
            1 => x $op &y,
            2 => x $op &mut y,
            3 => &x $op y,
            4 => &x $op &y,
            5 => &x $op &mut y,
            6 => { let mut z = x; z $opa y; z }
            7 => { let mut z = x; z $opa &y; z }
            _ => { let mut z = x; z $opa &mut y; z }
        }
    }};
}
macro_rules! opvar_body {
    ($s:expr, $o:expr, $op:expr, $v:expr) => {
        match $op {
            0 => variant9!(*$s, *$o, $v, +, +=),
            1 => variant9!(*$s, *$o, $v, -, -=),
            2 => variant9!(*$s, *$o, $v, *, *=),
            _ => variant9!(*$s, *$o, $v, /, /=),
        }
    };
}
impl<P: QuadExtConfig> Tw for QuadExtField<P>
where
    QuadExtField<P>: CyclotomicMultSubgroup,
    P::BaseField: ToConstraintField<P::BasePrimeField>,
{
    const TOP_CUBIC: bool = false;
    fn opvar(&self, other: &Self, op: usize, v: usize) -> Self { opvar_body!(self, other, op, v) }
    fn tfe(&self) -> String { match self.to_field_elements() { Some(v) => list(&v), None => "none".into() } }
    type Base = P::BaseField;
    fn norm_s(&self) -> String { let s = *self; guarded(move || es(&s.norm())) }
    fn mulbase(&self, e: &Self::Base) -> Self { let mut r = *self; r.mul_assign_by_basefield(e); r }
    fn conj(&self) -> Option<Self> { let mut r = *self; r.conjugate_in_place(); Some(r) }
    fn hooks(y: &Self::Base, x: &Self::Base) -> Vec<(&'static str, bool, Self::Base)> {
        let mut a = *y; P::mul_base_field_by_nonresidue_in_place(&mut a);
        let mut b = *y; P::mul_base_field_by_nonresidue_and_add(&mut b, x);
        let mut c = *y; P::mul_base_field_by_nonresidue_plus_one_and_add(&mut c, x);
        let mut d = *y; P::sub_and_mul_base_field_by_nonresidue(&mut d, x);
        vec![("hnr", false, a), ("hnradd", true, b), ("hnrp1", true, c), ("hsub", true, d)]
    }
}
impl<P: CubicExtConfig> Tw for CubicExtField<P>
where
    CubicExtField<P>: CyclotomicMultSubgroup,
    P::BaseField: ToConstraintField<P::BasePrimeField>,
{
    const TOP_CUBIC: bool = true;
    fn opvar(&self, other: &Self, op: usize, v: usize) -> Self { opvar_body!(self, other, op, v) }
    fn tfe(&self) -> String { match self.to_field_elements() { Some(v) => list(&v), None => "none".into() } }
    type Base = P::BaseField;
    fn norm_s(&self) -> String { let s = *self; guarded(move || es(&s.norm())) }
    fn mulbase(&self, e: &Self::Base) -> Self { let mut r = *self; r.mul_assign_by_base_field(e); r }
    fn conj(&self) -> Option<Self> { None }
    fn hooks(y: &Self::Base, _x: &Self::Base) -> Vec<(&'static str, bool, Self::Base)> {
        let mut a = *y; P::mul_base_field_by_nonresidue_in_place(&mut a);
        vec![("hnr", false, a), ("hnr", false, P::mul_base_field_by_nonresidue(*y))]
    }
}

struct Plan {
    thorough: bool,
    /// enumerate the field when it has at most this many elements
    tiny_limit: u64,
    nrand: usize,
    /// cap on the number of (ordered) pairs for binary ops
    max_pairs: usize,
    /// heavy unary ops (all Frobenius powers, base multiplications, off-subgroup cyclotomic ops) on every k-th element
    heavy_every: usize,
    /// cap on cyclotomic-subgroup members
    max_cyc: usize,
}

fn exps(rng: &mut Rng, thorough: bool) -> Vec<Vec<u64>> {
    let mut v: Vec<Vec<u64>> = vec![
        vec![], vec![0], vec![1], vec![2], vec![3], vec![7], vec![u64::MAX], vec![0, 1], vec![1 << 63],
        vec![0xd201000000010000], vec![5, 0], vec![0, 0], vec![u64::MAX, u64::MAX], vec![u64::MAX - 1, 1],
        vec![0x5555555555555555], vec![0xaaaaaaaaaaaaaaaa, 0x2],
    ];
    for _ in 0..(if thorough { 12 } else { 3 }) {
        v.push(vec![rng.next()]);
        v.push(vec![rng.next(), rng.next() >> rng.below(64)]);
    }
    v
}

/// re-executes this binary with `arg` (one call that may not terminate) under a time limit; result: the child's
/// output line, `hang` (killed after `secs`), `stack-overflow` (SIGSEGV / SIGABRT) or `panic`
fn run_child(arg: &str, secs: u64) -> String {
    use std::io::Read;
    use std::process::{Command, Stdio};
    let exe = std::env::current_exe().unwrap();
    let mut ch = Command::new(exe).arg(arg).stdout(Stdio::piped()).stderr(Stdio::null()).spawn().unwrap();
    let t0 = std::time::Instant::now();
    loop {
        match ch.try_wait().unwrap() {
            Some(st) => {
                if st.success() {
                    let mut o = String::new();
                    ch.stdout.take().unwrap().read_to_string(&mut o).unwrap();
                    return o.trim().to_string();
                }
                #[cfg(unix)]
                { use std::os::unix::process::ExitStatusExt; if let Some(sig) = st.signal() { return if sig == 11 || sig == 6 { "stack-overflow".into() } else { format!("signal-{}", sig) }; } }
                return if st.code() == Some(101) { "panic".into() } else { format!("exit-{:?}", st.code()) };
            }
            None => {
                if t0.elapsed().as_secs() >= secs { let _ = ch.kill(); let _ = ch.wait(); return "hang".into(); }
                std::thread::sleep(std::time::Duration::from_millis(10));
            }
        }
    }
}
/// child mode `child-bool:<id>:<0|1>`: `F::from(bool)` of a cubic tower on a thread with a small stack
fn child_from_bool<F: Field>(v: bool) {
    let t = std::thread::Builder::new().stack_size(256 * 1024).spawn(move || es(&F::from(v))).unwrap();
    match t.join() { Ok(s) => println!("{}", s), Err(_) => std::process::exit(101) }
}
fn child_main(arg: &str) {
    use ark_test_curves::{bls12_381, mnt6_753};
    let parts: Vec<&str> = arg.split(':').collect();
    let v = parts.get(2) == Some(&"1");
    match parts.get(1).copied().unwrap_or("") {
        "t3_7a" => child_from_bool::<Fp3<C3_7a>>(v),
        "t3_7b" => child_from_bool::<Fp3<C3_7b>>(v),
        "t3_13" => child_from_bool::<Fp3<C3_13>>(v),
        "t6b_7" => child_from_bool::<fp6_3over2::Fp6<S6b_7>>(v),
        "t6b_13" => child_from_bool::<fp6_3over2::Fp6<S6b_13>>(v),
        "r3_7cube" => child_from_bool::<Fp3<R3_7cube>>(v),
        "r3_7short" => child_from_bool::<Fp3<R3_7short>>(v),
        "bls_fq6" => child_from_bool::<bls12_381::Fq6>(v),
        "mnt6_fq3" => child_from_bool::<mnt6_753::Fq3>(v),
        "raw3_7" => child_from_bool::<CubicExtField<RawC7>>(v),
        _ => std::process::exit(2),
    }
}

fn hi128(v: i128) -> String { if v < 0 { format!("-{:x}", v.unsigned_abs()) } else { format!("{:x}", v) } }

/// `From<{u8,…,u128,i8,…,i128,bool}>` of any field (bool of the cubic template: in a child process)
fn from_ints<F: Field>(id: &str, top_cubic: bool, thorough: bool, rng: &mut Rng, out: &mut Out) {
    let p0 = F::BasePrimeField::MODULUS.as_ref()[0] as i128;
    let small_p = F::BasePrimeField::MODULUS.num_bits() <= 62;
    macro_rules! from_w {
        ($w:ty, $name:expr, $signed:expr) => {{
            let (lo, hi) = (<$w>::MIN as i128, <$w>::MAX as i128);
            let mut xs: Vec<i128> = if $signed { vec![-1, 0, 1, lo, hi, lo + 1] } else { vec![0, 1, hi, hi - 1] };
            if small_p { for c in [p0, p0 - 1, p0 + 1, 2 * p0 + 1, -p0, -p0 + 1, -p0 - 1] { if c >= lo && c <= hi { xs.push(c); } } }
            for _ in 0..(if thorough { 6 } else { 1 }) { xs.push((rng.next() as $w) as i128); }
            xs.sort(); xs.dedup();
            for x in xs {
                let v = x as $w;
                out.line(&format!("C02 fromw {} {} {}", id, $name, hi128(x)), &guarded(|| es(&F::from(v))));
            }
        }};
    }
    from_w!(u8, "u8", false); from_w!(u16, "u16", false); from_w!(u32, "u32", false); from_w!(u64, "u64", false);
    from_w!(i8, "i8", true); from_w!(i16, "i16", true); from_w!(i32, "i32", true); from_w!(i64, "i64", true); from_w!(i128, "i128", true);
    {
        let mut xs: Vec<u128> = vec![0, 1, u128::MAX, u128::MAX - 1, 1 << 127, (1 << 127) - 1, ((rng.next() as u128) << 64) | rng.next() as u128];
        if small_p { xs.push(p0 as u128); xs.push(p0 as u128 * 3 + 2); }
        for x in xs { out.line(&format!("C02 fromw {} u128 {:x}", id, x), &guarded(|| es(&F::from(x)))); }
    }
    for v in [false, true] {
        let r = if top_cubic {
            // known: unconditional recursion; quick tier probes it for three towers only
            if thorough || id == "t3_7a" || (v && (id == "mnt6_fq3" || id == "t6b_7")) { run_child(&format!("child-bool:{}:{}", id, v as u8), 1) } else { continue }
        } else { guarded(|| es(&F::from(v))) };
        out.line(&format!("C02 fromw {} bool {}", id, v as u8), &r);
    }
}

/// `ToConstraintField` impls of `to_field_vec.rs` at the field `F` and its base prime field
fn tfe_ops<F: Field>(id: &str, xs: &[F], thorough: bool, rng: &mut Rng, out: &mut Out) {
    type BP<F> = <F as Field>::BasePrimeField;
    let show = |r: Option<Vec<F>>| match r { Some(v) => list(&v), None => "none".into() };
    let showp = |r: Option<Vec<BP<F>>>| match r { Some(v) => list(&v), None => "none".into() };
    out.line(&format!("C02 tfe_bool {} 0", id), &show(ToConstraintField::<F>::to_field_elements(&false)));
    out.line(&format!("C02 tfe_bool {} 1", id), &show(ToConstraintField::<F>::to_field_elements(&true)));
    out.line(&format!("C02 tfe_unit {}", id), &show(ToConstraintField::<F>::to_field_elements(&())));
    for len in [0usize, 1, 3] {
        let v: Vec<F> = (0..len).map(|k| xs[(7 * k + len) % xs.len()]).collect();
        out.line(&format!("C02 tfe_slice {} {}", id, list(&v)), &show(ToConstraintField::<F>::to_field_elements(&v[..])));
    }
    for e in prime_edges::<BP<F>>().into_iter().chain((0..2).map(|_| rand_prime::<BP<F>>(rng))) {
        out.line(&format!("C02 tfe_prime {} {}", id, hx(&e)), &showp(ToConstraintField::<BP<F>>::to_field_elements(&e)));
    }
    // byte packing: chunks of (MODULUS_BIT_SIZE - 1) / 8 bytes
    let ms = ((BP::<F>::MODULUS_BIT_SIZE - 1) / 8) as usize;
    let mut lens = vec![0usize, 1, ms.saturating_sub(1), ms, ms + 1, 2 * ms, 2 * ms + 1, 32, 33, 3 * ms + 2];
    if thorough { lens.extend_from_slice(&[2, 7, 8, 9, 31, 64, 100, 5 * ms]); }
    if ms == 0 { lens = vec![0, 1, 32]; }   // moduli below 2^8: `chunks(0)` panics whatever the input
    lens.sort(); lens.dedup();
    for len in lens {
        for pat in 0..(if thorough { 3 } else { 2 }) {
            let bytes: Vec<u8> = (0..len).map(|_| if pat == 0 { 0xff } else { rng.next() as u8 }).collect();
            let inp = format!("C02 tfe_bytes {} {}", id, hex_list_u8(&bytes));
            let b1 = bytes.clone();
            out.line(&inp, &guarded(move || showp(ToConstraintField::<BP<F>>::to_field_elements(&b1[..]))));
            if pat == 0 {
                let b2 = bytes.clone();
                out.line(&inp, &guarded(move || showp(ToConstraintField::<BP<F>>::to_field_elements(&b2))));   // Vec<u8>
                if len == 32 {
                    let mut a = [0u8; 32]; a.copy_from_slice(&bytes);
                    out.line(&inp, &guarded(move || showp(ToConstraintField::<BP<F>>::to_field_elements(&a))));   // [u8; 32]
                }
            }
        }
    }
}

/// coverage-gap ops shared by all towers: inverse_in_place, receiver variants of + − × ÷, Sum / Product,
/// From<int>, Zeroize, Valid, ToConstraintField
fn gap_common<F: Tw>(id: &str, xs: &[F], plan: &Plan, rng: &mut Rng, out: &mut Out) {
    let m = xs.len();
    let n = F::extension_degree() as usize;
    let pick = |rng: &mut Rng| xs[rng.below(m as u64) as usize];
    let step = (m / (if plan.thorough { 60 } else { 14 })).max(1);
    for (i, x) in xs.iter().enumerate() {
        if i % step != 0 && i >= 3 { continue; }
        let a = es(x);
        let mut y = *x;
        let r = guarded(|| { let r = y.inverse_in_place().map(|v| *v); format!("{} {}", oes(r), es(&y)) });
        out.line(&format!("C02 invip {} {}", id, a), &r);
        if i % (4 * step) == 0 || i < 3 {
            let mut z = *x; zeroize::Zeroize::zeroize(&mut z);
            out.line(&format!("C02 zeroize {} {}", id, a), &es(&z));
            out.line(&format!("C02 valid {} {}", id, a), if x.check().is_ok() { "ok" } else { "err" });
            out.line(&format!("C02 tfe {} {}", id, a), &x.tfe());
        }
    }
    // operator receiver variants: 0, 1, -1 and random operands; every pair: one Div shape + add, sub, mul shapes in turn
    let mut sel: Vec<F> = vec![F::zero(), F::one(), -F::one()];
    for _ in 0..(if plan.thorough { 6 } else { 3 }) { sel.push(pick(rng)); }
    let mut pairs: Vec<(F, F)> = Vec::new();
    for a in &sel { for b in &sel { pairs.push((*a, *b)); } }
    for _ in 0..(if plan.thorough { 80 } else { 9 }) { pairs.push((pick(rng), pick(rng))); }
    for (t, (x, y)) in pairs.iter().enumerate() {
        let (x, y) = (*x, *y);
        let (a, b) = (es(&x), es(&y));
        if plan.thorough || t % 3 == 0 { out.line(&format!("C02 add {} {} {}", id, a, b), &es(&x.opvar(&y, 0, t % 9))); }
        if plan.thorough || t % 3 == 1 { out.line(&format!("C02 sub {} {} {}", id, a, b), &es(&x.opvar(&y, 1, (t + 3) % 9))); }
        if plan.thorough || t % 3 == 2 { out.line(&format!("C02 mul {} {} {}", id, a, b), &es(&x.opvar(&y, 2, (t + 6) % 9))); }
        out.line(&format!("C02 div {} {} {}", id, a, b), &guarded(move || es(&x.opvar(&y, 3, (t + 4) % 9))));
    }
    // Sum / Product, owned and by reference
    for len in [0usize, 1, 2, 3, if plan.thorough { 20 } else { 7 }] {
        let v: Vec<F> = (0..len).map(|_| pick(rng)).collect();
        let l = list(&v);
        out.line(&format!("C02 sum {} {}", id, l), &es(&v.iter().copied().sum::<F>()));
        out.line(&format!("C02 sum {} {}", id, l), &es(&v.iter().sum::<F>()));
        out.line(&format!("C02 prod {} {}", id, l), &es(&v.iter().copied().product::<F>()));
        out.line(&format!("C02 prod {} {}", id, l), &es(&v.iter().product::<F>()));
    }
    let _ = n;
    from_ints::<F>(id, F::TOP_CUBIC, plan.thorough, rng, out);
    tfe_ops::<F>(id, xs, plan.thorough, rng, out);
}

/// towers over configurations that implement `QuadExtConfig` / `CubicExtConfig` directly: the field operations
/// (no cyclotomic ops: `CyclotomicMultSubgroup` exists for the wrapper types only) and the hook lines
fn run_raw<F: Field>(id: &str, kind: &str, consts: &str, top_cubic: bool, hooks: &dyn Fn(&mut Out), rng: &mut Rng, thorough: bool, out: &mut Out) {
    cfg_line::<F>(id, kind, consts, out);
    let xs = all_elems::<F>();
    for x in &xs {
        let a = es(x);
        let x = *x;
        out.line(&format!("C02 neg {} {}", id, a), &es(&-x));
        out.line(&format!("C02 double {} {}", id, a), &es(&x.double()));
        out.line(&format!("C02 square {} {}", id, a), &es(&x.square()));
        out.line(&format!("C02 inverse {} {}", id, a), &guarded(move || oes(x.inverse())));
        let mut y = x;
        out.line(&format!("C02 invip {} {}", id, a), &guarded(|| { let r = y.inverse_in_place().map(|v| *v); format!("{} {}", oes(r), es(&y)) }));
        for k in [0usize, 1, 2, 3, 4] { out.line(&format!("C02 frob {} {:x} {}", id, k, a), &guarded(move || es(&x.frobenius_map(k)))); }
    }
    let m = xs.len();
    for t in 0..(if thorough { 4000 } else { 400 }) {
        let (x, y) = if t < m { (xs[t], xs[(t * 31 + 5) % m]) } else { (xs[rng.below(m as u64) as usize], xs[rng.below(m as u64) as usize]) };
        let (a, b) = (es(&x), es(&y));
        out.line(&format!("C02 mul {} {} {}", id, a, b), &es(&(x * y)));
        if t % 4 == 0 {
            out.line(&format!("C02 add {} {} {}", id, a, b), &es(&(x + y)));
            out.line(&format!("C02 sub {} {} {}", id, a, b), &es(&(x - y)));
            out.line(&format!("C02 div {} {} {}", id, a, b), &guarded(move || es(&(x / y))));
        }
    }
    hooks(out);
    from_ints::<F>(id, top_cubic, thorough, rng, out);
}

/// operations shared by all towers
fn common<F: Tw>(id: &str, xs: &[F], exhaustive: bool, cyc: &[F], plan: &Plan, rng: &mut Rng, out: &mut Out) {
    let n = F::extension_degree() as usize;
    let edges = prime_edges::<F::BasePrimeField>();
    let base_pool: Vec<F::Base> = {
        let mut v = structured::<F::Base>(rng, 2);
        if v.len() > 24 && !plan.thorough { v.truncate(24); }
        v
    };
    let mut ks: Vec<usize> = (0..=n + 1).collect();
    ks.extend_from_slice(&[2 * n, 2 * n + 1, 1_000_003, usize::MAX]);
    for (i, x) in xs.iter().enumerate() {
        let a = es(x);
        let x = *x;
        out.line(&format!("C02 neg {} {}", id, a), &es(&-x));
        out.line(&format!("C02 double {} {}", id, a), &es(&x.double()));
        out.line(&format!("C02 square {} {}", id, a), &es(&x.square()));
        out.line(&format!("C02 inverse {} {}", id, a), &guarded(move || oes(x.inverse())));
        out.line(&format!("C02 norm {} {}", id, a), &x.norm_s());
        if let Some(c) = x.conj() { out.line(&format!("C02 conj {} {}", id, a), &es(&c)); }
        out.line(&format!("C02 frob {} 1 {}", id, a), &guarded(move || es(&x.frobenius_map(1))));
        if i % plan.heavy_every == 0 {
            for &k in &ks {
                if k == 1 { continue; }
                out.line(&format!("C02 frob {} {:x} {}", id, k, a), &guarded(move || es(&x.frobenius_map(k))));
            }
            for e in [edges[0], edges[1], edges[3], rand_prime(rng)] {
                out.line(&format!("C02 mulprime {} {} {}", id, a, hx(&e)), &es(&x.mul_by_base_prime_field(&e)));
            }
            for t in 0..3 {
                let e = base_pool[(i + 7 * t) % base_pool.len()];
                out.line(&format!("C02 mulbase {} {} {}", id, a, es(&e)), &es(&x.mulbase(&e)));
            }
            // cyclotomic entry points off the subgroup: conformance of the model only
            out.line(&format!("C02 cycsq_nm {} {}", id, a), &es(&x.cyclotomic_square()));
            out.line(&format!("C02 cycinv_nm {} {}", id, a), &guarded(move || oes(x.cyclotomic_inverse())));
            for e in [vec![], vec![1u64], vec![6], vec![u64::MAX], vec![rng.next(), 3]] {
                let e2 = e.clone();
                out.line(&format!("C02 cycexp_nm {} {} {}", id, a, hex_list_u64(&e)), &guarded(move || es(&x.cyclotomic_exp(&e2))));
            }
        }
    }
    // binary operations
    let m = xs.len();
    let mut pairs: Vec<(usize, usize)> = Vec::new();
    if m * m <= plan.max_pairs {
        for i in 0..m { for j in 0..m { pairs.push((i, j)); } }
    } else {
        let head = if exhaustive { 0 } else { m.min(((plan.max_pairs / 2) as f64).sqrt() as usize) };
        for i in 0..head { for j in 0..head { pairs.push((i, j)); } }
        for i in 0..m { pairs.push((i, i)); }
        while pairs.len() < plan.max_pairs { pairs.push((rng.below(m as u64) as usize, rng.below(m as u64) as usize)); }
    }
    for (t, &(i, j)) in pairs.iter().enumerate() {
        let (x, y) = (xs[i], xs[j]);
        let (a, b) = (es(&x), es(&y));
        out.line(&format!("C02 mul {} {} {}", id, a, b), &es(&(x * y)));
        if t % 4 == 0 {
            out.line(&format!("C02 add {} {} {}", id, a, b), &es(&(x + y)));
            out.line(&format!("C02 sub {} {} {}", id, a, b), &es(&(x - y)));
        }
    }
    // the non-residue hooks on base-field operands
    for (i, y) in base_pool.iter().enumerate() {
        let x = base_pool[(3 * i + 1) % base_pool.len()];
        for (name, two, r) in F::hooks(y, &x) {
            if two { out.line(&format!("C02 {} {} {} {}", name, id, es(y), es(&x)), &es(&r)); }
            else { out.line(&format!("C02 {} {} {}", name, id, es(y)), &es(&r)); }
        }
    }
    // from_base_prime_field_elems on lists of several lengths
    for len in [0usize, 1, n - 1, n, n + 1, 2 * n] {
        let v: Vec<F::BasePrimeField> = (0..len).map(|_| coord(rng, &edges)).collect();
        let inp = if v.is_empty() { "_".to_string() } else { v.iter().map(hx).collect::<Vec<_>>().join(",") };
        out.line(&format!("C02 fromelems {} {}", id, inp), &oes(F::from_base_prime_field_elems(v)));
    }
    // cyclotomic subgroup
    let es_list = exps(rng, plan.thorough);
    for (i, g) in cyc.iter().enumerate() {
        let g = *g;
        let a = es(&g);
        out.line(&format!("C02 cycsq {} {}", id, a), &es(&g.cyclotomic_square()));
        out.line(&format!("C02 cycinv {} {}", id, a), &guarded(move || oes(g.cyclotomic_inverse())));
        let cnt = if i < 4 || plan.thorough { es_list.len() } else { 3 };
        for t in 0..cnt {
            let e = if i < 4 || plan.thorough { es_list[t].clone() } else { es_list[(i * 3 + t) % es_list.len()].clone() };
            let e2 = e.clone();
            out.line(&format!("C02 cycexp {} {} {}", id, a, hex_list_u64(&e)), &guarded(move || es(&g.cyclotomic_exp(&e2))));
        }
    }
    gap_common(id, xs, plan, rng, out);
}

/// members of the cyclotomic subgroup: `f ↦ f^((p^n-1)/Φ_n(p))` through the implementation's own
/// Frobenius and inverse (the driver re-checks membership with its spec): `steps` = list of (k, divide):
/// `g ← frob_k(g) / g` or `g ← frob_k(g) · g`
fn cyc_members<F: Field>(src: &[F], steps: &[(usize, bool)], cap: usize) -> Vec<F> {
    let mut seen: BTreeMap<String, F> = BTreeMap::new();
    let mut order: Vec<F> = Vec::new();
    for f in src {
        if f.is_zero() { continue; }
        let mut g = *f;
        for &(k, div) in steps {
            let fr = g.frobenius_map(k);
            g = if div { fr * g.inverse().unwrap() } else { fr * g };
        }
        let key = es(&g);
        if !seen.contains_key(&key) { seen.insert(key, g); order.push(g); if order.len() >= cap { break; } }
    }
    order
}

fn hdr_fp2<P: Fp2Config>(hooks: &str) -> String {
    format!("{} {} {}", hooks, hx(&P::NONRESIDUE), list(P::FROBENIUS_COEFF_FP2_C1))
}
fn hdr_fp3<P: Fp3Config>() -> String {
    format!("{} {} {}", hx(&P::NONRESIDUE), list(P::FROBENIUS_COEFF_FP3_C1), list(P::FROBENIUS_COEFF_FP3_C2))
}
fn hdr_fp6b<P: fp6_3over2::Fp6Config>(h2: &str, h6: &str) -> String {
    format!("{} {} {} {} {}", hdr_fp2::<P::Fp2Config>(h2), h6, es(&P::NONRESIDUE), list(P::FROBENIUS_COEFF_FP6_C1), list(P::FROBENIUS_COEFF_FP6_C2))
}
fn cfg_line<F: Field>(id: &str, kind: &str, consts: &str, out: &mut Out) {
    out.line(&format!("C02 cfg {} {} {} {}", id, kind, modulus_hex::<F::BasePrimeField>(), consts), &format!("{:x}", F::extension_degree()));
}
fn want(only: &Option<String>, id: &str) -> bool { match only { Some(o) => o == id, None => true } }

fn src_for_cyc<F: Field>(xs: &[F], exhaustive: bool, rng: &mut Rng, n: usize) -> Vec<F> {
    if exhaustive { xs.to_vec() } else { let mut v = xs.to_vec(); for _ in 0..n { v.push(rand_elem(rng)); } v }
}

fn run_fp2<P: Fp2Config>(id: &str, hooks: &str, plan: &Plan, rng: &mut Rng, out: &mut Out) {
    type E<P> = Fp2<P>;
    cfg_line::<E<P>>(id, "fp2", &hdr_fp2::<P>(hooks), out);
    let (xs, ex) = operands::<E<P>>(rng, plan.tiny_limit, plan.nrand);
    let cyc = cyc_members(&src_for_cyc(&xs, ex, rng, plan.max_cyc), &[(1, true)], plan.max_cyc);
    common(id, &xs, ex, &cyc, plan, rng, out);
    let edges = prime_edges::<P::Fp>();
    for (i, x) in xs.iter().enumerate() {
        if i % plan.heavy_every != 0 { continue; }
        for e in [edges[0], edges[3], coord(rng, &edges)] {
            let mut r = *x; r.mul_assign_by_fp(&e);
            out.line(&format!("C02 mulfp {} {} {}", id, es(x), hx(&e)), &es(&r));
        }
    }
}

fn run_fp3<P: Fp3Config>(id: &str, ring: bool, plan: &Plan, rng: &mut Rng, out: &mut Out) {
    type E<P> = Fp3<P>;
    cfg_line::<E<P>>(id, if ring { "fp3~" } else { "fp3" }, &hdr_fp3::<P>(), out);
    let (xs, ex) = operands::<E<P>>(rng, plan.tiny_limit, plan.nrand);
    let cyc = if ring { vec![] } else { cyc_members(&src_for_cyc(&xs, ex, rng, plan.max_cyc), &[(1, true)], plan.max_cyc.min(60)) };
    common(id, &xs, ex, &cyc, plan, rng, out);
    let edges = prime_edges::<P::Fp>();
    for (i, x) in xs.iter().enumerate() {
        if i % plan.heavy_every != 0 { continue; }
        for e in [edges[0], edges[3], coord(rng, &edges)] {
            let mut r = *x; r.mul_assign_by_fp(&e);
            out.line(&format!("C02 mulfp {} {} {}", id, es(x), hx(&e)), &es(&r));
        }
    }
}

fn run_fp4<P: Fp4Config>(id: &str, hooks2: &str, plan: &Plan, rng: &mut Rng, out: &mut Out) {
    type E<P> = Fp4<P>;
    let consts = format!("{} {} {}", hdr_fp2::<P::Fp2Config>(hooks2), es(&P::NONRESIDUE), list(P::FROBENIUS_COEFF_FP4_C1));
    cfg_line::<E<P>>(id, "fp4", &consts, out);
    let (xs, ex) = operands::<E<P>>(rng, plan.tiny_limit, plan.nrand);
    let cyc = cyc_members(&src_for_cyc(&xs, ex, rng, plan.max_cyc), &[(2, true)], plan.max_cyc);
    common(id, &xs, ex, &cyc, plan, rng, out);
    let edges = prime_edges::<<P::Fp2Config as Fp2Config>::Fp>();
    let pool2 = structured::<Fp2<P::Fp2Config>>(rng, 3);
    for (i, x) in xs.iter().enumerate() {
        if i % plan.heavy_every != 0 { continue; }
        for e in [edges[0], edges[3], coord(rng, &edges)] {
            let mut r = *x; r.mul_by_fp(&e);
            out.line(&format!("C02 mulfp {} {} {}", id, es(x), hx(&e)), &es(&r));
        }
        for t in 0..3 {
            let e = pool2[(i + 5 * t) % pool2.len()];
            let mut r = *x; r.mul_by_fp2(&e);
            out.line(&format!("C02 mulfp2 {} {} {}", id, es(x), es(&e)), &es(&r));
        }
    }
}

fn run_fp6a<P: fp6_2over3::Fp6Config>(id: &str, plan: &Plan, rng: &mut Rng, out: &mut Out) {
    type E<P> = fp6_2over3::Fp6<P>;
    let consts = format!("{} {} {}", hdr_fp3::<P::Fp3Config>(), es(&P::NONRESIDUE), list(P::FROBENIUS_COEFF_FP6_C1));
    cfg_line::<E<P>>(id, "fp6a", &consts, out);
    let (xs, ex) = operands::<E<P>>(rng, plan.tiny_limit, plan.nrand);
    let cyc = cyc_members(&src_for_cyc(&xs, ex, rng, plan.max_cyc), &[(3, true), (1, false)], plan.max_cyc);
    common(id, &xs, ex, &cyc, plan, rng, out);
    let edges = prime_edges::<<P::Fp3Config as Fp3Config>::Fp>();
    for (i, x) in xs.iter().enumerate() {
        if i % plan.heavy_every != 0 { continue; }
        for t in 0..4 {
            let (c0, c1, c2) = match t {
                0 => (edges[0], edges[0], edges[0]),
                1 => (edges[1], edges[0], edges[3]),
                _ => (coord(rng, &edges), coord(rng, &edges), coord(rng, &edges)),
            };
            let mut r = *x; r.mul_by_034(&c0, &c1, &c2);
            out.line(&format!("C02 m034 {} {} {} {} {}", id, es(x), hx(&c0), hx(&c1), hx(&c2)), &es(&r));
            let mut r = *x; r.mul_by_014(&c0, &c1, &c2);
            out.line(&format!("C02 m014 {} {} {} {} {}", id, es(x), hx(&c0), hx(&c1), hx(&c2)), &es(&r));
        }
    }
}

fn run_fp6b<P: fp6_3over2::Fp6Config>(id: &str, h2: &str, h6: &str, plan: &Plan, rng: &mut Rng, out: &mut Out) {
    type E<P> = fp6_3over2::Fp6<P>;
    cfg_line::<E<P>>(id, "fp6b", &hdr_fp6b::<P>(h2, h6), out);
    let (xs, ex) = operands::<E<P>>(rng, plan.tiny_limit, plan.nrand);
    let cyc = cyc_members(&src_for_cyc(&xs, ex, rng, plan.max_cyc), &[(3, true), (1, false)], plan.max_cyc.min(60));
    common(id, &xs, ex, &cyc, plan, rng, out);
    let edges = prime_edges::<<P::Fp2Config as Fp2Config>::Fp>();
    let pool2 = structured::<Fp2<P::Fp2Config>>(rng, 4);
    for (i, x) in xs.iter().enumerate() {
        if i % plan.heavy_every != 0 { continue; }
        for e in [edges[0], edges[3], coord(rng, &edges)] {
            let mut r = *x; r.mul_by_fp(&e);
            out.line(&format!("C02 mulfp {} {} {}", id, es(x), hx(&e)), &es(&r));
        }
        for t in 0..4 {
            let e = pool2[(i + 5 * t) % pool2.len()];
            let f = pool2[(i * 3 + 7 * t + 1) % pool2.len()];
            let mut r = *x; r.mul_by_fp2(&e);
            out.line(&format!("C02 mulfp2 {} {} {}", id, es(x), es(&e)), &es(&r));
            let mut r = *x; r.mul_assign_by_fp2(e);
            out.line(&format!("C02 mulafp2 {} {} {}", id, es(x), es(&e)), &es(&r));
            let mut r = *x; r.mul_by_1(&e);
            out.line(&format!("C02 m1 {} {} {}", id, es(x), es(&e)), &es(&r));
            let mut r = *x; r.mul_by_01(&e, &f);
            out.line(&format!("C02 m01 {} {} {} {}", id, es(x), es(&e), es(&f)), &es(&r));
        }
    }
}

fn run_fp12<P: Fp12Config>(id: &str, ring: bool, h2: &str, h6: &str, plan: &Plan, rng: &mut Rng, out: &mut Out) {
    type E<P> = Fp12<P>;
    type F2<P> = Fp2<<<P as Fp12Config>::Fp6Config as fp6_3over2::Fp6Config>::Fp2Config>;
    let consts = format!("{} {} {}", hdr_fp6b::<P::Fp6Config>(h2, h6), es(&P::NONRESIDUE), list(P::FROBENIUS_COEFF_FP12_C1));
    cfg_line::<E<P>>(id, if ring { "fp12~" } else { "fp12" }, &consts, out);
    let (xs, ex) = operands::<E<P>>(rng, plan.tiny_limit, plan.nrand);
    // easy part of the final exponentiation: f^((p^6-1)(p^2+1))
    let cyc = if ring { vec![] } else { cyc_members(&src_for_cyc(&xs, ex, rng, plan.max_cyc), &[(6, true), (2, false)], plan.max_cyc) };
    common(id, &xs, ex, &cyc, plan, rng, out);
    let edges = prime_edges::<<E<P> as Field>::BasePrimeField>();
    let pool2 = structured::<F2<P>>(rng, 4);
    let mut sparse = |x: &E<P>, tag: &str, out: &mut Out| {
        for t in 0..4usize {
            let (c0, c1, c2) = match t {
                0 => (F2::<P>::zero(), F2::<P>::zero(), F2::<P>::zero()),
                1 => (pool2[1], pool2[0], pool2[2]),
                _ => (pool2[rng.below(pool2.len() as u64) as usize], pool2[rng.below(pool2.len() as u64) as usize], pool2[rng.below(pool2.len() as u64) as usize]),
            };
            let mut r = *x; r.mul_by_034(&c0, &c1, &c2);
            out.line(&format!("C02 m034 {} {} {} {} {}", tag, es(x), es(&c0), es(&c1), es(&c2)), &es(&r));
            let mut r = *x; r.mul_by_014(&c0, &c1, &c2);
            out.line(&format!("C02 m014 {} {} {} {} {}", tag, es(x), es(&c0), es(&c1), es(&c2)), &es(&r));
        }
    };
    for (i, x) in xs.iter().enumerate() {
        if i % plan.heavy_every != 0 { continue; }
        sparse(x, id, out);
    }
    for (i, x) in xs.iter().enumerate() {
        if i % plan.heavy_every != 0 { continue; }
        for e in [edges[0], edges[3], rand_prime(rng)] {
            let mut r = *x; r.mul_by_fp(&e);
            out.line(&format!("C02 mulfp {} {} {}", id, es(x), hx(&e)), &es(&r));
        }
    }
}

/// `a.pow(p)` against `frobenius_map(1)` on a few elements of the big towers (forced direct power in the driver)
fn frobx<F: Field>(id: &str, cnt: usize, rng: &mut Rng, out: &mut Out) {
    for _ in 0..cnt {
        let x: F = rand_elem(rng);
        out.line(&format!("C02 frobx {} 1 {}", id, es(&x)), &es(&x.frobenius_map(1)));
    }
}

pub fn run(rng: &mut Rng, thorough: bool, out: &mut Out, only: &Option<String>) {
    let t = thorough;
    // tiny: exhaustive elements, all pairs when they fit
    let tiny = Plan { thorough: t, tiny_limit: 700, nrand: 8, max_pairs: if t { 130_000 } else { 2_500 }, heavy_every: if t { 1 } else { 3 }, max_cyc: if t { 400 } else { 60 } };
    let small = Plan { thorough: t, tiny_limit: if t { 3_000 } else { 700 }, nrand: if t { 40 } else { 10 }, max_pairs: if t { 40_000 } else { 2_000 }, heavy_every: if t { 2 } else { 5 }, max_cyc: if t { 300 } else { 40 } };
    let toy12 = Plan { thorough: t, tiny_limit: 0, nrand: if t { 40 } else { 8 }, max_pairs: if t { 6_000 } else { 500 }, heavy_every: if t { 3 } else { 9 }, max_cyc: if t { 200 } else { 24 } };
    let big = Plan { thorough: t, tiny_limit: 0, nrand: if t { 16 } else { 3 }, max_pairs: if t { 1_500 } else { 150 }, heavy_every: if t { 4 } else { 12 }, max_cyc: if t { 12 } else { 4 } };

    if want(only, "t2_3") { run_fp2::<Q2_3>("t2_3", "def", &tiny, rng, out); }
    if want(only, "t2_7m") { run_fp2::<Q2_7m>("t2_7m", "def", &tiny, rng, out); }
    if want(only, "t2_7g") { run_fp2::<Q2_7g>("t2_7g", "def", &tiny, rng, out); }
    if want(only, "t2_5") { run_fp2::<Q2_5>("t2_5", "def", &tiny, rng, out); }
    if want(only, "t2_13") { run_fp2::<Q2_13>("t2_13", "def", &tiny, rng, out); }
    if want(only, "t2_m61") { run_fp2::<Q2_M61>("t2_m61", "def", &small, rng, out); }
    if want(only, "t3_7a") { run_fp3::<C3_7a>("t3_7a", false, &tiny, rng, out); }
    if want(only, "t3_7b") { run_fp3::<C3_7b>("t3_7b", false, &tiny, rng, out); }
    if want(only, "t3_13") { run_fp3::<C3_13>("t3_13", false, &small, rng, out); }
    if want(only, "t4_5") { run_fp4::<Q4_5>("t4_5", "def", &tiny, rng, out); }
    if want(only, "t4_13") { run_fp4::<Q4_13>("t4_13", "def", &small, rng, out); }
    if want(only, "t6a_7") { run_fp6a::<S6a_7>("t6a_7", &small, rng, out); }
    if want(only, "t6a_13") { run_fp6a::<S6a_13>("t6a_13", &small, rng, out); }
    if want(only, "t6b_7") { run_fp6b::<S6b_7>("t6b_7", "def", "def", &small, rng, out); }
    if want(only, "t6b_13") { run_fp6b::<S6b_13>("t6b_13", "def", "def", &small, rng, out); }
    if want(only, "t12_7") { run_fp12::<D12_7>("t12_7", false, "def", "def", &toy12, rng, out); }
    if want(only, "t12_13") { run_fp12::<D12_13>("t12_13", false, "def", "def", &toy12, rng, out); }

    // direct `QuadExtConfig` / `CubicExtConfig` implementations: trait-default non-residue hooks
    if want(only, "raw2_7") {
        let hooks = |out: &mut Out| {
            for y in 0..7u64 { for x in 0..7u64 {
                let (yv, xv) = (FDT7::from(y), FDT7::from(x));
                let mut a = yv; RawQ7::mul_base_field_by_nonresidue_in_place(&mut a);
                if x == 0 { out.line(&format!("C02 hnr raw2_7 {}", es(&yv)), &es(&a)); }
                let mut b = yv; RawQ7::mul_base_field_by_nonresidue_and_add(&mut b, &xv);
                out.line(&format!("C02 hnradd raw2_7 {} {}", es(&yv), es(&xv)), &es(&b));
                let mut c = yv; RawQ7::mul_base_field_by_nonresidue_plus_one_and_add(&mut c, &xv);
                out.line(&format!("C02 hnrp1 raw2_7 {} {}", es(&yv), es(&xv)), &es(&c));
                let mut d = yv; RawQ7::sub_and_mul_base_field_by_nonresidue(&mut d, &xv);
                out.line(&format!("C02 hsub raw2_7 {} {}", es(&yv), es(&xv)), &es(&d));
            } }
        };
        let consts = format!("def {} {}", hx(&RawQ7::NONRESIDUE), list(RawQ7::FROBENIUS_COEFF_C1));
        run_raw::<QuadExtField<RawQ7>>("raw2_7", "fp2", &consts, false, &hooks, rng, t, out);
    }
    if want(only, "raw3_7") {
        let hooks = |out: &mut Out| {
            for y in 0..7u64 {
                let yv = FDT7::from(y);
                let mut a = yv; RawC7::mul_base_field_by_nonresidue_in_place(&mut a);
                out.line(&format!("C02 hnr raw3_7 {}", es(&yv)), &es(&a));
                out.line(&format!("C02 hnr raw3_7 {}", es(&yv)), &es(&RawC7::mul_base_field_by_nonresidue(yv)));
            }
        };
        let consts = format!("{} {} {}", hx(&RawC7::NONRESIDUE), list(RawC7::FROBENIUS_COEFF_C1), list(RawC7::FROBENIUS_COEFF_C2));
        run_raw::<CubicExtField<RawC7>>("raw3_7", "fp3", &consts, true, &hooks, rng, t, out);
    }

    // the guard of the Granger–Scott squaring on arbitrary limb slices
    if only.is_none() {
        let mut ls: Vec<Vec<u64>> = vec![vec![], vec![0], vec![1], vec![5], vec![6], vec![7], vec![36, 41], vec![39, 41], vec![1, u64::MAX], vec![u64::MAX; 3], vec![u64::MAX - 4, u64::MAX - 2, 5, 0]];
        for x in 0..48u64 { ls.push(vec![x]); ls.push(vec![x % 7, x]); }
        for _ in 0..(if t { 400 } else { 60 }) { let n = 1 + rng.below(13) as usize; ls.push((0..n).map(|_| if rng.below(4) == 0 { EDGE_LIMBS[rng.below(12) as usize] } else { rng.next() }).collect()); }
        for l in ls { out.line(&format!("C02 charsq6 {}", hex_list_u64(&l)), if ark_ff::characteristic_square_mod_6_is_one(&l) { "1" } else { "0" }); }
    }
    // defective configurations: panic sites, the `else` branch of the Granger–Scott guard
    if want(only, "r3_7cube") { run_fp3::<R3_7cube>("r3_7cube", true, &tiny, rng, out); }
    if want(only, "r3_7short") { run_fp3::<R3_7short>("r3_7short", true, &tiny, rng, out); }
    if want(only, "r12_3") { run_fp12::<R12_3>("r12_3", true, "def", "def", &toy12, rng, out); }

    // shipped towers (ark_test_curves)
    use ark_test_curves::{bls12_381, mnt6_753};
    if want(only, "bls_fq2") {
        run_fp2::<bls12_381::Fq2Config>("bls_fq2", "neg", &big, rng, out);
        frobx::<bls12_381::Fq2>("bls_fq2", if t { 8 } else { 3 }, rng, out);
    }
    if want(only, "bls_fq6") {
        run_fp6b::<bls12_381::Fq6Config>("bls_fq6", "neg", "bls", &big, rng, out);
        frobx::<bls12_381::Fq6>("bls_fq6", if t { 6 } else { 2 }, rng, out);
    }
    if want(only, "bls_fq12") {
        run_fp12::<bls12_381::Fq12Config>("bls_fq12", false, "neg", "bls", &big, rng, out);
        frobx::<bls12_381::Fq12>("bls_fq12", if t { 4 } else { 2 }, rng, out);
    }
    if want(only, "mnt6_fq3") {
        run_fp3::<mnt6_753::Fq3Config>("mnt6_fq3", false, &big, rng, out);
        frobx::<mnt6_753::Fq3>("mnt6_fq3", if t { 6 } else { 2 }, rng, out);
    }
}

fn main() {
    if let Some(arg) = std::env::args().nth(1) { if arg.starts_with("child-bool:") { child_main(&arg); return; } }
    let a = arkharness::args();
    let mut rng = Rng::new(a.seed);
    let mut out = Out::new();
    run(&mut rng, a.thorough, &mut out, &a.only);
    out.flush();
}
