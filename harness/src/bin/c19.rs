//! C19: equality, ordering, hashing and the zero/one predicates of field elements, big integers,
//! extension-field elements, curve points (every representation), pairing outputs and polynomials.
//!
//! Every line is about a *pair* (or triple) of values that were produced by the real API — usually the
//! same mathematical object reached through two operation sequences or two representations.
//! `Hash` is observed through a recording `Hasher`: the result of a `*hash` op is the byte stream the
//! value's `Hash` impl writes (hex), for both members of the pair.
//!
//! Line formats (see lean/Ark/Model/DrvC19.lean):
//!   C19 fpeq|fpcmp|fphash <N> <p> <tag> <a> <b>        raw Montgomery values
//!   C19 fpzero <N> <p> <tag> <a>                       => <is_zero> <is_one>
//!   C19 fpcmp3 <N> <p> <a> <b> <c>                     => ab ba bc ac
//!   C19 bigeq|bigcmp|bighash <a> <b>   C19 bigcmp3 <a> <b> <c>   C19 bigzero <a>      limb lists
//!   C19 exteq|extcmp|exthash <shape> <N> <p> <tag> <A> <B>   A = flattened raw Montgomery coefficients
//!   C19 extzero <shape> <N> <p> <tag> <A>   C19 extcmp3 <shape> <N> <p> <A> <B> <C>
//!   C19 pairingeq|pairingcmp|pairinghash|pairingzero …  (as ext…, shape 2.3.2)
//!   C19 sw.pteq|sw.pthash <N> <fld> <tag> <P> <Q>      points x/y/z in standard form
//!   C19 sw.ptmixedeq <N> <fld> <tag> <A> <P>           => <A==P> <P==A>
//!   C19 sw.affeq|sw.affhash <N> <fld> <tag> <A> <B>    C19 sw.ptzero <N> <fld> <P>   C19 sw.affzero <N> <fld> <A>
//!   C19 te.…                                           the same for twisted Edwards (x/y/t/z, x/y)
//!   C19 polyeq|polyhash <N> <p> d|s <tag> <A> <B>      stored coefficient vectors, raw Montgomery values
//!   C19 polyzero <N> <p> d|s <tag> <A>                 => <is_zero> <== zero()>
#![allow(dead_code, deprecated, non_camel_case_types)]
use ark_ec::{
    pairing::{Pairing, PairingOutput},
    short_weierstrass as sw, twisted_edwards as te, AffineRepr, CurveConfig, CurveGroup, PrimeGroup,
};
use ark_ff::{
    AdditiveGroup, BigInt, BigInteger, Field, Fp, MontBackend, MontConfig, MontFp, One, PrimeField, Zero,
};
use ark_poly::{
    univariate::{DensePolynomial, SparsePolynomial},
    DenseUVPolynomial,
};
use arkharness::util::*;
use arkharness::zoo::{FDT13, FDT5, FDT7};
use core::cmp::Ordering;
use core::hash::{Hash, Hasher};
use num_bigint::BigUint;

type F<T, const N: usize> = Fp<MontBackend<T, N>, N>;

// ---------------------------------------------------------------- recording hasher
struct Rec(Vec<u8>);
impl Hasher for Rec {
    fn finish(&self) -> u64 { 0 }
    fn write(&mut self, bytes: &[u8]) { self.0.extend_from_slice(bytes); }
}
fn stream<T: Hash>(x: &T) -> String {
    let mut r = Rec(Vec::new());
    x.hash(&mut r);
    if r.0.is_empty() { return "_".into(); }
    let mut s = String::with_capacity(2 * r.0.len());
    for b in &r.0 { s.push_str(&format!("{:02x}", b)); }
    s
}
fn streams<T: Hash>(a: &T, b: &T) -> String { guarded(|| format!("{} {}", stream(a), stream(b))) }
fn b01(b: bool) -> &'static str { if b { "1" } else { "0" } }
fn ord(o: Ordering) -> &'static str { match o { Ordering::Less => "lt", Ordering::Equal => "eq", Ordering::Greater => "gt" } }
fn cmp3<T: Ord>(a: &T, b: &T, c: &T) -> String { format!("{} {} {} {}", ord(a.cmp(b)), ord(b.cmp(a)), ord(b.cmp(c)), ord(a.cmp(c))) }

// ================================================================ prime fields
fn big<const N: usize>(l: &[u64; N]) -> BigUint { BigUint::from(BigInt::<N>(*l)) }
fn limbs_of<const N: usize>(b: &BigUint) -> [u64; N] {
    let mut r = [0u64; N];
    for (i, d) in b.to_u64_digits().iter().enumerate() { if i < N { r[i] = *d; } }
    r
}
/// edge set of valid Montgomery representations (raw limbs < p) — as in c01.rs
fn operands<T: MontConfig<N>, const N: usize>(rng: &mut Rng, extra: usize) -> Vec<[u64; N]> {
    let p = big(&T::MODULUS.0);
    let mut v: Vec<BigUint> = Vec::new();
    let one = BigUint::from(1u8);
    let two = BigUint::from(2u8);
    let r = big(&T::R.0);
    let r2 = big(&T::R2.0);
    for x in [BigUint::from(0u8), one.clone(), two.clone(), &p - &one, (&p + &p - &two) % &p,
              (&p - &one) / &two, (&p + &one) / &two, r.clone(), r2.clone(), (&r + &p - &one) % &p, (&p - &r) % &p, (&r + &one) % &p] {
        v.push(x % &p);
    }
    for e in edge_values::<N>(rng, extra) {
        let x = big(&e);
        v.push(&x % &p);
        if x < p { v.push(x); }
    }
    v.sort(); v.dedup();
    v.iter().map(|b| limbs_of::<N>(b)).collect()
}
fn h<T: MontConfig<N>, const N: usize>(x: &F<T, N>) -> String { hex_limbs(&x.0 .0) }
fn el<T: MontConfig<N>, const N: usize>(l: &[u64; N]) -> F<T, N> { Fp::new_unchecked(BigInt(*l)) }

fn fp_pair<T: MontConfig<N>, const N: usize>(out: &mut Out, pfx: &str, tag: &str, x: F<T, N>, y: F<T, N>, hash: bool) {
    let args = format!("{} {} {} {}", pfx, tag, h(&x), h(&y));
    out.line(&format!("C19 fpeq {}", args), &guarded(|| b01(x == y).to_string()));
    out.line(&format!("C19 fpcmp {}", args), &guarded(|| ord(x.cmp(&y)).to_string()));
    if hash { out.line(&format!("C19 fphash {}", args), &streams(&x, &y)); }
}
fn fp_zero<T: MontConfig<N>, const N: usize>(out: &mut Out, pfx: &str, tag: &str, x: F<T, N>) {
    out.line(&format!("C19 fpzero {} {} {}", pfx, tag, h(&x)), &guarded(|| format!("{} {}", b01(x.is_zero()), b01(x.is_one()))));
}

fn fp_ops<T: MontConfig<N>, const N: usize>(_fl: &str, name: &str, rng: &mut Rng, thorough: bool, out: &mut Out, only: &Option<String>) {
    if let Some(o) = only { if o != name && o != "fp" { return; } }
    let pfx = format!("{:x} {}", N, hex_limbs(&T::MODULUS.0));
    let p0 = T::MODULUS.0[0];
    let tiny = N == 1 && p0 <= (if thorough { 127 } else { 13 });
    let vals: Vec<F<T, N>> = if tiny {
        (0..p0).map(|x| { let mut a = [0u64; N]; a[0] = x; el::<T, N>(&a) }).collect()      // every element (raw order)
    } else {
        operands::<T, N>(rng, if thorough { 24 } else { 4 }).iter().map(|l| el::<T, N>(l)).collect()
    };
    let m = vals.len();
    // ---- plain pairs
    if tiny {
        for x in &vals { for y in &vals { fp_pair(out, &pfx, "pair", *x, *y, true); } }
    } else {
        let head = m.min(if thorough { 16 } else { 5 });
        for i in 0..head { for j in 0..head { fp_pair(out, &pfx, "pair", vals[i], vals[j], i <= j); } }
        for t in 0..(if thorough { 200 } else { 10 }) {
            let (x, y) = (vals[rng.below(m as u64) as usize], vals[rng.below(m as u64) as usize]);
            fp_pair(out, &pfx, "pair", x, y, t % 2 == 0);
        }
        // neighbours in the integer order and in the raw order
        for _ in 0..(if thorough { 40 } else { 4 }) {
            let x = vals[rng.below(m as u64) as usize];
            fp_pair(out, &pfx, "succ", x, x + F::<T, N>::one(), false);
            let mut y = x; y.0 .0[0] ^= 1; if y.0 < T::MODULUS { fp_pair(out, &pfx, "rawnbr", x, y, false); }
        }
    }
    // ---- the same value through different operation sequences
    let ex3 = tiny && p0 <= (if thorough { 5 } else { 3 });
    let ntr = if ex3 { m * m * m } else if tiny { if thorough { 150 } else { 20 } } else if thorough { 60 } else { 4 };
    for t in 0..ntr {
        let (a, b, c) = if ex3 { (vals[t % m], vals[(t / m) % m], vals[t / (m * m)]) }
                        else { (vals[rng.below(m as u64) as usize], vals[rng.below(m as u64) as usize], vals[rng.below(m as u64) as usize]) };
        let one = F::<T, N>::one();
        let zero = F::<T, N>::zero();
        let hsh = if thorough { t % 2 == 0 } else { t % 4 == 0 };
        fp_pair(out, &pfx, "comm-add", a + b, b + a, hsh);
        fp_pair(out, &pfx, "comm-mul", a * b, b * a, hsh);
        fp_pair(out, &pfx, "assoc-add", (a + b) + c, a + (b + c), hsh);
        fp_pair(out, &pfx, "assoc-mul", (a * b) * c, a * (b * c), hsh);
        fp_pair(out, &pfx, "distrib", a * (b + c), a * b + a * c, hsh);
        fp_pair(out, &pfx, "sub-self", a - a, zero, hsh);
        fp_pair(out, &pfx, "add-neg", a + (-a), zero, hsh);
        fp_pair(out, &pfx, "addsub", (a + b) - b, a, hsh);
        fp_pair(out, &pfx, "neg-neg", -(-a), a, hsh);
        fp_pair(out, &pfx, "double", a.double(), a + a, hsh);
        fp_pair(out, &pfx, "square", a.square(), a * a, hsh);
        fp_pair(out, &pfx, "wrap", (a + (-one)) + one, a, hsh);          // the stand-in for "a vs a + p"
        fp_pair(out, &pfx, "mul-one", a * one, a, hsh);
        if let Some(ai) = a.inverse() {
            fp_pair(out, &pfx, "inv", a * ai, one, hsh);
            fp_pair(out, &pfx, "div", (b * a) * ai, b, hsh);
            fp_zero(out, &pfx, "inv", a * ai);
        }
        if let Some(r) = F::<T, N>::from_bigint(a.into_bigint()) { fp_pair(out, &pfx, "frombig", r, a, hsh); }
        fp_zero(out, &pfx, "sub-self", a - a);
        fp_zero(out, &pfx, "val", a);
        fp_zero(out, &pfx, "succ", a + one);
    }
    fp_pair(out, &pfx, "negzero", -F::<T, N>::zero(), F::<T, N>::zero(), true);
    fp_pair(out, &pfx, "zero-one", F::<T, N>::zero(), F::<T, N>::one(), true);
    fp_pair(out, &pfx, "one-minus-one", F::<T, N>::one(), -F::<T, N>::one(), true);
    fp_zero(out, &pfx, "negzero", -F::<T, N>::zero());
    fp_zero(out, &pfx, "zero", F::<T, N>::zero());
    fp_zero(out, &pfx, "one", F::<T, N>::one());
    fp_zero(out, &pfx, "minus-one", -F::<T, N>::one());
    fp_zero(out, &pfx, "default", F::<T, N>::default());
    // small integers (guarded: `From<u64>` asserts on oversized-limb configurations)
    for (tag, f) in [("from5", (|| (F::<T, N>::from(5u64), F::<T, N>::from(2u64) + F::<T, N>::from(3u64))) as fn() -> (F<T, N>, F<T, N>)),
                     ("from-neg", || (F::<T, N>::from(-1i64), -F::<T, N>::one())),
                     ("from-bool", || (F::<T, N>::from(true), F::<T, N>::one()))] {
        if let Ok((x, y)) = std::panic::catch_unwind(f) { fp_pair(out, &pfx, tag, x, y, true); }
    }
    // ---- triples
    let ex3c = tiny && p0 <= (if thorough { 13 } else { 5 });
    let n3 = if ex3c { m * m * m } else if tiny { 300 } else if thorough { 120 } else { 8 };
    for t in 0..n3 {
        let (a, b, c) = if ex3c { (vals[t % m], vals[(t / m) % m], vals[t / (m * m)]) }
            else { let a = vals[rng.below(m as u64) as usize]; let b = vals[rng.below(m as u64) as usize];
                   let c = match t % 4 { 0 => a, 1 => b, 2 => a + b, _ => vals[rng.below(m as u64) as usize] }; (a, b, c) };
        out.line(&format!("C19 fpcmp3 {} {} {} {}", pfx, h(&a), h(&b), h(&c)), &guarded(|| cmp3(&a, &b, &c)));
    }
}
macro_rules! zoo_ops {
    ($fl:expr, $t:ty, $n:expr, $name:expr, $rng:expr, $th:expr, $out:expr, $only:expr) => {
        fp_ops::<$t, $n>($fl, $name, $rng, $th, $out, $only);
    };
}

// ================================================================ BigInt<N>
fn bl<const N: usize>(a: &BigInt<N>) -> String { hex_list_u64(&a.0) }
fn big_pair<const N: usize>(out: &mut Out, a: BigInt<N>, b: BigInt<N>) {
    let args = format!("{} {}", bl(&a), bl(&b));
    out.line(&format!("C19 bigeq {}", args), &guarded(|| b01(a == b).to_string()));
    out.line(&format!("C19 bigcmp {}", args), &guarded(|| ord(a.cmp(&b)).to_string()));
    out.line(&format!("C19 bighash {}", args), &streams(&a, &b));
}
fn big_ops<const N: usize>(rng: &mut Rng, thorough: bool, out: &mut Out) {
    let vals: Vec<BigInt<N>> = edge_values::<N>(rng, if thorough { 30 } else { 6 }).into_iter().map(BigInt).collect();
    let m = vals.len();
    if N <= 1 || (thorough && N <= 2) { for a in &vals { for b in &vals { big_pair(out, *a, *b); } } }
    else {
        for _ in 0..(if thorough { 600 } else { 60 }) { big_pair(out, vals[rng.below(m as u64) as usize], vals[rng.below(m as u64) as usize]); }
    }
    // pairs that differ in exactly one limb / in two limbs with opposite directions
    for _ in 0..(if thorough { 200 } else { 30 }) {
        let a = vals[rng.below(m as u64) as usize];
        let mut b = a; let i = rng.below(N as u64) as usize;
        b.0[i] = match rng.below(3) { 0 => a.0[i].wrapping_add(1), 1 => a.0[i].wrapping_sub(1), _ => EDGE_LIMBS[rng.below(12) as usize] };
        big_pair(out, a, b);
        let mut c = b; let j = rng.below(N as u64) as usize;
        c.0[j] = if b.0[i] > a.0[i] { a.0[j].wrapping_sub(1) } else { a.0[j].wrapping_add(1) };
        big_pair(out, a, c);
        out.line(&format!("C19 bigcmp3 {} {} {}", bl(&a), bl(&b), bl(&c)), &guarded(|| cmp3(&a, &b, &c)));
        big_pair(out, a, a);
    }
    // different operation sequences
    for _ in 0..(if thorough { 100 } else { 12 }) {
        let a = vals[rng.below(m as u64) as usize]; let b = vals[rng.below(m as u64) as usize];
        let mut x = a; x.add_with_carry(&b); let mut y = b; y.add_with_carry(&a); big_pair(out, x, y);
        let mut x = a; x.add_with_carry(&b); x.sub_with_borrow(&b); big_pair(out, x, a);
        let mut x = a; x.mul2(); let mut y = a; y.add_with_carry(&a); big_pair(out, x, y);
        let mut x = a; x.sub_with_borrow(&a); big_pair(out, x, BigInt::<N>::zero());
        let mut x = a; x.mul2(); x.div2(); let mut y = a; y.0[N - 1] &= u64::MAX >> 1; big_pair(out, x, y);
        big_pair(out, BigInt::<N>::from(1u64), BigInt::<N>::one());
    }
    for a in &vals { let a = *a; out.line(&format!("C19 bigzero {}", bl(&a)), &guarded(|| b01(a.is_zero()).to_string())); }
}

// ================================================================ extension fields (and pairing outputs)
fn ext_raw<T: MontConfig<N>, const N: usize, E: Field<BasePrimeField = F<T, N>>>(x: &E) -> String {
    x.to_base_prime_field_elements().map(|c| hex_limbs(&c.0 .0)).collect::<Vec<_>>().join(",")
}
struct ExtCx<'a> { out: &'a mut Out, pfx: String, eq: &'static str, cmp: &'static str, hash: &'static str, zero: &'static str }
fn ext_pair<T: MontConfig<N>, const N: usize, E: Field<BasePrimeField = F<T, N>>, W: Eq + Ord + Hash>(cx: &mut ExtCx, tag: &str, a: &E, b: &E, wrap: &dyn Fn(&E) -> W, hash: bool) {
    let args = format!("{} {} {} {}", cx.pfx, tag, ext_raw(a), ext_raw(b));
    let (wa, wb) = (wrap(a), wrap(b));
    cx.out.line(&format!("C19 {} {}", cx.eq, args), &guarded(|| b01(wa == wb).to_string()));
    cx.out.line(&format!("C19 {} {}", cx.cmp, args), &guarded(|| ord(wa.cmp(&wb)).to_string()));
    if hash { cx.out.line(&format!("C19 {} {}", cx.hash, args), &streams(&wa, &wb)); }
}
fn ext_zero<T: MontConfig<N>, const N: usize, E: Field<BasePrimeField = F<T, N>>>(cx: &mut ExtCx, tag: &str, a: &E) {
    let a = *a;
    cx.out.line(&format!("C19 {} {} {} {}", cx.zero, cx.pfx, tag, ext_raw(&a)), &guarded(|| format!("{} {}", b01(a.is_zero()), b01(a.is_one()))));
}
fn ext_suite<T: MontConfig<N>, const N: usize, E: Field<BasePrimeField = F<T, N>>>(out: &mut Out, rng: &mut Rng, shape: &str, thorough: bool) {
    let k = E::extension_degree() as usize;
    let mut cx = ExtCx { out, pfx: format!("{} {:x} {}", shape, N, hex_limbs(&T::MODULUS.0)), eq: "exteq", cmp: "extcmp", hash: "exthash", zero: "extzero" };
    let one = F::<T, N>::one();
    // pool of coefficients, sorted by integer value so that "lower index" = "smaller"
    let mut pool: Vec<F<T, N>> = vec![F::<T, N>::zero(), one, one + one, -one, -(one + one), (-one) * (one + one).inverse().unwrap()];
    for _ in 0..3 { pool.push(el::<T, N>(&operands::<T, N>(rng, 2)[rng.below(20) as usize])); }
    pool.sort(); pool.dedup();
    let np = pool.len();
    let mk = |cs: &[usize]| E::from_base_prime_field_elems(cs.iter().map(|i| pool[*i])).unwrap();
    let rnd = |rng: &mut Rng| -> Vec<usize> { (0..k).map(|_| if rng.below(3) == 0 { 0 } else { rng.below(np as u64) as usize }).collect() };
    let id = |e: &E| *e;
    let reps = if thorough { 6 } else { 2 };
    // ---- pairs that differ in exactly one coefficient
    for i in 0..k { for _ in 0..reps {
        let ca = rnd(rng); let mut cb = ca.clone();
        cb[i] = (ca[i] + 1 + rng.below(np as u64 - 1) as usize) % np;
        ext_pair(&mut cx, &format!("only-c{}", i), &mk(&ca), &mk(&cb), &id, true);
    } }
    // ---- two coefficients move in opposite directions: pins down which one is the more significant
    let mut ij: Vec<(usize, usize)> = Vec::new();
    for i in 0..k { for j in (i + 1)..k { ij.push((i, j)); } }
    let nij = if thorough { ij.len() } else { ij.len().min(24) };
    for t in 0..nij {
        let (i, j) = if ij.len() == nij { ij[t] } else { ij[rng.below(ij.len() as u64) as usize] };
        for _ in 0..reps {
            let mut ca = rnd(rng); let mut cb = ca.clone();
            ca[i] = rng.below(np as u64 - 1) as usize; cb[i] = ca[i] + 1 + rng.below((np - 1 - ca[i]) as u64) as usize;   // a_i < b_i
            cb[j] = rng.below(np as u64 - 1) as usize; ca[j] = cb[j] + 1 + rng.below((np - 1 - cb[j]) as u64) as usize;   // a_j > b_j
            ext_pair(&mut cx, &format!("conflict-c{}-c{}", i, j), &mk(&ca), &mk(&cb), &id, false);
        }
    }
    // ---- random pairs, equal pairs, triples
    for _ in 0..(if thorough { 200 } else { 24 }) {
        let (a, b, c) = (mk(&rnd(rng)), mk(&rnd(rng)), mk(&rnd(rng)));
        ext_pair(&mut cx, "pair", &a, &b, &id, true);
        ext_pair(&mut cx, "same", &a, &a.clone(), &id, true);
        cx.out.line(&format!("C19 extcmp3 {} {} {} {}", cx.pfx, ext_raw(&a), ext_raw(&b), ext_raw(&c)), &guarded(|| cmp3(&a, &b, &c)));
        cx.out.line(&format!("C19 extcmp3 {} {} {} {}", cx.pfx, ext_raw(&a), ext_raw(&b), ext_raw(&(a + b))), &guarded(|| cmp3(&a, &b, &(a + b))));
    }
    // ---- operation sequences
    for _ in 0..(if thorough { 60 } else { 8 }) {
        let (a, b, c) = (mk(&rnd(rng)), mk(&rnd(rng)), mk(&rnd(rng)));
        ext_pair(&mut cx, "comm-add", &(a + b), &(b + a), &id, true);
        ext_pair(&mut cx, "comm-mul", &(a * b), &(b * a), &id, true);
        ext_pair(&mut cx, "assoc-mul", &((a * b) * c), &(a * (b * c)), &id, false);
        ext_pair(&mut cx, "distrib", &(a * (b + c)), &(a * b + a * c), &id, false);
        ext_pair(&mut cx, "sub-self", &(a - a), &E::zero(), &id, true);
        ext_pair(&mut cx, "addsub", &((a + b) - b), &a, &id, false);
        ext_pair(&mut cx, "neg-neg", &(-(-a)), &a, &id, false);
        ext_pair(&mut cx, "square", &a.square(), &(a * a), &id, true);
        ext_pair(&mut cx, "double", &a.double(), &(a + a), &id, false);
        ext_pair(&mut cx, "frob", &a.frobenius_map(k), &a, &id, false);
        if let Some(ai) = a.inverse() {
            ext_pair(&mut cx, "inv", &(a * ai), &E::one(), &id, true);
            ext_zero(&mut cx, "inv", &(a * ai));
        }
        ext_zero(&mut cx, "sub-self", &(a - a));
        ext_zero(&mut cx, "val", &a);
    }
    ext_pair(&mut cx, "negzero", &(-E::zero()), &E::zero(), &id, true);
    ext_zero(&mut cx, "zero", &E::zero());
    ext_zero(&mut cx, "one", &E::one());
    ext_zero(&mut cx, "default", &E::default());
    // exactly one coefficient is one / non-zero
    for i in 0..k {
        let mut cs = vec![0usize; k]; cs[i] = 1; ext_zero(&mut cx, &format!("unit-c{}", i), &mk(&cs));
        let mut cs = vec![0usize; k]; cs[0] = 1; cs[i] = 1; ext_zero(&mut cx, &format!("one-plus-c{}", i), &mk(&cs));
        let mut cs = vec![0usize; k]; cs[i] = np - 1; ext_zero(&mut cx, &format!("big-c{}", i), &mk(&cs));
    }
}

fn pairing_suite(out: &mut Out, rng: &mut Rng, thorough: bool) {
    use ark_test_curves::bls12_381::{Bls12_381, FqConfig, Fr, G1Projective, G2Projective, Fq12};
    type PO = PairingOutput<Bls12_381>;
    let mut cx = ExtCx { out, pfx: format!("2.3.2 6 {}", hex_limbs(&FqConfig::MODULUS.0)), eq: "pairingeq", cmp: "pairingcmp", hash: "pairinghash", zero: "pairingzero" };
    let wrap = |e: &Fq12| PairingOutput::<Bls12_381>(*e);
    let pz = |cx: &mut ExtCx, tag: &str, v: PO| {
        cx.out.line(&format!("C19 {} {} {} {}", cx.zero, cx.pfx, tag, ext_raw::<FqConfig, 6, Fq12>(&v.0)), &guarded(|| format!("{} {}", b01(v.is_zero()), b01(v == PO::zero()))));
    };
    let g1 = G1Projective::generator(); let g2 = G2Projective::generator();
    let rs = |rng: &mut Rng| Fr::from_le_bytes_mod_order(&(0..40).map(|_| rng.next() as u8).collect::<Vec<_>>());
    let n = if thorough { 12 } else { 3 };
    for t in 0..n {
        let (s, u) = (rs(rng), rs(rng));
        let a = match t { 0 => Fr::from(2u64), 1 => -Fr::one(), _ => rs(rng) };
        let (p, q) = (g1 * s, g2 * u);
        let e = Bls12_381::pairing(p, q);
        let e_ap = Bls12_381::pairing(p * a, q);
        let e_aq = Bls12_381::pairing(p, q * a);
        let ea = e * a;
        ext_pair(&mut cx, "e(aP,Q)-e(P,aQ)", &e_ap.0, &e_aq.0, &wrap, true);
        ext_pair(&mut cx, "e(aP,Q)-a*e(P,Q)", &e_ap.0, &ea.0, &wrap, true);
        ext_pair(&mut cx, "e(P,Q)-e(aP,Q)", &e.0, &e_ap.0, &wrap, true);
        ext_pair(&mut cx, "add-double", &(e + e).0, &Bls12_381::pairing(p.double(), q).0, &wrap, false);
        ext_pair(&mut cx, "neg", &(-e).0, &Bls12_381::pairing(p, -q).0, &wrap, false);
        ext_pair(&mut cx, "sub-self", &(e - e).0, &PO::zero().0, &wrap, true);
        ext_pair(&mut cx, "multi", &Bls12_381::multi_pairing([p, p * a], [q, -q]).0, &(e - ea).0, &wrap, false);
        pz(&mut cx, "e", e);
        pz(&mut cx, "sub-self", e - e);
        pz(&mut cx, "cancel", Bls12_381::multi_pairing([p, -p], [q, q]));
    }
    pz(&mut cx, "zero", PO::zero());
    pz(&mut cx, "default", PO::default());
    pz(&mut cx, "e(0,Q)", Bls12_381::pairing(G1Projective::zero(), g2));
    pz(&mut cx, "e(P,0)", Bls12_381::pairing(g1, G2Projective::zero()));
    pz(&mut cx, "field-zero", PairingOutput::<Bls12_381>(Fq12::zero()));   // not a group element; the predicate must still say "not zero"
    ext_pair(&mut cx, "e(0,Q)-e(P,0)", &Bls12_381::pairing(G1Projective::zero(), g2).0, &Bls12_381::pairing(g1, G2Projective::zero()).0, &wrap, true);
}

// ================================================================ curves
macro_rules! sw_curve {
    ($name:ident, $bf:ty, $sf:ty, $cof:expr, $cofinv:expr, $a:expr, $b:expr, $gx:expr, $gy:expr) => {
        pub struct $name;
        impl CurveConfig for $name {
            type BaseField = $bf;
            type ScalarField = $sf;
            const COFACTOR: &'static [u64] = &[$cof];
            const COFACTOR_INV: $sf = $cofinv;
        }
        impl sw::SWCurveConfig for $name {
            const COEFF_A: $bf = $a;
            const COEFF_B: $bf = $b;
            const GENERATOR: sw::Affine<Self> = sw::Affine::new_unchecked($gx, $gy);
        }
    };
}
macro_rules! te_curve {
    ($name:ident, $bf:ty, $sf:ty, $cof:expr, $cofinv:expr, $a:expr, $d:expr, $gx:expr, $gy:expr, $ma:expr, $mb:expr) => {
        pub struct $name;
        impl CurveConfig for $name {
            type BaseField = $bf;
            type ScalarField = $sf;
            const COFACTOR: &'static [u64] = &[$cof];
            const COFACTOR_INV: $sf = $cofinv;
        }
        impl te::TECurveConfig for $name {
            const COEFF_A: $bf = $a;
            const COEFF_D: $bf = $d;
            const GENERATOR: te::Affine<Self> = te::Affine::new_unchecked($gx, $gy);
            type MontCurveConfig = $name;
        }
        impl te::MontCurveConfig for $name {
            const COEFF_A: $bf = $ma;
            const COEFF_B: $bf = $mb;
            type TECurveConfig = $name;
        }
    };
}
macro_rules! m { ($s:literal) => { MontFp!($s) }; }
// Toy curves over the zoo field F_13 (orders / generators found by brute force in python — the same
// parameters as in c03.rs — and re-checked at start-up):
//   SW13A  y² = x³ + 6       order 7  (prime, a = 0),  G = (2, 1)
//   SW13D  y² = x³ + x + 4   order 14 (r = 7, h = 2, one point of order two),  G = (9, 12)
//   TE13A  x² + y² = 1 + 7x²y²  20 points (complete: a square, d non-square), r = 5, h = 4,  G = (2, 9)
sw_curve!(SW13A, FDT13, FDT7, 1, m!("1"), m!("0"), m!("6"), m!("2"), m!("1"));
sw_curve!(SW13D, FDT13, FDT7, 2, m!("4"), m!("1"), m!("4"), m!("9"), m!("12"));
te_curve!(TE13A, FDT13, FDT5, 4, m!("4"), m!("1"), m!("7"), m!("2"), m!("9"), m!("6"), m!("8"));

fn fe<E: Field>(x: &E) -> String {
    x.to_base_prime_field_elements().map(|c| hex_limbs(c.into_bigint().as_ref())).collect::<Vec<_>>().join(".")
}
fn jac<P: sw::SWCurveConfig>(p: &sw::Projective<P>) -> String { format!("{}/{}/{}", fe(&p.x), fe(&p.y), fe(&p.z)) }
fn swaff<P: sw::SWCurveConfig>(a: &sw::Affine<P>) -> String {
    if a.infinity {
        if a.x.is_zero() && a.y.is_zero() { "inf".into() } else { format!("inf!{}/{}", fe(&a.x), fe(&a.y)) }
    } else { format!("{}/{}", fe(&a.x), fe(&a.y)) }
}
fn ext4<P: te::TECurveConfig>(p: &te::Projective<P>) -> String { format!("{}/{}/{}/{}", fe(&p.x), fe(&p.y), fe(&p.t), fe(&p.z)) }
fn teaff<P: te::TECurveConfig>(a: &te::Affine<P>) -> String { format!("{}/{}", fe(&a.x), fe(&a.y)) }
fn field_elems<E: Field>() -> Vec<E> {
    let p = E::BasePrimeField::MODULUS.as_ref()[0];
    let k = E::extension_degree() as usize;
    let mut out = Vec::new();
    for mut n in 0..(p as usize).pow(k as u32) {
        let mut cs = Vec::with_capacity(k);
        for _ in 0..k { cs.push(E::BasePrimeField::from((n % p as usize) as u64)); n /= p as usize; }
        out.push(E::from_base_prime_field_elems(cs).unwrap());
    }
    out
}
fn small<E: Field>(cs: &[u64]) -> E {
    let k = E::extension_degree() as usize;
    E::from_base_prime_field_elems((0..k).map(|i| E::BasePrimeField::from(*cs.get(i).unwrap_or(&0)))).unwrap()
}
fn rand_elem<E: Field>(rng: &mut Rng) -> E {
    let k = E::extension_degree() as usize;
    let nl = E::BasePrimeField::MODULUS.as_ref().len();
    E::from_base_prime_field_elems((0..k).map(|_| {
        let bytes: Vec<u8> = (0..nl * 8 + 8).map(|_| rng.next() as u8).collect();
        E::BasePrimeField::from_le_bytes_mod_order(&bytes)
    })).unwrap()
}
fn nlimbs<E: Field>() -> usize { E::BasePrimeField::MODULUS.as_ref().len() }
fn hexp<E: PrimeField>() -> String { hex_limbs(E::MODULUS.as_ref()) }

// ---------------------------------------------------------------- short Weierstrass
fn sw_points<P: sw::SWCurveConfig>() -> Vec<sw::Affine<P>> {
    let els = field_elems::<P::BaseField>();
    let mut pts = Vec::new();
    for x in &els {
        let rhs = *x * x * x + P::COEFF_A * x + P::COEFF_B;
        for y in &els { if *y * y == rhs { pts.push(sw::Affine::<P>::new_unchecked(*x, *y)); } }
    }
    pts
}
fn sw_rescale<P: sw::SWCurveConfig>(a: &sw::Affine<P>, l: P::BaseField) -> sw::Projective<P> {
    let l2 = l * l;
    sw::Projective::new_unchecked(a.x * l2, a.y * l2 * l, l)
}
/// representatives (tag, value) — identity forms first
fn sw_identities<P: sw::SWCurveConfig>(some: Option<&sw::Affine<P>>) -> Vec<(String, sw::Projective<P>)> {
    let z = P::BaseField::zero();
    let mut v = vec![("id".to_string(), sw::Projective::<P>::zero()),
                     ("id000".to_string(), sw::Projective::new_unchecked(z, z, z)),
                     ("id230".to_string(), sw::Projective::new_unchecked(small(&[2, 1]), small(&[3]), z))];
    if let Some(a) = some { v.push(("idxy0".to_string(), sw::Projective::new_unchecked(a.x, a.y, z))); }
    v
}
fn sw_suite<P: sw::SWCurveConfig>(out: &mut Out, rng: &mut Rng, fld: &str, reps: &[(String, sw::Projective<P>)], affs: &[(String, sw::Affine<P>)], all_pairs: bool, npairs: usize) {
    let pfx = format!("{:x} {}", nlimbs::<P::BaseField>(), fld);
    let n = reps.len();
    let mut pairs: Vec<(usize, usize)> = Vec::new();
    if all_pairs { for i in 0..n { for j in 0..n { pairs.push((i, j)); } } }
    else {
        for _ in 0..npairs { pairs.push((rng.below(n as u64) as usize, rng.below(n as u64) as usize)); }
        for i in 0..n { for j in 0..n { if i == j || reps[i].1 == reps[j].1 || reps[i].1 == -reps[j].1 { pairs.push((i, j)); } } }
    }
    for &(i, j) in &pairs {
        let (p, q) = (reps[i].1, reps[j].1);
        let args = format!("{} {}~{} {} {}", pfx, reps[i].0, reps[j].0, jac(&p), jac(&q));
        out.line(&format!("C19 sw.pteq {}", args), &guarded(|| b01(p == q).to_string()));
        out.line(&format!("C19 sw.pthash {}", args), &streams(&p, &q));
    }
    for (t, p) in reps {
        let p = *p;
        out.line(&format!("C19 sw.ptzero {} {} {}", pfx, t, jac(&p)), &guarded(|| format!("{} {}", b01(p.is_zero()), b01(p == sw::Projective::<P>::zero()))));
    }
    // affine × projective, both directions
    for (ta, a) in affs { for (tp, p) in reps {
        let (a, p) = (*a, *p);
        if !all_pairs && !(a.infinity || p.is_zero() || a == p || -a == p || rng.below(8) == 0) { continue; }
        out.line(&format!("C19 sw.ptmixedeq {} {}~{} {} {}", pfx, ta, tp, swaff(&a), jac(&p)), &guarded(|| format!("{} {}", b01(a == p), b01(p == a))));
    } }
    // affine × affine (derived impls)
    for (ta, a) in affs { for (tb, b) in affs {
        let (a, b) = (*a, *b);
        // the placeholder coordinates of a flagged-infinity value are only reachable through the public fields:
        // such pairs go to separate ops (`.raw`) so that they can be told apart
        let raw = (a.infinity && !(a.x.is_zero() && a.y.is_zero())) || (b.infinity && !(b.x.is_zero() && b.y.is_zero()));
        let sfx = if raw { ".raw" } else { "" };
        let args = format!("{} {}~{} {} {}", pfx, ta, tb, swaff(&a), swaff(&b));
        out.line(&format!("C19 sw.affeq{} {}", sfx, args), &guarded(|| b01(a == b).to_string()));
        out.line(&format!("C19 sw.affhash{} {}", sfx, args), &streams(&a, &b));
    } }
    for (t, a) in affs {
        let a = *a;
        let raw = a.infinity && !(a.x.is_zero() && a.y.is_zero());
        out.line(&format!("C19 sw.affzero{} {} {} {}", if raw { ".raw" } else { "" }, pfx, t, swaff(&a)), &guarded(|| format!("{} {}", b01(AffineRepr::is_zero(&a)), b01(a == sw::Affine::<P>::identity()))));
    }
}
fn sw_affs<P: sw::SWCurveConfig>(pts: &[sw::Affine<P>]) -> Vec<(String, sw::Affine<P>)> {
    let mut affs = vec![("inf".to_string(), sw::Affine::<P>::identity()),
        ("zero".to_string(), <sw::Affine<P> as AffineRepr>::zero()),
        ("norm-id".to_string(), sw::Projective::<P>::new_unchecked(small(&[2]), small(&[3]), P::BaseField::zero()).into_affine()),
        ("neg-inf".to_string(), -sw::Affine::<P>::identity()),
        ("inf!23".to_string(), sw::Affine::<P> { x: small(&[2]), y: small(&[3]), infinity: true })];
    if let Some(a) = pts.first() { affs.push(("inf!pt".to_string(), sw::Affine::<P> { x: a.x, y: a.y, infinity: true })); }
    for (i, a) in pts.iter().enumerate() { affs.push((format!("a{}", i), *a)); }
    affs
}
fn sw_toy<P: sw::SWCurveConfig>(out: &mut Out, rng: &mut Rng, a: &arkharness::Args, name: &str, order: usize) {
    if let Some(o) = &a.only { if o != name && o != "curves" { return; } }
    let pts = sw_points::<P>();
    assert_eq!(pts.len() + 1, order, "{}: group order", name);
    assert!(pts.contains(&P::GENERATOR), "{}: generator on curve", name);
    let mut reps = sw_identities::<P>(pts.first());
    let ls: Vec<u64> = if a.thorough { (1..13).collect() } else { vec![1, 2, 3] };
    for (i, pt) in pts.iter().enumerate() { for l in &ls { reps.push((format!("a{}z{}", i, l), sw_rescale(pt, small(&[*l])))); } }
    // alternative operation sequences
    let g = sw::Projective::<P>::generator();
    reps.push(("2g-dbl".into(), g.double()));
    reps.push(("2g-add".into(), g + g));
    reps.push(("3g".into(), g + g + g));
    reps.push(("3g'".into(), g.double() + g));
    reps.push(("g-g".into(), g - g));
    reps.push(("ord*g".into(), g.mul_bigint([order as u64])));
    reps.push(("g+inf".into(), g + sw::Affine::<P>::identity()));
    let fld = hexp::<<P::BaseField as Field>::BasePrimeField>();
    let quick_cap = if a.thorough { usize::MAX } else { 60 };
    let all = reps.len() <= quick_cap;
    sw_suite::<P>(out, rng, &fld, &reps, &sw_affs::<P>(&pts), all, 3000);
}
fn sw_real<P: sw::SWCurveConfig>(out: &mut Out, rng: &mut Rng, a: &arkharness::Args, name: &str, fld: &str) {
    if let Some(o) = &a.only { if o != name && o != "curves" { return; } }
    let g = sw::Projective::<P>::generator();
    let rs = |rng: &mut Rng| P::ScalarField::from_le_bytes_mod_order(&(0..80).map(|_| rng.next() as u8).collect::<Vec<_>>());
    let mut reps = sw_identities::<P>(Some(&P::GENERATOR));
    let mut pts: Vec<sw::Affine<P>> = Vec::new();
    let npts = if a.thorough { 5 } else { 2 };
    for i in 0..npts {
        let (s, u) = (rs(rng), rs(rng));
        let p = g * s; let q = g * u;
        let pa = p.into_affine();
        pts.push(pa);
        reps.push((format!("p{}", i), p));                                   // raw result of scalar multiplication (Z ≠ 1)
        reps.push((format!("p{}aff", i), pa.into_group()));                  // Z = 1
        reps.push((format!("p{}z2", i), sw_rescale(&pa, small(&[2]))));
        reps.push((format!("p{}zr", i), sw_rescale(&pa, rand_elem(rng))));
        reps.push((format!("p{}zm1", i), sw_rescale(&pa, -P::BaseField::one())));
        reps.push((format!("p{}+q-q", i), (p + q) - q));
        reps.push((format!("p{}negneg", i), -(-p)));
        reps.push((format!("p{}'", i), g * (s - u) + q));                    // (s−u)G + uG
        reps.push((format!("2p{}dbl", i), p.double()));
        reps.push((format!("2p{}add", i), p + pa));
        reps.push((format!("2p{}mul", i), g * (s + s)));
        reps.push((format!("-p{}", i), -p));
        reps.push((format!("-p{}'", i), g * (-s)));
        reps.push((format!("p{}-p{}", i, i), p - p));
        reps.push((format!("p{}+(-p{})'", i, i), p + g * (-s)));
    }
    reps.push(("r*g".into(), g.mul_bigint(P::ScalarField::MODULUS)));
    pts.push(P::GENERATOR);
    sw_suite::<P>(out, rng, fld, &reps, &sw_affs::<P>(&pts), false, if a.thorough { 1500 } else { 150 });
}

// ---------------------------------------------------------------- twisted Edwards
fn te_points<P: te::TECurveConfig>() -> Vec<te::Affine<P>> {
    let els = field_elems::<P::BaseField>();
    let mut pts = Vec::new();
    for x in &els { for y in &els {
        let (x2, y2) = (*x * x, *y * y);
        if P::COEFF_A * x2 + y2 == P::BaseField::one() + P::COEFF_D * x2 * y2 { pts.push(te::Affine::<P>::new_unchecked(*x, *y)); }
    } }
    pts
}
fn te_rescale<P: te::TECurveConfig>(a: &te::Affine<P>, l: P::BaseField) -> te::Projective<P> {
    te::Projective::new_unchecked(a.x * l, a.y * l, a.x * a.y * l, l)
}
fn te_suite<P: te::TECurveConfig>(out: &mut Out, rng: &mut Rng, fld: &str, reps: &[(String, te::Projective<P>)], affs: &[(String, te::Affine<P>)], all_pairs: bool, npairs: usize) {
    let pfx = format!("{:x} {}", nlimbs::<P::BaseField>(), fld);
    let n = reps.len();
    let mut pairs: Vec<(usize, usize)> = Vec::new();
    if all_pairs { for i in 0..n { for j in 0..n { pairs.push((i, j)); } } }
    else {
        for _ in 0..npairs { pairs.push((rng.below(n as u64) as usize, rng.below(n as u64) as usize)); }
        for i in 0..n { for j in 0..n { if i == j || reps[i].1 == reps[j].1 || reps[i].1 == -reps[j].1 { pairs.push((i, j)); } } }
    }
    for &(i, j) in &pairs {
        let (p, q) = (reps[i].1, reps[j].1);
        let args = format!("{} {}~{} {} {}", pfx, reps[i].0, reps[j].0, ext4(&p), ext4(&q));
        out.line(&format!("C19 te.pteq {}", args), &guarded(|| b01(p == q).to_string()));
        out.line(&format!("C19 te.pthash {}", args), &streams(&p, &q));
    }
    for (t, p) in reps {
        let p = *p;
        out.line(&format!("C19 te.ptzero {} {} {}", pfx, t, ext4(&p)), &guarded(|| format!("{} {}", b01(p.is_zero()), b01(p == te::Projective::<P>::zero()))));
    }
    for (ta, a) in affs { for (tp, p) in reps {
        let (a, p) = (*a, *p);
        if !all_pairs && !(a.is_zero() || p.is_zero() || a == p || -a == p || rng.below(8) == 0) { continue; }
        out.line(&format!("C19 te.ptmixedeq {} {}~{} {} {}", pfx, ta, tp, teaff(&a), ext4(&p)), &guarded(|| format!("{} {}", b01(a == p), b01(p == a))));
    } }
    for (ta, a) in affs { for (tb, b) in affs {
        let (a, b) = (*a, *b);
        let args = format!("{} {}~{} {} {}", pfx, ta, tb, teaff(&a), teaff(&b));
        out.line(&format!("C19 te.affeq {}", args), &guarded(|| b01(a == b).to_string()));
        out.line(&format!("C19 te.affhash {}", args), &streams(&a, &b));
    } }
    for (t, a) in affs {
        let a = *a;
        out.line(&format!("C19 te.affzero {} {} {}", pfx, t, teaff(&a)), &guarded(|| format!("{} {} {}", b01(a.is_zero()), b01(AffineRepr::is_zero(&a)), b01(a == te::Affine::<P>::zero()))));
    }
}
fn te_toy<P: te::TECurveConfig>(out: &mut Out, rng: &mut Rng, a: &arkharness::Args, name: &str, npts: usize) {
    if let Some(o) = &a.only { if o != name && o != "curves" { return; } }
    let mut pts = te_points::<P>();
    assert_eq!(pts.len(), npts, "{}: number of points", name);
    assert!(pts.contains(&P::GENERATOR), "{}: generator on curve", name);
    let z = te::Affine::<P>::zero();
    pts.retain(|p| *p != z); pts.insert(0, z);
    let ls: Vec<u64> = if a.thorough { (1..13).collect() } else { vec![1, 2, 3] };
    let mut reps: Vec<(String, te::Projective<P>)> = Vec::new();
    for (i, pt) in pts.iter().enumerate() { for l in &ls { reps.push((format!("a{}z{}", i, l), te_rescale(pt, small(&[*l])))); } }
    let g = te::Projective::<P>::generator();
    reps.push(("id".into(), te::Projective::<P>::zero()));
    reps.push(("2g-dbl".into(), g.double()));
    reps.push(("2g-add".into(), g + g));
    reps.push(("3g".into(), g + g + g));
    reps.push(("g-g".into(), g - g));
    reps.push(("ord*g".into(), g.mul_bigint([npts as u64])));
    let mut affs: Vec<(String, te::Affine<P>)> = pts.iter().enumerate().map(|(i, p)| (format!("a{}", i), *p)).collect();
    affs.push(("norm-id".into(), (g - g).into_affine()));
    let fld = hexp::<<P::BaseField as Field>::BasePrimeField>();
    let all = a.thorough || reps.len() <= 70;
    te_suite::<P>(out, rng, &fld, &reps, &affs, all, 3000);
}
fn te_real<P: te::TECurveConfig>(out: &mut Out, rng: &mut Rng, a: &arkharness::Args, name: &str, fld: &str) {
    if let Some(o) = &a.only { if o != name && o != "curves" { return; } }
    let g = te::Projective::<P>::generator();
    let rs = |rng: &mut Rng| P::ScalarField::from_le_bytes_mod_order(&(0..80).map(|_| rng.next() as u8).collect::<Vec<_>>());
    let mut reps: Vec<(String, te::Projective<P>)> = vec![("id".into(), te::Projective::<P>::zero()),
        ("idz2".into(), te_rescale(&te::Affine::<P>::zero(), small(&[2]))), ("idzr".into(), te_rescale(&te::Affine::<P>::zero(), rand_elem(rng)))];
    let mut pts: Vec<te::Affine<P>> = vec![te::Affine::<P>::zero(), te::Affine::<P>::new_unchecked(P::BaseField::zero(), -P::BaseField::one())];
    reps.push(("ord2".into(), pts[1].into_group()));
    reps.push(("ord2z2".into(), te_rescale(&pts[1], small(&[2]))));
    let npts = if a.thorough { 5 } else { 2 };
    for i in 0..npts {
        let (s, u) = (rs(rng), rs(rng));
        let p = g * s; let q = g * u;
        let pa = p.into_affine();
        pts.push(pa);
        reps.push((format!("p{}", i), p));
        reps.push((format!("p{}aff", i), pa.into_group()));
        reps.push((format!("p{}z2", i), te_rescale(&pa, small(&[2]))));
        reps.push((format!("p{}zr", i), te_rescale(&pa, rand_elem(rng))));
        reps.push((format!("p{}zm1", i), te_rescale(&pa, -P::BaseField::one())));
        reps.push((format!("p{}+q-q", i), (p + q) - q));
        reps.push((format!("p{}'", i), g * (s - u) + q));
        reps.push((format!("2p{}dbl", i), p.double()));
        reps.push((format!("2p{}add", i), p + pa));
        reps.push((format!("-p{}", i), -p));
        reps.push((format!("-p{}'", i), g * (-s)));
        reps.push((format!("p{}-p{}", i, i), p - p));
        reps.push((format!("p{}+(-p{})'", i, i), p + g * (-s)));
    }
    reps.push(("r*g".into(), g.mul_bigint(P::ScalarField::MODULUS)));
    let affs: Vec<(String, te::Affine<P>)> = pts.iter().enumerate().map(|(i, p)| (format!("a{}", i), *p)).collect();
    te_suite::<P>(out, rng, fld, &reps, &affs, false, if a.thorough { 1500 } else { 150 });
}

// ================================================================ polynomials
fn shd<T: MontConfig<N>, const N: usize>(v: &[F<T, N>]) -> String {
    if v.is_empty() { return "_".into(); }
    v.iter().map(|c| h(c)).collect::<Vec<_>>().join(",")
}
fn shs<T: MontConfig<N>, const N: usize>(v: &[(usize, F<T, N>)]) -> String {
    if v.is_empty() { return "_".into(); }
    v.iter().map(|(d, c)| format!("{:x}:{}", d, h(c))).collect::<Vec<_>>().join(",")
}
/// `desc` = the operands of the current operation sequences (printed in the tag of the `polyeq` line)
struct PolyCx<'a> { out: &'a mut Out, pfx: String, skipped: std::collections::BTreeMap<String, u64>, desc: String }
type DP<T, const N: usize> = DensePolynomial<F<T, N>>;
type SP<T, const N: usize> = SparsePolynomial<F<T, N>>;

fn d_pair<T: MontConfig<N>, const N: usize>(cx: &mut PolyCx, tag: &str, f: impl FnOnce() -> (DP<T, N>, DP<T, N>)) {
    match std::panic::catch_unwind(std::panic::AssertUnwindSafe(f)) {
        Err(_) => *cx.skipped.entry(format!("d:{}", tag)).or_insert(0) += 1,      // the operation sequence itself panicked (C08's business)
        Ok((a, b)) => {
            let args = format!("{} d {} {} {}", cx.pfx, tag, shd(&a.coeffs), shd(&b.coeffs));
            cx.out.line(&format!("C19 polyeq {} d {}@{} {} {}", cx.pfx, tag, cx.desc, shd(&a.coeffs), shd(&b.coeffs)), &guarded(|| b01(a == b).to_string()));
            cx.out.line(&format!("C19 polyhash {}", args), &streams(&a, &b));
            cx.out.line(&format!("C19 polyzero {} d {} {}", cx.pfx, tag, shd(&a.coeffs)), &guarded(|| format!("{} {}", b01(a.is_zero()), b01(a == DP::<T, N>::zero()))));
        }
    }
}
fn s_pair<T: MontConfig<N>, const N: usize>(cx: &mut PolyCx, tag: &str, f: impl FnOnce() -> (SP<T, N>, SP<T, N>)) {
    match std::panic::catch_unwind(std::panic::AssertUnwindSafe(f)) {
        Err(_) => *cx.skipped.entry(format!("s:{}", tag)).or_insert(0) += 1,
        Ok((a, b)) => {
            let args = format!("{} s {} {} {}", cx.pfx, tag, shs(&a.to_vec()), shs(&b.to_vec()));
            cx.out.line(&format!("C19 polyeq {} s {}@{} {} {}", cx.pfx, tag, cx.desc, shs(&a.to_vec()), shs(&b.to_vec())), &guarded(|| b01(a == b).to_string()));
            cx.out.line(&format!("C19 polyhash {}", args), &streams(&a, &b));
            cx.out.line(&format!("C19 polyzero {} s {} {}", cx.pfx, tag, shs(&a.to_vec())), &guarded(|| format!("{} {}", b01(a.is_zero()), b01(a == SP::<T, N>::zero()))));
        }
    }
}
fn dense_seqs<T: MontConfig<N>, const N: usize>(cx: &mut PolyCx, p: &DP<T, N>, q: &DP<T, N>, f: F<T, N>, fft: bool) {
    let zero = F::<T, N>::zero();
    cx.desc = format!("p={}@q={}@f={}", shd(&p.coeffs), shd(&q.coeffs), h(&f));
    d_pair::<T, N>(cx, "pair", || (p.clone(), q.clone()));
    d_pair::<T, N>(cx, "addsub", || (&(p + q) - q, p.clone()));
    d_pair::<T, N>(cx, "subadd", || (&(p - q) + q, p.clone()));
    d_pair::<T, N>(cx, "comm-add", || (p + q, q + p));
    d_pair::<T, N>(cx, "comm-mul", || (p.naive_mul(q), q.naive_mul(p)));
    if fft { d_pair::<T, N>(cx, "fftmul", || (p * q, p.naive_mul(q))); }
    d_pair::<T, N>(cx, "sub-self", || (p - p, DP::<T, N>::zero()));
    d_pair::<T, N>(cx, "add-neg", || (p + &(-p.clone()), DP::<T, N>::zero()));
    d_pair::<T, N>(cx, "addassign", || { let mut x = p.clone(); x += q; (x, p + q) });
    d_pair::<T, N>(cx, "subassign", || { let mut x = p.clone(); x -= q; (x, p - q) });
    d_pair::<T, N>(cx, "subassign-self", || { let mut x = p.clone(); x -= p; (x, DP::<T, N>::zero()) });
    d_pair::<T, N>(cx, "scaled0", || { let mut x = p.clone(); x += (zero, q); (x, p.clone()) });
    d_pair::<T, N>(cx, "scaled", || { let mut x = p.clone(); x += (f, q); x += (-f, q); (x, p.clone()) });
    d_pair::<T, N>(cx, "scaled-cancel", || { let mut x = p.clone(); x += (-F::<T, N>::one(), p); (x, DP::<T, N>::zero()) });
    d_pair::<T, N>(cx, "scale0", || (p * zero, DP::<T, N>::zero()));
    if let Some(fi) = f.inverse() { d_pair::<T, N>(cx, "scale", || (&(p * f) * fi, p.clone())); }
    if !q.is_zero() { d_pair::<T, N>(cx, "muldiv", || (&p.naive_mul(q) / q, p.clone())); }
    d_pair::<T, N>(cx, "mul-zero", || (p.naive_mul(&DP::<T, N>::zero()), DP::<T, N>::zero()));
    d_pair::<T, N>(cx, "viasparse", || (DP::<T, N>::from(SP::<T, N>::from(p.clone())), p.clone()));
    d_pair::<T, N>(cx, "dsadd", || (p + &SP::<T, N>::from(q.clone()), p + q));
    d_pair::<T, N>(cx, "dsaddassign", || { let mut x = p.clone(); x += &SP::<T, N>::from(q.clone()); (x, p + q) });
    d_pair::<T, N>(cx, "dssub", || (p - &SP::<T, N>::from(q.clone()), p - q));
    d_pair::<T, N>(cx, "dssubassign", || { let mut x = p.clone(); x -= &SP::<T, N>::from(q.clone()); (x, p - q) });
    d_pair::<T, N>(cx, "pad", || { let mut v = p.coeffs.clone(); v.push(zero); v.push(zero); (DP::<T, N>::from_coefficients_vec(v), p.clone()) });
}
fn sparse_seqs<T: MontConfig<N>, const N: usize>(cx: &mut PolyCx, s: &SP<T, N>, t: &SP<T, N>, f: F<T, N>) {
    let zero = F::<T, N>::zero();
    cx.desc = format!("s={}@t={}@f={}", shs(&s.to_vec()), shs(&t.to_vec()), h(&f));
    s_pair::<T, N>(cx, "pair", || (s.clone(), t.clone()));
    s_pair::<T, N>(cx, "comm-add", || (s + t, t + s));
    s_pair::<T, N>(cx, "comm-mul", || (s.mul(t), t.mul(s)));
    s_pair::<T, N>(cx, "add-neg", || (s + &(-s.clone()), SP::<T, N>::zero()));
    s_pair::<T, N>(cx, "addsub", || (&(s + t) + &(-t.clone()), s.clone()));
    s_pair::<T, N>(cx, "addassign", || { let mut x = s.clone(); x += t; (x, s + t) });
    s_pair::<T, N>(cx, "subassign", || { let mut x = s.clone(); x -= t; (x, s + &(-t.clone())) });
    s_pair::<T, N>(cx, "mul-vs-dense", || (s.mul(t), SP::<T, N>::from(DP::<T, N>::from(s.clone()).naive_mul(&DP::<T, N>::from(t.clone())))));
    s_pair::<T, N>(cx, "viadense", || (SP::<T, N>::from(DP::<T, N>::from(s.clone())), s.clone()));
    s_pair::<T, N>(cx, "scale0", || (s * zero, SP::<T, N>::zero()));
    if let Some(fi) = f.inverse() { s_pair::<T, N>(cx, "scale", || (&(s * f) * fi, s.clone())); }
    s_pair::<T, N>(cx, "scaled0", || { let mut x = s.clone(); x += (zero, t); (x, SP::<T, N>::zero()) });
    s_pair::<T, N>(cx, "scaled1", || { let mut x = s.clone(); x += (F::<T, N>::one(), t); (x, s + t) });
    s_pair::<T, N>(cx, "shuffled", || { let mut v = s.to_vec(); v.reverse(); (SP::<T, N>::from_coefficients_vec(v), s.clone()) });
    s_pair::<T, N>(cx, "mul-zero", || (s.mul(&SP::<T, N>::zero()), SP::<T, N>::zero()));
}
fn poly_suite<T: MontConfig<N>, const N: usize>(out: &mut Out, rng: &mut Rng, exhaustive_len: usize, degs: &[usize], all_nz: bool, nrand: usize, fft: bool) {
    let mut cx = PolyCx { out, pfx: format!("{:x} {}", N, hex_limbs(&T::MODULUS.0)), skipped: Default::default(), desc: String::new() };
    let p0 = T::MODULUS.0[0];
    let re = |rng: &mut Rng| -> F<T, N> { if N == 1 && p0 < 1000 { F::<T, N>::from(rng.below(p0)) } else if rng.below(4) == 0 { F::<T, N>::from(rng.below(3)) } else { F::<T, N>::from_le_bytes_mod_order(&(0..8 * N + 8).map(|_| rng.next() as u8).collect::<Vec<_>>()) } };
    let rnz = |rng: &mut Rng| -> F<T, N> { loop { let x = re(rng); if !x.is_zero() { return x; } } };
    // ---- exhaustive: all canonical dense polynomials with at most `exhaustive_len` coefficients (tiny fields)
    if exhaustive_len > 0 {
        let els: Vec<F<T, N>> = (0..p0).map(|x| F::<T, N>::from(x)).collect();
        let mut polys: Vec<DP<T, N>> = vec![DP::<T, N>::zero()];
        let mut cur: Vec<Vec<F<T, N>>> = vec![vec![]];
        for _ in 0..exhaustive_len {
            let mut nxt = Vec::new();
            for v in &cur { for e in &els { let mut w = v.clone(); w.push(*e); nxt.push(w); } }
            for v in &nxt { if !v.last().unwrap().is_zero() { polys.push(DP::<T, N>::from_coefficients_vec(v.clone())); } }
            cur = nxt;
        }
        for p in &polys { for q in &polys { let f = re(rng); dense_seqs::<T, N>(&mut cx, p, q, f, fft); } }
        // sparse: up to two terms over the degrees `degs`
        let nz: Vec<F<T, N>> = els.iter().filter(|e| !e.is_zero()).cloned().collect();
        let nzs: Vec<F<T, N>> = if all_nz { nz.clone() } else { vec![nz[0], nz[nz.len() - 1]] };
        let mut sps: Vec<SP<T, N>> = vec![SP::<T, N>::zero()];
        for (i, d) in degs.iter().enumerate() { for c in &nzs {
            sps.push(SP::<T, N>::from_coefficients_vec(vec![(*d, *c)]));
            for e in degs.iter().skip(i + 1) { for c2 in &nzs { sps.push(SP::<T, N>::from_coefficients_vec(vec![(*d, *c), (*e, *c2)])); } }
        } }
        for s in &sps { for t in &sps { let f = re(rng); sparse_seqs::<T, N>(&mut cx, s, t, f); } }
    }
    // ---- random
    for it in 0..nrand {
        let lp = rng.below(7) as usize; let lq = if it % 3 == 0 { lp } else { rng.below(7) as usize };
        let mut pv: Vec<F<T, N>> = (0..lp).map(|_| re(rng)).collect(); if let Some(l) = pv.last_mut() { *l = rnz(rng); }
        let mut qv: Vec<F<T, N>> = (0..lq).map(|_| re(rng)).collect(); if let Some(l) = qv.last_mut() { *l = rnz(rng); }
        // cancelling leading terms
        if it % 3 == 0 && lp > 0 { let top = lp - 1; qv[top] = if it % 2 == 0 { -pv[top] } else { pv[top] }; if it % 6 == 0 && lp > 1 { qv[top - 1] = -pv[top - 1]; } }
        let (p, q) = (DP::<T, N>::from_coefficients_vec(pv), DP::<T, N>::from_coefficients_vec(qv));
        let f = re(rng);
        dense_seqs::<T, N>(&mut cx, &p, &q, f, fft);
        let mk = |rng: &mut Rng| -> SP<T, N> {
            let k = rng.below(4) as usize; let mut v = Vec::new(); let mut d = rng.below(3) as usize;
            for _ in 0..k { v.push((d, rnz(rng))); d += 1 + rng.below(4) as usize; }
            SP::<T, N>::from_coefficients_vec(v)
        };
        let s = mk(rng);
        let t = match it % 4 { 0 => -s.clone(), 1 => { let mut v = s.to_vec(); if let Some(l) = v.last_mut() { l.1 = -l.1; } SP::<T, N>::from_coefficients_vec(v) }, _ => mk(rng) };
        sparse_seqs::<T, N>(&mut cx, &s, &t, f);
    }
    if !cx.skipped.is_empty() { eprintln!("c19: polynomial operation sequences that panicked (skipped; see C08): {:?}", cx.skipped); }
}

fn main() {
    let a = arkharness::args();
    let mut rng = Rng::new(a.seed);
    let mut out = Out::new();
    let th = a.thorough;
    let sel = |s: &str| a.only.as_deref().map_or(true, |o| o == s);
    // ---- prime fields: the zoo and shipped fields
    {
        let (rng, out, only) = (&mut rng, &mut out, &a.only);
        {
            arkharness::for_each_zoo!(zoo_ops, rng, th, out, only);
            use ark_test_curves::{bls12_381, mnt4_753, secp256k1, ed_on_bls12_381};
            fp_ops::<bls12_381::FrConfig, 4>("d", "bls12_381::Fr", rng, th, out, only);
            fp_ops::<bls12_381::FqConfig, 6>("d", "bls12_381::Fq", rng, th, out, only);
            fp_ops::<mnt4_753::FqConfig, 12>("d", "mnt4_753::Fq", rng, th, out, only);
            fp_ops::<secp256k1::FqConfig, 4>("d", "secp256k1::Fq", rng, th, out, only);
            fp_ops::<ed_on_bls12_381::FrConfig, 4>("d", "ed_on_bls12_381::Fr", rng, th, out, only);
        }
    }
    if sel("big") {
        big_ops::<1>(&mut rng, th, &mut out); big_ops::<2>(&mut rng, th, &mut out); big_ops::<3>(&mut rng, th, &mut out);
        big_ops::<4>(&mut rng, th, &mut out); big_ops::<6>(&mut rng, th, &mut out); big_ops::<12>(&mut rng, th, &mut out);
    }
    if sel("ext") {
        use ark_test_curves::{bls12_381, mnt6_753};
        ext_suite::<bls12_381::FqConfig, 6, bls12_381::Fq2>(&mut out, &mut rng, "2", th);
        ext_suite::<bls12_381::FqConfig, 6, bls12_381::Fq6>(&mut out, &mut rng, "3.2", th);
        ext_suite::<bls12_381::FqConfig, 6, bls12_381::Fq12>(&mut out, &mut rng, "2.3.2", th);
        ext_suite::<mnt6_753::FqConfig, 12, mnt6_753::Fq3>(&mut out, &mut rng, "3", th);
    }
    if sel("pairing") { pairing_suite(&mut out, &mut rng, th); }
    // ---- curves
    {
        let (o, r) = (&mut out, &mut rng);
        {
            sw_toy::<SW13A>(o, r, &a, "SW13A", 7);
            sw_toy::<SW13D>(o, r, &a, "SW13D", 14);
            te_toy::<TE13A>(o, r, &a, "TE13A", 20);
            use ark_test_curves::{bls12_381, ed_on_bls12_381, secp256k1};
            sw_real::<bls12_381::g1::Config>(o, r, &a, "bls12_381_g1", &hexp::<bls12_381::Fq>());
            let fq2 = format!("{}:2:{}", hexp::<bls12_381::Fq>(), fe(&<bls12_381::Fq2Config as ark_ff::Fp2Config>::NONRESIDUE));
            sw_real::<bls12_381::g2::Config>(o, r, &a, "bls12_381_g2", &fq2);
            sw_real::<secp256k1::Config>(o, r, &a, "secp256k1", &hexp::<secp256k1::Fq>());
            te_real::<ed_on_bls12_381::EdwardsConfig>(o, r, &a, "ed_on_bls12_381", &hexp::<ed_on_bls12_381::Fq>());
        }
    }
    if sel("poly") {
        use arkharness::zoo::{DT3, DT5, DT13};
        // exhaustive: every pair of canonical dense polynomials with ≤ 2 (thorough: ≤ 3) coefficients over F_3,
        // thorough also ≤ 2 coefficients over F_5; sparse polynomials with ≤ 2 terms over a few degrees
        poly_suite::<DT3, 1>(&mut out, &mut rng, if th { 3 } else { 2 }, if th { &[0, 1, 2, 5] } else { &[0, 1, 3] }, true, if th { 200 } else { 10 }, false);
        if th { poly_suite::<DT5, 1>(&mut out, &mut rng, 2, &[0, 1, 2, 5], false, 400, false); }
        poly_suite::<DT13, 1>(&mut out, &mut rng, 0, &[], false, if th { 1500 } else { 50 }, false);
        poly_suite::<ark_test_curves::bls12_381::FrConfig, 4>(&mut out, &mut rng, 0, &[], false, if th { 600 } else { 30 }, true);
    }
    out.flush();
}
