//! C20: compile-time literals.
//!  * `montfp` / `bigint`: the generated grid of `MontFp!` / `BigInt!` constants (src/lits_gen.rs, produced by
//!    tools/gen_lits.py) — the values were computed by the proc-macro + const evaluation when this binary was
//!    compiled and are only printed here;
//!  * `derive` / `derivess`: associated constants of `#[derive(MontConfig)]` configurations, next to the
//!    attribute strings they were derived from;
//!  * `twoadicity`: `MODULUS.two_adic_valuation()` (const) of every zoo configuration;
//!  * `fsl`: run-time calls of `Fp::from_sign_and_limbs` (the function `MontFp!` expands to) on edge limb slices,
//!    also longer than `N` (panic) and shorter, values `>= p`, both signs;
//!  * `fromstr` / `bigfromstr`: the run-time decimal parsers `Fp::from_str`, `BigInt::<N>::from_str`.
#![allow(dead_code, deprecated, unused_macros)]
use arkharness::util::*;
use ark_ff::{BigInt, BigInteger, FftField, Fp, MontBackend, MontConfig, PrimeField};
use num_bigint::BigUint;
use std::str::FromStr;

#[macro_use]
#[path = "../lits_gen.rs"]
mod lits_gen;
use lits_gen::*;
use arkharness::zoo::*;

type F<T, const N: usize> = Fp<MontBackend<T, N>, N>;

fn h<const N: usize>(l: &[u64; N]) -> String { hex_limbs(l) }
fn big<const N: usize>(l: &[u64; N]) -> BigUint { BigUint::from(BigInt::<N>(*l)) }

/// string token: bytes 0x21..=0x7e except '\\' raw, everything else `\xHH`; the empty string is `\e`
fn esc(s: &str) -> String {
    if s.is_empty() { return "\\e".into(); }
    let mut o = String::new();
    for b in s.bytes() {
        if (0x21..=0x7e).contains(&b) && b != b'\\' { o.push(b as char); } else { o.push_str(&format!("\\x{:02x}", b)); }
    }
    o
}

fn montfp_table<T: MontConfig<N>, const N: usize>(fl: &str, table: &[(&str, F<T, N>)], out: &mut Out) {
    let pfx = format!("{} {:x} {}", fl, N, h(&T::MODULUS.0));
    for (s, v) in table {
        out.line(&format!("C20 montfp {} {}", pfx, esc(s)), &h(&v.0 .0));
    }
}

fn bigint_table<const N: usize>(table: &[(&str, BigInt<N>)], out: &mut Out) {
    for (s, v) in table {
        out.line(&format!("C20 bigint {:x} {}", N, esc(s)), &h(&v.0));
    }
}

fn derive_facts<T: MontConfig<N>, const N: usize>() -> String {
    format!("{:x} {} {:x} {} {}", N, hex_list_u64(&T::MODULUS.0), <F<T, N> as FftField>::TWO_ADICITY,
        h(&T::TWO_ADIC_ROOT_OF_UNITY.into_bigint().0), h(&T::GENERATOR.into_bigint().0))
}

fn derive_line<T: MontConfig<N>, const N: usize>(ms: &str, gs: &str, out: &mut Out) {
    out.line(&format!("C20 derive {} {}", esc(ms), esc(gs)), &derive_facts::<T, N>());
}

fn derive_ss_line<T: MontConfig<N>, const N: usize>(ms: &str, gs: &str, b: &str, k: &str, out: &mut Out) {
    let large = match T::LARGE_SUBGROUP_ROOT_OF_UNITY { Some(x) => h(&x.into_bigint().0), None => "none".into() };
    out.line(&format!("C20 derivess {} {} {} {}", esc(ms), esc(gs), esc(b), esc(k)), &format!("{} {}", derive_facts::<T, N>(), large));
}

/// limb slices for `from_sign_and_limbs`
fn fsl_inputs<T: MontConfig<N>, const N: usize>(rng: &mut Rng, thorough: bool) -> Vec<Vec<u64>> {
    let p = T::MODULUS.0;
    let mut full: Vec<[u64; N]> = edge_values::<N>(rng, if thorough { 700 } else { 8 });
    full.push(p);
    { let mut q = BigInt::<N>(p); q.sub_with_borrow(&BigInt::from(1u64)); full.push(q.0); }
    { let mut q = BigInt::<N>(p); if !q.add_with_carry(&BigInt::from(1u64)) { full.push(q.0); } }
    { let mut q = BigInt::<N>(p); if !q.add_with_carry(&BigInt::<N>(p)) { full.push(q.0); let mut q2 = q; if !q2.add_with_carry(&BigInt::from(1u64)) { full.push(q2.0); } } }
    { let mut q = BigInt::<N>(p); q.div2(); full.push(q.0); }
    full.push(T::R.0); full.push(T::R2.0);
    // 2^(64N) - p  (= -p mod 2^(64N))
    { let mut q = BigInt::<N>([0; N]); q.sub_with_borrow(&BigInt::<N>(p)); full.push(q.0); }
    let mut v: Vec<Vec<u64>> = Vec::new();
    for a in &full {
        v.push(a.to_vec());
        // the shortest slice denoting the same number, as the macro would produce it
        let mut k = N; while k > 1 && a[k - 1] == 0 { k -= 1; }
        if k < N { v.push(a[..k].to_vec()); }
    }
    // proper prefixes of the modulus and of random values
    for k in 0..N { v.push(p[..k].to_vec()); let r: [u64; N] = rng.limbs(); v.push(r[..k].to_vec()); }
    v.push(vec![]);
    // too long: N+1 and N+2 limbs (also with zero top limbs)
    let mut l1 = p.to_vec(); l1.push(0); v.push(l1);
    let mut l2 = vec![0u64; N]; l2.push(1); v.push(l2);
    v.push(vec![1u64; N + 2]);
    v.sort(); v.dedup();
    v
}

fn dec(b: &BigUint) -> String { b.to_str_radix(10) }

/// strings for `Fp::from_str`
fn fromstr_inputs<T: MontConfig<N>, const N: usize>(rng: &mut Rng, thorough: bool) -> Vec<String> {
    let p = big(&T::MODULUS.0);
    let one = BigUint::from(1u8);
    let w = &one << (64 * N);
    let mut vals: Vec<BigUint> = vec![BigUint::from(0u8), one.clone(), BigUint::from(2u8), BigUint::from(10u8), &p - &one, p.clone(), &p + &one,
        &p * 2u8, &p * 2u8 + &one, (&p - &one) / 2u8, &w - &one, w.clone(), &w + &one, &w * &p, &w * &p - &one, &w * &w, &w * &w * &w + &p - &one];
    for i in 0..(if thorough { 400 } else { 5 }) {
        let nl = 1 + (rng.below((2 * N + 2) as u64) as usize);
        let limbs: Vec<u32> = (0..2 * nl).map(|_| rng.next() as u32).collect();
        let mut x = BigUint::new(limbs);
        if i % 3 == 0 { x = x % &p; }
        vals.push(x);
    }
    let mut v: Vec<String> = Vec::new();
    for (i, x) in vals.iter().enumerate() {
        let d = dec(x);
        v.push(d.clone());
        v.push(format!("-{}", d));
        match i % 6 {
            0 => v.push(format!("+{}", d)),
            1 => v.push(format!("000{}", d)),
            2 => v.push(format!("-00{}", d)),
            3 => { let mut u = String::new(); for (j, ch) in d.chars().enumerate() { if j > 0 && j % 3 == 0 { u.push('_'); } u.push(ch); } v.push(u); }
            4 => v.push(format!("{}_", d)),
            _ => v.push(format!("-+{}", d)),
        }
    }
    for s in ["", "-", "+", "_", "_1", "1_", "1__2", "-_1", "+_1", "--5", "-+5", "+-5", "++5", "+5", "-5", "0x10", "0X10", "0b1", "0o7", "1e5",
              " 5", "5 ", "5\n", "\t5", "1,000", "1.0", "1.", ".5", "-0", "+0", "00", "-00", "0_0", "a", "A", "z", "f", "١٢", "5\u{0}", "５", "12a", "0-1", "1-", "1+1", "- 5"] {
        v.push(s.to_string());
    }
    v
}

pub fn runtime_ops<T: MontConfig<N>, const N: usize>(fl: &str, name: &str, rng: &mut Rng, thorough: bool, out: &mut Out, only: &Option<String>) {
    if let Some(o) = only { if o != name { return; } }
    let pfx = format!("{} {:x} {}", fl, N, h(&T::MODULUS.0));
    out.line(&format!("C20 twoadicity {:x} {}", N, h(&T::MODULUS.0)), &format!("{:x}", <F<T, N> as FftField>::TWO_ADICITY));
    for limbs in fsl_inputs::<T, N>(rng, thorough) {
        for sign in [true, false] {
            let l2 = limbs.clone();
            out.line(&format!("C20 fsl {} {} {}", pfx, if sign { 1 } else { 0 }, hex_list_u64(&limbs)),
                &guarded(move || h(&F::<T, N>::from_sign_and_limbs(sign, &l2).0 .0)));
        }
    }
    for s in fromstr_inputs::<T, N>(rng, thorough) {
        let s2 = s.clone();
        out.line(&format!("C20 fromstr {} {}", pfx, esc(&s)),
            &guarded(move || match F::<T, N>::from_str(&s2) { Ok(x) => h(&x.0 .0), Err(_) => "err".into() }));
    }
}

fn bigfromstr_ops<const N: usize>(rng: &mut Rng, thorough: bool, out: &mut Out) {
    let one = BigUint::from(1u8);
    let w = &one << (64 * N);
    let mut vals: Vec<BigUint> = vec![BigUint::from(0u8), one.clone(), BigUint::from(255u8), BigUint::from(256u16), BigUint::from(u64::MAX), &w - &one, &w - 2u8, w.clone(), &w + &one,
        &w >> 1, &w >> 8, (&w >> 8) - &one, &w << 1, &w * &w];
    for k in 1..=N { vals.push(&one << (64 * k - 1)); vals.push((&one << (64 * k)) - &one); vals.push(&one << (64 * k)); vals.push(&one << (64 * k - 8)); vals.push((&one << (64 * k - 8)) - &one); }
    for _ in 0..(if thorough { 1500 } else { 8 }) {
        let nl = 1 + (rng.below((2 * N + 1) as u64) as usize);
        vals.push(BigUint::new((0..nl).map(|_| rng.next() as u32).collect()));
    }
    let mut v: Vec<String> = Vec::new();
    for (i, x) in vals.iter().enumerate() {
        let d = dec(x);
        v.push(d.clone());
        match i % 5 { 0 => v.push(format!("+{}", d)), 1 => v.push(format!("00{}", d)), 2 => v.push(format!("-{}", d)), 3 => v.push(format!("{}_", d)),
            _ => { let mut u = String::new(); for (j, ch) in d.chars().enumerate() { if j > 0 && j % 4 == 0 { u.push('_'); } u.push(ch); } v.push(u); } }
    }
    for s in ["", "-", "+", "_", "_1", "1_", "-0", "+0", "-1", "--1", "++1", "+-1", "-+1", "0x10", "1e5", " 5", "5 ", "a", "1.0", "١", "00", "0_0"] { v.push(s.to_string()); }
    for s in v {
        let s2 = s.clone();
        out.line(&format!("C20 bigfromstr {:x} {}", N, esc(&s)),
            &guarded(move || match BigInt::<N>::from_str(&s2) { Ok(x) => h(&x.0), Err(_) => "err".into() }));
    }
}

/// `BigInt::two_adic_valuation` (a `pub const fn`) called at run time on arbitrary values: even values hit the
/// `assert!(self.const_is_odd())`; the value 1 is skipped (the loop does not terminate on it)
fn twoadic_ops<const N: usize>(rng: &mut Rng, thorough: bool, out: &mut Out) {
    let mut vals = edge_values::<N>(rng, if thorough { 200 } else { 12 });
    let more: Vec<[u64; N]> = vals.iter().map(|a| { let mut b = *a; b[0] |= 1; b }).collect();
    vals.extend(more);
    // 2^k + 1 for every k
    for k in 1..(64 * N) { let mut a = [0u64; N]; a[k / 64] = 1 << (k % 64); a[0] |= 1; vals.push(a); }
    vals.sort(); vals.dedup();
    for a in vals {
        if a[0] == 1 && a[1..].iter().all(|x| *x == 0) { continue; }
        out.line(&format!("C20 twoadicity {:x} {}", N, h(&a)), &guarded(move || format!("{:x}", BigInt::<N>(a).two_adic_valuation())));
    }
}

macro_rules! lit_table { ($fl:expr, $t:ident, $n:expr, $table:ident, $out:expr) => { montfp_table::<$t, $n>($fl, $table, $out); }; }
macro_rules! big_table { ($n:expr, $table:ident, $out:expr) => { bigint_table::<$n>($table, $out); }; }
macro_rules! derive_m { ($t:ident, $n:expr, $ms:expr, $gs:expr, $out:expr) => { derive_line::<$t, $n>($ms, $gs, $out); }; }
macro_rules! derive_ss_m { ($t:ident, $n:expr, $ms:expr, $gs:expr, $b:expr, $k:expr, $out:expr) => { derive_ss_line::<$t, $n>($ms, $gs, $b, $k, $out); }; }
macro_rules! zoo_ops {
    ($fl:expr, $t:ty, $n:expr, $name:expr, $rng:expr, $th:expr, $out:expr, $only:expr) => {
        runtime_ops::<$t, $n>($fl, $name, $rng, $th, $out, $only);
    };
}

pub fn run(rng: &mut Rng, thorough: bool, out: &mut Out, only: &Option<String>) {
    if only.is_none() {
        for_each_lit_table!(lit_table, out);
        for_each_big_table!(big_table, out);
        for_each_derive!(derive_m, out);
        for_each_derive_ss!(derive_ss_m, out);
        bigfromstr_ops::<1>(rng, thorough, out); bigfromstr_ops::<2>(rng, thorough, out); bigfromstr_ops::<3>(rng, thorough, out);
        bigfromstr_ops::<4>(rng, thorough, out); bigfromstr_ops::<6>(rng, thorough, out); bigfromstr_ops::<12>(rng, thorough, out);
        bigfromstr_ops::<13>(rng, thorough, out);
        twoadic_ops::<1>(rng, thorough, out); twoadic_ops::<2>(rng, thorough, out); twoadic_ops::<4>(rng, thorough, out);
        twoadic_ops::<6>(rng, thorough, out); twoadic_ops::<13>(rng, thorough, out);
    }
    arkharness::for_each_zoo!(zoo_ops, rng, thorough, out, only);
    // shipped fields (derived configurations of ark-test-curves)
    use ark_test_curves::{bls12_381, bn384_small_two_adicity, ed_on_bls12_381, fp128, mnt4_753, secp256k1};
    runtime_ops::<bls12_381::FrConfig, 4>("d", "bls12_381::Fr", rng, thorough, out, only);
    runtime_ops::<bls12_381::FqConfig, 6>("d", "bls12_381::Fq", rng, thorough, out, only);
    runtime_ops::<mnt4_753::FqConfig, 12>("d", "mnt4_753::Fq", rng, thorough, out, only);
    runtime_ops::<secp256k1::FqConfig, 4>("d", "secp256k1::Fq", rng, thorough, out, only);
    runtime_ops::<bn384_small_two_adicity::FrConfig, 6>("d", "bn384::Fr", rng, thorough, out, only);
    runtime_ops::<ed_on_bls12_381::FrConfig, 4>("d", "ed_on_bls12_381::Fr", rng, thorough, out, only);
    runtime_ops::<fp128::FqConfig, 2>("d", "fp128::Fq", rng, thorough, out, only);
}

fn main() {
    let a = arkharness::args();
    let mut rng = Rng::new(a.seed);
    let mut out = Out::new();
    run(&mut rng, a.thorough, &mut out, &a.only);
    out.flush();
}
