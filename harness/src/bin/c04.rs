//! C04: every scalar-multiplication path of ark-ec computes k*P.
//!
//! Line protocol (see lean/Ark/Model/DrvC04.lean): `C04 <op> <kind> <p> <a> <b|d> args… => result`,
//! numbers hex, points `x:y` | `inf`, lists comma separated (`_` = empty).
//!
//! Curves: toy short-Weierstrass / twisted-Edwards curves over zoo fields declared here (orders,
//! generators, GLV lattices computed once with a Python script and *re-checked at start-up* by
//! `sanity`), the shipped test-curves bls12_381 g1 (GLV override of `mul_projective`), secp256k1,
//! mnt4_753 g1, ed_on_bls12_381, and two harness-declared GLV configurations over secp256k1
//! (a correct lattice basis, and one with determinant −r that violates the documented requirement;
//! the latter only to reach the `skip_zeros` quirk of the joint ladder).
#![allow(dead_code, deprecated, non_camel_case_types, clippy::type_complexity)]
use ark_ec::{
    models::CurveConfig,
    scalar_mul::{
        glv::GLVConfig, sw_double_and_add_affine, sw_double_and_add_projective, wnaf::WnafContext,
        BatchMulPreprocessing, ScalarMul,
    },
    short_weierstrass::{self as sw, SWCurveConfig},
    twisted_edwards::{self as te, MontCurveConfig, TECurveConfig},
    AffineRepr, CurveGroup, PrimeGroup,
};
use ark_ff::{BigInt, BigInteger, Fp, MontBackend, MontConfig, MontFp, PrimeField, Zero};
use arkharness::util::*;
use arkharness::zoo::*;
use num_bigint::BigUint;

// ------------------------------------------------------------------ toy scalar fields
#[derive(MontConfig)]
#[modulus = "19"]
#[generator = "2"]
pub struct Fr19Cfg;
pub type Fr19 = Fp<MontBackend<Fr19Cfg, 1>, 1>;

#[derive(MontConfig)]
#[modulus = "37"]
#[generator = "2"]
pub struct Fr37Cfg;
pub type Fr37 = Fp<MontBackend<Fr37Cfg, 1>, 1>;

/// order-r subgroup of y^2 = x^3 + 7 over F_{2^61-1} (cofactor 43)
#[derive(MontConfig)]
#[modulus = "53624256071278747"]
#[generator = "3"]
pub struct FrM61Cfg;
pub type FrM61 = Fp<MontBackend<FrM61Cfg, 1>, 1>;

/// F_19 stored in two limbs (trait-default arithmetic): multi-limb scalar paths over an enumerable field
pub struct Fr19x2Cfg;
impl MontConfig<2> for Fr19x2Cfg {
    const MODULUS: BigInt<2> = ark_ff::BigInt!("19");
    const GENERATOR: Fp<MontBackend<Self, 2>, 2> = MontFp!("2");
    const TWO_ADIC_ROOT_OF_UNITY: Fp<MontBackend<Self, 2>, 2> = MontFp!("18");
}
pub type Fr19x2 = Fp<MontBackend<Fr19x2Cfg, 2>, 2>;

// ------------------------------------------------------------------ toy curves
macro_rules! toy_sw {
    ($name:ident, $fq:ty, $fr:ty, $a:literal, $b:literal, $gx:literal, $gy:literal, $h:literal, { $($extra:tt)* }) => {
        #[derive(Clone, Default, PartialEq, Eq)]
        pub struct $name;
        impl CurveConfig for $name {
            type BaseField = $fq;
            type ScalarField = $fr;
            const COFACTOR: &'static [u64] = &[$h];
            const COFACTOR_INV: $fr = <$fr>::from_sign_and_limbs(true, &[1]); // not used by the operations under test
        }
        impl SWCurveConfig for $name {
            const COEFF_A: $fq = <$fq>::from_sign_and_limbs(true, &[$a]);
            const COEFF_B: $fq = <$fq>::from_sign_and_limbs(true, &[$b]);
            const GENERATOR: sw::Affine<Self> = sw::Affine::new_unchecked(
                <$fq>::from_sign_and_limbs(true, &[$gx]), <$fq>::from_sign_and_limbs(true, &[$gy]));
            $($extra)*
        }
    };
}
macro_rules! glv_override {
    () => {
        fn mul_projective(p: &sw::Projective<Self>, scalar: &[u64]) -> sw::Projective<Self> {
            // verbatim the override of bls12_381 / bls12_377 / bn254 g1 (after `fix:` ce8a6a5)
            let s = if scalar.len() <= Self::ScalarField::MODULUS.0.len() {
                Self::ScalarField::from_sign_and_limbs(true, scalar)
            } else {
                let bytes: Vec<u8> = scalar.iter().flat_map(|limb| limb.to_le_bytes()).collect();
                Self::ScalarField::from_le_bytes_mod_order(&bytes)
            };
            GLVConfig::glv_mul_projective(*p, s)
        }
    };
}
macro_rules! toy_glv {
    ($name:ident, $fq:ty, $beta:literal, $lambda:literal, [$(($s:literal, $v:literal)),*]) => {
        impl GLVConfig for $name {
            const ENDO_COEFFS: &'static [$fq] = &[<$fq>::from_sign_and_limbs(true, &[$beta])];
            const LAMBDA: Self::ScalarField = <Self::ScalarField>::from_sign_and_limbs(true, &[$lambda]);
            const SCALAR_DECOMP_COEFFS: [(bool, <Self::ScalarField as PrimeField>::BigInt); 4] =
                [$(($s, { let mut b = <Self::ScalarField as PrimeField>::BigInt::zero(); b.0[0] = $v; b })),*];
            fn endomorphism(p: &sw::Projective<Self>) -> sw::Projective<Self> {
                let mut res = *p;
                res.x *= Self::ENDO_COEFFS[0];
                res
            }
            fn endomorphism_affine(p: &sw::Affine<Self>) -> sw::Affine<Self> {
                let mut res = *p;
                res.x *= Self::ENDO_COEFFS[0];
                res
            }
        }
    };
}

// F_13, a = 0, b = 2: 19 points, prime order; phi(x,y) = (9x, y) = 7·(x,y); lattice (-5,-2),(2,-3)
toy_sw!(T13a, FDT13, Fr19, 0, 2, 1, 4, 1, {});
toy_glv!(T13a, FDT13, 9, 7, [(false, 5), (false, 2), (true, 2), (false, 3)]);
toy_sw!(T13aO, FDT13, Fr19, 0, 2, 1, 4, 1, { glv_override!(); });
toy_glv!(T13aO, FDT13, 9, 7, [(false, 5), (false, 2), (true, 2), (false, 3)]);
// the same curve with the scalar field in two limbs (no GLV: `Fr::from(u64)` of a multi-limb field whose modulus
// is below 2^64 panics inside ark-ff for values >= r, and `scalar_decomposition` goes through it)
toy_sw!(T13aX, FDT13, Fr19x2, 0, 2, 1, 4, 1, {});
// F_13, a = 0, b = 6: 7 points; phi = (3x, y) = 2·P; lattice (1,3),(-2,1)
toy_sw!(T13b, FDT13, FDT7, 0, 6, 2, 1, 1, { glv_override!(); });
toy_glv!(T13b, FDT13, 3, 2, [(true, 1), (true, 3), (false, 2), (true, 1)]);
// F_13, a = 1, b = 6: 13 points (anomalous, r = p)
toy_sw!(T13c, FDT13, FDT13, 1, 6, 2, 4, 1, {});
// F_13, a = 1, b = 4: 14 points = 2·7, a point of order two
toy_sw!(T13d, FDT13, FDT7, 1, 4, 0, 2, 2, {});
// F_13, a = -3, b = 4: 15 points = 3·5
toy_sw!(T13e, FDT13, FDT5, 10, 4, 7, 1, 3, {});
// F_127, a = 0, b = 3: 127 points (anomalous); phi = (19x, y) = 107·P; lattice (6,13),(-7,6)
toy_sw!(T127a, FDT127, FDT127, 0, 3, 1, 2, 1, { glv_override!(); });
toy_glv!(T127a, FDT127, 19, 107, [(true, 6), (true, 13), (false, 7), (true, 6)]);
// F_127, a = 0, b = 5: 148 points = 4·37; phi = (107x, y) = 26·P on the order-37 subgroup; lattice (3,7),(-4,3)
toy_sw!(T127b, FDT127, Fr37, 0, 5, 6, 27, 4, { glv_override!(); });
toy_glv!(T127b, FDT127, 107, 26, [(true, 3), (true, 7), (false, 4), (true, 3)]);
// F_257, a = 1, b = 16: 251 points (prime)
toy_sw!(T257a, FDT257, FDT251, 1, 16, 0, 4, 1, {});
// F_257, a = 1, b = 35: 254 points = 2·127
toy_sw!(T257b, FDT257, FDT127, 1, 35, 5, 57, 2, {});
// F_251, a = 1, b = 16: 257 points (prime, r > p)
toy_sw!(T251a, FDT251, FDT257, 1, 16, 0, 4, 1, {});
// F_{2^61-1}, a = 0, b = 7: 43·r points, r = 53624256071278747 (56 bits)
toy_sw!(M61a, FDM61, FrM61, 0, 7, 1217468943615328232, 2065245357365722203, 43, { glv_override!(); });
toy_glv!(M61a, FDM61, 1669582390241348315, 52411309604954017,
    [(true, 231639114), (true, 140057), (false, 140057), (true, 231499057)]);

// secp256k1 with the classical GLV parameters (the shipped configuration has none): no spare bit in Fr
type SecpCfg = ark_test_curves::secp256k1::Config;
type SecpFq = <SecpCfg as CurveConfig>::BaseField;
type SecpFr = <SecpCfg as CurveConfig>::ScalarField;
macro_rules! secp_like {
    ($name:ident, $coeffs:expr) => {
        #[derive(Clone, Default, PartialEq, Eq)]
        pub struct $name;
        impl CurveConfig for $name {
            type BaseField = SecpFq;
            type ScalarField = SecpFr;
            const COFACTOR: &'static [u64] = <SecpCfg as CurveConfig>::COFACTOR;
            const COFACTOR_INV: SecpFr = <SecpCfg as CurveConfig>::COFACTOR_INV;
        }
        impl SWCurveConfig for $name {
            const COEFF_A: SecpFq = <SecpCfg as SWCurveConfig>::COEFF_A;
            const COEFF_B: SecpFq = <SecpCfg as SWCurveConfig>::COEFF_B;
            const GENERATOR: sw::Affine<Self> = sw::Affine::new_unchecked(
                <SecpCfg as SWCurveConfig>::GENERATOR.x, <SecpCfg as SWCurveConfig>::GENERATOR.y);
            glv_override!();
        }
        impl GLVConfig for $name {
            const ENDO_COEFFS: &'static [SecpFq] =
                &[MontFp!("55594575648329892869085402983802832744385952214688224221778511981742606582254")];
            const LAMBDA: SecpFr = MontFp!("37718080363155996902926221483475020450927657555482586988616620542887997980018");
            const SCALAR_DECOMP_COEFFS: [(bool, BigInt<4>); 4] = $coeffs;
            fn endomorphism(p: &sw::Projective<Self>) -> sw::Projective<Self> {
                let mut res = *p;
                res.x *= Self::ENDO_COEFFS[0];
                res
            }
            fn endomorphism_affine(p: &sw::Affine<Self>) -> sw::Affine<Self> {
                let mut res = *p;
                res.x *= Self::ENDO_COEFFS[0];
                res
            }
        }
    };
}
secp_like!(SecpGlv, [
    (true, ark_ff::BigInt!("64502973549206556628585045361533709077")),
    (false, ark_ff::BigInt!("303414439467246543595250775667605759171")),
    (true, ark_ff::BigInt!("367917413016453100223835821029139468248")),
    (true, ark_ff::BigInt!("64502973549206556628585045361533709077")),
]);
// rows (-λ, 1), (r, 0): in the lattice, but determinant −r (documented requirement violated): k1 = k, k2 = 0
secp_like!(SecpGlvBad, [
    (false, ark_ff::BigInt!("37718080363155996902926221483475020450927657555482586988616620542887997980018")),
    (true, ark_ff::BigInt!("1")),
    (true, ark_ff::BigInt!("115792089237316195423570985008687907852837564279074904382605163141518161494337")),
    (true, ark_ff::BigInt!("0")),
]);

macro_rules! toy_te {
    ($name:ident, $fq:ty, $fr:ty, $a:literal, $d:literal, $gx:literal, $gy:literal, $h:literal) => {
        #[derive(Clone, Default, PartialEq, Eq)]
        pub struct $name;
        impl CurveConfig for $name {
            type BaseField = $fq;
            type ScalarField = $fr;
            const COFACTOR: &'static [u64] = &[$h];
            const COFACTOR_INV: $fr = <$fr>::from_sign_and_limbs(true, &[1]);
        }
        impl TECurveConfig for $name {
            const COEFF_A: $fq = <$fq>::from_sign_and_limbs(true, &[$a]);
            const COEFF_D: $fq = <$fq>::from_sign_and_limbs(true, &[$d]);
            const GENERATOR: te::Affine<Self> = te::Affine::new_unchecked(
                <$fq>::from_sign_and_limbs(true, &[$gx]), <$fq>::from_sign_and_limbs(true, &[$gy]));
            type MontCurveConfig = $name;
        }
        impl MontCurveConfig for $name {
            // placeholders: the Montgomery form is not used by the operations under test
            const COEFF_A: $fq = <$fq>::from_sign_and_limbs(true, &[1]);
            const COEFF_B: $fq = <$fq>::from_sign_and_limbs(true, &[1]);
            type TECurveConfig = $name;
        }
    };
}
// complete twisted Edwards curves (a square, d non-square)
toy_te!(E13a, FDT13, FDT5, 12, 6, 3, 9, 4); // -x^2 + y^2 = 1 + 6x^2y^2, 20 points
toy_te!(E13b, FDT13, FDT5, 4, 2, 1, 9, 4); // 4x^2 + y^2 = 1 + 2x^2y^2, 20 points
toy_te!(E127a, FDT127, Fr37, 1, 20, 5, 92, 4); // x^2 + y^2 = 1 + 20x^2y^2, 148 points

// ------------------------------------------------------------------ printing
fn fh<F: PrimeField>(x: &F) -> String {
    hex_limbs(x.into_bigint().as_ref())
}
fn hx(x: &BigUint) -> String {
    format!("{:x}", x)
}
fn limbs_of(x: &BigUint, len: usize) -> Vec<u64> {
    let mut v = x.to_u64_digits();
    while v.len() < len {
        v.push(0);
    }
    v
}
fn big(l: &[u64]) -> BigUint {
    let mut b = Vec::new();
    for x in l {
        b.extend_from_slice(&x.to_le_bytes());
    }
    BigUint::from_bytes_le(&b)
}

/// one curve as seen by the generic generators
struct Cv<A: AffineRepr> {
    name: &'static str,
    desc: String,
    pr: fn(&A) -> String,
    rep: fn(&A, &mut Rng) -> A::Group,
    dbl_aff: fn(&A, &[u64]) -> A::Group,
    dbl_proj: fn(&A::Group, &[u64]) -> A::Group,
    ovr: String,
    n: usize,
    r: BigUint,
    rbits: usize,
}

fn sw_pr<C: SWCurveConfig>(p: &sw::Affine<C>) -> String
where
    C::BaseField: PrimeField,
{
    if p.infinity { "inf".into() } else { format!("{}:{}", fh(&p.x), fh(&p.y)) }
}
fn nonzero<F: PrimeField>(rng: &mut Rng) -> F {
    loop {
        let z = F::from(rng.next()) * F::from(rng.next()) + F::from(rng.next());
        if !z.is_zero() {
            return z;
        }
    }
}
/// some Jacobian representation of the point (only the group element matters for this property)
fn sw_rep<C: SWCurveConfig>(p: &sw::Affine<C>, rng: &mut Rng) -> sw::Projective<C>
where
    C::BaseField: PrimeField,
{
    if p.infinity {
        return match rng.below(2) {
            0 => sw::Projective::zero(),
            _ => sw::Projective::new_unchecked(nonzero(rng), nonzero(rng), C::BaseField::zero()),
        };
    }
    match rng.below(3) {
        0 => (*p).into(),
        _ => {
            let z: C::BaseField = nonzero(rng);
            let z2 = z * z;
            sw::Projective::new_unchecked(p.x * z2, p.y * z2 * z, z)
        },
    }
}
fn sw_da<C: SWCurveConfig>(p: &sw::Affine<C>, s: &[u64]) -> sw::Projective<C> {
    sw_double_and_add_affine(p, s)
}
fn sw_dp<C: SWCurveConfig>(p: &sw::Projective<C>, s: &[u64]) -> sw::Projective<C> {
    sw_double_and_add_projective(p, s)
}
fn sw_cv<C: SWCurveConfig>(name: &'static str, ovr: String) -> Cv<sw::Affine<C>>
where
    C::BaseField: PrimeField,
{
    let r = big(C::ScalarField::MODULUS.as_ref());
    Cv {
        name,
        desc: format!("sw {} {} {}", hex_limbs(C::BaseField::MODULUS.as_ref()), fh(&C::COEFF_A), fh(&C::COEFF_B)),
        pr: sw_pr::<C>,
        rep: sw_rep::<C>,
        dbl_aff: sw_da::<C>,
        dbl_proj: sw_dp::<C>,
        ovr,
        n: <C::ScalarField as PrimeField>::BigInt::NUM_LIMBS,
        rbits: C::ScalarField::MODULUS_BIT_SIZE as usize,
        r,
    }
}
fn te_pr<C: TECurveConfig>(p: &te::Affine<C>) -> String
where
    C::BaseField: PrimeField,
{
    format!("{}:{}", fh(&p.x), fh(&p.y))
}
fn te_rep<C: TECurveConfig>(p: &te::Affine<C>, rng: &mut Rng) -> te::Projective<C>
where
    C::BaseField: PrimeField,
{
    match rng.below(3) {
        0 => (*p).into(),
        _ => {
            let z: C::BaseField = nonzero(rng);
            te::Projective::new_unchecked(p.x * z, p.y * z, p.x * p.y * z, z)
        },
    }
}
fn te_da<C: TECurveConfig>(p: &te::Affine<C>, s: &[u64]) -> te::Projective<C> {
    C::mul_affine(p, s)
}
fn te_dp<C: TECurveConfig>(p: &te::Projective<C>, s: &[u64]) -> te::Projective<C> {
    C::mul_projective(p, s)
}
fn te_cv<C: TECurveConfig>(name: &'static str) -> Cv<te::Affine<C>>
where
    C::BaseField: PrimeField,
{
    let r = big(C::ScalarField::MODULUS.as_ref());
    Cv {
        name,
        desc: format!("te {} {} {}", hex_limbs(C::BaseField::MODULUS.as_ref()), fh(&C::COEFF_A), fh(&C::COEFF_D)),
        pr: te_pr::<C>,
        rep: te_rep::<C>,
        dbl_aff: te_da::<C>,
        dbl_proj: te_dp::<C>,
        ovr: "d".into(),
        n: <C::ScalarField as PrimeField>::BigInt::NUM_LIMBS,
        rbits: C::ScalarField::MODULUS_BIT_SIZE as usize,
        r,
    }
}
fn glv_tok<C: GLVConfig>() -> String
where
    C::BaseField: PrimeField,
{
    let co = C::SCALAR_DECOMP_COEFFS;
    let sg = |x: &(bool, <C::ScalarField as PrimeField>::BigInt)| {
        format!("{}{}", if x.0 || x.1.is_zero() { "" } else { "-" }, hex_limbs(x.1.as_ref()))
    };
    format!(
        "{:x}:{}:{}:{}:{}:{}:{}:{}",
        <C::ScalarField as PrimeField>::BigInt::NUM_LIMBS,
        hex_limbs(C::ScalarField::MODULUS.as_ref()),
        fh(&C::LAMBDA),
        fh(&C::ENDO_COEFFS[0]),
        sg(&co[0]), sg(&co[1]), sg(&co[2]), sg(&co[3])
    )
}

// ------------------------------------------------------------------ point sets
fn sw_all_points<C: SWCurveConfig>() -> Vec<sw::Affine<C>>
where
    C::BaseField: PrimeField,
{
    let p = C::BaseField::MODULUS.as_ref()[0];
    assert!(C::BaseField::MODULUS.num_bits() <= 10);
    let mut v = vec![sw::Affine::<C>::identity()];
    for x in 0..p {
        for y in 0..p {
            let q = sw::Affine::<C>::new_unchecked(C::BaseField::from(x), C::BaseField::from(y));
            if q.is_on_curve() {
                v.push(q);
            }
        }
    }
    v
}
fn te_all_points<C: TECurveConfig>() -> Vec<te::Affine<C>>
where
    C::BaseField: PrimeField,
{
    let p = C::BaseField::MODULUS.as_ref()[0];
    assert!(C::BaseField::MODULUS.num_bits() <= 10);
    let mut v = vec![];
    for x in 0..p {
        for y in 0..p {
            let q = te::Affine::<C>::new_unchecked(C::BaseField::from(x), C::BaseField::from(y));
            if q.is_on_curve() {
                v.push(q);
            }
        }
    }
    v
}
/// generator, small multiples, negatives, identity, random subgroup points, and (cofactor > 1) points off the subgroup
fn sw_some_points<C: SWCurveConfig>(rng: &mut Rng, nrand: usize) -> Vec<sw::Affine<C>>
where
    C::BaseField: PrimeField,
{
    let g = sw::Affine::<C>::generator();
    let mut v = vec![sw::Affine::<C>::identity(), g, -g, (g + g).into_affine(), (g + g + g).into_affine()];
    for _ in 0..nrand {
        let k = C::ScalarField::from(BigUint::from(rng.next()) << 200 | BigUint::from(rng.next()) << 64 | BigUint::from(rng.next()));
        v.push(sw_double_and_add_affine(&g, k.into_bigint()).into_affine());
    }
    if C::COFACTOR != [1u64] {
        let mut found = 0;
        let mut x = 0u64;
        while found < 2 && x < 1000 {
            if let Some(q) = sw::Affine::<C>::get_point_from_x_unchecked(C::BaseField::from(x), x % 2 == 0) {
                if !q.is_in_correct_subgroup_assuming_on_curve() {
                    v.push(q);
                    found += 1;
                }
            }
            x += 1;
        }
    }
    v
}
fn te_some_points<C: TECurveConfig>(rng: &mut Rng, nrand: usize) -> Vec<te::Affine<C>>
where
    C::BaseField: PrimeField,
{
    let g = te::Affine::<C>::generator();
    let mut v = vec![te::Affine::<C>::zero(), g, -g, (g + g).into_affine()];
    for _ in 0..nrand {
        let k = C::ScalarField::from(BigUint::from(rng.next()) << 200 | BigUint::from(rng.next()) << 64 | BigUint::from(rng.next()));
        v.push(C::mul_affine(&g, k.into_bigint().as_ref()).into_affine());
    }
    let mut found = 0;
    let mut y = 2u64;
    while found < 2 && y < 1000 {
        if let Some(q) = te::Affine::<C>::get_point_from_y_unchecked(C::BaseField::from(y), y % 2 == 0) {
            if !q.is_in_correct_subgroup_assuming_on_curve() {
                v.push(q);
                found += 1;
            }
        }
        y += 1;
    }
    v
}

// ------------------------------------------------------------------ scalar sets
/// raw `&[u64]` scalars of assorted lengths around an `n`-limb scalar field of modulus `r`
fn raw_scalars(n: usize, r: &BigUint, rng: &mut Rng, nrand: usize) -> Vec<Vec<u64>> {
    let one = BigUint::from(1u32);
    let top = &one << (64 * n);
    let rbits = r.bits() as usize;
    let mut v: Vec<Vec<u64>> = vec![vec![], vec![0], vec![1], vec![2], vec![3], vec![0; n], vec![0; n + 1]];
    let mut push = |x: &BigUint, len: usize| v.push(limbs_of(x, len));
    // around the group order (raw integers are not reduced by the double-and-add paths)
    for x in [r - &one, r.clone(), r + &one, r * 2u32, r * 2u32 + &one, r * 3u32 - &one, (r - &one) / 2u32, (r + &one) / 2u32] {
        push(&x, n);
        push(&x, n + 1); // a leading zero limb (or more limbs than N)
    }
    // powers of two and their predecessors
    let mut is: Vec<usize> = vec![1, 2, 3, 7, 8, 31, 32, 33, 63, 64, 65, 127, 128, rbits - 1, rbits, rbits + 1, 64 * n - 1, 64 * n, 64 * n + 1];
    is.sort();
    is.dedup();
    for i in is {
        if i <= 64 * n + 1 {
            let x = &one << i;
            push(&x, n);
            push(&(&x - &one), n);
        }
    }
    // all ones: N limbs, N+1 limbs, one limb
    push(&(&top - &one), n);
    push(&((&top << 64) - &one), n + 1);
    push(&BigUint::from(u64::MAX), 1);
    push(&BigUint::from(u64::MAX), n + 2);
    // long runs of ones, shifted
    for (a, b) in [(40usize, 0usize), (64, 3), (100, 17), (rbits.saturating_sub(5).max(1), 2), (64 * n - 1, 1)] {
        let x = ((&one << a) - &one) << b;
        push(&x, n);
    }
    // alternating patterns
    push(&big(&vec![0xAAAA_AAAA_AAAA_AAAA; n]), n);
    push(&big(&vec![0x5555_5555_5555_5555; n]), n);
    // short scalars with leading zero limbs
    for _ in 0..3 {
        let x = BigUint::from(rng.next() >> (rng.below(60) as u32));
        push(&x, 1);
        push(&x, n);
        push(&x, n + 3);
    }
    for _ in 0..nrand {
        let l = 1 + rng.below(n as u64 + 1) as usize;
        let mut x: Vec<u64> = (0..l).map(|_| rng.next()).collect();
        if rng.below(3) == 0 {
            let k = rng.below(l as u64) as usize;
            for j in k..l {
                x[j] = 0;
            }
        }
        v.push(x);
    }
    v.sort();
    v.dedup();
    v
}
/// field scalars (always < r)
fn field_scalars<F: PrimeField>(rng: &mut Rng, nrand: usize, dense: bool) -> Vec<F> {
    let r = big(F::MODULUS.as_ref());
    let one = BigUint::from(1u32);
    let rbits = r.bits() as usize;
    let mut v: Vec<BigUint> = vec![BigUint::from(0u32), one.clone(), BigUint::from(2u32), BigUint::from(3u32), &r - &one, &r - 2u32, (&r - &one) / 2u32, (&r + &one) / 2u32, &r / 3u32];
    for i in 1..rbits + 1 {
        if (dense && (i < 12 || i % 7 == 0)) || i < 4 || i % 32 == 0 || i % 64 == 63 || i % 64 == 1 || i + 2 > rbits {
            v.push(&one << i);
            v.push((&one << i) - &one);
            v.push((&one << i) + &one);
        }
    }
    for (a, b) in [(40usize, 0usize), (64, 3), (100, 17), (rbits.saturating_sub(5).max(1), 2), (rbits - 1, 0)] {
        v.push(((&one << a) - &one) << b);
    }
    for _ in 0..nrand {
        let l = F::BigInt::NUM_LIMBS;
        let x: Vec<u64> = (0..l).map(|_| rng.next()).collect();
        let mut x = big(&x);
        match rng.below(4) {
            0 => x >>= rng.below(rbits as u64) as usize,
            _ => {},
        }
        v.push(x);
    }
    let mut v: Vec<BigUint> = v.into_iter().filter(|x| x < &r).collect();
    v.sort();
    v.dedup();
    v.into_iter().map(F::from).collect()
}
fn small_field_scalars<F: PrimeField>() -> Vec<F> {
    let r = F::MODULUS.as_ref()[0];
    (0..r).map(F::from).collect()
}

// ------------------------------------------------------------------ generic op emitters
fn res<A: AffineRepr>(cv: &Cv<A>, g: A::Group) -> String {
    (cv.pr)(&g.into_affine())
}

/// double-and-add, mul_bigint on both representations; `nops` of the 4 operations per scalar (rotating)
fn raw_ops<A: AffineRepr>(cv: &Cv<A>, out: &mut Out, rng: &mut Rng, pts: &[A], raws: &[Vec<u64>], nops: usize) {
    for p in pts {
        let ps = (cv.pr)(p);
        for (j, s) in raws.iter().enumerate() {
            let sh = hex_list_u64(s);
            let on = |o: usize| nops >= 4 || (o + 4 - (j * nops) % 4) % 4 < nops;
            if on(0) {
                out.line(&format!("C04 dbladd.aff {} {} {}", cv.desc, ps, sh), &guarded(|| res(cv, (cv.dbl_aff)(p, s))));
            }
            if on(3) {
                let q = (cv.rep)(p, rng);
                out.line(&format!("C04 dbladd.proj {} {} {}", cv.desc, ps, sh), &guarded(|| res(cv, (cv.dbl_proj)(&q, s))));
            }
            if on(2) {
                out.line(&format!("C04 mulbigint.aff {} {} {}", cv.desc, ps, sh), &guarded(|| res(cv, p.mul_bigint(s))));
            }
            if on(1) {
                let q = (cv.rep)(p, rng);
                out.line(&format!("C04 mulbigint.proj {} {} {} {}", cv.desc, ps, sh, cv.ovr), &guarded(|| res(cv, q.mul_bigint(s))));
            }
        }
    }
}
/// `* Fr`, mul_bits_be; `nops` of the 3 operations per scalar (rotating)
fn scalar_ops<A: AffineRepr>(cv: &Cv<A>, out: &mut Out, rng: &mut Rng, pts: &[A], ks: &[A::ScalarField], nops: usize) {
    for p in pts {
        let ps = (cv.pr)(p);
        for (j, k) in ks.iter().enumerate() {
            let kh = fh(k);
            let on = |o: usize| nops >= 3 || (o + 3 - (j * nops) % 3) % 3 < nops;
            if on(2) {
                out.line(&format!("C04 mulscalar.aff {} {} {:x} {}", cv.desc, ps, cv.n, kh), &guarded(|| res(cv, *p * *k)));
            }
            if on(0) {
                let q = (cv.rep)(p, rng);
                out.line(&format!("C04 mulscalar.proj {} {} {:x} {} {}", cv.desc, ps, cv.n, kh, cv.ovr), &guarded(|| res(cv, q * *k)));
            }
            if on(1) {
                // bit streams: the significant bits with some leading zeros
                let mut bits: Vec<bool> = ark_ff::BitIteratorBE::without_leading_zeros(k.into_bigint()).collect();
                let lz = match rng.below(4) { 0 => 0, 1 => 1, 2 => rng.below(70) as usize, _ => 64 * cv.n - bits.len() };
                let mut b = vec![false; lz];
                b.append(&mut bits);
                let q = (cv.rep)(p, rng);
                out.line(&format!("C04 mulbits {} {} {}", cv.desc, ps, bits_str(&b)), &guarded(|| res(cv, q.mul_bits_be(b.iter().copied()))));
            }
        }
    }
}
/// arbitrary bit strings (longer than the scalar field, empty, all zero)
fn bits_ops<A: AffineRepr>(cv: &Cv<A>, out: &mut Out, rng: &mut Rng, pts: &[A], nrand: usize) {
    for p in pts {
        let ps = (cv.pr)(p);
        let mut streams: Vec<Vec<bool>> = vec![vec![], vec![false], vec![true], vec![false; 9], vec![true; 9], vec![true; 64 * cv.n + 3]];
        let mut t = vec![false; 5];
        t.extend(vec![true; cv.rbits]);
        streams.push(t);
        for _ in 0..nrand {
            let l = 1 + rng.below(64 * cv.n as u64 + 40) as usize;
            let z = rng.below(l as u64) as usize;
            streams.push((0..l).map(|i| i >= z && rng.next() & 1 == 1).collect());
        }
        for b in streams {
            let q = (cv.rep)(p, rng);
            out.line(&format!("C04 mulbits {} {} {}", cv.desc, ps, bits_str(&b)), &guarded(|| res(cv, q.mul_bits_be(b.iter().copied()))));
        }
    }
}
fn pts_str<A: AffineRepr>(cv: &Cv<A>, v: &[A::Group]) -> String {
    if v.is_empty() {
        return "_".into();
    }
    v.iter().map(|g| (cv.pr)(&g.into_affine())).collect::<Vec<_>>().join(",")
}
fn wnaf_ops<A: AffineRepr>(cv: &Cv<A>, out: &mut Out, rng: &mut Rng, pts: &[A], ks: &[A::ScalarField], windows: &[usize], table_max_w: usize) {
    for p in pts {
        let ps = (cv.pr)(p);
        for &w in windows {
            if w <= table_max_w || w >= 64 || w < 2 {
                let q = (cv.rep)(p, rng);
                out.line(&format!("C04 wnaf.table {} {} {:x}", cv.desc, ps, w), &guarded(|| pts_str(cv, &WnafContext::new(w).table(q))));
            }
            for k in ks {
                let q = (cv.rep)(p, rng);
                out.line(&format!("C04 wnaf.mul {} {} {:x} {} {:x}", cv.desc, ps, cv.n, fh(k), w), &guarded(|| res(cv, WnafContext::new(w).mul(q, k))));
            }
        }
    }
}
/// `mul_with_table` with tables of every relation to the window: exact, shorter, longer, one entry short,
/// empty, table of a larger window, table of another point; large windows only with too-short tables
fn mwt_ops<A: AffineRepr>(cv: &Cv<A>, out: &mut Out, rng: &mut Rng, pts: &[A], ks: &[A::ScalarField], windows: &[usize]) {
    for (pi, p) in pts.iter().enumerate() {
        let ps = (cv.pr)(p);
        let q: A::Group = (cv.rep)(p, rng);
        for &w in windows {
            let full = WnafContext::new(w).table(q);
            let mut tables: Vec<Vec<A::Group>> = vec![full.clone(), full[..full.len() - 1].to_vec(), full[..full.len() / 2].to_vec(), vec![]];
            tables.push(WnafContext::new(w + 1).table(q));
            let mut ext = full.clone();
            ext.push(q);
            tables.push(ext);
            // table of another point (the property says nothing then; model = impl is still compared)
            let other = pts[(pi + 1) % pts.len()];
            tables.push(WnafContext::new(w).table((cv.rep)(&other, rng)));
            for t in &tables {
                let ts = pts_str(cv, t);
                for k in ks {
                    let r = guarded(|| match WnafContext::new(w).mul_with_table(t, k) { Some(g) => res(cv, g), None => "none".into() });
                    out.line(&format!("C04 wnaf.mwt {} {} {:x} {} {:x} {}", cv.desc, ps, cv.n, fh(k), w, ts), &r);
                }
            }
        }
        // large windows: a fresh table is infeasible; precomputed tables are too short -> None
        let t8 = WnafContext::new(8).table(q);
        let ts = pts_str(cv, &t8);
        for w in [9usize, 10, 11, 17, 32, 33, 62, 63] {
            let k = &ks[(pi + w) % ks.len()];
            let r = guarded(|| match WnafContext::new(w).mul_with_table(&t8, k) { Some(g) => res(cv, g), None => "none".into() });
            out.line(&format!("C04 wnaf.mwt {} {} {:x} {} {:x} {}", cv.desc, ps, cv.n, fh(k), w, ts), &r);
        }
        // invalid windows: `new` panics
        for w in [0usize, 1, 64, 65, 1000] {
            let k = &ks[(pi + w) % ks.len()];
            let r = guarded(|| match WnafContext::new(w).mul_with_table(&t8[..2], k) { Some(g) => res(cv, g), None => "none".into() });
            out.line(&format!("C04 wnaf.mwt {} {} {:x} {} {:x} {}", cv.desc, ps, cv.n, fh(k), w, pts_str(cv, &t8[..2])), &r);
        }
    }
}
fn glv_ops<C: GLVConfig>(cv: &Cv<sw::Affine<C>>, out: &mut Out, rng: &mut Rng, pts: &[sw::Affine<C>], ks: &[C::ScalarField], decomp: bool)
where
    C::BaseField: PrimeField,
{
    let tok = glv_tok::<C>();
    if decomp {
        for k in ks {
            let r = guarded(|| {
                let ((s1, k1), (s2, k2)) = C::scalar_decomposition(*k);
                format!("{} {} {} {}", s1 as u8, fh(&k1), s2 as u8, fh(&k2))
            });
            out.line(&format!("C04 glv.decomp {} {} {}", cv.desc, tok, fh(k)), &r);
        }
    }
    for p in pts {
        let ps = (cv.pr)(p);
        for k in ks {
            let q = (cv.rep)(p, rng);
            out.line(&format!("C04 glv.proj {} {} {} {}", cv.desc, ps, fh(k), tok), &guarded(|| res(cv, C::glv_mul_projective(q, *k))));
            out.line(&format!("C04 glv.aff {} {} {} {}", cv.desc, ps, fh(k), tok), &guarded(|| (cv.pr)(&C::glv_mul_affine(*p, *k))));
        }
    }
}
fn ks_str<F: PrimeField>(ks: &[F]) -> String {
    if ks.is_empty() {
        return "_".into();
    }
    ks.iter().map(fh).collect::<Vec<_>>().join(",")
}
fn batch_ops<A: AffineRepr>(cv: &Cv<A>, out: &mut Out, rng: &mut Rng, pts: &[A], kss: &[Vec<A::ScalarField>], nss: &[usize], sss: &[usize], tables: bool)
where
    A::Group: ScalarMul<MulBase = A>,
{
    for p in pts {
        let ps = (cv.pr)(p);
        for &ns in nss {
            // BatchMulPreprocessing::new (scalar_size = MODULUS_BIT_SIZE)
            for ks in kss {
                let q = (cv.rep)(p, rng);
                let r = guarded(|| pts_str_aff(cv, &BatchMulPreprocessing::<A::Group>::new(q, ns).batch_mul(ks)));
                out.line(&format!("C04 batch.new {} {} {:x} {:x} {:x} {}", cv.desc, ps, cv.n, cv.rbits, ns, ks_str(ks)), &r);
            }
            for &ss in sss {
                let q = (cv.rep)(p, rng);
                if tables {
                    let r = guarded(|| {
                        let t = BatchMulPreprocessing::<A::Group>::with_num_scalars_and_scalar_size(q, ns, ss);
                        let rows: Vec<String> = t.table.iter().map(|row| pts_str_aff(cv, row)).collect();
                        format!("{:x} {}", t.window, if rows.is_empty() { "_".into() } else { rows.join(";") })
                    });
                    out.line(&format!("C04 batch.table {} {} {:x} {:x}", cv.desc, ps, ns, ss), &r);
                }
                for ks in kss {
                    let r = guarded(|| pts_str_aff(cv, &BatchMulPreprocessing::<A::Group>::with_num_scalars_and_scalar_size(q, ns, ss).batch_mul(ks)));
                    out.line(&format!("C04 batch.mul {} {} {:x} {:x} {:x} {:x} {}", cv.desc, ps, cv.n, cv.rbits, ns, ss, ks_str(ks)), &r);
                }
            }
        }
        // ScalarMul::batch_mul: num_scalars = v.len()
        for ks in kss {
            let q = (cv.rep)(p, rng);
            out.line(&format!("C04 batch.smul {} {} {:x} {:x} {}", cv.desc, ps, cv.n, cv.rbits, ks_str(ks)), &guarded(|| pts_str_aff(cv, &q.batch_mul(ks))));
        }
    }
}
fn pts_str_aff<A: AffineRepr>(cv: &Cv<A>, v: &[A]) -> String {
    if v.is_empty() {
        return "_".into();
    }
    v.iter().map(|g| (cv.pr)(g)).collect::<Vec<_>>().join(",")
}
/// cyclic extension of a scalar list to length `n`
fn cyc<F: Copy>(v: &[F], n: usize) -> Vec<F> {
    (0..n).map(|i| v[i % v.len()]).collect()
}

// ------------------------------------------------------------------ per-curve drivers
/// toy curve: `full` = every point × every scalar 0 ..= 2·#E+1 (both tiers); otherwise points and scalars are
/// sampled in the quick tier and dense in the thorough tier
fn toy<A: AffineRepr>(cv: &Cv<A>, out: &mut Out, rng: &mut Rng, pts: &[A], thorough: bool, full: bool)
where
    A::Group: ScalarMul<MulBase = A>,
{
    let order = pts.len() as u64; // all points of the curve (identity included)
    let r = cv.r.to_u64_digits()[0];
    let dense = full || thorough;
    // raw scalars: 0 ..= 2·#E + 1 in one limb; a selection with extra limbs; a few large ones
    let mut raws: Vec<Vec<u64>> = vec![vec![]];
    let top = 2 * order + 1;
    let off = rng.below(5);
    for k in 0..=top {
        if dense || k < 4 || (k + off) % 5 == 0 || (k + 2 >= r && k <= r + 2) || (k + 1 >= order && k <= order + 1) || k + 2 >= top {
            raws.push(vec![k]);
        }
    }
    for k in [0u64, 1, r - 1, r, r + 1, order, order + 1] {
        raws.push(vec![k, 0]);
        raws.push(vec![k, 0, 0]);
    }
    raws.push(vec![0, 1]);
    raws.push(vec![u64::MAX]);
    raws.push(vec![u64::MAX, u64::MAX]);
    raws.push(vec![u64::MAX - 1, u64::MAX, 0]);
    raws.push(vec![rng.next(), rng.next(), rng.next()]);
    let sub: Vec<A> = if full { pts.to_vec() } else { pts.iter().skip(rng.below(3) as usize).step_by(if thorough { 3 } else { 23 }).copied().chain(pts[..1].iter().copied()).collect() };
    raw_ops(cv, out, rng, &sub, &raws, 4);
    let ks: Vec<A::ScalarField> = small_field_scalars();
    let ks_s: Vec<A::ScalarField> = if full { ks.clone() } else { ks.iter().step_by(if thorough { 2 } else { 9 }).copied().collect() };
    scalar_ops(cv, out, rng, &sub, &ks_s, 3);
    bits_ops(cv, out, rng, &sub[..sub.len().min(6)], 4);
    // wNAF: every valid small window with a fresh table (w = 10 -> 512 entries), invalid windows panic
    let wsub: Vec<A> = if full { pts.to_vec() } else { sub.iter().take(if thorough { 12 } else { 4 }).copied().collect() };
    wnaf_ops(cv, out, rng, &wsub, &ks_s, &[2, 3, 4, 5, 6], 6);
    wnaf_ops(cv, out, rng, &wsub[..wsub.len().min(3)], &ks_s, &[7, 8, 9, 10], 10);
    wnaf_ops(cv, out, rng, &wsub[..wsub.len().min(2)], &ks_s[..ks_s.len().min(3)], &[0, 1, 64, 65], 10);
    let few: Vec<A::ScalarField> = ks.iter().step_by((ks.len() / 5).max(1)).copied().collect();
    mwt_ops(cv, out, rng, &wsub[..wsub.len().min(if thorough { 4 } else { 2 })], &few, &[2, 3, 4]);
    // fixed base: all scalars at once per table shape
    let kss: Vec<Vec<A::ScalarField>> = vec![ks.clone(), vec![], vec![ks[ks.len() - 1]], cyc(&ks, 33), cyc(&ks, if thorough { 1000 } else { 100 })];
    let nss: Vec<usize> = if thorough { vec![0, 1, 2, 31, 32, 33, 63, 64, 65, 1000, 1024, 1025, 65536] } else { vec![0, 1, 31, 32, 33, 1000] };
    let rb = cv.rbits;
    let mut sss: Vec<usize> = vec![0, 1, 2, 3, 4, rb - 1, rb, rb + 1, rb + 2, rb + 3, 63, 64, 65, 64 * cv.n + 7];
    sss.sort();
    sss.dedup();
    let bsub: Vec<A> = if full && thorough { pts.to_vec() } else { wsub.iter().take(if thorough { 4 } else { 2 }).copied().collect() };
    batch_ops(cv, out, rng, &bsub, &kss[..3], &nss, &sss, true);
    batch_ops(cv, out, rng, &bsub[..1], &kss[3..], &[1, 33, 65536], &[rb], false);
    // scalar_size = 0: the only scalar in the domain is 0
    batch_ops(cv, out, rng, &bsub[..1], &[vec![ks[0]]], &[1, 33], &[0, 1], false);
}
/// shipped / large curve, quick tier.  Each line on a non-trivial point costs two reference scalar
/// multiplications in the driver (~10 ms each at 256 bits), so this tier takes a seed-dependent fifth of the
/// structured scalar lists (the identity, which is cheap, sees all of them) and one operation per scalar.
fn large_quick<A: AffineRepr>(cv: &Cv<A>, out: &mut Out, rng: &mut Rng, pts: &[A], scale: usize)
where
    A::Group: ScalarMul<MulBase = A>,
{
    let raws = raw_scalars(cv.n, &cv.r, rng, 2 * scale);
    let np = pts.len();
    let off = rng.below(5) as usize;
    raw_ops(cv, out, rng, &pts[..1], &raws, 1);
    let sel: Vec<Vec<u64>> = raws.iter().enumerate().filter(|(j, s)| (j + off) % 5 == 0 || s.len() > cv.n + 1).map(|(_, s)| s.clone()).collect();
    for i in 1..np {
        let si: Vec<Vec<u64>> = sel.iter().enumerate().filter(|(j, _)| 1 + j % (np - 1) == i).map(|(_, s)| s.clone()).collect();
        raw_ops(cv, out, rng, &pts[i..i + 1], &si, 1);
    }
    let ks: Vec<A::ScalarField> = field_scalars(rng, 2 * scale, false);
    scalar_ops(cv, out, rng, &pts[..1], &ks[..6], 3);
    let ksel: Vec<A::ScalarField> = ks.iter().enumerate().filter(|(j, _)| (j + off) % 5 == 0).map(|(_, k)| *k).collect();
    for i in 1..np {
        let ki: Vec<A::ScalarField> = ksel.iter().enumerate().filter(|(j, _)| 1 + j % (np - 1) == i).map(|(_, k)| *k).collect();
        scalar_ops(cv, out, rng, &pts[i..i + 1], &ki, 1);
    }
    bits_ops(cv, out, rng, &pts[..1], 2);
    bits_ops(cv, out, rng, &pts[1..2], 0);
    // wNAF: four windows per run (rotating with the seed), fresh tables; invalid windows on the identity
    let ws = [2usize, 3, 4, 5, 6, 7, 8, 9, 10];
    for j in 0..4 {
        let w = ws[(2 * j + off) % 9];
        let i = 1 + j % (np - 1);
        wnaf_ops(cv, out, rng, &pts[i..i + 1], &ks[(7 * j + off) % ks.len()..(7 * j + off) % ks.len() + 1], &[w], 3);
    }
    wnaf_ops(cv, out, rng, &pts[..1], &ks[ks.len() - 2..], &[2, 0, 1, 64], 3);
    mwt_ops(cv, out, rng, &pts[1..2], &ks[ks.len() - 1..], &[3]);
    // fixed base
    let rb = cv.rbits;
    let k1 = vec![vec![ks[ks.len() - 2]]];
    batch_ops(cv, out, rng, &pts[1..2], &[vec![A::ScalarField::zero()]], &[1], &[0], false);
    let (ns, ss) = [(1000usize, rb), (1, rb - 1), (33, 64 * cv.n + 5), (32, 17), (2, rb + 1)][off];
    batch_ops(cv, out, rng, &pts[1 + off % 2..2 + off % 2], &k1, &[ns], &[ss], false);
}
/// shipped / large curve: structured scalars × a few points.  Each line costs two reference scalar
/// multiplications in the driver (~10 ms each at 256 bits), so the quick tier rotates the operations over the
/// scalar list (every scalar is still seen by some double-and-add path on some non-trivial point).
fn large<A: AffineRepr>(cv: &Cv<A>, out: &mut Out, rng: &mut Rng, pts: &[A], thorough: bool, scale: usize)
where
    A::Group: ScalarMul<MulBase = A>,
{
    if !thorough {
        return large_quick(cv, out, rng, pts, scale);
    }
    let raws = raw_scalars(cv.n, &cv.r, rng, if thorough { 20 * scale } else { 4 * scale });
    let np = pts.len();
    // pts[0] = identity (cheap for the driver), pts[1] = generator, the others rotate
    raw_ops(cv, out, rng, &pts[..1], &raws, if thorough { 4 } else { 1 });
    if thorough {
        raw_ops(cv, out, rng, &pts[1..2], &raws, 4);
        raw_ops(cv, out, rng, &pts[2..np], &raws, 1);
    } else {
        for (i, p) in pts[1..np].iter().enumerate() {
            let sel: Vec<Vec<u64>> = raws.iter().enumerate().filter(|(j, _)| (j + i) % (np - 1) == 0).map(|(_, s)| s.clone()).collect();
            raw_ops(cv, out, rng, &[*p], &sel, 1);
        }
    }
    let ks: Vec<A::ScalarField> = field_scalars(rng, if thorough { 15 * scale } else { 4 * scale }, thorough);
    if thorough {
        scalar_ops(cv, out, rng, &pts[..2], &ks, 3);
        scalar_ops(cv, out, rng, &pts[2..np], &ks, 1);
    } else {
        scalar_ops(cv, out, rng, &pts[..1], &ks[..8], 3);
        for (i, p) in pts[1..np].iter().enumerate() {
            let sel: Vec<A::ScalarField> = ks.iter().enumerate().filter(|(j, _)| j % 2 == 0 && (j / 2 + i) % (np - 1) == 0).map(|(_, s)| *s).collect();
            scalar_ops(cv, out, rng, &[*p], &sel, 1);
        }
    }
    bits_ops(cv, out, rng, &pts[..2.min(np)], if thorough { 20 } else { 2 });
    // wNAF, windows 2..=10 with fresh tables
    let ws = [2usize, 3, 4, 5, 6, 7, 8, 9, 10];
    if thorough {
        let kw: Vec<A::ScalarField> = ks.iter().step_by(6).copied().collect();
        wnaf_ops(cv, out, rng, &pts[1..np.min(3)], &kw, &ws, 4);
    } else {
        // every scalar once, windows rotating
        for (j, k) in ks.iter().enumerate().skip(1).step_by(4) {
            let j = j / 4;
            wnaf_ops(cv, out, rng, &pts[1 + j % (np - 1)..2 + j % (np - 1)], &[*k], &ws[j % 9..j % 9 + 1], 3);
        }
    }
    wnaf_ops(cv, out, rng, &pts[..1], &ks[ks.len() - 3..], &[2, 5, 0, 1, 64], 3);
    let few: Vec<A::ScalarField> = ks.iter().step_by((ks.len() / 3).max(1)).copied().collect();
    mwt_ops(cv, out, rng, &pts[1..2], &few, if thorough { &[2, 3, 4] } else { &[3] });
    // fixed base
    batch_ops(cv, out, rng, &pts[1..2], &[vec![A::ScalarField::zero()]], &[1], &[0], false);
    let kb: Vec<A::ScalarField> = ks.iter().step_by((ks.len() / (if thorough { 12 } else { 4 })).max(1)).copied().collect();
    let rb = cv.rbits;
    let kss = vec![kb.clone(), vec![]];
    if thorough {
        batch_ops(cv, out, rng, &pts[1..2], &kss, &[1, 2, 31, 32, 33, 1000], &[rb - 1, rb, rb + 1, 64 * cv.n + 5, 17, 0], false);
        batch_ops(cv, out, rng, &pts[..1], &kss[..1], &[1, 33], &[rb], false);
        batch_ops(cv, out, rng, &pts[2..3], &[cyc(&kb, 33), cyc(&kb, 1000)], &[33], &[rb], false);
    } else {
        let k2 = vec![kb[1..3].to_vec()];
        for (ns, ss) in [(1usize, rb), (2, rb - 1), (32, rb + 1), (33, 64 * cv.n + 5), (1000, rb), (31, 17), (1, 0)] {
            batch_ops(cv, out, rng, &pts[1..2], &k2, &[ns], &[ss], false);
        }
        batch_ops(cv, out, rng, &pts[1..2], &kss[1..], &[1], &[0, rb], false);
    }
}

/// start-up checks of the constants typed into this file (a wrong constant would otherwise show up as a
/// spurious violation): generators on the curve and of order r, lattice rows, eigenvalue
fn ck(cond: bool, name: &str, what: &str) {
    if !cond {
        eprintln!("c04 harness: constant check failed for {name}: {what}");
        std::process::exit(2);
    }
}
fn sanity_sw<C: SWCurveConfig>(name: &str, expect_points: usize)
where
    C::BaseField: PrimeField,
{
    let g = sw::Affine::<C>::generator();
    ck(g.is_on_curve(), name, "generator off curve");
    ck(sw_double_and_add_affine(&g, C::ScalarField::MODULUS).is_zero(), name, "generator order");
    if expect_points > 0 {
        ck(sw_all_points::<C>().len() == expect_points, name, "point count");
    }
}
fn sanity_glv<C: GLVConfig>(name: &str)
where
    C::BaseField: PrimeField,
{
    let g = sw::Affine::<C>::generator();
    ck(C::endomorphism_affine(&g) == sw_double_and_add_affine(&g, C::LAMBDA.into_bigint()).into_affine(), name, "eigenvalue");
    let to = |x: &(bool, <C::ScalarField as PrimeField>::BigInt)| {
        let f = C::ScalarField::from_bigint(x.1).unwrap_or(C::ScalarField::zero()); // r itself -> 0
        if x.0 { f } else { -f }
    };
    let co = C::SCALAR_DECOMP_COEFFS;
    ck((to(&co[0]) + C::LAMBDA * to(&co[1])).is_zero(), name, "lattice row 1");
    ck((to(&co[2]) + C::LAMBDA * to(&co[3])).is_zero(), name, "lattice row 2");
}

fn main() {
    let a = arkharness::args();
    let th = a.thorough;
    let mut rng = Rng::new(a.seed);
    let mut out = Out::new();
    let only = a.only.clone();
    let want = |name: &str| only.as_ref().map(|o| name.starts_with(o.as_str())).unwrap_or(true);

    sanity_sw::<T13a>("T13a", 19);
    sanity_sw::<T13aX>("T13aX", 19);
    sanity_sw::<T13b>("T13b", 7);
    sanity_sw::<T13c>("T13c", 13);
    sanity_sw::<T13d>("T13d", 14);
    sanity_sw::<T13e>("T13e", 15);
    sanity_sw::<T127a>("T127a", 127);
    sanity_sw::<T127b>("T127b", 148);
    sanity_sw::<T257a>("T257a", 251);
    sanity_sw::<T257b>("T257b", 254);
    sanity_sw::<T251a>("T251a", 257);
    sanity_sw::<M61a>("M61a", 0);
    sanity_sw::<SecpGlv>("SecpGlv", 0);
    sanity_glv::<T13a>("T13a");
    sanity_glv::<T13b>("T13b");
    sanity_glv::<T127a>("T127a");
    sanity_glv::<T127b>("T127b");
    sanity_glv::<M61a>("M61a");
    sanity_glv::<SecpGlv>("SecpGlv");
    sanity_glv::<SecpGlvBad>("SecpGlvBad");
    sanity_glv::<ark_test_curves::bls12_381::g1::Config>("bls12_381 g1");

    macro_rules! toy_sw_run {
        ($name:literal, $c:ty, $ovr:expr, $full:expr, glv: $glv:tt) => {
            if want($name) {
                let cv = sw_cv::<$c>($name, $ovr);
                let pts = sw_all_points::<$c>();
                toy(&cv, &mut out, &mut rng, &pts, th, $full);
                toy_sw_run!(@glv $glv, $c, cv, pts, $full);
            }
        };
        (@glv true, $c:ty, $cv:ident, $pts:ident, $full:expr) => {
            let ks: Vec<<$c as CurveConfig>::ScalarField> = small_field_scalars();
            let sub: Vec<_> = if $full { $pts.clone() } else { $pts.iter().step_by(if th { 2 } else { 9 }).copied().collect() };
            glv_ops::<$c>(&$cv, &mut out, &mut rng, &sub, &ks, true);
        };
        (@glv false, $c:ty, $cv:ident, $pts:ident, $full:expr) => {};
    }
    // F_13: exhaustive in both tiers
    toy_sw_run!("T13a", T13a, "d".into(), true, glv: true);
    toy_sw_run!("T13aO", T13aO, glv_tok::<T13aO>(), true, glv: true);
    toy_sw_run!("T13aX", T13aX, "d".into(), true, glv: false);
    toy_sw_run!("T13b", T13b, glv_tok::<T13b>(), true, glv: true);
    toy_sw_run!("T13c", T13c, "d".into(), true, glv: false);
    toy_sw_run!("T13d", T13d, "d".into(), true, glv: false);
    toy_sw_run!("T13e", T13e, "d".into(), true, glv: false);
    // F_127 / F_251 / F_257: sampled (quick), denser (thorough); GLV exhaustive over k, points sampled
    toy_sw_run!("T127a", T127a, glv_tok::<T127a>(), false, glv: true);
    toy_sw_run!("T127b", T127b, glv_tok::<T127b>(), false, glv: true);
    toy_sw_run!("T257a", T257a, "d".into(), false, glv: false);
    toy_sw_run!("T257b", T257b, "d".into(), false, glv: false);
    toy_sw_run!("T251a", T251a, "d".into(), false, glv: false);
    macro_rules! toy_te_run {
        ($name:literal, $c:ty, $full:expr) => {
            if want($name) {
                let cv = te_cv::<$c>($name);
                let pts = te_all_points::<$c>();
                toy(&cv, &mut out, &mut rng, &pts, th, $full);
            }
        };
    }
    toy_te_run!("E13a", E13a, true);
    toy_te_run!("E13b", E13b, true);
    toy_te_run!("E127a", E127a, false);

    // mid-size GLV curve with cofactor 43 (one-limb scalars of 56 bits)
    if want("M61a") {
        let cv = sw_cv::<M61a>("M61a", glv_tok::<M61a>());
        let pts = sw_some_points::<M61a>(&mut rng, if th { 8 } else { 3 });
        large(&cv, &mut out, &mut rng, &pts, th, 4);
        let ks: Vec<FrM61> = field_scalars(&mut rng, if th { 2000 } else { 200 }, true);
        glv_ops::<M61a>(&cv, &mut out, &mut rng, &pts[..1], &ks, true);
        let ks2: Vec<FrM61> = ks.iter().step_by(5).copied().collect();
        glv_ops::<M61a>(&cv, &mut out, &mut rng, &pts[1..], &ks2, false);
    }
    // shipped curves
    if want("bls12_381") {
        type C = ark_test_curves::bls12_381::g1::Config;
        let cv = sw_cv::<C>("bls12_381", glv_tok::<C>());
        let pts = sw_some_points::<C>(&mut rng, if th { 4 } else { 1 });
        large(&cv, &mut out, &mut rng, &pts, th, 1);
        let ks: Vec<<C as CurveConfig>::ScalarField> = field_scalars(&mut rng, if th { 3000 } else { 300 }, true);
        glv_ops::<C>(&cv, &mut out, &mut rng, &[], &ks, true);
        let ks2: Vec<_> = ks.iter().skip(rng.below(6) as usize).step_by(if th { 6 } else { 75 }).copied().collect();
        let np = pts.len();
        glv_ops::<C>(&cv, &mut out, &mut rng, &pts[1..2], &ks2, false);
        let ks3: Vec<_> = ks.iter().skip(rng.below(30) as usize).step_by(if th { 30 } else { 120 }).copied().collect();
        glv_ops::<C>(&cv, &mut out, &mut rng, &pts[..1], &ks3[..ks3.len().min(3)], false);
        glv_ops::<C>(&cv, &mut out, &mut rng, &pts[2..if th { np } else { np.min(4) }], &ks3, false);
    }
    if want("secp256k1") {
        type C = ark_test_curves::secp256k1::Config;
        let cv = sw_cv::<C>("secp256k1", "d".into());
        let pts = sw_some_points::<C>(&mut rng, if th { 4 } else { 1 });
        large(&cv, &mut out, &mut rng, &pts, th, 1);
    }
    if want("secpglv") {
        let cv = sw_cv::<SecpGlv>("secpglv", glv_tok::<SecpGlv>());
        let pts = sw_some_points::<SecpGlv>(&mut rng, if th { 3 } else { 1 });
        let ks: Vec<SecpFr> = field_scalars(&mut rng, if th { 2000 } else { 200 }, true);
        glv_ops::<SecpGlv>(&cv, &mut out, &mut rng, &[], &ks, true);
        let ks2: Vec<_> = ks.iter().skip(rng.below(8) as usize).step_by(if th { 8 } else { 48 }).copied().collect();
        glv_ops::<SecpGlv>(&cv, &mut out, &mut rng, &pts[1..if th { 3 } else { 2 }], &ks2, false);
        let raws = raw_scalars(4, &cv.r, &mut rng, 4);
        let raws: Vec<Vec<u64>> = if th { raws } else { let o = rng.below(6) as usize; raws.into_iter().skip(o).step_by(6).collect() };
        raw_ops(&cv, &mut out, &mut rng, &pts[1..2], &raws, if th { 4 } else { 1 });
        // determinant −r: k1 = k keeps the top bit for k ≥ 2^255 and the ladder skips a doubling mid-way
        let cvb = sw_cv::<SecpGlvBad>("secpglvbad", glv_tok::<SecpGlvBad>());
        let ptsb = sw_some_points::<SecpGlvBad>(&mut rng, 1);
        let ks3: Vec<_> = ks.iter().rev().step_by(if th { 10 } else { 70 }).copied().collect();
        glv_ops::<SecpGlvBad>(&cvb, &mut out, &mut rng, &ptsb[1..2], &ks3, false);
    }
    if want("mnt4_753") {
        type C = ark_test_curves::mnt4_753::g1::Config;
        let cv = sw_cv::<C>("mnt4_753", "d".into());
        let pts = sw_some_points::<C>(&mut rng, 1);
        // 12-limb scalars: a thin slice only (each line costs ~1500 field inversions in the driver)
        let raws = raw_scalars(cv.n, &cv.r, &mut rng, 2);
        let sel: Vec<Vec<u64>> = raws.iter().skip(if th { 0 } else { rng.below(30) as usize }).step_by(if th { 2 } else { 90 }).cloned().collect();
        raw_ops(&cv, &mut out, &mut rng, &pts[1..2], &sel, if th { 4 } else { 1 });
        let ks: Vec<<C as CurveConfig>::ScalarField> = field_scalars(&mut rng, 2, th);
        let sel: Vec<_> = ks.iter().skip(if th { 0 } else { rng.below(40) as usize }).step_by(if th { 9 } else { 80 }).copied().collect();
        scalar_ops(&cv, &mut out, &mut rng, &pts[1..2], &sel, if th { 3 } else { 1 });
        wnaf_ops(&cv, &mut out, &mut rng, &pts[1..2], &sel[..sel.len().min(if th { 4 } else { 1 })], if th { &[2, 4, 7] } else { &[4] }, 2);
        if th {
            batch_ops(&cv, &mut out, &mut rng, &pts[1..2], &[sel[..sel.len().min(3)].to_vec()], &[1, 1000], &[cv.rbits], false);
        }
    }
    if want("ed_on_bls12_381") {
        type C = ark_test_curves::ed_on_bls12_381::EdwardsConfig;
        let cv = te_cv::<C>("ed_on_bls12_381");
        let pts = te_some_points::<C>(&mut rng, if th { 4 } else { 1 });
        large(&cv, &mut out, &mut rng, &pts, th, 1);
    }
    out.flush();
}
