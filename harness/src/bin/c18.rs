//! C18: container / wrapper / derive-macro (de)serialisation of ark-serialize.
//!
//! Lines (syntax of types and values: see /verif/lean/Ark/Model/Serial.lean):
//!   C18 ser <c|u> <ty> <val>            => <hex bytes> <serialized_size>
//!   C18 de <tag> <c|u><y|n> <ty> <hex>  => ok <val> <consumed> | err:<class> | panic | abort | timeout
//!                                          | ok-huge <len> <consumed>
//! A `de` whose input has a length prefix larger than the rest of the input (+ 4096 slack; found by
//! walking the input along the type, `Tv::scan`) runs in a CHILD PROCESS (this binary re-executed as
//! `c18 __child` through `sh -c 'ulimit -v 1048576; exec …'`, i.e. RLIMIT_AS = 1 GiB) with a 0.4 s
//! per-case watchdog, so that an allocation abort (SIGABRT) is reported as `abort` and a runaway loop
//! as `timeout` instead of killing the harness; all other `de` lines run in-process under
//! `catch_unwind`.  The limits are mirrored in DrvC18.lean (`limits`).
//!
//! Types of `ark-poly` (derived impls; `GeneralEvaluationDomain` hand-written) over a prime field carry the
//! field and the kind of the type in the type token: `P<p hex>.<kind>.<ty>` with the leaf `fp` (see
//! `Ark.Serial.Poly` in Serial.lean); tag `w` = a byte string that decodes to a value violating an
//! invariant of its type (inconsistent domain fields, trailing zero coefficient, …).
//! Further ops (every `<ty>` may be a `P…` token):
//!   C18 chk <ty> <val>                        => ok | err:<class> | panic        `Valid::check` called directly
//!   C18 bchk <ty> [<val>,…]                   => ok | err:<class> | panic        `Valid::batch_check` called directly
//!   C18 hash <c|u> <ty> <val>                 => <32 bytes hex>                  `CanonicalSerializeHashExt::{hash, hash_uncompressed}::<Sha256>`
//!   C18 cser <ty> <val>                       => <hex> <size> <hex> <size>       `serialize_compressed`, `compressed_size`, `serialize_uncompressed`, `uncompressed_size`
//!   C18 cde <tag> <c|u><y|n> <ty> <hex>       => as `de`                         `deserialize_{compressed,uncompressed}[_unchecked]`
//!   C18 wfail <e|z> <c|u> <ty> <val> <k>      => ok <hex> | err:<class> <hex>    writer that takes k bytes, then fails (e: Err, z: Ok(0)); <hex> = what it received
//!   C18 rfail <e|i> <v|i> <c|u><y|n> <ty> <hex> <k> <chunk> => as `de`                reader: k bytes in chunks, then Err (e) / all bytes with `Interrupted` before every read (i)
//!   C18 tovec <ty> <val>                      => <hex>                           `serialize_to_vec![a, b, …]` on the components of a tuple value
//!   C18 bbs <bits>                            => <bits'> <bytes> <bytes>         `buffer_bit_byte_size`, `buffer_byte_size`
//!   C18 puse <what> <P…ty> <hex>              => ok:<…> | panic | err:<class>    a public method called on a value deserialised (Validate::Yes) from <hex>
#![allow(dead_code, deprecated)]
use ark_ff::{BigInt, CubicExtConfig, CubicExtField, FftField, Field, Fp, FpConfig, MontBackend, MontConfig, PrimeField, QuadExtConfig, QuadExtField};
use ark_poly::{
    multivariate::{SparsePolynomial as MvSparse, SparseTerm, Term},
    univariate::{DensePolynomial, SparsePolynomial as UvSparse},
    DenseMVPolynomial, DenseMultilinearExtension, EvaluationDomain, Evaluations, GeneralEvaluationDomain,
    MixedRadixEvaluationDomain, MultilinearExtension, Polynomial, Radix2EvaluationDomain, SparseMultilinearExtension,
};
use ark_serialize::*;
use arkharness::util::*;
use arkharness::zoo::{FDM61, FDP64m59, FDT13, FDT257};
use num_bigint::BigUint;
use sha2::Sha256;
use std::borrow::Cow;
use std::collections::{BTreeMap, BTreeSet, LinkedList, VecDeque};
use std::io::{BufRead, BufReader, Write as IoWrite};
use std::marker::PhantomData;
use std::process::{Child, ChildStdin, ChildStdout, Command, Stdio};
use std::rc::Rc;
use std::sync::atomic::{AtomicU64, Ordering as AO};
use std::sync::Arc;

const MEM_LIMIT_KIB: u64 = 1 << 20; // ulimit -v, = 2^30 bytes  (DrvC18.limits.mem)
const WATCHDOG_MS: u64 = 400;
/// a `de` line goes to the child process only if a length prefix met while walking the input along the
/// type (`Tv::scan`) exceeds the bytes that follow it by more than this slack; everything else runs
/// in-process under `catch_unwind`
const CHILD_SLACK: u64 = 4096;
const HUGE_LEN: u64 = 1 << 16; // DrvC18.limits.steps

// ------------------------------------------------------------------ universal values
#[derive(Clone, Debug, PartialEq)]
enum V {
    I(i128),
    Big(BigUint),
    B(bool),
    S(Vec<u8>),
    None,
    Some(Box<V>),
    Seq(Vec<V>),
}

fn show_into(v: &V, o: &mut String) {
    match v {
        V::I(i) => {
            if *i < 0 { o.push_str(&format!("-{:x}", i.unsigned_abs())) } else { o.push_str(&format!("{:x}", i)) }
        },
        V::Big(b) => o.push_str(&format!("{:x}", b)),
        V::B(b) => o.push(if *b { 'T' } else { 'F' }),
        V::S(s) => {
            o.push('s');
            for b in s { o.push_str(&format!("{:02x}", b)); }
        },
        V::None => o.push('N'),
        V::Some(x) => { o.push_str("S("); show_into(x, o); o.push(')'); },
        V::Seq(xs) => {
            o.push('[');
            for (i, x) in xs.iter().enumerate() {
                if i > 0 { o.push(','); }
                show_into(x, o);
            }
            o.push(']');
        },
    }
}
fn showv(v: &V) -> String { let mut s = String::new(); show_into(v, &mut s); s }
fn hexs(b: &[u8]) -> String {
    if b.is_empty() { return "_".into(); }
    let mut s = String::with_capacity(2 * b.len());
    for x in b { s.push_str(&format!("{:02x}", x)); }
    s
}
fn unhex(s: &str) -> Vec<u8> {
    if s == "_" { return vec![]; }
    (0..s.len() / 2).map(|i| u8::from_str_radix(&s[2 * i..2 * i + 2], 16).unwrap()).collect()
}
fn seq(v: &V) -> &Vec<V> { match v { V::Seq(x) => x, _ => panic!("harness: seq expected") } }

// ------------------------------------------------------------------ generator state
struct Gen { rng: Rng, invalid_ok: bool, top: Option<usize> }
impl Gen {
    fn len(&mut self, d: u32) -> usize {
        if d == 0 { if let Some(n) = self.top.take() { return n; } }
        let r = self.rng.below(16);
        match (d, r) {
            (_, 0..=2) => 0,
            (_, 3..=6) => 1,
            (_, 7..=10) => 2,
            (_, 11..=12) => 3,
            (0, 13) => 17,
            (0, 14) => 40,
            (0, 15) => 9,
            (1, _) => 5,
            _ => 4,
        }
    }
}

// ------------------------------------------------------------------ the synthetic mode-sensitive leaf
/// compressed `[x]`, uncompressed `[x, 255-x]`; `check()` fails iff x == 0xEE
#[derive(Clone, Copy, Debug, PartialEq, Eq, PartialOrd, Ord)]
struct Ml(u8);
impl CanonicalSerialize for Ml {
    fn serialize_with_mode<W: ark_serialize::Write>(&self, mut w: W, c: Compress) -> Result<(), SerializationError> {
        match c {
            Compress::Yes => w.write_all(&[self.0])?,
            Compress::No => w.write_all(&[self.0, 255 - self.0])?,
        }
        Ok(())
    }
    fn serialized_size(&self, c: Compress) -> usize { match c { Compress::Yes => 1, Compress::No => 2 } }
}
impl Valid for Ml {
    fn check(&self) -> Result<(), SerializationError> {
        if self.0 == 0xEE { Err(SerializationError::InvalidData) } else { Ok(()) }
    }
}
impl CanonicalDeserialize for Ml {
    fn deserialize_with_mode<R: ark_serialize::Read>(mut r: R, c: Compress, v: Validate) -> Result<Self, SerializationError> {
        let x = match c {
            Compress::Yes => { let mut b = [0u8; 1]; r.read_exact(&mut b)?; b[0] },
            Compress::No => {
                let mut b = [0u8; 2];
                r.read_exact(&mut b)?;
                if b[1] != 255 - b[0] { return Err(SerializationError::InvalidData); }
                b[0]
            },
        };
        let m = Ml(x);
        if v == Validate::Yes { m.check()?; }
        Ok(m)
    }
}

// ------------------------------------------------------------------ derive-macro structs
/// the doc example of `CanonicalSerialize`
#[derive(Clone, Debug, PartialEq, Eq, PartialOrd, Ord, CanonicalSerialize, CanonicalDeserialize)]
struct Named { a: u64, b: (u64, (u64, u64)) }
#[derive(Clone, Debug, PartialEq, Eq, PartialOrd, Ord, CanonicalSerialize, CanonicalDeserialize)]
struct TupS(u8, bool, Option<u16>);
/// nested tuples including a 1-tuple and unit
#[derive(Clone, Debug, PartialEq, Eq, PartialOrd, Ord, CanonicalSerialize, CanonicalDeserialize)]
struct Nested((u8, (u16, (u32,))), Vec<u8>, (), (Ml, (bool, String)));
#[derive(Clone, Debug, PartialEq, Eq, PartialOrd, Ord, CanonicalSerialize, CanonicalDeserialize)]
struct Gen1<T: CanonicalSerialize + CanonicalDeserialize + Send + Sync> { x: T, y: Vec<T>, z: PhantomData<T> }
#[derive(Clone, Debug, PartialEq, Eq, PartialOrd, Ord, CanonicalSerialize, CanonicalDeserialize)]
struct Gen2<A: CanonicalSerialize + CanonicalDeserialize, B: CanonicalSerialize + CanonicalDeserialize>(A, (B, A));
#[derive(Clone, Debug, PartialEq, Eq, PartialOrd, Ord, CanonicalSerialize, CanonicalDeserialize)]
struct UnitS;
#[derive(Clone, Debug, PartialEq, Eq, PartialOrd, Ord, CanonicalSerialize, CanonicalDeserialize)]
struct EmptyS {}
#[derive(Clone, Debug, PartialEq, Eq, PartialOrd, Ord, CanonicalSerialize, CanonicalDeserialize)]
struct Deep { inner: Named, v: Vec<TupS>, m: BTreeMap<u8, Gen2<u8, bool>>, w: (CompressedUnchecked<Ml>, [Ml; 2]) }

// ------------------------------------------------------------------ type-directed syntax / generation
fn take<'a>(r: &mut &'a [u8], n: usize) -> Result<&'a [u8], bool> {
    if r.len() < n { return Err(false); }
    let (a, b) = r.split_at(n);
    *r = b;
    Ok(a)
}
fn scan_len(r: &mut &[u8]) -> Result<u64, bool> {
    let l = u64::from_le_bytes(take(r, 8)?.try_into().unwrap());
    if l > r.len() as u64 + CHILD_SLACK { Err(true) } else { Ok(l) }
}
trait Tv: Sized {
    fn ty() -> String;
    fn gen(g: &mut Gen, d: u32) -> V;
    fn build(v: &V) -> Self;
    fn show(&self) -> V;
    /// some container inside has more than HUGE_LEN items (only possible for zero-width items)
    fn huge(&self) -> u64 { 0 }
    /// walk the input the way the deserialiser does, WITHOUT building anything: `Err(true)` as soon as a
    /// length prefix exceeds the bytes that follow it by more than CHILD_SLACK (such a line is run in the
    /// child process), `Err(false)` where the deserialiser stops with an error / end of input
    fn scan(r: &mut &[u8], c: Compress) -> Result<(), bool>;
}

macro_rules! tv_int {
    ($t:ty, $name:expr) => {
        impl Tv for $t {
            fn ty() -> String { $name.into() }
            fn gen(g: &mut Gen, _d: u32) -> V {
                let x: $t = match g.rng.below(10) {
                    0 => 0, 1 => 1, 2 => <$t>::MAX, 3 => <$t>::MIN, 4 => <$t>::MAX / 2 + 1, 5 => (0 as $t).wrapping_sub(1),
                    6 => (g.rng.next() & 0xff) as $t,
                    _ => g.rng.next() as $t,
                };
                V::I(x as i128)
            }
            fn build(v: &V) -> Self { match v { V::I(i) => *i as $t, _ => panic!("harness: int") } }
            fn show(&self) -> V { V::I(*self as i128) }
            fn scan(r: &mut &[u8], _c: Compress) -> Result<(), bool> { take(r, core::mem::size_of::<$t>())?; Ok(()) }
        }
    };
}
tv_int!(u8, "u8"); tv_int!(u16, "u16"); tv_int!(u32, "u32"); tv_int!(u64, "u64"); tv_int!(usize, "usize");
tv_int!(i8, "i8"); tv_int!(i16, "i16"); tv_int!(i32, "i32"); tv_int!(i64, "i64"); tv_int!(isize, "isize");

impl Tv for bool {
    fn ty() -> String { "bool".into() }
    fn gen(g: &mut Gen, _d: u32) -> V { V::B(g.rng.next() & 1 == 1) }
    fn build(v: &V) -> Self { match v { V::B(b) => *b, _ => panic!("harness: bool") } }
    fn show(&self) -> V { V::B(*self) }
    fn scan(r: &mut &[u8], _c: Compress) -> Result<(), bool> { if take(r, 1)?[0] > 1 { Err(false) } else { Ok(()) } }
}
impl Tv for Ml {
    fn ty() -> String { "ml".into() }
    fn gen(g: &mut Gen, _d: u32) -> V {
        let mut x = match g.rng.below(6) { 0 => 0, 1 => 255, 2 => 0xEE, 3 => 0xED, _ => (g.rng.next() & 0xff) as u8 };
        if x == 0xEE && !(g.invalid_ok && g.rng.below(2) == 0) { x = 0xEF; }
        V::I(x as i128)
    }
    fn build(v: &V) -> Self { match v { V::I(i) => Ml(*i as u8), _ => panic!("harness: ml") } }
    fn show(&self) -> V { V::I(self.0 as i128) }
    fn scan(r: &mut &[u8], c: Compress) -> Result<(), bool> {
        match c {
            Compress::Yes => { take(r, 1)?; Ok(()) },
            Compress::No => { let b = take(r, 2)?; if b[1] != 255 - b[0] { Err(false) } else { Ok(()) } },
        }
    }
}
impl<T> Tv for PhantomData<T> {
    fn ty() -> String { "ph".into() }
    fn gen(_g: &mut Gen, _d: u32) -> V { V::Seq(vec![]) }
    fn build(_v: &V) -> Self { PhantomData }
    fn show(&self) -> V { V::Seq(vec![]) }
    fn scan(_r: &mut &[u8], _c: Compress) -> Result<(), bool> { Ok(()) }
}
const FRAGS: [&str; 14] = ["", "a", "z~", "h\u{e9}llo", "\u{65e5}\u{672c}\u{8a9e}", "\u{1f600}", "\u{0}", "\u{7f}\u{80}", "\u{7ff}\u{800}",
    "\u{ffff}\u{10000}", "\u{10ffff}", "\u{d7ff}\u{e000}", "\u{fffd}", " \t\n"];
impl Tv for String {
    fn ty() -> String { "str".into() }
    fn gen(g: &mut Gen, d: u32) -> V {
        let n = g.len(d + 1);
        let mut s = String::new();
        for _ in 0..n {
            if g.rng.below(3) == 0 { s.push((b'a' + g.rng.below(26) as u8) as char); } else { s.push_str(FRAGS[g.rng.below(14) as usize]); }
        }
        V::S(s.into_bytes())
    }
    fn build(v: &V) -> Self { match v { V::S(b) => String::from_utf8(b.clone()).unwrap(), _ => panic!("harness: str") } }
    fn show(&self) -> V { V::S(self.as_bytes().to_vec()) }
    fn scan(r: &mut &[u8], _c: Compress) -> Result<(), bool> { let l = scan_len(r)?; take(r, l as usize)?; Ok(()) }
}
impl Tv for BigUint {
    fn ty() -> String { "big".into() }
    fn gen(g: &mut Gen, _d: u32) -> V {
        let b = match g.rng.below(10) {
            0 => BigUint::from(0u8), 1 => BigUint::from(1u8), 2 => BigUint::from(255u8), 3 => BigUint::from(256u16),
            4 => BigUint::from(u64::MAX), 5 => BigUint::from(u64::MAX) + 1u8,
            _ => { let n = 1 + g.rng.below(40) as usize; BigUint::from_bytes_le(&(0..n).map(|_| g.rng.next() as u8).collect::<Vec<_>>()) },
        };
        V::Big(b)
    }
    fn build(v: &V) -> Self { match v { V::Big(b) => b.clone(), V::I(i) => BigUint::from(*i as u128), _ => panic!("harness: big") } }
    fn show(&self) -> V { V::Big(self.clone()) }
    fn scan(r: &mut &[u8], _c: Compress) -> Result<(), bool> { let l = scan_len(r)?; take(r, l as usize)?; Ok(()) }
}
impl<T: Tv> Tv for Option<T> {
    fn ty() -> String { format!("opt({})", T::ty()) }
    fn gen(g: &mut Gen, d: u32) -> V { if g.rng.below(3) == 0 { V::None } else { V::Some(Box::new(T::gen(g, d + 1))) } }
    fn build(v: &V) -> Self { match v { V::None => None, V::Some(x) => Some(T::build(x)), _ => panic!("harness: opt") } }
    fn show(&self) -> V { match self { None => V::None, Some(x) => V::Some(Box::new(x.show())) } }
    fn huge(&self) -> u64 { self.as_ref().map(|x| x.huge()).unwrap_or(0) }
    fn scan(r: &mut &[u8], c: Compress) -> Result<(), bool> { let b = take(r, 1)?[0]; if b > 1 { Err(false) } else if b == 1 { T::scan(r, c) } else { Ok(()) } }
}
impl Tv for () {
    fn ty() -> String { "tup()".into() }
    fn gen(_g: &mut Gen, _d: u32) -> V { V::Seq(vec![]) }
    fn build(_v: &V) -> Self {}
    fn show(&self) -> V { V::Seq(vec![]) }
    fn scan(_r: &mut &[u8], _c: Compress) -> Result<(), bool> { Ok(()) }
}
macro_rules! tv_tuple {
    ($($T:ident : $i:tt),+) => {
        impl<$($T: Tv),+> Tv for ($($T,)+) {
            fn ty() -> String { format!("tup({})", [$($T::ty()),+].join(",")) }
            fn gen(g: &mut Gen, d: u32) -> V { V::Seq(vec![$($T::gen(g, d + 1)),+]) }
            fn build(v: &V) -> Self { let s = seq(v); ($($T::build(&s[$i]),)+) }
            fn show(&self) -> V { V::Seq(vec![$(self.$i.show()),+]) }
            fn huge(&self) -> u64 { 0 $(.max(self.$i.huge()))+ }
            fn scan(r: &mut &[u8], c: Compress) -> Result<(), bool> { $($T::scan(r, c)?;)+ Ok(()) }
        }
    };
}
tv_tuple!(A:0); tv_tuple!(A:0, B:1); tv_tuple!(A:0, B:1, C:2); tv_tuple!(A:0, B:1, C:2, D:3); tv_tuple!(A:0, B:1, C:2, D:3, E:4);

impl<T: Tv, const N: usize> Tv for [T; N] {
    fn ty() -> String { format!("arr{:x}({})", N, T::ty()) }
    fn gen(g: &mut Gen, d: u32) -> V { V::Seq((0..N).map(|_| T::gen(g, d + 1)).collect()) }
    fn build(v: &V) -> Self { let s = seq(v); core::array::from_fn(|i| T::build(&s[i])) }
    fn show(&self) -> V { V::Seq(self.iter().map(|x| x.show()).collect()) }
    fn huge(&self) -> u64 { self.iter().map(|x| x.huge()).max().unwrap_or(0) }
    fn scan(r: &mut &[u8], c: Compress) -> Result<(), bool> { for _ in 0..N { T::scan(r, c)?; } Ok(()) }
}
macro_rules! tv_seq {
    ($C:ident, $fmt:expr, $push:ident) => {
        impl<T: Tv> Tv for $C<T> {
            fn ty() -> String { format!($fmt, core::mem::size_of::<T>(), T::ty()) }
            fn gen(g: &mut Gen, d: u32) -> V { let n = g.len(d); V::Seq((0..n).map(|_| T::gen(g, d + 1)).collect()) }
            fn build(v: &V) -> Self { let mut c = $C::new(); for x in seq(v) { c.$push(T::build(x)); } c }
            fn show(&self) -> V { V::Seq(self.iter().map(|x| x.show()).collect()) }
            fn scan(r: &mut &[u8], c: Compress) -> Result<(), bool> { let l = scan_len(r)?; for _ in 0..l { T::scan(r, c)?; } Ok(()) }
            fn huge(&self) -> u64 {
                if self.len() as u64 > HUGE_LEN { self.len() as u64 } else { self.iter().map(|x| x.huge()).max().unwrap_or(0) }
            }
        }
    };
}
tv_seq!(Vec, "vec{:x}({})", push);
tv_seq!(VecDeque, "deq{:x}({})", push_back);
impl<T: Tv> Tv for LinkedList<T> {
    fn ty() -> String { format!("list({})", T::ty()) }
    fn gen(g: &mut Gen, d: u32) -> V { let n = g.len(d); V::Seq((0..n).map(|_| T::gen(g, d + 1)).collect()) }
    fn build(v: &V) -> Self { let mut c = LinkedList::new(); for x in seq(v) { c.push_back(T::build(x)); } c }
    fn show(&self) -> V { V::Seq(self.iter().map(|x| x.show()).collect()) }
    fn scan(r: &mut &[u8], c: Compress) -> Result<(), bool> { let l = scan_len(r)?; for _ in 0..l { T::scan(r, c)?; } Ok(()) }
    fn huge(&self) -> u64 {
        if self.len() as u64 > HUGE_LEN { self.len() as u64 } else { self.iter().map(|x| x.huge()).max().unwrap_or(0) }
    }
}
impl<T: Tv + Ord> Tv for BTreeSet<T> {
    fn ty() -> String { format!("set({})", T::ty()) }
    /// insertion sequence: unsorted, with repeats
    fn gen(g: &mut Gen, d: u32) -> V {
        let n = g.len(d);
        let mut xs: Vec<V> = Vec::new();
        for _ in 0..n {
            if !xs.is_empty() && g.rng.below(4) == 0 { let j = g.rng.below(xs.len() as u64) as usize; xs.push(xs[j].clone()); } else { xs.push(T::gen(g, d + 1)); }
        }
        V::Seq(xs)
    }
    fn build(v: &V) -> Self { let mut c = BTreeSet::new(); for x in seq(v) { c.insert(T::build(x)); } c }
    fn show(&self) -> V { V::Seq(self.iter().map(|x| x.show()).collect()) }
    fn scan(r: &mut &[u8], c: Compress) -> Result<(), bool> { let l = scan_len(r)?; for _ in 0..l { T::scan(r, c)?; } Ok(()) }
    fn huge(&self) -> u64 {
        if self.len() as u64 > HUGE_LEN { self.len() as u64 } else { self.iter().map(|x| x.huge()).max().unwrap_or(0) }
    }
}
impl<K: Tv + Ord, W: Tv> Tv for BTreeMap<K, W> {
    fn ty() -> String { format!("map({},{})", K::ty(), W::ty()) }
    fn gen(g: &mut Gen, d: u32) -> V {
        let n = g.len(d);
        let mut xs: Vec<V> = Vec::new();
        for _ in 0..n {
            let k = if !xs.is_empty() && g.rng.below(4) == 0 { let j = g.rng.below(xs.len() as u64) as usize; seq(&xs[j])[0].clone() } else { K::gen(g, d + 1) };
            xs.push(V::Seq(vec![k, W::gen(g, d + 1)]));
        }
        V::Seq(xs)
    }
    fn build(v: &V) -> Self { let mut c = BTreeMap::new(); for e in seq(v) { let e = seq(e); c.insert(K::build(&e[0]), W::build(&e[1])); } c }
    fn show(&self) -> V { V::Seq(self.iter().map(|(k, w)| V::Seq(vec![k.show(), w.show()])).collect()) }
    fn scan(r: &mut &[u8], c: Compress) -> Result<(), bool> { let l = scan_len(r)?; for _ in 0..l { K::scan(r, c)?; W::scan(r, c)?; } Ok(()) }
    fn huge(&self) -> u64 {
        if self.len() as u64 > HUGE_LEN { self.len() as u64 } else { self.iter().map(|(k, w)| k.huge().max(w.huge())).max().unwrap_or(0) }
    }
}
macro_rules! tv_wrap {
    ($W:ident, $name:expr, $mk:expr, $pin:expr, $($bound:tt)*) => {
        impl<T: Tv $($bound)*> Tv for $W<T> {
            fn ty() -> String { format!("{}({})", $name, T::ty()) }
            fn gen(g: &mut Gen, d: u32) -> V { T::gen(g, d) }
            fn build(v: &V) -> Self { $mk(T::build(v)) }
            fn show(&self) -> V { (**self).show() }
            fn huge(&self) -> u64 { (**self).huge() }
            fn scan(r: &mut &[u8], c: Compress) -> Result<(), bool> { let p: Option<Compress> = $pin; T::scan(r, p.unwrap_or(c)) }
        }
    };
}
tv_wrap!(Arc, "arc", Arc::new, None,);
tv_wrap!(Rc, "rc", Rc::new, None,);
tv_wrap!(CompressedUnchecked, "cu", CompressedUnchecked, Some(Compress::Yes),);
tv_wrap!(UncompressedUnchecked, "uu", UncompressedUnchecked, Some(Compress::No),);
tv_wrap!(CompressedChecked, "cc", CompressedChecked, Some(Compress::Yes),);
tv_wrap!(UncompressedChecked, "uc", UncompressedChecked, Some(Compress::No),);
impl<T: Tv + Clone> Tv for Cow<'static, T> {
    fn ty() -> String { format!("cow({})", T::ty()) }
    fn gen(g: &mut Gen, d: u32) -> V { T::gen(g, d) }
    fn build(v: &V) -> Self { Cow::Owned(T::build(v)) }
    fn show(&self) -> V { self.as_ref().show() }
    fn huge(&self) -> u64 { self.as_ref().huge() }
    fn scan(r: &mut &[u8], c: Compress) -> Result<(), bool> { T::scan(r, c) }
}

// derive structs: `st(field types as written)`
impl Tv for Named {
    fn ty() -> String { "st(u64,tup(u64,tup(u64,u64)))".into() }
    fn gen(g: &mut Gen, d: u32) -> V { V::Seq(vec![u64::gen(g, d), <(u64, (u64, u64))>::gen(g, d)]) }
    fn build(v: &V) -> Self { let s = seq(v); Named { a: Tv::build(&s[0]), b: Tv::build(&s[1]) } }
    fn show(&self) -> V { V::Seq(vec![self.a.show(), self.b.show()]) }
    fn scan(r: &mut &[u8], c: Compress) -> Result<(), bool> { <(u64, (u64, (u64, u64)))>::scan(r, c) }
}
impl Tv for TupS {
    fn ty() -> String { "st(u8,bool,opt(u16))".into() }
    fn gen(g: &mut Gen, d: u32) -> V { V::Seq(vec![u8::gen(g, d), bool::gen(g, d), <Option<u16>>::gen(g, d)]) }
    fn build(v: &V) -> Self { let s = seq(v); TupS(Tv::build(&s[0]), Tv::build(&s[1]), Tv::build(&s[2])) }
    fn show(&self) -> V { V::Seq(vec![self.0.show(), self.1.show(), self.2.show()]) }
    fn scan(r: &mut &[u8], c: Compress) -> Result<(), bool> { <(u8, bool, Option<u16>)>::scan(r, c) }
}
impl Tv for Nested {
    fn ty() -> String { format!("st({},{},tup(),{})", <(u8, (u16, (u32,)))>::ty(), <Vec<u8>>::ty(), <(Ml, (bool, String))>::ty()) }
    fn gen(g: &mut Gen, d: u32) -> V { V::Seq(vec![<(u8, (u16, (u32,)))>::gen(g, d), <Vec<u8>>::gen(g, d + 1), V::Seq(vec![]), <(Ml, (bool, String))>::gen(g, d)]) }
    fn build(v: &V) -> Self { let s = seq(v); Nested(Tv::build(&s[0]), Tv::build(&s[1]), (), Tv::build(&s[3])) }
    fn show(&self) -> V { V::Seq(vec![self.0.show(), self.1.show(), V::Seq(vec![]), self.3.show()]) }
    fn scan(r: &mut &[u8], c: Compress) -> Result<(), bool> { <((u8, (u16, (u32,))), Vec<u8>, (), (Ml, (bool, String)))>::scan(r, c) }
}
impl<T: Tv + CanonicalSerialize + CanonicalDeserialize + Send + Sync> Tv for Gen1<T> {
    fn ty() -> String { format!("st({},{},ph)", T::ty(), <Vec<T>>::ty()) }
    fn gen(g: &mut Gen, d: u32) -> V { V::Seq(vec![T::gen(g, d + 1), <Vec<T>>::gen(g, d + 1), V::Seq(vec![])]) }
    fn build(v: &V) -> Self { let s = seq(v); Gen1 { x: Tv::build(&s[0]), y: Tv::build(&s[1]), z: PhantomData } }
    fn show(&self) -> V { V::Seq(vec![self.x.show(), self.y.show(), V::Seq(vec![])]) }
    fn scan(r: &mut &[u8], c: Compress) -> Result<(), bool> { <(T, Vec<T>)>::scan(r, c) }
}
impl<A: Tv + CanonicalSerialize + CanonicalDeserialize, B: Tv + CanonicalSerialize + CanonicalDeserialize> Tv for Gen2<A, B> {
    fn ty() -> String { format!("st({},tup({},{}))", A::ty(), B::ty(), A::ty()) }
    fn gen(g: &mut Gen, d: u32) -> V { V::Seq(vec![A::gen(g, d + 1), V::Seq(vec![B::gen(g, d + 1), A::gen(g, d + 1)])]) }
    fn build(v: &V) -> Self { let s = seq(v); let t = seq(&s[1]); Gen2(Tv::build(&s[0]), (Tv::build(&t[0]), Tv::build(&t[1]))) }
    fn show(&self) -> V { V::Seq(vec![self.0.show(), V::Seq(vec![self.1 .0.show(), self.1 .1.show()])]) }
    fn scan(r: &mut &[u8], c: Compress) -> Result<(), bool> { <(A, (B, A))>::scan(r, c) }
}
impl Tv for UnitS {
    fn ty() -> String { "st()".into() }
    fn gen(_g: &mut Gen, _d: u32) -> V { V::Seq(vec![]) }
    fn build(_v: &V) -> Self { UnitS }
    fn show(&self) -> V { V::Seq(vec![]) }
    fn scan(_r: &mut &[u8], _c: Compress) -> Result<(), bool> { Ok(()) }
}
impl Tv for EmptyS {
    fn ty() -> String { "st()".into() }
    fn gen(_g: &mut Gen, _d: u32) -> V { V::Seq(vec![]) }
    fn build(_v: &V) -> Self { EmptyS {} }
    fn show(&self) -> V { V::Seq(vec![]) }
    fn scan(_r: &mut &[u8], _c: Compress) -> Result<(), bool> { Ok(()) }
}
impl Tv for Deep {
    fn ty() -> String {
        format!("st({},{},{},{})", Named::ty(), <Vec<TupS>>::ty(), <BTreeMap<u8, Gen2<u8, bool>>>::ty(), <(CompressedUnchecked<Ml>, [Ml; 2])>::ty())
    }
    fn gen(g: &mut Gen, d: u32) -> V {
        V::Seq(vec![Named::gen(g, d + 1), <Vec<TupS>>::gen(g, d + 1), <BTreeMap<u8, Gen2<u8, bool>>>::gen(g, d + 1), <(CompressedUnchecked<Ml>, [Ml; 2])>::gen(g, d + 1)])
    }
    fn build(v: &V) -> Self { let s = seq(v); Deep { inner: Tv::build(&s[0]), v: Tv::build(&s[1]), m: Tv::build(&s[2]), w: Tv::build(&s[3]) } }
    fn show(&self) -> V { V::Seq(vec![self.inner.show(), self.v.show(), self.m.show(), self.w.show()]) }
    fn scan(r: &mut &[u8], c: Compress) -> Result<(), bool> { <(Named, Vec<TupS>, BTreeMap<u8, Gen2<u8, bool>>, (CompressedUnchecked<Ml>, [Ml; 2]))>::scan(r, c) }
}

// ------------------------------------------------------------------ prime fields, extensions, BigInt
/// F_401: 400 = 2^4 · 5^2 (toy field with a mixed-radix domain)
#[derive(MontConfig)]
#[modulus = "401"]
#[generator = "3"]
#[small_subgroup_base = "5"]
#[small_subgroup_power = "2"]
pub struct C401;
pub type M401 = Fp<MontBackend<C401, 1>, 1>;

fn is_zero_v(v: &V) -> bool {
    match v { V::Big(b) => b.bits() == 0, V::I(i) => *i == 0, V::Seq(xs) => xs.iter().all(is_zero_v), _ => false }
}
fn v_usize(v: &V) -> usize { match v { V::I(i) => *i as usize, V::Big(b) => b.iter_u64_digits().next().unwrap_or(0) as usize, _ => panic!("harness: usize") } }
impl<P: FpConfig<N>, const N: usize> Tv for Fp<P, N> {
    fn ty() -> String { "fp".into() }
    fn gen(g: &mut Gen, _d: u32) -> V {
        let p: BigUint = Self::MODULUS.into();
        let b = match g.rng.below(9) {
            0 => BigUint::from(0u8), 1 => BigUint::from(1u8), 2 => &p - 1u8, 3 => BigUint::from(2u8) % &p, 4 => (&p - 1u8) / 2u8,
            _ => { let n = (Self::MODULUS_BIT_SIZE as usize + 7) / 8 + 8; BigUint::from_bytes_le(&(0..n).map(|_| g.rng.next() as u8).collect::<Vec<_>>()) % &p },
        };
        V::Big(b)
    }
    fn build(v: &V) -> Self { match v { V::Big(b) => Self::from(b.clone()), V::I(i) => Self::from(BigUint::from(*i as u128)), _ => panic!("harness: fp") } }
    fn show(&self) -> V { V::Big(self.into_bigint().into()) }
    fn scan(r: &mut &[u8], _c: Compress) -> Result<(), bool> { take(r, (Self::MODULUS_BIT_SIZE as usize + 7) / 8)?; Ok(()) }
}
impl<P: QuadExtConfig> Tv for QuadExtField<P> where P::BaseField: Tv {
    fn ty() -> String { format!("tup({},{})", P::BaseField::ty(), P::BaseField::ty()) }
    fn gen(g: &mut Gen, d: u32) -> V { V::Seq(vec![P::BaseField::gen(g, d + 1), P::BaseField::gen(g, d + 1)]) }
    fn build(v: &V) -> Self { let s = seq(v); QuadExtField::new(Tv::build(&s[0]), Tv::build(&s[1])) }
    fn show(&self) -> V { V::Seq(vec![self.c0.show(), self.c1.show()]) }
    fn scan(r: &mut &[u8], c: Compress) -> Result<(), bool> { P::BaseField::scan(r, c)?; P::BaseField::scan(r, c) }
}
impl<P: CubicExtConfig> Tv for CubicExtField<P> where P::BaseField: Tv {
    fn ty() -> String { format!("tup({},{},{})", P::BaseField::ty(), P::BaseField::ty(), P::BaseField::ty()) }
    fn gen(g: &mut Gen, d: u32) -> V { V::Seq((0..3).map(|_| P::BaseField::gen(g, d + 1)).collect()) }
    fn build(v: &V) -> Self { let s = seq(v); CubicExtField::new(Tv::build(&s[0]), Tv::build(&s[1]), Tv::build(&s[2])) }
    fn show(&self) -> V { V::Seq(vec![self.c0.show(), self.c1.show(), self.c2.show()]) }
    fn scan(r: &mut &[u8], c: Compress) -> Result<(), bool> { for _ in 0..3 { P::BaseField::scan(r, c)?; } Ok(()) }
}
/// `BigInt<N>`: (de)serialised through its limb array `[u64; N]`
impl<const N: usize> Tv for BigInt<N> {
    fn ty() -> String { <[u64; N]>::ty() }
    fn gen(g: &mut Gen, d: u32) -> V { <[u64; N]>::gen(g, d) }
    fn build(v: &V) -> Self { BigInt(<[u64; N]>::build(v)) }
    fn show(&self) -> V { self.0.show() }
    fn scan(r: &mut &[u8], c: Compress) -> Result<(), bool> { <[u64; N]>::scan(r, c) }
}

// ------------------------------------------------------------------ ark-poly types
impl<F: Tv + Field> Tv for DensePolynomial<F> {
    fn ty() -> String { format!("st({})", <Vec<F>>::ty()) }
    fn gen(g: &mut Gen, d: u32) -> V {
        let mut c = seq(&<Vec<F>>::gen(g, d)).clone();
        while c.last().map(is_zero_v).unwrap_or(false) { c.pop(); }
        V::Seq(vec![V::Seq(c)])
    }
    fn build(v: &V) -> Self { DensePolynomial { coeffs: Tv::build(&seq(v)[0]) } }
    fn show(&self) -> V { V::Seq(vec![self.coeffs.show()]) }
    fn scan(r: &mut &[u8], c: Compress) -> Result<(), bool> { <Vec<F>>::scan(r, c) }
}
/// strictly increasing indices below `bound`
fn gen_indices(g: &mut Gen, n: usize, bound: u128) -> Vec<usize> {
    let mut out = Vec::new();
    let mut cur: u128 = match g.rng.below(3) { 0 => 0, 1 => g.rng.below(4) as u128, _ => g.rng.below(1000) as u128 };
    for _ in 0..n {
        if cur >= bound { break; }
        out.push(cur as usize);
        cur += 1 + match g.rng.below(6) { 0 | 1 | 2 => 0, 3 => g.rng.below(5) as u128, 4 => g.rng.below(1 << 20) as u128, _ => (g.rng.next() >> 3) as u128 };
    }
    out
}
fn gen_nonzero<F: Tv>(g: &mut Gen, d: u32) -> V { loop { let v = F::gen(g, d); if !is_zero_v(&v) { return v; } } }
impl<F: Tv + Field> Tv for UvSparse<F> {
    fn ty() -> String { format!("st({})", <Vec<(usize, F)>>::ty()) }
    fn gen(g: &mut Gen, d: u32) -> V {
        let n = g.len(d);
        let idx = gen_indices(g, n, 1u128 << 64);
        V::Seq(vec![V::Seq(idx.into_iter().map(|i| V::Seq(vec![V::I(i as i128), gen_nonzero::<F>(g, d + 2)])).collect())])
    }
    fn build(v: &V) -> Self { UvSparse::from_coefficients_vec(Tv::build(&seq(v)[0])) }
    fn show(&self) -> V { V::Seq(vec![self.to_vec().show()]) }
    fn scan(r: &mut &[u8], c: Compress) -> Result<(), bool> { <Vec<(usize, F)>>::scan(r, c) }
}
impl Tv for SparseTerm {
    fn ty() -> String { format!("st({})", <Vec<(usize, usize)>>::ty()) }
    fn gen(g: &mut Gen, d: u32) -> V {
        let n = g.len(d + 1).min(4);
        let idx = gen_indices(g, n, 6);
        V::Seq(vec![V::Seq(idx.into_iter().map(|i| { let hi = if g.rng.below(4) == 0 { 1 << 40 } else { 5 }; V::Seq(vec![V::I(i as i128), V::I(1 + g.rng.below(hi) as i128)]) }).collect())])
    }
    fn build(v: &V) -> Self { SparseTerm::new(Tv::build(&seq(v)[0])) }
    fn show(&self) -> V { V::Seq(vec![self.to_vec().show()]) }
    fn scan(r: &mut &[u8], c: Compress) -> Result<(), bool> { <Vec<(usize, usize)>>::scan(r, c) }
}
impl<F: Tv + Field> Tv for MvSparse<F, SparseTerm> {
    fn ty() -> String { format!("st(usize,{})", <Vec<(F, SparseTerm)>>::ty()) }
    fn gen(g: &mut Gen, d: u32) -> V {
        let n = g.len(d);
        let mut terms: Vec<V> = Vec::new();
        for _ in 0..n { terms.push(V::Seq(vec![gen_nonzero::<F>(g, d + 2), SparseTerm::gen(g, d + 2)])); }
        V::Seq(vec![V::I(6 + g.rng.below(3) as i128), V::Seq(terms)])
    }
    /// through the constructor: terms sorted, equal terms added up, zero coefficients dropped
    fn build(v: &V) -> Self { let s = seq(v); MvSparse::from_coefficients_vec(v_usize(&s[0]), Tv::build(&s[1])) }
    fn show(&self) -> V { V::Seq(vec![V::I(self.num_vars as i128), self.terms.show()]) }
    fn scan(r: &mut &[u8], c: Compress) -> Result<(), bool> { <(usize, Vec<(F, SparseTerm)>)>::scan(r, c) }
}
impl<F: Tv + Field> Tv for DenseMultilinearExtension<F> {
    fn ty() -> String { format!("st({},usize)", <Vec<F>>::ty()) }
    fn gen(g: &mut Gen, d: u32) -> V {
        let nv = match g.top.take() { Some(0) => 0, Some(1) => 1, Some(_) => 5, None => g.rng.below(5) as usize };
        V::Seq(vec![V::Seq((0..(1usize << nv)).map(|_| F::gen(g, d + 2)).collect()), V::I(nv as i128)])
    }
    fn build(v: &V) -> Self { let s = seq(v); DenseMultilinearExtension { evaluations: Tv::build(&s[0]), num_vars: v_usize(&s[1]) } }
    fn show(&self) -> V { V::Seq(vec![self.evaluations.show(), V::I(self.num_vars as i128)]) }
    fn scan(r: &mut &[u8], c: Compress) -> Result<(), bool> { <(Vec<F>, usize)>::scan(r, c) }
}
impl<F: Tv + Field> Tv for SparseMultilinearExtension<F> {
    fn ty() -> String { format!("st({},usize,{})", <BTreeMap<usize, F>>::ty(), F::ty()) }
    fn gen(g: &mut Gen, d: u32) -> V {
        let nv = match g.rng.below(6) { 0 => 0, 1 => 1, 2 => 63, _ => 2 + g.rng.below(8) as usize };
        let n = g.len(d);
        let idx = gen_indices(g, n, 1u128 << nv);
        let es: Vec<V> = idx.into_iter().map(|i| V::Seq(vec![V::I(i as i128), F::gen(g, d + 2)])).collect();
        V::Seq(vec![V::Seq(es), V::I(nv as i128), F::zero().show()])
    }
    /// through the constructor (the field `zero` is private)
    fn build(v: &V) -> Self {
        let s = seq(v);
        let es: Vec<(usize, F)> = seq(&s[0]).iter().map(|e| { let e = seq(e); (v_usize(&e[0]), F::build(&e[1])) }).collect();
        SparseMultilinearExtension::from_evaluations(v_usize(&s[1]), es.iter())
    }
    /// `zero` is observed through `Index` at an absent key
    fn show(&self) -> V {
        let mut k = 0usize;
        while self.evaluations.contains_key(&k) { k += 1; }
        V::Seq(vec![self.evaluations.show(), V::I(self.num_vars as i128), self[k].show()])
    }
    fn scan(r: &mut &[u8], c: Compress) -> Result<(), bool> { <(BTreeMap<usize, F>, usize, F)>::scan(r, c) }
}
macro_rules! tv_domain {
    ($D:ident) => {
        impl<F: Tv + FftField> Tv for $D<F> {
            fn ty() -> String { format!("st(u64,u32,{})", vec![F::ty(); 7].join(",")) }
            fn gen(g: &mut Gen, _d: u32) -> V {
                let top = g.top.take();
                let base = loop {
                    let hi = if g.rng.below(3) == 0 { 70 } else { 9 };
                    let n = match top { Some(0) => 1, Some(1) => 2, _ => 1 + g.rng.below(hi) as usize };
                    if let Some(dm) = <$D<F> as EvaluationDomain<F>>::new(n) { break dm; }
                    if top.is_some() { break <$D<F> as EvaluationDomain<F>>::new(1).unwrap(); }
                };
                let dm = if g.rng.below(2) == 0 { base } else { base.get_coset(F::build(&gen_nonzero::<F>(g, 2))).unwrap() };
                dm.show()
            }
            fn build(v: &V) -> Self {
                let s = seq(v);
                $D { size: v_usize(&s[0]) as u64, log_size_of_group: v_usize(&s[1]) as u32, size_as_field_element: Tv::build(&s[2]), size_inv: Tv::build(&s[3]),
                     group_gen: Tv::build(&s[4]), group_gen_inv: Tv::build(&s[5]), offset: Tv::build(&s[6]), offset_inv: Tv::build(&s[7]), offset_pow_size: Tv::build(&s[8]) }
            }
            fn show(&self) -> V {
                V::Seq(vec![V::I(self.size as i128), V::I(self.log_size_of_group as i128), self.size_as_field_element.show(), self.size_inv.show(),
                            self.group_gen.show(), self.group_gen_inv.show(), self.offset.show(), self.offset_inv.show(), self.offset_pow_size.show()])
            }
            fn scan(r: &mut &[u8], c: Compress) -> Result<(), bool> { <(u64, u32)>::scan(r, c)?; for _ in 0..7 { F::scan(r, c)?; } Ok(()) }
        }
    };
}
tv_domain!(Radix2EvaluationDomain);
tv_domain!(MixedRadixEvaluationDomain);
impl<F: Tv + FftField> Tv for GeneralEvaluationDomain<F> {
    fn ty() -> String { format!("gdom({},{})", <Radix2EvaluationDomain<F>>::ty(), <MixedRadixEvaluationDomain<F>>::ty()) }
    fn gen(g: &mut Gen, d: u32) -> V {
        if F::SMALL_SUBGROUP_BASE.is_some() && g.rng.below(2) == 0 { V::Seq(vec![V::I(1), <MixedRadixEvaluationDomain<F>>::gen(g, d)]) }
        else { V::Seq(vec![V::I(0), <Radix2EvaluationDomain<F>>::gen(g, d)]) }
    }
    fn build(v: &V) -> Self {
        let s = seq(v);
        if v_usize(&s[0]) == 0 { GeneralEvaluationDomain::Radix2(Tv::build(&s[1])) } else { GeneralEvaluationDomain::MixedRadix(Tv::build(&s[1])) }
    }
    fn show(&self) -> V {
        match self { GeneralEvaluationDomain::Radix2(d) => V::Seq(vec![V::I(0), d.show()]), GeneralEvaluationDomain::MixedRadix(d) => V::Seq(vec![V::I(1), d.show()]) }
    }
    fn scan(r: &mut &[u8], c: Compress) -> Result<(), bool> {
        match take(r, 1)?[0] { 0 => <Radix2EvaluationDomain<F>>::scan(r, c), 1 => <MixedRadixEvaluationDomain<F>>::scan(r, c), _ => Err(false) }
    }
}
/// `size` of a domain value in the `show` form (plain or behind the `GeneralEvaluationDomain` tag)
fn dom_size(v: &V) -> usize { let s = seq(v); if s.len() == 2 { v_usize(&seq(&s[1])[0]) } else { v_usize(&s[0]) } }
impl<F: Tv + FftField, D: Tv + EvaluationDomain<F>> Tv for Evaluations<F, D> {
    fn ty() -> String { format!("st({},{})", <Vec<F>>::ty(), D::ty()) }
    fn gen(g: &mut Gen, d: u32) -> V {
        let dm = D::gen(g, d);
        let n = dom_size(&dm);
        V::Seq(vec![V::Seq((0..n).map(|_| F::gen(g, d + 2)).collect()), dm])
    }
    fn build(v: &V) -> Self { let s = seq(v); Evaluations::from_vec_and_domain(Tv::build(&s[0]), Tv::build(&s[1])) }
    fn show(&self) -> V { V::Seq(vec![self.evals.show(), self.domain().show()]) }
    fn scan(r: &mut &[u8], c: Compress) -> Result<(), bool> { <Vec<F>>::scan(r, c)?; D::scan(r, c) }
}

// ------------------------------------------------------------------ registry
type SerFn = fn(&V, Compress) -> (Vec<u8>, usize);
type DeFn = fn(&[u8], Compress, Validate) -> String;
type RiskFn = fn(&[u8], Compress) -> bool;
fn risk_fn<T: Tv>(b: &[u8], c: Compress) -> bool { let mut r = b; T::scan(&mut r, c) == Err(true) }
/// the additional entry points of a type that has `CanonicalSerialize + CanonicalDeserialize (+ Valid)`
#[derive(Clone, Copy)]
struct Ops {
    chk: fn(&V) -> String,
    bchk: fn(&[V]) -> String,
    hash: fn(&V, Compress) -> String,
    cser: fn(&V) -> String,
    cde: fn(&[u8], Compress, Validate) -> String,
    wfail: fn(&V, Compress, usize, bool) -> String,
    rfail: fn(&[u8], Compress, Validate, usize, usize, bool) -> String,
    norm: fn(&V) -> V,
}
struct Entry { ty: String, zw: bool, big: usize, ser: SerFn, de: Option<DeFn>, risk: RiskFn, gen: fn(&mut Gen, u32) -> V, ops: Option<Ops>, poly: bool, light: bool }

fn res_unit(r: Result<(), SerializationError>) -> String { match r { Ok(()) => "ok".into(), Err(e) => err_class(&e).into() } }
fn chk_fn<T: Tv + Valid>(v: &V) -> String { guarded(|| res_unit(T::build(v).check())) }
fn bchk_fn<T: Tv + Valid>(vs: &[V]) -> String {
    guarded(|| { let xs: Vec<T> = vs.iter().map(T::build).collect(); res_unit(T::batch_check(xs.iter())) })
}
fn hash_fn<T: Tv + CanonicalSerialize>(v: &V, c: Compress) -> String {
    guarded(|| { let x = T::build(v); let h = match c { Compress::Yes => x.hash::<Sha256>(), Compress::No => x.hash_uncompressed::<Sha256>() }; hexs(&h) })
}
fn cser_fn<T: Tv + CanonicalSerialize>(v: &V) -> String {
    guarded(|| {
        let x = T::build(v);
        let (mut a, mut b) = (Vec::new(), Vec::new());
        if let Err(e) = x.serialize_compressed(&mut a) { return err_class(&e).into(); }
        if let Err(e) = x.serialize_uncompressed(&mut b) { return err_class(&e).into(); }
        format!("{} {:x} {} {:x}", hexs(&a), x.compressed_size(), hexs(&b), x.uncompressed_size())
    })
}
fn de_result<T: Tv>(r: Result<T, SerializationError>, consumed: usize) -> String {
    match r {
        Ok(x) => {
            let h = x.huge();
            let s = if h > 0 { format!("ok-huge {:x} {:x}", h, consumed) } else { format!("ok {} {:x}", showv(&x.show()), consumed) };
            if h > 0 { std::mem::forget(x); }
            s
        },
        Err(e) => err_class(&e).into(),
    }
}
/// the four convenience methods of `CanonicalDeserialize`
fn cde_fn<T: Tv + CanonicalDeserialize>(bytes: &[u8], c: Compress, v: Validate) -> String {
    guarded(|| {
        let mut r = &bytes[..];
        let res = match (c, v) {
            (Compress::Yes, Validate::Yes) => T::deserialize_compressed(&mut r),
            (Compress::Yes, Validate::No) => T::deserialize_compressed_unchecked(&mut r),
            (Compress::No, Validate::Yes) => T::deserialize_uncompressed(&mut r),
            (Compress::No, Validate::No) => T::deserialize_uncompressed_unchecked(&mut r),
        };
        let consumed = bytes.len() - r.len();
        de_result(res, consumed)
    })
}
/// a writer that accepts `cap` bytes in total (partial writes), then fails: with an error, or with `Ok(0)`
struct FailW { buf: Vec<u8>, cap: usize, zero: bool }
impl std::io::Write for FailW {
    fn write(&mut self, b: &[u8]) -> std::io::Result<usize> {
        let room = self.cap - self.buf.len();
        if room == 0 && !b.is_empty() {
            return if self.zero { Ok(0) } else { Err(std::io::Error::new(std::io::ErrorKind::Other, "writer full")) };
        }
        let n = room.min(b.len());
        self.buf.extend_from_slice(&b[..n]);
        Ok(n)
    }
    fn flush(&mut self) -> std::io::Result<()> { Ok(()) }
}
fn wfail_fn<T: Tv + CanonicalSerialize>(v: &V, c: Compress, k: usize, zero: bool) -> String {
    guarded(|| {
        let x = T::build(v);
        let mut w = FailW { buf: Vec::new(), cap: k, zero };
        match x.serialize_with_mode(&mut w, c) { Ok(()) => format!("ok {}", hexs(&w.buf)), Err(e) => format!("{} {}", err_class(&e), hexs(&w.buf)) }
    })
}
/// a reader over `data[..limit]` handing out at most `chunk` bytes per call; at `limit` it fails with an error
/// (or reports end of input when `limit == data.len()`); `interrupt`: every other call returns `Interrupted`
struct FailR<'a> { data: &'a [u8], pos: usize, limit: usize, chunk: usize, interrupt: bool, flip: bool }
impl<'a> std::io::Read for FailR<'a> {
    fn read(&mut self, buf: &mut [u8]) -> std::io::Result<usize> {
        if self.interrupt { self.flip = !self.flip; if self.flip { return Err(std::io::Error::new(std::io::ErrorKind::Interrupted, "again")); } }
        if buf.is_empty() { return Ok(0); }
        if self.pos >= self.limit {
            return if self.limit >= self.data.len() { Ok(0) } else { Err(std::io::Error::new(std::io::ErrorKind::Other, "reader broke")) };
        }
        let n = buf.len().min(self.chunk).min(self.limit - self.pos);
        buf[..n].copy_from_slice(&self.data[self.pos..self.pos + n]);
        self.pos += n;
        Ok(n)
    }
}
fn rfail_fn<T: Tv + CanonicalDeserialize>(bytes: &[u8], c: Compress, v: Validate, k: usize, chunk: usize, interrupt: bool) -> String {
    guarded(|| {
        let mut r = FailR { data: bytes, pos: 0, limit: k.min(bytes.len()), chunk: chunk.max(1), interrupt, flip: false };
        let res = T::deserialize_with_mode(&mut r, c, v);
        let consumed = r.pos;
        de_result(res, consumed)
    })
}
fn norm_fn<T: Tv>(v: &V) -> V { T::build(v).show() }
fn ops_of<T: Tv + CanonicalSerialize + CanonicalDeserialize>() -> Ops {
    Ops { chk: chk_fn::<T>, bchk: bchk_fn::<T>, hash: hash_fn::<T>, cser: cser_fn::<T>, cde: cde_fn::<T>, wfail: wfail_fn::<T>, rfail: rfail_fn::<T>, norm: norm_fn::<T> }
}

fn ser_fn<T: Tv + CanonicalSerialize>(v: &V, c: Compress) -> (Vec<u8>, usize) {
    let x = T::build(v);
    let mut b = Vec::new();
    x.serialize_with_mode(&mut b, c).unwrap();
    (b, x.serialized_size(c))
}
/// `&T` and `&mut T`
fn ser_ref<T: Tv + CanonicalSerialize>(v: &V, c: Compress) -> (Vec<u8>, usize) {
    let x = T::build(v);
    let r: &T = &x;
    let mut b = Vec::new();
    CanonicalSerialize::serialize_with_mode(&r, &mut b, c).unwrap();
    (b, CanonicalSerialize::serialized_size(&r, c))
}
fn ser_mut<T: Tv + CanonicalSerialize>(v: &V, c: Compress) -> (Vec<u8>, usize) {
    let mut x = T::build(v);
    let r: &mut T = &mut x;
    let mut b = Vec::new();
    CanonicalSerialize::serialize_with_mode(&r, &mut b, c).unwrap();
    (b, CanonicalSerialize::serialized_size(&r, c))
}
/// `&[T]` (and `[T]` underneath)
fn ser_slice<T: Tv + CanonicalSerialize>(v: &V, c: Compress) -> (Vec<u8>, usize) {
    let x = <Vec<T>>::build(v);
    let r: &[T] = &x[..];
    let mut b = Vec::new();
    CanonicalSerialize::serialize_with_mode(&r, &mut b, c).unwrap();
    (b, CanonicalSerialize::serialized_size(&r, c))
}
fn err_class(e: &SerializationError) -> &'static str {
    match e {
        SerializationError::NotEnoughSpace => "err:notenough",
        SerializationError::InvalidData => "err:invalid",
        SerializationError::UnexpectedFlags => "err:flags",
        SerializationError::IoError(_) => "err:io",
    }
}
fn de_fn<T: Tv + CanonicalDeserialize>(bytes: &[u8], c: Compress, v: Validate) -> String {
    guarded(|| {
        let mut r = &bytes[..];
        match T::deserialize_with_mode(&mut r, c, v) {
            Ok(x) => {
                let consumed = bytes.len() - r.len();
                let h = x.huge();
                let s = if h > 0 { format!("ok-huge {:x} {:x}", h, consumed) } else { format!("ok {} {:x}", showv(&x.show()), consumed) };
                if h > 0 { std::mem::forget(x); } // dropping a huge list would outlast the watchdog
                s
            },
            Err(e) => err_class(&e).into(),
        }
    })
}
fn big_of(ty: &str) -> usize { if ty.matches('(').count() <= 1 { 200 } else { 24 } }
fn entry<T: Tv + CanonicalSerialize + CanonicalDeserialize>() -> Entry {
    let ty = T::ty();
    Entry { big: big_of(&ty), ty, zw: false, ser: ser_fn::<T>, de: Some(de_fn::<T>), risk: risk_fn::<T>, gen: T::gen, ops: Some(ops_of::<T>()), poly: false, light: false }
}
/// a type of `ark-poly` (or a container of such) over the prime field `F`: type token `P<p>.<kind>.<ty>`
fn pentry<T: Tv + CanonicalSerialize + CanonicalDeserialize, F: PrimeField>(kind: &str) -> Entry {
    let mut e = entry::<T>();
    let p: BigUint = F::MODULUS.into();
    e.ty = format!("P{:x}.{}.{}", p, kind, T::ty());
    e.poly = true;
    e
}
fn entry_zw<T: Tv + CanonicalSerialize + CanonicalDeserialize>() -> Entry { let mut e = entry::<T>(); e.zw = true; e }
fn entry_ser<T: Tv + CanonicalSerialize>() -> Entry {
    let ty = T::ty();
    Entry { big: big_of(&ty), ty, zw: false, ser: ser_fn::<T>, de: None, risk: risk_fn::<T>, gen: T::gen, ops: None, poly: false, light: false }
}
fn entry_custom<T: Tv>(name: &str, ser: SerFn) -> Entry {
    let ty = format!("{}({})", name, T::ty());
    Entry { big: big_of(&ty), ty, zw: false, ser, de: None, risk: risk_fn::<T>, gen: T::gen, ops: None, poly: false, light: false }
}

macro_rules! reg { ($v:ident; $($t:ty),* $(,)?) => { $( $v.push(entry::<$t>()); )* } }

fn registry() -> Vec<Entry> {
    let mut r: Vec<Entry> = Vec::new();
    // leaves
    reg!(r; u8, u16, u32, u64, usize, i8, i16, i32, i64, isize, bool, (), PhantomData<u64>, String, BigUint, Ml);
    // one level
    reg!(r; Option<u8>, Option<bool>, Option<String>, Option<Ml>, Option<()>,
        (u8,), (u8, u16), (i8, bool, u32), (u64, String, bool, i16), (u8, u16, u32, u64, bool), (Ml, bool, Ml),
        [u8; 0], [u8; 1], [u16; 3], [i64; 4], [bool; 33], [Ml; 2], [String; 2],
        Vec<u8>, Vec<u16>, Vec<u64>, Vec<i32>, Vec<bool>, Vec<String>, Vec<Ml>, Vec<BigUint>, Vec<usize>,
        VecDeque<u8>, VecDeque<u16>, VecDeque<bool>, VecDeque<Ml>, VecDeque<String>,
        LinkedList<u8>, LinkedList<u32>, LinkedList<Ml>, LinkedList<String>,
        BTreeMap<u8, u8>, BTreeMap<String, u64>, BTreeMap<u16, Ml>, BTreeMap<Ml, bool>, BTreeMap<i8, String>, BTreeMap<bool, ()>,
        BTreeSet<u8>, BTreeSet<String>, BTreeSet<i16>, BTreeSet<Ml>, BTreeSet<bool>, BTreeSet<BigUint>,
        Arc<u64>, Arc<Vec<u8>>, Arc<String>, Cow<'static, u32>, Cow<'static, Vec<u16>>, Cow<'static, String>, Cow<'static, Ml>,
        CompressedChecked<Ml>, CompressedUnchecked<Ml>, UncompressedChecked<Ml>, UncompressedUnchecked<Ml>,
        CompressedChecked<u32>, UncompressedUnchecked<String>);
    // mode threading through containers and wrappers
    reg!(r; CompressedChecked<Vec<Ml>>, UncompressedUnchecked<Vec<Ml>>, Vec<CompressedUnchecked<Ml>>, Vec<UncompressedChecked<Ml>>,
        [CompressedUnchecked<Ml>; 2], (CompressedUnchecked<Ml>, Ml), (UncompressedChecked<Ml>, CompressedChecked<Ml>, Ml),
        UncompressedUnchecked<CompressedChecked<Ml>>, CompressedChecked<UncompressedUnchecked<Ml>>,
        Option<CompressedUnchecked<Ml>>, BTreeMap<u8, UncompressedUnchecked<Ml>>, BTreeSet<CompressedUnchecked<Ml>>,
        LinkedList<UncompressedUnchecked<Ml>>, VecDeque<CompressedChecked<Ml>>, Arc<Ml>, Vec<Option<Ml>>, Vec<(u8, Ml)>, [Option<Ml>; 3],
        Option<Vec<Ml>>, Vec<Vec<Ml>>, BTreeMap<Ml, Vec<Ml>>);
    // nesting
    reg!(r; Vec<Vec<u8>>, Vec<Option<u16>>, Option<Vec<u8>>, Option<Option<bool>>, Vec<(u8, String)>, Vec<[u8; 3]>, [Vec<u8>; 2],
        BTreeMap<u8, Vec<u16>>, BTreeMap<(u8, bool), BTreeSet<u8>>, BTreeMap<Vec<u8>, String>, BTreeMap<BigUint, u8>, BTreeMap<Option<u8>, Option<String>>,
        BTreeSet<Vec<u8>>, BTreeSet<Option<u8>>, BTreeSet<(u8, i8)>, BTreeSet<BTreeSet<u8>>, BTreeSet<[u8; 2]>, BTreeMap<String, BTreeMap<u8, bool>>,
        VecDeque<Vec<bool>>, LinkedList<Option<Vec<u8>>>, Vec<VecDeque<u16>>, Vec<LinkedList<u8>>, Vec<BTreeSet<u8>>,
        Vec<Vec<Vec<u8>>>, Vec<BTreeMap<u8, Vec<Option<Ml>>>>, Option<(Vec<u8>, BTreeMap<u8, String>)>,
        Arc<Vec<Arc<String>>>, Cow<'static, Vec<Cow<'static, u8>>>, (BigUint, String, Vec<bool>), ((u8, (u16,)), ((), bool)),
        Vec<(Option<u8>, [bool; 2], String)>, BTreeMap<u8, (Vec<u8>, Option<BTreeSet<i8>>)>);
    // derive macro output
    reg!(r; Named, TupS, Nested, Gen1<u16>, Gen1<Ml>, Gen1<Vec<u8>>, Gen2<u8, bool>, Gen2<String, Option<Ml>>, Gen2<(u8, u8), Named>, UnitS, EmptyS, Deep,
        Vec<Named>, Vec<TupS>, Option<Nested>, BTreeMap<TupS, Named>, BTreeSet<Gen2<u8, bool>>, [TupS; 2], CompressedChecked<Deep>, UncompressedUnchecked<Gen1<Ml>>);
    // containers of zero-width elements (restricted malformed streams)
    r.push(entry_zw::<Vec<()>>());
    r.push(entry_zw::<VecDeque<PhantomData<u8>>>());
    r.push(entry_zw::<LinkedList<()>>());
    r.push(entry_zw::<BTreeSet<()>>());
    r.push(entry_zw::<Vec<[u8; 0]>>());
    r.push(entry_zw::<Vec<UnitS>>());
    r.push(entry_zw::<BTreeMap<(), ()>>());
    r.push(entry_zw::<Vec<Vec<()>>>());
    // serialise-only wrappers
    r.push(entry_ser::<Rc<u64>>());
    r.push(entry_ser::<Rc<Vec<Ml>>>());
    r.push(entry_ser::<Rc<String>>());
    r.push(entry_ser::<Vec<Rc<u8>>>());
    r.push(entry_custom::<u64>("ref", ser_ref::<u64>));
    r.push(entry_custom::<Vec<Ml>>("ref", ser_ref::<Vec<Ml>>));
    r.push(entry_custom::<BTreeMap<u8, String>>("ref", ser_ref::<BTreeMap<u8, String>>));
    r.push(entry_custom::<String>("mut", ser_mut::<String>));
    r.push(entry_custom::<(u8, Ml)>("mut", ser_mut::<(u8, Ml)>));
    r.push(entry_custom::<u8>("slice", ser_slice::<u8>));
    r.push(entry_custom::<Ml>("slice", ser_slice::<Ml>));
    r.push(entry_custom::<String>("slice", ser_slice::<String>));
    r.push(entry_custom::<Vec<u8>>("slice", ser_slice::<Vec<u8>>));
    let n_main = r.len();
    // ---- appended (indices of the entries above are unchanged)
    // `BigInt<N>` goes through `[u64; N]`; more `Valid` impls called directly (`chk` / `bchk` lines)
    reg!(r; BigInt<1>, BigInt<4>, BigInt<6>, Vec<BigInt<2>>, Option<BigInt<3>>,
        Vec<[Ml; 2]>, VecDeque<[Ml; 2]>, LinkedList<[Ml; 2]>, BTreeSet<[Ml; 2]>, [[Ml; 2]; 2], Vec<VecDeque<Ml>>, Vec<LinkedList<Ml>>, Vec<BTreeSet<Ml>>,
        Vec<BTreeMap<Ml, Ml>>, BTreeMap<Ml, Ml>, Arc<Vec<Ml>>, Vec<Arc<Ml>>, Cow<'static, Vec<Ml>>, Vec<Cow<'static, Ml>>, Option<Arc<Ml>>,
        (Ml, Ml, Ml, Ml, Ml), Vec<(Ml, u8)>, Vec<isize>, Option<isize>, Gen1<Option<Ml>>, Vec<Gen2<Ml, Ml>>, Vec<Deep>);
    // (their container code is exercised by the entries above: fewer values in the quick tier)
    for e in r[n_main..].iter_mut() { e.light = true; }
    poly_registry(&mut r);
    r
}
fn ptoken<T: Tv, F: PrimeField>(kind: &str) -> String { let p: BigUint = F::MODULUS.into(); format!("P{:x}.{}.{}", p, kind, T::ty()) }
type BlsFr = ark_test_curves::bls12_381::Fr;
type BlsFq = ark_test_curves::bls12_381::Fq;
type BlsFq2 = ark_test_curves::bls12_381::Fq2;
type BlsFq6 = ark_test_curves::bls12_381::Fq6;
type BnFr = ark_test_curves::bn384_small_two_adicity::Fr;
type Mnt6Fq3 = ark_test_curves::mnt6_753::Fq3;
type Mnt6Fq = ark_test_curves::mnt6_753::Fq;
fn poly_registry(r: &mut Vec<Entry>) {
    macro_rules! suite {
        ($F:ty) => {
            r.push(pentry::<$F, $F>("fp"));
            r.push(pentry::<DensePolynomial<$F>, $F>("dense"));
            r.push(pentry::<UvSparse<$F>, $F>("sparse"));
            r.push(pentry::<MvSparse<$F, SparseTerm>, $F>("mvsparse"));
            r.push(pentry::<DenseMultilinearExtension<$F>, $F>("dext"));
            r.push(pentry::<SparseMultilinearExtension<$F>, $F>("sext"));
            r.push(pentry::<Radix2EvaluationDomain<$F>, $F>("r2dom"));
            r.push(pentry::<GeneralEvaluationDomain<$F>, $F>("gdom"));
            r.push(pentry::<Evaluations<$F, Radix2EvaluationDomain<$F>>, $F>("evals"));
            r.push(pentry::<Evaluations<$F>, $F>("evals"));
        };
    }
    suite!(FDT257);
    suite!(M401);
    r.push(pentry::<MixedRadixEvaluationDomain<M401>, M401>("mrdom"));
    r.push(pentry::<Evaluations<M401, MixedRadixEvaluationDomain<M401>>, M401>("evals"));
    suite!(BlsFr);
    r.push(pentry::<MixedRadixEvaluationDomain<BnFr>, BnFr>("mrdom"));
    r.push(pentry::<GeneralEvaluationDomain<BnFr>, BnFr>("gdom"));
    r.push(pentry::<Evaluations<BnFr>, BnFr>("evals"));
    r.push(pentry::<SparseTerm, FDT13>("term"));
    // 8-byte encodings: 61 bits (three spare bits), 64 bits (none)
    r.push(pentry::<FDM61, FDM61>("fp"));
    r.push(pentry::<DensePolynomial<FDM61>, FDM61>("dense"));
    r.push(pentry::<FDP64m59, FDP64m59>("fp"));
    r.push(pentry::<UvSparse<FDP64m59>, FDP64m59>("sparse"));
    r.push(pentry::<DenseMultilinearExtension<FDP64m59>, FDP64m59>("dext"));
    // extension fields as coefficient rings (coordinates in order, no flags), towers
    r.push(pentry::<BlsFq2, BlsFq>("-"));
    r.push(pentry::<BlsFq6, BlsFq>("-"));
    r.push(pentry::<Mnt6Fq3, Mnt6Fq>("-"));
    r.push(pentry::<DensePolynomial<BlsFq2>, BlsFq>("dense"));
    r.push(pentry::<MvSparse<BlsFq2, SparseTerm>, BlsFq>("mvsparse"));
    r.push(pentry::<SparseMultilinearExtension<Mnt6Fq3>, Mnt6Fq>("sext"));
    // containers of them
    r.push(pentry::<Vec<DensePolynomial<FDT257>>, FDT257>("-"));
    r.push(pentry::<Option<Evaluations<FDT257>>, FDT257>("-"));
    r.push(pentry::<(DensePolynomial<M401>, UvSparse<M401>, GeneralEvaluationDomain<M401>), M401>("-"));
    r.push(pentry::<BTreeMap<u8, DenseMultilinearExtension<FDT257>>, FDT257>("-"));
    r.push(pentry::<Vec<FDT257>, FDT257>("-"));
    r.push(pentry::<[BlsFr; 2], BlsFr>("-"));
    r.push(pentry::<Arc<DensePolynomial<BlsFr>>, BlsFr>("-"));
}
// `entry_custom::<T>("slice", …)` generates element values; wrap them into a sequence
fn gen_for(e: &Entry, g: &mut Gen) -> V {
    if e.ty.starts_with("slice(") {
        let n = g.len(0);
        V::Seq((0..n).map(|_| (e.gen)(g, 1)).collect())
    } else {
        (e.gen)(g, 0)
    }
}

// ------------------------------------------------------------------ child process (the `de` runner)
fn mode_str(c: Compress, v: Validate) -> &'static str {
    match (c, v) { (Compress::Yes, Validate::Yes) => "cy", (Compress::Yes, Validate::No) => "cn", (Compress::No, Validate::Yes) => "uy", (Compress::No, Validate::No) => "un" }
}
fn parse_mode(s: &str) -> (Compress, Validate) {
    let b = s.as_bytes();
    (if b[0] == b'c' { Compress::Yes } else { Compress::No }, if b[1] == b'y' { Validate::Yes } else { Validate::No })
}

static DEADLINE: AtomicU64 = AtomicU64::new(0);
fn child_main() {
    std::panic::set_hook(Box::new(|_| {}));
    let reg = registry();
    let t0 = std::time::Instant::now();
    std::thread::spawn(move || loop {
        std::thread::sleep(std::time::Duration::from_millis(20));
        let d = DEADLINE.load(AO::SeqCst);
        if d != 0 && t0.elapsed().as_millis() as u64 > d { std::process::exit(77); }
    });
    let stdin = std::io::stdin();
    let stdout = std::io::stdout();
    let mut line = String::new();
    loop {
        line.clear();
        if stdin.lock().read_line(&mut line).unwrap_or(0) == 0 { break; }
        let mut it = line.trim_end().split(' ');
        let idx: usize = it.next().unwrap().parse().unwrap();
        let (c, v) = parse_mode(it.next().unwrap());
        let bytes = unhex(it.next().unwrap());
        DEADLINE.store(t0.elapsed().as_millis() as u64 + WATCHDOG_MS, AO::SeqCst);
        let res = (reg[idx].de.unwrap())(&bytes, c, v);
        DEADLINE.store(0, AO::SeqCst);
        let mut o = stdout.lock();
        writeln!(o, "{}", res).unwrap();
        o.flush().unwrap();
    }
}

struct Runner { child: Option<(Child, ChildStdin, BufReader<ChildStdout>)>, spawned: u64 }
impl Runner {
    fn new() -> Self { Runner { child: None, spawned: 0 } }
    fn spawn(&mut self) {
        let exe = std::env::current_exe().unwrap();
        let mut ch = Command::new("sh")
            .arg("-c")
            .arg(format!("ulimit -c 0; ulimit -v {}; exec \"$0\" __child", MEM_LIMIT_KIB))
            .arg(exe)
            .env("RUST_BACKTRACE", "0")
            .stdin(Stdio::piped()).stdout(Stdio::piped()).stderr(Stdio::null())
            .spawn().expect("spawn child");
        let i = ch.stdin.take().unwrap();
        let o = BufReader::new(ch.stdout.take().unwrap());
        self.child = Some((ch, i, o));
        self.spawned += 1;
    }
    fn de(&mut self, idx: usize, mode: &str, hex: &str) -> String {
        if self.child.is_none() { self.spawn(); }
        let (_, i, o) = self.child.as_mut().unwrap();
        let ok = writeln!(i, "{} {} {}", idx, mode, hex).is_ok() && i.flush().is_ok();
        let mut line = String::new();
        let n = if ok { o.read_line(&mut line).unwrap_or(0) } else { 0 };
        if n > 0 { return line.trim_end().to_string(); }
        // the child died on this case
        let (mut ch, i, o) = self.child.take().unwrap();
        drop(i); drop(o);
        let st = ch.wait().unwrap();
        use std::os::unix::process::ExitStatusExt;
        match (st.code(), st.signal()) {
            (Some(77), _) => "timeout".into(),
            (_, Some(6)) | (Some(134), _) => "abort".into(),
            (c, s) => format!("crash:{:?}:{:?}", c, s),
        }
    }
}

// ------------------------------------------------------------------ stream generation
const HUGE: [u64; 14] = [0x7fff_ffff, 0x8000_0000, 1 << 32, 1 << 34, 1 << 40, 1 << 48, 1 << 56, (1 << 60) - 1, 1 << 60, 1 << 61,
    (1 << 63) - 1, 1 << 63, u64::MAX - 1, u64::MAX];
const BAD_UTF8: [&[u8]; 22] = [&[0xff], &[0x80], &[0xbf], &[0xc0, 0x80], &[0xc1, 0xbf], &[0xc2], &[0xc2, 0x41], &[0xe0, 0x80, 0x80], &[0xe0, 0x9f, 0xbf],
    &[0xed, 0xa0, 0x80], &[0xed, 0xbf, 0xbf], &[0xe1, 0x80], &[0xe1, 0x80, 0x61], &[0xf0, 0x80, 0x80, 0x80], &[0xf0, 0x8f, 0xbf, 0xbf],
    &[0xf4, 0x90, 0x80, 0x80], &[0xf5, 0x80, 0x80, 0x80], &[0xf1, 0x80, 0x80], &[0xf8, 0x88, 0x80, 0x80, 0x80], &[0x61, 0xc2], &[0x61, 0xe1, 0x80, 0xe1],
    &[0xfe]];

struct Ctx<'a> { out: &'a mut Out, run: &'a mut Runner, rng: Rng, thorough: bool, in_child: u64 }
impl<'a> Ctx<'a> {
    fn de(&mut self, idx: usize, e: &Entry, tag: &str, c: Compress, v: Validate, bytes: &[u8]) {
        let m = mode_str(c, v);
        let h = hexs(bytes);
        let r = if (e.risk)(bytes, c) { self.in_child += 1; self.run.de(idx, m, &h) } else { (e.de.unwrap())(bytes, c, v) };
        self.out.line(&format!("C18 de {} {} {} {}", tag, m, e.ty, h), &r);
    }
}
fn other(c: Compress) -> Compress { match c { Compress::Yes => Compress::No, Compress::No => Compress::Yes } }
fn top_prefixed(ty: &str) -> bool {
    ty.starts_with("vec") || ty.starts_with("deq") || ty.starts_with("list(") || ty == "str" || ty == "big" || ty.starts_with("map(") || ty.starts_with("set(")
}

fn streams(cx: &mut Ctx, idx: usize, e: &Entry, val: &V, valid: bool) {
    let vtag = if valid { "v" } else { "i" };
    for c in [Compress::Yes, Compress::No] {
        let cs = if c == Compress::Yes { "c" } else { "u" };
        let (bytes, size) = (e.ser)(val, c);
        cx.out.line(&format!("C18 ser {} {} {}", cs, e.ty, showv(val)), &format!("{} {:x}", hexs(&bytes), size));
        if e.de.is_none() { continue; }
        let has_ml = !e.poly && e.ty.contains("ml");
        // complete encoding, both validation modes; with trailing bytes; in the other compress mode
        cx.de(idx, e, vtag, c, Validate::Yes, &bytes);
        cx.de(idx, e, vtag, c, Validate::No, &bytes);
        if valid {
            let mut b = bytes.clone();
            b.extend_from_slice(&[0xab, 0x01, 0x00]);
            let vd = if cx.rng.below(2) == 0 { Validate::Yes } else { Validate::No };
            cx.de(idx, e, "x", c, vd, &b);
        }
        if has_ml { cx.de(idx, e, "m", other(c), Validate::Yes, &bytes); }
        let n = bytes.len();
        if n == 0 { continue; }
        // the encodings of the `ark-poly` types do not depend on the compress mode: malformed variants in one of the two
        if e.poly && !cx.thorough && (n % 2 == 0) != (c == Compress::Yes) { continue; }
        // truncations
        if valid {
            let cuts: Vec<usize> = if n <= 24 || (cx.thorough && n <= 80) { (0..n).collect() } else {
                let mut k: Vec<usize> = vec![0, 1, 7, 8, 9, n - 1, n - 2, n / 2];
                for _ in 0..(if cx.thorough { 16 } else { 5 }) { k.push(cx.rng.below(n as u64) as usize); }
                k.sort(); k.dedup(); k.retain(|x| *x < n); k
            };
            for k in cuts {
                let vd = if cx.rng.below(4) == 0 { Validate::No } else { Validate::Yes };
                cx.de(idx, e, "t", c, vd, &bytes[..k]);
            }
        }
        if e.zw { continue; }
        // single-byte mutations
        let pos: Vec<usize> = if n <= 10 || (cx.thorough && n <= 48) { (0..n).collect() } else {
            let mut k: Vec<usize> = vec![0, 3, 7, 8];
            for _ in 0..(if cx.thorough { 20 } else { 5 }) { k.push(cx.rng.below(n as u64) as usize); }
            k.sort(); k.dedup(); k
        };
        for p in pos {
            let mut vals: Vec<u8> = vec![0x02, 0xff];
            if cx.thorough { vals.extend_from_slice(&[0x00, 0x01, 0x7f, 0x80]); }
            if cx.thorough || cx.rng.below(2) == 0 { vals.push(cx.rng.next() as u8); }
            for x in vals {
                if bytes[p] == x { continue; }
                let mut b = bytes.clone();
                b[p] = x;
                let vd = if cx.rng.below(4) == 0 { Validate::No } else { Validate::Yes };
                cx.de(idx, e, "m", c, vd, &b);
            }
        }
        // 8-byte windows overwritten with huge little-endian values (hits every length prefix)
        if n >= 8 {
            let wins: Vec<usize> = if n <= 14 || (cx.thorough && n <= 64) { (0..=n - 8).collect() } else {
                let mut k: Vec<usize> = vec![0, 8, n - 8];
                for _ in 0..(if cx.thorough { 10 } else { 2 }) { k.push(cx.rng.below((n - 7) as u64) as usize); }
                k.sort(); k.dedup(); k.retain(|x| *x + 8 <= n); k
            };
            for p in wins {
                let cnt = if cx.thorough { 6 } else { 1 };
                for _ in 0..cnt {
                    let h = HUGE[cx.rng.below(HUGE.len() as u64) as usize];
                    let mut b = bytes.clone();
                    b[p..p + 8].copy_from_slice(&h.to_le_bytes());
                    cx.de(idx, e, "m", c, Validate::Yes, &b);
                }
            }
        }
        // oversized top-level length prefix
        if top_prefixed(&e.ty) && n >= 8 {
            let rem = (n - 8) as u64;
            let mut lens: Vec<u64> = vec![rem + 1, rem + 2, 2 * rem + 1, 8 * rem + 9, 64 * rem + 4096, 64 * rem + 4097, 1 << 16, 1 << 20, 1 << 24];
            if cx.thorough { lens.extend_from_slice(&HUGE); } else { for _ in 0..3 { lens.push(HUGE[cx.rng.below(HUGE.len() as u64) as usize]); } }
            for l in lens {
                let mut b = bytes.clone();
                b[..8].copy_from_slice(&l.to_le_bytes());
                cx.de(idx, e, "o", c, Validate::Yes, &b);
            }
        }
    }
}

fn fixed_streams(cx: &mut Ctx, reg: &[Entry]) {
    let find = |ty: &str| reg.iter().position(|e| e.ty == ty).unwrap();
    let all_modes = [(Compress::Yes, Validate::Yes), (Compress::Yes, Validate::No), (Compress::No, Validate::Yes), (Compress::No, Validate::No)];
    // every byte as a bool; as the tag of an Option
    let ib = find("bool");
    for x in 0u16..256 {
        let tag = if x < 2 { "v" } else { "b" };
        for (c, v) in all_modes { cx.de(ib, &reg[ib], tag, c, v, &[x as u8]); }
    }
    let io = find("opt(u8)");
    for x in 2u16..256 { cx.de(io, &reg[io], "b", Compress::Yes, Validate::Yes, &[x as u8, 7]); }
    let iv = find("vec1(bool)");
    for x in [2u8, 3, 0x80, 0xff] {
        let mut b = 3u64.to_le_bytes().to_vec(); b.extend_from_slice(&[1, x, 0]);
        cx.de(iv, &reg[iv], "b", Compress::Yes, Validate::Yes, &b);
        cx.de(iv, &reg[iv], "b", Compress::No, Validate::No, &b);
    }
    // ill-formed UTF-8
    let is = find("str");
    let ivs = find(&<Vec<String>>::ty());
    for bad in BAD_UTF8.iter() {
        for pre in [&b""[..], &b"ab"[..], "\u{e9}".as_bytes()] {
            let mut s = pre.to_vec(); s.extend_from_slice(bad);
            let mut b = (s.len() as u64).to_le_bytes().to_vec(); b.extend_from_slice(&s);
            cx.de(is, &reg[is], "b", Compress::Yes, Validate::Yes, &b);
            cx.de(is, &reg[is], "b", Compress::No, Validate::No, &b);
            let mut w = 1u64.to_le_bytes().to_vec(); w.extend_from_slice(&b);
            cx.de(ivs, &reg[ivs], "b", Compress::Yes, Validate::Yes, &w);
        }
    }
    // BigUint: non-minimal encodings (accepted: the format is not canonical)
    let ig = find("big");
    for bs in [&[][..], &[0][..], &[0, 0][..], &[5, 0][..], &[1, 2, 0, 0, 0][..]] {
        let mut b = (bs.len() as u64).to_le_bytes().to_vec(); b.extend_from_slice(bs);
        cx.de(ig, &reg[ig], "m", Compress::Yes, Validate::Yes, &b);
    }
    // maps / sets: unsorted and repeated keys in the stream
    let im = find("map(u8,u8)");
    for ks in [&[3u8, 1, 2][..], &[1, 1][..], &[2, 1, 2, 1][..], &[255, 0][..], &[5, 5, 5][..]] {
        let mut b = (ks.len() as u64).to_le_bytes().to_vec();
        for (i, k) in ks.iter().enumerate() { b.push(*k); b.push(i as u8 + 10); }
        cx.de(im, &reg[im], "m", Compress::Yes, Validate::Yes, &b);
    }
    let it = find("set(i16)");
    for ks in [&[3i16, -1, 2][..], &[-1, -1][..], &[i16::MAX, i16::MIN, 0][..]] {
        let mut b = (ks.len() as u64).to_le_bytes().to_vec();
        for k in ks { b.extend_from_slice(&k.to_le_bytes()); }
        cx.de(it, &reg[it], "m", Compress::No, Validate::Yes, &b);
    }
    // minimal witnesses of the length-prefix defect (prefix only, no payload)
    for ty in [<Vec<u8>>::ty(), <Vec<u64>>::ty(), <VecDeque<u16>>::ty(), "str".to_string(), "big".to_string(), <Vec<String>>::ty(), <Vec<Vec<u8>>>::ty(),
               <LinkedList<u8>>::ty(), "set(u8)".to_string(), "map(u8,u8)".to_string()] {
        let i = find(&ty);
        for h in HUGE.iter().chain([1u64, 0x100, 0x1001, 1 << 20, 1 << 28].iter()) {
            cx.de(i, &reg[i], "o", Compress::Yes, Validate::Yes, &h.to_le_bytes());
        }
    }
    // containers of zero-width elements with a huge length (few: each may cost the watchdog time)
    for (ty, lens) in [(<Vec<()>>::ty(), vec![1u64 << 40, u64::MAX]), (<VecDeque<PhantomData<u8>>>::ty(), vec![1u64 << 40]),
                       (<LinkedList<()>>::ty(), vec![1u64 << 40]), (<BTreeSet<()>>::ty(), vec![1u64 << 61]),
                       (<Vec<[u8; 0]>>::ty(), vec![1u64 << 61]), (<Vec<UnitS>>::ty(), vec![1u64 << 40]), (<Vec<Vec<()>>>::ty(), vec![1u64 << 40]), (<BTreeMap<(), ()>>::ty(), vec![u64::MAX])] {
        let i = find(&ty);
        for l in lens { cx.de(i, &reg[i], "z", Compress::Yes, Validate::Yes, &l.to_le_bytes()); }
    }
}


// ------------------------------------------------------------------ values that violate an invariant of their type (tag `w`)
fn wb<T: CanonicalSerialize>(x: &T) -> Vec<u8> { let mut b = Vec::new(); x.serialize_compressed(&mut b).unwrap(); b }
/// the nine fields of a radix-2 / mixed-radix domain (tuples of arity ≤ 5 concatenate like the struct)
fn dom_bytes<F: Field>(size: u64, log: u32, f: [F; 7]) -> Vec<u8> { wb(&((size, log, f[0], f[1]), (f[2], f[3], f[4], f[5], f[6]))) }
fn dom_fields<F: FftField, D: EvaluationDomain<F>>(d: &D) -> [F; 7] {
    [F::from(d.size() as u64), d.size_inv(), d.group_gen(), d.group_gen_inv(), d.coset_offset(), d.coset_offset_inv(), d.coset_offset_pow_size()]
}
fn puse_line<T: CanonicalDeserialize>(cx: &mut Ctx, what: &str, token: &str, bytes: &[u8], f: impl FnOnce(T) -> String) {
    let r = guarded(|| match T::deserialize_compressed(bytes) { Ok(x) => format!("ok:{}", f(x)), Err(e) => err_class(&e).into() });
    cx.out.line(&format!("C18 puse {} {} {}", what, token, hexs(bytes)), &r);
}
fn illformed_field<F: Tv + FftField + PrimeField>(cx: &mut Ctx, reg: &[Entry], mixed: bool, full_sweep: bool) {
    let find = |tok: String| reg.iter().position(|e| e.ty == tok).unwrap();
    let w = |cx: &mut Ctx, i: usize, bytes: &[u8]| { for (c, v) in ALL_MODES { cx.de(i, &reg[i], "w", c, v, bytes); } };
    let f = |x: u64| F::from(x);
    let one = F::one();
    // DensePolynomial: trailing zero coefficients
    let i = find(ptoken::<DensePolynomial<F>, F>("dense"));
    let tok = reg[i].ty.clone();
    for cs in [vec![f(1), f(0)], vec![f(0)], vec![f(0), f(0), f(0)], vec![f(5), f(7), f(0), f(0)]] {
        let b = wb(&cs);
        w(cx, i, &b);
        puse_line::<DensePolynomial<F>>(cx, "dense.degree", &tok, &b, |p| format!("{:x}", p.degree()));
        puse_line::<DensePolynomial<F>>(cx, "dense.evaluate", &tok, &b, |p| showv(&p.evaluate(&F::from(3u64)).show()));
        puse_line::<DensePolynomial<F>>(cx, "dense.mul", &tok, &b, |p| showv(&(&p * &p).coeffs.show()));
    }
    // univariate SparsePolynomial: unsorted, repeated index, zero coefficient
    let i = find(ptoken::<UvSparse<F>, F>("sparse"));
    let tok = reg[i].ty.clone();
    for cs in [vec![(5usize, f(1)), (1, f(2))], vec![(1, f(1)), (1, f(2))], vec![(0, f(0))], vec![(0, f(3)), (2, f(0)), (4, f(1))], vec![(2, f(3)), (2, f(254))]] {
        let b = wb(&cs);
        w(cx, i, &b);
        puse_line::<UvSparse<F>>(cx, "sparse.degree", &tok, &b, |p| format!("{:x}", p.degree()));
        puse_line::<UvSparse<F>>(cx, "sparse.evaluate", &tok, &b, |p| showv(&p.evaluate(&F::from(3u64)).show()));
        puse_line::<UvSparse<F>>(cx, "sparse.into_dense", &tok, &b, |p| showv(&DensePolynomial::from(p).coeffs.show()));
    }
    // multivariate SparsePolynomial: variable ≥ num_vars, zero coefficient, unsorted / repeated terms, ill-formed term inside
    let i = find(ptoken::<MvSparse<F, SparseTerm>, F>("mvsparse"));
    let tok = reg[i].ty.clone();
    type Tm = Vec<(usize, usize)>;
    let mv: Vec<(usize, Vec<(F, Tm)>)> = vec![
        (1, vec![(f(1), vec![(3, 1)])]), (2, vec![(f(0), vec![(0, 1)])]), (2, vec![(f(1), vec![(0, 2)]), (f(1), vec![(0, 1)])]),
        (2, vec![(f(1), vec![(1, 1)]), (f(2), vec![(1, 1)])]), (3, vec![(f(1), vec![(2, 1), (0, 1)])]), (3, vec![(f(1), vec![(1, 0)])]), (0, vec![(f(1), vec![(0, 1)])])];
    for m in mv {
        let b = wb(&m);
        w(cx, i, &b);
        puse_line::<MvSparse<F, SparseTerm>>(cx, "mvsparse.degree", &tok, &b, |p| format!("{:x}", p.degree()));
        let nv = m.0;
        puse_line::<MvSparse<F, SparseTerm>>(cx, "mvsparse.evaluate", &tok, &b, move |p| showv(&p.evaluate(&vec![F::from(2u64); nv]).show()));
    }
    // DenseMultilinearExtension: evaluations.len() ≠ 2^num_vars
    let i = find(ptoken::<DenseMultilinearExtension<F>, F>("dext"));
    let tok = reg[i].ty.clone();
    for (ev, nv) in [(vec![f(1), f(2), f(3)], 2usize), (vec![f(1), f(2), f(3), f(4)], 1), (vec![], 0), (vec![f(1)], 64), (vec![f(1)], usize::MAX), (vec![f(1), f(2)], 0), (vec![], 3)] {
        let b = wb(&(ev, nv));
        w(cx, i, &b);
        if nv <= 8 {
            puse_line::<DenseMultilinearExtension<F>>(cx, "dext.evaluate", &tok, &b, move |p| showv(&p.evaluate(&vec![F::from(2u64); nv]).show()));
            puse_line::<DenseMultilinearExtension<F>>(cx, "dext.add", &tok, &b, |p| showv(&(&p + &p).evaluations.show()));
        }
        puse_line::<DenseMultilinearExtension<F>>(cx, "dext.num_vars", &tok, &b, |p| format!("{:x}", p.num_vars()));
    }
    // SparseMultilinearExtension: index ≥ 2^num_vars, `zero` ≠ 0, num_vars ≥ 64
    let i = find(ptoken::<SparseMultilinearExtension<F>, F>("sext"));
    let tok = reg[i].ty.clone();
    let mk = |es: &[(usize, u64)]| -> BTreeMap<usize, F> { es.iter().map(|(k, x)| (*k, f(*x))).collect() };
    for (es, nv, z) in [(mk(&[(4, 1)]), 2usize, f(0)), (mk(&[(0, 1)]), 2, f(5)), (mk(&[]), 1, one), (mk(&[(1, 1)]), 0, f(0)), (mk(&[(0, 1)]), 64, f(0)), (mk(&[(usize::MAX, 1)]), 3, f(0))] {
        let b = wb(&(es, nv, z));
        w(cx, i, &b);
        if nv <= 8 {
            puse_line::<SparseMultilinearExtension<F>>(cx, "sext.evaluate", &tok, &b, move |p| showv(&p.evaluate(&vec![F::from(2u64); nv]).show()));
            puse_line::<SparseMultilinearExtension<F>>(cx, "sext.to_evaluations", &tok, &b, |p| showv(&p.to_evaluations().show()));
        }
    }
    // domains: every field perturbed on its own
    let base = Radix2EvaluationDomain::<F>::new(4).unwrap();
    let bf = dom_fields::<F, _>(&base);
    let two = base.get_coset(f(3)).unwrap();
    let tf = dom_fields::<F, _>(&two);
    let mut doms: Vec<(&str, Vec<u8>)> = vec![
        ("size+1", dom_bytes(5, 2, bf)), ("size*2", dom_bytes(8, 2, bf)), ("size=0", dom_bytes(0, 2, bf)), ("size=2^63", dom_bytes(1 << 63, 2, bf)),
        ("log+1", dom_bytes(4, 3, bf)), ("log=0", dom_bytes(4, 0, bf)), ("log=64", dom_bytes(4, 64, bf)), ("log=max", dom_bytes(4, u32::MAX, bf))];
    for k in 0..7 {
        let mut g = bf; g[k] += one; doms.push((["size_fe+1", "size_inv+1", "gen+1", "gen_inv+1", "offset+1", "offset_inv+1", "offset_pow+1"][k], dom_bytes(4, 2, g)));
    }
    { let mut g = bf; g[2] = one; g[3] = one; doms.push(("gen=1", dom_bytes(4, 2, g))); }
    { let mut g = bf; g[2] = bf[2].square(); g[3] = bf[3].square(); doms.push(("gen^2", dom_bytes(4, 2, g))); }
    { let mut g = bf; g[2] = F::zero(); g[3] = F::zero(); doms.push(("gen=0", dom_bytes(4, 2, g))); }
    { let mut g = bf; g[4] = F::zero(); g[5] = F::zero(); g[6] = F::zero(); doms.push(("offset=0", dom_bytes(4, 2, g))); }
    { let mut g = tf; g[6] = one; doms.push(("coset:pow=1", dom_bytes(4, 2, g))); }
    { let mut g = bf; g[0] = F::zero(); g[1] = F::zero(); doms.push(("size_fe=0", dom_bytes(4, 2, g))); }
    let ir = find(ptoken::<Radix2EvaluationDomain<F>, F>("r2dom"));
    let ig = find(ptoken::<GeneralEvaluationDomain<F>, F>("gdom"));
    let ie = find(ptoken::<Evaluations<F, Radix2EvaluationDomain<F>>, F>("evals"));
    let ieg = find(ptoken::<Evaluations<F>, F>("evals"));
    let (tr, tg, te) = (reg[ir].ty.clone(), reg[ig].ty.clone(), reg[ie].ty.clone());
    let coeffs = vec![f(1), f(2), f(3)];
    for (name, b) in doms.iter() {
        w(cx, ir, b);
        let mut gb = vec![0u8]; gb.extend_from_slice(b);
        w(cx, ig, &gb);
        // evaluations of the right length for the announced size (when that is small), over the ill-formed domain
        let size = u64::from_le_bytes(b[..8].try_into().unwrap());
        if size <= 64 {
            let mut eb = wb(&(0..size).map(|x| f(x + 1)).collect::<Vec<F>>()); eb.extend_from_slice(b);
            w(cx, ie, &eb);
            let mut egb = wb(&(0..size).map(|x| f(x + 1)).collect::<Vec<F>>()); egb.extend_from_slice(&gb);
            w(cx, ieg, &egb);
            let what = format!("r2dom.fft[{}]", name);
            let cs = coeffs.clone();
            puse_line::<Radix2EvaluationDomain<F>>(cx, &what, &tr, b, move |d| showv(&d.fft(&cs).show()));
            let cs = coeffs.clone();
            puse_line::<Radix2EvaluationDomain<F>>(cx, &format!("r2dom.ifft[{}]", name), &tr, b, move |d| showv(&d.ifft(&cs).show()));
            puse_line::<Radix2EvaluationDomain<F>>(cx, &format!("r2dom.elements[{}]", name), &tr, b, |d| showv(&d.elements().take(70).collect::<Vec<F>>().show()));
            puse_line::<Radix2EvaluationDomain<F>>(cx, &format!("r2dom.lagrange[{}]", name), &tr, b, |d| showv(&d.evaluate_all_lagrange_coefficients(F::from(7u64)).show()));
            puse_line::<GeneralEvaluationDomain<F>>(cx, &format!("gdom.vanishing[{}]", name), &tg, &gb, |d| showv(&d.evaluate_vanishing_polynomial(F::from(7u64)).show()));
            puse_line::<Evaluations<F, Radix2EvaluationDomain<F>>>(cx, &format!("evals.interpolate[{}]", name), &te, &eb, |e| showv(&e.interpolate().coeffs.show()));
        }
    }
    // Evaluations: evals.len() ≠ domain.size() over a well-formed domain
    let good = dom_bytes(4, 2, bf);
    for n in [0u64, 1, 3, 5, 8] {
        let mut eb = wb(&(0..n).map(|x| f(x + 1)).collect::<Vec<F>>()); eb.extend_from_slice(&good);
        w(cx, ie, &eb);
        puse_line::<Evaluations<F, Radix2EvaluationDomain<F>>>(cx, "evals.interpolate[len]", &te, &eb, |e| showv(&e.interpolate().coeffs.show()));
        puse_line::<Evaluations<F, Radix2EvaluationDomain<F>>>(cx, "evals.add[len]", &te, &eb, |e| showv(&(&e + &e).evals.show()));
        puse_line::<Evaluations<F, Radix2EvaluationDomain<F>>>(cx, "evals.index3[len]", &te, &eb, |e| showv(&e[3].show()));
    }
    // GeneralEvaluationDomain: every tag byte (0 and 1 select a variant, the rest is `InvalidData`), a mixed-radix size under the radix-2 tag
    for t in 0u16..256 {
        let mut gb = vec![t as u8]; gb.extend_from_slice(&good);
        // (tag 1 over a radix-2 payload: a mixed-radix domain of power-of-two size, which `new` never returns for this field)
        let tag = if t >= 2 { "b" } else if t == 0 { "v" } else { "m" };
        if !full_sweep && t >= 4 && t <= 253 { continue; }
        cx.de(ig, &reg[ig], tag, Compress::Yes, Validate::Yes, &gb);
        if t < 4 || t > 253 { for (c, v) in ALL_MODES { cx.de(ig, &reg[ig], tag, c, v, &gb); } }
    }
    if mixed {
        let md = MixedRadixEvaluationDomain::<F>::new(10).unwrap();
        let mb = dom_bytes(md.size, md.log_size_of_group, dom_fields::<F, _>(&md));
        let im = find(ptoken::<MixedRadixEvaluationDomain<F>, F>("mrdom"));
        let tm = reg[im].ty.clone();
        let mut gb = vec![0u8]; gb.extend_from_slice(&mb);
        w(cx, ir, &mb);
        w(cx, ig, &gb);
        let cs = coeffs.clone();
        puse_line::<Radix2EvaluationDomain<F>>(cx, "r2dom.fft[mixed-size]", &tr, &mb, move |d| showv(&d.fft(&cs).show()));
        let bad = [("size+1", dom_bytes(md.size + 1, md.log_size_of_group, dom_fields::<F, _>(&md))), ("log+1", dom_bytes(md.size, md.log_size_of_group + 1, dom_fields::<F, _>(&md))),
                   ("gen^5", { let mut g = dom_fields::<F, _>(&md); g[2] = g[2].pow([5u64]); g[3] = g[3].pow([5u64]); dom_bytes(md.size, md.log_size_of_group, g) })];
        for (name, b) in bad.iter() {
            w(cx, im, b);
            let cs = coeffs.clone();
            puse_line::<MixedRadixEvaluationDomain<F>>(cx, &format!("mrdom.fft[{}]", name), &tm, b, move |d| showv(&d.fft(&cs).show()));
        }
    }
}
fn illformed_streams(cx: &mut Ctx, reg: &[Entry]) {
    let th = cx.thorough;
    illformed_field::<FDT257>(cx, reg, false, true);
    illformed_field::<M401>(cx, reg, true, th);
    illformed_field::<BlsFr>(cx, reg, false, th);
    // SparseTerm: unsorted / repeated variables, zero powers
    let i = reg.iter().position(|e| e.ty == ptoken::<SparseTerm, FDT13>("term")).unwrap();
    for t in [vec![(2usize, 1usize), (0, 1)], vec![(1, 1), (1, 2)], vec![(0, 0)], vec![(0, 1), (3, 0), (4, 2)]] {
        let b = wb(&t);
        for (c, v) in ALL_MODES { cx.de(i, &reg[i], "w", c, v, &b); }
        let tok = reg[i].ty.clone();
        puse_line::<SparseTerm>(cx, "term.degree", &tok, &b, |t| format!("{:x}", t.degree()));
        puse_line::<SparseTerm>(cx, "term.evaluate", &tok, &b, |t| showv(&t.evaluate(&[FDT13::from(2u64), FDT13::from(3u64), FDT13::from(4u64), FDT13::from(5u64), FDT13::from(6u64)]).show()));
    }
}

// ------------------------------------------------------------------ the further entry points (see the header)
fn cstr(c: Compress) -> &'static str { if c == Compress::Yes { "c" } else { "u" } }
const ALL_MODES: [(Compress, Validate); 4] = [(Compress::Yes, Validate::Yes), (Compress::Yes, Validate::No), (Compress::No, Validate::Yes), (Compress::No, Validate::No)];
/// `vals`: the values of the entry's main stream with their validity
fn extra_streams(cx: &mut Ctx, e: &Entry, vals: &[(V, bool)]) {
    let Some(ops) = e.ops else { return; };
    let th = cx.thorough;
    for (k, (v, valid)) in vals.iter().enumerate() {
        let sv = showv(v);
        cx.out.line(&format!("C18 chk {} {}", e.ty, sv), &(ops.chk)(v));
        if k < 3 || th { cx.out.line(&format!("C18 cser {} {}", e.ty, sv), &(ops.cser)(v)); }
        if k < 2 || (th && k < 6) || !*valid {
            for c in [Compress::Yes, Compress::No] { cx.out.line(&format!("C18 hash {} {} {}", cstr(c), e.ty, sv), &(ops.hash)(v, c)); }
        }
        // convenience deserialisers: the complete encoding, a truncation, (mode-sensitive types) the other mode's bytes
        let mode_sensitive = !e.poly && e.ty.contains("ml");
        if k == 1 || (k == 3 && (e.poly || mode_sensitive)) || (th && k < 8) || !*valid {
            for c in [Compress::Yes, Compress::No] {
                let (bytes, _) = (e.ser)(v, c);
                let tag = if *valid { "v" } else { "i" };
                for vd in [Validate::Yes, Validate::No] {
                    cx.out.line(&format!("C18 cde {} {} {} {}", tag, mode_str(c, vd), e.ty, hexs(&bytes)), &(ops.cde)(&bytes, c, vd));
                }
                if *valid && !bytes.is_empty() {
                    let cut = cx.rng.below(bytes.len() as u64) as usize;
                    let vd = if cx.rng.below(2) == 0 { Validate::Yes } else { Validate::No };
                    cx.out.line(&format!("C18 cde t {} {} {}", mode_str(c, vd), e.ty, hexs(&bytes[..cut])), &(ops.cde)(&bytes[..cut], c, vd));
                }
                if !e.poly && e.ty.contains("ml") {
                    cx.out.line(&format!("C18 cde m {} {} {}", mode_str(other(c), Validate::Yes), e.ty, hexs(&bytes)), &(ops.cde)(&bytes, other(c), Validate::Yes));
                }
            }
        }
        // failing writer / reader
        if k == 1 || (k == 3 && (e.poly || mode_sensitive)) || (th && k < 8) || (!*valid && k % 2 == 0) {
            let c = if k % 2 == 1 { Compress::Yes } else { Compress::No };
            let c = if k == 3 { other(c) } else { c };
            let (bytes, _) = (e.ser)(v, c);
            let n = bytes.len();
            let ks: Vec<usize> = if n <= 10 || (th && n <= 64) { (0..=n + 1).collect() } else {
                let mut t = vec![0, 7, 8, 9, n - 1, n, n + 1];
                for _ in 0..(if th { 12 } else { 2 }) { t.push(cx.rng.below(n as u64) as usize); }
                t.sort(); t.dedup(); t
            };
            for &kk in &ks {
                let zero = cx.rng.below(3) == 0;
                cx.out.line(&format!("C18 wfail {} {} {} {} {:x}", if zero { "z" } else { "e" }, cstr(c), e.ty, sv, kk), &(ops.wfail)(v, c, kk, zero));
            }
            if e.zw { continue; }
            for &kk in &ks {
                if kk > n { continue; }
                let chunk = match cx.rng.below(4) { 0 => 1, 1 => 3, 2 => 8, _ => n.max(1) };
                let vd = if cx.rng.below(4) == 0 { Validate::No } else { Validate::Yes };
                cx.out.line(&format!("C18 rfail e {} {} {} {} {:x} {:x}", if *valid { "v" } else { "i" }, mode_str(c, vd), e.ty, hexs(&bytes), kk, chunk), &(ops.rfail)(&bytes, c, vd, kk, chunk, false));
            }
            for chunk in [1usize, 5] {
                cx.out.line(&format!("C18 rfail i {} {} {} {} {:x} {:x}", if *valid { "v" } else { "i" }, mode_str(c, Validate::Yes), e.ty, hexs(&bytes), n, chunk), &(ops.rfail)(&bytes, c, Validate::Yes, n, chunk, true));
            }
        }
    }
    // batch_check: the empty batch, singletons, all values (valid ones first), all values reversed
    let all: Vec<V> = vals.iter().map(|x| x.0.clone()).collect();
    let good: Vec<V> = vals.iter().filter(|x| x.1).map(|x| x.0.clone()).collect();
    let mut batches: Vec<Vec<V>> = vec![vec![], good.clone(), all.iter().rev().cloned().collect()];
    for (v, valid) in vals.iter() { if !*valid { batches.push(vec![v.clone()]); let mut b = good.clone(); b.push(v.clone()); batches.push(b); } }
    if let Some(v) = good.get(1) { batches.push(vec![v.clone(), v.clone()]); }
    for b in batches {
        cx.out.line(&format!("C18 bchk {} {}", e.ty, showv(&V::Seq(b.clone()))), &(ops.bchk)(&b));
    }
}

/// `serialize_to_vec!` on the components of tuples of mode-sensitive leaves
fn tovec_lines(cx: &mut Ctx) {
    let mut g = Gen { rng: Rng::new(0x70ec), invalid_ok: false, top: None };
    fn res(r: Result<Vec<u8>, SerializationError>) -> String { match r { Ok(b) => hexs(&b), Err(e) => err_class(&e).into() } }
    for _ in 0..(if cx.thorough { 40 } else { 8 }) {
        let v = <(Ml,)>::gen(&mut g, 1); let t = <(Ml,)>::build(&v);
        cx.out.line(&format!("C18 tovec {} {}", <(Ml,)>::ty(), showv(&v)), &guarded(|| res(serialize_to_vec![t.0])));
        let v = <(Ml, u8, Ml)>::gen(&mut g, 1); let t = <(Ml, u8, Ml)>::build(&v);
        cx.out.line(&format!("C18 tovec {} {}", <(Ml, u8, Ml)>::ty(), showv(&v)), &guarded(|| res(serialize_to_vec![t.0, t.1, t.2])));
        let v = <(u16, Vec<Ml>, bool, Option<Ml>)>::gen(&mut g, 1); let t = <(u16, Vec<Ml>, bool, Option<Ml>)>::build(&v);
        cx.out.line(&format!("C18 tovec {} {}", <(u16, Vec<Ml>, bool, Option<Ml>)>::ty(), showv(&v)), &guarded(|| res(serialize_to_vec![t.0, t.1, t.2, t.3])));
        let v = <(u8, String)>::gen(&mut g, 1); let t = <(u8, String)>::build(&v);
        cx.out.line(&format!("C18 tovec {} {}", <(u8, String)>::ty(), showv(&v)), &guarded(|| res(serialize_to_vec![t.0, t.1])));
    }
}
fn bbs_lines(cx: &mut Ctx) {
    let mut bits: Vec<usize> = (0..=130).collect();
    bits.extend_from_slice(&[255, 256, 257, 381, 383, 384, 385, 753, 760, 761, 1 << 16, (1 << 32) - 1, 1 << 32, (1 << 32) + 1, (1 << 60) - 7, 1 << 60]);
    for b in bits {
        let (x, y) = buffer_bit_byte_size(b);
        cx.out.line(&format!("C18 bbs {:x}", b), &format!("{:x} {:x} {:x}", x, y, buffer_byte_size(b)));
    }
}

fn main() {
    if std::env::args().nth(1).as_deref() == Some("__child") { child_main(); return; }
    let a = arkharness::args();
    let reg = registry();
    let mut out = Out::new();
    let mut run = Runner::new();
    let mut cx = Ctx { out: &mut out, run: &mut run, rng: Rng::new(a.seed ^ 0xC18), thorough: a.thorough, in_child: 0 };
    // sub-streams: `gen` = without the fixed corpus; `old` = the (de)serialisation streams only; `new` = the further entry points only
    let only = a.only.as_deref();
    let do_main = only != Some("new");
    let do_new = only != Some("old") && only != Some("gen");
    if only.is_none() || only == Some("old") { fixed_streams(&mut cx, &reg); }
    let nvals = if a.thorough { 12 } else { 5 };
    let values = |idx: usize, e: &Entry| -> Vec<(V, bool)> {
        let mut g = Gen { rng: Rng::new(a.seed.wrapping_mul(1000003).wrapping_add(idx as u64)), invalid_ok: false, top: None };
        let mut vs = Vec::new();
        for k in 0..nvals {
            // ark-poly types in the quick tier: the empty / singleton shape, one large and one random value
            if e.poly && !a.thorough && k == 4 { continue; }
            if e.light && !a.thorough && !(k == 1 || k == 3) { continue; }
            g.top = match k { 0 => Some(0), 1 => Some(1), 2 => Some(e.big), _ => None };
            g.invalid_ok = false;
            let v = gen_for(e, &mut g);
            // ark-poly types: the value as the constructor leaves it
            let v = if e.poly { (e.ops.unwrap().norm)(&v) } else { v };
            vs.push((v, true));
        }
        if !e.poly && e.ty.contains("ml") {
            for _ in 0..(if a.thorough { 4 } else { 2 }) {
                g.top = None;
                g.invalid_ok = true;
                let v = gen_for(e, &mut g);
                let valid = !showv(&v).split(|ch: char| !ch.is_ascii_hexdigit()).any(|t| t == "ee");
                vs.push((v, valid));
            }
        }
        vs
    };
    if do_main {
        for (idx, e) in reg.iter().enumerate() {
            for (j, (v, valid)) in values(idx, e).into_iter().enumerate() {
                if e.light && !a.thorough && j > 0 { continue; }
                streams(&mut cx, idx, e, &v, valid);
            }
        }
    }
    if do_new {
        illformed_streams(&mut cx, &reg);
        tovec_lines(&mut cx);
        bbs_lines(&mut cx);
        for (idx, e) in reg.iter().enumerate() {
            let vs = values(idx, e);
            extra_streams(&mut cx, e, &vs);
        }
    }
    let in_child = cx.in_child;
    eprintln!("c18: {} lines, {} run in the child, {} child processes", out.count, in_child, run.spawned);
    out.flush();
}
