//! C18: container / wrapper / derive-macro (de)serialisation of ark-serialize.
//!
//! Lines (syntax of types and values: see /verif/lean/Ark/Model/Serial.lean):
//!   C18 ser <c|u> <ty> <val>            => <hex bytes> <serialized_size>
//!   C18 de <tag> <c|u><y|n> <ty> <hex>  => ok <val> <consumed> | err:<class> | panic | abort | timeout
//!                                          | ok-huge <len> <consumed>
//! A `de` whose input has a length prefix larger than the rest of the input (+ 4096 slack; found by
//! walking the input along the type, `Tv::scan`) runs in a CHILD PROCESS (this binary re-executed as
//! `c18 __child` through `sh -c 'ulimit -v 1048576; exec …'`, i.e. RLIMIT_AS = 1 GiB) with a 0.4 s
//! per-case watchdog, so that an allocation abort (SIGABRT) is reported as `abort` and a runaway loop
//! as `timeout` instead of killing the harness; all other `de` lines run in-process under
//! `catch_unwind`.  The limits are mirrored in DrvC18.lean (`limits`).
#![allow(dead_code, deprecated)]
use ark_serialize::*;
use arkharness::util::*;
use num_bigint::BigUint;
use std::borrow::Cow;
use std::collections::{BTreeMap, BTreeSet, LinkedList, VecDeque};
use std::io::{BufRead, BufReader, Write as IoWrite};
use std::marker::PhantomData;
use std::process::{Child, ChildStdin, ChildStdout, Command, Stdio};
use std::rc::Rc;
use std::sync::atomic::{AtomicU64, Ordering as AO};
use std::sync::Arc;

const MEM_LIMIT_KIB: u64 = 1 << 20; // ulimit -v, = 2^30 bytes  (DrvC18.limits.mem)
const WATCHDOG_MS: u64 = 400;
/// a `de` line goes to the child process only if a length prefix met while walking the input along the
/// type (`Tv::scan`) exceeds the bytes that follow it by more than this slack; everything else runs
/// in-process under `catch_unwind`
const CHILD_SLACK: u64 = 4096;
const HUGE_LEN: u64 = 1 << 16; // DrvC18.limits.steps

// ------------------------------------------------------------------ universal values
#[derive(Clone, Debug, PartialEq)]
enum V {
    I(i128),
    Big(BigUint),
    B(bool),
    S(Vec<u8>),
    None,
    Some(Box<V>),
    Seq(Vec<V>),
}

fn show_into(v: &V, o: &mut String) {
    match v {
        V::I(i) => {
            if *i < 0 { o.push_str(&format!("-{:x}", i.unsigned_abs())) } else { o.push_str(&format!("{:x}", i)) }
        },
        V::Big(b) => o.push_str(&format!("{:x}", b)),
        V::B(b) => o.push(if *b { 'T' } else { 'F' }),
        V::S(s) => {
            o.push('s');
            for b in s { o.push_str(&format!("{:02x}", b)); }
        },
        V::None => o.push('N'),
        V::Some(x) => { o.push_str("S("); show_into(x, o); o.push(')'); },
        V::Seq(xs) => {
            o.push('[');
            for (i, x) in xs.iter().enumerate() {
                if i > 0 { o.push(','); }
                show_into(x, o);
            }
            o.push(']');
        },
    }
}
fn showv(v: &V) -> String { let mut s = String::new(); show_into(v, &mut s); s }
fn hexs(b: &[u8]) -> String {
    if b.is_empty() { return "_".into(); }
    let mut s = String::with_capacity(2 * b.len());
    for x in b { s.push_str(&format!("{:02x}", x)); }
    s
}
fn unhex(s: &str) -> Vec<u8> {
    if s == "_" { return vec![]; }
    (0..s.len() / 2).map(|i| u8::from_str_radix(&s[2 * i..2 * i + 2], 16).unwrap()).collect()
}
fn seq(v: &V) -> &Vec<V> { match v { V::Seq(x) => x, _ => panic!("harness: seq expected") } }

// ------------------------------------------------------------------ generator state
struct Gen { rng: Rng, invalid_ok: bool, top: Option<usize> }
impl Gen {
    fn len(&mut self, d: u32) -> usize {
        if d == 0 { if let Some(n) = self.top.take() { return n; } }
        let r = self.rng.below(16);
        match (d, r) {
            (_, 0..=2) => 0,
            (_, 3..=6) => 1,
            (_, 7..=10) => 2,
            (_, 11..=12) => 3,
            (0, 13) => 17,
            (0, 14) => 40,
            (0, 15) => 9,
            (1, _) => 5,
            _ => 4,
        }
    }
}

// ------------------------------------------------------------------ the synthetic mode-sensitive leaf
/// compressed `[x]`, uncompressed `[x, 255-x]`; `check()` fails iff x == 0xEE
#[derive(Clone, Copy, Debug, PartialEq, Eq, PartialOrd, Ord)]
struct Ml(u8);
impl CanonicalSerialize for Ml {
    fn serialize_with_mode<W: ark_serialize::Write>(&self, mut w: W, c: Compress) -> Result<(), SerializationError> {
        match c {
            Compress::Yes => w.write_all(&[self.0])?,
            Compress::No => w.write_all(&[self.0, 255 - self.0])?,
        }
        Ok(())
    }
    fn serialized_size(&self, c: Compress) -> usize { match c { Compress::Yes => 1, Compress::No => 2 } }
}
impl Valid for Ml {
    fn check(&self) -> Result<(), SerializationError> {
        if self.0 == 0xEE { Err(SerializationError::InvalidData) } else { Ok(()) }
    }
}
impl CanonicalDeserialize for Ml {
    fn deserialize_with_mode<R: ark_serialize::Read>(mut r: R, c: Compress, v: Validate) -> Result<Self, SerializationError> {
        let x = match c {
            Compress::Yes => { let mut b = [0u8; 1]; r.read_exact(&mut b)?; b[0] },
            Compress::No => {
                let mut b = [0u8; 2];
                r.read_exact(&mut b)?;
                if b[1] != 255 - b[0] { return Err(SerializationError::InvalidData); }
                b[0]
            },
        };
        let m = Ml(x);
        if v == Validate::Yes { m.check()?; }
        Ok(m)
    }
}

// ------------------------------------------------------------------ derive-macro structs
/// the doc example of `CanonicalSerialize`
#[derive(Clone, Debug, PartialEq, Eq, PartialOrd, Ord, CanonicalSerialize, CanonicalDeserialize)]
struct Named { a: u64, b: (u64, (u64, u64)) }
#[derive(Clone, Debug, PartialEq, Eq, PartialOrd, Ord, CanonicalSerialize, CanonicalDeserialize)]
struct TupS(u8, bool, Option<u16>);
/// nested tuples including a 1-tuple and unit
#[derive(Clone, Debug, PartialEq, Eq, PartialOrd, Ord, CanonicalSerialize, CanonicalDeserialize)]
struct Nested((u8, (u16, (u32,))), Vec<u8>, (), (Ml, (bool, String)));
#[derive(Clone, Debug, PartialEq, Eq, PartialOrd, Ord, CanonicalSerialize, CanonicalDeserialize)]
struct Gen1<T: CanonicalSerialize + CanonicalDeserialize + Send + Sync> { x: T, y: Vec<T>, z: PhantomData<T> }
#[derive(Clone, Debug, PartialEq, Eq, PartialOrd, Ord, CanonicalSerialize, CanonicalDeserialize)]
struct Gen2<A: CanonicalSerialize + CanonicalDeserialize, B: CanonicalSerialize + CanonicalDeserialize>(A, (B, A));
#[derive(Clone, Debug, PartialEq, Eq, PartialOrd, Ord, CanonicalSerialize, CanonicalDeserialize)]
struct UnitS;
#[derive(Clone, Debug, PartialEq, Eq, PartialOrd, Ord, CanonicalSerialize, CanonicalDeserialize)]
struct EmptyS {}
#[derive(Clone, Debug, PartialEq, Eq, PartialOrd, Ord, CanonicalSerialize, CanonicalDeserialize)]
struct Deep { inner: Named, v: Vec<TupS>, m: BTreeMap<u8, Gen2<u8, bool>>, w: (CompressedUnchecked<Ml>, [Ml; 2]) }

// ------------------------------------------------------------------ type-directed syntax / generation
fn take<'a>(r: &mut &'a [u8], n: usize) -> Result<&'a [u8], bool> {
    if r.len() < n { return Err(false); }
    let (a, b) = r.split_at(n);
    *r = b;
    Ok(a)
}
fn scan_len(r: &mut &[u8]) -> Result<u64, bool> {
    let l = u64::from_le_bytes(take(r, 8)?.try_into().unwrap());
    if l > r.len() as u64 + CHILD_SLACK { Err(true) } else { Ok(l) }
}
trait Tv: Sized {
    fn ty() -> String;
    fn gen(g: &mut Gen, d: u32) -> V;
    fn build(v: &V) -> Self;
    fn show(&self) -> V;
    /// some container inside has more than HUGE_LEN items (only possible for zero-width items)
    fn huge(&self) -> u64 { 0 }
    /// walk the input the way the deserialiser does, WITHOUT building anything: `Err(true)` as soon as a
    /// length prefix exceeds the bytes that follow it by more than CHILD_SLACK (such a line is run in the
    /// child process), `Err(false)` where the deserialiser stops with an error / end of input
    fn scan(r: &mut &[u8], c: Compress) -> Result<(), bool>;
}

macro_rules! tv_int {
    ($t:ty, $name:expr) => {
        impl Tv for $t {
            fn ty() -> String { $name.into() }
            fn gen(g: &mut Gen, _d: u32) -> V {
                let x: $t = match g.rng.below(10) {
                    0 => 0, 1 => 1, 2 => <$t>::MAX, 3 => <$t>::MIN, 4 => <$t>::MAX / 2 + 1, 5 => (0 as $t).wrapping_sub(1),
                    6 => (g.rng.next() & 0xff) as $t,
                    _ => g.rng.next() as $t,
                };
                V::I(x as i128)
            }
            fn build(v: &V) -> Self { match v { V::I(i) => *i as $t, _ => panic!("harness: int") } }
            fn show(&self) -> V { V::I(*self as i128) }
            fn scan(r: &mut &[u8], _c: Compress) -> Result<(), bool> { take(r, core::mem::size_of::<$t>())?; Ok(()) }
        }
    };
}
tv_int!(u8, "u8"); tv_int!(u16, "u16"); tv_int!(u32, "u32"); tv_int!(u64, "u64"); tv_int!(usize, "usize");
tv_int!(i8, "i8"); tv_int!(i16, "i16"); tv_int!(i32, "i32"); tv_int!(i64, "i64"); tv_int!(isize, "isize");

impl Tv for bool {
    fn ty() -> String { "bool".into() }
    fn gen(g: &mut Gen, _d: u32) -> V { V::B(g.rng.next() & 1 == 1) }
    fn build(v: &V) -> Self { match v { V::B(b) => *b, _ => panic!("harness: bool") } }
    fn show(&self) -> V { V::B(*self) }
    fn scan(r: &mut &[u8], _c: Compress) -> Result<(), bool> { if take(r, 1)?[0] > 1 { Err(false) } else { Ok(()) } }
}
impl Tv for Ml {
    fn ty() -> String { "ml".into() }
    fn gen(g: &mut Gen, _d: u32) -> V {
        let mut x = match g.rng.below(6) { 0 => 0, 1 => 255, 2 => 0xEE, 3 => 0xED, _ => (g.rng.next() & 0xff) as u8 };
        if x == 0xEE && !(g.invalid_ok && g.rng.below(2) == 0) { x = 0xEF; }
        V::I(x as i128)
    }
    fn build(v: &V) -> Self { match v { V::I(i) => Ml(*i as u8), _ => panic!("harness: ml") } }
    fn show(&self) -> V { V::I(self.0 as i128) }
    fn scan(r: &mut &[u8], c: Compress) -> Result<(), bool> {
        match c {
            Compress::Yes => { take(r, 1)?; Ok(()) },
            Compress::No => { let b = take(r, 2)?; if b[1] != 255 - b[0] { Err(false) } else { Ok(()) } },
        }
    }
}
impl<T> Tv for PhantomData<T> {
    fn ty() -> String { "ph".into() }
    fn gen(_g: &mut Gen, _d: u32) -> V { V::Seq(vec![]) }
    fn build(_v: &V) -> Self { PhantomData }
    fn show(&self) -> V { V::Seq(vec![]) }
    fn scan(_r: &mut &[u8], _c: Compress) -> Result<(), bool> { Ok(()) }
}
const FRAGS: [&str; 14] = ["", "a", "z~", "h\u{e9}llo", "\u{65e5}\u{672c}\u{8a9e}", "\u{1f600}", "\u{0}", "\u{7f}\u{80}", "\u{7ff}\u{800}",
    "\u{ffff}\u{10000}", "\u{10ffff}", "\u{d7ff}\u{e000}", "\u{fffd}", " \t\n"];
impl Tv for String {
    fn ty() -> String { "str".into() }
    fn gen(g: &mut Gen, d: u32) -> V {
        let n = g.len(d + 1);
        let mut s = String::new();
        for _ in 0..n {
            if g.rng.below(3) == 0 { s.push((b'a' + g.rng.below(26) as u8) as char); } else { s.push_str(FRAGS[g.rng.below(14) as usize]); }
        }
        V::S(s.into_bytes())
    }
    fn build(v: &V) -> Self { match v { V::S(b) => String::from_utf8(b.clone()).unwrap(), _ => panic!("harness: str") } }
    fn show(&self) -> V { V::S(self.as_bytes().to_vec()) }
    fn scan(r: &mut &[u8], _c: Compress) -> Result<(), bool> { let l = scan_len(r)?; take(r, l as usize)?; Ok(()) }
}
impl Tv for BigUint {
    fn ty() -> String { "big".into() }
    fn gen(g: &mut Gen, _d: u32) -> V {
        let b = match g.rng.below(10) {
            0 => BigUint::from(0u8), 1 => BigUint::from(1u8), 2 => BigUint::from(255u8), 3 => BigUint::from(256u16),
            4 => BigUint::from(u64::MAX), 5 => BigUint::from(u64::MAX) + 1u8,
            _ => { let n = 1 + g.rng.below(40) as usize; BigUint::from_bytes_le(&(0..n).map(|_| g.rng.next() as u8).collect::<Vec<_>>()) },
        };
        V::Big(b)
    }
    fn build(v: &V) -> Self { match v { V::Big(b) => b.clone(), V::I(i) => BigUint::from(*i as u128), _ => panic!("harness: big") } }
    fn show(&self) -> V { V::Big(self.clone()) }
    fn scan(r: &mut &[u8], _c: Compress) -> Result<(), bool> { let l = scan_len(r)?; take(r, l as usize)?; Ok(()) }
}
impl<T: Tv> Tv for Option<T> {
    fn ty() -> String { format!("opt({})", T::ty()) }
    fn gen(g: &mut Gen, d: u32) -> V { if g.rng.below(3) == 0 { V::None } else { V::Some(Box::new(T::gen(g, d + 1))) } }
    fn build(v: &V) -> Self { match v { V::None => None, V::Some(x) => Some(T::build(x)), _ => panic!("harness: opt") } }
    fn show(&self) -> V { match self { None => V::None, Some(x) => V::Some(Box::new(x.show())) } }
    fn huge(&self) -> u64 { self.as_ref().map(|x| x.huge()).unwrap_or(0) }
    fn scan(r: &mut &[u8], c: Compress) -> Result<(), bool> { let b = take(r, 1)?[0]; if b > 1 { Err(false) } else if b == 1 { T::scan(r, c) } else { Ok(()) } }
}
impl Tv for () {
    fn ty() -> String { "tup()".into() }
    fn gen(_g: &mut Gen, _d: u32) -> V { V::Seq(vec![]) }
    fn build(_v: &V) -> Self {}
    fn show(&self) -> V { V::Seq(vec![]) }
    fn scan(_r: &mut &[u8], _c: Compress) -> Result<(), bool> { Ok(()) }
}
macro_rules! tv_tuple {
    ($($T:ident : $i:tt),+) => {
        impl<$($T: Tv),+> Tv for ($($T,)+) {
            fn ty() -> String { format!("tup({})", [$($T::ty()),+].join(",")) }
            fn gen(g: &mut Gen, d: u32) -> V { V::Seq(vec![$($T::gen(g, d + 1)),+]) }
            fn build(v: &V) -> Self { let s = seq(v); ($($T::build(&s[$i]),)+) }
            fn show(&self) -> V { V::Seq(vec![$(self.$i.show()),+]) }
            fn huge(&self) -> u64 { 0 $(.max(self.$i.huge()))+ }
            fn scan(r: &mut &[u8], c: Compress) -> Result<(), bool> { $($T::scan(r, c)?;)+ Ok(()) }
        }
    };
}
tv_tuple!(A:0); tv_tuple!(A:0, B:1); tv_tuple!(A:0, B:1, C:2); tv_tuple!(A:0, B:1, C:2, D:3); tv_tuple!(A:0, B:1, C:2, D:3, E:4);

impl<T: Tv, const N: usize> Tv for [T; N] {
    fn ty() -> String { format!("arr{:x}({})", N, T::ty()) }
    fn gen(g: &mut Gen, d: u32) -> V { V::Seq((0..N).map(|_| T::gen(g, d + 1)).collect()) }
    fn build(v: &V) -> Self { let s = seq(v); core::array::from_fn(|i| T::build(&s[i])) }
    fn show(&self) -> V { V::Seq(self.iter().map(|x| x.show()).collect()) }
    fn huge(&self) -> u64 { self.iter().map(|x| x.huge()).max().unwrap_or(0) }
    fn scan(r: &mut &[u8], c: Compress) -> Result<(), bool> { for _ in 0..N { T::scan(r, c)?; } Ok(()) }
}
macro_rules! tv_seq {
    ($C:ident, $fmt:expr, $push:ident) => {
        impl<T: Tv> Tv for $C<T> {
            fn ty() -> String { format!($fmt, core::mem::size_of::<T>(), T::ty()) }
            fn gen(g: &mut Gen, d: u32) -> V { let n = g.len(d); V::Seq((0..n).map(|_| T::gen(g, d + 1)).collect()) }
            fn build(v: &V) -> Self { let mut c = $C::new(); for x in seq(v) { c.$push(T::build(x)); } c }
            fn show(&self) -> V { V::Seq(self.iter().map(|x| x.show()).collect()) }
            fn scan(r: &mut &[u8], c: Compress) -> Result<(), bool> { let l = scan_len(r)?; for _ in 0..l { T::scan(r, c)?; } Ok(()) }
            fn huge(&self) -> u64 {
                if self.len() as u64 > HUGE_LEN { self.len() as u64 } else { self.iter().map(|x| x.huge()).max().unwrap_or(0) }
            }
        }
    };
}
tv_seq!(Vec, "vec{:x}({})", push);
tv_seq!(VecDeque, "deq{:x}({})", push_back);
impl<T: Tv> Tv for LinkedList<T> {
    fn ty() -> String { format!("list({})", T::ty()) }
    fn gen(g: &mut Gen, d: u32) -> V { let n = g.len(d); V::Seq((0..n).map(|_| T::gen(g, d + 1)).collect()) }
    fn build(v: &V) -> Self { let mut c = LinkedList::new(); for x in seq(v) { c.push_back(T::build(x)); } c }
    fn show(&self) -> V { V::Seq(self.iter().map(|x| x.show()).collect()) }
    fn scan(r: &mut &[u8], c: Compress) -> Result<(), bool> { let l = scan_len(r)?; for _ in 0..l { T::scan(r, c)?; } Ok(()) }
    fn huge(&self) -> u64 {
        if self.len() as u64 > HUGE_LEN { self.len() as u64 } else { self.iter().map(|x| x.huge()).max().unwrap_or(0) }
    }
}
impl<T: Tv + Ord> Tv for BTreeSet<T> {
    fn ty() -> String { format!("set({})", T::ty()) }
    /// insertion sequence: unsorted, with repeats
    fn gen(g: &mut Gen, d: u32) -> V {
        let n = g.len(d);
        let mut xs: Vec<V> = Vec::new();
        for _ in 0..n {
            if !xs.is_empty() && g.rng.below(4) == 0 { let j = g.rng.below(xs.len() as u64) as usize; xs.push(xs[j].clone()); } else { xs.push(T::gen(g, d + 1)); }
        }
        V::Seq(xs)
    }
    fn build(v: &V) -> Self { let mut c = BTreeSet::new(); for x in seq(v) { c.insert(T::build(x)); } c }
    fn show(&self) -> V { V::Seq(self.iter().map(|x| x.show()).collect()) }
    fn scan(r: &mut &[u8], c: Compress) -> Result<(), bool> { let l = scan_len(r)?; for _ in 0..l { T::scan(r, c)?; } Ok(()) }
    fn huge(&self) -> u64 {
        if self.len() as u64 > HUGE_LEN { self.len() as u64 } else { self.iter().map(|x| x.huge()).max().unwrap_or(0) }
    }
}
impl<K: Tv + Ord, W: Tv> Tv for BTreeMap<K, W> {
    fn ty() -> String { format!("map({},{})", K::ty(), W::ty()) }
    fn gen(g: &mut Gen, d: u32) -> V {
        let n = g.len(d);
        let mut xs: Vec<V> = Vec::new();
        for _ in 0..n {
            let k = if !xs.is_empty() && g.rng.below(4) == 0 { let j = g.rng.below(xs.len() as u64) as usize; seq(&xs[j])[0].clone() } else { K::gen(g, d + 1) };
            xs.push(V::Seq(vec![k, W::gen(g, d + 1)]));
        }
        V::Seq(xs)
    }
    fn build(v: &V) -> Self { let mut c = BTreeMap::new(); for e in seq(v) { let e = seq(e); c.insert(K::build(&e[0]), W::build(&e[1])); } c }
    fn show(&self) -> V { V::Seq(self.iter().map(|(k, w)| V::Seq(vec![k.show(), w.show()])).collect()) }
    fn scan(r: &mut &[u8], c: Compress) -> Result<(), bool> { let l = scan_len(r)?; for _ in 0..l { K::scan(r, c)?; W::scan(r, c)?; } Ok(()) }
    fn huge(&self) -> u64 {
        if self.len() as u64 > HUGE_LEN { self.len() as u64 } else { self.iter().map(|(k, w)| k.huge().max(w.huge())).max().unwrap_or(0) }
    }
}
macro_rules! tv_wrap {
    ($W:ident, $name:expr, $mk:expr, $pin:expr, $($bound:tt)*) => {
        impl<T: Tv $($bound)*> Tv for $W<T> {
            fn ty() -> String { format!("{}({})", $name, T::ty()) }
            fn gen(g: &mut Gen, d: u32) -> V { T::gen(g, d) }
            fn build(v: &V) -> Self { $mk(T::build(v)) }
            fn show(&self) -> V { (**self).show() }
            fn huge(&self) -> u64 { (**self).huge() }
            fn scan(r: &mut &[u8], c: Compress) -> Result<(), bool> { let p: Option<Compress> = $pin; T::scan(r, p.unwrap_or(c)) }
        }
    };
}
tv_wrap!(Arc, "arc", Arc::new, None,);
tv_wrap!(Rc, "rc", Rc::new, None,);
tv_wrap!(CompressedUnchecked, "cu", CompressedUnchecked, Some(Compress::Yes),);
tv_wrap!(UncompressedUnchecked, "uu", UncompressedUnchecked, Some(Compress::No),);
tv_wrap!(CompressedChecked, "cc", CompressedChecked, Some(Compress::Yes),);
tv_wrap!(UncompressedChecked, "uc", UncompressedChecked, Some(Compress::No),);
impl<T: Tv + Clone> Tv for Cow<'static, T> {
    fn ty() -> String { format!("cow({})", T::ty()) }
    fn gen(g: &mut Gen, d: u32) -> V { T::gen(g, d) }
    fn build(v: &V) -> Self { Cow::Owned(T::build(v)) }
    fn show(&self) -> V { self.as_ref().show() }
    fn huge(&self) -> u64 { self.as_ref().huge() }
    fn scan(r: &mut &[u8], c: Compress) -> Result<(), bool> { T::scan(r, c) }
}

// derive structs: `st(field types as written)`
impl Tv for Named {
    fn ty() -> String { "st(u64,tup(u64,tup(u64,u64)))".into() }
    fn gen(g: &mut Gen, d: u32) -> V { V::Seq(vec![u64::gen(g, d), <(u64, (u64, u64))>::gen(g, d)]) }
    fn build(v: &V) -> Self { let s = seq(v); Named { a: Tv::build(&s[0]), b: Tv::build(&s[1]) } }
    fn show(&self) -> V { V::Seq(vec![self.a.show(), self.b.show()]) }
    fn scan(r: &mut &[u8], c: Compress) -> Result<(), bool> { <(u64, (u64, (u64, u64)))>::scan(r, c) }
}
impl Tv for TupS {
    fn ty() -> String { "st(u8,bool,opt(u16))".into() }
    fn gen(g: &mut Gen, d: u32) -> V { V::Seq(vec![u8::gen(g, d), bool::gen(g, d), <Option<u16>>::gen(g, d)]) }
    fn build(v: &V) -> Self { let s = seq(v); TupS(Tv::build(&s[0]), Tv::build(&s[1]), Tv::build(&s[2])) }
    fn show(&self) -> V { V::Seq(vec![self.0.show(), self.1.show(), self.2.show()]) }
    fn scan(r: &mut &[u8], c: Compress) -> Result<(), bool> { <(u8, bool, Option<u16>)>::scan(r, c) }
}
impl Tv for Nested {
    fn ty() -> String { format!("st({},{},tup(),{})", <(u8, (u16, (u32,)))>::ty(), <Vec<u8>>::ty(), <(Ml, (bool, String))>::ty()) }
    fn gen(g: &mut Gen, d: u32) -> V { V::Seq(vec![<(u8, (u16, (u32,)))>::gen(g, d), <Vec<u8>>::gen(g, d + 1), V::Seq(vec![]), <(Ml, (bool, String))>::gen(g, d)]) }
    fn build(v: &V) -> Self { let s = seq(v); Nested(Tv::build(&s[0]), Tv::build(&s[1]), (), Tv::build(&s[3])) }
    fn show(&self) -> V { V::Seq(vec![self.0.show(), self.1.show(), V::Seq(vec![]), self.3.show()]) }
    fn scan(r: &mut &[u8], c: Compress) -> Result<(), bool> { <((u8, (u16, (u32,))), Vec<u8>, (), (Ml, (bool, String)))>::scan(r, c) }
}
impl<T: Tv + CanonicalSerialize + CanonicalDeserialize + Send + Sync> Tv for Gen1<T> {
    fn ty() -> String { format!("st({},{},ph)", T::ty(), <Vec<T>>::ty()) }
    fn gen(g: &mut Gen, d: u32) -> V { V::Seq(vec![T::gen(g, d + 1), <Vec<T>>::gen(g, d + 1), V::Seq(vec![])]) }
    fn build(v: &V) -> Self { let s = seq(v); Gen1 { x: Tv::build(&s[0]), y: Tv::build(&s[1]), z: PhantomData } }
    fn show(&self) -> V { V::Seq(vec![self.x.show(), self.y.show(), V::Seq(vec![])]) }
    fn scan(r: &mut &[u8], c: Compress) -> Result<(), bool> { <(T, Vec<T>)>::scan(r, c) }
}
impl<A: Tv + CanonicalSerialize + CanonicalDeserialize, B: Tv + CanonicalSerialize + CanonicalDeserialize> Tv for Gen2<A, B> {
    fn ty() -> String { format!("st({},tup({},{}))", A::ty(), B::ty(), A::ty()) }
    fn gen(g: &mut Gen, d: u32) -> V { V::Seq(vec![A::gen(g, d + 1), V::Seq(vec![B::gen(g, d + 1), A::gen(g, d + 1)])]) }
    fn build(v: &V) -> Self { let s = seq(v); let t = seq(&s[1]); Gen2(Tv::build(&s[0]), (Tv::build(&t[0]), Tv::build(&t[1]))) }
    fn show(&self) -> V { V::Seq(vec![self.0.show(), V::Seq(vec![self.1 .0.show(), self.1 .1.show()])]) }
    fn scan(r: &mut &[u8], c: Compress) -> Result<(), bool> { <(A, (B, A))>::scan(r, c) }
}
impl Tv for UnitS {
    fn ty() -> String { "st()".into() }
    fn gen(_g: &mut Gen, _d: u32) -> V { V::Seq(vec![]) }
    fn build(_v: &V) -> Self { UnitS }
    fn show(&self) -> V { V::Seq(vec![]) }
    fn scan(_r: &mut &[u8], _c: Compress) -> Result<(), bool> { Ok(()) }
}
impl Tv for EmptyS {
    fn ty() -> String { "st()".into() }
    fn gen(_g: &mut Gen, _d: u32) -> V { V::Seq(vec![]) }
    fn build(_v: &V) -> Self { EmptyS {} }
    fn show(&self) -> V { V::Seq(vec![]) }
    fn scan(_r: &mut &[u8], _c: Compress) -> Result<(), bool> { Ok(()) }
}
impl Tv for Deep {
    fn ty() -> String {
        format!("st({},{},{},{})", Named::ty(), <Vec<TupS>>::ty(), <BTreeMap<u8, Gen2<u8, bool>>>::ty(), <(CompressedUnchecked<Ml>, [Ml; 2])>::ty())
    }
    fn gen(g: &mut Gen, d: u32) -> V {
        V::Seq(vec![Named::gen(g, d + 1), <Vec<TupS>>::gen(g, d + 1), <BTreeMap<u8, Gen2<u8, bool>>>::gen(g, d + 1), <(CompressedUnchecked<Ml>, [Ml; 2])>::gen(g, d + 1)])
    }
    fn build(v: &V) -> Self { let s = seq(v); Deep { inner: Tv::build(&s[0]), v: Tv::build(&s[1]), m: Tv::build(&s[2]), w: Tv::build(&s[3]) } }
    fn show(&self) -> V { V::Seq(vec![self.inner.show(), self.v.show(), self.m.show(), self.w.show()]) }
    fn scan(r: &mut &[u8], c: Compress) -> Result<(), bool> { <(Named, Vec<TupS>, BTreeMap<u8, Gen2<u8, bool>>, (CompressedUnchecked<Ml>, [Ml; 2]))>::scan(r, c) }
}

// ------------------------------------------------------------------ registry
type SerFn = fn(&V, Compress) -> (Vec<u8>, usize);
type DeFn = fn(&[u8], Compress, Validate) -> String;
type RiskFn = fn(&[u8], Compress) -> bool;
fn risk_fn<T: Tv>(b: &[u8], c: Compress) -> bool { let mut r = b; T::scan(&mut r, c) == Err(true) }
struct Entry { ty: String, zw: bool, big: usize, ser: SerFn, de: Option<DeFn>, risk: RiskFn, gen: fn(&mut Gen, u32) -> V }

fn ser_fn<T: Tv + CanonicalSerialize>(v: &V, c: Compress) -> (Vec<u8>, usize) {
    let x = T::build(v);
    let mut b = Vec::new();
    x.serialize_with_mode(&mut b, c).unwrap();
    (b, x.serialized_size(c))
}
/// `&T` and `&mut T`
fn ser_ref<T: Tv + CanonicalSerialize>(v: &V, c: Compress) -> (Vec<u8>, usize) {
    let x = T::build(v);
    let r: &T = &x;
    let mut b = Vec::new();
    CanonicalSerialize::serialize_with_mode(&r, &mut b, c).unwrap();
    (b, CanonicalSerialize::serialized_size(&r, c))
}
fn ser_mut<T: Tv + CanonicalSerialize>(v: &V, c: Compress) -> (Vec<u8>, usize) {
    let mut x = T::build(v);
    let r: &mut T = &mut x;
    let mut b = Vec::new();
    CanonicalSerialize::serialize_with_mode(&r, &mut b, c).unwrap();
    (b, CanonicalSerialize::serialized_size(&r, c))
}
/// `&[T]` (and `[T]` underneath)
fn ser_slice<T: Tv + CanonicalSerialize>(v: &V, c: Compress) -> (Vec<u8>, usize) {
    let x = <Vec<T>>::build(v);
    let r: &[T] = &x[..];
    let mut b = Vec::new();
    CanonicalSerialize::serialize_with_mode(&r, &mut b, c).unwrap();
    (b, CanonicalSerialize::serialized_size(&r, c))
}
fn err_class(e: &SerializationError) -> &'static str {
    match e {
        SerializationError::NotEnoughSpace => "err:notenough",
        SerializationError::InvalidData => "err:invalid",
        SerializationError::UnexpectedFlags => "err:flags",
        SerializationError::IoError(_) => "err:io",
    }
}
fn de_fn<T: Tv + CanonicalDeserialize>(bytes: &[u8], c: Compress, v: Validate) -> String {
    guarded(|| {
        let mut r = &bytes[..];
        match T::deserialize_with_mode(&mut r, c, v) {
            Ok(x) => {
                let consumed = bytes.len() - r.len();
                let h = x.huge();
                let s = if h > 0 { format!("ok-huge {:x} {:x}", h, consumed) } else { format!("ok {} {:x}", showv(&x.show()), consumed) };
                if h > 0 { std::mem::forget(x); } // dropping a huge list would outlast the watchdog
                s
            },
            Err(e) => err_class(&e).into(),
        }
    })
}
fn big_of(ty: &str) -> usize { if ty.matches('(').count() <= 1 { 200 } else { 24 } }
fn entry<T: Tv + CanonicalSerialize + CanonicalDeserialize>() -> Entry {
    let ty = T::ty();
    Entry { big: big_of(&ty), ty, zw: false, ser: ser_fn::<T>, de: Some(de_fn::<T>), risk: risk_fn::<T>, gen: T::gen }
}
fn entry_zw<T: Tv + CanonicalSerialize + CanonicalDeserialize>() -> Entry { let mut e = entry::<T>(); e.zw = true; e }
fn entry_ser<T: Tv + CanonicalSerialize>() -> Entry {
    let ty = T::ty();
    Entry { big: big_of(&ty), ty, zw: false, ser: ser_fn::<T>, de: None, risk: risk_fn::<T>, gen: T::gen }
}
fn entry_custom<T: Tv>(name: &str, ser: SerFn) -> Entry {
    let ty = format!("{}({})", name, T::ty());
    Entry { big: big_of(&ty), ty, zw: false, ser, de: None, risk: risk_fn::<T>, gen: T::gen }
}

macro_rules! reg { ($v:ident; $($t:ty),* $(,)?) => { $( $v.push(entry::<$t>()); )* } }

fn registry() -> Vec<Entry> {
    let mut r: Vec<Entry> = Vec::new();
    // leaves
    reg!(r; u8, u16, u32, u64, usize, i8, i16, i32, i64, isize, bool, (), PhantomData<u64>, String, BigUint, Ml);
    // one level
    reg!(r; Option<u8>, Option<bool>, Option<String>, Option<Ml>, Option<()>,
        (u8,), (u8, u16), (i8, bool, u32), (u64, String, bool, i16), (u8, u16, u32, u64, bool), (Ml, bool, Ml),
        [u8; 0], [u8; 1], [u16; 3], [i64; 4], [bool; 33], [Ml; 2], [String; 2],
        Vec<u8>, Vec<u16>, Vec<u64>, Vec<i32>, Vec<bool>, Vec<String>, Vec<Ml>, Vec<BigUint>, Vec<usize>,
        VecDeque<u8>, VecDeque<u16>, VecDeque<bool>, VecDeque<Ml>, VecDeque<String>,
        LinkedList<u8>, LinkedList<u32>, LinkedList<Ml>, LinkedList<String>,
        BTreeMap<u8, u8>, BTreeMap<String, u64>, BTreeMap<u16, Ml>, BTreeMap<Ml, bool>, BTreeMap<i8, String>, BTreeMap<bool, ()>,
        BTreeSet<u8>, BTreeSet<String>, BTreeSet<i16>, BTreeSet<Ml>, BTreeSet<bool>, BTreeSet<BigUint>,
        Arc<u64>, Arc<Vec<u8>>, Arc<String>, Cow<'static, u32>, Cow<'static, Vec<u16>>, Cow<'static, String>, Cow<'static, Ml>,
        CompressedChecked<Ml>, CompressedUnchecked<Ml>, UncompressedChecked<Ml>, UncompressedUnchecked<Ml>,
        CompressedChecked<u32>, UncompressedUnchecked<String>);
    // mode threading through containers and wrappers
    reg!(r; CompressedChecked<Vec<Ml>>, UncompressedUnchecked<Vec<Ml>>, Vec<CompressedUnchecked<Ml>>, Vec<UncompressedChecked<Ml>>,
        [CompressedUnchecked<Ml>; 2], (CompressedUnchecked<Ml>, Ml), (UncompressedChecked<Ml>, CompressedChecked<Ml>, Ml),
        UncompressedUnchecked<CompressedChecked<Ml>>, CompressedChecked<UncompressedUnchecked<Ml>>,
        Option<CompressedUnchecked<Ml>>, BTreeMap<u8, UncompressedUnchecked<Ml>>, BTreeSet<CompressedUnchecked<Ml>>,
        LinkedList<UncompressedUnchecked<Ml>>, VecDeque<CompressedChecked<Ml>>, Arc<Ml>, Vec<Option<Ml>>, Vec<(u8, Ml)>, [Option<Ml>; 3],
        Option<Vec<Ml>>, Vec<Vec<Ml>>, BTreeMap<Ml, Vec<Ml>>);
    // nesting
    reg!(r; Vec<Vec<u8>>, Vec<Option<u16>>, Option<Vec<u8>>, Option<Option<bool>>, Vec<(u8, String)>, Vec<[u8; 3]>, [Vec<u8>; 2],
        BTreeMap<u8, Vec<u16>>, BTreeMap<(u8, bool), BTreeSet<u8>>, BTreeMap<Vec<u8>, String>, BTreeMap<BigUint, u8>, BTreeMap<Option<u8>, Option<String>>,
        BTreeSet<Vec<u8>>, BTreeSet<Option<u8>>, BTreeSet<(u8, i8)>, BTreeSet<BTreeSet<u8>>, BTreeSet<[u8; 2]>, BTreeMap<String, BTreeMap<u8, bool>>,
        VecDeque<Vec<bool>>, LinkedList<Option<Vec<u8>>>, Vec<VecDeque<u16>>, Vec<LinkedList<u8>>, Vec<BTreeSet<u8>>,
        Vec<Vec<Vec<u8>>>, Vec<BTreeMap<u8, Vec<Option<Ml>>>>, Option<(Vec<u8>, BTreeMap<u8, String>)>,
        Arc<Vec<Arc<String>>>, Cow<'static, Vec<Cow<'static, u8>>>, (BigUint, String, Vec<bool>), ((u8, (u16,)), ((), bool)),
        Vec<(Option<u8>, [bool; 2], String)>, BTreeMap<u8, (Vec<u8>, Option<BTreeSet<i8>>)>);
    // derive macro output
    reg!(r; Named, TupS, Nested, Gen1<u16>, Gen1<Ml>, Gen1<Vec<u8>>, Gen2<u8, bool>, Gen2<String, Option<Ml>>, Gen2<(u8, u8), Named>, UnitS, EmptyS, Deep,
        Vec<Named>, Vec<TupS>, Option<Nested>, BTreeMap<TupS, Named>, BTreeSet<Gen2<u8, bool>>, [TupS; 2], CompressedChecked<Deep>, UncompressedUnchecked<Gen1<Ml>>);
    // containers of zero-width elements (restricted malformed streams)
    r.push(entry_zw::<Vec<()>>());
    r.push(entry_zw::<VecDeque<PhantomData<u8>>>());
    r.push(entry_zw::<LinkedList<()>>());
    r.push(entry_zw::<BTreeSet<()>>());
    r.push(entry_zw::<Vec<[u8; 0]>>());
    r.push(entry_zw::<Vec<UnitS>>());
    r.push(entry_zw::<BTreeMap<(), ()>>());
    r.push(entry_zw::<Vec<Vec<()>>>());
    // serialise-only wrappers
    r.push(entry_ser::<Rc<u64>>());
    r.push(entry_ser::<Rc<Vec<Ml>>>());
    r.push(entry_ser::<Rc<String>>());
    r.push(entry_ser::<Vec<Rc<u8>>>());
    r.push(entry_custom::<u64>("ref", ser_ref::<u64>));
    r.push(entry_custom::<Vec<Ml>>("ref", ser_ref::<Vec<Ml>>));
    r.push(entry_custom::<BTreeMap<u8, String>>("ref", ser_ref::<BTreeMap<u8, String>>));
    r.push(entry_custom::<String>("mut", ser_mut::<String>));
    r.push(entry_custom::<(u8, Ml)>("mut", ser_mut::<(u8, Ml)>));
    r.push(entry_custom::<u8>("slice", ser_slice::<u8>));
    r.push(entry_custom::<Ml>("slice", ser_slice::<Ml>));
    r.push(entry_custom::<String>("slice", ser_slice::<String>));
    r.push(entry_custom::<Vec<u8>>("slice", ser_slice::<Vec<u8>>));
    r
}
// `entry_custom::<T>("slice", …)` generates element values; wrap them into a sequence
fn gen_for(e: &Entry, g: &mut Gen) -> V {
    if e.ty.starts_with("slice(") {
        let n = g.len(0);
        V::Seq((0..n).map(|_| (e.gen)(g, 1)).collect())
    } else {
        (e.gen)(g, 0)
    }
}

// ------------------------------------------------------------------ child process (the `de` runner)
fn mode_str(c: Compress, v: Validate) -> &'static str {
    match (c, v) { (Compress::Yes, Validate::Yes) => "cy", (Compress::Yes, Validate::No) => "cn", (Compress::No, Validate::Yes) => "uy", (Compress::No, Validate::No) => "un" }
}
fn parse_mode(s: &str) -> (Compress, Validate) {
    let b = s.as_bytes();
    (if b[0] == b'c' { Compress::Yes } else { Compress::No }, if b[1] == b'y' { Validate::Yes } else { Validate::No })
}

static DEADLINE: AtomicU64 = AtomicU64::new(0);
fn child_main() {
    std::panic::set_hook(Box::new(|_| {}));
    let reg = registry();
    let t0 = std::time::Instant::now();
    std::thread::spawn(move || loop {
        std::thread::sleep(std::time::Duration::from_millis(20));
        let d = DEADLINE.load(AO::SeqCst);
        if d != 0 && t0.elapsed().as_millis() as u64 > d { std::process::exit(77); }
    });
    let stdin = std::io::stdin();
    let stdout = std::io::stdout();
    let mut line = String::new();
    loop {
        line.clear();
        if stdin.lock().read_line(&mut line).unwrap_or(0) == 0 { break; }
        let mut it = line.trim_end().split(' ');
        let idx: usize = it.next().unwrap().parse().unwrap();
        let (c, v) = parse_mode(it.next().unwrap());
        let bytes = unhex(it.next().unwrap());
        DEADLINE.store(t0.elapsed().as_millis() as u64 + WATCHDOG_MS, AO::SeqCst);
        let res = (reg[idx].de.unwrap())(&bytes, c, v);
        DEADLINE.store(0, AO::SeqCst);
        let mut o = stdout.lock();
        writeln!(o, "{}", res).unwrap();
        o.flush().unwrap();
    }
}

struct Runner { child: Option<(Child, ChildStdin, BufReader<ChildStdout>)>, spawned: u64 }
impl Runner {
    fn new() -> Self { Runner { child: None, spawned: 0 } }
    fn spawn(&mut self) {
        let exe = std::env::current_exe().unwrap();
        let mut ch = Command::new("sh")
            .arg("-c")
            .arg(format!("ulimit -c 0; ulimit -v {}; exec \"$0\" __child", MEM_LIMIT_KIB))
            .arg(exe)
            .env("RUST_BACKTRACE", "0")
            .stdin(Stdio::piped()).stdout(Stdio::piped()).stderr(Stdio::null())
            .spawn().expect("spawn child");
        let i = ch.stdin.take().unwrap();
        let o = BufReader::new(ch.stdout.take().unwrap());
        self.child = Some((ch, i, o));
        self.spawned += 1;
    }
    fn de(&mut self, idx: usize, mode: &str, hex: &str) -> String {
        if self.child.is_none() { self.spawn(); }
        let (_, i, o) = self.child.as_mut().unwrap();
        let ok = writeln!(i, "{} {} {}", idx, mode, hex).is_ok() && i.flush().is_ok();
        let mut line = String::new();
        let n = if ok { o.read_line(&mut line).unwrap_or(0) } else { 0 };
        if n > 0 { return line.trim_end().to_string(); }
        // the child died on this case
        let (mut ch, i, o) = self.child.take().unwrap();
        drop(i); drop(o);
        let st = ch.wait().unwrap();
        use std::os::unix::process::ExitStatusExt;
        match (st.code(), st.signal()) {
            (Some(77), _) => "timeout".into(),
            (_, Some(6)) | (Some(134), _) => "abort".into(),
            (c, s) => format!("crash:{:?}:{:?}", c, s),
        }
    }
}

// ------------------------------------------------------------------ stream generation
const HUGE: [u64; 14] = [0x7fff_ffff, 0x8000_0000, 1 << 32, 1 << 34, 1 << 40, 1 << 48, 1 << 56, (1 << 60) - 1, 1 << 60, 1 << 61,
    (1 << 63) - 1, 1 << 63, u64::MAX - 1, u64::MAX];
const BAD_UTF8: [&[u8]; 22] = [&[0xff], &[0x80], &[0xbf], &[0xc0, 0x80], &[0xc1, 0xbf], &[0xc2], &[0xc2, 0x41], &[0xe0, 0x80, 0x80], &[0xe0, 0x9f, 0xbf],
    &[0xed, 0xa0, 0x80], &[0xed, 0xbf, 0xbf], &[0xe1, 0x80], &[0xe1, 0x80, 0x61], &[0xf0, 0x80, 0x80, 0x80], &[0xf0, 0x8f, 0xbf, 0xbf],
    &[0xf4, 0x90, 0x80, 0x80], &[0xf5, 0x80, 0x80, 0x80], &[0xf1, 0x80, 0x80], &[0xf8, 0x88, 0x80, 0x80, 0x80], &[0x61, 0xc2], &[0x61, 0xe1, 0x80, 0xe1],
    &[0xfe]];

struct Ctx<'a> { out: &'a mut Out, run: &'a mut Runner, rng: Rng, thorough: bool, in_child: u64 }
impl<'a> Ctx<'a> {
    fn de(&mut self, idx: usize, e: &Entry, tag: &str, c: Compress, v: Validate, bytes: &[u8]) {
        let m = mode_str(c, v);
        let h = hexs(bytes);
        let r = if (e.risk)(bytes, c) { self.in_child += 1; self.run.de(idx, m, &h) } else { (e.de.unwrap())(bytes, c, v) };
        self.out.line(&format!("C18 de {} {} {} {}", tag, m, e.ty, h), &r);
    }
}
fn other(c: Compress) -> Compress { match c { Compress::Yes => Compress::No, Compress::No => Compress::Yes } }
fn top_prefixed(ty: &str) -> bool {
    ty.starts_with("vec") || ty.starts_with("deq") || ty.starts_with("list(") || ty == "str" || ty == "big" || ty.starts_with("map(") || ty.starts_with("set(")
}

fn streams(cx: &mut Ctx, idx: usize, e: &Entry, val: &V, valid: bool) {
    let vtag = if valid { "v" } else { "i" };
    for c in [Compress::Yes, Compress::No] {
        let cs = if c == Compress::Yes { "c" } else { "u" };
        let (bytes, size) = (e.ser)(val, c);
        cx.out.line(&format!("C18 ser {} {} {}", cs, e.ty, showv(val)), &format!("{} {:x}", hexs(&bytes), size));
        if e.de.is_none() { continue; }
        let has_ml = e.ty.contains("ml");
        // complete encoding, both validation modes; with trailing bytes; in the other compress mode
        cx.de(idx, e, vtag, c, Validate::Yes, &bytes);
        cx.de(idx, e, vtag, c, Validate::No, &bytes);
        if valid {
            let mut b = bytes.clone();
            b.extend_from_slice(&[0xab, 0x01, 0x00]);
            let vd = if cx.rng.below(2) == 0 { Validate::Yes } else { Validate::No };
            cx.de(idx, e, "x", c, vd, &b);
        }
        if has_ml { cx.de(idx, e, "m", other(c), Validate::Yes, &bytes); }
        let n = bytes.len();
        if n == 0 { continue; }
        // truncations
        if valid {
            let cuts: Vec<usize> = if n <= 24 || (cx.thorough && n <= 80) { (0..n).collect() } else {
                let mut k: Vec<usize> = vec![0, 1, 7, 8, 9, n - 1, n - 2, n / 2];
                for _ in 0..(if cx.thorough { 16 } else { 5 }) { k.push(cx.rng.below(n as u64) as usize); }
                k.sort(); k.dedup(); k.retain(|x| *x < n); k
            };
            for k in cuts {
                let vd = if cx.rng.below(4) == 0 { Validate::No } else { Validate::Yes };
                cx.de(idx, e, "t", c, vd, &bytes[..k]);
            }
        }
        if e.zw { continue; }
        // single-byte mutations
        let pos: Vec<usize> = if n <= 10 || (cx.thorough && n <= 48) { (0..n).collect() } else {
            let mut k: Vec<usize> = vec![0, 3, 7, 8];
            for _ in 0..(if cx.thorough { 20 } else { 5 }) { k.push(cx.rng.below(n as u64) as usize); }
            k.sort(); k.dedup(); k
        };
        for p in pos {
            let mut vals: Vec<u8> = vec![0x02, 0xff];
            if cx.thorough { vals.extend_from_slice(&[0x00, 0x01, 0x7f, 0x80]); }
            if cx.thorough || cx.rng.below(2) == 0 { vals.push(cx.rng.next() as u8); }
            for x in vals {
                if bytes[p] == x { continue; }
                let mut b = bytes.clone();
                b[p] = x;
                let vd = if cx.rng.below(4) == 0 { Validate::No } else { Validate::Yes };
                cx.de(idx, e, "m", c, vd, &b);
            }
        }
        // 8-byte windows overwritten with huge little-endian values (hits every length prefix)
        if n >= 8 {
            let wins: Vec<usize> = if n <= 14 || (cx.thorough && n <= 64) { (0..=n - 8).collect() } else {
                let mut k: Vec<usize> = vec![0, 8, n - 8];
                for _ in 0..(if cx.thorough { 10 } else { 2 }) { k.push(cx.rng.below((n - 7) as u64) as usize); }
                k.sort(); k.dedup(); k.retain(|x| *x + 8 <= n); k
            };
            for p in wins {
                let cnt = if cx.thorough { 6 } else { 1 };
                for _ in 0..cnt {
                    let h = HUGE[cx.rng.below(HUGE.len() as u64) as usize];
                    let mut b = bytes.clone();
                    b[p..p + 8].copy_from_slice(&h.to_le_bytes());
                    cx.de(idx, e, "m", c, Validate::Yes, &b);
                }
            }
        }
        // oversized top-level length prefix
        if top_prefixed(&e.ty) && n >= 8 {
            let rem = (n - 8) as u64;
            let mut lens: Vec<u64> = vec![rem + 1, rem + 2, 2 * rem + 1, 8 * rem + 9, 64 * rem + 4096, 64 * rem + 4097, 1 << 16, 1 << 20, 1 << 24];
            if cx.thorough { lens.extend_from_slice(&HUGE); } else { for _ in 0..3 { lens.push(HUGE[cx.rng.below(HUGE.len() as u64) as usize]); } }
            for l in lens {
                let mut b = bytes.clone();
                b[..8].copy_from_slice(&l.to_le_bytes());
                cx.de(idx, e, "o", c, Validate::Yes, &b);
            }
        }
    }
}

fn fixed_streams(cx: &mut Ctx, reg: &[Entry]) {
    let find = |ty: &str| reg.iter().position(|e| e.ty == ty).unwrap();
    let all_modes = [(Compress::Yes, Validate::Yes), (Compress::Yes, Validate::No), (Compress::No, Validate::Yes), (Compress::No, Validate::No)];
    // every byte as a bool; as the tag of an Option
    let ib = find("bool");
    for x in 0u16..256 {
        let tag = if x < 2 { "v" } else { "b" };
        for (c, v) in all_modes { cx.de(ib, &reg[ib], tag, c, v, &[x as u8]); }
    }
    let io = find("opt(u8)");
    for x in 2u16..256 { cx.de(io, &reg[io], "b", Compress::Yes, Validate::Yes, &[x as u8, 7]); }
    let iv = find("vec1(bool)");
    for x in [2u8, 3, 0x80, 0xff] {
        let mut b = 3u64.to_le_bytes().to_vec(); b.extend_from_slice(&[1, x, 0]);
        cx.de(iv, &reg[iv], "b", Compress::Yes, Validate::Yes, &b);
        cx.de(iv, &reg[iv], "b", Compress::No, Validate::No, &b);
    }
    // ill-formed UTF-8
    let is = find("str");
    let ivs = find(&<Vec<String>>::ty());
    for bad in BAD_UTF8.iter() {
        for pre in [&b""[..], &b"ab"[..], "\u{e9}".as_bytes()] {
            let mut s = pre.to_vec(); s.extend_from_slice(bad);
            let mut b = (s.len() as u64).to_le_bytes().to_vec(); b.extend_from_slice(&s);
            cx.de(is, &reg[is], "b", Compress::Yes, Validate::Yes, &b);
            cx.de(is, &reg[is], "b", Compress::No, Validate::No, &b);
            let mut w = 1u64.to_le_bytes().to_vec(); w.extend_from_slice(&b);
            cx.de(ivs, &reg[ivs], "b", Compress::Yes, Validate::Yes, &w);
        }
    }
    // BigUint: non-minimal encodings (accepted: the format is not canonical)
    let ig = find("big");
    for bs in [&[][..], &[0][..], &[0, 0][..], &[5, 0][..], &[1, 2, 0, 0, 0][..]] {
        let mut b = (bs.len() as u64).to_le_bytes().to_vec(); b.extend_from_slice(bs);
        cx.de(ig, &reg[ig], "m", Compress::Yes, Validate::Yes, &b);
    }
    // maps / sets: unsorted and repeated keys in the stream
    let im = find("map(u8,u8)");
    for ks in [&[3u8, 1, 2][..], &[1, 1][..], &[2, 1, 2, 1][..], &[255, 0][..], &[5, 5, 5][..]] {
        let mut b = (ks.len() as u64).to_le_bytes().to_vec();
        for (i, k) in ks.iter().enumerate() { b.push(*k); b.push(i as u8 + 10); }
        cx.de(im, &reg[im], "m", Compress::Yes, Validate::Yes, &b);
    }
    let it = find("set(i16)");
    for ks in [&[3i16, -1, 2][..], &[-1, -1][..], &[i16::MAX, i16::MIN, 0][..]] {
        let mut b = (ks.len() as u64).to_le_bytes().to_vec();
        for k in ks { b.extend_from_slice(&k.to_le_bytes()); }
        cx.de(it, &reg[it], "m", Compress::No, Validate::Yes, &b);
    }
    // minimal witnesses of the length-prefix defect (prefix only, no payload)
    for ty in [<Vec<u8>>::ty(), <Vec<u64>>::ty(), <VecDeque<u16>>::ty(), "str".to_string(), "big".to_string(), <Vec<String>>::ty(), <Vec<Vec<u8>>>::ty(),
               <LinkedList<u8>>::ty(), "set(u8)".to_string(), "map(u8,u8)".to_string()] {
        let i = find(&ty);
        for h in HUGE.iter().chain([1u64, 0x100, 0x1001, 1 << 20, 1 << 28].iter()) {
            cx.de(i, &reg[i], "o", Compress::Yes, Validate::Yes, &h.to_le_bytes());
        }
    }
    // containers of zero-width elements with a huge length (few: each may cost the watchdog time)
    for (ty, lens) in [(<Vec<()>>::ty(), vec![1u64 << 40, u64::MAX]), (<VecDeque<PhantomData<u8>>>::ty(), vec![1u64 << 40]),
                       (<LinkedList<()>>::ty(), vec![1u64 << 40]), (<BTreeSet<()>>::ty(), vec![1u64 << 61]),
                       (<Vec<[u8; 0]>>::ty(), vec![1u64 << 61]), (<Vec<UnitS>>::ty(), vec![1u64 << 40]), (<Vec<Vec<()>>>::ty(), vec![1u64 << 40]), (<BTreeMap<(), ()>>::ty(), vec![u64::MAX])] {
        let i = find(&ty);
        for l in lens { cx.de(i, &reg[i], "z", Compress::Yes, Validate::Yes, &l.to_le_bytes()); }
    }
}

fn main() {
    if std::env::args().nth(1).as_deref() == Some("__child") { child_main(); return; }
    let a = arkharness::args();
    let reg = registry();
    let mut out = Out::new();
    let mut run = Runner::new();
    let mut cx = Ctx { out: &mut out, run: &mut run, rng: Rng::new(a.seed ^ 0xC18), thorough: a.thorough, in_child: 0 };
    if a.only.as_deref() != Some("gen") { fixed_streams(&mut cx, &reg); }
    let nvals = if a.thorough { 12 } else { 5 };
    for (idx, e) in reg.iter().enumerate() {
        let mut g = Gen { rng: Rng::new(a.seed.wrapping_mul(1000003).wrapping_add(idx as u64)), invalid_ok: false, top: None };
        for k in 0..nvals {
            g.top = match k { 0 => Some(0), 1 => Some(1), 2 => Some(e.big), _ => None };
            g.invalid_ok = false;
            let v = gen_for(e, &mut g);
            streams(&mut cx, idx, e, &v, true);
        }
        if e.ty.contains("ml") {
            for _ in 0..(if a.thorough { 4 } else { 2 }) {
                g.top = None;
                g.invalid_ok = true;
                let v = gen_for(e, &mut g);
                let valid = !showv(&v).split(|ch: char| !ch.is_ascii_hexdigit()).any(|t| t == "ee");
                streams(&mut cx, idx, e, &v, valid);
            }
        }
    }
    let in_child = cx.in_child;
    eprintln!("c18: {} lines, {} run in the child, {} child processes", out.count, in_child, run.spawned);
    out.flush();
}
