//! C15: BigInt<N> operations, N = 1..13.
#![allow(dead_code, deprecated)]
use arkharness::util::*;
use ark_ff::{biginteger::arithmetic::{find_naf, find_relaxed_naf}, BigInt, BigInteger, BitIteratorBE, BitIteratorLE, signed_mod_reduction};
use ark_serialize::{CanonicalDeserialize, CanonicalSerialize, Compress, Valid, Validate};
use num_bigint::BigUint;
use core::str::FromStr;

/// re-executes this binary with `arg` (a single operation that may not terminate) under a time limit;
/// result: the child's output line, `hang` (killed after `secs`), `stack-overflow` (SIGSEGV/SIGABRT) or `panic`
fn run_child(arg: &str, secs: u64) -> String {
    use std::io::Read;
    use std::process::{Command, Stdio};
    let exe = std::env::current_exe().unwrap();
    let mut ch = Command::new(exe).arg(arg).stdout(Stdio::piped()).stderr(Stdio::null()).spawn().unwrap();
    let t0 = std::time::Instant::now();
    loop {
        match ch.try_wait().unwrap() {
            Some(st) => {
                if st.success() {
                    let mut o = String::new();
                    ch.stdout.take().unwrap().read_to_string(&mut o).unwrap();
                    return o.trim().to_string();
                }
                #[cfg(unix)]
                { use std::os::unix::process::ExitStatusExt; if let Some(sig) = st.signal() { return if sig == 11 || sig == 6 { "stack-overflow".into() } else { format!("signal-{}", sig) }; } }
                return if st.code() == Some(101) { "panic".into() } else { format!("exit-{:?}", st.code()) };
            }
            None => {
                if t0.elapsed().as_secs() >= secs { let _ = ch.kill(); let _ = ch.wait(); return "hang".into(); }
                std::thread::sleep(std::time::Duration::from_millis(10));
            }
        }
    }
}

/// the operations of `ff/src/biginteger/mod.rs` that no other stream executes: bitwise operators (all receiver
/// variants), `Not`, the `const fn`s called at run time, (de)serialization, conversions, formatting
fn gap_ops<const N: usize>(rng: &mut Rng, thorough: bool, vals: &[[u64; N]], out: &mut Out) {
    let n = format!("{:x}", N);
    let ser = |x: &BigInt<N>, c: Compress| -> Vec<u8> { let mut v = Vec::new(); x.serialize_with_mode(&mut v, c).unwrap(); v };
    let de = |bytes: &[u8], c: Compress, v: Validate| -> String {
        match BigInt::<N>::deserialize_with_mode(bytes, c, v) { Ok(x) => hex_limbs(&x.0), Err(_) => "err".into() }
    };
    for (idx, a) in vals.iter().enumerate() {
        let ah = hex_limbs(a);
        let x = BigInt::<N>(*a);
        let heavy = thorough || idx % 3 == 0;
        out.line(&format!("C15 not {} {}", n, ah), &hex_limbs(&(!x).0));
        out.line(&format!("C15 iseven {} {}", n, ah), &format!("{} {}", b(x.const_is_even()), b(x.const_is_odd())));
        out.line(&format!("C15 mod4 {} {}", n, ah), &format!("{:x}", x.mod_4()));
        out.line(&format!("C15 constshr {} {}", n, ah), &hex_limbs(&x.const_shr().0));
        out.line(&format!("C15 d2rd {} {}", n, ah), &hex_limbs(&x.divide_by_2_round_down().0));
        out.line(&format!("C15 cnumbits {} {}", n, ah), &format!("{:x}", x.const_num_bits()));
        // two_adic_valuation / two_adic_coefficient do not terminate on the value 1: that case runs in a child process (N = 1 only)
        let is_one = a[0] == 1 && a[1..].iter().all(|l| *l == 0);
        if !is_one {
            out.line(&format!("C15 tav {} {}", n, ah), &guarded(|| format!("{:x}", x.two_adic_valuation())));
            out.line(&format!("C15 tac {} {}", n, ah), &guarded(|| hex_limbs(&x.two_adic_coefficient().0)));
        } else if N == 1 {
            out.line(&format!("C15 tav {} {}", n, ah), &run_child("child-tav1", 1));
            out.line(&format!("C15 tac {} {}", n, ah), &run_child("child-tac1", 1));
        }
        if heavy {
            out.line(&format!("C15 montr {} {}", n, ah), &guarded(|| hex_limbs(&x.montgomery_r().0)));
            out.line(&format!("C15 montr2 {} {}", n, ah), &guarded(|| hex_limbs(&x.montgomery_r2().0)));
        }
        let (bc, bu) = (ser(&x, Compress::Yes), ser(&x, Compress::No));
        out.line(&format!("C15 ser {} c {}", n, ah), &format!("{:x} {}", x.serialized_size(Compress::Yes), hex_list_u8(&bc)));
        if heavy { out.line(&format!("C15 ser {} u {}", n, ah), &format!("{:x} {}", x.serialized_size(Compress::No), hex_list_u8(&bu))); }
        out.line(&format!("C15 deser {} c {}", n, hex_list_u8(&bc)), &de(&bc, Compress::Yes, Validate::Yes));
        if heavy {
            out.line(&format!("C15 deser {} u {}", n, hex_list_u8(&bu)), &de(&bu, Compress::No, Validate::No));
            // truncated / over-long inputs
            let mut long = bc.clone(); long.extend_from_slice(&[0xab, 0xcd, 0xef]);
            out.line(&format!("C15 deser {} c {}", n, hex_list_u8(&long)), &de(&long, Compress::Yes, Validate::Yes));
            for cut in [8 * N - 1, 8 * N - 8, 1, 0] {
                let t = &bc[..cut];
                out.line(&format!("C15 deser {} c {}", n, hex_list_u8(t)), &de(t, Compress::Yes, Validate::Yes));
            }
        }
        out.line(&format!("C15 valid {} {}", n, ah), if x.check().is_ok() { "ok" } else { "err" });
        let bu_: BigUint = x.into();
        let bi_: num_bigint::BigInt = x.into();
        out.line(&format!("C15 tobig {} {}", n, ah), &format!("{:x} {:x}", bu_, bi_));
        out.line(&format!("C15 trybiguint {} {:x}", n, bu_), &match BigInt::<N>::try_from(bu_.clone()) { Ok(v) => hex_limbs(&v.0), Err(_) => "err".into() });
        out.line(&format!("C15 display {} {}", n, ah), &format!("{}", x));
        out.line(&format!("C15 upperhex {} {}", n, ah), &format!("{:X}", x));
        if heavy {
            let s = format!("{}", bu_);
            out.line(&format!("C15 fromstr {} {}", n, hex_list_u8(s.as_bytes())), &match BigInt::<N>::from_str(&s) { Ok(v) => hex_limbs(&v.0), Err(_) => "err".into() });
        }
    }
    // From<u8/u16/u32/u64>
    for (w, max) in [(8u32, u8::MAX as u64), (16, u16::MAX as u64), (32, u32::MAX as u64), (64, u64::MAX)] {
        let mut xs = vec![0u64, 1, max, max - 1, max / 2 + 1];
        for _ in 0..(if thorough { 8 } else { 2 }) { xs.push(rng.next() & max); }
        for x in xs {
            let r = match w { 8 => BigInt::<N>::from(x as u8), 16 => BigInt::<N>::from(x as u16), 32 => BigInt::<N>::from(x as u32), _ => BigInt::<N>::from(x) };
            out.line(&format!("C15 fromuint {} {:x} {:x}", n, w, x), &hex_limbs(&r.0));
        }
    }
    // TryFrom<BigUint> around the capacity 2^(64N)
    {
        let cap = BigUint::from(1u8) << (64 * N);
        let mut xs = vec![cap.clone(), &cap - 1u8, &cap + 1u8, &cap << 1, &cap << 8, (&cap << 64) - 1u8, &cap >> 1, &cap >> 8, BigUint::from(0u8)];
        for _ in 0..(if thorough { 12 } else { 3 }) { let k = rng.below(64 * N as u64 + 80); xs.push((BigUint::from(rng.next()) << k as usize) | BigUint::from(rng.next())); }
        for x in xs {
            out.line(&format!("C15 trybiguint {} {:x}", n, x), &match BigInt::<N>::try_from(x.clone()) { Ok(v) => hex_limbs(&v.0), Err(_) => "err".into() });
            let s = format!("{}", x);
            out.line(&format!("C15 fromstr {} {}", n, hex_list_u8(s.as_bytes())), &match BigInt::<N>::from_str(&s) { Ok(v) => hex_limbs(&v.0), Err(_) => "err".into() });
        }
    }
    // FromStr: strings that are not plain decimal numbers, leading zeros
    for s in ["", "0", "00", "007", "-1", "-0", "12a", "a", " 1", "1 ", "0x10", "1.0", "١"] {
        out.line(&format!("C15 fromstr {} {}", n, hex_list_u8(s.as_bytes())), &match BigInt::<N>::from_str(s) { Ok(v) => hex_limbs(&v.0), Err(_) => "err".into() });
    }
    // bitwise operators: every receiver variant of BitXor/BitAnd/BitOr (+Assign), rotating over the pairs
    let m = vals.len();
    let mut pairs: Vec<(usize, usize)> = Vec::new();
    let head = m.min(if thorough { 24 } else { 9 });
    for i in 0..head { for j in 0..head { pairs.push((i, j)); } }
    for _ in 0..(if thorough { 600 } else { 50 }) { pairs.push((rng.below(m as u64) as usize, rng.below(m as u64) as usize)); }
    for i in 0..m { pairs.push((i, i)); pairs.push((i, m - 1 - i)); }
    for (t, (i, j)) in pairs.into_iter().enumerate() {
        let (x, y) = (BigInt::<N>(vals[i]), BigInt::<N>(vals[j]));
        let (xh, yh) = (hex_limbs(&x.0), hex_limbs(&y.0));
        let (rx, ra, ro) = match t % 4 {
            0 => (x ^ y, x & y, x | y),
            1 => (x ^ &y, x & &y, x | &y),
            2 => { let (mut p, mut q, mut r) = (x, x, x); p ^= y; q &= y; r |= y; (p, q, r) }
            _ => { let (mut p, mut q, mut r) = (x, x, x); p ^= &y; q &= &y; r |= &y; (p, q, r) }
        };
        out.line(&format!("C15 bxor {} {} {}", n, xh, yh), &hex_limbs(&rx.0));
        out.line(&format!("C15 band {} {} {}", n, xh, yh), &hex_limbs(&ra.0));
        out.line(&format!("C15 bor {} {} {}", n, xh, yh), &hex_limbs(&ro.0));
    }
}

fn b(x: bool) -> &'static str { if x { "1" } else { "0" } }

fn ops<const N: usize>(rng: &mut Rng, thorough: bool, out: &mut Out) {
    let extra = if thorough { 60 } else { 14 };
    let vals = edge_values::<N>(rng, extra);
    let n = format!("{:x}", N);
    let shifts: Vec<u32> = {
        let mut s = vec![0u32, 1, 2, 31, 32, 63, 64, 65, 127, 128, (64 * N - 1) as u32, (64 * N) as u32, (64 * N + 1) as u32, (64 * N + 64) as u32, u32::MAX, 1 << 31];
        if N > 1 { s.push((64 * (N - 1)) as u32); s.push((64 * (N - 1) + 1) as u32); s.push((64 * (N - 1) - 1) as u32); }
        s.sort(); s.dedup(); s
    };
    // unary ops
    for a in &vals {
        let ah = hex_limbs(a);
        let x = BigInt::<N>(*a);
        { let mut y = x; let c = y.mul2(); out.line(&format!("C15 mul2 {} {}", n, ah), &format!("{} {}", hex_limbs(&y.0), b(c))); }
        { let mut y = x; y.div2(); out.line(&format!("C15 div2 {} {}", n, ah), &hex_limbs(&y.0)); }
        out.line(&format!("C15 numbits {} {}", n, ah), &format!("{:x}", x.num_bits()));
        out.line(&format!("C15 tobitsle {} {}", n, ah), &bits_str(&x.to_bits_le()));
        out.line(&format!("C15 tobitsbe {} {}", n, ah), &bits_str(&x.to_bits_be()));
        // the four bit iterators of ff/src/bits.rs directly (over the limb slice)
        out.line(&format!("C15 iterbe {} {}", n, ah), &guarded(|| bits_str(&BitIteratorBE::new(&x).collect::<Vec<_>>())));
        out.line(&format!("C15 iterle {} {}", n, ah), &guarded(|| bits_str(&BitIteratorLE::new(&x).collect::<Vec<_>>())));
        out.line(&format!("C15 iterbenz {} {}", n, ah), &guarded(|| bits_str(&BitIteratorBE::without_leading_zeros(&x).collect::<Vec<_>>())));
        out.line(&format!("C15 iterlenz {} {}", n, ah), &guarded(|| bits_str(&BitIteratorLE::without_trailing_zeros(&x).collect::<Vec<_>>())));
        out.line(&format!("C15 tobytesle {} {}", n, ah), &hex_list_u8(&x.to_bytes_le()));
        out.line(&format!("C15 tobytesbe {} {}", n, ah), &hex_list_u8(&x.to_bytes_be()));
        // round trips through bits (from_bits_* of own bits)
        out.line(&format!("C15 frombitsle {} {}", n, bits_str(&x.to_bits_le())), &hex_limbs(&BigInt::<N>::from_bits_le(&x.to_bits_le()).0));
        out.line(&format!("C15 frombitsbe {} {}", n, bits_str(&x.to_bits_be())), &hex_limbs(&BigInt::<N>::from_bits_be(&x.to_bits_be()).0));
        for i in [0usize, 1, 63, 64, 65, 64 * N - 1, 64 * N, 64 * N + 5, rng.below(64 * N as u64) as usize] {
            out.line(&format!("C15 getbit {} {} {:x}", n, ah, i), b(x.get_bit(i)));
        }
        for &s in &shifts {
            out.line(&format!("C15 shl {} {} {:x}", n, ah, s), &hex_limbs(&(x << s).0));
            out.line(&format!("C15 shr {} {} {:x}", n, ah, s), &hex_limbs(&(x >> s).0));
            // muln / divn are separate code
            { let mut y = x; y.muln(s); out.line(&format!("C15 shl {} {} {:x}", n, ah, s), &hex_limbs(&y.0)); }
            { let mut y = x; y.divn(s); out.line(&format!("C15 shr {} {} {:x}", n, ah, s), &hex_limbs(&y.0)); }
        }
        // recodings
        let r = guarded(|| hex_list_i64(&find_naf(&a[..]).iter().map(|d| *d as i64).collect::<Vec<_>>()));
        out.line(&format!("C15 naf {} {}", n, ah), &r);
        let a2 = *a;
        let r = guarded(move || hex_list_i64(&find_relaxed_naf(&a2[..]).iter().map(|d| *d as i64).collect::<Vec<_>>()));
        out.line(&format!("C15 rnaf {} {}", n, ah), &r);
        for w in [0usize, 1, 2, 3, 4, 5, 8, 13, 32, 62, 63, 64, 65] {
            let r = match x.find_wnaf(w) { Some(v) => hex_list_i64(&v), None => "none".into() };
            out.line(&format!("C15 wnaf {} {} {:x}", n, ah, w), &r);
        }
    }
    // short / long bit strings for from_bits
    for len in [0usize, 1, 5, 63, 64, 65, 64 * N - 1, 64 * N, 64 * N + 1, 64 * N + 70] {
        let bits: Vec<bool> = (0..len).map(|_| rng.next() & 1 == 1).collect();
        out.line(&format!("C15 frombitsle {} {}", n, bits_str(&bits)), &guarded(|| hex_limbs(&BigInt::<N>::from_bits_le(&bits).0)));
        out.line(&format!("C15 frombitsbe {} {}", n, bits_str(&bits)), &guarded(|| hex_limbs(&BigInt::<N>::from_bits_be(&bits).0)));
    }
    // binary ops: full product of the deterministic head, random pairs of the rest
    let m = vals.len();
    let mut pairs: Vec<(usize, usize)> = Vec::new();
    let head = if thorough { m.min(40) } else { m.min(16) };
    for i in 0..head { for j in 0..head { pairs.push((i, j)); } }
    for _ in 0..(if thorough { 2000 } else { 200 }) { pairs.push((rng.below(m as u64) as usize, rng.below(m as u64) as usize)); }
    // correlated: a, a; a, a+1; a, !a
    for i in 0..m { pairs.push((i, i)); }
    for (i, j) in pairs {
        let (x, y) = (BigInt::<N>(vals[i]), BigInt::<N>(vals[j]));
        let (xh, yh) = (hex_limbs(&x.0), hex_limbs(&y.0));
        { let mut z = x; let c = z.add_with_carry(&y); out.line(&format!("C15 add {} {} {}", n, xh, yh), &format!("{} {}", hex_limbs(&z.0), b(c))); }
        { let mut z = x; let c = z.sub_with_borrow(&y); out.line(&format!("C15 sub {} {} {}", n, xh, yh), &format!("{} {}", hex_limbs(&z.0), b(c))); }
        { let (lo, hi) = x.mul(&y); out.line(&format!("C15 mul {} {} {}", n, xh, yh), &format!("{} {}", hex_limbs(&lo.0), hex_limbs(&hi.0))); }
        out.line(&format!("C15 mullow {} {} {}", n, xh, yh), &hex_limbs(&x.mul_low(&y).0));
        out.line(&format!("C15 mulhigh {} {} {}", n, xh, yh), &hex_limbs(&x.mul_high(&y).0));
        let o = match x.cmp(&y) { core::cmp::Ordering::Less => "lt", core::cmp::Ordering::Equal => "eq", core::cmp::Ordering::Greater => "gt" };
        out.line(&format!("C15 cmp {} {} {}", n, xh, yh), o);
    }
    gap_ops::<N>(rng, thorough, &vals, out);
}

pub fn run(rng: &mut Rng, thorough: bool, out: &mut Out) {
    ops::<1>(rng, thorough, out);
    ops::<2>(rng, thorough, out);
    ops::<3>(rng, thorough, out);
    ops::<4>(rng, thorough, out);
    ops::<5>(rng, thorough, out);
    ops::<6>(rng, thorough, out);
    ops::<7>(rng, thorough, out);
    ops::<8>(rng, thorough, out);
    ops::<9>(rng, thorough, out);
    ops::<10>(rng, thorough, out);
    ops::<11>(rng, thorough, out);
    ops::<12>(rng, thorough, out);
    ops::<13>(rng, thorough, out);
    // exhaustive: all 8-bit values on one limb for the recodings and smr
    for v in 0u64..256 {
        let x = BigInt::<1>([v]);
        let vh = format!("{:x}", v);
        out.line(&format!("C15 naf 1 {}", vh), &hex_list_i64(&find_naf(&[v]).iter().map(|d| *d as i64).collect::<Vec<_>>()));
        out.line(&format!("C15 rnaf 1 {}", vh), &guarded(move || hex_list_i64(&find_relaxed_naf(&[v]).iter().map(|d| *d as i64).collect::<Vec<_>>())));
        for w in 2usize..8 { out.line(&format!("C15 wnaf 1 {} {:x}", vh, w), &hex_list_i64(&x.find_wnaf(w).unwrap())); }
        for m in [2u64, 4, 8, 16, 256] { out.line(&format!("C15 smr {} {:x}", vh, m), &hex_i64(signed_mod_reduction(v, m))); }
    }
    // top band for recodings (values within 2^(w-1) of 2^(64N))
    for d in 0u64..40 {
        let x = BigInt::<2>([u64::MAX - d, u64::MAX]);
        let xh = hex_limbs(&x.0);
        out.line(&format!("C15 naf 2 {}", xh), &hex_list_i64(&find_naf(&x.0).iter().map(|d| *d as i64).collect::<Vec<_>>()));
        for w in [2usize, 3, 4, 5, 6] { out.line(&format!("C15 wnaf 2 {} {:x}", xh, w), &hex_list_i64(&x.find_wnaf(w).unwrap())); }
    }
}

fn main() {
    // child mode: one call that does not terminate (see `gap_ops`)
    match std::env::args().nth(1).as_deref() {
        Some("child-tav1") => { println!("{:x}", BigInt::<1>([1]).two_adic_valuation()); return; }
        Some("child-tac1") => { println!("{}", hex_limbs(&BigInt::<1>([1]).two_adic_coefficient().0)); return; }
        _ => {}
    }
    let a = arkharness::args();
    let mut rng = Rng::new(a.seed);
    let mut out = Out::new();
    run(&mut rng, a.thorough, &mut out);
    out.flush();
}
