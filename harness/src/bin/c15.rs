//! C15: BigInt<N> operations, N = 1..13.
#![allow(dead_code, deprecated)]
use arkharness::util::*;
use ark_ff::{biginteger::arithmetic::{find_naf, find_relaxed_naf}, BigInt, BigInteger, BitIteratorBE, BitIteratorLE, signed_mod_reduction};

fn b(x: bool) -> &'static str { if x { "1" } else { "0" } }

fn ops<const N: usize>(rng: &mut Rng, thorough: bool, out: &mut Out) {
    let extra = if thorough { 60 } else { 14 };
    let vals = edge_values::<N>(rng, extra);
    let n = format!("{:x}", N);
    let shifts: Vec<u32> = {
        let mut s = vec![0u32, 1, 2, 31, 32, 63, 64, 65, 127, 128, (64 * N - 1) as u32, (64 * N) as u32, (64 * N + 1) as u32, (64 * N + 64) as u32, u32::MAX, 1 << 31];
        if N > 1 { s.push((64 * (N - 1)) as u32); s.push((64 * (N - 1) + 1) as u32); s.push((64 * (N - 1) - 1) as u32); }
        s.sort(); s.dedup(); s
    };
    // unary ops
    for a in &vals {
        let ah = hex_limbs(a);
        let x = BigInt::<N>(*a);
        { let mut y = x; let c = y.mul2(); out.line(&format!("C15 mul2 {} {}", n, ah), &format!("{} {}", hex_limbs(&y.0), b(c))); }
        { let mut y = x; y.div2(); out.line(&format!("C15 div2 {} {}", n, ah), &hex_limbs(&y.0)); }
        out.line(&format!("C15 numbits {} {}", n, ah), &format!("{:x}", x.num_bits()));
        out.line(&format!("C15 tobitsle {} {}", n, ah), &bits_str(&x.to_bits_le()));
        out.line(&format!("C15 tobitsbe {} {}", n, ah), &bits_str(&x.to_bits_be()));
        // the iterators directly as well
        debug_assert_eq!(BitIteratorBE::new(&x).collect::<Vec<_>>(), x.to_bits_be());
        debug_assert_eq!(BitIteratorLE::new(&x).collect::<Vec<_>>(), x.to_bits_le());
        out.line(&format!("C15 tobytesle {} {}", n, ah), &hex_list_u8(&x.to_bytes_le()));
        out.line(&format!("C15 tobytesbe {} {}", n, ah), &hex_list_u8(&x.to_bytes_be()));
        // round trips through bits (from_bits_* of own bits)
        out.line(&format!("C15 frombitsle {} {}", n, bits_str(&x.to_bits_le())), &hex_limbs(&BigInt::<N>::from_bits_le(&x.to_bits_le()).0));
        out.line(&format!("C15 frombitsbe {} {}", n, bits_str(&x.to_bits_be())), &hex_limbs(&BigInt::<N>::from_bits_be(&x.to_bits_be()).0));
        for i in [0usize, 1, 63, 64, 65, 64 * N - 1, 64 * N, 64 * N + 5, rng.below(64 * N as u64) as usize] {
            out.line(&format!("C15 getbit {} {} {:x}", n, ah, i), b(x.get_bit(i)));
        }
        for &s in &shifts {
            out.line(&format!("C15 shl {} {} {:x}", n, ah, s), &hex_limbs(&(x << s).0));
            out.line(&format!("C15 shr {} {} {:x}", n, ah, s), &hex_limbs(&(x >> s).0));
            // muln / divn are separate code
            { let mut y = x; y.muln(s); out.line(&format!("C15 shl {} {} {:x}", n, ah, s), &hex_limbs(&y.0)); }
            { let mut y = x; y.divn(s); out.line(&format!("C15 shr {} {} {:x}", n, ah, s), &hex_limbs(&y.0)); }
        }
        // recodings
        let r = guarded(|| hex_list_i64(&find_naf(&a[..]).iter().map(|d| *d as i64).collect::<Vec<_>>()));
        out.line(&format!("C15 naf {} {}", n, ah), &r);
        let a2 = *a;
        let r = guarded(move || hex_list_i64(&find_relaxed_naf(&a2[..]).iter().map(|d| *d as i64).collect::<Vec<_>>()));
        out.line(&format!("C15 rnaf {} {}", n, ah), &r);
        for w in [0usize, 1, 2, 3, 4, 5, 8, 13, 32, 62, 63, 64, 65] {
            let r = match x.find_wnaf(w) { Some(v) => hex_list_i64(&v), None => "none".into() };
            out.line(&format!("C15 wnaf {} {} {:x}", n, ah, w), &r);
        }
    }
    // short / long bit strings for from_bits
    for len in [0usize, 1, 5, 63, 64, 65, 64 * N - 1, 64 * N, 64 * N + 1, 64 * N + 70] {
        let bits: Vec<bool> = (0..len).map(|_| rng.next() & 1 == 1).collect();
        out.line(&format!("C15 frombitsle {} {}", n, bits_str(&bits)), &guarded(|| hex_limbs(&BigInt::<N>::from_bits_le(&bits).0)));
        out.line(&format!("C15 frombitsbe {} {}", n, bits_str(&bits)), &guarded(|| hex_limbs(&BigInt::<N>::from_bits_be(&bits).0)));
    }
    // binary ops: full product of the deterministic head, random pairs of the rest
    let m = vals.len();
    let mut pairs: Vec<(usize, usize)> = Vec::new();
    let head = if thorough { m.min(40) } else { m.min(16) };
    for i in 0..head { for j in 0..head { pairs.push((i, j)); } }
    for _ in 0..(if thorough { 2000 } else { 200 }) { pairs.push((rng.below(m as u64) as usize, rng.below(m as u64) as usize)); }
    // correlated: a, a; a, a+1; a, !a
    for i in 0..m { pairs.push((i, i)); }
    for (i, j) in pairs {
        let (x, y) = (BigInt::<N>(vals[i]), BigInt::<N>(vals[j]));
        let (xh, yh) = (hex_limbs(&x.0), hex_limbs(&y.0));
        { let mut z = x; let c = z.add_with_carry(&y); out.line(&format!("C15 add {} {} {}", n, xh, yh), &format!("{} {}", hex_limbs(&z.0), b(c))); }
        { let mut z = x; let c = z.sub_with_borrow(&y); out.line(&format!("C15 sub {} {} {}", n, xh, yh), &format!("{} {}", hex_limbs(&z.0), b(c))); }
        { let (lo, hi) = x.mul(&y); out.line(&format!("C15 mul {} {} {}", n, xh, yh), &format!("{} {}", hex_limbs(&lo.0), hex_limbs(&hi.0))); }
        out.line(&format!("C15 mullow {} {} {}", n, xh, yh), &hex_limbs(&x.mul_low(&y).0));
        out.line(&format!("C15 mulhigh {} {} {}", n, xh, yh), &hex_limbs(&x.mul_high(&y).0));
        let o = match x.cmp(&y) { core::cmp::Ordering::Less => "lt", core::cmp::Ordering::Equal => "eq", core::cmp::Ordering::Greater => "gt" };
        out.line(&format!("C15 cmp {} {} {}", n, xh, yh), o);
    }
}

pub fn run(rng: &mut Rng, thorough: bool, out: &mut Out) {
    ops::<1>(rng, thorough, out);
    ops::<2>(rng, thorough, out);
    ops::<3>(rng, thorough, out);
    ops::<4>(rng, thorough, out);
    ops::<5>(rng, thorough, out);
    ops::<6>(rng, thorough, out);
    ops::<7>(rng, thorough, out);
    ops::<8>(rng, thorough, out);
    ops::<9>(rng, thorough, out);
    ops::<10>(rng, thorough, out);
    ops::<11>(rng, thorough, out);
    ops::<12>(rng, thorough, out);
    ops::<13>(rng, thorough, out);
    // exhaustive: all 8-bit values on one limb for the recodings and smr
    for v in 0u64..256 {
        let x = BigInt::<1>([v]);
        let vh = format!("{:x}", v);
        out.line(&format!("C15 naf 1 {}", vh), &hex_list_i64(&find_naf(&[v]).iter().map(|d| *d as i64).collect::<Vec<_>>()));
        out.line(&format!("C15 rnaf 1 {}", vh), &guarded(move || hex_list_i64(&find_relaxed_naf(&[v]).iter().map(|d| *d as i64).collect::<Vec<_>>())));
        for w in 2usize..8 { out.line(&format!("C15 wnaf 1 {} {:x}", vh, w), &hex_list_i64(&x.find_wnaf(w).unwrap())); }
        for m in [2u64, 4, 8, 16, 256] { out.line(&format!("C15 smr {} {:x}", vh, m), &hex_i64(signed_mod_reduction(v, m))); }
    }
    // top band for recodings (values within 2^(w-1) of 2^(64N))
    for d in 0u64..40 {
        let x = BigInt::<2>([u64::MAX - d, u64::MAX]);
        let xh = hex_limbs(&x.0);
        out.line(&format!("C15 naf 2 {}", xh), &hex_list_i64(&find_naf(&x.0).iter().map(|d| *d as i64).collect::<Vec<_>>()));
        for w in [2usize, 3, 4, 5, 6] { out.line(&format!("C15 wnaf 2 {} {:x}", xh, w), &hex_list_i64(&x.find_wnaf(w).unwrap())); }
    }
}

fn main() {
    let a = arkharness::args();
    let mut rng = Rng::new(a.seed);
    let mut out = Out::new();
    run(&mut rng, a.thorough, &mut out);
    out.flush();
}
