//! C01: prime-field operations on the configuration zoo + shipped fields.
#![allow(dead_code, deprecated)]
use arkharness::util::*;
use ark_ff::{AdditiveGroup, BigInt, BigInteger, Field, Fp, MontBackend, MontConfig, PrimeField, Zero, One};
use num_bigint::BigUint;

type F<T, const N: usize> = Fp<MontBackend<T, N>, N>;

fn big<const N: usize>(l: &[u64; N]) -> BigUint { BigUint::from(BigInt::<N>(*l)) }
fn limbs_of<const N: usize>(b: &BigUint) -> [u64; N] {
    let mut r = [0u64; N];
    for (i, d) in b.to_u64_digits().iter().enumerate() { if i < N { r[i] = *d; } }
    r
}

/// edge set of valid Montgomery representations (raw limbs < p)
pub fn operands<T: MontConfig<N>, const N: usize>(rng: &mut Rng, extra: usize) -> Vec<[u64; N]> {
    let p = big(&T::MODULUS.0);
    let mut v: Vec<BigUint> = Vec::new();
    let one = BigUint::from(1u8);
    let two = BigUint::from(2u8);
    let r = big(&T::R.0);
    let r2 = big(&T::R2.0);
    for x in [BigUint::from(0u8), one.clone(), two.clone(), &p - &one, (&p - &one) % &p, (&p + &p - &two) % &p,
              (&p - &one) / &two, (&p + &one) / &two, r.clone(), r2.clone(), (&r + &p - &one) % &p, (&p - &r) % &p] {
        v.push(x % &p);
    }
    for e in edge_values::<N>(rng, extra) {
        let x = big(&e);
        v.push(&x % &p);
        if x < p { v.push(x); } else if &x - &p < p { v.push(&x - &p); }
    }
    v.sort(); v.dedup();
    v.iter().map(|b| limbs_of::<N>(b)).collect()
}

fn h<const N: usize>(l: &[u64; N]) -> String { hex_limbs(l) }
fn el<T: MontConfig<N>, const N: usize>(l: &[u64; N]) -> F<T, N> { Fp::new_unchecked(BigInt(*l)) }
fn opt<T: MontConfig<N>, const N: usize>(x: Option<F<T, N>>) -> String { match x { Some(v) => h(&v.0 .0), None => "none".into() } }

pub fn ops<T: MontConfig<N>, const N: usize>(fl: &str, name: &str, rng: &mut Rng, thorough: bool, out: &mut Out, only: &Option<String>) {
    if let Some(o) = only { if o != name { return; } }
    let pfx = format!("{} {:x} {}", fl, N, h(&T::MODULUS.0));
    // constants as computed by this flavour
    out.line(&format!("C01 consts {}", pfx), &format!("{} {} {:x} {} {}", h(&T::R.0), h(&T::R2.0), T::INV,
        if T::MODULUS_HAS_SPARE_BIT { 1 } else { 0 }, if T::CAN_USE_NO_CARRY_MUL_OPT { 1 } else { 0 }));
    let p_small = N == 1 && T::MODULUS.0[0] <= (if thorough { 257 } else { 13 });
    let vals: Vec<[u64; N]> = if p_small {
        (0..T::MODULUS.0[0]).map(|x| { let mut a = [0u64; N]; a[0] = x; a }).collect()   // exhaustive
    } else {
        operands::<T, N>(rng, if thorough { 40 } else { 6 })
    };
    for (idx, a) in vals.iter().enumerate() {
        let x = el::<T, N>(a);
        let ah = h(a);
        out.line(&format!("C01 neg {} {}", pfx, ah), &h(&(-x).0 .0));
        out.line(&format!("C01 double {} {}", pfx, ah), &h(&x.double().0 .0));
        out.line(&format!("C01 square {} {}", pfx, ah), &h(&x.square().0 .0));
        if thorough || idx < 16 || idx % 5 == 0 { out.line(&format!("C01 inverse {} {}", pfx, ah), &opt(x.inverse())); }
        out.line(&format!("C01 intobigint {} {}", pfx, ah), &h(&x.into_bigint().0));
    }
    // from_bigint / Fp::new on arbitrary N-limb integers (also ≥ p)
    let mut ints = edge_values::<N>(rng, if thorough { 30 } else { 6 });
    { let p = T::MODULUS.0; ints.push(p); let mut pm = BigInt::<N>(p); pm.sub_with_borrow(&BigInt::from(1u64)); ints.push(pm.0);
      let mut pp = BigInt::<N>(p); if !pp.add_with_carry(&BigInt::from(1u64)) { ints.push(pp.0); } }
    if p_small { ints.truncate(40); }
    for x in &ints {
        out.line(&format!("C01 frombigint {} {}", pfx, h(x)), &opt(F::<T, N>::from_bigint(BigInt(*x))));
        let xx = *x;
        out.line(&format!("C01 new {} {}", pfx, h(x)), &guarded(move || h(&F::<T, N>::from_sign_and_limbs(true, &xx).0 .0)));
    }
    // binary ops
    let m = vals.len();
    let mut pairs: Vec<(usize, usize)> = Vec::new();
    if p_small { for i in 0..m { for j in 0..m { pairs.push((i, j)); } } }
    else {
        let head = m.min(if thorough { 40 } else { 14 });
        for i in 0..head { for j in 0..head { pairs.push((i, j)); } }
        for _ in 0..(if thorough { 600 } else { 60 }) { pairs.push((rng.below(m as u64) as usize, rng.below(m as u64) as usize)); }
        for i in 0..m { pairs.push((i, i)); }
    }
    for &(i, j) in &pairs {
        let (x, y) = (el::<T, N>(&vals[i]), el::<T, N>(&vals[j]));
        let (xh, yh) = (h(&vals[i]), h(&vals[j]));
        out.line(&format!("C01 add {} {} {}", pfx, xh, yh), &h(&(x + y).0 .0));
        out.line(&format!("C01 sub {} {} {}", pfx, xh, yh), &h(&(x - y).0 .0));
        out.line(&format!("C01 mul {} {} {}", pfx, xh, yh), &h(&(x * y).0 .0));
    }
    // pow: exponents of various limb lengths
    let nexp = if thorough { 24 } else if N > 6 { 5 } else { 7 };
    for t in 0..nexp {
        let a = vals[rng.below(m as u64) as usize];
        let e: Vec<u64> = match t { 0 => vec![], 1 => vec![0], 2 => vec![1], 3 => vec![0, 0, 1], 4 => T::MODULUS.0.to_vec(),
            5 => { let mut q = BigInt::<N>(T::MODULUS.0); q.sub_with_borrow(&BigInt::from(1u64)); q.0.to_vec() },
            _ => (0..(1 + rng.below(3))).map(|_| rng.next()).collect() };
        out.line(&format!("C01 pow {} {} {}", pfx, h(&a), hex_list_u64(&e)), &h(&el::<T, N>(&a).pow(&e).0 .0));
    }
    // sum_of_products with M = 0..=8 and a long one
    macro_rules! sop { ($m:expr) => {{
        let mut aa = [F::<T, N>::zero(); $m]; let mut bb = [F::<T, N>::zero(); $m];
        for k in 0..$m { aa[k] = el::<T, N>(&vals[rng.below(m as u64) as usize]); bb[k] = el::<T, N>(&vals[rng.below(m as u64) as usize]); }
        // bias towards p-1 operands (largest accumulations)
        if rng.below(2) == 0 { for k in 0..$m { aa[k] = -F::<T, N>::one(); bb[k] = -F::<T, N>::one(); aa[k].0 = { let mut q = BigInt::<N>(T::MODULUS.0); q.sub_with_borrow(&BigInt::from(1u64)); q }; bb[k].0 = aa[k].0; } }
        let r = F::<T, N>::sum_of_products(&aa, &bb);
        out.line(&format!("C01 sop {} {} {}", pfx, if $m == 0 { "_".to_string() } else { aa.iter().map(|x| h(&x.0 .0)).collect::<Vec<_>>().join(",") },
            if $m == 0 { "_".to_string() } else { bb.iter().map(|x| h(&x.0 .0)).collect::<Vec<_>>().join(",") }), &h(&r.0 .0));
    }}; }
    for _ in 0..(if thorough { 4 } else { 2 }) { sop!(0); sop!(1); sop!(2); sop!(3); sop!(4); sop!(5); sop!(7); sop!(8); sop!(16); sop!(33); }
    // integer / byte-string / decimal conversions
    {
        let ints: Vec<u128> = { let mut v = vec![0u128, 1, 2, 255, 256, 257, u64::MAX as u128, (u64::MAX as u128) + 1, u128::MAX, u128::MAX - 1, 1 << 127, (1 << 127) - 1,
            T::MODULUS.0[0] as u128, (T::MODULUS.0[0] as u128).wrapping_sub(1), (T::MODULUS.0[0] as u128) + 1];
            if N >= 2 { let m = T::MODULUS.0[0] as u128 + ((T::MODULUS.0[1] as u128) << 64); v.push(m); v.push(m.wrapping_sub(1)); v.push(m.wrapping_add(1)); }
            for _ in 0..(if thorough { 12 } else { 3 }) { v.push(((rng.next() as u128) << 64) | rng.next() as u128); v.push(rng.next() as u128); }
            v };
        for &x in &ints {
            out.line(&format!("C01 fromu128 {} {:x}", pfx, x), &guarded(|| h(&F::<T, N>::from(x).0 .0)));
            out.line(&format!("C01 fromu64 {} {:x}", pfx, x as u64), &guarded(|| h(&F::<T, N>::from(x as u64).0 .0)));
            let xi = x as i128;
            let hi = |v: i128| if v < 0 { format!("-{:x}", v.unsigned_abs()) } else { format!("{:x}", v) };
            out.line(&format!("C01 fromi128 {} {}", pfx, hi(xi)), &guarded(|| h(&F::<T, N>::from(xi).0 .0)));
            let x64 = x as u64 as i64;
            out.line(&format!("C01 fromi64 {} {}", pfx, hi(x64 as i128)), &guarded(|| h(&F::<T, N>::from(x64).0 .0)));
            out.line(&format!("C01 fromu64 {} {:x}", pfx, x as u8), &guarded(|| h(&F::<T, N>::from(x as u8).0 .0)));
            out.line(&format!("C01 fromu64 {} {:x}", pfx, x as u32), &guarded(|| h(&F::<T, N>::from(x as u32).0 .0)));
        }
        let nb = ((T::MODULUS.num_bits() + 7) / 8) as usize;
        // oversized limb counts (hand-written configs with more limbs than the modulus needs) are outside
        // the property's quantifier for the byte-string conversions (from_random_bytes rejects them)
        let minimal = T::MODULUS.num_bits() as usize > 64 * (N - 1);
        for len in [0usize, 1, 2, nb.saturating_sub(2), nb - 1, nb, nb + 1, nb + 2, 2 * nb, 2 * nb + 3, 100] {
            if !minimal { break; }
            for pat in 0..3 {
                let bytes: Vec<u8> = (0..len).map(|_| match pat { 0 => 0xffu8, 1 => (rng.next() & 0xff) as u8, _ => if rng.below(4) == 0 { 0 } else { (rng.next() & 0xff) as u8 } }).collect();
                out.line(&format!("C01 frombytesle {} {}", pfx, hex_list_u8(&bytes)), &guarded(|| h(&F::<T, N>::from_le_bytes_mod_order(&bytes).0 .0)));
                out.line(&format!("C01 frombytesbe {} {}", pfx, hex_list_u8(&bytes)), &guarded(|| h(&F::<T, N>::from_be_bytes_mod_order(&bytes).0 .0)));
            }
        }
        // decimal strings (num-bigint does the digit work): value, -value, value ≥ p
        use core::str::FromStr;
        for t in 0..6 {
            let v = big(&vals[rng.below(m as u64) as usize]) + if t % 2 == 0 { BigUint::from(0u8) } else { big(&T::MODULUS.0) * BigUint::from(3u8) };
            let s = if t >= 3 { format!("-{}", v) } else { format!("{}", v) };
            let hx = if t >= 3 { format!("-{:x}", v) } else { format!("{:x}", v) };
            let r = match F::<T, N>::from_str(&s) { Ok(e) => h(&e.0 .0), Err(_) => "err".into() };
            out.line(&format!("C01 fromstr {} {}", pfx, hx), &r);
        }
        for t in 0..4 {
            let a = vals[(t * 7 + 1) % m];
            let e = el::<T, N>(&a);
            let d = format!("{}", e);
            let parsed = BigUint::from_str(&d).map(|b| format!("{:x}", b)).unwrap_or("err".into());
            // the printed decimal must denote the standard value: result = hex of the parsed decimal
            out.line(&format!("C01 display {} {} {}", pfx, h(&a), parsed), &parsed);
        }
    }
    // batch inversion
    for len in [0usize, 1, 2, 3, 5, 9] {
        let mut v: Vec<F<T, N>> = (0..len).map(|_| el::<T, N>(&vals[rng.below(m as u64) as usize])).collect();
        if len > 2 { v[1] = F::<T, N>::zero(); }
        let coeff = el::<T, N>(&vals[rng.below(m as u64) as usize]);
        let inp = format!("C01 batchinv {} {} {}", pfx, if len == 0 { "_".to_string() } else { v.iter().map(|x| h(&x.0 .0)).collect::<Vec<_>>().join(",") }, h(&coeff.0 .0));
        let r = guarded(move || { ark_ff::fields::batch_inversion_and_mul(&mut v, &coeff); if v.is_empty() { "_".to_string() } else { v.iter().map(|x| h(&x.0 .0)).collect::<Vec<_>>().join(",") } });
        out.line(&inp, &r);
    }
    gap_ops::<T, N>(&pfx, name, &vals, p_small, rng, thorough, out);
}


// ---------------------------------------------------------------------------------------------
// coverage-gap ops: operator receiver variants, Div, Sum/Product, From<int>, inverse_in_place,
// trait-default bodies of AdditiveGroup, Zeroize, FromStr error cases, …
// ---------------------------------------------------------------------------------------------

/// a group that implements `AdditiveGroup` WITHOUT overriding `double_in_place` / `neg_in_place`
/// (every implementor in /repo overrides them): runs the trait's default bodies on `Fp`'s operators
pub struct Wr<T: MontConfig<N>, const N: usize>(pub F<T, N>);
mod wr_impls {
    use super::{Wr, F};
    use ark_ff::{AdditiveGroup, MontConfig, Zero};
    use ark_serialize::{CanonicalDeserialize, CanonicalSerialize, Compress, SerializationError, Valid, Validate};
    use ark_std::rand::{distributions::{Distribution, Standard}, Rng};
    use core::ops::{Add, AddAssign, Mul, MulAssign, Neg, Sub, SubAssign};
    impl<T: MontConfig<N>, const N: usize> Clone for Wr<T, N> { fn clone(&self) -> Self { *self } }
    impl<T: MontConfig<N>, const N: usize> Copy for Wr<T, N> {}
    impl<T: MontConfig<N>, const N: usize> PartialEq for Wr<T, N> { fn eq(&self, o: &Self) -> bool { self.0 == o.0 } }
    impl<T: MontConfig<N>, const N: usize> Eq for Wr<T, N> {}
    impl<T: MontConfig<N>, const N: usize> core::hash::Hash for Wr<T, N> { fn hash<H: core::hash::Hasher>(&self, h: &mut H) { self.0.hash(h) } }
    impl<T: MontConfig<N>, const N: usize> core::fmt::Debug for Wr<T, N> { fn fmt(&self, f: &mut core::fmt::Formatter<'_>) -> core::fmt::Result { write!(f, "{:?}", self.0) } }
    impl<T: MontConfig<N>, const N: usize> core::fmt::Display for Wr<T, N> { fn fmt(&self, f: &mut core::fmt::Formatter<'_>) -> core::fmt::Result { write!(f, "{}", self.0) } }
    impl<T: MontConfig<N>, const N: usize> Default for Wr<T, N> { fn default() -> Self { Wr(F::<T, N>::default()) } }
    impl<T: MontConfig<N>, const N: usize> zeroize::Zeroize for Wr<T, N> { fn zeroize(&mut self) { self.0.zeroize() } }
    impl<T: MontConfig<N>, const N: usize> Zero for Wr<T, N> {
        fn zero() -> Self { Wr(F::<T, N>::zero()) }
        fn is_zero(&self) -> bool { self.0.is_zero() }
    }
    impl<T: MontConfig<N>, const N: usize> Neg for Wr<T, N> { type Output = Self; fn neg(self) -> Self { Wr(-self.0) } }
    macro_rules! bin {
        ($tr:ident, $f:ident, $tra:ident, $fa:ident, $rhs:ty) => {
            impl<'a, T: MontConfig<N>, const N: usize> $tr<$rhs> for Wr<T, N> { type Output = Self; fn $f(self, o: $rhs) -> Self { Wr(self.0.$f(o.0)) } }
            impl<'a, T: MontConfig<N>, const N: usize> $tra<$rhs> for Wr<T, N> { fn $fa(&mut self, o: $rhs) { self.0.$fa(o.0) } }
        };
    }
    bin!(Add, add, AddAssign, add_assign, Wr<T, N>);
    bin!(Add, add, AddAssign, add_assign, &'a Wr<T, N>);
    bin!(Add, add, AddAssign, add_assign, &'a mut Wr<T, N>);
    bin!(Sub, sub, SubAssign, sub_assign, Wr<T, N>);
    bin!(Sub, sub, SubAssign, sub_assign, &'a Wr<T, N>);
    bin!(Sub, sub, SubAssign, sub_assign, &'a mut Wr<T, N>);
    impl<T: MontConfig<N>, const N: usize, S: core::borrow::Borrow<F<T, N>>> Mul<S> for Wr<T, N> { type Output = Self; fn mul(self, o: S) -> Self { Wr(self.0 * *o.borrow()) } }
    impl<T: MontConfig<N>, const N: usize, S: core::borrow::Borrow<F<T, N>>> MulAssign<S> for Wr<T, N> { fn mul_assign(&mut self, o: S) { self.0 *= *o.borrow() } }
    impl<T: MontConfig<N>, const N: usize> core::iter::Sum<Self> for Wr<T, N> { fn sum<I: Iterator<Item = Self>>(i: I) -> Self { i.fold(Self::zero(), |a, b| a + b) } }
    impl<'a, T: MontConfig<N>, const N: usize> core::iter::Sum<&'a Self> for Wr<T, N> { fn sum<I: Iterator<Item = &'a Self>>(i: I) -> Self { i.fold(Self::zero(), |a, b| a + b) } }
    impl<T: MontConfig<N>, const N: usize> CanonicalSerialize for Wr<T, N> {
        fn serialize_with_mode<W: ark_serialize::Write>(&self, w: W, c: Compress) -> Result<(), SerializationError> { self.0.serialize_with_mode(w, c) }
        fn serialized_size(&self, c: Compress) -> usize { self.0.serialized_size(c) }
    }
    impl<T: MontConfig<N>, const N: usize> Valid for Wr<T, N> { fn check(&self) -> Result<(), SerializationError> { self.0.check() } }
    impl<T: MontConfig<N>, const N: usize> CanonicalDeserialize for Wr<T, N> {
        fn deserialize_with_mode<R: ark_serialize::Read>(r: R, c: Compress, v: Validate) -> Result<Self, SerializationError> { F::<T, N>::deserialize_with_mode(r, c, v).map(Wr) }
    }
    impl<T: MontConfig<N>, const N: usize> Distribution<Wr<T, N>> for Standard {
        fn sample<R: Rng + ?Sized>(&self, rng: &mut R) -> Wr<T, N> { Wr(<Standard as Distribution<F<T, N>>>::sample(self, rng)) }
    }
    impl<T: MontConfig<N>, const N: usize> AdditiveGroup for Wr<T, N> {
        type Scalar = F<T, N>;
        const ZERO: Self = Wr(<F<T, N> as AdditiveGroup>::ZERO);
        // no overrides: `double`, `double_in_place`, `neg_in_place` are the trait's default bodies
    }
}

/// the seven receiver shapes of a binary operator on `Fp` (`Fp ⊕ Fp`, `Fp ⊕ &Fp`, `&Fp ⊕ &Fp`, `Fp ⊕ &mut Fp`,
/// `⊕= Fp`, `⊕= &Fp`, `⊕= &mut Fp`)
macro_rules! variant {
    ($x:expr, $y:expr, $v:expr, $op:tt, $opa:tt) => {{
        let x = $x;
        let mut y = $y;
        match $v {
            0 => x $op y,
            1 => x $op &y,
            2 => &x $op &y,
            3 => x $op &mut y,
            4 => { let mut z = x; z $opa y; z }
            5 => { let mut z = x; z $opa &y; z }
            _ => { let mut z = x; z $opa &mut y; z }
        }
    }};
}

const FEATURED: [&str; 17] = ["M61", "P64m59", "Goldilocks", "M127", "P128m159", "P192m237", "Secp256k1", "Bls381Fr", "Full13",
    "T13x2", "M61x2", "M61x3", "T251x4", "bls12_381::Fr", "mnt4_753::Fq", "fp128::Fq", "secp256k1::Fq"];

fn hi128(v: i128) -> String { if v < 0 { format!("-{:x}", v.unsigned_abs()) } else { format!("{:x}", v) } }

fn gap_ops<T: MontConfig<N>, const N: usize>(pfx: &str, name: &str, vals: &[[u64; N]], p_small: bool, rng: &mut Rng, thorough: bool, out: &mut Out) {
    use ark_serialize::Valid;
    use core::str::FromStr;
    let m = vals.len();
    let p = big(&T::MODULUS.0);
    let tiny = N == 1 && T::MODULUS.0[0] < 256;
    let feat = thorough || tiny || FEATURED.contains(&name);
    let pick = |rng: &mut Rng| vals[rng.below(m as u64) as usize];
    // inverse_in_place (zero and non-zero): returned value and `self` afterwards
    for (idx, a) in vals.iter().enumerate() {
        if !(thorough || p_small || idx < 4 || idx % (if N >= 7 { 29 } else { 13 }) == 0) { continue; }
        let mut x = el::<T, N>(a);
        let r = x.inverse_in_place().map(|v| *v);
        out.line(&format!("C01 invip {} {}", pfx, h(a)), &format!("{} {}", opt(r), h(&x.0 .0)));
    }
    // selected operands: 0, 1, -1, the element with raw value 1, random
    let one = F::<T, N>::one();
    let mut sel: Vec<[u64; N]> = vec![[0u64; N], one.0 .0, (-one).0 .0];
    if feat { let mut r1 = [0u64; N]; r1[0] = 1; sel.push(r1); }
    if thorough { sel.push(limbs_of::<N>(&((&p - 1u8) / 2u8))); sel.push(pick(rng)); }
    sel.push(pick(rng));
    let mut pairs: Vec<([u64; N], [u64; N])> = Vec::new();
    if p_small && m <= 13 { for a in vals { for b in vals { pairs.push((*a, *b)); } } }
    else {
        // (inversions on the long moduli dominate the driver's time: fewer pairs there)
        let k = if !thorough && N >= 7 && !feat { 3 } else { sel.len() };
        for a in sel.iter().take(k) { for b in sel.iter().take(k) { pairs.push((*a, *b)); } }
        for _ in 0..(if thorough { 60 } else if k == 3 { 1 } else { 5 }) { pairs.push((pick(rng), pick(rng))); }
    }
    // every pair: one Div/DivAssign variant; add, sub, mul take turns (quick) — 21 consecutive pairs run
    // through all 7 receiver shapes of each of them
    for (t, (a, b)) in pairs.iter().enumerate() {
        let (x, y) = (el::<T, N>(a), el::<T, N>(b));
        let (xh, yh) = (h(a), h(b));
        let all = thorough || p_small;
        if all || t % 3 == 0 { out.line(&format!("C01 add {} {} {}", pfx, xh, yh), &h(&variant!(x, y, t % 7, +, +=).0 .0)); }
        if all || t % 3 == 1 { out.line(&format!("C01 sub {} {} {}", pfx, xh, yh), &h(&variant!(x, y, (t + 2) % 7, -, -=).0 .0)); }
        if all || t % 3 == 2 { out.line(&format!("C01 mul {} {} {}", pfx, xh, yh), &h(&variant!(x, y, (t + 4) % 7, *, *=).0 .0)); }
        out.line(&format!("C01 div {} {} {}", pfx, xh, yh), &guarded(|| h(&variant!(x, y, (t + 6) % 7, /, /=).0 .0)));
    }
    // Sum / Product, owned and by reference
    let mut lens = vec![0usize, 1, 3, 17];
    if feat { lens.push(2); lens.push(8); }
    if thorough { lens.push(100); }
    for len in lens {
        let mut v: Vec<F<T, N>> = (0..len).map(|_| el::<T, N>(&pick(rng))).collect();
        if len >= 3 && rng.below(2) == 0 { for x in v.iter_mut() { *x = -one; } }
        let l = if v.is_empty() { "_".to_string() } else { v.iter().map(|x| h(&x.0 .0)).collect::<Vec<_>>().join(",") };
        out.line(&format!("C01 sum {} {}", pfx, l), &h(&v.iter().copied().sum::<F<T, N>>().0 .0));
        out.line(&format!("C01 sum {} {}", pfx, l), &h(&v.iter().sum::<F<T, N>>().0 .0));
        // products: avoid the all-(-1) vectors collapsing to ±1 only: mix in random factors
        if len >= 3 { v[1] = el::<T, N>(&pick(rng)); }
        let l = if v.is_empty() { "_".to_string() } else { v.iter().map(|x| h(&x.0 .0)).collect::<Vec<_>>().join(",") };
        out.line(&format!("C01 prod {} {}", pfx, l), &h(&v.iter().copied().product::<F<T, N>>().0 .0));
        out.line(&format!("C01 prod {} {}", pfx, l), &h(&v.iter().product::<F<T, N>>().0 .0));
    }
    // AdditiveGroup trait defaults through the wrapper group; Zeroize; Valid; From<Fp> for BigInt
    for (i, a) in sel.iter().enumerate() {
        if !thorough && i >= 3 && i + 1 != sel.len() { continue; }
        let x = el::<T, N>(a);
        let mut w = Wr::<T, N>(x); w.double_in_place();
        out.line(&format!("C01 gdouble {} {}", pfx, h(a)), &h(&w.0 .0 .0));
        out.line(&format!("C01 gdouble {} {}", pfx, h(a)), &h(&Wr::<T, N>(x).double().0 .0 .0));
        let mut w = Wr::<T, N>(x); w.neg_in_place();
        out.line(&format!("C01 gneg {} {}", pfx, h(a)), &h(&w.0 .0 .0));
        out.line(&format!("C01 intobigint {} {}", pfx, h(a)), &h(&BigInt::<N>::from(x).0));
        if !thorough && i != 2 && i + 1 != sel.len() { continue; }
        let mut z = x; zeroize::Zeroize::zeroize(&mut z);
        out.line(&format!("C01 zeroize {} {}", pfx, h(a)), &h(&z.0 .0));
        out.line(&format!("C01 valid {} {}", pfx, h(a)), if x.check().is_ok() { "ok" } else { "err" });
        out.line(&format!("C01 toelems {} {}", pfx, h(a)), &x.to_base_prime_field_elements().map(|e| h(&e.0 .0)).collect::<Vec<_>>().join(","));
    }
    out.line(&format!("C01 char {}", pfx), &hex_list_u64(F::<T, N>::characteristic()));
    for len in [0usize, 1, 2, 3] {
        let v: Vec<F<T, N>> = (0..len).map(|_| el::<T, N>(&pick(rng))).collect();
        let l = if v.is_empty() { "_".to_string() } else { v.iter().map(|x| h(&x.0 .0)).collect::<Vec<_>>().join(",") };
        out.line(&format!("C01 fromelems {} {}", pfx, l), &opt(F::<T, N>::from_base_prime_field_elems(v)));
    }
    // From<{u8,u16,u32,u64,u128,i8,i16,i32,i64,i128,bool}>: every width, MIN/MAX, negative values, values around p
    {
        let pl: u128 = { let l = T::MODULUS.0; (l[0] as u128) | (if N >= 2 { (l[1] as u128) << 64 } else { 0 }) };
        let around: Vec<i128> = if feat && N <= 2 {
            let q = pl as i128; // wraps for p ≥ 2^127: still a deterministic edge value
            vec![q, q.wrapping_sub(1), q.wrapping_add(1), q.wrapping_neg(), q.wrapping_neg().wrapping_add(1), q.wrapping_neg().wrapping_sub(1),
                 q.wrapping_mul(2).wrapping_add(1), q.wrapping_mul(-3), (pl >> 1) as i128, -((pl >> 1) as i128) - 1, 255, 256, -128, -129]
        } else { vec![] };
        macro_rules! from_w {
            ($w:ty, $name:expr, $signed:expr) => {{
                let (lo, hi) = (<$w>::MIN as i128, <$w>::MAX as i128);
                let mut xs: Vec<i128> = if $signed { vec![-1, lo, hi] } else { vec![hi] };
                if feat { if $signed { xs.extend_from_slice(&[0, 1, lo + 1]); } else { xs.extend_from_slice(&[0, 1, hi - 1]); } }
                for _ in 0..(if thorough { 6 } else { 1 }) { xs.push((rng.next() as $w) as i128); }
                for &c in &around { if c >= lo && c <= hi { xs.push(c); } }
                xs.sort(); xs.dedup();
                for x in xs {
                    let v = x as $w;
                    out.line(&format!("C01 fromw {} {} {}", pfx, $name, hi128(x)), &guarded(|| h(&F::<T, N>::from(v).0 .0)));
                }
            }};
        }
        from_w!(u8, "u8", false); from_w!(u16, "u16", false); from_w!(u32, "u32", false); from_w!(u64, "u64", false);
        from_w!(i8, "i8", true); from_w!(i16, "i16", true); from_w!(i32, "i32", true); from_w!(i64, "i64", true);
        from_w!(i128, "i128", true);
        // u128 does not fit i128: separate
        {
            let mut xs: Vec<u128> = vec![0, u128::MAX];
            if feat { xs.extend_from_slice(&[1, u128::MAX - 1, 1 << 127, (1 << 127) - 1]); }
            if feat && N <= 2 { xs.extend_from_slice(&[pl, pl.wrapping_sub(1), pl.wrapping_add(1), pl.wrapping_mul(2), pl.wrapping_mul(3).wrapping_add(7)]); }
            xs.push(((rng.next() as u128) << 64) | rng.next() as u128);
            xs.sort(); xs.dedup();
            for x in xs { out.line(&format!("C01 fromw {} u128 {:x}", pfx, x), &guarded(|| h(&F::<T, N>::from(x).0 .0))); }
        }
        out.line(&format!("C01 fromw {} bool 0", pfx), &guarded(|| h(&F::<T, N>::from(false).0 .0)));
        out.line(&format!("C01 fromw {} bool 1", pfx), &guarded(|| h(&F::<T, N>::from(true).0 .0)));
    }
    // FromStr on arbitrary strings (error cases, signs, leading zeros, values ≥ p)
    {
        let mut strs: Vec<String> = vec!["".into(), "0".into(), "-1".into(), "01".into(), "12a".into(), format!("{}", p)];
        if feat {
            for s in ["1", "-0", "00", "-01", "+1", "1_0", "_1", "1_", "-", "+", "--1", "-+1", "+-1", "++1", "a", " 1", "1 ", "0x10", "1.5", "١"] { strs.push(s.into()); }
            strs.push(format!("{}", &p - 1u8)); strs.push(format!("{}", &p + 1u8)); strs.push(format!("-{}", p)); strs.push(format!("-{}", &p + 5u8));
            strs.push(format!("{}", (&p * &p) + 12345u32)); strs.push(format!("0{}", &p - 1u8));
            strs.push(format!("1{}", "0".repeat(300)));
        }
        for s in strs {
            let r = match F::<T, N>::from_str(&s) { Ok(e) => h(&e.0 .0), Err(_) => "err".into() };
            out.line(&format!("C01 fromstrs {} {}", pfx, hex_list_u8(s.as_bytes())), &r);
        }
    }
}

macro_rules! zoo_ops {
    ($fl:expr, $t:ty, $n:expr, $name:expr, $rng:expr, $th:expr, $out:expr, $only:expr) => {
        ops::<$t, $n>($fl, $name, $rng, $th, $out, $only);
    };
}

pub fn run(rng: &mut Rng, thorough: bool, out: &mut Out, only: &Option<String>) {
    arkharness::for_each_zoo!(zoo_ops, rng, thorough, out, only);
    // shipped fields
    use ark_test_curves::{bls12_381, mnt4_753, secp256k1, bn384_small_two_adicity, ed_on_bls12_381, fp128};
    ops::<bls12_381::FrConfig, 4>("d", "bls12_381::Fr", rng, thorough, out, only);
    ops::<bls12_381::FqConfig, 6>("d", "bls12_381::Fq", rng, thorough, out, only);
    ops::<mnt4_753::FqConfig, 12>("d", "mnt4_753::Fq", rng, thorough, out, only);
    ops::<mnt4_753::FrConfig, 12>("d", "mnt4_753::Fr", rng, thorough, out, only);
    ops::<secp256k1::FqConfig, 4>("d", "secp256k1::Fq", rng, thorough, out, only);
    ops::<secp256k1::FrConfig, 4>("d", "secp256k1::Fr", rng, thorough, out, only);
    ops::<bn384_small_two_adicity::FqConfig, 6>("d", "bn384::Fq", rng, thorough, out, only);
    ops::<bn384_small_two_adicity::FrConfig, 6>("d", "bn384::Fr", rng, thorough, out, only);
    ops::<ed_on_bls12_381::FrConfig, 4>("d", "ed_on_bls12_381::Fr", rng, thorough, out, only);
    ops::<fp128::FqConfig, 2>("d", "fp128::Fq", rng, thorough, out, only);
}

fn main() {
    let a = arkharness::args();
    let mut rng = Rng::new(a.seed);
    let mut out = Out::new();
    run(&mut rng, a.thorough, &mut out, &a.only);
    out.flush();
}
