//! C01: prime-field operations on the configuration zoo + shipped fields.
#![allow(dead_code, deprecated)]
use arkharness::util::*;
use ark_ff::{AdditiveGroup, BigInt, BigInteger, Field, Fp, MontBackend, MontConfig, PrimeField, Zero, One};
use num_bigint::BigUint;

type F<T, const N: usize> = Fp<MontBackend<T, N>, N>;

fn big<const N: usize>(l: &[u64; N]) -> BigUint { BigUint::from(BigInt::<N>(*l)) }
fn limbs_of<const N: usize>(b: &BigUint) -> [u64; N] {
    let mut r = [0u64; N];
    for (i, d) in b.to_u64_digits().iter().enumerate() { if i < N { r[i] = *d; } }
    r
}

/// edge set of valid Montgomery representations (raw limbs < p)
pub fn operands<T: MontConfig<N>, const N: usize>(rng: &mut Rng, extra: usize) -> Vec<[u64; N]> {
    let p = big(&T::MODULUS.0);
    let mut v: Vec<BigUint> = Vec::new();
    let one = BigUint::from(1u8);
    let two = BigUint::from(2u8);
    let r = big(&T::R.0);
    let r2 = big(&T::R2.0);
    for x in [BigUint::from(0u8), one.clone(), two.clone(), &p - &one, (&p - &one) % &p, (&p + &p - &two) % &p,
              (&p - &one) / &two, (&p + &one) / &two, r.clone(), r2.clone(), (&r + &p - &one) % &p, (&p - &r) % &p] {
        v.push(x % &p);
    }
    for e in edge_values::<N>(rng, extra) {
        let x = big(&e);
        v.push(&x % &p);
        if x < p { v.push(x); } else if &x - &p < p { v.push(&x - &p); }
    }
    v.sort(); v.dedup();
    v.iter().map(|b| limbs_of::<N>(b)).collect()
}

fn h<const N: usize>(l: &[u64; N]) -> String { hex_limbs(l) }
fn el<T: MontConfig<N>, const N: usize>(l: &[u64; N]) -> F<T, N> { Fp::new_unchecked(BigInt(*l)) }
fn opt<T: MontConfig<N>, const N: usize>(x: Option<F<T, N>>) -> String { match x { Some(v) => h(&v.0 .0), None => "none".into() } }

pub fn ops<T: MontConfig<N>, const N: usize>(fl: &str, name: &str, rng: &mut Rng, thorough: bool, out: &mut Out, only: &Option<String>) {
    if let Some(o) = only { if o != name { return; } }
    let pfx = format!("{} {:x} {}", fl, N, h(&T::MODULUS.0));
    // constants as computed by this flavour
    out.line(&format!("C01 consts {}", pfx), &format!("{} {} {:x} {} {}", h(&T::R.0), h(&T::R2.0), T::INV,
        if T::MODULUS_HAS_SPARE_BIT { 1 } else { 0 }, if T::CAN_USE_NO_CARRY_MUL_OPT { 1 } else { 0 }));
    let p_small = N == 1 && T::MODULUS.0[0] <= (if thorough { 257 } else { 13 });
    let vals: Vec<[u64; N]> = if p_small {
        (0..T::MODULUS.0[0]).map(|x| { let mut a = [0u64; N]; a[0] = x; a }).collect()   // exhaustive
    } else {
        operands::<T, N>(rng, if thorough { 40 } else { 6 })
    };
    for (idx, a) in vals.iter().enumerate() {
        let x = el::<T, N>(a);
        let ah = h(a);
        out.line(&format!("C01 neg {} {}", pfx, ah), &h(&(-x).0 .0));
        out.line(&format!("C01 double {} {}", pfx, ah), &h(&x.double().0 .0));
        out.line(&format!("C01 square {} {}", pfx, ah), &h(&x.square().0 .0));
        if thorough || idx < 16 || idx % 5 == 0 { out.line(&format!("C01 inverse {} {}", pfx, ah), &opt(x.inverse())); }
        out.line(&format!("C01 intobigint {} {}", pfx, ah), &h(&x.into_bigint().0));
    }
    // from_bigint / Fp::new on arbitrary N-limb integers (also ≥ p)
    let mut ints = edge_values::<N>(rng, if thorough { 30 } else { 6 });
    { let p = T::MODULUS.0; ints.push(p); let mut pm = BigInt::<N>(p); pm.sub_with_borrow(&BigInt::from(1u64)); ints.push(pm.0);
      let mut pp = BigInt::<N>(p); if !pp.add_with_carry(&BigInt::from(1u64)) { ints.push(pp.0); } }
    if p_small { ints.truncate(40); }
    for x in &ints {
        out.line(&format!("C01 frombigint {} {}", pfx, h(x)), &opt(F::<T, N>::from_bigint(BigInt(*x))));
        let xx = *x;
        out.line(&format!("C01 new {} {}", pfx, h(x)), &guarded(move || h(&F::<T, N>::from_sign_and_limbs(true, &xx).0 .0)));
    }
    // binary ops
    let m = vals.len();
    let mut pairs: Vec<(usize, usize)> = Vec::new();
    if p_small { for i in 0..m { for j in 0..m { pairs.push((i, j)); } } }
    else {
        let head = m.min(if thorough { 40 } else { 14 });
        for i in 0..head { for j in 0..head { pairs.push((i, j)); } }
        for _ in 0..(if thorough { 600 } else { 60 }) { pairs.push((rng.below(m as u64) as usize, rng.below(m as u64) as usize)); }
        for i in 0..m { pairs.push((i, i)); }
    }
    for &(i, j) in &pairs {
        let (x, y) = (el::<T, N>(&vals[i]), el::<T, N>(&vals[j]));
        let (xh, yh) = (h(&vals[i]), h(&vals[j]));
        out.line(&format!("C01 add {} {} {}", pfx, xh, yh), &h(&(x + y).0 .0));
        out.line(&format!("C01 sub {} {} {}", pfx, xh, yh), &h(&(x - y).0 .0));
        out.line(&format!("C01 mul {} {} {}", pfx, xh, yh), &h(&(x * y).0 .0));
    }
    // pow: exponents of various limb lengths
    let nexp = if thorough { 24 } else if N > 6 { 5 } else { 7 };
    for t in 0..nexp {
        let a = vals[rng.below(m as u64) as usize];
        let e: Vec<u64> = match t { 0 => vec![], 1 => vec![0], 2 => vec![1], 3 => vec![0, 0, 1], 4 => T::MODULUS.0.to_vec(),
            5 => { let mut q = BigInt::<N>(T::MODULUS.0); q.sub_with_borrow(&BigInt::from(1u64)); q.0.to_vec() },
            _ => (0..(1 + rng.below(3))).map(|_| rng.next()).collect() };
        out.line(&format!("C01 pow {} {} {}", pfx, h(&a), hex_list_u64(&e)), &h(&el::<T, N>(&a).pow(&e).0 .0));
    }
    // sum_of_products with M = 0..=8 and a long one
    macro_rules! sop { ($m:expr) => {{
        let mut aa = [F::<T, N>::zero(); $m]; let mut bb = [F::<T, N>::zero(); $m];
        for k in 0..$m { aa[k] = el::<T, N>(&vals[rng.below(m as u64) as usize]); bb[k] = el::<T, N>(&vals[rng.below(m as u64) as usize]); }
        // bias towards p-1 operands (largest accumulations)
        if rng.below(2) == 0 { for k in 0..$m { aa[k] = -F::<T, N>::one(); bb[k] = -F::<T, N>::one(); aa[k].0 = { let mut q = BigInt::<N>(T::MODULUS.0); q.sub_with_borrow(&BigInt::from(1u64)); q }; bb[k].0 = aa[k].0; } }
        let r = F::<T, N>::sum_of_products(&aa, &bb);
        out.line(&format!("C01 sop {} {} {}", pfx, if $m == 0 { "_".to_string() } else { aa.iter().map(|x| h(&x.0 .0)).collect::<Vec<_>>().join(",") },
            if $m == 0 { "_".to_string() } else { bb.iter().map(|x| h(&x.0 .0)).collect::<Vec<_>>().join(",") }), &h(&r.0 .0));
    }}; }
    for _ in 0..(if thorough { 4 } else { 2 }) { sop!(0); sop!(1); sop!(2); sop!(3); sop!(4); sop!(5); sop!(7); sop!(8); sop!(16); sop!(33); }
    // integer / byte-string / decimal conversions
    {
        let ints: Vec<u128> = { let mut v = vec![0u128, 1, 2, 255, 256, 257, u64::MAX as u128, (u64::MAX as u128) + 1, u128::MAX, u128::MAX - 1, 1 << 127, (1 << 127) - 1,
            T::MODULUS.0[0] as u128, (T::MODULUS.0[0] as u128).wrapping_sub(1), (T::MODULUS.0[0] as u128) + 1];
            if N >= 2 { let m = T::MODULUS.0[0] as u128 + ((T::MODULUS.0[1] as u128) << 64); v.push(m); v.push(m.wrapping_sub(1)); v.push(m.wrapping_add(1)); }
            for _ in 0..(if thorough { 12 } else { 3 }) { v.push(((rng.next() as u128) << 64) | rng.next() as u128); v.push(rng.next() as u128); }
            v };
        for &x in &ints {
            out.line(&format!("C01 fromu128 {} {:x}", pfx, x), &guarded(|| h(&F::<T, N>::from(x).0 .0)));
            out.line(&format!("C01 fromu64 {} {:x}", pfx, x as u64), &guarded(|| h(&F::<T, N>::from(x as u64).0 .0)));
            let xi = x as i128;
            let hi = |v: i128| if v < 0 { format!("-{:x}", v.unsigned_abs()) } else { format!("{:x}", v) };
            out.line(&format!("C01 fromi128 {} {}", pfx, hi(xi)), &guarded(|| h(&F::<T, N>::from(xi).0 .0)));
            let x64 = x as u64 as i64;
            out.line(&format!("C01 fromi64 {} {}", pfx, hi(x64 as i128)), &guarded(|| h(&F::<T, N>::from(x64).0 .0)));
            out.line(&format!("C01 fromu64 {} {:x}", pfx, x as u8), &guarded(|| h(&F::<T, N>::from(x as u8).0 .0)));
            out.line(&format!("C01 fromu64 {} {:x}", pfx, x as u32), &guarded(|| h(&F::<T, N>::from(x as u32).0 .0)));
        }
        let nb = ((T::MODULUS.num_bits() + 7) / 8) as usize;
        // oversized limb counts (hand-written configs with more limbs than the modulus needs) are outside
        // the property's quantifier for the byte-string conversions (from_random_bytes rejects them)
        let minimal = T::MODULUS.num_bits() as usize > 64 * (N - 1);
        for len in [0usize, 1, 2, nb.saturating_sub(2), nb - 1, nb, nb + 1, nb + 2, 2 * nb, 2 * nb + 3, 100] {
            if !minimal { break; }
            for pat in 0..3 {
                let bytes: Vec<u8> = (0..len).map(|_| match pat { 0 => 0xffu8, 1 => (rng.next() & 0xff) as u8, _ => if rng.below(4) == 0 { 0 } else { (rng.next() & 0xff) as u8 } }).collect();
                out.line(&format!("C01 frombytesle {} {}", pfx, hex_list_u8(&bytes)), &guarded(|| h(&F::<T, N>::from_le_bytes_mod_order(&bytes).0 .0)));
                out.line(&format!("C01 frombytesbe {} {}", pfx, hex_list_u8(&bytes)), &guarded(|| h(&F::<T, N>::from_be_bytes_mod_order(&bytes).0 .0)));
            }
        }
        // decimal strings (num-bigint does the digit work): value, -value, value ≥ p
        use core::str::FromStr;
        for t in 0..6 {
            let v = big(&vals[rng.below(m as u64) as usize]) + if t % 2 == 0 { BigUint::from(0u8) } else { big(&T::MODULUS.0) * BigUint::from(3u8) };
            let s = if t >= 3 { format!("-{}", v) } else { format!("{}", v) };
            let hx = if t >= 3 { format!("-{:x}", v) } else { format!("{:x}", v) };
            let r = match F::<T, N>::from_str(&s) { Ok(e) => h(&e.0 .0), Err(_) => "err".into() };
            out.line(&format!("C01 fromstr {} {}", pfx, hx), &r);
        }
        for t in 0..4 {
            let a = vals[(t * 7 + 1) % m];
            let e = el::<T, N>(&a);
            let d = format!("{}", e);
            let parsed = BigUint::from_str(&d).map(|b| format!("{:x}", b)).unwrap_or("err".into());
            // the printed decimal must denote the standard value: result = hex of the parsed decimal
            out.line(&format!("C01 display {} {} {}", pfx, h(&a), parsed), &parsed);
        }
    }
    // batch inversion
    for len in [0usize, 1, 2, 3, 5, 9] {
        let mut v: Vec<F<T, N>> = (0..len).map(|_| el::<T, N>(&vals[rng.below(m as u64) as usize])).collect();
        if len > 2 { v[1] = F::<T, N>::zero(); }
        let coeff = el::<T, N>(&vals[rng.below(m as u64) as usize]);
        let inp = format!("C01 batchinv {} {} {}", pfx, if len == 0 { "_".to_string() } else { v.iter().map(|x| h(&x.0 .0)).collect::<Vec<_>>().join(",") }, h(&coeff.0 .0));
        let r = guarded(move || { ark_ff::fields::batch_inversion_and_mul(&mut v, &coeff); if v.is_empty() { "_".to_string() } else { v.iter().map(|x| h(&x.0 .0)).collect::<Vec<_>>().join(",") } });
        out.line(&inp, &r);
    }
}

macro_rules! zoo_ops {
    ($fl:expr, $t:ty, $n:expr, $name:expr, $rng:expr, $th:expr, $out:expr, $only:expr) => {
        ops::<$t, $n>($fl, $name, $rng, $th, $out, $only);
    };
}

pub fn run(rng: &mut Rng, thorough: bool, out: &mut Out, only: &Option<String>) {
    arkharness::for_each_zoo!(zoo_ops, rng, thorough, out, only);
    // shipped fields
    use ark_test_curves::{bls12_381, mnt4_753, secp256k1, bn384_small_two_adicity, ed_on_bls12_381, fp128};
    ops::<bls12_381::FrConfig, 4>("d", "bls12_381::Fr", rng, thorough, out, only);
    ops::<bls12_381::FqConfig, 6>("d", "bls12_381::Fq", rng, thorough, out, only);
    ops::<mnt4_753::FqConfig, 12>("d", "mnt4_753::Fq", rng, thorough, out, only);
    ops::<mnt4_753::FrConfig, 12>("d", "mnt4_753::Fr", rng, thorough, out, only);
    ops::<secp256k1::FqConfig, 4>("d", "secp256k1::Fq", rng, thorough, out, only);
    ops::<secp256k1::FrConfig, 4>("d", "secp256k1::Fr", rng, thorough, out, only);
    ops::<bn384_small_two_adicity::FqConfig, 6>("d", "bn384::Fq", rng, thorough, out, only);
    ops::<bn384_small_two_adicity::FrConfig, 6>("d", "bn384::Fr", rng, thorough, out, only);
    ops::<ed_on_bls12_381::FrConfig, 4>("d", "ed_on_bls12_381::Fr", rng, thorough, out, only);
    ops::<fp128::FqConfig, 2>("d", "fp128::Fq", rng, thorough, out, only);
}

fn main() {
    let a = arkharness::args();
    let mut rng = Rng::new(a.seed);
    let mut out = Out::new();
    run(&mut rng, a.thorough, &mut out, &a.only);
    out.flush();
}
