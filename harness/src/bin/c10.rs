//! C10: checked deserialisation only yields valid group elements and never panics.
//! Real code: `deserialize_with_mode` / `deserialize_with_flags` of `Fp`, the extension templates,
//! SW/TE `Affine` and `Projective`, read through a counting reader.  Inputs: every truncation, all
//! flag-bit combinations in the top byte, the integers p, p+1, 2^bits-1, stray bits above the modulus,
//! x without a point, curve points outside the prime-order subgroup, identity encodings with non-zero
//! coordinates; exhaustive over all byte strings of the right length for toy fields / toy curves.
//! Line formats: see `src/serial_common.rs`.  Sub-streams: field, ext, toy, ship.
#![allow(dead_code, deprecated, non_camel_case_types)]
use ark_ec::{short_weierstrass as sw, twisted_edwards as te};
use ark_ff::{Field, PrimeField, Zero};
use ark_serialize::{CanonicalSerializeWithFlags, Compress, EmptyFlags, Validate};
use arkharness::serial_common::*;
use arkharness::util::*;
use arkharness::zoo::*;

// ---------------------------------------------------------------- fields
fn field_mal<F: Field>(out: &mut Out, rng: &mut Rng, fd: &str, vals: &[F], exh: usize, sweeps: usize) {
    for (i, b) in field_strings::<F, EmptyFlags>(rng, vals, exh, sweeps, true).iter().enumerate() {
        op_mfde::<F>(out, fd, b, Compress::Yes, Validate::Yes);
        if i % 7 == 0 { for (c, v) in &MODES[1..] { op_mfde::<F>(out, fd, b, *c, *v); } }
    }
    macro_rules! with_flags { ($fl:ty) => {
        for b in field_strings::<F, $fl>(rng, vals, exh, sweeps, true) { op_mfdefl::<F, $fl>(out, fd, &b); }
    }; }
    with_flags!(EmptyFlags);
    with_flags!(sw::SWFlags);
    with_flags!(te::TEFlags);
    with_flags!(W3);
    with_flags!(W8);
    with_flags!(W9);
}
fn prime_mal<F: PrimeField>(out: &mut Out, rng: &mut Rng, th: bool) {
    let fd = fdesc::<F>("_");
    let vals: Vec<F> = edge_prime::<F>(rng, 6);
    field_mal::<F>(out, rng, &fd, &vals, if th { 2 } else { 1 }, if th { 4 } else { 1 });
}
fn ext_mal<F: Field>(out: &mut Out, rng: &mut Rng, tower: &str, th: bool) {
    let fd = fdesc::<F>(tower);
    let vals = edge_ext::<F>(rng, 3 * F::extension_degree() as usize + 8);
    field_mal::<F>(out, rng, &fd, &vals, 0, if th { 3 } else { 1 });
}

// ---------------------------------------------------------------- curves
/// would the unchecked deserialisation succeed?  (then the checked one runs the subgroup test)
fn parses<T: Rep>(b: &[u8], c: Compress) -> bool { T::deserialize_with_mode(b, c, Validate::No).is_ok() }

/// shipped curves: the unchecked mode always; the checked modes when they are cheap (the input is
/// rejected before the subgroup test) or while the budget of scalar multiplications lasts
fn emit_ship<A: Rep, Pj: Rep>(out: &mut Out, cd: &str, b: &[u8], c: Compress, want_proj: bool) {
    op_mpde::<A>(out, cd, b, c, Validate::No);
    let cheap = match A::deserialize_with_mode(b, c, Validate::No) { Ok(p) => p.trivial(), Err(_) => true };
    if cheap || spend(1) { op_mpde::<A>(out, cd, b, c, Validate::Yes); }
    if want_proj {
        if cheap || spend(1) { op_mpde::<Pj>(out, cd, b, c, Validate::Yes); }
        op_mpde::<Pj>(out, cd, b, c, Validate::No);
    }
}
/// emit a string for both validation modes and both representations
fn emit_all<A: Rep, Pj: Rep>(out: &mut Out, cd: &str, b: &[u8], c: Compress) {
    op_mpde::<A>(out, cd, b, c, Validate::Yes);
    op_mpde::<A>(out, cd, b, c, Validate::No);
    op_mpde::<Pj>(out, cd, b, c, Validate::Yes);
}
/// budgeted: the checked mode only when it is cheap (input rejected before the subgroup test) or every `every`-th time
fn emit_budget<A: Rep, Pj: Rep>(out: &mut Out, cd: &str, b: &[u8], c: Compress, i: usize, every: usize) {
    op_mpde::<A>(out, cd, b, c, Validate::No);
    if !parses::<A>(b, c) || i % every == 0 { op_mpde::<A>(out, cd, b, c, Validate::Yes); }
    if i % every == 0 { op_mpde::<Pj>(out, cd, b, c, Validate::No); }
}

/// (size, prime-field coefficient slots) of a sequence of field elements; `lasts[i]` = byte length of
/// the last coefficient of element `i` (longer when it carries flags)
fn slots_of(k: usize, s0: usize, lasts: &[usize]) -> (usize, Vec<(usize, usize)>) {
    let mut off = 0; let mut v = Vec::new();
    for l in lasts { for j in 0..k { let len = if j + 1 == k { *l } else { s0 }; v.push((off, len)); off += len; } }
    (off, v)
}
fn slots_sw<F: Field>(c: Compress) -> (usize, Vec<(usize, usize)>) {
    let k = F::extension_degree() as usize;
    let s0 = F::BasePrimeField::zero().serialized_size_with_flags::<EmptyFlags>();
    let sl = F::BasePrimeField::zero().serialized_size_with_flags::<sw::SWFlags>();
    match c { Compress::Yes => slots_of(k, s0, &[sl]), Compress::No => slots_of(k, s0, &[s0, sl]) }
}
fn slots_te<F: Field>(c: Compress) -> (usize, Vec<(usize, usize)>) {
    let k = F::extension_degree() as usize;
    let s0 = F::BasePrimeField::zero().serialized_size_with_flags::<EmptyFlags>();
    let sl = F::BasePrimeField::zero().serialized_size_with_flags::<te::TEFlags>();
    match c { Compress::Yes => slots_of(k, s0, &[sl]), Compress::No => slots_of(k, s0, &[s0, s0]) }
}

/// `Valid::check` / `batch_check` on in-memory points: valid ones, curve points outside the subgroup, off-curve pairs
fn sw_check_ops<P: sw::SWCurveConfig>(out: &mut Out, cd: &str, good: &[sw::Affine<P>], other: &[sw::Affine<P>], lam: P::BaseField, nb: usize) {
    let one = <P::BaseField as ark_ff::One>::one();
    let mut bad: Vec<sw::Affine<P>> = other.to_vec();
    for a in good.iter().chain(other.iter()).take(if nb >= 4 { 6 } else { 2 }) { if !a.infinity { bad.push(sw::Affine::<P>::new_unchecked(a.x, a.y + one)); } }
    for a in good.iter().chain(bad.iter()) {
        op_pchk(out, cd, a);
        op_pchk(out, cd, &sw_rescale(&sw::Projective::<P>::from(*a), lam));
    }
    let pj = |v: &[sw::Affine<P>]| v.iter().map(|a| sw_rescale(&sw::Projective::<P>::from(*a), lam)).collect::<Vec<_>>();
    let g: Vec<_> = good.iter().cloned().take(if nb >= 4 { 6 } else { 2 }).collect();
    op_pbchk::<sw::Affine<P>>(out, cd, &[]);
    op_pbchk(out, cd, &g);
    op_pbchk(out, cd, &pj(&g));
    for b in bad.iter().take(nb) {
        let mut first = vec![*b]; first.extend(g.iter().cloned());
        let mut last = g.clone(); last.push(*b);
        op_pbchk(out, cd, &first); op_pbchk(out, cd, &pj(&last));
        if nb >= 4 { op_pbchk(out, cd, &last); op_pbchk(out, cd, &pj(&first)); }
    }
}
fn te_check_ops<P: te::TECurveConfig>(out: &mut Out, cd: &str, good: &[te::Affine<P>], other: &[te::Affine<P>], lam: P::BaseField, nb: usize) {
    let one = <P::BaseField as ark_ff::One>::one();
    let mut bad: Vec<te::Affine<P>> = other.to_vec();
    for a in good.iter().chain(other.iter()).take(if nb >= 4 { 6 } else { 2 }) { bad.push(te::Affine::<P>::new_unchecked(a.x + one, a.y)); }
    for a in good.iter().chain(bad.iter()) {
        op_pchk(out, cd, a);
        op_pchk(out, cd, &te_rescale(&te::Projective::<P>::from(*a), lam));
    }
    let pj = |v: &[te::Affine<P>]| v.iter().map(|a| te_rescale(&te::Projective::<P>::from(*a), lam)).collect::<Vec<_>>();
    let g: Vec<_> = good.iter().cloned().take(if nb >= 4 { 6 } else { 2 }).collect();
    op_pbchk::<te::Affine<P>>(out, cd, &[]);
    op_pbchk(out, cd, &g);
    op_pbchk(out, cd, &pj(&g));
    for b in bad.iter().take(nb) {
        let mut first = vec![*b]; first.extend(g.iter().cloned());
        let mut last = g.clone(); last.push(*b);
        op_pbchk(out, cd, &first); op_pbchk(out, cd, &pj(&last));
        if nb >= 4 { op_pbchk(out, cd, &last); op_pbchk(out, cd, &pj(&first)); }
    }
}

/// all strings of length `size` when that is feasible for the tier, otherwise a structured family
fn toy_strings<Fq: PrimeField>(rng: &mut Rng, valid: &[Vec<u8>], size: usize, slots: &[(usize, usize)], th: bool, exh2: bool) -> Vec<Vec<u8>> {
    let mut v: Vec<Vec<u8>> = Vec::new();
    if size <= 1 || (size == 2 && exh2) {
        v.extend(all_strings(size));
        for l in 0..size { v.extend(all_strings(l)); }
        v.push(vec![3u8; size + 1]);
        v.push(vec![0u8; size + 9]);
        return v;
    }
    let (core, bulk) = point_strings::<Fq>(rng, valid, size, slots, if th { 12 } else { 3 }, 20);
    v.extend(core); v.extend(bulk);
    if size == 2 {
        // first byte: everything; second byte: flag combinations, stray bits, small values
        for b0 in 0..=255u8 { for b1 in [0u8, 0x40, 0x81] { v.push(vec![b0, b1]); } }
        // second byte: everything, for a few first bytes
        for b0 in [0u8, 3, 13, 0xfb] { for b1 in 0..=255u8 { v.push(vec![b0, b1]); } }
    }
    dedup(v)
}

/// `exh2`: enumerate all 2-byte strings; `lean`: only the checked affine mode for them
fn toy_sw_mal<P: sw::SWCurveConfig>(out: &mut Out, rng: &mut Rng, name: &str, tw: &str, order: u64, th: bool, exh2: bool) {
    check_sw::<P>(name, order);
    let cd = sw_desc::<P>(&fdesc::<P::BaseField>(tw));
    let mut pts = vec![sw::Affine::<P>::identity()];
    pts.extend(sw_all_points::<P>());
    {
        use ark_ec::AffineRepr;
        let r = <P::ScalarField as PrimeField>::MODULUS;
        let (good, other): (Vec<_>, Vec<_>) = pts.iter().cloned().partition(|p| ark_ec::CurveGroup::into_affine(p.mul_bigint(r)).infinity);
        sw_check_ops::<P>(out, &cd, &good, &other, small_f::<P::BaseField>(2), 4);
    }
    for c in [Compress::Yes, Compress::No] {
        let (size, slots) = slots_sw::<P::BaseField>(c);
        let valid: Vec<Vec<u8>> = pts.iter().map(|p| ser_vec(p, c)).collect();
        let lean = size == 2 && exh2 && !th;
        for b in toy_strings::<<P::BaseField as Field>::BasePrimeField>(rng, &valid, size, &slots, th, exh2) {
            if lean { op_mpde::<sw::Affine<P>>(out, &cd, &b, c, Validate::Yes); } else { emit_all::<sw::Affine<P>, sw::Projective<P>>(out, &cd, &b, c); }
        }
    }
}
fn toy_te_mal<P: te::TECurveConfig>(out: &mut Out, rng: &mut Rng, name: &str, order: u64, th: bool, exh2: bool) {
    check_te::<P>(name, order);
    let cd = te_desc::<P>(&fdesc::<P::BaseField>("_"));
    let pts = te_all_points::<P>();
    {
        use ark_ec::AffineRepr;
        let r = <P::ScalarField as PrimeField>::MODULUS;
        let (good, other): (Vec<_>, Vec<_>) = pts.iter().cloned().partition(|p| ark_ec::CurveGroup::into_affine(p.mul_bigint(r)).is_zero());
        te_check_ops::<P>(out, &cd, &good, &other, small_f::<P::BaseField>(2), 4);
    }
    for c in [Compress::Yes, Compress::No] {
        let (size, slots) = slots_te::<P::BaseField>(c);
        let valid: Vec<Vec<u8>> = pts.iter().map(|p| ser_vec(p, c)).collect();
        let lean = size == 2 && exh2 && !th;
        for b in toy_strings::<<P::BaseField as Field>::BasePrimeField>(rng, &valid, size, &slots, th, exh2) {
            if lean { op_mpde::<te::Affine<P>>(out, &cd, &b, c, Validate::Yes); } else { emit_all::<te::Affine<P>, te::Projective<P>>(out, &cd, &b, c); }
        }
    }
}

fn ship_sw_mal<P: sw::SWCurveConfig>(out: &mut Out, rng: &mut Rng, n: usize, th: bool, tw: &str, h1: Option<&str>, budget: i64, thin: usize) {
    set_budget(if th { i64::MAX } else { budget / 3 });
    let fd = fdesc::<P::BaseField>(tw);
    let cd = match h1 { Some(h) => sw_desc_with::<P>(&fd, h), None => sw_desc::<P>(&fd) };
    let (sub, other) = sw_sample::<P>(rng, n);
    sw_check_ops::<P>(out, &cd, &sub[..sub.len().min(if th { 6 } else { 3 })], &other[..other.len().min(if th { 3 } else { 1 })], rand_field::<P::BaseField>(rng), if th { 4 } else { 1 });
    for c in [Compress::Yes, Compress::No] {
        if !th { set_budget(budget / 3); }
        let (size, slots) = slots_sw::<P::BaseField>(c);
        // valid encodings: identity, subgroup points, curve points outside the subgroup / with small-order components
        let mut valid: Vec<Vec<u8>> = Vec::new();
        for (i, p) in sub.iter().enumerate() { valid.push(ser_vec(p, c)); if i < other.len() { valid.push(ser_vec(&other[i], c)); } }
        for p in other.iter().skip(sub.len()) { valid.push(ser_vec(p, c)); }
        let (mut core, bulk) = point_strings::<<P::BaseField as Field>::BasePrimeField>(rng, &valid, size, &slots, if th { 3 } else { 1 }, if th { 40 } else { 8 });
        // x with no point on the curve (compressed: nothing to decompress; uncompressed: y arbitrary)
        for _ in 0..(if th { 8 } else { 2 }) {
            let x = sw_rand_noncurve_x::<P>(rng);
            let mut w = valid[1].clone();
            let xb = ser_vec(&x, Compress::Yes);
            let keep = w[size - 1] & 0xc0;
            w[..xb.len()].copy_from_slice(&xb);
            if c == Compress::Yes { w[size - 1] |= keep; }
            core.push(w);
        }
        // on the curve, y replaced by y + 1 (uncompressed)
        if c == Compress::No {
            let q = sw::Affine::<P>::new_unchecked(sub[1].x, sub[1].y + <P::BaseField as ark_ff::One>::one());
            core.push(ser_vec(&q, c));
        }
        if th {
            for b in core.iter() { emit_all::<sw::Affine<P>, sw::Projective<P>>(out, &cd, b, c); }
            for (i, b) in bulk.iter().enumerate() { emit_budget::<sw::Affine<P>, sw::Projective<P>>(out, &cd, b, c, i, 4); }
        } else {
            for (i, b) in core.iter().enumerate() { emit_ship::<sw::Affine<P>, sw::Projective<P>>(out, &cd, b, c, i % 4 == 0); }
            // quick tier: every `thin`-th string of the bulk family (each costs the driver a square root)
            for (i, b) in bulk.iter().step_by(thin).enumerate() { emit_ship::<sw::Affine<P>, sw::Projective<P>>(out, &cd, b, c, i % 16 == 0); }
        }
    }
}
fn ship_te_mal<P: te::TECurveConfig>(out: &mut Out, rng: &mut Rng, n: usize, th: bool, budget: i64) {
    set_budget(if th { i64::MAX } else { budget / 3 });
    let cd = te_desc::<P>(&fdesc::<P::BaseField>("_"));
    let (sub, other) = te_sample::<P>(rng, n);
    te_check_ops::<P>(out, &cd, &sub[..sub.len().min(if th { 6 } else { 3 })], &other[..other.len().min(if th { 3 } else { 1 })], rand_field::<P::BaseField>(rng), if th { 4 } else { 1 });
    for c in [Compress::Yes, Compress::No] {
        if !th { set_budget(budget / 3); }
        let (size, slots) = slots_te::<P::BaseField>(c);
        let mut valid: Vec<Vec<u8>> = Vec::new();
        for (i, p) in sub.iter().enumerate() { valid.push(ser_vec(p, c)); if i < other.len() { valid.push(ser_vec(&other[i], c)); } }
        for p in other.iter().skip(sub.len()) { valid.push(ser_vec(p, c)); }
        let (mut core, bulk) = point_strings::<<P::BaseField as Field>::BasePrimeField>(rng, &valid, size, &slots, if th { 3 } else { 1 }, if th { 40 } else { 8 });
        for _ in 0..(if th { 8 } else { 2 }) {
            let y = te_rand_noncurve_y::<P>(rng);
            let yb = ser_vec(&y, Compress::Yes);
            let mut w = valid[1].clone();
            let off = size - yb.len();
            w[off..].copy_from_slice(&yb);
            core.push(w);
        }
        if th {
            for b in core.iter() { emit_all::<te::Affine<P>, te::Projective<P>>(out, &cd, b, c); }
            for (i, b) in bulk.iter().enumerate() { emit_budget::<te::Affine<P>, te::Projective<P>>(out, &cd, b, c, i, 4); }
        } else {
            for (i, b) in core.iter().enumerate() { emit_ship::<te::Affine<P>, te::Projective<P>>(out, &cd, b, c, i % 4 == 0); }
            for (i, b) in bulk.iter().step_by(2).enumerate() { emit_ship::<te::Affine<P>, te::Projective<P>>(out, &cd, b, c, i % 16 == 0); }
        }
    }
}

fn main() {
    let a = arkharness::args();
    let th = a.thorough;
    if std::env::var("ARK_DEBUG").is_ok() { let _ = std::panic::take_hook(); }
    let mut rng = Rng::new(a.seed);
    let mut out = Out::new();
    let want = |s: &str| a.only.as_deref().map(|o| o == s).unwrap_or(true);
    use ark_test_curves::{bls12_381, ed_on_bls12_381, mnt4_753, mnt6_753, secp256k1};

    if want("field") {
        prime_mal::<FDT3>(&mut out, &mut rng, th);
        prime_mal::<FDT7>(&mut out, &mut rng, th);
        prime_mal::<FDT13>(&mut out, &mut rng, th);
        prime_mal::<FDT127>(&mut out, &mut rng, th);
        prime_mal::<FDT251>(&mut out, &mut rng, th);
        prime_mal::<FDT257>(&mut out, &mut rng, th);
        prime_mal::<FDM61>(&mut out, &mut rng, th);
        prime_mal::<FDP63>(&mut out, &mut rng, th);
        prime_mal::<FDP64m59>(&mut out, &mut rng, th);
        prime_mal::<FDGoldilocks>(&mut out, &mut rng, th);
        prime_mal::<FDM127>(&mut out, &mut rng, th);
        prime_mal::<FDP126>(&mut out, &mut rng, th);
        prime_mal::<FDP128m159>(&mut out, &mut rng, th);
        prime_mal::<FDP25519>(&mut out, &mut rng, th);
        prime_mal::<FDSecp256k1>(&mut out, &mut rng, th);
        prime_mal::<FHSecp256k1>(&mut out, &mut rng, th);
        prime_mal::<FDBls381Fr>(&mut out, &mut rng, th);
        prime_mal::<FDBls381Fq>(&mut out, &mut rng, th);
        prime_mal::<FDFull13>(&mut out, &mut rng, th);
        prime_mal::<FHT13x2>(&mut out, &mut rng, th);
        prime_mal::<FHT251x4>(&mut out, &mut rng, th);
        prime_mal::<mnt4_753::Fq>(&mut out, &mut rng, th);
    }
    if want("ext") {
        ext_mal::<bls12_381::Fq2>(&mut out, &mut rng, "2", th);
        ext_mal::<bls12_381::Fq6>(&mut out, &mut rng, "3.2", th);
        ext_mal::<bls12_381::Fq12>(&mut out, &mut rng, "2.3.2", th);
        ext_mal::<mnt6_753::Fq3>(&mut out, &mut rng, "3", th);
    }
    if want("toy") {
        toy_sw_mal::<SW13B>(&mut out, &mut rng, "SW13B", "_", 21, th, th);
        toy_sw_mal::<SW13C>(&mut out, &mut rng, "SW13C", "_", 12, th, th);
        toy_sw_mal::<SW13D>(&mut out, &mut rng, "SW13D", "_", 14, th, true);
        toy_sw_mal::<SW13E>(&mut out, &mut rng, "SW13E", "_", 20, th, th);
        toy_sw_mal::<SW13F>(&mut out, &mut rng, "SW13F", "_", 13, th, th);
        toy_sw_mal::<SW127C>(&mut out, &mut rng, "SW127C", "_", 136, th, th);
        toy_sw_mal::<SW251A>(&mut out, &mut rng, "SW251A", "_", 282, th, th);
        toy_sw_mal::<SW251B>(&mut out, &mut rng, "SW251B", "_", 232, th, th);
        toy_sw_mal::<SW251C>(&mut out, &mut rng, "SW251C", "_", 271, th, th);
        toy_sw_mal::<SW257A>(&mut out, &mut rng, "SW257A", "_", 258, th, th);
        toy_sw_mal::<SW49A>(&mut out, &mut rng, "SW49A", "2:6", 48, th, th);
        toy_sw_mal::<SW49B>(&mut out, &mut rng, "SW49B", "2:6", 44, th, th);
        toy_sw_mal::<SW169A>(&mut out, &mut rng, "SW169A", "2:2", 193, th, th);
        toy_te_mal::<TE13A>(&mut out, &mut rng, "TE13A", 20, th, th);
        toy_te_mal::<TE127A>(&mut out, &mut rng, "TE127A", 124, th, th);
        toy_te_mal::<TE251A>(&mut out, &mut rng, "TE251A", 236, th, th);
        toy_te_mal::<TE251B>(&mut out, &mut rng, "TE251B", 232, th, th);
        toy_te_mal::<TE257A>(&mut out, &mut rng, "TE257A", 236, th, th);
    }
    if want("ship") {
        ship_sw_mal::<bls12_381::g1::Config>(&mut out, &mut rng, if th { 10 } else { 2 }, th, "_", None, 12, 2);
        ship_sw_mal::<secp256k1::Config>(&mut out, &mut rng, if th { 10 } else { 2 }, th, "_", None, 18, 2);
        ship_sw_mal::<mnt4_753::g1::Config>(&mut out, &mut rng, if th { 4 } else { 1 }, th, "_", None, 3, 3);
        ship_sw_mal::<bls12_381::g2::Config>(&mut out, &mut rng, if th { 8 } else { 2 }, th, &g2_tower(), Some(&g2_h1()), 9, 3);
        ship_te_mal::<ed_on_bls12_381::EdwardsConfig>(&mut out, &mut rng, if th { 10 } else { 2 }, th, 12);
        set_budget(i64::MAX);
    }
    out.flush();
    eprintln!("c10: {} lines", out.count);
}
