//! Shared code of the C09 (round trip / size / uniqueness) and C10 (malformed input) harness
//! binaries: counting reader, canonical printing, test flag types, toy curves, value and
//! byte-string generators, and the generic op emitters.
//!
//! Line formats (see lean/Ark/Model/DrvC09.lean):
//!   field descriptor  FD = `<p> <N> <tower>`   (tower: `_` prime field, `2`, `3`, `3.2`, `2.3.2` top level first)
//!   curve descriptor  CD = `sw FD <a> <b> <r> <h1>` | `te FD <a> <d> <r> <h1>`   (h1 = cofactor_is_one)
//!   field element     coefficients over the prime field, comma separated (to_base_prime_field_elements order)
//!   bytes             comma separated hex bytes, `_` for empty
//!   C09 frt   FD <c|u> <y|n> <x>            => <bytes>;<size>;<de>;<consumed>      de run on bytes ++ [a5,5a]
//!   C09 fflrt FD <flagty> <flag> <x>        => <bytes>;<size>;<de>;<consumed>
//!   C09 funiq FD <flagty> <bytes>           => <de>;<consumed>;<re-serialised bytes | ->
//!   C09 frb   FD <flagty> <bytes>           => some <x> <flag> | none
//!   C09 prt   CD <aff|proj> <c|u> <y|n> <P> => <bytes>;<size>;<de>;<consumed>
//!   C10 mfde  FD <c|u> <y|n> <bytes>        => <de>;<consumed>
//!   C10 mfdefl FD <flagty> <bytes>          => <de>;<consumed>
//!   C10 mpde  CD <aff|proj> <c|u> <y|n> <bytes> => <de>;<consumed>
//!   C10 pchk  CD <aff|proj> <P>            => ok | err:invalid      (Valid::check)
//!   C10 pbchk CD <aff|proj> <P1;P2;…>      => ok | err:invalid      (Valid::batch_check; `_` = empty batch)
//!   <de> = `ok <value>[ <flag>]` | `err:<io|invalid|notenough|flags>`; a panic prints `panic` for the whole result.
#![allow(non_camel_case_types)]
use crate::util::*;
use ark_ec::{short_weierstrass as sw, twisted_edwards as te, AffineRepr, CurveConfig, CurveGroup};
use ark_ff::{BigInteger, Field, Fp, Fp2, Fp2Config, MontBackend, MontConfig, MontFp, PrimeField, Zero};
use ark_serialize::{
    CanonicalDeserialize, CanonicalSerialize, CanonicalSerializeWithFlags, Compress, EmptyFlags, Flags, SerializationError, Validate,
};
use std::io::Read;

// ------------------------------------------------------------------ counting reader
pub struct CountRd<'a> {
    pub inner: &'a [u8],
    pub n: usize,
}
impl<'a> CountRd<'a> {
    pub fn new(b: &'a [u8]) -> Self { CountRd { inner: b, n: 0 } }
}
impl<'a> Read for CountRd<'a> {
    fn read(&mut self, buf: &mut [u8]) -> std::io::Result<usize> {
        let k = self.inner.read(buf)?;
        self.n += k;
        Ok(k)
    }
}

pub fn err_str(e: &SerializationError) -> &'static str {
    match e {
        SerializationError::NotEnoughSpace => "notenough",
        SerializationError::InvalidData => "invalid",
        SerializationError::UnexpectedFlags => "flags",
        SerializationError::IoError(_) => "io",
    }
}
pub fn res_str(r: Result<String, SerializationError>) -> String {
    match r { Ok(s) => format!("ok {}", s), Err(e) => format!("err:{}", err_str(&e)) }
}
pub fn cs(c: Compress) -> &'static str { if c == Compress::Yes { "c" } else { "u" } }
pub fn vs(v: Validate) -> &'static str { if v == Validate::Yes { "y" } else { "n" } }
pub const MODES: [(Compress, Validate); 4] = [
    (Compress::Yes, Validate::Yes), (Compress::Yes, Validate::No), (Compress::No, Validate::Yes), (Compress::No, Validate::No),
];
/// bytes appended to every serialisation before it is read back (the reader must not touch them)
pub const TRAIL: [u8; 2] = [0xa5, 0x5a];

// ------------------------------------------------------------------ test flag types
macro_rules! wflags {
    ($n:ident, $bits:expr) => {
        #[derive(Default, Clone, Copy, PartialEq, Eq, Debug)]
        pub struct $n(pub u8);
        impl Flags for $n {
            const BIT_SIZE: usize = $bits;
            fn u8_bitmask(&self) -> u8 { self.0.checked_shl(8u32.saturating_sub($bits)).unwrap_or(0) }
            fn from_u8(v: u8) -> Option<Self> { Some($n(v.checked_shr(8u32.saturating_sub($bits)).unwrap_or(0))) }
        }
    };
}
wflags!(W3, 3);
wflags!(W8, 8);
wflags!(W9, 9);

/// flag types with a name on the line protocol and a sample of their values
pub trait NF: Flags + PartialEq {
    const NAME: &'static str;
    fn samples() -> Vec<Self>;
}
impl NF for EmptyFlags { const NAME: &'static str = "E"; fn samples() -> Vec<Self> { vec![EmptyFlags] } }
impl NF for sw::SWFlags {
    const NAME: &'static str = "S";
    fn samples() -> Vec<Self> { vec![sw::SWFlags::YIsPositive, sw::SWFlags::PointAtInfinity, sw::SWFlags::YIsNegative] }
}
impl NF for te::TEFlags {
    const NAME: &'static str = "T";
    fn samples() -> Vec<Self> { vec![te::TEFlags::XIsPositive, te::TEFlags::XIsNegative] }
}
impl NF for W3 { const NAME: &'static str = "W3"; fn samples() -> Vec<Self> { (0..8).map(W3).collect() } }
impl NF for W8 { const NAME: &'static str = "W8"; fn samples() -> Vec<Self> { vec![W8(0), W8(1), W8(0x80), W8(0xff), W8(0x5a)] } }
impl NF for W9 { const NAME: &'static str = "W9"; fn samples() -> Vec<Self> { vec![W9(0), W9(1)] } }
pub fn flag_s<Fl: Flags>(f: &Fl) -> String { format!("{:x}", f.u8_bitmask()) }

// ------------------------------------------------------------------ printing
pub fn fe<F: Field>(x: &F) -> String {
    x.to_base_prime_field_elements().map(|c| hex_limbs(c.into_bigint().as_ref())).collect::<Vec<_>>().join(",")
}
pub fn nlimbs<F: Field>() -> usize { F::BasePrimeField::MODULUS.as_ref().len() }
pub fn fdesc<F: Field>(tower: &str) -> String {
    format!("{} {:x} {}", hex_limbs(F::BasePrimeField::MODULUS.as_ref()), nlimbs::<F>(), tower)
}
pub fn h01(b: bool) -> &'static str { if b { "1" } else { "0" } }
pub fn sw_desc<P: sw::SWCurveConfig>(fd: &str) -> String { sw_desc_with::<P>(fd, h01(P::cofactor_is_one())) }
/// `h1`: `0` / `1` (default subgroup test, `cofactor_is_one`) or the parameters of an overriding test
pub fn sw_desc_with<P: sw::SWCurveConfig>(fd: &str, h1: &str) -> String {
    format!("sw {} {} {} {} {}", fd, fe(&P::COEFF_A), fe(&P::COEFF_B),
        hex_limbs(<P::ScalarField as PrimeField>::MODULUS.as_ref()), h1)
}
pub fn te_desc<P: te::TECurveConfig>(fd: &str) -> String {
    format!("te {} {} {} {} {}", fd, fe(&P::COEFF_A), fe(&P::COEFF_D),
        hex_limbs(<P::ScalarField as PrimeField>::MODULUS.as_ref()), h01(P::cofactor_is_one()))
}

/// a representation of a curve point that is (de)serialised: affine or projective, SW or TE
pub trait Rep: CanonicalSerialize + CanonicalDeserialize + Clone {
    const KIND: &'static str;
    fn show(&self) -> String;
    /// validating this value costs the driver no scalar multiplication (SW identity)
    fn trivial(&self) -> bool { false }
}
impl<P: sw::SWCurveConfig> Rep for sw::Affine<P> {
    const KIND: &'static str = "aff";
    fn trivial(&self) -> bool { self.infinity }
    fn show(&self) -> String {
        if self.infinity {
            if self.x.is_zero() && self.y.is_zero() { "inf".into() } else { format!("inf!{}/{}", fe(&self.x), fe(&self.y)) }
        } else { format!("{}/{}", fe(&self.x), fe(&self.y)) }
    }
}
impl<P: sw::SWCurveConfig> Rep for sw::Projective<P> {
    const KIND: &'static str = "proj";
    fn trivial(&self) -> bool { self.z.is_zero() }
    fn show(&self) -> String { format!("{}/{}/{}", fe(&self.x), fe(&self.y), fe(&self.z)) }
}
impl<P: te::TECurveConfig> Rep for te::Affine<P> {
    const KIND: &'static str = "aff";
    fn show(&self) -> String { format!("{}/{}", fe(&self.x), fe(&self.y)) }
}
impl<P: te::TECurveConfig> Rep for te::Projective<P> {
    const KIND: &'static str = "proj";
    fn show(&self) -> String { format!("{}/{}/{}/{}", fe(&self.x), fe(&self.y), fe(&self.t), fe(&self.z)) }
}

// ------------------------------------------------------------------ op emitters: fields
pub fn op_frt<F: Field>(out: &mut Out, fd: &str, x: &F, c: Compress, v: Validate) {
    let input = format!("C09 frt {} {} {} {}", fd, cs(c), vs(v), fe(x));
    let res = guarded(|| {
        let mut bytes = Vec::new();
        if let Err(e) = x.serialize_with_mode(&mut bytes, c) { return format!("err:{}", err_str(&e)); }
        let size = x.serialized_size(c);
        let mut inp = bytes.clone();
        inp.extend_from_slice(&TRAIL);
        let mut rd = CountRd::new(&inp);
        let r = F::deserialize_with_mode(&mut rd, c, v);
        format!("{};{:x};{};{:x}", hex_list_u8(&bytes), size, res_str(r.map(|y| fe(&y))), rd.n)
    });
    out.line(&input, &res);
}
pub fn op_fflrt<F: Field, Fl: NF>(out: &mut Out, fd: &str, x: &F, fl: Fl) {
    let input = format!("C09 fflrt {} {} {} {}", fd, Fl::NAME, flag_s(&fl), fe(x));
    let res = guarded(|| {
        let mut bytes = Vec::new();
        if let Err(e) = x.serialize_with_flags(&mut bytes, fl) { return format!("err:{}", err_str(&e)); }
        let size = x.serialized_size_with_flags::<Fl>();
        let mut inp = bytes.clone();
        inp.extend_from_slice(&TRAIL);
        let mut rd = CountRd::new(&inp);
        let r = F::deserialize_with_flags::<_, Fl>(&mut rd);
        format!("{};{:x};{};{:x}", hex_list_u8(&bytes), size, res_str(r.map(|(y, f)| format!("{} {}", fe(&y), flag_s(&f)))), rd.n)
    });
    out.line(&input, &res);
}
pub fn op_funiq<F: Field, Fl: NF>(out: &mut Out, fd: &str, bytes: &[u8]) {
    let input = format!("C09 funiq {} {} {}", fd, Fl::NAME, hex_list_u8(bytes));
    let res = guarded(|| {
        let mut rd = CountRd::new(bytes);
        let r = F::deserialize_with_flags::<_, Fl>(&mut rd);
        let n = rd.n;
        match r {
            Ok((y, f)) => {
                let mut again = Vec::new();
                let re = match y.serialize_with_flags(&mut again, f) { Ok(()) => hex_list_u8(&again), Err(e) => format!("err:{}", err_str(&e)) };
                format!("ok {} {};{:x};{}", fe(&y), flag_s(&f), n, re)
            },
            Err(e) => format!("err:{};{:x};-", err_str(&e), n),
        }
    });
    out.line(&input, &res);
}
pub fn op_frb<F: Field, Fl: NF>(out: &mut Out, fd: &str, bytes: &[u8]) {
    let input = format!("C09 frb {} {} {}", fd, Fl::NAME, hex_list_u8(bytes));
    let res = guarded(|| match F::from_random_bytes_with_flags::<Fl>(bytes) {
        Some((y, f)) => format!("some {} {}", fe(&y), flag_s(&f)),
        None => "none".into(),
    });
    out.line(&input, &res);
}
pub fn op_mfde<F: Field>(out: &mut Out, fd: &str, bytes: &[u8], c: Compress, v: Validate) {
    let input = format!("C10 mfde {} {} {} {}", fd, cs(c), vs(v), hex_list_u8(bytes));
    let res = guarded(|| {
        let mut rd = CountRd::new(bytes);
        let r = F::deserialize_with_mode(&mut rd, c, v);
        format!("{};{:x}", res_str(r.map(|y| fe(&y))), rd.n)
    });
    out.line(&input, &res);
}
pub fn op_mfdefl<F: Field, Fl: NF>(out: &mut Out, fd: &str, bytes: &[u8]) {
    let input = format!("C10 mfdefl {} {} {}", fd, Fl::NAME, hex_list_u8(bytes));
    let res = guarded(|| {
        let mut rd = CountRd::new(bytes);
        let r = F::deserialize_with_flags::<_, Fl>(&mut rd);
        format!("{};{:x}", res_str(r.map(|(y, f)| format!("{} {}", fe(&y), flag_s(&f)))), rd.n)
    });
    out.line(&input, &res);
}

// ------------------------------------------------------------------ budget of expensive lines
/// Lines whose driver-side cost is a scalar multiplication by `r` over the spec-level affine group
/// (checked modes on shipped curves, `Valid::check`) are counted against this budget; once it is
/// used up `spend` refuses.  Toy curves run with an unlimited budget.
pub static SMUL_BUDGET: std::sync::atomic::AtomicI64 = std::sync::atomic::AtomicI64::new(i64::MAX);
pub fn set_budget(n: i64) { SMUL_BUDGET.store(n, std::sync::atomic::Ordering::Relaxed); }
pub fn spend(k: i64) -> bool {
    let b = SMUL_BUDGET.load(std::sync::atomic::Ordering::Relaxed);
    if b < k { return false; }
    if b != i64::MAX { SMUL_BUDGET.store(b - k, std::sync::atomic::Ordering::Relaxed); }
    true
}

// ------------------------------------------------------------------ op emitters: points
pub fn op_prt<T: Rep>(out: &mut Out, cd: &str, x: &T, c: Compress, v: Validate) {
    if v == Validate::Yes && !spend(1) { return; }
    let input = format!("C09 prt {} {} {} {} {}", cd, T::KIND, cs(c), vs(v), x.show());
    let res = guarded(|| {
        let mut bytes = Vec::new();
        if let Err(e) = x.serialize_with_mode(&mut bytes, c) { return format!("err:{}", err_str(&e)); }
        let size = x.serialized_size(c);
        let mut inp = bytes.clone();
        inp.extend_from_slice(&TRAIL);
        let mut rd = CountRd::new(&inp);
        let r = T::deserialize_with_mode(&mut rd, c, v);
        format!("{};{:x};{};{:x}", hex_list_u8(&bytes), size, res_str(r.map(|y| y.show())), rd.n)
    });
    out.line(&input, &res);
}
pub fn op_mpde<T: Rep>(out: &mut Out, cd: &str, bytes: &[u8], c: Compress, v: Validate) {
    let input = format!("C10 mpde {} {} {} {} {}", cd, T::KIND, cs(c), vs(v), hex_list_u8(bytes));
    let res = guarded(|| {
        let mut rd = CountRd::new(bytes);
        let r = T::deserialize_with_mode(&mut rd, c, v);
        format!("{};{:x}", res_str(r.map(|y| y.show())), rd.n)
    });
    out.line(&input, &res);
}

/// `Valid::check` of one point
pub fn op_pchk<T: Rep>(out: &mut Out, cd: &str, x: &T) {
    if !spend(1) { return; }
    let input = format!("C10 pchk {} {} {}", cd, T::KIND, x.show());
    let res = guarded(|| match x.check() { Ok(()) => "ok".into(), Err(e) => format!("err:{}", err_str(&e)) });
    out.line(&input, &res);
}
/// `Valid::batch_check` of a list of points
pub fn op_pbchk<T: Rep>(out: &mut Out, cd: &str, xs: &[T]) {
    if !spend(xs.len() as i64) { return; }
    let ps = if xs.is_empty() { "_".to_string() } else { xs.iter().map(|x| x.show()).collect::<Vec<_>>().join(";") };
    let input = format!("C10 pbchk {} {} {}", cd, T::KIND, ps);
    let res = guarded(|| match T::batch_check(xs.iter()) { Ok(()) => "ok".into(), Err(e) => format!("err:{}", err_str(&e)) });
    out.line(&input, &res);
}

// ------------------------------------------------------------------ toy scalar fields and curves
macro_rules! tiny_field {
    ($cfg:ident, $ty:ident, $m:literal, $g:literal) => {
        #[derive(MontConfig)]
        #[modulus = $m]
        #[generator = $g]
        pub struct $cfg;
        pub type $ty = Fp<MontBackend<$cfg, 1>, 1>;
    };
}
tiny_field!(S17, F17, "17", "3");
tiny_field!(S29, F29, "29", "2");
tiny_field!(S31, F31, "31", "3");
tiny_field!(S43, F43, "43", "3");
tiny_field!(S47, F47, "47", "5");
tiny_field!(S59, F59, "59", "2");
tiny_field!(S271, F271, "271", "6");

macro_rules! sw_curve {
    ($name:ident, $bf:ty, $sf:ty, $cof:expr, $cofinv:expr, $a:expr, $b:expr, $gx:expr, $gy:expr) => {
        pub struct $name;
        impl CurveConfig for $name {
            type BaseField = $bf;
            type ScalarField = $sf;
            const COFACTOR: &'static [u64] = &[$cof];
            const COFACTOR_INV: $sf = $cofinv;
        }
        impl sw::SWCurveConfig for $name {
            const COEFF_A: $bf = $a;
            const COEFF_B: $bf = $b;
            const GENERATOR: sw::Affine<Self> = sw::Affine::new_unchecked($gx, $gy);
        }
    };
}
macro_rules! te_curve {
    ($name:ident, $bf:ty, $sf:ty, $cof:expr, $cofinv:expr, $a:expr, $d:expr, $gx:expr, $gy:expr, $ma:expr, $mb:expr) => {
        pub struct $name;
        impl CurveConfig for $name {
            type BaseField = $bf;
            type ScalarField = $sf;
            const COFACTOR: &'static [u64] = &[$cof];
            const COFACTOR_INV: $sf = $cofinv;
        }
        impl te::TECurveConfig for $name {
            const COEFF_A: $bf = $a;
            const COEFF_D: $bf = $d;
            const GENERATOR: te::Affine<Self> = te::Affine::new_unchecked($gx, $gy);
            type MontCurveConfig = $name;
        }
        impl te::MontCurveConfig for $name {
            const COEFF_A: $bf = $ma;
            const COEFF_B: $bf = $mb;
            type TECurveConfig = $name;
        }
    };
}
macro_rules! m { ($s:literal) => { MontFp!($s) }; }
macro_rules! q { ($a:literal, $b:literal) => { Fp2::new(MontFp!($a), MontFp!($b)) }; }
tiny_field!(S11, F11, "11", "2");
tiny_field!(S193, F193, "193", "5");
/// F_49 = F_7[u]/(u² + 1)
pub struct Q49;
impl Fp2Config for Q49 {
    type Fp = FDT7;
    const NONRESIDUE: FDT7 = MontFp!("6");
    const FROBENIUS_COEFF_FP2_C1: &'static [FDT7] = &[MontFp!("1"), MontFp!("6")];
}
pub type F49 = Fp2<Q49>;
/// F_169 = F_13[u]/(u² − 2)
pub struct Q169;
impl Fp2Config for Q169 {
    type Fp = FDT13;
    const NONRESIDUE: FDT13 = MontFp!("2");
    const FROBENIUS_COEFF_FP2_C1: &'static [FDT13] = &[MontFp!("1"), MontFp!("12")];
}
pub type F169 = Fp2<Q169>;
use crate::zoo::{FDT127, FDT13, FDT251, FDT257, FDT3, FDT5, FDT7};

// Toy curves (orders, generators, cofactors by brute force: python, re-checked at start-up by `check_*`).
// name     field  a    b   order  r    h   points with y = 0
// SW13B    F_13   0    4   21     7    3   0
// SW13C    F_13   0    1   12     3    4   3
// SW13D    F_13   1    4   14     7    2   1
// SW13E    F_13   1    0   20     5    4   3   (b = 0: the point (0, 0))
// SW13F    F_13   1    6   13     13   1   0
// SW127C   F_127  1    2   136    17   8   3
// SW251A   F_251  1    1   282    47   6   1
// SW251B   F_251  -3   1   232    29   8   3
// SW251C   F_251  1    4   271    271  1   0
// SW257A   F_257  0    1   258    43   6   1
sw_curve!(SW13B, FDT13, FDT7, 3, m!("5"), m!("0"), m!("4"), m!("7"), m!("3"));
sw_curve!(SW13C, FDT13, FDT3, 4, m!("1"), m!("0"), m!("1"), m!("0"), m!("1"));
sw_curve!(SW13D, FDT13, FDT7, 2, m!("4"), m!("1"), m!("4"), m!("0"), m!("2"));
sw_curve!(SW13E, FDT13, FDT5, 4, m!("4"), m!("1"), m!("0"), m!("4"), m!("4"));
sw_curve!(SW13F, FDT13, FDT13, 1, m!("1"), m!("1"), m!("6"), m!("2"), m!("4"));
sw_curve!(SW127C, FDT127, F17, 8, m!("15"), m!("1"), m!("2"), m!("0"), m!("16"));
sw_curve!(SW251A, FDT251, F47, 6, m!("8"), m!("1"), m!("1"), m!("30"), m!("26"));
sw_curve!(SW251B, FDT251, F29, 8, m!("11"), m!("248"), m!("1"), m!("2"), m!("76"));
sw_curve!(SW251C, FDT251, F271, 1, m!("1"), m!("1"), m!("4"), m!("0"), m!("2"));
sw_curve!(SW257A, FDT257, F43, 6, m!("36"), m!("0"), m!("1"), m!("16"), m!("111"));
// over quadratic extensions (the sign rule compares c1 first):
// SW49A    F_49   0     1    48   3    16
// SW49B    F_49   2+3u  4+u  44   11   4
// SW169A   F_169  0     u    193  193  1
sw_curve!(SW49A, F49, FDT3, 16, m!("1"), q!("0", "0"), q!("1", "0"), q!("0", "0"), q!("1", "0"));
sw_curve!(SW49B, F49, F11, 4, m!("3"), q!("2", "3"), q!("4", "1"), q!("2", "6"), q!("1", "4"));
sw_curve!(SW169A, F169, F193, 1, m!("1"), q!("0", "0"), q!("0", "1"), q!("1", "0"), q!("4", "5"));
// Complete twisted-Edwards curves (a a square, d a non-square: the unified affine law is the group law)
// name    field  a   d    order  r   h
// TE13A   F_13   1   7    20     5   4
// TE127A  F_127  1   10   124    31  4
// TE251A  F_251  1   10   236    59  4
// TE251B  F_251  1   56   232    29  8
// TE257A  F_257  -1  19   236    59  4
te_curve!(TE13A, FDT13, FDT5, 4, m!("4"), m!("1"), m!("7"), m!("2"), m!("9"), m!("6"), m!("8"));
te_curve!(TE127A, FDT127, F31, 4, m!("8"), m!("1"), m!("10"), m!("2"), m!("71"), m!("54"), m!("56"));
te_curve!(TE251A, FDT251, F59, 4, m!("15"), m!("1"), m!("10"), m!("10"), m!("92"), m!("137"), m!("139"));
te_curve!(TE251B, FDT251, F29, 8, m!("11"), m!("1"), m!("56"), m!("10"), m!("18"), m!("39"), m!("41"));
te_curve!(TE257A, FDT257, F59, 4, m!("15"), m!("256"), m!("19"), m!("1"), m!("166"), m!("101"), m!("154"));

// ------------------------------------------------------------------ value generators
/// all elements of a toy prime field
pub fn all_elems<F: PrimeField>() -> Vec<F> {
    let p = F::MODULUS.as_ref()[0];
    (0..p).map(small::<F>).collect()
}
/// `s mod p` by double-and-add from `one` (`F::from(u64)` panics on over-limbed configurations)
pub fn small<F: PrimeField>(s: u64) -> F {
    let mut acc = F::zero();
    for bit in (0..64).rev() {
        acc.double_in_place();
        if (s >> bit) & 1 == 1 { acc += F::one(); }
    }
    acc
}
pub fn rand_prime<F: PrimeField>(rng: &mut Rng) -> F {
    let c = small::<F>(1 << 32);
    let mut acc = F::zero();
    for _ in 0..(F::MODULUS.as_ref().len() * 2 + 1) { acc = acc * c + small::<F>(rng.next() >> 32); }
    acc
}
/// all elements of a toy field (prime or extension)
pub fn all_field_elems<F: Field>() -> Vec<F> {
    let p = F::BasePrimeField::MODULUS.as_ref()[0] as usize;
    let k = F::extension_degree() as usize;
    let mut out = Vec::new();
    for mut n in 0..p.pow(k as u32) {
        let mut cs = Vec::with_capacity(k);
        for _ in 0..k { cs.push(small::<F::BasePrimeField>((n % p) as u64)); n /= p; }
        out.push(F::from_base_prime_field_elems(cs).unwrap());
    }
    out
}
pub fn rand_field<F: Field>(rng: &mut Rng) -> F {
    let k = F::extension_degree() as usize;
    F::from_base_prime_field_elems((0..k).map(|_| rand_prime::<F::BasePrimeField>(rng))).unwrap()
}
pub fn small_f<F: Field>(s: u64) -> F { F::from_base_prime_field(small::<F::BasePrimeField>(s)) }
/// deterministic edge elements of a prime field, then `extra` random ones
pub fn edge_prime<F: PrimeField>(rng: &mut Rng, extra: usize) -> Vec<F> {
    let bits = F::MODULUS_BIT_SIZE as u64;
    let two = small::<F>(2);
    let half = two.inverse().unwrap_or(F::zero());
    let mut v = vec![F::zero(), F::one(), -F::one(), two, -two, half, -half];
    // powers of two and their neighbours below the modulus: byte and limb boundaries, the top bit
    let mut ks: Vec<u64> = vec![7, 8, 9, 15, 16, 63, 64, 65, 127, 128];
    ks.push(bits.saturating_sub(1)); ks.push(bits.saturating_sub(2));
    ks.push((bits.saturating_sub(1) / 8) * 8); ks.push((bits.saturating_sub(1) / 64) * 64);
    for k in ks {
        if k < bits {
            let t = two.pow([k]);
            v.push(t); v.push(t - F::one()); v.push(t + F::one());
        }
    }
    for s in [3u64, 0x55, 0x7f, 0x80, 0xff, 0x100] { v.push(small::<F>(s)); v.push(-small::<F>(s)); }
    for _ in 0..extra { v.push(rand_prime::<F>(rng)); }
    let mut w: Vec<F> = Vec::new();
    for x in v { if !w.contains(&x) { w.push(x); } }
    w
}
/// elements of an extension field: coefficient vectors mixing edge values of the prime field
pub fn edge_ext<F: Field>(rng: &mut Rng, n: usize) -> Vec<F>
{
    let k = F::extension_degree() as usize;
    let e = edge_prime::<F::BasePrimeField>(rng, 4);
    let mut v: Vec<F> = Vec::new();
    v.push(F::zero()); v.push(F::one()); v.push(-F::one());
    // one non-zero coordinate at each position (first, last!)
    for i in 0..k {
        for x in [e[2], e[5], e[1]] {
            let mut cs = vec![F::BasePrimeField::zero(); k];
            cs[i] = x;
            v.push(F::from_base_prime_field_elems(cs).unwrap());
        }
    }
    // all coordinates p-1
    v.push(F::from_base_prime_field_elems(vec![e[2]; k]).unwrap());
    while v.len() < n {
        let cs: Vec<F::BasePrimeField> = (0..k).map(|_| if rng.below(3) == 0 { e[rng.below(e.len() as u64) as usize] } else { rand_prime(rng) }).collect();
        v.push(F::from_base_prime_field_elems(cs).unwrap());
    }
    v
}

// ------------------------------------------------------------------ byte-string generators
/// little-endian bytes of `MODULUS + k` (k may be negative), `len` bytes (truncated / zero-extended)
pub fn modulus_plus<F: PrimeField>(k: i64, len: usize) -> Vec<u8> {
    let mut b = F::MODULUS.to_bytes_le();
    b.resize(std::cmp::max(len, b.len()) + 1, 0);
    let mut carry: i128 = k as i128;
    for x in b.iter_mut() {
        let t = *x as i128 + carry;
        *x = t.rem_euclid(256) as u8;
        carry = t.div_euclid(256);
        if carry == 0 { break; }
    }
    b.truncate(len);
    b
}
/// `2^bits + k` as `len` little-endian bytes
pub fn pow2_plus(bits: usize, k: i64, len: usize) -> Vec<u8> {
    let mut b = vec![0u8; std::cmp::max(len, bits / 8 + 1) + 1];
    b[bits / 8] = 1 << (bits % 8);
    let mut carry: i128 = k as i128;
    for x in b.iter_mut() {
        let t = *x as i128 + carry;
        *x = t.rem_euclid(256) as u8;
        carry = t.div_euclid(256);
        if carry == 0 { break; }
    }
    b.truncate(len);
    b
}
/// interesting encodings of one prime-field coordinate in `len` bytes (flag bits clear):
/// 0, 1, p-1, p, p+1, 2^bits - 1, 2^bits (if it fits), all ones, stray single bits above the modulus
pub fn coord_edges<F: PrimeField>(len: usize) -> Vec<Vec<u8>> {
    let bits = F::MODULUS_BIT_SIZE as usize;
    let mut v = vec![vec![0u8; len], modulus_plus::<F>(-1, len), modulus_plus::<F>(0, len), modulus_plus::<F>(1, len),
        pow2_plus(bits, -1, len), vec![0xffu8; len]];
    let mut one = vec![0u8; len]; if len > 0 { one[0] = 1; } v.push(one);
    for b in bits..(8 * len) { v.push(pow2_plus(b, 0, len)); let mut w = pow2_plus(b, 0, len); w[0] |= 1; v.push(w); }
    v
}
/// every truncation of `b` (lengths 0 .. len-1) and `b` with one and with nine trailing bytes
pub fn truncations(b: &[u8]) -> Vec<Vec<u8>> {
    let mut v: Vec<Vec<u8>> = (0..b.len()).map(|k| b[..k].to_vec()).collect();
    let mut l = b.to_vec(); l.push(0x77); v.push(l.clone());
    l.extend_from_slice(&[1, 2, 3, 4, 5, 6, 7, 8]); v.push(l);
    v
}
/// `b` with its byte at `pos` replaced by each of the 256 values
pub fn sweep(b: &[u8], pos: usize) -> Vec<Vec<u8>> {
    (0..=255u8).map(|t| { let mut w = b.to_vec(); w[pos] = t; w }).collect()
}
pub fn all_strings(len: usize) -> Vec<Vec<u8>> {
    let mut v: Vec<Vec<u8>> = vec![vec![]];
    for _ in 0..len {
        let mut w = Vec::with_capacity(v.len() * 256);
        for s in &v { for t in 0..=255u8 { let mut x = s.clone(); x.push(t); w.push(x); } }
        v = w;
    }
    v
}
pub fn rand_bytes(rng: &mut Rng, len: usize) -> Vec<u8> { (0..len).map(|_| rng.next() as u8).collect() }
pub fn dedup(v: Vec<Vec<u8>>) -> Vec<Vec<u8>> {
    let mut seen = std::collections::HashSet::new();
    v.into_iter().filter(|x| seen.insert(x.clone())).collect()
}

// ------------------------------------------------------------------ field byte strings
pub fn ser_fl<F: Field, Fl: NF>(x: &F, fl: Fl) -> Option<Vec<u8>> {
    let mut b = Vec::new();
    x.serialize_with_flags(&mut b, fl).ok().map(|_| b)
}

/// byte strings offered to `deserialize_with_flags::<Fl>` (C09 uniqueness, C10 malformed input): valid encodings, top-byte sweeps,
/// non-reduced integers, stray bits, random strings; exhaustive for sizes ≤ `exh`
pub fn field_strings<F: Field, Fl: NF>(rng: &mut Rng, vals: &[F], exh: usize, sweeps: usize, all_trunc: bool) -> Vec<Vec<u8>>
{
    let size = F::zero().serialized_size_with_flags::<Fl>();
    if <Fl as ark_serialize::Flags>::BIT_SIZE > 8 { return vec![vec![0u8; size], vec![]]; }
    if size <= exh {
        let mut v = all_strings(size);
        if all_trunc { for l in 0..size { v.extend(all_strings(l).into_iter().take(300)); } v.push(vec![7u8; size + 1]); v.push(vec![9u8; size + 9]); }
        return v;
    }
    let k = F::extension_degree() as usize;
    let s0 = F::BasePrimeField::zero().serialized_size_with_flags::<EmptyFlags>();
    let sl = F::BasePrimeField::zero().serialized_size_with_flags::<Fl>();
    assert_eq!(size, (k - 1) * s0 + sl);
    let mut v: Vec<Vec<u8>> = Vec::new();
    let fls = Fl::samples();
    let mut valid: Vec<Vec<u8>> = Vec::new();
    for (i, x) in vals.iter().enumerate() {
        if let Some(b) = ser_fl(x, fls[i % fls.len()]) { valid.push(b); }
    }
    v.extend(valid.iter().take(12).cloned());
    // top byte: every value (flag bits × stray bits × top integer bits)
    let wide = Fl::NAME.starts_with('W');
    for b in valid.iter().take(sweeps) { v.extend(sweep(b, size - 1).into_iter().enumerate().filter(|(i, _)| !wide || i % 8 == 0 || i % 8 == 7).map(|(_, x)| x)); }
    // byte below the top one (where the top integer bits live when the flags spill into an extra byte)
    if sl > s0 { if let Some(b) = valid.get(1) { v.extend(sweep(b, size - 2).into_iter().enumerate().filter(|(i, _)| !wide || i % 8 == 0 || i % 8 == 7).map(|(_, x)| x)); } }
    // coordinate edges at every coordinate position
    let base = valid.get(2).cloned().unwrap_or(vec![0u8; size]);
    for i in 0..k {
        let len = if i + 1 == k { sl } else { s0 };
        for e in coord_edges::<F::BasePrimeField>(len) {
            let mut w = base.clone();
            w[i * s0..i * s0 + len].copy_from_slice(&e);
            v.push(w.clone());
            // the same integer under every flag pattern of the sample
            if i + 1 == k { for fl in &fls { let mut u = w.clone(); u[size - 1] |= fl.u8_bitmask(); v.push(u); } }
        }
    }
    for _ in 0..10 { v.push(rand_bytes(rng, size)); }
    if all_trunc {
        // every truncation; in the quick tier (`sweeps == 1`), for long encodings (towers), every 7th length plus the lengths around each coordinate boundary
        v.extend(truncations(&base).into_iter().filter(|w| size <= 100 || sweeps > 1 || w.len() % 7 == 0 || w.len() % s0 <= 1 || w.len() % s0 == s0 - 1 || w.len() + 2 >= size));
    } else { v.extend(truncations(&base).into_iter().take(if size > 40 { 12 } else { size + 2 })); }
    dedup(v)
}


// ------------------------------------------------------------------ curve point generators
/// all affine points (without the identity) of a toy SW curve over a toy prime field
pub fn sw_all_points<P: sw::SWCurveConfig>() -> Vec<sw::Affine<P>> {
    let el = all_field_elems::<P::BaseField>();
    let mut pts = Vec::new();
    for x in &el { for y in &el {
        let a = sw::Affine::<P>::new_unchecked(*x, *y);
        if a.is_on_curve() { pts.push(a); }
    } }
    pts
}
pub fn te_all_points<P: te::TECurveConfig>() -> Vec<te::Affine<P>> {
    let el = all_field_elems::<P::BaseField>();
    let mut pts = Vec::new();
    for x in &el { for y in &el {
        let a = te::Affine::<P>::new_unchecked(*x, *y);
        if a.is_on_curve() { pts.push(a); }
    } }
    pts
}
/// start-up check of a toy SW curve's table entry: group order, generator order, cofactor
pub fn check_sw<P: sw::SWCurveConfig>(name: &str, order: u64) {
    let pts = sw_all_points::<P>();
    assert_eq!(pts.len() as u64 + 1, order, "{}: group order", name);
    let r = <P::ScalarField as PrimeField>::MODULUS.as_ref()[0];
    assert_eq!(r * P::COFACTOR[0], order, "{}: r*h", name);
    let g = P::GENERATOR;
    assert!(g.is_on_curve() && !g.infinity, "{}: generator", name);
    assert!(g.mul_bigint([r]).into_affine().infinity, "{}: r*G = O", name);
}
pub fn check_te<P: te::TECurveConfig>(name: &str, order: u64) {
    let pts = te_all_points::<P>();
    assert_eq!(pts.len() as u64, order, "{}: group order", name);
    let r = <P::ScalarField as PrimeField>::MODULUS.as_ref()[0];
    assert_eq!(r * P::COFACTOR[0], order, "{}: r*h", name);
    let g = P::GENERATOR;
    assert!(g.is_on_curve() && !g.is_zero(), "{}: generator", name);
    assert!(g.mul_bigint([r]).into_affine().is_zero(), "{}: r*G = O", name);
    // completeness: a square, d non-square
    let is_sq = |v: P::BaseField| v.is_zero() || v.legendre().is_qr();
    assert!(is_sq(P::COEFF_A) && !is_sq(P::COEFF_D), "{}: complete", name);
}
/// Jacobian rescaling `(λ²X, λ³Y, λZ)`
pub fn sw_rescale<P: sw::SWCurveConfig>(p: &sw::Projective<P>, l: P::BaseField) -> sw::Projective<P> {
    let l2 = l * l;
    sw::Projective::<P>::new_unchecked(p.x * l2, p.y * l2 * l, p.z * l)
}
/// extended rescaling `(λX, λY, λT, λZ)`
pub fn te_rescale<P: te::TECurveConfig>(p: &te::Projective<P>, l: P::BaseField) -> te::Projective<P> {
    te::Projective::<P>::new_unchecked(p.x * l, p.y * l, p.t * l, p.z * l)
}
/// a random point of the curve (not necessarily in the prime-order subgroup)
pub fn sw_rand_curve_point<P: sw::SWCurveConfig>(rng: &mut Rng) -> sw::Affine<P> {
    loop {
        let x = rand_field::<P::BaseField>(rng);
        if let Some(p) = sw::Affine::<P>::get_point_from_x_unchecked(x, rng.below(2) == 0) { return p; }
    }
}
pub fn te_rand_curve_point<P: te::TECurveConfig>(rng: &mut Rng) -> te::Affine<P> {
    loop {
        let y = rand_field::<P::BaseField>(rng);
        if let Some(p) = te::Affine::<P>::get_point_from_y_unchecked(y, rng.below(2) == 0) { return p; }
    }
}
/// an `x` with no point on the curve
pub fn sw_rand_noncurve_x<P: sw::SWCurveConfig>(rng: &mut Rng) -> P::BaseField {
    loop {
        let x = rand_field::<P::BaseField>(rng);
        if sw::Affine::<P>::get_ys_from_x_unchecked(x).is_none() { return x; }
    }
}
pub fn te_rand_noncurve_y<P: te::TECurveConfig>(rng: &mut Rng) -> P::BaseField {
    loop {
        let y = rand_field::<P::BaseField>(rng);
        if te::Affine::<P>::get_xs_from_y_unchecked(y).is_none() { return y; }
    }
}
pub fn ser_vec<T: CanonicalSerialize>(x: &T, c: Compress) -> Vec<u8> {
    let mut b = Vec::new();
    x.serialize_with_mode(&mut b, c).unwrap();
    b
}

/// structured sample of SW curve points for shipped curves: subgroup points, curve points outside the
/// subgroup (cofactor > 1), points with a small-order component
pub fn sw_sample<P: sw::SWCurveConfig>(rng: &mut Rng, n: usize) -> (Vec<sw::Affine<P>>, Vec<sw::Affine<P>>) {
    let g = P::GENERATOR;
    let mut sub: Vec<sw::Affine<P>> = vec![sw::Affine::<P>::identity(), g, -g, (g + g).into_affine(), (g + g + g).into_affine()];
    for _ in 0..n {
        let k = rand_prime::<P::ScalarField>(rng);
        sub.push((g * k).into_affine());
    }
    let mut other: Vec<sw::Affine<P>> = Vec::new();
    for _ in 0..n {
        // cofactor > 1: a curve point OUTSIDE the prime-order subgroup (r·Q ≠ O)
        let mut q = sw_rand_curve_point::<P>(rng);
        while !P::cofactor_is_one() && q.mul_bigint(<P::ScalarField as PrimeField>::MODULUS).is_zero() { q = sw_rand_curve_point::<P>(rng); }
        other.push(q);
        if !P::cofactor_is_one() {
            // small-order component T = r·Q, and P + T for a subgroup point P
            let t = q.mul_bigint(<P::ScalarField as PrimeField>::MODULUS);
            other.push(t.into_affine());
            other.push((t + sub[rng.below(sub.len() as u64) as usize]).into_affine());
        }
    }
    (sub, other)
}
pub fn te_sample<P: te::TECurveConfig>(rng: &mut Rng, n: usize) -> (Vec<te::Affine<P>>, Vec<te::Affine<P>>) {
    let g = P::GENERATOR;
    let mut sub: Vec<te::Affine<P>> = vec![te::Affine::<P>::zero(), g, -g, (g + g).into_affine(), (g + g + g).into_affine()];
    for _ in 0..n {
        let k = rand_prime::<P::ScalarField>(rng);
        sub.push((g * k).into_affine());
    }
    let mut other: Vec<te::Affine<P>> = Vec::new();
    for _ in 0..n {
        let mut q = te_rand_curve_point::<P>(rng);
        while !P::cofactor_is_one() && q.mul_bigint(<P::ScalarField as PrimeField>::MODULUS).is_zero() { q = te_rand_curve_point::<P>(rng); }
        other.push(q);
        let t = q.mul_bigint(<P::ScalarField as PrimeField>::MODULUS);
        other.push(t.into_affine());
        other.push((t + sub[rng.below(sub.len() as u64) as usize]).into_affine());
    }
    (sub, other)
}

// ------------------------------------------------------------------ point byte strings (C10)
/// Malformed / borderline encodings derived from valid ones.  `slots` = (offset, len) of each
/// coordinate, the last slot carries the flag bits in its last byte.
/// Returns (core, bulk): `core` is small (flag-bit combinations on valid encodings, coordinate
/// edges p, p+1, 2^bits-1, stray bits), `bulk` holds the top-byte sweeps, every truncation, trailing
/// bytes and random strings.
pub fn point_strings<Fq: PrimeField>(rng: &mut Rng, valid: &[Vec<u8>], size: usize, slots: &[(usize, usize)], sweeps: usize, nrand: usize)
    -> (Vec<Vec<u8>>, Vec<Vec<u8>>) {
    let mut core: Vec<Vec<u8>> = Vec::new();
    let mut bulk: Vec<Vec<u8>> = Vec::new();
    core.extend(valid.iter().cloned());
    // every combination of the two top bits on valid encodings (identity flag on non-zero
    // coordinates, flipped sign, the invalid combination)
    for b in valid.iter().take(4) {
        for top in [0x00u8, 0x40, 0x80, 0xc0] { let mut w = b.clone(); w[size - 1] = (w[size - 1] & 0x3f) | top; core.push(w); }
    }
    let base = valid.iter().find(|b| b.iter().any(|t| *t != 0) && b[size - 1] & 0x40 == 0).cloned().unwrap_or(vec![0u8; size]);
    for (i, (off, len)) in slots.iter().enumerate() {
        for e in coord_edges::<Fq>(*len) {
            let mut w = base.clone();
            w[*off..*off + *len].copy_from_slice(&e);
            core.push(w.clone());
            if i + 1 == slots.len() { for top in [0x40u8, 0x80, 0xc0] { let mut u = w.clone(); u[size - 1] |= top; core.push(u); } }
        }
    }
    for b in valid.iter().take(sweeps) { bulk.extend(sweep(b, size - 1)); }
    let (_, llen) = slots[slots.len() - 1];
    if llen >= 2 { bulk.extend(sweep(&base, size - 2).into_iter().step_by(3)); }
    bulk.extend(truncations(&base));
    if let Some(b) = valid.get(0) { bulk.extend(truncations(b).into_iter().step_by(5)); }
    for _ in 0..nrand { bulk.push(rand_bytes(rng, size)); }
    (dedup(core), dedup(bulk))
}

// ------------------------------------------------------------------ BLS12-381 G2 (test-curves): line tokens
/// tower token of `bls12_381::Fq2 = Fq[u]/(u² + 1)`: `2:<β>` with β = −1 mod q
pub fn g2_tower() -> String {
    use ark_test_curves::bls12_381::Fq;
    format!("2:{}", fe(&(-Fq::from(1u64))))
}
/// parameters of the overriding subgroup test `[X]P = ψ(P)`: `g2:<X>:<X_IS_NEGATIVE>:<K0.c1>:<K1.c0>:<K1.c1>`
pub fn g2_h1() -> String {
    use ark_ec::bls12::Bls12Config;
    use ark_test_curves::bls12_381::{g2, Config};
    format!("g2:{:x}:{}:{}:{}:{}", Config::X[0], h01(Config::X_IS_NEGATIVE),
        fe(&g2::P_POWER_ENDOMORPHISM_COEFF_0.c1), fe(&g2::P_POWER_ENDOMORPHISM_COEFF_1.c0), fe(&g2::P_POWER_ENDOMORPHISM_COEFF_1.c1))
}
