//! Shared helpers: deterministic PRNG, hex printing, edge-pattern generators, output sink.
use std::io::Write;

pub struct Rng(pub u64);
impl Rng {
    pub fn new(seed: u64) -> Self {
        Rng(seed ^ 0x9E37_79B9_7F4A_7C15)
    }
    /// SplitMix64
    pub fn next(&mut self) -> u64 {
        self.0 = self.0.wrapping_add(0x9E37_79B9_7F4A_7C15);
        let mut z = self.0;
        z = (z ^ (z >> 30)).wrapping_mul(0xBF58_476D_1CE4_E5B9);
        z = (z ^ (z >> 27)).wrapping_mul(0x94D0_49BB_1331_11EB);
        z ^ (z >> 31)
    }
    pub fn below(&mut self, n: u64) -> u64 {
        if n == 0 { 0 } else { self.next() % n }
    }
    pub fn limbs<const N: usize>(&mut self) -> [u64; N] {
        let mut r = [0u64; N];
        for x in r.iter_mut() {
            *x = self.next();
        }
        r
    }
}

/// hex of a little-endian limb slice as one big number (no leading zeros, "0" for zero)
pub fn hex_limbs(l: &[u64]) -> String {
    let mut s = String::new();
    let mut started = false;
    for x in l.iter().rev() {
        if started {
            s.push_str(&format!("{:016x}", x));
        } else if *x != 0 {
            s.push_str(&format!("{:x}", x));
            started = true;
        }
    }
    if !started { s.push('0'); }
    s
}
pub fn hex_bytes_le(b: &[u8]) -> String {
    // value of little-endian bytes
    let mut s = String::new();
    let mut started = false;
    for x in b.iter().rev() {
        if started { s.push_str(&format!("{:02x}", x)); }
        else if *x != 0 { s.push_str(&format!("{:x}", x)); started = true; }
    }
    if !started { s.push('0'); }
    s
}
pub fn hex_list_u8(b: &[u8]) -> String {
    if b.is_empty() { return "_".into(); }
    b.iter().map(|x| format!("{:x}", x)).collect::<Vec<_>>().join(",")
}
pub fn hex_list_u64(b: &[u64]) -> String {
    if b.is_empty() { return "_".into(); }
    b.iter().map(|x| format!("{:x}", x)).collect::<Vec<_>>().join(",")
}
pub fn hex_i64(x: i64) -> String {
    if x < 0 { format!("-{:x}", (x as i128).unsigned_abs()) } else { format!("{:x}", x) }
}
pub fn hex_list_i64(b: &[i64]) -> String {
    if b.is_empty() { return "_".into(); }
    b.iter().map(|x| hex_i64(*x)).collect::<Vec<_>>().join(",")
}
pub fn bits_str(b: &[bool]) -> String {
    if b.is_empty() { return "_".into(); }
    b.iter().map(|x| if *x { '1' } else { '0' }).collect()
}

/// interesting u64 limb patterns
pub const EDGE_LIMBS: [u64; 12] = [
    0, 1, 2, 3, u64::MAX, u64::MAX - 1, 1 << 63, (1 << 63) - 1, (1 << 63) + 1, 1 << 32, 0xFFFF_FFFF, 0xAAAA_AAAA_AAAA_AAAA,
];

/// deterministic edge set of N-limb values followed by `extra` random ones
pub fn edge_values<const N: usize>(rng: &mut Rng, extra: usize) -> Vec<[u64; N]> {
    let mut v: Vec<[u64; N]> = Vec::new();
    v.push([0; N]);
    let mut one = [0; N]; one[0] = 1; v.push(one);
    v.push([u64::MAX; N]);
    let mut m1 = [u64::MAX; N]; m1[0] = u64::MAX - 1; v.push(m1);
    // top bit only, all but top bit
    let mut t = [0; N]; t[N - 1] = 1 << 63; v.push(t);
    let mut t2 = [u64::MAX; N]; t2[N - 1] = (1 << 63) - 1; v.push(t2);
    // values adjacent to limb boundaries
    for k in 0..N {
        let mut a = [0; N]; a[k] = 1; v.push(a);               // 2^(64k)
        let mut b = [0; N]; for j in 0..k { b[j] = u64::MAX; } v.push(b); // 2^(64k)-1
        let mut c = [0; N]; c[k] = u64::MAX; v.push(c);
        let mut d = [u64::MAX; N]; d[k] = 0; v.push(d);
    }
    // small
    for s in [2u64, 3, 4, 5, 7, 8, 15, 16, 255] { let mut a = [0; N]; a[0] = s; v.push(a); }
    // per-limb edge patterns, random positions
    for _ in 0..extra {
        let mut a = [0u64; N];
        for x in a.iter_mut() {
            *x = match rng.below(4) { 0 => EDGE_LIMBS[rng.below(12) as usize], _ => rng.next() };
        }
        // sometimes clear top limbs (short values)
        if rng.below(4) == 0 { let k = rng.below(N as u64) as usize; for j in k..N { a[j] = 0; } }
        v.push(a);
    }
    v.sort(); v.dedup();
    v
}

pub struct Out {
    w: std::io::BufWriter<std::io::Stdout>,
    pub count: u64,
}
impl Out {
    pub fn new() -> Self { Out { w: std::io::BufWriter::with_capacity(1 << 20, std::io::stdout()), count: 0 } }
    /// one op line: "<input> => <impl result>"
    pub fn line(&mut self, input: &str, result: &str) {
        writeln!(self.w, "{} => {}", input, result).unwrap();
        self.count += 1;
    }
    pub fn flush(&mut self) { self.w.flush().unwrap(); }
}

/// run a closure, mapping a panic to the string "panic"
pub fn guarded<F: FnOnce() -> String>(f: F) -> String {
    match std::panic::catch_unwind(std::panic::AssertUnwindSafe(f)) { Ok(s) => s, Err(_) => "panic".into() }
}
