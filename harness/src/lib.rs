//! arkharness: shared helpers of the per-property harness binaries (src/bin/cNN.rs).
//! Each binary runs the real arkworks code on structured inputs and prints one
//! `<op line> => <impl result>` per operation (see /verif/DESIGN.md §2.3/2.4).
#![allow(dead_code, deprecated)]
pub mod util;
pub mod zoo;
pub mod serial_common;

/// common command line: `<bin> [quick|thorough] [seed] [only]`
pub struct Args { pub thorough: bool, pub seed: u64, pub only: Option<String> }
pub fn args() -> Args {
    std::panic::set_hook(Box::new(|_| {})); // silence panic messages from catch_unwind'ed ops
    let a: Vec<String> = std::env::args().collect();
    Args { thorough: a.get(1).map(|s| s == "thorough").unwrap_or(false),
           seed: a.get(2).and_then(|s| s.parse().ok()).unwrap_or(0),
           only: a.get(3).cloned() }
}
