#![allow(dead_code, deprecated)]
//! arkharness: runs the real arkworks code on structured inputs and prints one
//! `<op line> => <impl result>` per operation (see /verif/DESIGN.md §2.3/2.4).
mod util;
mod zoo;
mod c15;
mod c01;

fn main() {
    std::panic::set_hook(Box::new(|_| {})); // silence panic messages from catch_unwind'ed ops
    let args: Vec<String> = std::env::args().collect();
    if args.len() < 2 { eprintln!("usage: arkharness <prop> [quick|thorough] [seed]"); std::process::exit(2); }
    let thorough = args.get(2).map(|s| s == "thorough").unwrap_or(false);
    let seed: u64 = args.get(3).and_then(|s| s.parse().ok()).unwrap_or(0);
    let only: Option<String> = args.get(4).cloned();
    let mut rng = util::Rng::new(seed);
    let mut out = util::Out::new();
    match args[1].as_str() {
        "C15" => c15::run(&mut rng, thorough, &mut out),
        "C01" => c01::run(&mut rng, thorough, &mut out, &only),
        p => { eprintln!("unknown property {}", p); std::process::exit(2); }
    }
    out.flush();
}
