#!/bin/sh
# Builds the framework offline from files on disk: Lean model + driver + the theorem modules of
# every claimed property, and the Rust harness binaries against /repo's current tree (hooks on).
cd "$(dirname "$0")"
export CARGO_NET_OFFLINE=true
cp -f /repo/Cargo.lock harness/Cargo.lock
CLAIMED=$(python3 -c "
import sys; sys.path.insert(0,'tools'); import props
print(' '.join(k for k,v in props.PROPS.items() if v.get('claimed', True)))")
MODS=$(python3 -c "
import sys; sys.path.insert(0,'tools'); import props
print(' '.join(sorted({m for k,v in props.PROPS.items() if v.get('claimed', True) for m in v['modules'] if not m.startswith('Ark.Gen')})))")
echo "claimed: $CLAIMED"
for p in $CLAIMED; do
  crate=$(python3 -c "
import sys; sys.path.insert(0,'tools'); import props
print(props.PROPS['$p'].get('crate','harness'))")
  bin=$(echo $p | tr 'A-Z' 'a-z')
  [ -f "$crate/Cargo.lock" ] || cp -f /repo/Cargo.lock "$crate/Cargo.lock"
  par=$(python3 -c "
import sys; sys.path.insert(0,'tools'); import props
print('1' if props.PROPS['$p'].get('parallel') else '')")
  if [ -n "$par" ]; then
    (cd $crate && cargo build --release --offline --features parallel --bin $bin --target-dir target-par 2>&1 | tail -2)
  else
    (cd $crate && cargo build --release --offline --bin $bin --target-dir target 2>&1 | tail -2)
  fi
done
# extra correspondence streams (per-curve-crate parts living in harness2) and the constant dump used by gen_from
EXTRA=$(python3 -c "
import sys; sys.path.insert(0,'tools'); import props
s=set()
for k,v in props.PROPS.items():
    for e in v.get('extra_streams', []): s.add(e['crate']+':'+e['bin'])
    if v.get('gen_from'): s.add(props.PROPS[v['gen_from']].get('crate','harness')+':'+v['gen_from'].lower())
print(' '.join(sorted(s)))")
for cb in $EXTRA; do
  crate=${cb%%:*}; bin=${cb##*:}
  (cd $crate && cargo build --release --offline --bin $bin --target-dir target 2>&1 | tail -1)
done
(cd lean && lake build arkdrv Ark.Audit $MODS 2>&1 | tail -5)
exit 0
