#!/bin/sh
# Builds the framework offline from files on disk: Lean model + driver + all theorem
# modules, and the Rust harness against /repo's current tree (hooks on).
set -e
cd "$(dirname "$0")"
export CARGO_NET_OFFLINE=true
cp -f /repo/Cargo.lock harness/Cargo.lock
(cd harness && cargo build --release --offline --bins --target-dir target 2>&1 | tail -3)
(cd lean && lake build arkdrv Ark 2>&1 | tail -5)
